package main

// Unit inputs of the deploy-facts extractor: the kept harmless rewrites (../benign/C13-*) must give exactly the facts of the
// unchanged tree (the extractor recognises the construct, not the spelling); the kept breaking changes that touch an extracted
// construct (../seeded/C13-*) must change a fact or be reported with the name of the fact that could not be located.
// Run: cd extract && GOFLAGS=-mod=mod GOPROXY=off GOSUMDB=off GOTOOLCHAIN=local go test -run TestDeployFacts .
// (VERIF_REPO selects the repository, default /repo; needs the `patch` command; rewrites that are not there are skipped.)

import (
	"os"
	"os/exec"
	"path/filepath"
	"strings"
	"testing"
)

func factsOf(t *testing.T, repo string) (string, error) {
	out := filepath.Join(t.TempDir(), "DeployFacts.lean")
	if err := deployFacts(repo, out); err != nil {
		return "", err
	}
	b, err := os.ReadFile(out)
	if err != nil {
		t.Fatal(err)
	}
	// the header quotes the loop as found; compare the definitions only
	s := string(b)
	return s[strings.Index(s, "namespace"):], nil
}

func patched(t *testing.T, repo, patch string) string {
	dir := t.TempDir()
	if out, err := exec.Command("cp", "-r", filepath.Join(repo, "deploy"), filepath.Join(dir, "deploy")).CombinedOutput(); err != nil {
		t.Fatalf("%v: %s", err, out)
	}
	abs, err := filepath.Abs(patch)
	if err != nil {
		t.Fatal(err)
	}
	if out, err := exec.Command("patch", "-s", "-p1", "-d", dir, "-i", abs).CombinedOutput(); err != nil {
		t.Fatalf("patch does not apply: %s", out)
	}
	return dir
}

func TestDeployFacts(t *testing.T) {
	repo := os.Getenv("VERIF_REPO")
	if repo == "" {
		repo = "/repo"
	}
	base, err := factsOf(t, repo)
	if err != nil {
		t.Fatalf("unchanged tree: %v", err)
	}
	for _, want := range []string{"def leaderLoopLo (_n : Nat) : Nat := 1", "def leaderLoopHi (n : Nat) : Nat := n", "def appendSorted : Bool := true",
		"def needRemoteIsMajorityMinusOne : Bool := true", "def breakWhenEnough : Bool := true", "def leaderStoreOff : Nat := 0",
		"def signerReplacesOutdatedRecord : Bool := true", `def precheckRoles : List String := ["P2PNotary", "NeoFSAlphabet"]`} {
		if !strings.Contains(base, want) {
			t.Errorf("unchanged tree: fact %q missing", want)
		}
	}
	benign, _ := filepath.Glob("../benign/C13-*/patch.diff")
	for _, p := range benign {
		p := p
		t.Run("benign/"+filepath.Base(filepath.Dir(p)), func(t *testing.T) {
			got, err := factsOf(t, patched(t, repo, p))
			if err != nil {
				t.Fatalf("harmless rewrite is not recognised: %v", err)
			}
			if got != base {
				t.Fatalf("harmless rewrite changes the facts:\n%s", got)
			}
		})
	}
	// breaking changes of an extracted construct: name → what must show (a changed definition, or the named fact in the error)
	seeded := map[string]string{
		"C13-4": `def precheckRoles : List String := ["P2PNotary", "P2PNotary"]`,
		"C13-5": "error:fact leaderLoopLo/leaderLoopHi",
		"C13-6": "def signerReplacesOutdatedRecord : Bool := false",
	}
	for name, want := range seeded {
		name, want := name, want
		t.Run("seeded/"+name, func(t *testing.T) {
			p := filepath.Join("..", "seeded", name, "patch.diff")
			if _, err := os.Stat(p); err != nil {
				t.Skip("not kept here")
			}
			got, err := factsOf(t, patched(t, repo, p))
			if strings.HasPrefix(want, "error:") {
				if err == nil || !strings.Contains(err.Error(), strings.TrimPrefix(want, "error:")) {
					t.Fatalf("expected an error naming %q, got %v", strings.TrimPrefix(want, "error:"), err)
				}
				return
			}
			if err != nil {
				t.Fatal(err)
			}
			if !strings.Contains(got, want) {
				t.Fatalf("fact %q not found in\n%s", want, got)
			}
		})
	}
}
