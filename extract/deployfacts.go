// deployfacts: `extract deployfacts <repo> <out.lean>` (dispatched from init, main.go stays untouched).
//
// Reads deploy/notary.go, deploy/deploy.go and deploy/nns.go of the repository under test with go/ast and
// writes NeoFS/Generated/DeployFacts.lean: the index maps of the Notary bootstrap (which signature domains the
// leader reads, which committee key it verifies each with, where it stores the signature, in which order the
// collected signatures are appended, under which domain a signer publishes), the leader's index, the number of
// remote signatures it waits for, the transaction monitor consulted before the designation is sent, the NNS
// names of the deployment stages, and WHICH node role each pre-check (checkCommitteeRoles), each role stage's loop,
// each designation and initVoteForAlphabet names. The Lean model NeoFS/Model/NotaryBootstrap.lean takes the maps from here
// (`current`), so a change of a loop bound or of an index breaks the corollaries about the code under test.
//
// The extractor recognises a fixed family of shapes (`for i := A; i < len(prm.committee)[±c]; i++`,
// `for i := range prm.committee[A:]`, `for i := range len(prm.committee)`, index expressions `i`, `i+c`, `c+i`);
// anything else is reported as an error: the model would no longer mirror the code.
package main

import (
	"fmt"
	"go/ast"
	"go/parser"
	"go/printer"
	"go/token"
	"os"
	"path/filepath"
	"strconv"
	"strings"
)

func init() {
	if len(os.Args) >= 2 && os.Args[1] == "deployfacts" {
		if len(os.Args) != 4 {
			fmt.Fprintln(os.Stderr, "usage: extract deployfacts <repo> <out.lean>")
			os.Exit(2)
		}
		if err := deployFacts(os.Args[2], os.Args[3]); err != nil {
			fmt.Fprintln(os.Stderr, "deployfacts:", err)
			os.Exit(1)
		}
		os.Exit(0)
	}
}

type dfacts struct {
	loNat, hiNat                      string // Lean terms in n
	domOff, keyOff, storeOff, sdOff   int
	sorted, needMinusOne, breakEnough bool
	leaderIndex                       int
	guardMonitor                      string
	stages                            []string
	roles                             roleFacts
	loopText                          string
}

func findFunc(f *ast.File, name string) *ast.FuncDecl {
	for _, d := range f.Decls {
		if fd, ok := d.(*ast.FuncDecl); ok && fd.Name.Name == name && fd.Recv == nil {
			return fd
		}
	}
	return nil
}

func exprStr(fset *token.FileSet, e ast.Node) string {
	var b strings.Builder
	_ = printer.Fprint(&b, fset, e)
	return b.String()
}

// isCommittee: prm.committee
func isCommittee(e ast.Expr) bool {
	s, ok := e.(*ast.SelectorExpr)
	if !ok || s.Sel.Name != "committee" {
		return false
	}
	id, ok := s.X.(*ast.Ident)
	return ok && id.Name == "prm"
}

// isLenCommittee: len(prm.committee)
func isLenCommittee(e ast.Expr) bool {
	c, ok := e.(*ast.CallExpr)
	if !ok || len(c.Args) != 1 {
		return false
	}
	id, ok := c.Fun.(*ast.Ident)
	return ok && id.Name == "len" && isCommittee(c.Args[0])
}

func intLit(e ast.Expr) (int, bool) {
	bl, ok := e.(*ast.BasicLit)
	if !ok || bl.Kind != token.INT {
		return 0, false
	}
	v, err := strconv.Atoi(bl.Value)
	return v, err == nil
}

// offsetOf: e is `v`, `v + c` or `c + v` → c
func offsetOf(e ast.Expr, v string) (int, bool) {
	if p, ok := e.(*ast.ParenExpr); ok {
		return offsetOf(p.X, v)
	}
	if id, ok := e.(*ast.Ident); ok && id.Name == v {
		return 0, true
	}
	if b, ok := e.(*ast.BinaryExpr); ok && b.Op == token.ADD {
		if id, ok := b.X.(*ast.Ident); ok && id.Name == v {
			if c, ok := intLit(b.Y); ok {
				return c, true
			}
		}
		if id, ok := b.Y.(*ast.Ident); ok && id.Name == v {
			if c, ok := intLit(b.X); ok {
				return c, true
			}
		}
	}
	return 0, false
}

func containsCall(n ast.Node, fn string) *ast.CallExpr {
	var res *ast.CallExpr
	ast.Inspect(n, func(x ast.Node) bool {
		if c, ok := x.(*ast.CallExpr); ok && res == nil {
			if id, ok := c.Fun.(*ast.Ident); ok && id.Name == fn {
				res = c
			}
		}
		return res == nil
	})
	return res
}

// lenMinus: `len(prm.committee)`, `len(prm.committee) - c`, `len(prm.committee) + c` → Lean term in n
func lenTerm(e ast.Expr) (string, bool) {
	if isLenCommittee(e) {
		return "n", true
	}
	if b, ok := e.(*ast.BinaryExpr); ok && isLenCommittee(b.X) {
		if c, ok := intLit(b.Y); ok {
			switch b.Op {
			case token.SUB:
				return fmt.Sprintf("n - %d", c), true
			case token.ADD:
				return fmt.Sprintf("n + %d", c), true
			}
		}
	}
	return "", false
}

func leaderFacts(fset *token.FileSet, fd *ast.FuncDecl, out *dfacts) error {
	const domFn = "designateNotarySignatureDomainForMember"
	var loop ast.Stmt
	var loopVar string
	var body *ast.BlockStmt
	ast.Inspect(fd.Body, func(x ast.Node) bool {
		switch s := x.(type) {
		case *ast.ForStmt:
			if containsCall(s.Body, domFn) != nil {
				loop, body = s, s.Body
			}
		case *ast.RangeStmt:
			if containsCall(s.Body, domFn) != nil {
				loop, body = s, s.Body
			}
		}
		return true
	})
	if loop == nil {
		return fmt.Errorf("leader: no loop calling %s found", domFn)
	}
	out.loopText = strings.SplitN(exprStr(fset, loop), "\n", 2)[0]
	switch s := loop.(type) {
	case *ast.ForStmt:
		as, ok := s.Init.(*ast.AssignStmt)
		if !ok || len(as.Lhs) != 1 || len(as.Rhs) != 1 {
			return fmt.Errorf("leader loop: unsupported init in %q", out.loopText)
		}
		loopVar = as.Lhs[0].(*ast.Ident).Name
		lo, ok := intLit(as.Rhs[0])
		if !ok {
			return fmt.Errorf("leader loop: start is not a literal in %q", out.loopText)
		}
		out.loNat = strconv.Itoa(lo)
		cond, ok := s.Cond.(*ast.BinaryExpr)
		if !ok {
			return fmt.Errorf("leader loop: unsupported condition in %q", out.loopText)
		}
		if id, ok := cond.X.(*ast.Ident); !ok || id.Name != loopVar {
			return fmt.Errorf("leader loop: condition is not on %s in %q", loopVar, out.loopText)
		}
		t, ok := lenTerm(cond.Y)
		if !ok {
			return fmt.Errorf("leader loop: bound is not len(prm.committee)±c in %q", out.loopText)
		}
		switch cond.Op {
		case token.LSS:
			out.hiNat = t
		case token.LEQ:
			out.hiNat = t + " + 1"
		default:
			return fmt.Errorf("leader loop: unsupported comparison in %q", out.loopText)
		}
		inc, ok := s.Post.(*ast.IncDecStmt)
		if !ok || inc.Tok != token.INC {
			return fmt.Errorf("leader loop: step is not ++ in %q", out.loopText)
		}
	case *ast.RangeStmt:
		id, ok := s.Key.(*ast.Ident)
		if !ok || s.Value != nil {
			return fmt.Errorf("leader loop: unsupported range variables in %q", out.loopText)
		}
		loopVar = id.Name
		out.loNat = "0"
		switch x := s.X.(type) {
		case *ast.SliceExpr: // prm.committee[a:] or prm.committee[a:b]
			if !isCommittee(x.X) {
				return fmt.Errorf("leader loop: range over something else than prm.committee in %q", out.loopText)
			}
			a := 0
			if x.Low != nil {
				if a, ok = intLit(x.Low); !ok {
					return fmt.Errorf("leader loop: slice start is not a literal in %q", out.loopText)
				}
			}
			hi := "n"
			if x.High != nil {
				if hi, ok = lenTerm(x.High); !ok {
					return fmt.Errorf("leader loop: slice end unsupported in %q", out.loopText)
				}
			}
			out.hiNat = fmt.Sprintf("(%s) - %d", hi, a)
		default:
			if isCommittee(s.X) || isLenCommittee(s.X) {
				out.hiNat = "n"
			} else {
				return fmt.Errorf("leader loop: unsupported range expression in %q", out.loopText)
			}
		}
	}
	// domain index
	call := containsCall(body, domFn)
	off, ok := offsetOf(call.Args[0], loopVar)
	if !ok {
		return fmt.Errorf("leader loop: domain index %q is not %s+c", exprStr(fset, call.Args[0]), loopVar)
	}
	out.domOff = off
	// key index: prm.committee[X].VerifyHashable(...)
	keySeen, storeSeen := false, false
	var ferr error
	ast.Inspect(body, func(x ast.Node) bool {
		switch e := x.(type) {
		case *ast.CallExpr:
			if sel, ok := e.Fun.(*ast.SelectorExpr); ok && sel.Sel.Name == "VerifyHashable" {
				ix, ok := sel.X.(*ast.IndexExpr)
				if !ok || !isCommittee(ix.X) {
					ferr = fmt.Errorf("leader loop: VerifyHashable is not called on prm.committee[...]")
					return false
				}
				o, ok := offsetOf(ix.Index, loopVar)
				if !ok {
					ferr = fmt.Errorf("leader loop: key index %q is not %s+c", exprStr(fset, ix.Index), loopVar)
					return false
				}
				out.keyOff, keySeen = o, true
			}
		case *ast.AssignStmt:
			if len(e.Lhs) == 1 {
				if ix, ok := e.Lhs[0].(*ast.IndexExpr); ok {
					if id, ok := ix.X.(*ast.Ident); ok && id.Name == "mCommitteeIndexToSignature" {
						o, ok := offsetOf(ix.Index, loopVar)
						if !ok {
							ferr = fmt.Errorf("leader loop: store index %q is not %s+c", exprStr(fset, ix.Index), loopVar)
							return false
						}
						out.storeOff, storeSeen = o, true
					}
				}
			}
		case *ast.IfStmt:
			// if len(mCommitteeIndexToSignature) == needRemoteSignatures { break }
			if b, ok := e.Cond.(*ast.BinaryExpr); ok && b.Op == token.EQL && len(e.Body.List) == 1 {
				if br, ok := e.Body.List[0].(*ast.BranchStmt); ok && br.Tok == token.BREAK {
					if strings.Contains(exprStr(fset, b), "len(mCommitteeIndexToSignature) == needRemoteSignatures") {
						out.breakEnough = true
					}
				}
			}
		}
		return true
	})
	if ferr != nil {
		return ferr
	}
	if !keySeen || !storeSeen {
		return fmt.Errorf("leader loop: verification (%v) or map store (%v) not found", keySeen, storeSeen)
	}
	// needRemoteSignatures := committeeMultiSigM - 1 ; committeeMultiSigM := smartcontract.GetMajorityHonestNodeCount(len(prm.committee))
	src := exprStr(fset, fd)
	out.needMinusOne = strings.Contains(src, "needRemoteSignatures := committeeMultiSigM - 1") &&
		strings.Contains(src, "committeeMultiSigM := smartcontract.GetMajorityHonestNodeCount(len(prm.committee))")
	// order of appending: the loop that copies signatures into the invocation script
	var appendLoops []*ast.RangeStmt
	ast.Inspect(fd.Body, func(x ast.Node) bool {
		if r, ok := x.(*ast.RangeStmt); ok && containsCall(r.Body, "copy") != nil {
			appendLoops = append(appendLoops, r)
		}
		return true
	})
	if len(appendLoops) != 1 {
		return fmt.Errorf("leader: %d loops copy signatures into the script, expected 1", len(appendLoops))
	}
	switch x := appendLoops[0].X.(type) {
	case *ast.Ident:
		if x.Name == "mCommitteeIndexToSignature" {
			out.sorted = false // Go map iteration order
		} else {
			// ranged over a slice: it must be the sorted list of the map's keys
			sortedCall := strings.Contains(src, "slices.Sort("+x.Name+")") || strings.Contains(src, "sort.Ints("+x.Name+")")
			fromMap := strings.Contains(src, "for i := range mCommitteeIndexToSignature {\n\t\t\t\t"+x.Name+" = append("+x.Name+", i)") ||
				strings.Contains(src, x.Name+" = append("+x.Name+", i)")
			if !fromMap {
				return fmt.Errorf("leader: append loop ranges over %s which is not built from the map's keys", x.Name)
			}
			out.sorted = sortedCall
		}
	default:
		return fmt.Errorf("leader: unsupported range in the append loop")
	}
	// which monitor guards the sending: `if X.isPending() {...} else if triedDesignateRoleTx {`
	ast.Inspect(fd.Body, func(x ast.Node) bool {
		if s, ok := x.(*ast.IfStmt); ok && s.Else != nil {
			if e, ok := s.Else.(*ast.IfStmt); ok {
				if id, ok := e.Cond.(*ast.Ident); ok && id.Name == "triedDesignateRoleTx" {
					if c, ok := s.Cond.(*ast.CallExpr); ok {
						if sel, ok := c.Fun.(*ast.SelectorExpr); ok && sel.Sel.Name == "isPending" {
							out.guardMonitor = exprStr(fset, sel.X)
						}
					}
				}
			}
		}
		return true
	})
	if out.guardMonitor == "" {
		return fmt.Errorf("leader: guard `if <monitor>.isPending() ... else if triedDesignateRoleTx` not found")
	}
	return nil
}

// roleFacts: which node role each pre-check, stage loop and designation of the role stages names.
type roleFacts struct {
	precheck                   []string // roles queried by checkCommitteeRoles, in the order of its results
	guardNotary, guardAlphabet int      // position (among these results) of the flag that lets Deploy skip the stage
	loopNotary, loopAlphabet   string   // role the stage's own loop checks before it returns
	desNotary, desAlphabet     string   // role the stage designates
	voteNeeds                  string   // role whose members initVoteForAlphabet requires
}

// roleArg: `noderoles.X` → "X"
func roleArg(e ast.Expr) (string, bool) {
	s, ok := e.(*ast.SelectorExpr)
	if !ok {
		return "", false
	}
	if id, ok := s.X.(*ast.Ident); !ok || id.Name != "noderoles" {
		return "", false
	}
	return s.Sel.Name, true
}

// callsNamed collects the calls of a function or method with the given name (prefix match when the name ends in *).
func callsNamed(n ast.Node, name string) []*ast.CallExpr {
	var res []*ast.CallExpr
	match := func(s string) bool {
		if strings.HasSuffix(name, "*") {
			return strings.HasPrefix(s, name[:len(name)-1])
		}
		return s == name
	}
	ast.Inspect(n, func(x ast.Node) bool {
		if c, ok := x.(*ast.CallExpr); ok {
			switch f := c.Fun.(type) {
			case *ast.Ident:
				if match(f.Name) {
					res = append(res, c)
				}
			case *ast.SelectorExpr:
				if match(f.Sel.Name) {
					res = append(res, c)
				}
			}
		}
		return true
	})
	return res
}

// oneRole: all calls of `name` inside n name the same role constant as their first argument
func oneRole(n ast.Node, name, where string) (string, error) {
	cs := callsNamed(n, name)
	if len(cs) == 0 {
		return "", fmt.Errorf("%s: no call of %s", where, name)
	}
	role := ""
	for _, c := range cs {
		if len(c.Args) == 0 {
			return "", fmt.Errorf("%s: %s without arguments", where, name)
		}
		r, ok := roleArg(c.Args[0])
		if !ok {
			return "", fmt.Errorf("%s: first argument of %s is not a noderoles constant", where, name)
		}
		if role != "" && role != r {
			return "", fmt.Errorf("%s: %s is called with different roles (%s, %s)", where, name, role, r)
		}
		role = r
	}
	return role, nil
}

func extractRoleFacts(dep, notary, alphabet *ast.File, out *roleFacts) error {
	// checkCommitteeRoles: `x, err := checkRole(noderoles.R, …)` … `return a, b, nil`
	cf := findFunc(dep, "checkCommitteeRoles")
	if cf == nil {
		return fmt.Errorf("checkCommitteeRoles not found")
	}
	byVar := map[string]string{}
	var results []string
	var ferr error
	ast.Inspect(cf.Body, func(x ast.Node) bool {
		switch st := x.(type) {
		case *ast.AssignStmt:
			if len(st.Lhs) == 2 && len(st.Rhs) == 1 {
				if c, ok := st.Rhs[0].(*ast.CallExpr); ok {
					if id, ok := c.Fun.(*ast.Ident); ok && id.Name == "checkRole" && len(c.Args) > 0 {
						r, ok := roleArg(c.Args[0])
						v, ok2 := st.Lhs[0].(*ast.Ident)
						if !ok || !ok2 {
							ferr = fmt.Errorf("checkCommitteeRoles: unsupported checkRole call")
							return false
						}
						byVar[v.Name] = r
					}
				}
			}
		case *ast.ReturnStmt:
			if len(st.Results) == 3 {
				if id, ok := st.Results[2].(*ast.Ident); ok && id.Name == "nil" {
					results = nil
					for _, e := range st.Results[:2] {
						v, ok := e.(*ast.Ident)
						if !ok {
							ferr = fmt.Errorf("checkCommitteeRoles: result is not a variable")
							return false
						}
						results = append(results, v.Name)
					}
				}
			}
		}
		return true
	})
	if ferr != nil {
		return ferr
	}
	if len(results) != 2 {
		return fmt.Errorf("checkCommitteeRoles: successful `return a, b, nil` not found")
	}
	for _, v := range results {
		r, ok := byVar[v]
		if !ok {
			return fmt.Errorf("checkCommitteeRoles: result %s does not come from checkRole", v)
		}
		out.precheck = append(out.precheck, r)
	}
	// Deploy: `a, b, err := checkCommitteeRoles(…)`, `if !a { … enableNotary(…) }`, `if !b { … designateNeoFSAlphabet(…) }`
	df := findFunc(dep, "Deploy")
	if df == nil {
		return fmt.Errorf("Deploy not found")
	}
	pos := map[string]int{}
	ast.Inspect(df.Body, func(x ast.Node) bool {
		if as, ok := x.(*ast.AssignStmt); ok && len(as.Rhs) == 1 && len(as.Lhs) == 3 {
			if c, ok := as.Rhs[0].(*ast.CallExpr); ok {
				if id, ok := c.Fun.(*ast.Ident); ok && id.Name == "checkCommitteeRoles" {
					for i, l := range as.Lhs[:2] {
						if v, ok := l.(*ast.Ident); ok {
							pos[v.Name] = i
						}
					}
				}
			}
		}
		return true
	})
	if len(pos) != 2 {
		return fmt.Errorf("Deploy: `a, b, err := checkCommitteeRoles(…)` not found")
	}
	guard := func(stage string) (int, error) {
		g := -1
		ast.Inspect(df.Body, func(x ast.Node) bool {
			if s, ok := x.(*ast.IfStmt); ok && len(callsNamed(s.Body, stage)) > 0 {
				if u, ok := s.Cond.(*ast.UnaryExpr); ok && u.Op == token.NOT {
					if v, ok := u.X.(*ast.Ident); ok {
						if p, ok := pos[v.Name]; ok {
							g = p
						}
					}
				}
			}
			return true
		})
		if g < 0 {
			return 0, fmt.Errorf("Deploy: `if !<flag of checkCommitteeRoles> { … %s(…) }` not found", stage)
		}
		return g, nil
	}
	var err error
	if out.guardNotary, err = guard("enableNotary"); err != nil {
		return err
	}
	if out.guardAlphabet, err = guard("designateNeoFSAlphabet"); err != nil {
		return err
	}
	// the stages' own loops and designations
	en := findFunc(notary, "enableNotary")
	da := findFunc(alphabet, "designateNeoFSAlphabet")
	iv := findFunc(alphabet, "initVoteForAlphabet")
	if en == nil || da == nil || iv == nil {
		return fmt.Errorf("enableNotary / designateNeoFSAlphabet / initVoteForAlphabet not found")
	}
	if out.loopNotary, err = oneRole(en.Body, "checkRole", "enableNotary"); err != nil {
		return err
	}
	if out.loopAlphabet, err = oneRole(da.Body, "checkRole", "designateNeoFSAlphabet"); err != nil {
		return err
	}
	if out.desNotary, err = oneRole(notary, "DesignateAsRole*", "deploy/notary.go"); err != nil {
		return err
	}
	if out.desAlphabet, err = oneRole(da.Body, "DesignateAsRole*", "designateNeoFSAlphabet"); err != nil {
		return err
	}
	if out.voteNeeds, err = oneRole(iv.Body, "GetDesignatedByRole", "initVoteForAlphabet"); err != nil {
		return err
	}
	return nil
}

func deployFacts(repo, outPath string) error {
	fset := token.NewFileSet()
	parse := func(name string) (*ast.File, error) {
		return parser.ParseFile(fset, filepath.Join(repo, "deploy", name), nil, parser.SkipObjectResolution)
	}
	notary, err := parse("notary.go")
	if err != nil {
		return err
	}
	var out dfacts
	lf := findFunc(notary, "initDesignateNotaryRoleAsLeaderTick")
	if lf == nil {
		return fmt.Errorf("initDesignateNotaryRoleAsLeaderTick not found")
	}
	if err := leaderFacts(fset, lf, &out); err != nil {
		return err
	}
	sf := findFunc(notary, "initDesignateNotaryRoleAsSignerTick")
	if sf == nil {
		return fmt.Errorf("initDesignateNotaryRoleAsSignerTick not found")
	}
	sc := containsCall(sf.Body, "designateNotarySignatureDomainForMember")
	if sc == nil {
		return fmt.Errorf("signer: no call of designateNotarySignatureDomainForMember")
	}
	// prm.localAccCommitteeIndex (+c)
	arg := sc.Args[0]
	sdOff := -1
	if s, ok := arg.(*ast.SelectorExpr); ok && s.Sel.Name == "localAccCommitteeIndex" {
		sdOff = 0
	} else if b, ok := arg.(*ast.BinaryExpr); ok && b.Op == token.ADD {
		if s, ok := b.X.(*ast.SelectorExpr); ok && s.Sel.Name == "localAccCommitteeIndex" {
			if c, ok := intLit(b.Y); ok {
				sdOff = c
			}
		}
	}
	if sdOff < 0 {
		return fmt.Errorf("signer: domain index %q is not prm.localAccCommitteeIndex+c", exprStr(fset, arg))
	}
	out.sdOff = sdOff
	// leader index: enableNotary: `if prm.localAccCommitteeIndex == 0 { ...AsLeaderTick`
	en := findFunc(notary, "enableNotary")
	if en == nil {
		return fmt.Errorf("enableNotary not found")
	}
	out.leaderIndex = -1
	ast.Inspect(en.Body, func(x ast.Node) bool {
		if s, ok := x.(*ast.IfStmt); ok && containsCall(s.Body, "initDesignateNotaryRoleAsLeaderTick") != nil {
			if b, ok := s.Cond.(*ast.BinaryExpr); ok && b.Op == token.EQL {
				if sel, ok := b.X.(*ast.SelectorExpr); ok && sel.Sel.Name == "localAccCommitteeIndex" {
					if c, ok := intLit(b.Y); ok {
						out.leaderIndex = c
					}
				}
			}
		}
		return true
	})
	if out.leaderIndex < 0 {
		return fmt.Errorf("enableNotary: leader selection `prm.localAccCommitteeIndex == c` not found")
	}
	// stage names: constants assigned to syncPrm.domainName in Deploy, in order
	nnsf, err := parse("nns.go")
	if err != nil {
		return err
	}
	consts := map[string]string{}
	for _, d := range nnsf.Decls {
		if gd, ok := d.(*ast.GenDecl); ok && gd.Tok == token.CONST {
			for _, sp := range gd.Specs {
				vs := sp.(*ast.ValueSpec)
				for i, id := range vs.Names {
					if i < len(vs.Values) {
						if bl, ok := vs.Values[i].(*ast.BasicLit); ok && bl.Kind == token.STRING {
							s, _ := strconv.Unquote(bl.Value)
							consts[id.Name] = s
						}
					}
				}
			}
		}
	}
	dep, err := parse("deploy.go")
	if err != nil {
		return err
	}
	df := findFunc(dep, "Deploy")
	if df == nil {
		return fmt.Errorf("Deploy not found")
	}
	ast.Inspect(df.Body, func(x ast.Node) bool {
		if as, ok := x.(*ast.AssignStmt); ok && len(as.Lhs) == 1 && len(as.Rhs) == 1 {
			if sel, ok := as.Lhs[0].(*ast.SelectorExpr); ok && sel.Sel.Name == "domainName" {
				if id, ok := as.Rhs[0].(*ast.Ident); ok {
					if v, ok := consts[id.Name]; ok {
						out.stages = append(out.stages, v)
					}
				}
			}
		}
		return true
	})
	if len(out.stages) == 0 {
		return fmt.Errorf("Deploy: no `syncPrm.domainName = <const>` stages found")
	}
	alphaf, err := parse("alphabet.go")
	if err != nil {
		return err
	}
	if err := extractRoleFacts(dep, notary, alphaf, &out.roles); err != nil {
		return err
	}
	var b strings.Builder
	b.WriteString("/-! GENERATED by /verif/extract (deployfacts) from deploy/notary.go, deploy/deploy.go, deploy/nns.go of the\nrepository under test. Do not edit. Leader loop as found: `" + out.loopText + "` -/\nnamespace NeoFS.Generated.DeployFacts\n\n")
	unused := func(t string) string {
		if strings.Contains(t, "n") {
			return "n"
		}
		return "_n"
	}
	fmt.Fprintf(&b, "/-- first loop index of the leader's collection loop -/\ndef leaderLoopLo (%s : Nat) : Nat := %s\n", unused(out.loNat), out.loNat)
	fmt.Fprintf(&b, "/-- one past the last loop index -/\ndef leaderLoopHi (%s : Nat) : Nat := %s\n", unused(out.hiNat), out.hiNat)
	fmt.Fprintf(&b, "/-- the leader reads signature domain `i + leaderDomainOff` -/\ndef leaderDomainOff : Nat := %d\n", out.domOff)
	fmt.Fprintf(&b, "/-- ... verifies it with committee key `i + leaderKeyOff` -/\ndef leaderKeyOff : Nat := %d\n", out.keyOff)
	fmt.Fprintf(&b, "/-- ... and stores it under map key `i + leaderStoreOff` -/\ndef leaderStoreOff : Nat := %d\n", out.storeOff)
	fmt.Fprintf(&b, "/-- signer `j` publishes under signature domain `j + signerDomainOff` -/\ndef signerDomainOff : Nat := %d\n", out.sdOff)
	fmt.Fprintf(&b, "/-- collected signatures are appended in ascending committee index (false: Go map order) -/\ndef appendSorted : Bool := %v\n", out.sorted)
	fmt.Fprintf(&b, "def leaderIndex : Nat := %d\n", out.leaderIndex)
	fmt.Fprintf(&b, "/-- needRemoteSignatures = GetMajorityHonestNodeCount(len(committee)) - 1 -/\ndef needRemoteIsMajorityMinusOne : Bool := %v\n", out.needMinusOne)
	fmt.Fprintf(&b, "/-- the collection loop is left as soon as enough signatures are there -/\ndef breakWhenEnough : Bool := %v\n", out.breakEnough)
	fmt.Fprintf(&b, "/-- transaction monitor asked before the designation transaction is (re)sent -/\ndef designateGuardMonitor : String := %s\n", leanStr(out.guardMonitor))
	parts := make([]string, len(out.stages))
	for i, s := range out.stages {
		parts[i] = leanStr(s)
	}
	fmt.Fprintf(&b, "/-- NNS names (in the `neofs` zone) of the contract stages of Deploy, in order (Alphabet contracts follow) -/\ndef systemDomains : List String := [%s]\n", strings.Join(parts, ", "))
	rp := make([]string, len(out.roles.precheck))
	for i, r := range out.roles.precheck {
		rp[i] = leanStr(r)
	}
	fmt.Fprintf(&b, "/-- node roles queried by checkCommitteeRoles, in the order of its results -/\ndef precheckRoles : List String := [%s]\n", strings.Join(rp, ", "))
	fmt.Fprintf(&b, "/-- Deploy skips enableNotary / designateNeoFSAlphabet when the result of checkCommitteeRoles at this position is set -/\ndef guardOfEnableNotary : Nat := %d\ndef guardOfDesignateAlphabet : Nat := %d\n", out.roles.guardNotary, out.roles.guardAlphabet)
	fmt.Fprintf(&b, "/-- role the stage's own loop checks before it returns -/\ndef loopRoleOfEnableNotary : String := %s\ndef loopRoleOfDesignateAlphabet : String := %s\n", leanStr(out.roles.loopNotary), leanStr(out.roles.loopAlphabet))
	fmt.Fprintf(&b, "/-- role the stage designates -/\ndef roleDesignatedByEnableNotary : String := %s\ndef roleDesignatedByDesignateAlphabet : String := %s\n", leanStr(out.roles.desNotary), leanStr(out.roles.desAlphabet))
	fmt.Fprintf(&b, "/-- role whose members initVoteForAlphabet requires (it fails when there are none) -/\ndef roleNeededByVote : String := %s\n", leanStr(out.roles.voteNeeds))
	b.WriteString("\nend NeoFS.Generated.DeployFacts\n")
	old, _ := os.ReadFile(outPath)
	if string(old) == b.String() {
		fmt.Println("DeployFacts.lean unchanged (" + out.loopText + ")")
		return nil
	}
	tmp := outPath + ".tmp"
	if err := os.WriteFile(tmp, []byte(b.String()), 0o644); err != nil {
		return err
	}
	if err := os.Rename(tmp, outPath); err != nil {
		return err
	}
	fmt.Println("DeployFacts.lean regenerated (" + out.loopText + ")")
	return nil
}
