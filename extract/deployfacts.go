// deployfacts: `extract deployfacts <repo> <out.lean>` (dispatched from init, main.go stays untouched).
//
// Reads deploy/notary.go, deploy/deploy.go and deploy/nns.go of the repository under test with go/ast and
// writes NeoFS/Generated/DeployFacts.lean: the index maps of the Notary bootstrap (which signature domains the
// leader reads, which committee key it verifies each with, where it stores the signature, in which order the
// collected signatures are appended, under which domain a signer publishes), the leader's index, the number of
// remote signatures it waits for, the transaction monitor consulted before the designation is sent, the NNS
// names of the deployment stages, and WHICH node role each pre-check (checkCommitteeRoles), each role stage's loop,
// each designation and initVoteForAlphabet names. The Lean model NeoFS/Model/NotaryBootstrap.lean takes the maps from here
// (`current`), so a change of a loop bound or of an index breaks the corollaries about the code under test.
//
// The extractor recognises a fixed family of shapes (`for i := A; i < len(prm.committee)[±c]; i++`,
// `for i := range prm.committee[A:]`, `for i := range len(prm.committee)`, index expressions `i`, `i+c`, `c+i`);
// anything else is reported as an error: the model would no longer mirror the code.
package main

import (
	"fmt"
	"go/ast"
	"go/parser"
	"go/printer"
	"go/token"
	"os"
	"path/filepath"
	"strconv"
	"strings"
)

func init() {
	if len(os.Args) >= 2 && os.Args[1] == "deployfacts" {
		if len(os.Args) != 4 {
			fmt.Fprintln(os.Stderr, "usage: extract deployfacts <repo> <out.lean>")
			os.Exit(2)
		}
		if err := deployFacts(os.Args[2], os.Args[3]); err != nil {
			fmt.Fprintln(os.Stderr, "deployfacts:", err)
			os.Exit(1)
		}
		os.Exit(0)
	}
}

type dfacts struct {
	loNat, hiNat                      string // Lean terms in n
	domOff, keyOff, storeOff, sdOff   int
	sorted, needMinusOne, breakEnough bool
	leaderIndex                       int
	guardMonitor                      string
	stages                            []string
	roles                             roleFacts
	replaceOutdated                   bool
	loopText                          string
}

func findFunc(f *ast.File, name string) *ast.FuncDecl {
	for _, d := range f.Decls {
		if fd, ok := d.(*ast.FuncDecl); ok && fd.Name.Name == name && fd.Recv == nil {
			return fd
		}
	}
	return nil
}

func exprStr(fset *token.FileSet, e ast.Node) string {
	var b strings.Builder
	_ = printer.Fprint(&b, fset, e)
	return b.String()
}

// isCommittee: prm.committee
func isCommittee(e ast.Expr) bool {
	s, ok := e.(*ast.SelectorExpr)
	if !ok || s.Sel.Name != "committee" {
		return false
	}
	id, ok := s.X.(*ast.Ident)
	return ok && id.Name == "prm"
}

// isLenCommittee: len(prm.committee)
func isLenCommittee(e ast.Expr) bool {
	c, ok := e.(*ast.CallExpr)
	if !ok || len(c.Args) != 1 {
		return false
	}
	id, ok := c.Fun.(*ast.Ident)
	return ok && id.Name == "len" && isCommittee(c.Args[0])
}

func intLit(e ast.Expr) (int, bool) {
	bl, ok := e.(*ast.BasicLit)
	if !ok || bl.Kind != token.INT {
		return 0, false
	}
	v, err := strconv.Atoi(bl.Value)
	return v, err == nil
}

// offsetOf: e is `v`, `v + c` or `c + v` → c
func offsetOf(e ast.Expr, v string) (int, bool) {
	if p, ok := e.(*ast.ParenExpr); ok {
		return offsetOf(p.X, v)
	}
	if id, ok := e.(*ast.Ident); ok && id.Name == v {
		return 0, true
	}
	if b, ok := e.(*ast.BinaryExpr); ok && b.Op == token.ADD {
		if id, ok := b.X.(*ast.Ident); ok && id.Name == v {
			if c, ok := intLit(b.Y); ok {
				return c, true
			}
		}
		if id, ok := b.Y.(*ast.Ident); ok && id.Name == v {
			if c, ok := intLit(b.X); ok {
				return c, true
			}
		}
	}
	return 0, false
}

func containsCall(n ast.Node, fn string) *ast.CallExpr {
	var res *ast.CallExpr
	ast.Inspect(n, func(x ast.Node) bool {
		if c, ok := x.(*ast.CallExpr); ok && res == nil {
			if id, ok := c.Fun.(*ast.Ident); ok && id.Name == fn {
				res = c
			}
		}
		return res == nil
	})
	return res
}

// lenMinus: `len(prm.committee)`, `len(prm.committee) - c`, `len(prm.committee) + c` → Lean term in n
func lenTerm(e ast.Expr) (string, bool) {
	if isLenCommittee(e) {
		return "n", true
	}
	if b, ok := e.(*ast.BinaryExpr); ok && isLenCommittee(b.X) {
		if c, ok := intLit(b.Y); ok {
			switch b.Op {
			case token.SUB:
				return fmt.Sprintf("n - %d", c), true
			case token.ADD:
				return fmt.Sprintf("n + %d", c), true
			}
		}
	}
	return "", false
}

// endsInContinueOrReturn: the block's last statement leaves the iteration
func endsInContinueOrReturn(b *ast.BlockStmt) bool {
	if len(b.List) == 0 {
		return false
	}
	switch s := b.List[len(b.List)-1].(type) {
	case *ast.BranchStmt:
		return s.Tok == token.CONTINUE
	case *ast.ReturnStmt:
		return true
	}
	return false
}

// isMajorityExpr: smartcontract.GetMajorityHonestNodeCount(len(<c>)) or len(<c>) - (len(<c>)-1)/2, <c> satisfying isC
func isMajorityExpr(e ast.Expr, isC func(ast.Expr) bool) bool {
	lenOfC := func(x ast.Expr) bool {
		c, ok := x.(*ast.CallExpr)
		if !ok || len(c.Args) != 1 {
			return false
		}
		id, ok := c.Fun.(*ast.Ident)
		return ok && id.Name == "len" && isC(c.Args[0])
	}
	switch x := e.(type) {
	case *ast.ParenExpr:
		return isMajorityExpr(x.X, isC)
	case *ast.CallExpr:
		if sel, ok := x.Fun.(*ast.SelectorExpr); ok && sel.Sel.Name == "GetMajorityHonestNodeCount" && len(x.Args) == 1 {
			return lenOfC(x.Args[0])
		}
	case *ast.BinaryExpr: // len(c) - (len(c)-1)/2
		if x.Op == token.SUB && lenOfC(x.X) {
			if p, ok := x.Y.(*ast.BinaryExpr); ok && p.Op == token.QUO {
				if two, ok := intLit(p.Y); ok && two == 2 {
					q := p.X
					if pe, ok := q.(*ast.ParenExpr); ok {
						q = pe.X
					}
					if d, ok := q.(*ast.BinaryExpr); ok && d.Op == token.SUB && lenOfC(d.X) {
						one, ok := intLit(d.Y)
						return ok && one == 1
					}
				}
			}
		}
	}
	return false
}

// isMajorityVar: the variable `name` of function fd holds the majority count of prm.committee: it is defined by a majority
// expression over prm.committee, or it is a result of a call of a same-package helper that receives prm.committee and returns,
// at that position, a variable defined by a majority expression over the corresponding parameter (followed ONE level).
func isMajorityVar(fd *ast.FuncDecl, name string, pkgFuncs map[string]*ast.FuncDecl) bool {
	found := false
	ast.Inspect(fd.Body, func(x ast.Node) bool {
		as, ok := x.(*ast.AssignStmt)
		if !ok || as.Tok != token.DEFINE || len(as.Rhs) != 1 {
			return true
		}
		pos := -1
		for i, l := range as.Lhs {
			if id, ok := l.(*ast.Ident); ok && id.Name == name {
				pos = i
			}
		}
		if pos < 0 {
			return true
		}
		if len(as.Lhs) == 1 && isMajorityExpr(as.Rhs[0], isCommittee) {
			found = true
			return false
		}
		call, ok := as.Rhs[0].(*ast.CallExpr)
		if !ok {
			return true
		}
		fid, ok := call.Fun.(*ast.Ident)
		if !ok {
			return true
		}
		h, ok := pkgFuncs[fid.Name]
		if !ok || h.Body == nil || h.Type.Results == nil {
			return true
		}
		// which parameter of the helper receives prm.committee
		var params []string
		for _, f := range h.Type.Params.List {
			for _, n := range f.Names {
				params = append(params, n.Name)
			}
		}
		cparam := ""
		for i, a := range call.Args {
			if isCommittee(a) && i < len(params) {
				cparam = params[i]
			}
		}
		if cparam == "" {
			return true
		}
		isParam := func(e ast.Expr) bool { id, ok := e.(*ast.Ident); return ok && id.Name == cparam }
		// variables of the helper defined by a majority expression over that parameter
		maj := map[string]bool{}
		ast.Inspect(h.Body, func(y ast.Node) bool {
			if a, ok := y.(*ast.AssignStmt); ok && a.Tok == token.DEFINE && len(a.Lhs) == 1 && len(a.Rhs) == 1 && isMajorityExpr(a.Rhs[0], isParam) {
				maj[a.Lhs[0].(*ast.Ident).Name] = true
			}
			return true
		})
		// every successful return (last result nil) hands such a variable (or the expression itself) out at position pos
		okReturns, badReturns := 0, 0
		ast.Inspect(h.Body, func(y ast.Node) bool {
			if _, isLit := y.(*ast.FuncLit); isLit {
				return false
			}
			r, ok := y.(*ast.ReturnStmt)
			if !ok || len(r.Results) <= pos {
				return true
			}
			if last, ok := r.Results[len(r.Results)-1].(*ast.Ident); ok && last.Name == "nil" {
				if id, ok := r.Results[pos].(*ast.Ident); (ok && maj[id.Name]) || isMajorityExpr(r.Results[pos], isParam) {
					okReturns++
				} else {
					badReturns++
				}
			}
			return true
		})
		if okReturns > 0 && badReturns == 0 {
			found = true
			return false
		}
		return true
	})
	return found
}

// domFnName is the helper that names the NNS domain in which committee member i publishes its signature. It is found by its
// SHAPE (the only function called by the leader tick that has one int parameter and a string result and whose body is `return fmt.Sprintf(..)`),
// so that renaming it changes nothing; the historical name is the fallback when the shape is not unique.
var domFnName = "designateNotarySignatureDomainForMember"

func findDomainHelper(pkgFuncs map[string]*ast.FuncDecl, leader *ast.FuncDecl) string {
	var found []string
	for name, fd := range pkgFuncs {
		if fd.Body == nil || len(fd.Body.List) != 1 || fd.Type.Params.NumFields() != 1 || fd.Type.Results == nil || fd.Type.Results.NumFields() != 1 {
			continue
		}
		pt, ok1 := fd.Type.Params.List[0].Type.(*ast.Ident)
		rt, ok2 := fd.Type.Results.List[0].Type.(*ast.Ident)
		if !ok1 || !ok2 || pt.Name != "int" || rt.Name != "string" {
			continue
		}
		rs, ok := fd.Body.List[0].(*ast.ReturnStmt)
		if !ok || len(rs.Results) != 1 {
			continue
		}
		if c, ok := rs.Results[0].(*ast.CallExpr); ok {
			if sel, ok := c.Fun.(*ast.SelectorExpr); ok && sel.Sel.Name == "Sprintf" && containsCall(leader.Body, name) != nil {
				found = append(found, name)
			}
		}
	}
	if len(found) == 1 {
		return found[0]
	}
	return "designateNotarySignatureDomainForMember"
}

func leaderFacts(fset *token.FileSet, fd *ast.FuncDecl, pkgFuncs map[string]*ast.FuncDecl, out *dfacts) error {
	domFn := domFnName
	var loop ast.Stmt
	var loopVar string
	var body *ast.BlockStmt
	ast.Inspect(fd.Body, func(x ast.Node) bool {
		switch s := x.(type) {
		case *ast.ForStmt:
			if containsCall(s.Body, domFn) != nil {
				loop, body = s, s.Body
			}
		case *ast.RangeStmt:
			if containsCall(s.Body, domFn) != nil {
				loop, body = s, s.Body
			}
		}
		return true
	})
	if loop == nil {
		return fmt.Errorf("leader: no loop calling %s found", domFn)
	}
	out.loopText = strings.SplitN(exprStr(fset, loop), "\n", 2)[0]
	switch s := loop.(type) {
	case *ast.ForStmt:
		as, ok := s.Init.(*ast.AssignStmt)
		if !ok || len(as.Lhs) != 1 || len(as.Rhs) != 1 {
			return fmt.Errorf("leader loop: unsupported init in %q", out.loopText)
		}
		loopVar = as.Lhs[0].(*ast.Ident).Name
		lo, ok := intLit(as.Rhs[0])
		if !ok {
			return fmt.Errorf("leader loop: start is not a literal in %q", out.loopText)
		}
		out.loNat = strconv.Itoa(lo)
		cond, ok := s.Cond.(*ast.BinaryExpr)
		if !ok {
			return fmt.Errorf("leader loop: unsupported condition in %q", out.loopText)
		}
		if id, ok := cond.X.(*ast.Ident); !ok || id.Name != loopVar {
			return fmt.Errorf("leader loop: condition is not on %s in %q", loopVar, out.loopText)
		}
		t, ok := lenTerm(cond.Y)
		if !ok {
			return fmt.Errorf("leader loop: bound is not len(prm.committee)±c in %q", out.loopText)
		}
		switch cond.Op {
		case token.LSS:
			out.hiNat = t
		case token.LEQ:
			out.hiNat = t + " + 1"
		default:
			return fmt.Errorf("leader loop: unsupported comparison in %q", out.loopText)
		}
		inc, ok := s.Post.(*ast.IncDecStmt)
		if !ok || inc.Tok != token.INC {
			return fmt.Errorf("leader loop: step is not ++ in %q", out.loopText)
		}
	case *ast.RangeStmt:
		id, ok := s.Key.(*ast.Ident)
		if !ok || s.Value != nil {
			return fmt.Errorf("leader loop: unsupported range variables in %q", out.loopText)
		}
		loopVar = id.Name
		out.loNat = "0"
		switch x := s.X.(type) {
		case *ast.SliceExpr: // prm.committee[a:] or prm.committee[a:b]
			if !isCommittee(x.X) {
				return fmt.Errorf("leader loop: range over something else than prm.committee in %q", out.loopText)
			}
			a := 0
			if x.Low != nil {
				if a, ok = intLit(x.Low); !ok {
					return fmt.Errorf("leader loop: slice start is not a literal in %q", out.loopText)
				}
			}
			hi := "n"
			if x.High != nil {
				if hi, ok = lenTerm(x.High); !ok {
					return fmt.Errorf("leader loop: slice end unsupported in %q", out.loopText)
				}
			}
			out.hiNat = fmt.Sprintf("(%s) - %d", hi, a)
		default:
			if isCommittee(s.X) || isLenCommittee(s.X) {
				out.hiNat = "n"
			} else {
				return fmt.Errorf("leader loop: unsupported range expression in %q", out.loopText)
			}
		}
	}
	// domain index
	call := containsCall(body, domFn)
	off, ok := offsetOf(call.Args[0], loopVar)
	if !ok {
		return fmt.Errorf("leader loop: domain index %q is not %s+c", exprStr(fset, call.Args[0]), loopVar)
	}
	out.domOff = off
	// key index: prm.committee[X].VerifyHashable(...)
	where := func(n ast.Node) string {
		return fmt.Sprintf("deploy/notary.go:%d-%d", fset.Position(n.Pos()).Line, fset.Position(n.End()).Line)
	}
	// 1. verification: prm.committee[i+c].VerifyHashable(<sig>, …); the statement whose failure branch skips the member
	var verify *ast.CallExpr
	var verifyIf *ast.IfStmt
	var ferr error
	ast.Inspect(body, func(x ast.Node) bool {
		if is, ok := x.(*ast.IfStmt); ok {
			if cs := callsNamed(is.Cond, "VerifyHashable"); len(cs) == 1 && verifyIf == nil {
				verifyIf = is
			}
		}
		if e, ok := x.(*ast.CallExpr); ok && verify == nil {
			if sel, ok := e.Fun.(*ast.SelectorExpr); ok && sel.Sel.Name == "VerifyHashable" {
				verify = e
			}
		}
		return true
	})
	if verify == nil || verifyIf == nil {
		return fmt.Errorf("fact leaderKeyOff: no `if !prm.committee[…].VerifyHashable(…) {…}` in the leader's collection loop (%s of initDesignateNotaryRoleAsLeaderTick)", where(body))
	}
	{
		sel := verify.Fun.(*ast.SelectorExpr)
		ix, ok := sel.X.(*ast.IndexExpr)
		if !ok || !isCommittee(ix.X) {
			return fmt.Errorf("fact leaderKeyOff: VerifyHashable is not called on prm.committee[…] (%s)", where(verify))
		}
		o, ok := offsetOf(ix.Index, loopVar)
		if !ok {
			return fmt.Errorf("fact leaderKeyOff: key index %q is not %s+c (%s)", exprStr(fset, ix.Index), loopVar, where(verify))
		}
		out.keyOff = o
	}
	if u, ok := verifyIf.Cond.(*ast.UnaryExpr); !ok || u.Op != token.NOT || !endsInContinueOrReturn(verifyIf.Body) {
		return fmt.Errorf("fact leaderStoreOff: the verification is not of the form `if !…VerifyHashable(…) { … continue }` (%s)", where(verifyIf))
	}
	sigVar, ok := verify.Args[0].(*ast.Ident)
	if len(verify.Args) == 0 || !ok {
		return fmt.Errorf("fact leaderStoreOff: the verified signature is not a variable (%s)", where(verify))
	}
	// 2. store: `<container>[i+c] = <sig>` AFTER the verification statement (so only verified signatures are stored), the
	// container being a map or a slice
	var store *ast.AssignStmt
	container := ""
	ast.Inspect(body, func(x ast.Node) bool {
		if as, ok := x.(*ast.AssignStmt); ok && len(as.Lhs) == 1 && len(as.Rhs) == 1 && as.Tok == token.ASSIGN {
			if ix, ok := as.Lhs[0].(*ast.IndexExpr); ok {
				if r, ok := as.Rhs[0].(*ast.Ident); ok && r.Name == sigVar.Name {
					if c, ok := ix.X.(*ast.Ident); ok {
						if store != nil {
							ferr = fmt.Errorf("fact leaderStoreOff: the signature is stored twice (%s, %s)", where(store), where(as))
							return false
						}
						store, container = as, c.Name
					}
				}
			}
		}
		return true
	})
	if ferr != nil {
		return ferr
	}
	if store == nil {
		return fmt.Errorf("fact leaderStoreOff: no `<map or slice>[%s+c] = %s` in the leader's collection loop (%s of initDesignateNotaryRoleAsLeaderTick)", loopVar, sigVar.Name, where(body))
	}
	if store.Pos() < verifyIf.End() {
		return fmt.Errorf("fact leaderStoreOff: the signature is stored (%s) before it is verified (%s)", where(store), where(verifyIf))
	}
	if o, ok := offsetOf(store.Lhs[0].(*ast.IndexExpr).Index, loopVar); ok {
		out.storeOff = o
	} else {
		return fmt.Errorf("fact leaderStoreOff: store index %q is not %s+c (%s)", exprStr(fset, store.Lhs[0].(*ast.IndexExpr).Index), loopVar, where(store))
	}
	// container kind from its declaration in the function: map[int][]byte or [][]byte
	containerIsMap, declared := false, false
	ast.Inspect(fd.Body, func(x ast.Node) bool {
		if vs, ok := x.(*ast.ValueSpec); ok {
			for _, nm := range vs.Names {
				if nm.Name == container && vs.Type != nil {
					switch t := vs.Type.(type) {
					case *ast.MapType:
						containerIsMap, declared = true, true
					case *ast.ArrayType:
						if t.Len == nil {
							containerIsMap, declared = false, true
						}
					}
				}
			}
		}
		return true
	})
	if !declared {
		return fmt.Errorf("fact appendSorted: `var %s map[…]…` / `var %s []…` not found in initDesignateNotaryRoleAsLeaderTick (%s)", container, container, where(fd.Body))
	}
	// 3. the number of remote signatures waited for: `need := M - 1` with M the majority count of the committee, computed here
	// or returned by a same-package helper (followed one level)
	needVar := ""
	ast.Inspect(fd.Body, func(x ast.Node) bool {
		if as, ok := x.(*ast.AssignStmt); ok && len(as.Lhs) == 1 && len(as.Rhs) == 1 && as.Tok == token.DEFINE {
			if be, ok := as.Rhs[0].(*ast.BinaryExpr); ok && be.Op == token.SUB {
				if one, ok := intLit(be.Y); ok && one == 1 {
					if m, ok := be.X.(*ast.Ident); ok && isMajorityVar(fd, m.Name, pkgFuncs) {
						needVar = as.Lhs[0].(*ast.Ident).Name
					}
				}
			}
		}
		return true
	})
	out.needMinusOne = needVar != ""
	if needVar == "" {
		return fmt.Errorf("fact needRemoteIsMajorityMinusOne: no `need := M - 1` with M = smartcontract.GetMajorityHonestNodeCount(len(prm.committee)) (directly or through a same-package helper called with prm.committee) in initDesignateNotaryRoleAsLeaderTick (%s)", where(fd.Body))
	}
	// 4. the loop is left when enough are collected: `if <count> == need { break }` (or >=) in the loop body after the store,
	// <count> being len(<container>) or a counter that is incremented in the loop body
	ast.Inspect(body, func(x ast.Node) bool {
		is, ok := x.(*ast.IfStmt)
		if !ok || len(is.Body.List) != 1 || is.Pos() < store.Pos() {
			return true
		}
		br, ok := is.Body.List[0].(*ast.BranchStmt)
		b, ok2 := is.Cond.(*ast.BinaryExpr)
		if !ok || !ok2 || br.Tok != token.BREAK || (b.Op != token.EQL && b.Op != token.GEQ) {
			return true
		}
		if id, ok := b.Y.(*ast.Ident); !ok || id.Name != needVar {
			return true
		}
		switch c := b.X.(type) {
		case *ast.CallExpr: // len(container)
			if f, ok := c.Fun.(*ast.Ident); ok && f.Name == "len" && len(c.Args) == 1 {
				if a, ok := c.Args[0].(*ast.Ident); ok && a.Name == container {
					out.breakEnough = true
				}
			}
		case *ast.Ident: // a counter incremented in the loop body
			ast.Inspect(body, func(y ast.Node) bool {
				if inc, ok := y.(*ast.IncDecStmt); ok && inc.Tok == token.INC {
					if v, ok := inc.X.(*ast.Ident); ok && v.Name == c.Name {
						out.breakEnough = true
					}
				}
				return true
			})
		}
		return true
	})
	// 5. order of appending: the loop that copies signatures into the invocation script
	src := exprStr(fset, fd)
	var appendLoops []*ast.RangeStmt
	ast.Inspect(fd.Body, func(x ast.Node) bool {
		if r, ok := x.(*ast.RangeStmt); ok && containsCall(r.Body, "copy") != nil {
			appendLoops = append(appendLoops, r)
		}
		return true
	})
	if len(appendLoops) != 1 {
		return fmt.Errorf("fact appendSorted: %d loops copy signatures into the witness script, expected 1 (%s)", len(appendLoops), where(fd.Body))
	}
	switch x := appendLoops[0].X.(type) {
	case *ast.Ident:
		switch {
		case x.Name == container && containerIsMap:
			out.sorted = false // Go map iteration order
		case x.Name == container:
			out.sorted = true // a slice indexed by committee index is walked in increasing index
		default:
			// ranged over another slice: it must be the sorted list of the map's keys
			sortedCall := strings.Contains(src, "slices.Sort("+x.Name+")") || strings.Contains(src, "sort.Ints("+x.Name+")")
			keyVar := ""
			ast.Inspect(fd.Body, func(y ast.Node) bool {
				if r, ok := y.(*ast.RangeStmt); ok {
					if c, ok := r.X.(*ast.Ident); ok && c.Name == container {
						if k, ok := r.Key.(*ast.Ident); ok && strings.Contains(exprStr(fset, r.Body), x.Name+" = append("+x.Name+", "+k.Name+")") {
							keyVar = k.Name
						}
					}
				}
				return true
			})
			if keyVar == "" {
				return fmt.Errorf("fact appendSorted: the append loop ranges over %s which is not built from the keys of %s (%s)", x.Name, container, where(appendLoops[0]))
			}
			out.sorted = sortedCall
		}
	default:
		return fmt.Errorf("fact appendSorted: unsupported range expression in the append loop (%s)", where(appendLoops[0]))
	}
	// which monitor guards the sending: `if X.isPending() {...} else if triedDesignateRoleTx {`
	ast.Inspect(fd.Body, func(x ast.Node) bool {
		if s, ok := x.(*ast.IfStmt); ok && s.Else != nil {
			if e, ok := s.Else.(*ast.IfStmt); ok {
				if id, ok := e.Cond.(*ast.Ident); ok && id.Name == "triedDesignateRoleTx" {
					if c, ok := s.Cond.(*ast.CallExpr); ok {
						if sel, ok := c.Fun.(*ast.SelectorExpr); ok && sel.Sel.Name == "isPending" {
							out.guardMonitor = exprStr(fset, sel.X)
						}
					}
				}
			}
		}
		return true
	})
	// the same guard written as two consecutive statements: `if X.isPending() {...; return}` directly followed by
	// `if triedDesignateRoleTx {` (an `else` after a `return` removed)
	if out.guardMonitor == "" {
		ast.Inspect(fd.Body, func(x ast.Node) bool {
			b, ok := x.(*ast.BlockStmt)
			if !ok {
				return true
			}
			for i := 0; i+1 < len(b.List); i++ {
				s1, ok1 := b.List[i].(*ast.IfStmt)
				s2, ok2 := b.List[i+1].(*ast.IfStmt)
				if !ok1 || !ok2 || s1.Else != nil || s1.Init != nil || len(s1.Body.List) == 0 {
					continue
				}
				if _, isRet := s1.Body.List[len(s1.Body.List)-1].(*ast.ReturnStmt); !isRet {
					continue
				}
				if id, ok := s2.Cond.(*ast.Ident); !ok || id.Name != "triedDesignateRoleTx" {
					continue
				}
				if c, ok := s1.Cond.(*ast.CallExpr); ok {
					if sel, ok := c.Fun.(*ast.SelectorExpr); ok && sel.Sel.Name == "isPending" {
						out.guardMonitor = exprStr(fset, sel.X)
					}
				}
			}
			return true
		})
	}
	if out.guardMonitor == "" {
		return fmt.Errorf("fact designateGuardMonitor: guard `if <monitor>.isPending() ... else if triedDesignateRoleTx` not found in initDesignateNotaryRoleAsLeaderTick (%s)", where(fd.Body))
	}
	return nil
}

// roleFacts: which node role each pre-check, stage loop and designation of the role stages names.
type roleFacts struct {
	precheck                   []string // roles queried by checkCommitteeRoles, in the order of its results
	guardNotary, guardAlphabet int      // position (among these results) of the flag that lets Deploy skip the stage
	loopNotary, loopAlphabet   string   // role the stage's own loop checks before it returns
	desNotary, desAlphabet     string   // role the stage designates
	voteNeeds                  string   // role whose members initVoteForAlphabet requires
}

// roleArg: `noderoles.X` → "X"
func roleArg(e ast.Expr) (string, bool) {
	s, ok := e.(*ast.SelectorExpr)
	if !ok {
		return "", false
	}
	if id, ok := s.X.(*ast.Ident); !ok || id.Name != "noderoles" {
		return "", false
	}
	return s.Sel.Name, true
}

// callsNamed collects the calls of a function or method with the given name (prefix match when the name ends in *).
func callsNamed(n ast.Node, name string) []*ast.CallExpr {
	var res []*ast.CallExpr
	match := func(s string) bool {
		if strings.HasSuffix(name, "*") {
			return strings.HasPrefix(s, name[:len(name)-1])
		}
		return s == name
	}
	ast.Inspect(n, func(x ast.Node) bool {
		if c, ok := x.(*ast.CallExpr); ok {
			switch f := c.Fun.(type) {
			case *ast.Ident:
				if match(f.Name) {
					res = append(res, c)
				}
			case *ast.SelectorExpr:
				if match(f.Sel.Name) {
					res = append(res, c)
				}
			}
		}
		return true
	})
	return res
}

// oneRole: all calls of `name` inside n name the same role constant as their first argument
func oneRole(n ast.Node, name, where string) (string, error) {
	cs := callsNamed(n, name)
	if len(cs) == 0 {
		return "", fmt.Errorf("%s: no call of %s", where, name)
	}
	role := ""
	for _, c := range cs {
		if len(c.Args) == 0 {
			return "", fmt.Errorf("%s: %s without arguments", where, name)
		}
		r, ok := roleArg(c.Args[0])
		if !ok {
			return "", fmt.Errorf("%s: first argument of %s is not a noderoles constant", where, name)
		}
		if role != "" && role != r {
			return "", fmt.Errorf("%s: %s is called with different roles (%s, %s)", where, name, role, r)
		}
		role = r
	}
	return role, nil
}

func extractRoleFacts(dep, notary, alphabet *ast.File, out *roleFacts) error {
	// checkCommitteeRoles: `x, err := checkRole(noderoles.R, …)` … `return a, b, nil`
	cf := findFunc(dep, "checkCommitteeRoles")
	if cf == nil {
		return fmt.Errorf("checkCommitteeRoles not found")
	}
	byVar := map[string]string{}
	var results []string
	var ferr error
	ast.Inspect(cf.Body, func(x ast.Node) bool {
		switch st := x.(type) {
		case *ast.AssignStmt:
			if len(st.Lhs) == 2 && len(st.Rhs) == 1 {
				if c, ok := st.Rhs[0].(*ast.CallExpr); ok {
					if id, ok := c.Fun.(*ast.Ident); ok && id.Name == "checkRole" && len(c.Args) > 0 {
						r, ok := roleArg(c.Args[0])
						v, ok2 := st.Lhs[0].(*ast.Ident)
						if !ok || !ok2 {
							ferr = fmt.Errorf("checkCommitteeRoles: unsupported checkRole call")
							return false
						}
						byVar[v.Name] = r
					}
				}
			}
		case *ast.ReturnStmt:
			if len(st.Results) == 3 {
				if id, ok := st.Results[2].(*ast.Ident); ok && id.Name == "nil" {
					results = nil
					for _, e := range st.Results[:2] {
						v, ok := e.(*ast.Ident)
						if !ok {
							ferr = fmt.Errorf("checkCommitteeRoles: result is not a variable")
							return false
						}
						results = append(results, v.Name)
					}
				}
			}
		}
		return true
	})
	if ferr != nil {
		return ferr
	}
	if len(results) != 2 {
		return fmt.Errorf("checkCommitteeRoles: successful `return a, b, nil` not found")
	}
	for _, v := range results {
		r, ok := byVar[v]
		if !ok {
			return fmt.Errorf("checkCommitteeRoles: result %s does not come from checkRole", v)
		}
		out.precheck = append(out.precheck, r)
	}
	// Deploy: `a, b, err := checkCommitteeRoles(…)`, `if !a { … enableNotary(…) }`, `if !b { … designateNeoFSAlphabet(…) }`
	df := findFunc(dep, "Deploy")
	if df == nil {
		return fmt.Errorf("Deploy not found")
	}
	pos := map[string]int{}
	ast.Inspect(df.Body, func(x ast.Node) bool {
		if as, ok := x.(*ast.AssignStmt); ok && len(as.Rhs) == 1 && len(as.Lhs) == 3 {
			if c, ok := as.Rhs[0].(*ast.CallExpr); ok {
				if id, ok := c.Fun.(*ast.Ident); ok && id.Name == "checkCommitteeRoles" {
					for i, l := range as.Lhs[:2] {
						if v, ok := l.(*ast.Ident); ok {
							pos[v.Name] = i
						}
					}
				}
			}
		}
		return true
	})
	if len(pos) != 2 {
		return fmt.Errorf("Deploy: `a, b, err := checkCommitteeRoles(…)` not found")
	}
	guard := func(stage string) (int, error) {
		g := -1
		ast.Inspect(df.Body, func(x ast.Node) bool {
			if s, ok := x.(*ast.IfStmt); ok && len(callsNamed(s.Body, stage)) > 0 {
				if u, ok := s.Cond.(*ast.UnaryExpr); ok && u.Op == token.NOT {
					if v, ok := u.X.(*ast.Ident); ok {
						if p, ok := pos[v.Name]; ok {
							g = p
						}
					}
				}
			}
			return true
		})
		if g < 0 {
			return 0, fmt.Errorf("Deploy: `if !<flag of checkCommitteeRoles> { … %s(…) }` not found", stage)
		}
		return g, nil
	}
	var err error
	if out.guardNotary, err = guard("enableNotary"); err != nil {
		return err
	}
	if out.guardAlphabet, err = guard("designateNeoFSAlphabet"); err != nil {
		return err
	}
	// the stages' own loops and designations
	en := findFunc(notary, "enableNotary")
	da := findFunc(alphabet, "designateNeoFSAlphabet")
	iv := findFunc(alphabet, "initVoteForAlphabet")
	if en == nil || da == nil || iv == nil {
		return fmt.Errorf("enableNotary / designateNeoFSAlphabet / initVoteForAlphabet not found")
	}
	if out.loopNotary, err = oneRole(en.Body, "checkRole", "enableNotary"); err != nil {
		return err
	}
	if out.loopAlphabet, err = oneRole(da.Body, "checkRole", "designateNeoFSAlphabet"); err != nil {
		return err
	}
	if out.desNotary, err = oneRole(notary, "DesignateAsRole*", "deploy/notary.go"); err != nil {
		return err
	}
	if out.desAlphabet, err = oneRole(da.Body, "DesignateAsRole*", "designateNeoFSAlphabet"); err != nil {
		return err
	}
	if out.voteNeeds, err = oneRole(iv.Body, "GetDesignatedByRole", "initVoteForAlphabet"); err != nil {
		return err
	}
	return nil
}

// signerReplaces: in the signer's tick the flag `recordExists` (true: re-sign with setRecord(id 0), false: with addRecord)
// must be set for EVERY record found under the member's own domain, i.e. `recordExists = true` is a statement of the
// else-block of the `if err != nil` that follows the lookup of that domain — then an outdated record is replaced. When the
// assignment sits deeper (e.g. only where the checksum matches) an outdated record is re-signed with addRecord.
func signerReplaces(fd *ast.FuncDecl) (bool, error) {
	var stack []ast.Node
	found, top := 0, false
	ast.Inspect(fd.Body, func(x ast.Node) bool {
		if x == nil {
			stack = stack[:len(stack)-1]
			return true
		}
		if as, ok := x.(*ast.AssignStmt); ok && len(as.Lhs) == 1 && len(as.Rhs) == 1 && as.Tok == token.ASSIGN {
			l, ok1 := as.Lhs[0].(*ast.Ident)
			r, ok2 := as.Rhs[0].(*ast.Ident)
			if ok1 && ok2 && l.Name == "recordExists" && r.Name == "true" {
				found++
				// parent block and the if statement it is the else-branch of
				if len(stack) >= 2 {
					blk, ok := stack[len(stack)-1].(*ast.BlockStmt)
					ifs, ok2 := stack[len(stack)-2].(*ast.IfStmt)
					if ok && ok2 && ifs.Else == blk {
						if c, ok := ifs.Cond.(*ast.BinaryExpr); ok && c.Op == token.NEQ {
							if id, ok := c.X.(*ast.Ident); ok && id.Name == "err" {
								top = true
							}
						}
					}
				}
			}
		}
		stack = append(stack, x)
		return true
	})
	if found != 1 {
		return false, fmt.Errorf("fact signerReplacesOutdatedRecord: %d assignments `recordExists = true` in initDesignateNotaryRoleAsSignerTick, expected 1", found)
	}
	return top, nil
}

func deployFacts(repo, outPath string) error {
	fset := token.NewFileSet()
	parse := func(name string) (*ast.File, error) {
		return parser.ParseFile(fset, filepath.Join(repo, "deploy", name), nil, parser.SkipObjectResolution)
	}
	notary, err := parse("notary.go")
	if err != nil {
		return err
	}
	var out dfacts
	lf := findFunc(notary, "initDesignateNotaryRoleAsLeaderTick")
	if lf == nil {
		return fmt.Errorf("initDesignateNotaryRoleAsLeaderTick not found")
	}
	// all top-level functions of the package (helpers are followed one level)
	pkgFuncs := map[string]*ast.FuncDecl{}
	ents, err := os.ReadDir(filepath.Join(repo, "deploy"))
	if err != nil {
		return err
	}
	for _, e := range ents {
		n := e.Name()
		if e.IsDir() || !strings.HasSuffix(n, ".go") || strings.HasSuffix(n, "_test.go") {
			continue
		}
		f, err := parse(n)
		if err != nil {
			return err
		}
		for _, d := range f.Decls {
			if fd, ok := d.(*ast.FuncDecl); ok && fd.Recv == nil {
				pkgFuncs[fd.Name.Name] = fd
			}
		}
	}
	domFnName = findDomainHelper(pkgFuncs, lf)
	if err := leaderFacts(fset, lf, pkgFuncs, &out); err != nil {
		if !strings.HasPrefix(err.Error(), "fact ") {
			err = fmt.Errorf("fact leaderLoopLo/leaderLoopHi/leaderDomainOff (collection loop of initDesignateNotaryRoleAsLeaderTick, deploy/notary.go:%d-%d): %w",
				fset.Position(lf.Pos()).Line, fset.Position(lf.End()).Line, err)
		}
		return err
	}
	sf := findFunc(notary, "initDesignateNotaryRoleAsSignerTick")
	if sf == nil {
		return fmt.Errorf("initDesignateNotaryRoleAsSignerTick not found")
	}
	sc := containsCall(sf.Body, domFnName)
	if sc == nil {
		return fmt.Errorf("signer: no call of the per-member signature domain helper (%s)", domFnName)
	}
	// prm.localAccCommitteeIndex (+c)
	arg := sc.Args[0]
	sdOff := -1
	if s, ok := arg.(*ast.SelectorExpr); ok && s.Sel.Name == "localAccCommitteeIndex" {
		sdOff = 0
	} else if b, ok := arg.(*ast.BinaryExpr); ok && b.Op == token.ADD {
		if s, ok := b.X.(*ast.SelectorExpr); ok && s.Sel.Name == "localAccCommitteeIndex" {
			if c, ok := intLit(b.Y); ok {
				sdOff = c
			}
		}
	}
	if sdOff < 0 {
		return fmt.Errorf("signer: domain index %q is not prm.localAccCommitteeIndex+c", exprStr(fset, arg))
	}
	out.sdOff = sdOff
	if out.replaceOutdated, err = signerReplaces(sf); err != nil {
		return err
	}
	// leader index: enableNotary: `if prm.localAccCommitteeIndex == 0 { ...AsLeaderTick`
	en := findFunc(notary, "enableNotary")
	if en == nil {
		return fmt.Errorf("enableNotary not found")
	}
	out.leaderIndex = -1
	ast.Inspect(en.Body, func(x ast.Node) bool {
		if s, ok := x.(*ast.IfStmt); ok && containsCall(s.Body, "initDesignateNotaryRoleAsLeaderTick") != nil {
			if b, ok := s.Cond.(*ast.BinaryExpr); ok && b.Op == token.EQL {
				if sel, ok := b.X.(*ast.SelectorExpr); ok && sel.Sel.Name == "localAccCommitteeIndex" {
					if c, ok := intLit(b.Y); ok {
						out.leaderIndex = c
					}
				}
			}
		}
		return true
	})
	if out.leaderIndex < 0 {
		return fmt.Errorf("enableNotary: leader selection `prm.localAccCommitteeIndex == c` not found")
	}
	// stage names: constants assigned to syncPrm.domainName in Deploy, in order
	nnsf, err := parse("nns.go")
	if err != nil {
		return err
	}
	consts := map[string]string{}
	for _, d := range nnsf.Decls {
		if gd, ok := d.(*ast.GenDecl); ok && gd.Tok == token.CONST {
			for _, sp := range gd.Specs {
				vs := sp.(*ast.ValueSpec)
				for i, id := range vs.Names {
					if i < len(vs.Values) {
						if bl, ok := vs.Values[i].(*ast.BasicLit); ok && bl.Kind == token.STRING {
							s, _ := strconv.Unquote(bl.Value)
							consts[id.Name] = s
						}
					}
				}
			}
		}
	}
	dep, err := parse("deploy.go")
	if err != nil {
		return err
	}
	df := findFunc(dep, "Deploy")
	if df == nil {
		return fmt.Errorf("Deploy not found")
	}
	ast.Inspect(df.Body, func(x ast.Node) bool {
		if as, ok := x.(*ast.AssignStmt); ok && len(as.Lhs) == 1 && len(as.Rhs) == 1 {
			if sel, ok := as.Lhs[0].(*ast.SelectorExpr); ok && sel.Sel.Name == "domainName" {
				if id, ok := as.Rhs[0].(*ast.Ident); ok {
					if v, ok := consts[id.Name]; ok {
						out.stages = append(out.stages, v)
					}
				}
			}
		}
		return true
	})
	if len(out.stages) == 0 {
		return fmt.Errorf("Deploy: no `syncPrm.domainName = <const>` stages found")
	}
	alphaf, err := parse("alphabet.go")
	if err != nil {
		return err
	}
	if err := extractRoleFacts(dep, notary, alphaf, &out.roles); err != nil {
		return fmt.Errorf("fact precheckRoles/guardOf…/loopRoleOf…/roleDesignatedBy…/roleNeededByVote (checkCommitteeRoles and Deploy in deploy/deploy.go, enableNotary in notary.go, designateNeoFSAlphabet and initVoteForAlphabet in alphabet.go): %w", err)
	}
	var b strings.Builder
	b.WriteString("/-! GENERATED by /verif/extract (deployfacts) from deploy/notary.go, deploy/deploy.go, deploy/nns.go of the\nrepository under test. Do not edit. Leader loop as found: `" + out.loopText + "` -/\nnamespace NeoFS.Generated.DeployFacts\n\n")
	unused := func(t string) string {
		if strings.Contains(t, "n") {
			return "n"
		}
		return "_n"
	}
	fmt.Fprintf(&b, "/-- first loop index of the leader's collection loop -/\ndef leaderLoopLo (%s : Nat) : Nat := %s\n", unused(out.loNat), out.loNat)
	fmt.Fprintf(&b, "/-- one past the last loop index -/\ndef leaderLoopHi (%s : Nat) : Nat := %s\n", unused(out.hiNat), out.hiNat)
	fmt.Fprintf(&b, "/-- the leader reads signature domain `i + leaderDomainOff` -/\ndef leaderDomainOff : Nat := %d\n", out.domOff)
	fmt.Fprintf(&b, "/-- ... verifies it with committee key `i + leaderKeyOff` -/\ndef leaderKeyOff : Nat := %d\n", out.keyOff)
	fmt.Fprintf(&b, "/-- ... and, only after it verified, stores it under index `i + leaderStoreOff` of its per-member container (map or slice) -/\ndef leaderStoreOff : Nat := %d\n", out.storeOff)
	fmt.Fprintf(&b, "/-- signer `j` publishes under signature domain `j + signerDomainOff` -/\ndef signerDomainOff : Nat := %d\n", out.sdOff)
	fmt.Fprintf(&b, "/-- a signer re-signs a record that belongs to outdated shared data with setRecord(id 0) (`recordExists` is set for every\nrecord found under its own domain); false: with addRecord, which NNS appends as record #1 -/\ndef signerReplacesOutdatedRecord : Bool := %v\n", out.replaceOutdated)
	fmt.Fprintf(&b, "/-- collected signatures are appended in ascending committee index (false: Go map order) -/\ndef appendSorted : Bool := %v\n", out.sorted)
	fmt.Fprintf(&b, "def leaderIndex : Nat := %d\n", out.leaderIndex)
	fmt.Fprintf(&b, "/-- needRemoteSignatures = GetMajorityHonestNodeCount(len(committee)) - 1 -/\ndef needRemoteIsMajorityMinusOne : Bool := %v\n", out.needMinusOne)
	fmt.Fprintf(&b, "/-- the collection loop is left as soon as the number of stored signatures (len of the map, or a counter) reaches the needed one -/\ndef breakWhenEnough : Bool := %v\n", out.breakEnough)
	fmt.Fprintf(&b, "/-- transaction monitor asked before the designation transaction is (re)sent -/\ndef designateGuardMonitor : String := %s\n", leanStr(out.guardMonitor))
	parts := make([]string, len(out.stages))
	for i, s := range out.stages {
		parts[i] = leanStr(s)
	}
	fmt.Fprintf(&b, "/-- NNS names (in the `neofs` zone) of the contract stages of Deploy, in order (Alphabet contracts follow) -/\ndef systemDomains : List String := [%s]\n", strings.Join(parts, ", "))
	rp := make([]string, len(out.roles.precheck))
	for i, r := range out.roles.precheck {
		rp[i] = leanStr(r)
	}
	fmt.Fprintf(&b, "/-- node roles queried by checkCommitteeRoles, in the order of its results -/\ndef precheckRoles : List String := [%s]\n", strings.Join(rp, ", "))
	fmt.Fprintf(&b, "/-- Deploy skips enableNotary / designateNeoFSAlphabet when the result of checkCommitteeRoles at this position is set -/\ndef guardOfEnableNotary : Nat := %d\ndef guardOfDesignateAlphabet : Nat := %d\n", out.roles.guardNotary, out.roles.guardAlphabet)
	fmt.Fprintf(&b, "/-- role the stage's own loop checks before it returns -/\ndef loopRoleOfEnableNotary : String := %s\ndef loopRoleOfDesignateAlphabet : String := %s\n", leanStr(out.roles.loopNotary), leanStr(out.roles.loopAlphabet))
	fmt.Fprintf(&b, "/-- role the stage designates -/\ndef roleDesignatedByEnableNotary : String := %s\ndef roleDesignatedByDesignateAlphabet : String := %s\n", leanStr(out.roles.desNotary), leanStr(out.roles.desAlphabet))
	fmt.Fprintf(&b, "/-- role whose members initVoteForAlphabet requires (it fails when there are none) -/\ndef roleNeededByVote : String := %s\n", leanStr(out.roles.voteNeeds))
	b.WriteString("\nend NeoFS.Generated.DeployFacts\n")
	old, _ := os.ReadFile(outPath)
	if string(old) == b.String() {
		fmt.Println("DeployFacts.lean unchanged (" + out.loopText + ")")
		return nil
	}
	tmp := outPath + ".tmp"
	if err := os.WriteFile(tmp, []byte(b.String()), 0o644); err != nil {
		return err
	}
	if err := os.Rename(tmp, outPath); err != nil {
		return err
	}
	fmt.Println("DeployFacts.lean regenerated (" + out.loopText + ")")
	return nil
}
