import NeoFS.Model.Vote
/-! # Main-chain NeoFS contract (contracts/neofs/contract.go), hand-written model.

Both deployments are modelled: Notary mode (`notaryDisabled = false`: Alphabet methods need the
committee's 2/3+1 multisignature) and vote mode (`notaryDisabled = true`: every Alphabet member
invokes the method itself and `common.Vote` counts the invocations).

State: the contract's storage as typed families (stored Alphabet keys, Processing address,
configuration records, candidates, ballots) plus the native GAS ledger. Every method mirrors the Go
code branch by branch, FAULT paths and the order of effects included; `step` returns `none` for a FAULT
and `invoke` implements transaction atomicity.

Modelled: `OnNEP17Payment`, `Withdraw`, `Cheque`, `InnerRingCandidateAdd`, `InnerRingCandidateRemove`,
`AlphabetUpdate`, `SetConfig`, the read methods through the state observation, and native GAS `transfer`
as far as the contract exercises it (argument lengths, negative amount, witness, funds, self-transfer,
`onNEP17Payment` callback into this contract).  Not modelled: `Bind`/`Unbind` (notification only),
`Update`, `_deploy` (the harness deploys and the initial state is read from the case line).
Tied to the code by the correspondence run of `./check C17|C19`. -/
namespace NeoFS.Main
open NeoFS NeoFS.Vote

abbrev Hash := Bytes
abbrev Key := Bytes

/-- what is fixed for one deployment -/
structure World where
  self : Hash                 -- the NeoFS contract (`runtime.GetExecutingScriptHash()`)
  cmt : Hash                  -- 2/3+1 multisignature account of `neo.GetCommittee()` (`common.AlphabetAddress`)
  tab : List (Key × Hash)     -- the valid public keys of the case and `contract.CreateStandardAccount` of each

/-- `contract.CreateStandardAccount(key)`; `none`: not a public key (the interop FAULTs) -/
def World.acc (w : World) (k : Key) : Option Hash := (w.tab.find? (fun kv => kv.1 == k)).map (·.2)

abbrev Ledger := Hash → Int

def Ledger.add (g : Ledger) (a : Hash) (x : Int) : Ledger := fun b => if b = a then g b + x else g b

/-- balances after a successful native transfer (`from == to` or amount 0 change nothing) -/
def Ledger.move (g : Ledger) (frm to : Hash) (amt : Int) : Ledger :=
  if frm = to ∨ amt = 0 then g else (g.add frm (-amt)).add to amt

structure State where
  nd : Bool                         -- "notary" = notaryDisabled
  keys : List Key                   -- "alphabet"
  saddr : Hash                      -- 2/3+1 multisignature account of the stored keys (digest supplied by the harness)
  proc : Hash                       -- "processingScriptHash"
  cfg : List (Bytes × Bytes)        -- "config" ‖ key ↦ value, unique keys
  cands : List Key                  -- "candidates" ‖ key ↦ [1]
  ballots : List Ballot             -- "ballots" (written in vote mode only)
  gas : Ledger

structure Env where
  wit : List Hash                   -- accounts whose witness the transaction carries (Global scope)
  height : Int                      -- `ledger.CurrentIndex()`

/-- the `data` argument of a NEP-17 payment as it reaches `OnNEP17Payment` -/
inductive Data where
  | null
  | bytes (b : Bytes)
  | int (z : Int)                   -- an Integer stack item (handled through its byte form)
  | other                           -- Boolean, Array, …: `rcv.Equals`/`len(rcv)` FAULT
  deriving Repr, DecidableEq

inductive Event where
  | gasT (frm to : Hash) (amt : Int)                       -- native GAS `Transfer`
  | deposit (frm : Hash) (amt : Int) (rcv : Hash)
  | withdraw (user : Hash) (amt : Int)
  | cheque (id : Bytes) (user : Hash) (amt : Int) (lock : Bytes)
  | alphabetUpdate (id : Bytes) (ks : List Key)
  | setConfig (id key val : Bytes)
  deriving Repr, DecidableEq

inductive Op where
  | deposit (frm : Hash) (amt : Int) (d : Data)           -- GAS.transfer(frm, NeoFS, amt, d) from the entry script
  | xfer (frm to : Hash) (amt : Int)                      -- GAS.transfer between other accounts
  | pay (frm : Hash) (amt : Int) (d : Data)               -- OnNEP17Payment called by anything but GAS
  | withdraw (user : Hash) (amt : Int)
  | cheque (id : Bytes) (user : Hash) (amt : Int) (lock : Bytes)
  | candAdd (k : Key)
  | candRemove (k : Key) (idh : Bytes)                    -- idh = sha256(k ‖ "delete")
  | alphabetUpdate (id : Bytes) (ks : List Key) (newAddr : Hash)
  | setConfig (id key : Bytes) (val : Option Bytes)       -- `none`: a Null value
  | skip                                                  -- empty blocks
  deriving Repr

/-! ### constants (regenerated from the sources) -/

def maxGAS : Int := NeoFS.Generated.neofs_maxBalanceAmountGAS
def maxWithdraw : Int := NeoFS.Generated.neofs_maxBalanceAmount
def ignoreMarker : Bytes := NeoFS.Generated.neofs_ignoreDepositNotification_bytes
def withdrawFeeKey : Bytes := NeoFS.Generated.neofs_withdrawFeeConfigKey_bytes
def candidateFeeKey : Bytes := NeoFS.Generated.neofs_CandidateFeeConfigKey_bytes
def configPrefix : Bytes := NeoFS.Generated.neofs_configPrefix
def candidatesPrefix : Bytes := NeoFS.Generated.neofs_candidatesKey_bytes
/-- neo-go: a storage key holds at most 64 bytes -/
def maxStorageKey : Nat := 64

/-! ### helpers -/

def cfgGet (c : List (Bytes × Bytes)) (k : Bytes) : Option Bytes := (c.find? (fun kv => kv.1 == k)).map (·.2)
def cfgPut (c : List (Bytes × Bytes)) (k v : Bytes) : List (Bytes × Bytes) := (k, v) :: c.filter (fun kv => kv.1 != k)

/-- `getConfig(ctx, key).(int)` handed to a native method: Null FAULTs, more than 32 bytes FAULT -/
def cfgInt (c : List (Bytes × Bytes)) (k : Bytes) : Option Int :=
  match cfgGet c k with
  | none => none
  | some v => if v.length ≤ 32 then some (decInt v) else none

/-- `rcv := data.(interop.Hash160)`: the byte form `rcv.Equals`, `len(rcv)` and the manifest check of `Notify`
work on. An Integer item goes through its byte form (observed on the real VM: an Integer whose byte form has
20 bytes is taken as the receiver, 0 as "no receiver", 2903 = 0x0b57 as the ignore marker).
`none`: Boolean, Array, …, on which the conversions FAULT. -/
def Data.form : Data → Option Bytes
  | .null => some []
  | .bytes b => some b
  | .int z => some (encInt z)
  | .other => none

/-- the body of `OnNEP17Payment` once `data` has a byte form -/
def onPaymentBody (callerIsGas : Bool) (frm : Hash) (amt : Int) (rcv : Bytes) : Option (List Event) :=
  if rcv = ignoreMarker then some []                         -- `rcv.Equals(ignoreDepositNotification)`: return
  else if amt ≤ 0 then none                                  -- "amount must be positive"
  else if maxGAS < amt then none                             -- "out of max amount limit"
  else if !callerIsGas then none                             -- "only GAS can be accepted for deposit"
  else if rcv.length = 20 then some [.deposit frm amt rcv]
  else if rcv.length = 0 then some [.deposit frm amt frm]    -- `rcv = from`
  else none                                                  -- "invalid data argument, expected Hash160"

/-- `OnNEP17Payment(from, amount, data)`; `none` = ABORT/FAULT, `some evs` = HALT -/
def onPayment (callerIsGas : Bool) (frm : Hash) (amt : Int) (d : Data) : Option (List Event) :=
  match d.form with
  | none => none
  | some rcv => onPaymentBody callerIsGas frm amt rcv

/-- native GAS `transfer(from, to, amount, data)`. `auth`: the native's test `caller == from ∨ witness(from)`.
`none` = FAULT (malformed address, or the recipient's callback FAULTs); `some (false, …)` = refused. The only
recipient with a modelled callback is the NeoFS contract itself; other recipients are plain accounts or
contracts that accept GAS (Processing, the probe). -/
def gasTransfer (w : World) (g : Ledger) (auth : Bool) (frm to : Hash) (amt : Int) (d : Data) :
    Option (Bool × Ledger × List Event) :=
  if frm.length ≠ 20 ∨ to.length ≠ 20 then none
  else if amt < 0 then some (false, g, [])
  else if !auth then some (false, g, [])
  else if g frm < amt then some (false, g, [])
  else
    let g' := g.move frm to amt
    if to = w.self then
      match onPayment true frm amt d with
      | none => none
      | some evs => some (true, g', .gasT frm to amt :: evs)
    else some (true, g', [.gasT frm to amt])

/-- `if !gas.Transfer(..) { panic(..) }` inside a contract method -/
def mustTransfer (w : World) (g : Ledger) (auth : Bool) (frm to : Hash) (amt : Int) (d : Data) :
    Option (Ledger × List Event) :=
  match gasTransfer w g auth frm to amt d with
  | some (true, g', evs) => some (g', evs)
  | _ => none

/-- `runtime.CheckWitness(key)` for a public key: `none` = FAULT (not a key) -/
def witKey (w : World) (env : Env) (k : Key) : Option Bool := (w.acc k).map (fun a => env.wit.contains a)

/-- the withdraw-fee loop of vote mode: one transfer per stored key, in stored order -/
def payEach (w : World) (user : Hash) (fee : Int) : List Key → Ledger → List Event → Option (Ledger × List Event)
  | [], g, evs => some (g, evs)
  | k :: rest, g, evs =>
    match w.acc k with
    | none => none
    | some a =>
      match mustTransfer w g true user a fee (.bytes []) with
      | none => none
      | some (g', e) => payEach w user fee rest g' (evs ++ e)

/-- how an Alphabet-only method decides whether to go on.
`none` = FAULT; `some (ballots', go)`: HALT, and the method body runs iff `go`. `pre` is evaluated between the
invoker test and the vote (argument checks placed there by `AlphabetUpdate`). -/
def alphabetGate (w : World) (s : State) (env : Env) (id : Bytes) (pre : Bool) : Option (List Ballot × Bool) :=
  if s.nd then
    match invoker (witKey w env) s.keys with
    | none => none
    | some none => none                                  -- "this method must be invoked by alphabet"
    | some (some k) =>
      if !pre then none
      else collect (threshold s.keys.length) s.ballots env.height id k
  else
    if !env.wit.contains w.cmt then none                 -- common.CheckAlphabetWitness()
    else if !pre then none
    else some (s.ballots, true)

/-- result of a HALTed invocation. `fired` is a ghost flag: the body of an Alphabet-only method ran
(it is tied to the observable effects by `NeoFS.Main.fired_*` in Lemmas/NeoFSMain.lean) -/
structure Halt where
  st : State
  ret : Option Bool
  evs : List Event
  fired : Bool := false

/-- one invocation; `none` = FAULT -/
def step (w : World) (s : State) (env : Env) : Op → Option Halt
  | .skip => some ⟨s, none, [], false⟩
  | .deposit frm amt d =>
    match gasTransfer w s.gas (env.wit.contains frm) frm w.self amt d with
    | none => none
    | some (ok, g, evs) => some ⟨{ s with gas := g }, some ok, evs, false⟩
  | .xfer frm to amt =>
    match gasTransfer w s.gas (env.wit.contains frm) frm to amt .null with
    | none => none
    | some (ok, g, evs) => some ⟨{ s with gas := g }, some ok, evs, false⟩
  | .pay frm amt d =>
    match onPayment false frm amt d with
    | none => none
    | some evs => some ⟨s, none, evs, false⟩
  | .withdraw user amt =>
    if user.length ≠ 20 then none                         -- CheckWitness / Hash160 conversion
    else if !env.wit.contains user then none
    else if amt < 0 then none
    else if amt > maxWithdraw then none
    else match cfgInt s.cfg withdrawFeeKey with
      | none => none
      | some fee =>
        let paid := if s.nd then payEach w user fee s.keys s.gas []
                    else mustTransfer w s.gas true user s.proc fee (.bytes [])
        match paid with
        | none => none
        | some (g, evs) => some ⟨{ s with gas := g }, none, evs ++ [.withdraw user (amt * 100000000)], false⟩
  | .cheque id user amt lock =>
    match alphabetGate w s env id true with
    | none => none
    | some (bs, false) => some ⟨{ s with ballots := bs }, none, [], false⟩
    | some (bs, true) =>
      match mustTransfer w s.gas true w.self user amt .null with
      | none => none
      | some (g, evs) => some ⟨{ s with ballots := bs, gas := g }, none, evs ++ [.cheque id user amt lock], true⟩
  | .candAdd k =>
    match w.acc k with
    | none => none
    | some a =>
      if !env.wit.contains a then none
      else if s.cands.contains k then none
      else match cfgInt s.cfg candidateFeeKey with
        | none => none
        | some fee =>
          match mustTransfer w s.gas true a w.self fee (.bytes ignoreMarker) with
          | none => none
          | some (g, evs) => some ⟨{ s with cands := k :: s.cands, gas := g }, none, evs, false⟩
  | .candRemove k idh =>
    match w.acc k with
    | none => none
    | some a =>
      let remove (bs : List Ballot) : Option Halt :=
        some ⟨{ s with ballots := bs, cands := s.cands.filter (fun c => c != k) }, none, [], true⟩
      if env.wit.contains a then remove s.ballots          -- requested by the candidate itself
      else if s.nd then
        match invoker (witKey w env) s.keys with
        | none => none
        | some none => none
        | some (some ik) =>
          match collect (threshold s.keys.length) s.ballots env.height idh ik with
          | none => none
          | some (bs, false) => some ⟨{ s with ballots := bs }, none, [], false⟩
          | some (bs, true) => remove bs
      else
        if s.saddr.length ≠ 20 then none                   -- multiaddress of a malformed key list
        else if !env.wit.contains s.saddr then none
        else remove s.ballots
  | .alphabetUpdate id ks na =>
    if ks.isEmpty then none
    else match alphabetGate w s env id (ks.all (fun k => k.length == 33)) with
      | none => none
      | some (bs, false) => some ⟨{ s with ballots := bs }, none, [], false⟩
      | some (bs, true) => some ⟨{ s with ballots := bs, keys := ks, saddr := na }, none, [.alphabetUpdate id ks], true⟩
  | .setConfig id key val =>
    match alphabetGate w s env id true with
    | none => none
    | some (bs, false) => some ⟨{ s with ballots := bs }, none, [], false⟩
    | some (bs, true) =>
      match val with
      | none => none                                       -- storage.Put(k, nil)
      | some v =>
        if configPrefix.length + key.length > maxStorageKey then none
        else some ⟨{ s with ballots := bs, cfg := cfgPut s.cfg key v }, none, [.setConfig id key v], true⟩

/-- transaction atomicity: a FAULT leaves the state untouched -/
def invoke (w : World) (s : State) (env : Env) (op : Op) : State × Option (Option Bool × List Event) :=
  match step w s env op with
  | none => (s, none)
  | some h => (h.st, some (h.ret, h.evs))

/-- a history: every invocation with its environment -/
def run (w : World) (s : State) : List (Env × Op) → State
  | [] => s
  | (env, op) :: rest => run w (invoke w s env op).1 rest

end NeoFS.Main
