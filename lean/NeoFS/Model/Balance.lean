import NeoFS.Base.Bytes
/-! # Balance contract (contracts/balance/contract.go), hand-written model.

State: the account records under prefix `a` (typed map, unique keys) and the circulation counter.
Every method mirrors the Go code branch by branch; `step` returns `none` for a FAULT and `invoke`
implements transaction atomicity (a FAULT leaves the state untouched).
Tied to the code by the correspondence run of `./check C01|C02|C09`. -/
namespace NeoFS.Balance
open NeoFS


abbrev Hash := Bytes

structure Account where
  bal : Int
  till : Int
  parent : Hash
  deriving Repr, DecidableEq

def Account.empty : Account := ⟨0, 0, []⟩

abbrev Accts := List (Hash × Account)

def getAcc (m : Accts) (k : Hash) : Account := ((m.find? (fun kv => kv.1 == k)).map (·.2)).getD Account.empty
def delAcc (m : Accts) (k : Hash) : Accts := m.filter (fun kv => kv.1 != k)
def setAcc (m : Accts) (k : Hash) (a : Account) : Accts := (k, a) :: delAcc m k
def total : Accts → Int
  | [] => 0
  | (_, a) :: r => a.bal + total r
def Uniq (m : Accts) : Prop := (m.map (·.1)).Nodup

structure State where
  accts : Accts
  supply : Int
  deriving Repr

structure Env where
  witnesses : List Hash
  caller : Hash
  alphabet : Bool

inductive Event where
  | transfer (frm to : Hash) (amt : Int)
  | transferX (frm to : Hash) (amt : Int) (details : List Nat)
  | lock (details : List Nat) (frm to : Hash) (amt till : Int)
  deriving Repr, DecidableEq

def usable (env : Env) (a : Hash) : Bool :=
  a.length == 20 && (env.witnesses.contains a || env.caller == a)

/-- `Token.canTransfer`: `none` = refusal, `some acc` = the sender record to debit -/
def canTransfer (m : Accts) (env : Env) (frm to : Hash) (amt : Int) (ir : Bool) : Option Account :=
  if amt < 0 then none                                   -- F1 fix
  else if !ir && (to.length != 20 || !usable env frm) then none
  else if ir && frm.length == 0 then some Account.empty
  else
    let a := getAcc m frm
    if a.bal < amt then none else some a

/-- `Token.transfer` -/
def xfer (m : Accts) (env : Env) (frm to : Hash) (amt : Int) (ir : Bool) (details : List Nat) :
    Option (Accts × List Event) :=
  match canTransfer m env frm to amt ir with
  | none => none
  | some a =>
    let m1 := if frm.length == 20 then
                (if a.bal = amt then delAcc m frm else setAcc m frm { a with bal := a.bal - amt })
              else m
    let m2 := if to.length == 20 then
                (let t := getAcc m1 to; setAcc m1 to { t with bal := t.bal + amt })
              else m1
    some (m2, [.transfer frm to amt, .transferX frm to amt details])

/-! ### the contract's methods -/

inductive Op where
  | transfer (f t : Hash) (amt : Int)
  | transferX (f t : Hash) (amt : Int) (d : List Nat)
  | mint (t : Hash) (amt : Int) (d : List Nat)
  | burn (f : Hash) (amt : Int) (d : List Nat)
  | lock (d : List Nat) (f t : Hash) (amt till : Int)
  | newEpoch (e : Int)
  deriving Repr

/-- result of a HALTed invocation: new state, returned boolean (if any), notifications -/
abbrev Halt := State × Option Bool × List Event

def keyLe (a b : Hash) : Bool := decide (a ≤ b)

/-- structural insertion sort: unlike `List.mergeSort` it reduces under `decide` -/
def ins (a : Hash) : List Hash → List Hash
  | [] => [a]
  | b :: l => if keyLe a b then a :: b :: l else b :: ins a l
def isort : List Hash → List Hash
  | [] => []
  | a :: l => ins a (isort l)

theorem mem_ins (a x : Hash) (l : List Hash) : x ∈ ins a l ↔ x = a ∨ x ∈ l := by
  induction l with
  | nil => simp [ins]
  | cons b l ih =>
    unfold ins; split
    · simp
    · simp only [List.mem_cons, ih]
      constructor
      · rintro (h | h | h)
        · exact Or.inr (Or.inl h)
        · exact Or.inl h
        · exact Or.inr (Or.inr h)
      · rintro (h | h | h)
        · exact Or.inr (Or.inl h)
        · exact Or.inl h
        · exact Or.inr (Or.inr h)

theorem mem_isort (x : Hash) (l : List Hash) : x ∈ isort l ↔ x ∈ l := by
  induction l with
  | nil => simp [isort]
  | cons a l ih => simp only [isort, mem_ins, ih, List.mem_cons]

/-- one iteration of the unlock loop of `NewEpoch` -/
def unlockOne (env : Env) (e : Int) (cur : Accts × List Event) (k : Hash) : Accts × List Event :=
  let acc := getAcc cur.1 k
  if acc.parent = [] then cur                                -- `len(acc.Parent) == 0`: not a lock account
  else if e ≥ acc.till then
    match xfer cur.1 env k acc.parent acc.bal true (4 :: encInt e) with   -- common.UnlockTransferDetails
    | some (m', ev) => (m', cur.2 ++ ev)
    | none => cur
  else cur

/-- `runtime.Notify` checks its arguments against the event declared in the manifest: a Hash160
parameter must be Null or exactly 20 bytes, otherwise the invocation FAULTs (neo-go, HF Basilisk).
Every Alphabet-only method notifies `Transfer(from, to, amount)` on its only non-faulting path, so a
malformed address makes the whole invocation FAULT. -/
def badLen (h : Hash) : Bool := h.length != 0 && h.length != 20

/-- `none` = FAULT (the transaction is rolled back by `invoke`) -/
def step (s : State) (env : Env) : Op → Option Halt
  | .transfer f t amt =>
    match xfer s.accts env f t amt false [] with
    | some (m, ev) => some ({ s with accts := m }, some true, ev)
    | none => some (s, some false, [])
  | .transferX f t amt d =>
    if !env.alphabet || badLen f || badLen t then none else
    match xfer s.accts env f t amt true d with
    | some (m, ev) => some ({ s with accts := m }, none, ev)
    | none => none
  | .mint t amt d =>
    if !env.alphabet || badLen t then none else
    match xfer s.accts env [] t amt true (1 :: d) with
    | some (m, ev) => some ({ accts := m, supply := s.supply + amt }, none, ev)
    | none => none
  | .burn f amt d =>
    if !env.alphabet || badLen f then none else
    match xfer s.accts env f [] amt true (2 :: d) with
    | some (m, ev) => if s.supply < amt then none else some ({ accts := m, supply := s.supply - amt }, none, ev)
    | none => none
  | .lock d f t amt till =>
    if !env.alphabet || badLen f || badLen t then none else
    let m0 := setAcc s.accts t ⟨0, till, f⟩
    match xfer m0 env f t amt true (3 :: d) with
    | some (m, ev) => some ({ s with accts := m }, none, ev ++ [.lock d f t amt till])
    | none => none
  | .newEpoch e =>
    if !env.alphabet then none else
    let keys := isort ((s.accts.map (·.1)).filter (fun k => k.length == 20))
    let r := keys.foldl (unlockOne env e) (s.accts, [])
    some ({ s with accts := r.1 }, none, r.2)

def invoke (s : State) (env : Env) (op : Op) : State × Option (Option Bool × List Event) :=
  match step s env op with
  | none => (s, none)
  | some (s', r, ev) => (s', some (r, ev))


def init : State := ⟨[], 0⟩

/-- a history: every invocation with its environment -/
def run (s : State) : List (Env × Op) → State
  | [] => s
  | (env, op) :: rest => run (invoke s env op).1 rest

end NeoFS.Balance
