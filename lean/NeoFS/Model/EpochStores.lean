import NeoFS.Base.Bytes
import NeoFS.Generated.Consts
/-! # Epoch-keyed, per-owner and configuration stores (property C20), hand-written model.

Byte-key level model of the storage behaviour of

* `contracts/reputation/contract.go`   Put / Get / GetByID / ListByEpoch
* `contracts/audit/contract.go`        Put (header parsing, Inner Ring membership + witness) / Get / List /
                                       ListByEpoch / ListByCID / ListByNode
* `contracts/container/contract.go`    PutContainerSize / GetContainerSize / ListContainerSizes /
                                       IterateContainerSizes / IterateAllContainerSizes / NewEpoch
                                       (updateEstimations, cleanupContainers, isStorageNode, estimationKey)
* `contracts/neofsid/contract.go`      AddKey / RemoveKey / Key
* `contracts/netmap/contract.go`       SetConfig / Config / ListConfig
* `contracts/neofs/contract.go`        SetConfig (notary mode) / Config / ListConfig

A contract's storage is a `Store α` = association list keyed by byte strings; `find p` is
`storage.Find`: the entries whose key has prefix `p`, in key order (snapshot at the call).
Integers are turned into key bytes with `NeoFS.encInt` (variable length!).
`step` returns `none` for a FAULT, `invoke` implements transaction atomicity.
Tied to the code by the correspondence run of `./check C20`. -/
namespace NeoFS.EpochStores
open NeoFS

/-! ## the store -/

abbrev Store (α : Type) := List (Bytes × α)

variable {α : Type}

def get (s : Store α) (k : Bytes) : Option α := (s.find? (fun kv => kv.1 == k)).map (·.2)
def del (s : Store α) (k : Bytes) : Store α := s.filter (fun kv => kv.1 != k)
def put (s : Store α) (k : Bytes) (v : α) : Store α := (k, v) :: del s k

def keyLe (a b : Bytes) : Bool := decide (a ≤ b)

/-- structural insertion sort by key (reduces under `decide`, unlike `List.mergeSort`) -/
def ins (a : Bytes × α) : List (Bytes × α) → List (Bytes × α)
  | [] => [a]
  | b :: l => if keyLe a.1 b.1 then a :: b :: l else b :: ins a l
def isort : List (Bytes × α) → List (Bytes × α)
  | [] => []
  | a :: l => ins a (isort l)

/-- `storage.Find(prefix)`: entries whose key starts with `p`, ordered by key -/
def find (s : Store α) (p : Bytes) : List (Bytes × α) := isort (s.filter (fun kv => p.isPrefixOf kv.1))

/-- all keys are distinct (storage is a map) -/
def Uniq (s : Store α) : Prop := (s.map (·.1)).Nodup

/-- neo-go: `storage.Put` FAULTs for keys longer than 64 bytes (`MaxStorageKeyLen`) -/
def maxKeyLen : Nat := 64

def putK (s : Store α) (k : Bytes) (v : α) : Option (Store α) :=
  if k.length ≤ maxKeyLen then some (put s k v) else none

/-! ## environment of an invocation -/

structure Env where
  /-- the transaction carries the witness of the Alphabet multisignature account -/
  alpha : Bool
  /-- public keys whose single-signature accounts witness the transaction -/
  wit : List Bytes
  deriving Repr

/-- `runtime.CheckWitness(key)` for a byte string used as a public key: a VM exception unless the
    argument has 33 (key) or 20 (script hash) bytes. `none` = FAULT. Harness signers are single-key
    accounts announced by public key, so a 20-byte argument is never witnessed. -/
def checkWitnessKey (env : Env) (k : Bytes) : Option Bool :=
  if k.length = 33 then some (env.wit.contains k)
  else if k.length = 20 then some false
  else none

/-! ## Reputation -/

def repCountP : Nat := (Generated.reputation_reputationCountPrefix_bytes.headD 0)   -- 'c'
def repValueP : Nat := (Generated.reputation_reputationValuePrefix_bytes.headD 0)   -- 'r'

/-- `storageID(epoch, peerID)` -/
def storageID (e : Int) (peer : Bytes) : Bytes := encInt e ++ peer

/-- the counter stored under `'c' ‖ id` (0 when absent) -/
def repCount (s : Store Bytes) (id : Bytes) : Int :=
  match get s (repCountP :: id) with
  | none => 0
  | some raw => decInt raw

/-- `Put(epoch, peerID, value)` after the Alphabet check -/
def repPut (s : Store Bytes) (e : Int) (peer value : Bytes) : Option (Store Bytes) :=
  let id := storageID e peer
  let cnt := repCount s id + 1
  match putK s (repCountP :: id) (encInt cnt) with
  | none => none
  | some s1 => putK s1 (repValueP :: (id ++ encInt cnt)) value

/-- `GetByID(id)`: `Find('r'‖id, ValuesOnly)` -/
def repGetByID (s : Store Bytes) (id : Bytes) : List Bytes := (find s (repValueP :: id)).map (·.2)

/-- `Get(epoch, peerID)` -/
def repGet (s : Store Bytes) (e : Int) (peer : Bytes) : List Bytes := repGetByID s (storageID e peer)

/-- `ListByEpoch(epoch)`: `Find('c'‖enc epoch, KeysOnly)`, first byte cut -/
def repListByEpoch (s : Store Bytes) (e : Int) : List Bytes :=
  (find s (repCountP :: encInt e)).map (fun kv => kv.1.drop 1)

/-! ## Audit -/

def auditKeySize : Nat := Generated.audit_maxKeySize.toNat   -- 24

structure AHeader where
  epoch : Int
  cid : Bytes
  frm : Bytes
  deriving Repr, DecidableEq

/-- Go `b[i:j]`: VM exception when out of range -/
def slice (b : Bytes) (i j : Nat) : Option Bytes :=
  if i ≤ j ∧ j ≤ b.length then some ((b.drop i).take (j - i)) else none

/-- Go `b[i:]` -/
def sliceFrom (b : Bytes) (i : Nat) : Option Bytes :=
  if i ≤ b.length then some (b.drop i) else none

/-- `readNext`: length byte, then that many bytes -/
def readNext (inp : Bytes) : Option (Bytes × Nat) :=
  match inp with
  | [] => none
  | ln :: rest => if ln ≤ rest.length then some (rest.take ln, 1 + ln) else none

/-- `newAuditHeader` (V2 layout); `none` = VM exception (index out of range) -/
def parseHeader (inp : Bytes) : Option AHeader :=
  match inp[1]? with
  | none => none
  | some l =>
    let off := 2 + l + 1
    match slice inp off (off + 8) with
    | none => none
    | some eb =>
      let off2 := off + 8
      match sliceFrom inp (off2 + 2 + 1) with
      | none => none
      | some r1 =>
        match readNext r1 with
        | none => none
        | some (cid, co) =>
          match sliceFrom inp (off2 + 2 + 1 + co + 1) with
          | none => none
          | some r2 =>
            match readNext r2 with
            | none => none
            | some (key, _) => some ⟨decInt eb, cid, key⟩

/-- `AuditHeader.ID()`; `h` = SHA-256 of `From` (supplied with the operation) -/
def auditID (e : Int) (cid h : Bytes) : Bytes := encInt e ++ (cid ++ h.take auditKeySize)

/-- `Put(rawAuditResult)`; `ir` = `common.InnerRingNodes()`, `h` = sha256(hdr.From) -/
def audPut (s : Store Bytes) (env : Env) (ir : List Bytes) (raw h : Bytes) : Option (Store Bytes) :=
  match parseHeader raw with
  | none => none
  | some hdr =>
    let presented := ir.contains hdr.frm
    match checkWitnessKey env hdr.frm with
    | none => none
    | some w =>
      if !w || !presented then none
      else putK s (auditID hdr.epoch hdr.cid h) raw

def audGet (s : Store Bytes) (id : Bytes) : Option Bytes := get s id
def audList (s : Store Bytes) : List Bytes := (find s []).map (·.1)
def audListByEpoch (s : Store Bytes) (e : Int) : List Bytes := (find s (encInt e)).map (·.1)
def audListByCID (s : Store Bytes) (e : Int) (cid : Bytes) : List Bytes :=
  (find s (encInt e ++ cid)).map (·.1)
def audListByNode (s : Store Bytes) (e : Int) (cid h : Bytes) : List Bytes :=
  (find s (auditID e cid h)).map (·.1)

/-! ## Container size estimations -/

def cnrP : Bytes := Generated.container_estimateKeyPrefix_bytes      -- "cnr"
def estP : Bytes := Generated.container_singleEstimatePrefix_bytes   -- "est"
def cidSize : Nat := Generated.container_containerIDSize.toNat       -- 32
def postfixSize : Nat := Generated.container_estimatePostfixSize.toNat  -- 10
def cleanupDelta : Int := Generated.container_containerconst_CleanupDelta            -- 3
def totalCleanupDelta : Int := Generated.container_containerconst_TotalCleanupDelta  -- 4

structure Est where
  frm : Bytes
  size : Int
  deriving Repr, DecidableEq

/-- `estimationKey(epoch, cid, key)`; `h` = RIPEMD-160 of the key -/
def estimationKey (e : Int) (cid h : Bytes) : Bytes := cnrP ++ (encInt e ++ (cid ++ h.take postfixSize))

structure CState where
  /-- `cnr‖enc epoch‖cid‖h10 ↦ Estimation` -/
  cnr : Store Est
  /-- `est‖cid‖h20 ↦ []int` (epochs for which this node's estimations of the container are stored) -/
  est : Store (List Int)
  /-- containers that exist (`getOwnerByID ≠ nil`) -/
  live : List Bytes
  /-- containers that were deleted (cannot be created again) -/
  dead : List Bytes
  deriving Repr

/-- loop of `updateEstimations` (isUpdate = false) -/
def updLoop (cnr : Store Est) (epoch : Int) (cid h : Bytes) : List Int → Store Est × List Int
  | [] => (cnr, [])
  | old :: rest =>
    if epoch - old > cleanupDelta then
      updLoop (del cnr (estimationKey old cid h)) epoch cid h rest
    else
      let r := updLoop cnr epoch cid h rest
      (r.1, old :: r.2)

/-- `PutContainerSize(epoch, cid, usedSize, pubKey)`;
    `snap` = result of `netmap.snapshot(1)` (keys; `none` = the call FAULTs), `h` = ripemd160(pubKey) -/
def estPut (c : CState) (env : Env) (snap : Option (List Bytes)) (epoch : Int) (cid : Bytes) (size : Int)
    (pub h : Bytes) : Option CState :=
  if !c.live.contains cid then none                       -- NotFoundError
  else match checkWitnessKey env pub with
  | none => none
  | some false => none                                    -- common.CheckWitness(pubKey)
  | some true =>
    match snap with
    | none => none
    | some nodes =>
      if !nodes.contains pub then none                    -- isStorageNode
      else match putK c.cnr (estimationKey epoch cid h) ⟨pub, size⟩ with
      | none => none
      | some cnr1 =>
        let estKey := estP ++ (cid ++ h)
        let old := (get c.est estKey).getD []
        let r := updLoop cnr1 epoch cid h old
        match putK c.est estKey (r.2 ++ [epoch]) with
        | none => none
        | some est1 => some { c with cnr := r.1, est := est1 }

/-- one iteration of `cleanupContainers` -/
def cleanOne (epoch : Int) (cnr : Option (Store Est)) (k : Bytes) : Option (Store Est) :=
  match cnr with
  | none => none
  | some s =>
    if k.length < cidSize + postfixSize then none           -- negative slice bound
    else match slice k cnrP.length (k.length - cidSize - postfixSize) with
    | none => none
    | some nb =>
      if epoch - decInt nb > totalCleanupDelta then some (del s k) else some s

/-- `cleanupContainers(ctx, epoch)` -/
def cleanup (cnr : Store Est) (epoch : Int) : Option (Store Est) :=
  ((find cnr cnrP).map (·.1)).foldl (cleanOne epoch) (some cnr)

/-- `GetContainerSize(id)` -/
def estGet (c : CState) (id : Bytes) : Option (Bytes × List Est) :=
  if id.length < cnrP.length + cidSize || id.take cnrP.length != cnrP then none
  else some (id.drop (id.length - cidSize), (find c.cnr id).map (·.2))

def dedup : List Bytes → List Bytes
  | [] => []
  | a :: l => if (dedup l).contains a then dedup l else a :: dedup l

/-- `ListContainerSizes(epoch)` (the result comes out of a VM map; compared as a sorted duplicate-free list) -/
def estList (c : CState) (e : Int) : List Bytes :=
  dedup ((find c.cnr (cnrP ++ encInt e)).map (fun kv => kv.1.take (kv.1.length - postfixSize)))

/-- `IterateContainerSizes(epoch, cid)` -/
def estIter (c : CState) (e : Int) (cid : Bytes) : Option (List Est) :=
  if cid.length ≠ 32 then none else some ((find c.cnr (cnrP ++ (encInt e ++ cid))).map (·.2))

/-- `IterateAllContainerSizes(epoch)`: `RemovePrefix` -/
def estIterAll (c : CState) (e : Int) : List (Bytes × Est) :=
  (find c.cnr (cnrP ++ encInt e)).map (fun kv => (kv.1.drop (cnrP ++ encInt e).length, kv.2))

/-! ## NeoFSID -/

def ownerP : Nat := (Generated.neofsid_ownerKeysPrefix_bytes.headD 0)     -- 'o'
def ownerSize : Nat := Generated.neofsid_ownerSize.toNat        -- 25

def fsidArgsOk (owner : Bytes) (keys : List Bytes) : Bool :=
  owner.length == ownerSize && keys.all (fun k => k.length == 33)

def fsidKeyOf (owner k : Bytes) : Bytes := ownerP :: (owner ++ k)

def fsidAdd (s : Store Bytes) (env : Env) (owner : Bytes) (keys : List Bytes) : Option (Store Bytes) :=
  if !fsidArgsOk owner keys then none
  else if !env.alpha then none
  else some (keys.foldl (fun s k => put s (fsidKeyOf owner k) [1]) s)

def fsidRemove (s : Store Bytes) (env : Env) (owner : Bytes) (keys : List Bytes) : Option (Store Bytes) :=
  if !fsidArgsOk owner keys then none
  else if !env.alpha then none
  else some (keys.foldl (fun s k => del s (fsidKeyOf owner k)) s)

/-- `Key(owner)`: `Find('o'‖owner, KeysOnly|RemovePrefix)` -/
def fsidKey (s : Store Bytes) (owner : Bytes) : Option (List Bytes) :=
  if owner.length ≠ ownerSize then none
  else some ((find s (ownerP :: owner)).map (fun kv => kv.1.drop (1 + owner.length)))

/-! ## configuration maps (Netmap and NeoFS contracts; same code) -/

def cfgP : Bytes := Generated.netmap_configPrefix            -- "config"
def cfgPF : Bytes := Generated.neofs_configPrefix            -- "config"

def cfgSet (p : Bytes) (s : Store Bytes) (env : Env) (key val : Bytes) : Option (Store Bytes) :=
  if !env.alpha then none else putK s (p ++ key) val

def cfgGet (p : Bytes) (s : Store Bytes) (key : Bytes) : Option Bytes := get s (p ++ key)

def cfgList (p : Bytes) (s : Store Bytes) : List (Bytes × Bytes) :=
  (find s p).map (fun kv => (kv.1.drop p.length, kv.2))

/-! ## the state machine -/

structure State where
  rep : Store Bytes
  aud : Store Bytes
  cnt : CState
  fsid : Store Bytes
  nmc : Store Bytes
  fsc : Store Bytes
  deriving Repr

def init : State := ⟨[], [], ⟨[], [], [], []⟩, [], [], []⟩

inductive Op where
  -- reputation
  | rput (e : Int) (peer value : Bytes)
  | rget (e : Int) (peer : Bytes)
  | rgetid (id : Bytes)
  | rlist (e : Int)
  -- audit
  | aput (ir : List Bytes) (raw h : Bytes)
  | aget (id : Bytes)
  | alist
  | alistE (e : Int)
  | alistC (e : Int) (cid : Bytes)
  | alistN (e : Int) (cid h : Bytes)
  -- container size estimations
  | cmk (cid : Bytes)                         -- a container is created (environment)
  | crm (cid : Bytes)                         -- a container is deleted (environment)
  | cput (snap : Option (List Bytes)) (e : Int) (cid : Bytes) (size : Int) (pub h : Bytes)
  | ctick (e : Int)                           -- container.newEpoch called directly
  | tick (cur e : Int)                        -- netmap.newEpoch(e) with the netmap at epoch `cur`
  | cget (id : Bytes)
  | clist (e : Int)
  | citer (e : Int) (cid : Bytes)
  | citerall (e : Int)
  -- neofsid
  | iadd (owner : Bytes) (keys : List Bytes)
  | irm (owner : Bytes) (keys : List Bytes)
  | ikey (owner : Bytes)
  -- configuration
  | nset (key val : Bytes)
  | nget (key : Bytes)
  | nlist
  | fset (id key val : Bytes)
  | fget (key : Bytes)
  | flist
  deriving Repr

inductive Ret where
  | null
  | optBytes (b : Option Bytes)
  | list (l : List Bytes)
  | kvs (l : List (Bytes × Bytes))
  | sizes (cid : Bytes) (l : List Est)
  | ests (l : List Est)
  | kests (l : List (Bytes × Est))
  deriving Repr, DecidableEq

inductive Event where
  | setConfig (id key val : Bytes)
  deriving Repr, DecidableEq

abbrev Halt := State × Ret × List Event

/-- neo-go 0.107: `storage.Get/Find/Delete` with a key or prefix longer than 64 bytes end in a VM exception
    (the storage layer's key buffer is 64 bytes) -/
def guardLen (k : Bytes) (r : Halt) : Option Halt := if k.length ≤ maxKeyLen then some r else none

/-- `none` = FAULT (the transaction is rolled back by `invoke`) -/
def step (s : State) (env : Env) : Op → Option Halt
  | .rput e peer value =>
    if !env.alpha then none else
    match repPut s.rep e peer value with
    | none => none
    | some r => some ({ s with rep := r }, .null, [])
  | .rget e peer => guardLen (repValueP :: storageID e peer) (s, .list (repGet s.rep e peer), [])
  | .rgetid id => guardLen (repValueP :: id) (s, .list (repGetByID s.rep id), [])
  | .rlist e => guardLen (repCountP :: encInt e) (s, .list (repListByEpoch s.rep e), [])
  | .aput ir raw h =>
    match audPut s.aud env ir raw h with
    | none => none
    | some a => some ({ s with aud := a }, .null, [])
  | .aget id => guardLen id (s, .optBytes (audGet s.aud id), [])
  | .alist => some (s, .list (audList s.aud), [])
  | .alistE e => guardLen (encInt e) (s, .list (audListByEpoch s.aud e), [])
  | .alistC e cid => guardLen (encInt e ++ cid) (s, .list (audListByCID s.aud e cid), [])
  | .alistN e cid h => guardLen (auditID e cid h) (s, .list (audListByNode s.aud e cid h), [])
  | .cmk cid =>
    -- environment: container.put by the Alphabet; a deleted container cannot be created again
    if !env.alpha || s.cnt.dead.contains cid then none
    else some ({ s with cnt := { s.cnt with live := cid :: s.cnt.live.filter (· != cid) } }, .null, [])
  | .crm cid =>
    -- environment: container.delete; a no-op for an unknown container, Alphabet-only otherwise
    if !s.cnt.live.contains cid then some (s, .null, [])
    else if !env.alpha then none
    else some ({ s with cnt := { s.cnt with live := s.cnt.live.filter (· != cid), dead := cid :: s.cnt.dead } }, .null, [])
  | .cput snap e cid size pub h =>
    match estPut s.cnt env snap e cid size pub h with
    | none => none
    | some c => some ({ s with cnt := c }, .null, [])
  | .ctick e =>
    if !env.alpha then none else
    match cleanup s.cnt.cnr e with
    | none => none
    | some c => some ({ s with cnt := { s.cnt with cnr := c } }, .null, [])
  | .tick cur e =>
    if !env.alpha then none
    else if e ≤ cur then none                   -- netmap: "invalid epoch"
    else match cleanup s.cnt.cnr e with
    | none => none
    | some c => some ({ s with cnt := { s.cnt with cnr := c } }, .null, [])
  | .cget id =>
    match estGet s.cnt id with
    | none => none
    | some (cid, l) => guardLen id (s, .sizes cid l, [])
  | .clist e => guardLen (cnrP ++ encInt e) (s, .list (estList s.cnt e), [])
  | .citer e cid =>
    match estIter s.cnt e cid with
    | none => none
    | some l => guardLen (cnrP ++ (encInt e ++ cid)) (s, .ests l, [])
  | .citerall e => guardLen (cnrP ++ encInt e) (s, .kests (estIterAll s.cnt e), [])
  | .iadd owner keys =>
    match fsidAdd s.fsid env owner keys with
    | none => none
    | some f => some ({ s with fsid := f }, .null, [])
  | .irm owner keys =>
    match fsidRemove s.fsid env owner keys with
    | none => none
    | some f => some ({ s with fsid := f }, .null, [])
  | .ikey owner =>
    match fsidKey s.fsid owner with
    | none => none
    | some l => some (s, .list l, [])
  | .nset key val =>
    match cfgSet cfgP s.nmc env key val with
    | none => none
    | some c => some ({ s with nmc := c }, .null, [])
  | .nget key => guardLen (cfgP ++ key) (s, .optBytes (cfgGet cfgP s.nmc key), [])
  | .nlist => some (s, .kvs (cfgList cfgP s.nmc), [])
  | .fset id key val =>
    match cfgSet cfgPF s.fsc env key val with
    | none => none
    | some c => some ({ s with fsc := c }, .null, [.setConfig id key val])
  | .fget key => guardLen (cfgPF ++ key) (s, .optBytes (cfgGet cfgPF s.fsc key), [])
  | .flist => some (s, .kvs (cfgList cfgPF s.fsc), [])

def invoke (s : State) (env : Env) (op : Op) : State × Option (Ret × List Event) :=
  match step s env op with
  | none => (s, none)
  | some (s', r, ev) => (s', some (r, ev))

/-- a history: every invocation with its environment -/
def run (s : State) : List (Env × Op) → State
  | [] => s
  | (env, op) :: rest => run (invoke s env op).1 rest

end NeoFS.EpochStores
