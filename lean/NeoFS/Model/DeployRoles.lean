import NeoFS.Generated.DeployFacts
/-! # The role stages of `deploy.Deploy` as seen by ONE (re)started run — property C13

`Deploy` reads the committee's Notary and NeoFSAlphabet roles once, when it starts (`checkCommitteeRoles`),
and skips `enableNotary` / `designateNeoFSAlphabet` when the corresponding flag is set; each of the two stages
loops until ITS role check succeeds and designates ITS role otherwise; `initVoteForAlphabet` later fails with
"no NeoFS Alphabet members are set" when the role it reads has no members. A run may be (re)started on a chain
in any of the four role states (fresh, Notary only, …), e.g. after it was cancelled between two stages.

The model abstracts a role to "designated to exactly the committee or not" and the other members away (nobody
else does the skipped stage: a single-member committee, or all members restarted). WHICH role constant each
pre-check, loop and designation names is a parameter (`Table`); the table of the code under test is extracted
from `deploy/deploy.go`, `deploy/notary.go`, `deploy/alphabet.go` into `Generated/DeployFacts.lean` (`current`). -/
namespace NeoFS.DeployRoles

/-- the committee's roles on the chain -/
structure Roles where
  notary : Bool
  alphabet : Bool
  deriving DecidableEq, Repr

structure Table where
  precheck : List String      -- roles queried by `checkCommitteeRoles`, in the order of its results
  guardNotary : Nat           -- position of the flag that lets `Deploy` skip `enableNotary`
  guardAlphabet : Nat         -- … `designateNeoFSAlphabet`
  loopNotary : String         -- role `enableNotary`'s loop checks before it returns
  loopAlphabet : String
  desNotary : String          -- role `enableNotary` designates
  desAlphabet : String
  voteNeeds : String          -- role whose members `initVoteForAlphabet` requires

def current : Table :=
  { precheck := Generated.DeployFacts.precheckRoles,
    guardNotary := Generated.DeployFacts.guardOfEnableNotary,
    guardAlphabet := Generated.DeployFacts.guardOfDesignateAlphabet,
    loopNotary := Generated.DeployFacts.loopRoleOfEnableNotary,
    loopAlphabet := Generated.DeployFacts.loopRoleOfDesignateAlphabet,
    desNotary := Generated.DeployFacts.roleDesignatedByEnableNotary,
    desAlphabet := Generated.DeployFacts.roleDesignatedByDesignateAlphabet,
    voteNeeds := Generated.DeployFacts.roleNeededByVote }

/-- `checkRole(noderoles.<r>, …)` -/
def read (r : String) (c : Roles) : Bool :=
  if r = "P2PNotary" then c.notary else if r = "NeoFSAlphabet" then c.alphabet else false

/-- an accepted `designateAsRole(noderoles.<r>, committee)` -/
def designate (r : String) (c : Roles) : Roles :=
  if r = "P2PNotary" then { c with notary := true }
  else if r = "NeoFSAlphabet" then { c with alphabet := true } else c

/-- one role stage: `for { if checkRole(loopRole) { return nil }; designate(desRole) }`;
`none` = the loop never returns (designating does not make its own check succeed) -/
def runStage (loopRole desRole : String) (c : Roles) : Option Roles :=
  if read loopRole c then some c
  else if read loopRole (designate desRole c) then some (designate desRole c) else none

/-- the role part of `Deploy` started on a chain in role state `c`; `none` = the run does not terminate
successfully (a stage loops for ever, or `initVoteForAlphabet` returns "no NeoFS Alphabet members are set") -/
def deployRoles (t : Table) (c : Roles) : Option Roles :=
  let flags := t.precheck.map (read · c)
  match (if flags.getD t.guardNotary false then some c else runStage t.loopNotary t.desNotary c) with
  | none => none
  | some c1 =>
    match (if flags.getD t.guardAlphabet false then some c1 else runStage t.loopAlphabet t.desAlphabet c1) with
    | none => none
    | some c2 => if read t.voteNeeds c2 then some c2 else none

/-- every pre-check, loop and designation of a stage names that stage's own role -/
def OwnRoles (t : Table) : Prop :=
  t.precheck.getD t.guardNotary "" = "P2PNotary" ∧ t.loopNotary = "P2PNotary" ∧ t.desNotary = "P2PNotary" ∧
  t.precheck.getD t.guardAlphabet "" = "NeoFSAlphabet" ∧ t.loopAlphabet = "NeoFSAlphabet" ∧
  t.desAlphabet = "NeoFSAlphabet" ∧ t.voteNeeds = "NeoFSAlphabet"

instance (t : Table) : Decidable (OwnRoles t) := by unfold OwnRoles; infer_instance

end NeoFS.DeployRoles
