import NeoFS.Base.Bytes
import NeoFS.Model.Balance
import NeoFS.Generated.Consts
/-! # Container contract (contracts/container/contract.go), hand-written model — properties C04, C05.

Modelled (branch by branch, FAULT paths and order of effects included):
`Put` / `PutNamed` / `PutMeta`, `checkNiceNameAvailable`, `Delete`, `deleteNNSRecords` (with its `recover`),
`SetEACL`, `Get`, `Owner`, `Alias`, `EACL`, `Count`, `List`, `ContainersOf`, `addContainer`, `removeContainer`,
`getOwnerByID`, `ownerFromBinaryContainer`, `common.WalletToScriptHash`, `common.ContainerFeeTransferDetails`,
the fee pre-check and the per-Alphabet-node `transferX` loop (through the Balance model), the Netmap
`config`/`setConfig` pair (a byte map), the part of the NNS contract the Container contract talks to
(`isAvailable/ownerOf/getRecords/register/addRecord/deleteRecords` for names without expiry), the
NeoFSID `addKey` argument guard and the manifest check of `runtime.Notify`.

Not modelled (other properties): placement rosters, size estimations, `submitObjectPut`, `newEpoch`,
`update`/`_deploy` migration.

State = typed family maps for the real key families (`x`+cid, `o`+owner+cid, `d`+cid, `m`+cid,
`eACL`+cid, `nnsHasAlias`+cid); the byte layout that justifies the typed view is `Key.enc` at the end of
this file and the lemmas of `NeoFS/Lemmas/ContainerLayout.lean`.

Hashes are never computed: the container id (SHA-256 of the blob) comes with the operation. -/
namespace NeoFS.Container
open NeoFS

/-! ### association lists with unique keys (first match wins; `put` removes older entries) -/
namespace AL
variable {κ : Type} {ν : Type} [DecidableEq κ]

def get : List (κ × ν) → κ → Option ν
  | [], _ => none
  | (k', v) :: r, k => if k' = k then some v else get r k

def del (m : List (κ × ν)) (k : κ) : List (κ × ν) := m.filter (fun kv => decide (kv.1 ≠ k))
def put (m : List (κ × ν)) (k : κ) (v : ν) : List (κ × ν) := (k, v) :: del m k
def keys (m : List (κ × ν)) : List κ := m.map (·.1)

end AL

/-- sets of ids (the `d` and `m` families: value is the empty byte string) -/
def sadd (s : List Bytes) (c : Bytes) : List Bytes := if c ∈ s then s else c :: s
def sdel (s : List Bytes) (c : Bytes) : List Bytes := s.filter (fun x => decide (x ≠ c))

/-! ### data -/

/-- `Container` / `ExtendedACL` struct: value, signature, public key, session token -/
structure Cnr where
  value : Bytes
  sig : Bytes
  pub : Bytes
  token : Bytes
  deriving Repr, DecidableEq

/-- NNS domain as far as the Container contract can see it: owner and the TXT records (the record data is
`Base58(cid)`; the model keeps the cid itself, the harness decodes) -/
structure Dom where
  owner : Bytes
  txt : List Bytes
  deriving Repr, DecidableEq

structure State where
  x : List (Bytes × Cnr)                  -- 'x' ‖ cid          ↦ serialized Container
  o : List ((Bytes × Bytes) × Bytes)      -- 'o' ‖ owner ‖ cid  ↦ cid
  d : List Bytes                          -- 'd' ‖ cid          ↦ ""      (tombstones)
  m : List Bytes                          -- 'm' ‖ cid          ↦ ""      (meta-on-chain flag)
  eacl : List (Bytes × Cnr)               -- "eACL" ‖ cid       ↦ serialized ExtendedACL
  alias : List (Bytes × Bytes)            -- "nnsHasAlias" ‖ cid ↦ domain
  roots : List Bytes                      -- NNS: registered TLDs
  doms : List (Bytes × Dom)               -- NNS: registered non-TLD domains
  cfg : List (Bytes × Bytes)              -- Netmap: "config" ‖ key ↦ value
  bal : Balance.State                     -- Balance contract
  deriving Repr

/-- per-invocation environment: deployment constants and the witnesses of the transaction -/
structure Env where
  self : Bytes            -- script hash of the Container contract
  alphaAddr : Bytes       -- 2n/3+1 multisignature account of the committee (`common.AlphabetAddress`)
  cmtAddr : Bytes         -- n/2+1 multisignature account of the committee (`common.CommitteeAddress`)
  alphabet : List Bytes   -- `contract.CreateStandardAccount(k)` for `k` in `neo.GetCommittee()`, in that order
  root : Bytes            -- value of `nnsRoot`
  wit : List Bytes        -- accounts whose witness (Global scope) the transaction carries
  deriving Repr

inductive Fault where
  | notFound     -- "container does not exist"
  | deleted      -- "container was previously deleted"
  | other
  deriving Repr, DecidableEq

inductive Ev where
  | putSuccess (cid pub : Bytes)
  | deleteSuccess (cid : Bytes)
  | setEACLSuccess (cid pub : Bytes)
  | bal (e : Balance.Event)
  deriving Repr, DecidableEq

inductive Ret where
  | null
  | cnr (c : Cnr)
  | bytes (b : Bytes)
  | optBytes (b : Option Bytes)
  | int (n : Int)
  | list (l : List Bytes)
  deriving Repr, DecidableEq

inductive Op where
  | setcfg (key val : Bytes)                                   -- netmap.setConfig
  | bal (op : Balance.Op)                                      -- a direct call of the Balance contract
  | prereg (domain owner : Bytes)                              -- nns.register by the committee (no records)
  | put (cid blob sg pub token name zone : Bytes) (mt : Option Bool)
      -- `mt = none`: put / putNamed;  `some b`: the 5-argument overload putMeta(…, b) (name = zone = "")
  | delete (cid sg token : Bytes)
  | setEACL (table sg pub token : Bytes)
  | get (cid : Bytes)
  | owner (cid : Bytes)
  | alias (cid : Bytes)
  | eacl (cid : Bytes)
  | count
  | list (owner : Bytes)
  | containersOf (owner : Bytes)
  deriving Repr

/-! ### byte-level glue -/

/-- `ownerFromBinaryContainer`: `offset = 2 + container[1] + 4`, 25 bytes from there; `none` = FAULT
(index or slice out of range) -/
def ownerOf (blob : Bytes) : Option Bytes :=
  match blob[1]? with
  | none => none
  | some v =>
    let off := 2 + v + 4
    if off + 25 ≤ blob.length then some ((blob.drop off).take 25) else none

/-- `common.WalletToScriptHash`: `wallet[1 : len(wallet)-4]` -/
def walletToScriptHash (w : Bytes) : Bytes := (w.drop 1).take (w.length - 4 - 1)

/-- container id inside an eACL table (`SetEACL`): `none` = FAULT (missing version / container id field) -/
def eaclCID (t : Bytes) : Option Bytes :=
  match t[1]? with
  | none => none                                             -- `lnEACL < 2`
  | some v =>
    let off := 2 + v + 4
    if off + Generated.container_containerIDSize.toNat ≤ t.length
    then some ((t.drop off).take Generated.container_containerIDSize.toNat) else none

/-- `common.ContainerFeeTransferDetails` -/
def feeDetails (cid : Bytes) : Bytes := Generated.common_containerFeePrefix ++ cid

/-- Netmap `config(key).(int)`: `none` = FAULT (absent value is Null, arithmetic on it FAULTs; byte strings
longer than 32 bytes do not convert to Integer) -/
def cfgInt (cfg : List (Bytes × Bytes)) (key : Bytes) : Option Int :=
  match AL.get cfg key with
  | none => none
  | some v => if v.length ≤ 32 then some (decInt v) else none

def feeKey : Bytes := Generated.container_containerconst_RegistrationFeeKey_bytes
def aliasFeeKey : Bytes := Generated.container_containerconst_AliasFeeKey_bytes

/-! ### the NNS contract as seen from here (contracts/nns/contract.go)

Scope: no domain expires during a history (registrations are made for ten years and the harness advances
time by milliseconds); records are only written by the Container contract, under the domain's own name,
so `tokenIDFromName(domain) = domain` whenever a record is read or written and
`getParentConflictingRecord` finds nothing. -/

def dot : Nat := 46

/-- Go `strings.Split(s, ".")` -/
def splitDot : Bytes → List Bytes
  | [] => [[]]
  | c :: r =>
    if c = dot then [] :: splitDot r
    else match splitDot r with
      | f :: fs => (c :: f) :: fs
      | [] => [[c]]

def isAlNum (c : Nat) : Bool := (97 ≤ c && c ≤ 122) || (48 ≤ c && c ≤ 57)

/-- nns `checkFragment` -/
def checkFragment (v : Bytes) (isRoot : Bool) : Bool :=
  let maxLen := if isRoot then 16 else 63
  if v.length = 0 || v.length > maxLen then false else
  let c := v.headD 0
  let firstOK := if isRoot then (97 ≤ c && c ≤ 122) else isAlNum c
  let midOK := ((v.drop 1).dropLast).all (fun b => b = 45 || isAlNum b)
  firstOK && midOK && isAlNum (v.getLastD 0)

def checkFragments : List Bytes → Bool
  | [] => true
  | [r] => checkFragment r true
  | f :: rest => checkFragment f false && checkFragments rest

/-- nns `safeSplitAndCheck`: the fragments of a valid name, `none` = "invalid domain …" -/
def nnsSplit (name : Bytes) : Option (List Bytes) :=
  if name.length < 3 || 255 < name.length then none
  else
    let fr := splitDot name
    if checkFragments fr then some fr else none

def joinDot : List Bytes → Bytes
  | [] => []
  | [f] => f
  | f :: rest => f ++ dot :: joinDot rest

/-- `name[sum:]` for every fragment boundary: the name itself, its parent, …, the TLD -/
def sufDomains : List Bytes → List Bytes
  | [] => []
  | f :: rest => joinDot (f :: rest) :: sufDomains rest

def registered (roots : List Bytes) (doms : List (Bytes × Dom)) (frags : List Bytes) : Bool :=
  match frags with
  | [r] => decide (r ∈ roots)
  | _ => (AL.get doms (joinDot frags)).isSome

/-- all of `frags[i:]` for `i ≥ first` are registered, i.e. `!parentExpired(ctx, first, fragments)` -/
def chainRegistered (roots : List Bytes) (doms : List (Bytes × Dom)) : Nat → List Bytes → Bool
  | _, [] => true
  | 0, f :: rest => registered roots doms (f :: rest) && chainRegistered roots doms 0 rest
  | n + 1, _ :: rest => chainRegistered roots doms n rest

/-- `runtime.CheckWitness(h)` inside a contract called by the Container contract: the calling script hash
counts as a witness -/
def nestedWitness (env : Env) (h : Bytes) : Bool := decide (h = env.self) || decide (h ∈ env.wit)

/-- `NameState.checkAdmin` (no admin is ever set here; committee-owned = TLD only) -/
def adminOK (env : Env) (owner : Bytes) : Bool :=
  if owner.length = 0 then decide (env.cmtAddr ∈ env.wit) else nestedWitness env owner

/-- nns `isAvailable` -/
def nnsIsAvailable (s : State) (domain : Bytes) : Except Fault Bool :=
  match nnsSplit domain with
  | none => .error .other
  | some fr =>
    if fr.getLastD [] ∉ s.roots then
      (if fr.length ≠ 1 then .error .other else .ok true)        -- "TLD not found"
    else if chainRegistered s.roots s.doms 0 fr then .ok false
    else .ok true                                                -- no conflicting records (scope)

/-- nns `ownerOf` -/
def nnsOwnerOf (s : State) (domain : Bytes) : Except Fault Bytes :=
  let fr := splitDot domain
  if fr.length = 1 then .error .other else
  match AL.get s.doms domain with
  | none => .error .other                                        -- "token not found"
  | some dm => if chainRegistered s.roots s.doms 1 fr then .ok dm.owner else .error .other

/-- nns `getRecords(domain, TXT)` -/
def nnsGetTXT (s : State) (domain : Bytes) : Except Fault (List Bytes) :=
  let fr := splitDot domain
  if fr.length = 1 then .error .other else
  match nnsSplit domain with
  | none => .error .other
  | some _ =>
    match AL.get s.doms domain with
    | none => .error .other
    | some dm => if chainRegistered s.roots s.doms 1 fr then .ok dm.txt else .error .other

/-- `checkNiceNameAvailable`: `ok needRegister` -/
def checkNiceName (env : Env) (s : State) (domain : Bytes) : Except Fault Bool :=
  match nnsIsAvailable s domain with
  | .error e => .error e
  | .ok true => .ok true
  | .ok false =>
    match nnsOwnerOf s domain with
    | .error e => .error e
    | .ok owner =>
      if owner ≠ env.cmtAddr ∧ owner ≠ env.self then .error .other   -- "committee or container contract must own …"
      else match nnsGetTXT s domain with
        | .error e => .error e
        | .ok recs => if recs.length > 0 then .error .other          -- "name is already taken"
                      else .ok false

/-- `ns.checkAdmin()` of the parent domain in nns `register` (third level and deeper) -/
def parentAdminOK (env : Env) (doms : List (Bytes × Dom)) (fr : List Bytes) : Bool :=
  match AL.get doms (joinDot (fr.drop 1)) with
  | some p => adminOK env p.owner
  | none => false

/-- nns `register(domain, <container contract>, …)` followed by the caller's `if !res { panic }` -/
def nnsRegister (env : Env) (roots : List Bytes) (doms : List (Bytes × Dom)) (domain : Bytes) :
    Except Fault (List (Bytes × Dom)) :=
  match nnsSplit domain with
  | none => .error .other
  | some fr =>
    if fr.length = 1 then .error .other                                    -- "TLD denied"
    else if fr.getLastD [] ∉ roots then .error .other                      -- "TLD not found"
    else if !chainRegistered roots doms 1 fr then .error .other            -- parent not registered
    else if fr.length > 2 && !parentAdminOK env doms fr then .error .other -- parent's checkAdmin
    else if env.self.length ≠ 20 then .error .other                        -- "invalid owner"
    else match AL.get doms domain with
      | some _ => .error .other                                            -- returns false ⇒ "can't register the domain"
      | none => .ok (AL.put doms domain ⟨env.self, []⟩)

/-- nns `addRecord(domain, TXT, Base58(cid))` -/
def nnsAddTXT (env : Env) (doms : List (Bytes × Dom)) (domain cid : Bytes) : Except Fault (List (Bytes × Dom)) :=
  match AL.get doms domain with
  | none => .error .other                                                  -- "token not found"
  | some dm =>
    if !adminOK env dm.owner then .error .other                            -- "not witnessed by admin"
    else if cid ∈ dm.txt then .error .other                                -- "record already exists"
    else if dm.txt.length > 15 then .error .other                          -- "maximum number of records reached"
    else .ok (AL.put doms domain { dm with txt := dm.txt ++ [cid] })

/-- `deleteNNSRecords`: nns `deleteRecords(domain, TXT)` under `defer/recover`: a panic whose message
contains "not found" or "has expired" is swallowed, every other one is re-thrown -/
def nnsDeleteTXT (env : Env) (doms : List (Bytes × Dom)) (domain : Bytes) : Except Fault (List (Bytes × Dom)) :=
  match AL.get doms domain with
  | none => .ok doms                                                       -- "token not found": recovered
  | some dm =>
    if !adminOK env dm.owner then .error .other                            -- "not witnessed by admin": re-thrown
    else .ok (AL.put doms domain { dm with txt := [] })

/-! ### fee payment: the `for _, node := range alphabet { transferX(from, to, fee, details) }` loop -/

def balEnv (env : Env) : Balance.Env := ⟨env.wit, env.self, decide (env.alphaAddr ∈ env.wit)⟩

/-- one `balance.transferX(from, to, fee, details)` called by the Container contract; `none` = FAULT -/
def payOne (env : Env) (frm : Bytes) (fee : Int) (det : Bytes) (cur : Balance.State × List Balance.Event)
    (to : Bytes) : Option (Balance.State × List Balance.Event) :=
  match Balance.step cur.1 (balEnv env) (.transferX frm to fee det) with
  | none => none
  | some (b', _, ev) => some (b', cur.2 ++ ev)

def payFees (env : Env) (frm : Bytes) (fee : Int) (det : Bytes) :
    List Bytes → Balance.State × List Balance.Event → Option (Balance.State × List Balance.Event)
  | [], cur => some cur
  | to :: rest, cur =>
    match payOne env frm fee det cur to with
    | none => none
    | some cur' => payFees env frm fee det rest cur'

/-! ### the contract's methods -/

def alphaWitness (env : Env) : Bool := decide (env.alphaAddr ∈ env.wit)

/-- `PutNamed` after the nice-name check up to and including the witness check: the fee to pay per node -/
def putFee (s : State) (named : Bool) : Option Int :=
  match cfgInt s.cfg feeKey with
  | none => none
  | some f =>
    if named then (match cfgInt s.cfg aliasFeeKey with | none => none | some a => some (f + a))
    else some f

/-- the NNS part of `PutNamed` after `addContainer`: register if needed, add the TXT record, drop the
record of the previous alias, remember the alias -/
def putAlias (env : Env) (s : State) (cid domain : Bytes) (needReg : Bool) : Except Fault State :=
  match (if needReg then nnsRegister env s.roots s.doms domain else .ok s.doms) with
  | .error e => .error e
  | .ok d1 =>
    match nnsAddTXT env d1 domain cid with
    | .error e => .error e
    | .ok d2 =>
      match AL.get s.alias cid with
      | none => .ok { s with doms := d2, alias := AL.put s.alias cid domain }
      | some old =>
        if old ≠ domain then
          match nnsDeleteTXT env d2 old with
          | .error e => .error e
          | .ok d3 => .ok { s with doms := d3, alias := AL.put s.alias cid domain }
        else .ok { s with doms := d2, alias := AL.put s.alias cid domain }

def putStep (env : Env) (s : State) (cid blob sg pub token name zone : Bytes) (mt : Option Bool) :
    Except Fault (State × List Ev) :=
  -- PutMeta: the flag is written before anything is checked (a later FAULT rolls it back)
  let s0 := if mt = some true then { s with m := sadd s.m cid } else s
  match ownerOf blob with
  | none => .error .other
  | some owner =>
    if cid ∈ s0.d then .error .deleted else
    let named := decide (name ≠ [])
    let domain := name ++ dot :: (if zone = [] then env.root else zone)
    match (if named then checkNiceName env s0 domain else .ok false) with
    | .error e => .error e
    | .ok needReg =>
      let frm := walletToScriptHash owner
      match putFee s0 named with
      | none => .error .other
      | some fee =>
        let n : Int := env.alphabet.length
        if (Balance.getAcc s0.bal.accts frm).bal < fee * n then .error .other   -- "insufficient balance …"
        else if !alphaWitness env then .error .other
        else match payFees env frm fee (feeDetails cid) env.alphabet (s0.bal, []) with
          | none => .error .other
          | some (b', bev) =>
            -- addContainer
            let s1 := { s0 with bal := b', o := AL.put s0.o (owner, cid) cid, x := AL.put s0.x cid ⟨blob, sg, pub, token⟩ }
            match (if named then putAlias env s1 cid domain needReg else .ok s1) with
            | .error e => .error e
            | .ok s2 =>
              -- neofsid.addKey(owner, [pub]) when there is no session token: 33-byte key or panic
              if token.length = 0 && pub.length ≠ 33 then .error .other
              -- runtime.Notify("PutSuccess", cid: Hash256, pub: PublicKey): manifest check
              else if cid.length ≠ 32 || pub.length ≠ 33 then .error .other
              else .ok (s2, bev.map Ev.bal ++ [.putSuccess cid pub])

def deleteStep (env : Env) (s : State) (cid : Bytes) : Except Fault (State × List Ev) :=
  match AL.get s.x cid with
  | none => .ok (s, [])                                     -- `ownerID == nil`: silent return
  | some c =>
    match ownerOf c.value with
    | none => .error .other
    | some owner =>
      if !alphaWitness env then .error .other else
      let afterAlias : Except Fault State :=
        match AL.get s.alias cid with
        | none => .ok s
        | some domain =>
          if domain.length ≠ 0 then
            match nnsDeleteTXT env s.doms domain with
            | .error e => .error e
            | .ok d' => .ok { s with alias := AL.del s.alias cid, doms := d' }
          else .ok s
      match afterAlias with
      | .error e => .error e
      | .ok s1 =>
        -- removeContainer
        .ok ({ s1 with o := AL.del s1.o (owner, cid), x := AL.del s1.x cid, m := sdel s1.m cid,
                       eacl := AL.del s1.eacl cid, d := sadd s1.d cid },
             [.deleteSuccess cid])

def setEACLStep (env : Env) (s : State) (table sg pub token : Bytes) : Except Fault (State × List Ev) :=
  match eaclCID table with
  | none => .error .other
  | some cid =>
    match AL.get s.x cid with
    | none => .error .notFound
    | some c =>
      match ownerOf c.value with
      | none => .error .other
      | some _ =>
        if !alphaWitness env then .error .other
        else if pub.length ≠ 33 then .error .other          -- Notify("SetEACLSuccess", …, pub: PublicKey)
        else .ok ({ s with eacl := AL.put s.eacl cid ⟨table, sg, pub, token⟩ }, [.setEACLSuccess cid pub])

/-- `getOwnerByID` as used by the getters: `none` = the container does not exist -/
def ownerByID (s : State) (cid : Bytes) : Option Bytes :=
  match AL.get s.x cid with
  | none => none
  | some c => ownerOf c.value

/-- entries of family `o` whose key `owner ‖ cid` starts with `arg` (`storage.Find('o' ‖ arg)`) -/
def findO (s : State) (arg : Bytes) : List Bytes :=
  (s.o.filter (fun kv => arg.isPrefixOf (kv.1.1 ++ kv.1.2))).map (·.2)

def emptyCnr : Cnr := ⟨[], [], [], []⟩

def readStep (s : State) : Op → Except Fault Ret
  | .get cid =>
    match AL.get s.x cid with
    | none => .error .notFound
    | some c => if c.value.length = 0 then .error .notFound else .ok (.cnr c)
  | .owner cid =>
    match ownerByID s cid with
    | none => .error .notFound
    | some o => .ok (.bytes o)
  | .alias cid =>
    match ownerByID s cid with
    | none => .error .notFound
    | some _ => .ok (.optBytes (AL.get s.alias cid))
  | .eacl cid =>
    match ownerByID s cid with
    | none => .error .notFound
    | some _ => .ok (.cnr ((AL.get s.eacl cid).getD emptyCnr))
  | .count => .ok (.int (AL.keys s.x).length)
  | .list owner =>
    if owner.length = 0 then .ok (.list (AL.keys s.x))       -- getAllContainers: keys of family `x`
    else .ok (.list (findO s owner))
  | .containersOf owner => .ok (.list (findO s owner))
  | _ => .ok .null

/-- committee-side registration of a second-level domain without records (harness utility, not part of the
contract under verification) -/
def preregStep (s : State) (domain owner : Bytes) : Except Fault State :=
  match nnsSplit domain with
  | none => .error .other
  | some fr =>
    if fr.length ≠ 2 then .error .other
    else if fr.getLastD [] ∉ s.roots then .error .other
    else if owner.length ≠ 20 then .error .other
    else match AL.get s.doms domain with
      | some _ => .error .other
      | none => .ok { s with doms := AL.put s.doms domain ⟨owner, []⟩ }

abbrev Halt := State × Ret × List Ev

def step (env : Env) (s : State) : Op → Except Fault Halt
  | .setcfg key val =>
    if !alphaWitness env then .error .other
    else .ok ({ s with cfg := AL.put s.cfg key val }, .null, [])
  | .bal op =>
    match Balance.step s.bal ⟨env.wit, [], alphaWitness env⟩ op with
    | none => .error .other
    | some (b', _, ev) => .ok ({ s with bal := b' }, .null, ev.map Ev.bal)
  | .prereg domain owner =>
    match preregStep s domain owner with
    | .error e => .error e
    | .ok s' => .ok (s', .null, [])
  | .put cid blob sg pub token name zone mt =>
    match putStep env s cid blob sg pub token name zone mt with
    | .error e => .error e
    | .ok (s', ev) => .ok (s', .null, ev)
  | .delete cid _ _ =>
    match deleteStep env s cid with
    | .error e => .error e
    | .ok (s', ev) => .ok (s', .null, ev)
  | .setEACL table sg pub token =>
    match setEACLStep env s table sg pub token with
    | .error e => .error e
    | .ok (s', ev) => .ok (s', .null, ev)
  | op =>
    match readStep s op with
    | .error e => .error e
    | .ok r => .ok (s, r, [])

/-- transaction atomicity: a FAULT leaves the state untouched and publishes no notification -/
def invoke (env : Env) (s : State) (op : Op) : State × Except Fault (Ret × List Ev) :=
  match step env s op with
  | .error e => (s, .error e)
  | .ok (s', r, ev) => (s', .ok (r, ev))

def init (roots : List Bytes) : State :=
  { x := [], o := [], d := [], m := [], eacl := [], alias := [], roots := roots, doms := [], cfg := [],
    bal := Balance.init }

/-- a history: every invocation with its environment -/
def run (s : State) : List (Env × Op) → State
  | [] => s
  | (env, op) :: rest => run (invoke env s op).1 rest

/-! ### byte layout of the storage keys (what the typed families stand for) -/

inductive Key where
  | x (cid : Bytes)
  | o (owner cid : Bytes)
  | d (cid : Bytes)
  | m (cid : Bytes)
  | eacl (cid : Bytes)
  | alias (cid : Bytes)
  | neofsID | balanceC | netmapC | nnsC | nnsRoot            -- the five deployment values
  | nodes (rest : Bytes)                                     -- 'n' ‖ cid ‖ vector ‖ counter   (C14)
  | replicas (rest : Bytes)                                  -- 'r' ‖ cid ‖ index              (C14)
  | nextNodes (rest : Bytes)                                 -- 'u' ‖ cid ‖ vector ‖ counter   (C14)
  | est (rest : Bytes)                                       -- "est" ‖ cid ‖ ripemd160(key)   (C20)
  | cnr (rest : Bytes)                                       -- "cnr" ‖ epoch ‖ cid ‖ postfix  (C20)
  deriving Repr, DecidableEq

def byteOf (z : Int) : Nat := z.toNat

def Key.enc : Key → Bytes
  | .x cid => (Generated.container_containerKeyPrefix_bytes.headD 0) :: cid
  | .o owner cid => (Generated.container_ownerKeyPrefix_bytes.headD 0) :: (owner ++ cid)
  | .d cid => (Generated.container_deletedKeyPrefix_bytes.headD 0) :: cid
  | .m cid => (Generated.container_containersWithMetaPrefix_bytes.headD 0) :: cid
  | .eacl cid => Generated.container_eACLPrefix ++ cid
  | .alias cid => Generated.container_nnsHasAliasKey_bytes ++ cid
  | .neofsID => Generated.container_neofsIDContractKey_bytes
  | .balanceC => Generated.container_balanceContractKey_bytes
  | .netmapC => Generated.container_netmapContractKey_bytes
  | .nnsC => Generated.container_nnsContractKey_bytes
  | .nnsRoot => Generated.container_nnsRootKey_bytes
  | .nodes rest => (Generated.container_nodesPrefix_bytes.headD 0) :: rest
  | .replicas rest => (Generated.container_replicasNumberPrefix_bytes.headD 0) :: rest
  | .nextNodes rest => (Generated.container_nextEpochNodesPrefix_bytes.headD 0) :: rest
  | .est rest => Generated.container_singleEstimatePrefix_bytes ++ rest
  | .cnr rest => Generated.container_estimateKeyPrefix_bytes ++ rest

/-- well-formed keys: 32-byte ids, 25-byte owners, and the shapes of the foreign families -/
def Key.WF : Key → Prop
  | .x cid | .d cid | .m cid | .eacl cid | .alias cid => cid.length = 32
  | .o owner cid => owner.length = 25 ∧ cid.length = 32
  | .nodes rest | .nextNodes rest => rest.length = 35
  | .replicas rest => rest.length = 33
  | .est rest => rest.length = 52
  | .cnr rest => 42 ≤ rest.length
  | _ => True

end NeoFS.Container
