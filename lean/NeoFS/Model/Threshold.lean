/-
Threshold expressions: the integer expressions the sources use to compute the number of signatures of a
multi-signature account from the number of keys (`common.Multiaddress`, `nns.checkCommittee`).  The extractor
(`extract/access.go`) regenerates them as `TExpr` values from the Go AST; the property theorems do not compare their
text with a literal but decide, with a kernel-checked procedure that is sound for EVERY committee size, that they
compute `2n/3+1` resp. `n/2+1`.  An arithmetically equivalent rewrite of the source expression keeps the theorems
true, a different threshold breaks them.
-/
namespace NeoFS

inductive TExpr where
  | var                      -- the number of keys
  | lit (k : Nat)
  | add (a b : TExpr)
  | sub (a b : TExpr)
  | mul (a b : TExpr)
  | div (a b : TExpr)
  deriving Repr, DecidableEq, Inhabited

namespace TExpr

/-- Go / NeoVM semantics: integer division truncates toward zero and faults on a zero divisor. -/
def evalGo : TExpr → Int → Option Int
  | var, n => some n
  | lit k, _ => some (k : Int)
  | add a b, n => match evalGo a n, evalGo b n with
      | some x, some y => some (x + y)
      | _, _ => none
  | sub a b, n => match evalGo a n, evalGo b n with
      | some x, some y => some (x - y)
      | _, _ => none
  | mul a b, n => match evalGo a n, evalGo b n with
      | some x, some y => some (x * y)
      | _, _ => none
  | div a b, n => match evalGo a n, evalGo b n with
      | some x, some y => if y = 0 then none else some (Int.tdiv x y)
      | _, _ => none

/-- floor-division semantics, total; coincides with `evalGo` on the expressions accepted by `safe` -/
def eval : TExpr → Int → Int
  | var, n => n
  | lit k, _ => (k : Int)
  | add a b, n => eval a n + eval b n
  | sub a b, n => eval a n - eval b n
  | mul a b, n => eval a n * eval b n
  | div a b, n => eval a n / eval b n

/-- the literal an expression is, if it is one -/
def asLit : TExpr → Option Nat
  | lit k => some k
  | _ => none

/-- `(P, Δ)` with `eval e (n + P) = eval e n + Δ` for all `n`: every expression built from the variable, literals,
`+`, `-`, multiplication by a literal and division by a positive literal is linear up to a periodic part. -/
def shape : TExpr → Option (Nat × Int)
  | var => some (1, 1)
  | lit _ => some (1, 0)
  | add a b => match shape a, shape b with
      | some (pa, da), some (pb, db) => some (pa * pb, da * pb + db * pa)
      | _, _ => none
  | sub a b => match shape a, shape b with
      | some (pa, da), some (pb, db) => some (pa * pb, da * pb - db * pa)
      | _, _ => none
  | mul a b => match asLit a, asLit b with
      | some k, _ => (shape b).map fun (pb, db) => (pb, (k : Int) * db)
      | none, some k => (shape a).map fun (pa, da) => (pa, da * (k : Int))
      | none, none => none
  | div a b => match asLit b with
      | some d => if d = 0 then none else (shape a).map fun (pa, da) => (pa * d, da)
      | none => none

/-- all values on the first period (arguments 1..P) -/
def firstPeriod (f : Int → Int) (P : Nat) : List Int := (List.range P).map fun (i : Nat) => f ((i : Int) + 1)

/-- every dividend is non-negative for every argument ≥ 1 and every divisor is a positive literal, so that Go's truncating
division is floor division -/
def safe : TExpr → Bool
  | var => true
  | lit _ => true
  | add a b => safe a && safe b
  | sub a b => safe a && safe b
  | mul a b => safe a && safe b
  | div a b => safe a && (match asLit b, shape a with
      | some d, some (pa, da) => decide (0 < d) && decide (0 ≤ da) && (firstPeriod (eval a) pa).all (fun v => decide (0 ≤ v))
      | _, _ => false)

/-- decision procedure: the two expressions have the same value for every argument ≥ 1 -/
def agree (e s : TExpr) : Bool :=
  match shape e, shape s with
  | some (pe, de), some (ps, ds) =>
      decide (de * ps = ds * pe) &&
        (List.range (pe * ps)).all (fun (i : Nat) => decide (eval e ((i : Int) + 1) = eval s ((i : Int) + 1)))
  | _, _ => false

/-- the source expression `e` computes, under Go semantics and for every number of keys ≥ 1, what `s` denotes -/
def computes (e s : TExpr) : Bool := safe e && agree e s

/-- `n*2/3+1` -/
def specAlphabet : TExpr := add (div (mul var (lit 2)) (lit 3)) (lit 1)
/-- `n/2+1` -/
def specMajority : TExpr := add (div var (lit 2)) (lit 1)

end TExpr
end NeoFS
