import NeoFS.Base.Bytes
import NeoFS.Generated.Consts
/-! # NNS contract (contracts/nns/contract.go, namestate.go), hand-written model (C10, C11, C12).

Storage is modelled as typed family maps (DESIGN.md section 4): the contract keys every family by
`hash160(name)`; the model keys by the name itself (hash injectivity is an assumption of the trusted
base, the harness maps every stored hash back to its pre-image and compares).

* `names`  : prefixName ‖ h(name)                       ↦ NameState{owner,name,expiration,admin}
* `roots`  : prefixRoot ‖ tld                           ↦ 0
* `supply` : prefixTotalSupply
* `bal`    : prefixBalance ‖ owner                      ↦ int (absent = 0)
* `toks`   : prefixAccountToken ‖ owner ‖ h(tokenId)    ↦ tokenId
* `recs`   : prefixRecord ‖ h(tokenId) ‖ h(name) ‖ typ ‖ id ↦ RecordState{name,type,data,id}
* `price`  : prefixRegisterPrice

Not modelled (outside C10–C12): `update`/`_deploy` migration, GAS accounting (only the `BurnGas`
argument check), the string scanners `checkFragment`/`checkIPv4`/`checkIPv6` (C18): their verdicts are
inputs (`Env.nameOK`, `Env.ipOK`), every theorem holds for every such oracle.
`step` returns `none` for a FAULT; `invoke` restores the old state (transaction atomicity). -/
namespace NeoFS.NNS
open NeoFS

abbrev Name := Bytes
abbrev Hash := Bytes

/-! ### association lists with unique keys -/

abbrev Map (κ ν : Type) := List (κ × ν)

def mget {κ ν : Type} [DecidableEq κ] : Map κ ν → κ → Option ν
  | [], _ => none
  | (k', v) :: r, k => if k' = k then some v else mget r k

def mdel {κ ν : Type} [DecidableEq κ] : Map κ ν → κ → Map κ ν
  | [], _ => []
  | (k', v) :: r, k => if k' = k then mdel r k else (k', v) :: mdel r k

def mput {κ ν : Type} [DecidableEq κ] (m : Map κ ν) (k : κ) (v : ν) : Map κ ν := (k, v) :: mdel m k

/-! ### strings -/

def dot : Nat := 46
def space : Nat := 32

/-- `std.StringSplit(s, sep)` = Go `strings.Split` for a one-byte separator (never returns `[]`) -/
def split (sep : Nat) : Bytes → List Bytes
  | [] => [[]]
  | c :: r =>
    if c = sep then [] :: split sep r
    else match split sep r with
      | [] => [[c]]
      | f :: fs => (c :: f) :: fs

/-- inverse of `split dot`: fragments joined with dots -/
def joinDots : List Bytes → Bytes
  | [] => []
  | [f] => f
  | f :: g :: fs => f ++ dot :: joinDots (g :: fs)

/-- the non-empty suffixes of a fragment list, longest first -/
def suffixes : List Bytes → List (List Bytes)
  | [] => []
  | f :: fs => (f :: fs) :: suffixes fs

/-- `std.StringSplitNonEmpty(s, " ")` -/
def splitNonEmpty (sep : Nat) (s : Bytes) : List Bytes := (split sep s).filter (fun f => !f.isEmpty)

/-- decimal digits, most significant first (fuel = maximal number of digits) -/
def decDigits : Nat → Nat → Bytes
  | 0, _ => []
  | f + 1, n => if n < 10 then [48 + n] else decDigits f (n / 10) ++ [48 + n % 10]

/-- `std.Itoa(z, 10)` -/
def itoa (z : Int) : Bytes := if z < 0 then 45 :: decDigits 80 (-z).toNat else decDigits 80 z.toNat

/-- a name with at least two fragments (`len(std.StringSplit(name, ".")) != 1`) -/
def isTLD (n : Name) : Bool := (split dot n).length == 1

/-! ### state -/

structure NameState where
  owner : Hash          -- `[]` = nil: owned by the committee (TLDs)
  name : Name
  exp : Int             -- expiration, milliseconds
  admin : Hash          -- `[]` = nil
  deriving Repr, DecidableEq

structure Rec where
  name : Name
  typ : Int
  data : Bytes
  id : Int
  deriving Repr, DecidableEq

/-- record key: token id, record name, type byte, id byte -/
abbrev RKey := Name × Name × Nat × Nat

structure State where
  names : Map Name NameState
  roots : List Name
  supply : Int
  bal : Map Hash Int
  toks : Map (Hash × Name) Name
  recs : Map RKey Rec
  price : Int
  deriving Repr

/-- `_deploy(nil, false)`: supply 0, default price -/
def init : State := ⟨[], [], 0, [], [], [], Generated.nns_defaultRegisterPrice⟩

structure Env where
  witnesses : List Hash      -- signers of the transaction (Global scope)
  caller : Hash              -- calling script hash (a contract that forwards the call), `[]` = entry script
  cmtK : Nat                 -- a k-of-l multisignature account of the committee keys is among the signers
                             -- (`cmtK = 0`: none)
  cmtL : Nat                 -- l = `len(neo.GetCommittee())`
  now : Int                  -- `runtime.GetTime()`, block timestamp in ms
  nameOK : Name → Bool       -- verdict of `safeSplitAndCheck` (scanner modelled in C18)
  ipOK : Bool                -- verdict of `checkIPv4`/`checkIPv6` on this call's data (C18)
  recv : Nat                 -- `management.GetContract(to/owner)`: 0 no contract, 1 contract with
                             -- `onNEP11Payment`, 2 contract without it (the call FAULTs)

inductive Event where
  | transfer (frm to : Hash) (amt : Int) (token : Name)
  | setAdmin (name : Name) (old new : Hash)
  | renew (name : Name) (old new : Int)
  deriving Repr, DecidableEq

inductive Ret where
  | null
  | bool (b : Bool)
  | int (z : Int)
  deriving Repr, DecidableEq

abbrev Halt := State × Ret × List Event

/-! ### shared helpers of the contract -/

/-- the threshold of `checkCommittee`: `l-(l-1)/2` -/
def committeeThreshold (l : Nat) : Nat := l - (l - 1) / 2

/-- `checkCommittee` passes: `runtime.CheckWitness(contract.CreateMultisigAccount(l-(l-1)/2, committee))`. The
script hash of a multisignature account depends on its threshold, so the k-of-l account of the committee keys
carries this witness exactly when k is the threshold (a larger k is a different account). -/
def committeeWitness (k l : Nat) : Bool := decide (1 ≤ l) && k == committeeThreshold l

/-- the committee witness of the invocation -/
def Env.committee (env : Env) : Bool := committeeWitness env.cmtK env.cmtL

/-- `runtime.CheckWitness(h)` for a 20-byte `h` -/
def witness (env : Env) (h : Hash) : Bool :=
  h.length == 20 && (env.witnesses.contains h || env.caller == h)

/-- `NameState.checkAdmin` (`true` = passes) -/
def checkAdmin (env : Env) (ns : NameState) : Bool :=
  if ns.owner.length = 0 then env.committee
  else witness env ns.owner || (ns.admin.length != 0 && witness env ns.admin)

/-- the name has a record and `now < expiration` -/
def live (s : State) (now : Int) (n : Name) : Bool :=
  match mget s.names n with
  | none => false
  | some ns => decide (now < ns.exp)

/-- the names `parentExpired(ctx, first, fragments)` looks at -/
def chain (first : Nat) (frags : List Bytes) : List Name := ((suffixes frags).drop first).map joinDots

/-- `parentExpired` -/
def parentExpired (s : State) (now : Int) (first : Nat) (frags : List Bytes) : Bool :=
  (chain first frags).any (fun n => !live s now n)

/-- `getNameStateWithKey`: record present and not expired (`ensureNotExpired`) -/
def nameStateWithKey (s : State) (now : Int) (tokenID : Name) : Option NameState :=
  match mget s.names tokenID with
  | none => none
  | some ns => if now ≥ ns.exp then none else some ns

/-- `getFragmentedNameState(ctx, tokenID, fragments)` -/
def fragNameState (s : State) (now : Int) (tokenID : Name) (frags : List Bytes) : Option NameState :=
  match nameStateWithKey s now tokenID with
  | none => none
  | some ns => if parentExpired s now 1 frags then none else some ns

/-- the loop of `tokenIDFromName`: the longest suffix with at least two fragments that is registered
and unexpired, else the name itself -/
def tokenOf (s : State) (now : Int) (name : Name) : Name :=
  match ((suffixes (split dot name)).dropLast.map joinDots).find? (live s now) with
  | some t => t
  | none => name

/-- `tokenIDFromName` (`splitAndCheck` panics on a malformed name) -/
def tokenIDFromName (s : State) (env : Env) (name : Name) : Option Name :=
  if env.nameOK name then some (tokenOf s env.now name) else none

/-- `append(key, byte(x))`: NeoVM `SETITEM` on a buffer accepts −128..255 and stores the low byte -/
def byteOf (z : Int) : Option Nat :=
  if -128 ≤ z ∧ z ≤ 255 then some (z % 256).toNat else none

/-- the records kept under `(token, name)`, keyed by (type byte, id byte): the items `storage.Find` sees
under the prefix `getRecordsKey(tokenId, name)` -/
def recsUnder (s : State) (token name : Name) : Map (Nat × Nat) Rec :=
  s.recs.filterMap (fun kv => if kv.1.1 = token ∧ kv.1.2.1 = name then some (kv.1.2.2, kv.2) else none)

/-- records of one type in key order (= id order): `storage.Find` on `getRecordsKeyByType` -/
def recsByType (s : State) (token name : Name) (tb : Nat) : List Rec :=
  let sub := recsUnder s token name
  (List.range 256).filterMap (fun i => mget sub (tb, i))

/-- all records stored under `(token, name)`, in key order (type byte, then id byte): `storage.Find` on
`getRecordsKey`. Type bytes without entries contribute nothing and are skipped. -/
def recsOfName (s : State) (token name : Name) : List Rec :=
  let sub := recsUnder s token name
  ((List.range 256).filter (fun tb => sub.any (fun kv => kv.1.1 == tb))).flatMap
    (fun tb => (List.range 256).filterMap (fun i => mget sub (tb, i)))

/-- `r.Name` ends with `"." + name`: the test of `getParentConflictingRecord`
(`MemorySearchLastIndex` finds `name` at the very end, at a positive index, preceded by a dot) -/
def isSubnameOf (rn name : Name) : Bool := (dot :: name).isSuffixOf rn

/-- `getParentConflictingRecord(ctx, name, fragments) != ""`, `parent = name[len(fragments[0])+1:]` -/
def conflict (s : State) (parent name : Name) : Bool :=
  s.recs.any (fun kv => kv.1.1 == parent && isSubnameOf kv.2.name name)

/-- `updateBalance` -/
def updateBalance (s : State) (tokenId : Name) (acc : Hash) (diff : Int) : State :=
  let b := (mget s.bal acc).getD 0 + diff
  { s with
    bal := if b = 0 then mdel s.bal acc else mput s.bal acc b
    toks := if diff < 0 then mdel s.toks (acc, tokenId) else mput s.toks (acc, tokenId) tokenId }

/-- `storeRecord` -/
def storeRecord (s : State) (token name : Name) (tb idb : Nat) (typ : Int) (id : Int) (data : Bytes) : State :=
  { s with recs := mput s.recs (token, name, tb, idb) ⟨name, typ, data, id⟩ }

def soaType : Int := Generated.nns_recordtype_SOA
def soaByte : Nat := 6

/-- `putSoaRecord` -/
def putSoaRecord (s : State) (env : Env) (name email : Bytes) (refresh retry expire ttl : Int) : Option State :=
  match tokenIDFromName s env name with
  | none => none
  | some token =>
    let data := name ++ space :: email ++ space :: itoa env.now ++ space :: itoa refresh ++ space ::
      itoa retry ++ space :: itoa expire ++ space :: itoa ttl
    some (storeRecord s token name soaByte 0 soaType 0 data)

/-- `updateSoaSerial` -/
def updateSoaSerial (s : State) (now : Int) (token : Name) : Option State :=
  match mget s.recs (token, token, soaByte, 0) with
  | none => none
  | some rec =>
    match splitNonEmpty space rec.data with
    | [a, b, _, d, e, f, g] =>
      let data := a ++ space :: b ++ space :: itoa now ++ space :: d ++ space :: e ++ space :: f ++ space :: g
      some { s with recs := mput s.recs (token, token, soaByte, 0) { rec with data := data } }
    | _ => none

/-- `saveDomain` -/
def saveDomain (s : State) (env : Env) (name email : Bytes) (refresh retry expire ttl : Int) (owner : Hash) :
    Option State :=
  let ns : NameState := ⟨owner, name, env.now + expire * Generated.nns_millisecondsInSecond, []⟩
  let s1 := { s with names := mput s.names name ns }
  putSoaRecord s1 env name email refresh retry expire ttl

/-- `postTransfer`: the notification, and the call of `onNEP11Payment` when the receiver is a contract -/
def postTransfer (env : Env) (frm to : Hash) (token : Name) : Option (List Event) :=
  if env.recv = 2 then none else some [.transfer frm to 1 token]

/-! ### read API (safe methods); `none` = FAULT -/

def totalSupply (s : State) : Int := s.supply

def ownerOf (s : State) (env : Env) (tokenID : Name) : Option Hash :=
  let frags := split dot tokenID
  if frags.length = 1 then none else
  (fragNameState s env.now tokenID frags).map (·.owner)

def properties (s : State) (env : Env) (tokenID : Name) : Option (Name × Int × Hash) :=
  let frags := split dot tokenID
  if frags.length = 1 then none else
  (fragNameState s env.now tokenID frags).map (fun ns => (ns.name, ns.exp, ns.admin))

def balanceOf (s : State) (owner : Hash) : Option Int :=
  if owner.length = 20 then some ((mget s.bal owner).getD 0) else none

/-- `tokensOf`: the values under `prefixAccountToken ‖ owner` (the contract iterates in hash order; the
harness and the driver sort) -/
def tokensOf (s : State) (owner : Hash) : Option (List Name) :=
  if owner.length = 20 then some ((s.toks.filter (fun kv => kv.1.1 == owner)).map (·.2)) else none

def tokens (s : State) : List Name := s.names.map (·.2.name)

def isAvailable (s : State) (env : Env) (name : Name) : Option Bool :=
  if !env.nameOK name then none else
  let frags := split dot name
  if !s.roots.contains (frags.getLastD []) then (if frags.length ≠ 1 then none else some true)
  else if !parentExpired s env.now 0 frags then some false
  else if frags.length = 1 then none      -- `name[len(fragments[0])+1:]` is out of range for a TLD
  else some (!conflict s (joinDots (frags.drop 1)) name)

def getRecords (s : State) (env : Env) (name : Name) (typ : Int) : Option (List Bytes) :=
  let frags := split dot name
  if frags.length = 1 then none else
  match tokenIDFromName s env name with
  | none => none
  | some token =>
    match fragNameState s env.now token (split dot token) with     -- `getFragmentedNameState(ctx, tokenID, nil)`
    | none => none
    | some _ =>
      match byteOf typ with
      | none => none
      | some tb => some (((recsByType s token name tb).filter (fun r => r.typ == typ)).map (·.data))

/-- `getAllRecords(ctx, name)`: the records kept for `name` under its enclosing registered name, whose own
parent chain must be unexpired (`getFragmentedNameState(ctx, tokenID, nil)`) -/
def allRecords (s : State) (env : Env) (name : Name) : Option (List Rec) :=
  match tokenIDFromName s env name with
  | none => none
  | some token =>
    match fragNameState s env.now token (split dot token) with
    | none => none
    | some _ => some (recsOfName s token name)

def getAllRecords (s : State) (env : Env) (name : Name) : Option (List Rec) :=
  if (split dot name).length = 1 then none else allRecords s env name

def cnameByte : Nat := 5
def cnameType : Int := Generated.nns_recordtype_CNAME

/-- `resolve(ctx, res, name, typ, redirect)` with `fuel = redirect + 1`; `fuel = 0` is `redirect < 0` -/
def resolveAux (s : State) (env : Env) : Nat → List Bytes → Name → Int → Option (List Bytes)
  | 0, _, _, _ => none
  | fuel + 1, res, name, typ =>
    if name.length = 0 then none else
    let name := if name.getLast? = some dot then name.dropLast else name
    match allRecords s env name with
    | none => none
    | some rs =>
      let res' := res ++ (rs.filter (fun r => r.typ == typ)).map (·.data)
      let cname := ((rs.filter (fun r => r.typ == cnameType)).map (·.data)).getLastD []
      if cname.length = 0 ∨ typ = cnameType then some res'
      else resolveAux s env fuel res' cname typ

def resolve (s : State) (env : Env) (name : Name) (typ : Int) : Option (List Bytes) :=
  if (split dot name).length = 1 then none else resolveAux s env 3 [] name typ

/-! ### mutating methods -/

/-- `Transfer` -/
def transfer (s : State) (env : Env) (to : Hash) (tokenID : Name) : Option Halt :=
  if to.length ≠ 20 then none else
  if (split dot tokenID).length = 1 then none else
  match nameStateWithKey s env.now tokenID with
  | none => none
  | some ns =>
    let frm := ns.owner
    if !witness env frm then some (s, .bool false, []) else
    let s1 := if frm = to then s else
      let s0 := { s with names := mput s.names tokenID { ns with owner := to, admin := [] } }
      updateBalance (updateBalance s0 tokenID frm (-1)) tokenID to 1
    match postTransfer env frm to tokenID with
    | none => none
    | some ev => some (s1, .bool true, ev)

/-- `SetPrice` -/
def setPrice (s : State) (env : Env) (price : Int) : Option Halt :=
  if !env.committee then none else
  if price < 0 ∨ price > Generated.nns_maxRegisterPrice then none else
  some ({ s with price := price }, .null, [])

/-- `ns.checkAdmin()` on the directly enclosing name `name[len(fragments[0])+1:]` (levels > 2) -/
def parentAuth (s : State) (env : Env) (name : Name) : Bool :=
  match mget s.names (joinDots ((split dot name).drop 1)) with
  | none => false
  | some ns => checkAdmin env ns

/-- the panics of `Register` before the first write, in the order of the code (each is a FAULT, so the
order is immaterial): `splitAndCheck`, "TLD denied", "TLD not found", `parentExpired(ctx, 1, …)`,
`checkAdmin` of the enclosing name for level > 2, conflicting records of the parent, `isValid(owner)`,
`CheckOwnerWitness(owner)`, `runtime.BurnGas(GetPrice())` (wants a positive amount) -/
def registerGuards (s : State) (env : Env) (name : Name) (owner : Hash) : Bool :=
  let frags := split dot name
  env.nameOK name && !(frags.length == 1) && s.roots.contains (frags.getLastD []) &&
  !parentExpired s env.now 1 frags && (!(decide (frags.length > 2)) || parentAuth s env name) &&
  !conflict s (joinDots (frags.drop 1)) name && owner.length == 20 && witness env owner && decide (0 < s.price)

/-- `Register` -/
def register (s : State) (env : Env) (name : Name) (owner : Hash) (email : Bytes)
    (refresh retry expire ttl : Int) : Option Halt :=
  if !registerGuards s env name owner then none else
  match mget s.names name with
  | some ns =>
    if env.now < ns.exp then some (s, .bool false, [])
    else
      match saveDomain (updateBalance s name ns.owner (-1)) env name email refresh retry expire ttl owner with
      | none => none
      | some s1 =>
        match postTransfer env ns.owner owner name with
        | none => none
        | some ev => some (updateBalance s1 name owner 1, .bool true, ev)
  | none =>
    match saveDomain { s with supply := s.supply + 1 } env name email refresh retry expire ttl owner with
    | none => none
    | some s1 =>
      match postTransfer env [] owner name with
      | none => none
      | some ev => some (updateBalance s1 name owner 1, .bool true, ev)

/-- `RegisterTLD` / `saveCommitteeDomain` -/
def registerTLD (s : State) (env : Env) (name email : Bytes) (refresh retry expire ttl : Int) : Option Halt :=
  if !env.committee then none else
  if !env.nameOK name then none else
  let frags := split dot name
  if frags.length ≠ 1 then none else
  if s.roots.contains name ∧ !parentExpired s env.now 0 frags then none else
  let s0 := { s with roots := if s.roots.contains name then s.roots else name :: s.roots }
  match saveDomain s0 env name email refresh retry expire ttl [] with
  | none => none
  | some s1 => some (s1, .null, [])

/-- `Renew` -/
def renew (s : State) (env : Env) (name : Name) (years : Int) : Option Halt :=
  if years < 1 ∨ years > 10 then none else
  if (name.length : Int) > Generated.nns_maxDomainNameLength then none else
  if s.price * years ≤ 0 then none else
  match fragNameState s env.now name (split dot name) with
  | none => none
  | some ns =>
    if !checkAdmin env ns then none else
    let exp' := ns.exp + Generated.nns_millisecondsInYear * years
    if !env.nameOK name then none else
    if (split dot name).length > 1 ∧ exp' > env.now + Generated.nns_millisecondsInTenYears then none else
    some ({ s with names := mput s.names ns.name { ns with exp := exp' } }, .int exp', [.renew name ns.exp exp'])

/-- `UpdateSOA` -/
def updateSOA (s : State) (env : Env) (name email : Bytes) (refresh retry expire ttl : Int) : Option Halt :=
  if (name.length : Int) > Generated.nns_maxDomainNameLength then none else
  match fragNameState s env.now name (split dot name) with
  | none => none
  | some ns =>
    if !checkAdmin env ns then none else
    match putSoaRecord s env name email refresh retry expire ttl with
    | none => none
    | some s1 => some (s1, .null, [])

/-- `SetAdmin` (`admin = []` is the `nil` argument) -/
def setAdmin (s : State) (env : Env) (name : Name) (admin : Hash) : Option Halt :=
  if (name.length : Int) > Generated.nns_maxDomainNameLength then none else
  let frags := split dot name
  if frags.length = 1 then none else
  if admin.length ≠ 0 ∧ !witness env admin then none else     -- CheckWitness FAULTs unless 20 bytes
  match fragNameState s env.now name frags with
  | none => none
  | some ns =>
    if !witness env ns.owner then none else
    some ({ s with names := mput s.names ns.name { ns with admin := admin } }, .null,
          [.setAdmin name ns.admin admin])

/-- `checkRecord`: the token id under which the record is kept -/
def checkRecord (s : State) (env : Env) (name : Name) (typ : Int) (data : Bytes) : Option Name :=
  match tokenIDFromName s env name with
  | none => none
  | some token =>
    let ok : Option Bool :=
      if typ = Generated.nns_recordtype_A then some env.ipOK
      else if typ = Generated.nns_recordtype_CNAME then some (env.nameOK data)
      else if typ = Generated.nns_recordtype_TXT then some (decide ((data.length : Int) ≤ Generated.nns_maxTXTRecordLength))
      else if typ = Generated.nns_recordtype_AAAA then some env.ipOK
      else none
    match ok with
    | none => none
    | some false => none
    | some true =>
      let frags := split dot token
      if frags.length = 1 then none else
      match fragNameState s env.now token frags with
      | none => none
      | some ns => if checkAdmin env ns then some token else none

/-- `AddRecord` -/
def addRecord (s : State) (env : Env) (name : Name) (typ : Int) (data : Bytes) : Option Halt :=
  match checkRecord s env name typ data with
  | none => none
  | some token =>
    match byteOf typ with
    | none => none
    | some tb =>
      let rs := recsByType s token name tb
      let id : Int := rs.length
      if rs.any (fun r => r.name == name && r.typ == typ && r.data == data) then none else
      if id > Generated.nns_maxRecordID then none else
      if typ = cnameType ∧ id ≠ 0 then none else
      match updateSoaSerial (storeRecord s token name tb rs.length typ id data) env.now token with
      | none => none
      | some s1 => some (s1, .null, [])

/-- `SetRecord` -/
def setRecord (s : State) (env : Env) (name : Name) (typ : Int) (id : Int) (data : Bytes) : Option Halt :=
  match checkRecord s env name typ data with
  | none => none
  | some token =>
    match byteOf typ, byteOf id with
    | some tb, some idb =>
      match mget s.recs (token, name, tb, idb) with
      | none => none
      | some _ =>
        if (recsByType s token name tb).any (fun r => r.id != id && r.data == data) then none else
        match updateSoaSerial (storeRecord s token name tb idb typ id data) env.now token with
        | none => none
        | some s1 => some (s1, .null, [])
    | _, _ => none

/-- `DeleteRecords` -/
def deleteRecords (s : State) (env : Env) (name : Name) (typ : Int) : Option Halt :=
  if typ = soaType then none else
  match tokenIDFromName s env name with
  | none => none
  | some token =>
    let frags := split dot token
    if frags.length = 1 then none else
    match fragNameState s env.now token frags with
    | none => none
    | some ns =>
      if !checkAdmin env ns then none else
      match byteOf typ with
      | none => none
      | some tb =>
        let s0 := { s with recs := s.recs.filter (fun kv => !(kv.1.1 == token && kv.1.2.1 == name && kv.1.2.2.1 == tb)) }
        match updateSoaSerial s0 env.now token with
        | none => none
        | some s1 => some (s1, .null, [])

inductive Op where
  | register (name : Name) (owner : Hash) (email : Bytes) (refresh retry expire ttl : Int)
  | registerTLD (name email : Bytes) (refresh retry expire ttl : Int)
  | transfer (to : Hash) (tokenID : Name)
  | renew (name : Name) (years : Int)
  | updateSOA (name email : Bytes) (refresh retry expire ttl : Int)
  | setAdmin (name : Name) (admin : Hash)
  | addRecord (name : Name) (typ : Int) (data : Bytes)
  | setRecord (name : Name) (typ id : Int) (data : Bytes)
  | deleteRecords (name : Name) (typ : Int)
  | setPrice (price : Int)
  deriving Repr

/-- `none` = FAULT -/
def step (s : State) (env : Env) : Op → Option Halt
  | .register n o e a b c d => register s env n o e a b c d
  | .registerTLD n e a b c d => registerTLD s env n e a b c d
  | .transfer to t => transfer s env to t
  | .renew n y => renew s env n y
  | .updateSOA n e a b c d => updateSOA s env n e a b c d
  | .setAdmin n a => setAdmin s env n a
  | .addRecord n t d => addRecord s env n t d
  | .setRecord n t i d => setRecord s env n t i d
  | .deleteRecords n t => deleteRecords s env n t
  | .setPrice p => setPrice s env p

/-- transaction atomicity: a FAULT leaves the state untouched -/
def invoke (s : State) (env : Env) (op : Op) : State × Option (Ret × List Event) :=
  match step s env op with
  | none => (s, none)
  | some (s', r, ev) => (s', some (r, ev))

/-- a history: every invocation with its environment -/
def run (s : State) : List (Env × Op) → State
  | [] => s
  | (env, op) :: rest => run (invoke s env op).1 rest

end NeoFS.NNS
