import NeoFS.Base.Bytes
import NeoFS.Generated.Consts
/-! # Netmap contract (contracts/netmap/contract.go), hand-written model for C06 and C07.

State = typed key families of the contract's storage (DESIGN.md section 4, "two levels of storage
modelling"): every family is a map from the key *suffix* (the bytes after the family prefix) to a typed
value, kept sorted by key, so that `storage.Find` over a family is the list itself:

* `cands`  : `candidate‖pubkey`        ↦ `Node{BLOB, State}`            (legacy candidates)
* `cands2` : `2‖pubkey`                ↦ `Node2{Addresses, Attributes, Key, State}` (structured candidates)
* `nm2`    : `p‖BE4(epoch)‖pubkey`     ↦ `Node2`                        (structured network maps per epoch)
* `snaps`  : `snapshot_‖byte(i)`       ↦ `[]Node`                       (legacy snapshot ring)
* `subs`   : `e‖byte(index)‖hash160`   ↦ (empty)                        (NewEpoch subscribers)
* scalars  : `snapshotEpoch`, `snapshotBlock`, `snapshotCount`, `snapshotCurrent`

Modelled methods (branch by branch, FAULT paths included): `AddPeerIR`, `AddPeer`, `AddNode`, `DeleteNode`,
`UpdateState`, `UpdateStateIR` (with `updateCandidateState`, `updateNetmapState`, `removeFromNetmap`,
`addToNetmap`), `NewEpoch` (with `filterNetmap`, `fillNetmap`, `fourBytesBE`, the ring step, `dropNetmap`,
`cleanup`), `SubscribeForNewEpoch`, and the readers `Epoch`, `LastEpochBlock`, `Netmap`, `NetmapCandidates`,
`ListCandidates`, `ListNodes`/`ListNodesEpoch`. Not modelled: `_deploy` beyond the initial state, `Update`,
the resizing branches of `UpdateSnapshotCount` (C08, model `NetmapRing`; its refusing branches are here), `Snapshot`/`SnapshotByEpoch`, config methods, `InnerRingList`.
`step` returns `none` for a FAULT; `invoke` implements transaction atomicity. -/
namespace NeoFS.Netmap
open NeoFS

abbrev Key := Bytes
abbrev Hash := Bytes

/-! ### byte-string order (= order of storage keys inside one family) and sorted maps -/

/-- strict lexicographic order on byte strings -/
def blt : Bytes → Bytes → Bool
  | _, [] => false
  | [], _ :: _ => true
  | a :: as, b :: bs => if a < b then true else if b < a then false else blt as bs

abbrev Map (α : Type) := List (Bytes × α)

namespace Map
variable {α : Type}

def get (m : Map α) (k : Bytes) : Option α :=
  match m with
  | [] => none
  | (k', v) :: r => if k' = k then some v else get r k

/-- `storage.Put`: replace the value or insert at the sorted position -/
def put (k : Bytes) (v : α) : Map α → Map α
  | [] => [(k, v)]
  | (k', v') :: r =>
    if k' = k then (k, v) :: r
    else if blt k k' then (k, v) :: (k', v') :: r
    else (k', v') :: put k v r

/-- `storage.Delete` -/
def del (k : Bytes) : Map α → Map α
  | [] => []
  | (k', v') :: r => if k' = k then del k r else (k', v') :: del k r

/-- does `k` start with `p`; returns the rest -/
def stripPrefix : Bytes → Bytes → Option Bytes
  | [], k => some k
  | _ :: _, [] => none
  | a :: p, b :: k => if a = b then stripPrefix p k else none

/-- `storage.Find(prefix, RemovePrefix)` inside one family: entries whose key starts with `p`, prefix removed -/
def findP (p : Bytes) : Map α → Map α
  | [] => []
  | (k, v) :: r =>
    match stripPrefix p k with
    | some k' => (k', v) :: findP p r
    | none => findP p r

/-- delete every entry whose key starts with `p` (`dropNetmap`) -/
def delP (p : Bytes) : Map α → Map α
  | [] => []
  | (k, v) :: r =>
    match stripPrefix p k with
    | some _ => delP p r
    | none => (k, v) :: delP p r

def keys (m : Map α) : List Bytes := m.map (·.1)
def vals (m : Map α) : List α := m.map (·.2)

end Map

/-! ### values -/

structure Node where
  blob : Bytes
  state : Int
  deriving Repr, DecidableEq

structure Node2 where
  addrs : List Bytes
  attrs : List (Bytes × Bytes)
  key : Key
  state : Int
  deriving Repr, DecidableEq

def stOnline : Int := Generated.netmap_nodestate_Online
def stOffline : Int := Generated.netmap_nodestate_Offline
def stMaintenance : Int := Generated.netmap_nodestate_Maintenance
def keyOff : Nat := Generated.netmap_nodeKeyOffset.toNat
def keyEnd : Nat := Generated.netmap_nodeKeyEndOffset.toNat
/-- `interop.PublicKeyCompressedLen` (`nodeKeyEndOffset = nodeKeyOffset + interop.PublicKeyCompressedLen`) -/
def pkLen : Nat := keyEnd - keyOff
/-- `interop.Hash160Len` -/
def hashLen : Nat := 20

structure State where
  epoch : Int
  block : Int
  count : Int
  curId : Int
  snaps : Map (List Node)
  cands : Map Node
  cands2 : Map Node2
  nm2 : Map Node2
  subs : Map Unit
  deriving Repr, DecidableEq

/-- what the invocation sees of the chain and of the other contracts -/
structure Env where
  /-- `runtime.CheckWitness(common.AlphabetAddress())` -/
  alphabet : Bool
  /-- public keys `k` for which `runtime.CheckWitness(k)` holds -/
  witnesses : List Key
  /-- `ledger.CurrentIndex()` -/
  height : Int
  /-- `management.HasMethod(h, "newEpoch", 1)` -/
  hasNewEpoch : Hash → Bool
  /-- does `contract.Call(h, "newEpoch", All, e)` return normally (a subscriber that panics rejects) -/
  accepts : Hash → Int → Bool

inductive Event where
  | addPeerSuccess (k : Key)
  | addNode (k : Key) (addrs : List Bytes) (attrs : List (Bytes × Bytes))
  | updateStateSuccess (k : Key) (st : Int)
  | newEpoch (e : Int)
  | subscription (h : Hash)
  /-- not a notification: the nested call `contract.Call(h, "newEpoch", All, e)` made by `cleanup` -/
  | called (h : Hash) (e : Int)
  deriving Repr, DecidableEq

inductive Op where
  | addPeer (blob : Bytes)
  | addPeerIR (blob : Bytes)
  | addNode (n : Node2)
  | updateState (st : Int) (k : Key)
  | updateStateIR (st : Int) (k : Key)
  | deleteNode (k : Key)
  | newEpoch (e : Int)
  | subscribe (h : Hash)
  /-- only the refusing branches are modelled here, see `step` -/
  | updateSnapshotCount (n : Int)
  deriving Repr, DecidableEq

abbrev Halt := State × List Event

/-- `_deploy` (not an update): epoch 0, block 0, `DefaultSnapshotCount` empty snapshots, current id 0 -/
def init : State :=
  { epoch := 0, block := 0, count := Generated.netmap_DefaultSnapshotCount, curId := 0,
    snaps := (List.range Generated.netmap_DefaultSnapshotCount.toNat).map (fun i => ([i], [])),
    cands := [], cands2 := [], nm2 := [], subs := [] }

/-- snapshot slots that exist after ONE `UpdateSnapshotCount(k)` on the freshly deployed contract (current id 0,
`d = DefaultSnapshotCount` empty slots `0 … d-1`; read off the code and observed on the raw storage,
`corpus/C06/count256-epoch128.ops`): shrinking (`k < d`) moves slots `d-k+1 … d-1` to `1 … k-1` and deletes
`k … d-1`, leaving `0 … k-1`; growing (`k > d`) moves slots `1 … d-1` to `k-d+1 … k-1` and deletes `1 … min(k-d, d-1)`,
leaving `0` and `k-d+1 … k-1` (the slots between are missing and read as empty); `k = d` is refused. -/
def initSlots (k : Nat) : List Nat :=
  let d := Generated.netmap_DefaultSnapshotCount.toNat
  if k ≤ d then List.range k else 0 :: (List.range (d - 1)).map (fun i => k - (d - 1) + i)

/-- the deployed contract after `UpdateSnapshotCount(k)` as its first invocation: count `k`, current id still 0,
epoch and block 0, every existing slot empty, no structured map to drop (`initWith DefaultSnapshotCount = init`). The resizing
branches themselves belong to C08 (model `NetmapRing`); here only their effect on the untouched deployment is a root of the
histories of C06/C07. -/
def initWith (k : Nat) : State :=
  { init with count := (k : Int), snaps := (initSlots k).map (fun i => ([i], [])) }

/-! ### helpers of the contract -/

/-- `nodeInfo[nodeKeyOffset:nodeKeyEndOffset]`; FAULT when the blob is shorter -/
def keyOf (blob : Bytes) : Option Key :=
  if blob.length < keyEnd then none else some ((blob.drop keyOff).take (keyEnd - keyOff))

/-- `runtime.CheckWitness(publicKey)` -/
def nodeWitness (env : Env) (k : Key) : Bool := env.witnesses.contains k

/-- `fourBytesBE`: `copy(res[0:4], convert.ToBytes(num))` then reversed — the low four little-endian bytes of
the VM encoding, zero padded. For `num ≥ 0` these are the digits of `num mod 2^32`. -/
def be4 (z : Int) : Bytes :=
  if 0 ≤ z then (natLEk 4 z.toNat).reverse
  else
    let b := (encInt z).take 4
    (b ++ List.replicate (4 - b.length) 0).reverse

/-- `getNetmapNodes`: all legacy candidates in key order -/
def netmapCandidates (s : State) : List Node := s.cands.vals
/-- `filterNetmap` -/
def filterNetmap (s : State) : List Node := (netmapCandidates s).filter (fun n => n.state != stOffline)
/-- `ListCandidates` -/
def listCandidates (s : State) : List Node2 := s.cands2.vals
/-- `ListNodesEpoch` -/
def listNodesEpoch (s : State) (e : Int) : List Node2 := (Map.findP (be4 e) s.nm2).vals
/-- `ListNodes` -/
def listNodes (s : State) : List Node2 := listNodesEpoch s s.epoch
/-- `Netmap` (`getSnapshot`: a missing slot reads as empty) -/
def netmap (s : State) : List Node := (s.snaps.get [s.curId.toNat]).getD []
/-- subscribers in the order `cleanup` calls them: key order of `e‖index‖hash`, the index byte cut off -/
def subscribers (s : State) : List Hash := s.subs.keys.map (fun k => k.drop 1)

/-- `fillNetmap`: copy every structured candidate under `p‖BE4(epoch)‖key` -/
def fillNetmap (nm2 : Map Node2) (cands2 : Map Node2) (e : Int) : Map Node2 :=
  cands2.foldl (fun m kv => Map.put (be4 e ++ kv.1) kv.2 m) nm2

/-- `removeFromNetmap` -/
def removeFromNetmap (s : State) (k : Key) : State :=
  { s with cands := Map.del k s.cands, cands2 := Map.del k s.cands2 }

/-- first block of `updateNetmapState`: `if raw != nil { node.State = state; Put }` on the legacy record -/
def updCands (s : State) (k : Key) (st : Int) : Map Node :=
  match s.cands.get k with
  | some n => Map.put k { n with state := st } s.cands
  | none => s.cands
/-- second block of `updateNetmapState`: the same on the structured record -/
def updCands2 (s : State) (k : Key) (st : Int) : Map Node2 :=
  match s.cands2.get k with
  | some n => Map.put k { n with state := st } s.cands2
  | none => s.cands2

/-- `updateNetmapState`; `none` = "peer is missing" -/
def updateNetmapState (s : State) (k : Key) (st : Int) : Option State :=
  if (s.cands.get k).isNone && (s.cands2.get k).isNone then none
  else some { s with cands := updCands s k st, cands2 := updCands2 s k st }

/-- `updateCandidateState` including the final `runtime.Notify("UpdateStateSuccess", publicKey, state)`,
which FAULTs unless the key has the length of a `PublicKey` manifest parameter -/
def updateCandidateState (s : State) (k : Key) (st : Int) : Option Halt :=
  let r : Option State :=
    if st = stOffline then some (removeFromNetmap s k)
    else if st = stOnline ∨ st = stMaintenance then updateNetmapState s k st
    else none
  match r with
  | none => none
  | some s' => if k.length ≠ pkLen then none else some (s', [.updateStateSuccess k st])

/-- `addToNetmap` -/
def addToNetmap (s : State) (k : Key) (blob : Bytes) : Halt :=
  ({ s with cands := Map.put k ⟨blob, stOnline⟩ s.cands }, [.addPeerSuccess k])

/-- `NewEpoch` -/
def newEpoch (s : State) (env : Env) (e : Int) : Option Halt :=
  if !env.alphabet then none
  else if e ≤ s.epoch then none
  else
    let data := filterNetmap s
    let nm2a := fillNetmap s.nm2 s.cands2 e
    if s.count = 0 then none                                   -- `(id + 1) % snapCount`
    else
      let id := (s.curId + 1) % s.count
      let snaps := Map.put [id.toNat] data s.snaps
      let nm2b := if e > s.count then Map.delP (be4 (e - s.count)) nm2a else nm2a
      let s' := { s with epoch := e, block := env.height, curId := id, snaps := snaps, nm2 := nm2b }
      -- `cleanup`: one nested call per subscriber, in key order; a rejecting subscriber FAULTs everything
      let hs := subscribers s
      if hs.all (fun h => env.accepts h e) then some (s', hs.map (fun h => Event.called h e) ++ [.newEpoch e])
      else none

/-- `SubscribeForNewEpoch` -/
def subscribe (s : State) (env : Env) (h : Hash) : Option Halt :=
  if !env.alphabet then none
  else if h.length ≠ hashLen then none                          -- Hash160 argument of `management.HasMethod`
  else if !env.hasNewEpoch h then none
  else if (subscribers s).contains h then some (s, [])          -- `return` inside the loop: no notification
  else
    let num := (subscribers s).length
    if num ≥ 256 then none                                      -- `append(key, num)`: not a byte any more
    else some ({ s with subs := Map.put (num :: h) () s.subs }, [.subscription h])

/-- `none` = FAULT (the transaction is rolled back by `invoke`) -/
def step (s : State) (env : Env) : Op → Option Halt
  | .addPeerIR blob =>
    if !env.alphabet then none else
    match keyOf blob with
    | none => none
    | some k => some (addToNetmap s k blob)
  | .addPeer blob =>
    match keyOf blob with
    | none => none
    | some k =>
      if !nodeWitness env k then none
      else if !env.alphabet then none
      else some (addToNetmap s k blob)
  | .addNode n =>
    if n.state ≠ stOnline then none
    else if n.key.length ≠ pkLen then none
    else if !nodeWitness env n.key then none
    else if !env.alphabet then none
    else some ({ s with cands2 := Map.put n.key n s.cands2 }, [.addNode n.key n.addrs n.attrs])
  | .deleteNode k =>
    if k.length ≠ pkLen then none
    else if !env.alphabet then none
    else updateCandidateState s k stOffline
  | .updateState st k =>
    if k.length ≠ pkLen then none
    else if !nodeWitness env k then none
    else if !env.alphabet then none
    else updateCandidateState s k st
  | .updateStateIR st k =>
    if !env.alphabet then none
    else updateCandidateState s k st
  | .newEpoch e => newEpoch s env e
  | .subscribe h => subscribe s env h
  | .updateSnapshotCount n =>
    -- `UpdateSnapshotCount`: no Alphabet witness, `count <= 0` ("count must be positive", the repair of F3) and
    -- `count == oldCount` ("count has not changed") FAULT. An actual resize is outside this model (C08, model
    -- `NetmapRing`); the harness generates refused values only, so this branch is never compared.
    if !env.alphabet then none
    else if n ≤ 0 then none
    else if n = s.count then none
    else none

def invoke (s : State) (env : Env) (op : Op) : State × Option (List Event) :=
  match step s env op with
  | none => (s, none)
  | some (s', ev) => (s', some ev)

/-- a history: every invocation with its environment -/
def run (s : State) : List (Env × Op) → State
  | [] => s
  | (env, op) :: rest => run (invoke s env op).1 rest

end NeoFS.Netmap
