import NeoFS.Model.Access
/-! # Documented witness requirements per contract method (hand-written side of C03)

Read off the method comments and `doc.go` files (DESIGN.md appendix H). A requirement is a Boolean
function of "which witness atoms hold"; atoms are named as the translator names them
(`W:alphabet` = the 2n/3+1 Alphabet multi-signature account, `W:committee` = the n/2+1 committee account,
`W:<param>` = witness of the key / script hash passed as that parameter (constants of the repository appear by VALUE,
unexported one-line helpers by their body, range variables as `elem(<ranged expression>)`, so that renaming them changes nothing), `CALLER:<x>` = the calling
contract is `x`, `W:state.Owner` / `W:state.Admin` = witness of the owner / admin recorded for the name). -/
namespace NeoFS.Access.Expect

/-- `h p` = some atom whose name satisfies `p` holds -/
abbrev Holds := (String → Bool) → Bool

def A (h : Holds) : Bool := h (· == "W:alphabet")
def C (h : Holds) : Bool := h (· == "W:committee")
def W (s : String) (h : Holds) : Bool := h (· == "W:" ++ s)
def CALLER (s : String) (h : Holds) : Bool := h (· == "CALLER:" ++ s)
def ownerOrAdmin (h : Holds) : Bool := W "state.Owner" h || W "state.Admin" h || C h

inductive Req where
  | exempt (why : String)        -- not decided statically (guarded by data, not by a witness); dynamic product only
  | needs (f : Holds → Bool)     -- every effect needs `f`
  | anyGuard                      -- default: with no witness atom at all the method is inert

/-- main-chain Alphabet in either mode: the notary multi-signature or (vote mode) a stored Alphabet key -/
def mainAlphabet (h : Holds) : Bool := A h || W "storedAlphabetKey" h || W "neofs.AlphabetAddress()" h

/-- audit.put: the `From` field of the header decoded from the argument by an (unexported, freely named) helper of the contract -/
def auditSender (h : Holds) : Bool := h (fun a => a.startsWith "W:audit." && a.endsWith "(rawAuditResult).From")

def req (contract method : String) : Req :=
  if method == "_deploy" || method == "_initialize" then .exempt "not callable through the contract call interface"
  else if method == "update" then
    (if contract == "neofs" || contract == "processing" then .needs (W "irMajority") else .needs C)
  else if contract == "alphabet" then
    (if method == "emit" then .needs (W "ownAlphabetNode")
     else if method == "vote" then .needs A
     else .anyGuard)
  else if contract == "audit" then
    (if method == "put" then .needs auditSender else .anyGuard)
  else if contract == "balance" then
    (if method == "transfer" then .needs (fun h => W "from" h || CALLER "from" h) else .needs A)
  else if contract == "container" then
    (if method == "putContainerSize" then .needs (W "pubKey")
     else if method == "submitObjectPut" then .exempt "guarded by placement signatures (C14), not by a witness"
     else .needs A)
  else if contract == "neofs" then
    (if method == "bind" || method == "unbind" || method == "withdraw" then .needs (W "user")
     else if method == "innerRingCandidateAdd" then .needs (W "key")
     else if method == "innerRingCandidateRemove" then .needs (fun h => W "key" h || mainAlphabet h)
     else if method == "onNEP17Payment" then .needs (CALLER "gas.Hash")
     else .needs mainAlphabet)
  else if contract == "neofsid" then .needs A
  else if contract == "netmap" then
    (if method == "addPeer" then .needs (fun h => A h && W "nodeInfo[2:35]" h)
     else if method == "addNode" then .needs (fun h => A h && W "n.Key" h)
     else if method == "updateState" then .needs (fun h => A h && W "publicKey" h)
     else .needs A)
  else if contract == "nns" then
    (if method == "registerTLD" || method == "setPrice" then .needs C
     else if method == "register" then .needs (W "owner")
     else if method == "transfer" then .needs (W "state.Owner")
     else if method == "setAdmin" then .needs (W "state.Owner")
     else .needs ownerOrAdmin)
  else if contract == "reputation" then .needs A
  else .anyGuard

/-- what `verify` of Proxy / Alphabet / Processing must have seen to answer true -/
def verifyReq (contract : String) (h : Holds) : Bool :=
  if contract == "processing" then W "neofsAlphabetAddress" h else A h || C h

end NeoFS.Access.Expect
