import NeoFS.Model.Balance
/-
The Balance contract inside the system: Netmap's `NewEpoch(e)` (Alphabet-witnessed, `e` above Netmap's current epoch,
otherwise FAULT) calls `newEpoch(e)` on every subscriber in the same transaction, and Balance subscribes at deployment.
The part of Netmap that Balance depends on is its epoch counter; the rest of Netmap (candidates, snapshots) is the
model of C06–C08 and does not influence Balance. `invoke` is what the driver executes for the harness operation
`nmtick` (a real `netmap.newEpoch` transaction on a chain where Balance is subscribed), so the composition is tied to the
code by the same correspondence run as the Balance model itself.
-/
namespace NeoFS.BalanceSystem
open NeoFS.Balance

structure State where
  bal : Balance.State
  /-- Netmap's epoch counter -/
  nmEpoch : Int

inductive Op where
  /-- a direct invocation of the Balance contract -/
  | bal (op : Balance.Op)
  /-- `netmap.newEpoch(e)` -/
  | nmtick (e : Int)

def init : State := ⟨Balance.init, 0⟩

/-- one transaction; `none` in the second component = FAULT (nothing changes, in either contract) -/
def invoke (d : State) (env : Env) : Op → State × Option (Option Bool × List Event)
  | .bal op =>
    let r := Balance.invoke d.bal env op
    (⟨r.1, d.nmEpoch⟩, r.2)
  | .nmtick e =>
    if env.alphabet && decide (d.nmEpoch < e) then
      match Balance.invoke d.bal env (.newEpoch e) with
      | (_, none) => (d, none)                       -- a faulting subscriber rolls the whole tick back
      | (s', some out) => (⟨s', e⟩, some out)
    else (d, none)

def run (d : State) : List (Env × Op) → State
  | [] => d
  | (env, op) :: rest => run (invoke d env op).1 rest

end NeoFS.BalanceSystem
