import NeoFS.Model.NeoFSMain
/-! # Alphabet contract `Emit` and the payment callbacks of Alphabet, Proxy and Processing
(contracts/alphabet/contract.go:25-32, 236-300; contracts/proxy/contract.go:12-18;
contracts/processing/contract.go:21-27), hand-written model.

`emit` mirrors `Emit()` statement by statement: permission test on committee key `index`, the NEO
self-transfer (the instances under test hold no NEO, so nothing is claimed), `gasBalance / 2` to Proxy
(`panic` when that is 0), `gasBalance * 7 / 8 / len(innerRing)` to every Inner Ring node (division by zero
FAULTs), a failed transfer is only logged.  Not modelled: `Vote`, `Update`, `_deploy`/`switchToNotary`,
the GAS a NEO-holding instance would claim.
Tied to the code by the correspondence run of `./check C19`. -/
namespace NeoFS.Alphabet
open NeoFS NeoFS.Main

/-- NeoVM `DIV`: truncation towards zero -/
def vmDiv (a b : Int) : Int := Int.tdiv a b

/-- one deployed Alphabet contract -/
structure Instance where
  self : Hash
  index : Int                 -- "index"
  proxy : Hash                -- "proxyScriptHash"

inductive Event where
  | gasT (frm to : Hash) (amt : Int)
  | neoT (frm to : Hash) (amt : Int)
  deriving Repr, DecidableEq

/-- `if !gas.Transfer(contractHash, to, amt, nil) { runtime.Log(..) }`: a refused transfer changes nothing -/
def sendOrLog (g : Ledger) (frm to : Hash) (amt : Int) : Ledger × List Event :=
  if amt < 0 ∨ g frm < amt then (g, []) else (g.move frm to amt, [.gasT frm to amt])

/-- the `for _, node := range innerRing` loop -/
def sendEach (frm : Hash) (amt : Int) : List Hash → Ledger → List Event → Ledger × List Event
  | [], g, evs => (g, evs)
  | a :: rest, g, evs =>
    let r := sendOrLog g frm a amt
    sendEach frm amt rest r.1 (evs ++ r.2)

/-- `Emit()`. `committee`: standard accounts of `neo.GetCommittee()` in order; `ir`: standard accounts of
`roles.GetDesignatedByRole(NeoFSAlphabet, height+1)` in order; `wit`: witnesses of the transaction.
`none` = FAULT. -/
def emit (c : Instance) (committee : List Hash) (wit : List Hash) (ir : List Hash) (g : Ledger) :
    Option (Ledger × List Event) :=
  -- checkPermission
  if c.index < 0 then none                                 -- `ir[index]` with a negative index
  else if committee.length ≤ c.index.toNat then none       -- `len(ir) <= index`
  else if !wit.contains (committee.getD c.index.toNat []) then none
  else
    -- neo.Transfer(self, self, neo.BalanceOf(self), nil): no NEO held, a zero self-transfer
    let ev0 : List Event := [.neoT c.self c.self 0]
    let gasBalance := g c.self
    let proxyGas := vmDiv gasBalance 2
    if proxyGas = 0 then none                              -- "no gas to emit"
    else
      let r1 := sendOrLog g c.self c.proxy proxyGas
      let rest := gasBalance - proxyGas
      if ir.length = 0 then none                           -- division by zero
      else
        let perNode := vmDiv (vmDiv (rest * 7) 8) ir.length
        if perNode ≠ 0 then
          let r2 := sendEach c.self perNode ir r1.1 (ev0 ++ r1.2)
          some r2
        else some (r1.1, ev0 ++ r1.2)

/-- who calls a payment callback -/
inductive Caller where
  | gas | neo | other
  deriving Repr, DecidableEq

/-- `OnNEP17Payment` of the Alphabet contract: `true` = accepted, `false` = ABORT -/
def alphabetOnPayment (c : Caller) : Bool := c = .gas ∨ c = .neo
/-- `OnNEP17Payment` of the Proxy contract -/
def proxyOnPayment (c : Caller) : Bool := c = .gas
/-- `OnNEP17Payment` of the Processing contract -/
def processingOnPayment (c : Caller) : Bool := c = .gas

/-! ### the deployment the harness drives: several Alphabet instances, Proxy, Processing, a probe -/

structure Gov where
  insts : List Instance
  proxy : Hash
  proc : Hash
  probe : Hash                -- a contract whose callbacks accept everything
  committee : List Hash       -- standard accounts of `neo.GetCommittee()`, in order
  cmt : Hash                  -- committee majority account (designates roles)

structure GState where
  gas : Ledger
  neo : Ledger
  ir : List Hash              -- standard accounts of the designated NeoFSAlphabet role, in the native's order

inductive GOp where
  | fund (frm to : Hash) (amt : Int)        -- GAS.transfer(frm, to, amt, nil) from the entry script
  | neo (frm to : Hash) (amt : Int)         -- NEO.transfer(frm, to, amt, nil) from the entry script
  | call (to : Hash)                        -- `onNEP17Payment` invoked by the entry script or the probe
  | desig (accs : List Hash)                -- RoleManagement.designateAsRole(NeoFSAlphabet, keys)
  | emit (inst : Hash)
  | skip
  deriving Repr

def Gov.isContract (w : Gov) (h : Hash) : Bool :=
  w.insts.any (fun i => i.self == h) || h == w.proxy || h == w.proc || h == w.probe

/-- the payment callback of the contract at `h` -/
def Gov.onPayment (w : Gov) (h : Hash) (c : Caller) : Bool :=
  if w.insts.any (fun i => i.self == h) then alphabetOnPayment c
  else if h == w.proxy then proxyOnPayment c
  else if h == w.proc then processingOnPayment c
  else true

/-- native NEP-17 `transfer` from the entry script; a contract recipient's callback may ABORT (`none`) -/
def nativeTransfer (w : Gov) (tok : Caller) (g : Ledger) (auth : Bool) (frm to : Hash) (amt : Int) :
    Option (Bool × Ledger) :=
  if frm.length ≠ 20 ∨ to.length ≠ 20 then none
  else if amt < 0 then some (false, g)
  else if !auth then some (false, g)
  else if g frm < amt then some (false, g)
  else if w.isContract to && !w.onPayment to tok then none
  else some (true, g.move frm to amt)

structure GHalt where
  st : GState
  ret : Option Bool
  evs : List Event

def gstep (w : Gov) (s : GState) (wit : List Hash) : GOp → Option GHalt
  | .skip => some ⟨s, none, []⟩
  | .fund frm to amt =>
    match nativeTransfer w .gas s.gas (wit.contains frm) frm to amt with
    | none => none
    | some (false, _) => some ⟨s, some false, []⟩
    | some (true, g) => some ⟨{ s with gas := g }, some true, [.gasT frm to amt]⟩
  | .neo frm to amt =>
    match nativeTransfer w .neo s.neo (wit.contains frm) frm to amt with
    | none => none
    | some (false, _) => some ⟨s, some false, []⟩
    | some (true, g) => some ⟨{ s with neo := g }, some true, [.neoT frm to amt]⟩
  | .call to => if w.onPayment to .other then some ⟨s, none, []⟩ else none
  | .desig accs =>
    if !wit.contains w.cmt then none
    else if accs.isEmpty then none
    else some ⟨{ s with ir := accs }, none, []⟩
  | .emit inst =>
    match w.insts.find? (fun i => i.self == inst) with
    | none => none
    | some i =>
      match emit i w.committee wit s.ir s.gas with
      | none => none
      | some (g, evs) => some ⟨{ s with gas := g }, none, evs⟩

def ginvoke (w : Gov) (s : GState) (wit : List Hash) (op : GOp) : GState × Option (Option Bool × List Event) :=
  match gstep w s wit op with
  | none => (s, none)
  | some h => (h.st, some (h.ret, h.evs))

end NeoFS.Alphabet
