import NeoFS.Base.Bytes
import NeoFS.Generated.Consts
/-! # NNS string validators and their use by the entry points (contracts/nns/contract.go), hand-written model.

Scope (property C18): `checkFragment`, `isAlNum`, `safeSplitAndCheck`, `splitAndCheck`, `checkIPv4`,
`checkIPv6`, `checkRecord` (dispatch on the record type), and the way `isAvailable`, `register`,
`registerTLD`, `addRecord`, `setRecord`, `getRecords` use them, over a reduced NNS state (registered roots,
registered names with their owner, records per (token, name, type)).  Strings are byte lists (`Bytes`,
bytes as `Nat`).  `Option` results: `none` = FAULT.

Runtime facts used (DESIGN.md section 4): `std.StringSplit` = Go `strings.Split`; `std.Atoi(s,10)` =
`big.Int.SetString(s,10)` (optional sign, one or more digits, else FAULT); `std.Atoi(s,16)` = left-pad to even
length, hex-decode else FAULT, big-endian two's complement (sign-extended when padded and bit 3 of the first
nibble is set); an out-of-range slice index FAULTs; a FAULT rolls the whole invocation back.

Not modelled (outside C18, owned by the NNS state-machine properties C10–C12): expiration and time (the
correspondence run registers everything for ten years and never moves the clock that far), admins,
transfers, renewals, SOA records, prices/GAS, `deleteRecords`, NEP-11 accounting. -/
namespace NeoFS.NNSSyntax
open NeoFS

/-! ## runtime: `std.StringSplit`, `std.Atoi` -/

/-- Go `strings.Split(s, string(sep))` for a one-byte separator; never returns `[]`. -/
def split (sep : Nat) : Bytes → List Bytes
  | [] => [[]]
  | c :: r =>
    if c = sep then [] :: split sep r
    else match split sep r with
      | [] => [[c]]
      | f :: fs => (c :: f) :: fs

/-- inverse of `split`: `strings.Join` -/
def join (sep : Nat) : List Bytes → Bytes
  | [] => []
  | [x] => x
  | x :: y :: r => x ++ sep :: join sep (y :: r)

def isDigit (c : Nat) : Bool := decide (48 ≤ c) && decide (c ≤ 57)

def valAux (acc : Nat) : Bytes → Nat
  | [] => acc
  | c :: cs => valAux (acc * 10 + (c - 48)) cs
/-- value of a decimal digit string -/
def val (s : Bytes) : Nat := valAux 0 s

def digits (r : Bytes) : Bool := !r.isEmpty && r.all isDigit

/-- `std.Atoi(s, 10)` = `big.Int.SetString(s, 10)`: optional sign, then one or more digits; `none` = FAULT -/
def atoi10 (s : Bytes) : Option Int :=
  match s with
  | [] => none
  | c :: r =>
    if c = 43 then (if digits r then some (((val r : Nat) : Int)) else none)
    else if c = 45 then (if digits r then some (- ((val r : Nat) : Int)) else none)
    else if digits (c :: r) then some (((val (c :: r) : Nat) : Int)) else none

/-- one hexadecimal digit, either case (`encoding/hex`) -/
def hexDigit (c : Nat) : Option Nat :=
  if 48 ≤ c ∧ c ≤ 57 then some (c - 48)
  else if 97 ≤ c ∧ c ≤ 102 then some (c - 87)
  else if 65 ≤ c ∧ c ≤ 70 then some (c - 55)
  else none

/-- `hex.DecodeString` of an even-length string -/
def hexBytes : Bytes → Option (List Nat)
  | [] => some []
  | [_] => none
  | a :: b :: r =>
    match hexDigit a, hexDigit b, hexBytes r with
    | some x, some y, some t => some ((x * 16 + y) :: t)
    | _, _, _ => none

def beVal (acc : Nat) : List Nat → Nat
  | [] => acc
  | b :: r => beVal (acc * 256 + b) r

/-- `std.Atoi(s, 16)`: pad to even length with `0`, hex-decode (FAULT on a non-hex character), set the upper
nibble of the first byte when padded and bit 3 is set, read as big-endian two's complement. -/
def atoi16 (s : Bytes) : Option Int :=
  let changed := decide (s.length % 2 = 1)
  let s' := if changed then 48 :: s else s
  match hexBytes s' with
  | none => none
  | some [] => some 0
  | some (b0 :: bs) =>
    let b0' := if changed ∧ (b0 / 8) % 2 = 1 then b0 % 16 + 240 else b0
    let v : Nat := beVal 0 (b0' :: bs)
    if 128 ≤ b0' then some ((v : Int) - ((256 ^ (bs.length + 1) : Nat) : Int)) else some (v : Int)

/-! ## `isAlNum`, `checkFragment`, `safeSplitAndCheck` -/

def maxRootLength : Nat := Generated.nns_maxRootLength.toNat
def maxFragmentLength : Nat := Generated.nns_maxDomainNameFragmentLength.toNat
def minNameLength : Nat := Generated.nns_minDomainNameLength.toNat
def maxNameLength : Nat := Generated.nns_maxDomainNameLength.toNat
def maxTXTLength : Nat := Generated.nns_maxTXTRecordLength.toNat
def maxRecordID : Nat := Generated.nns_maxRecordID.toNat
def typA : Nat := Generated.nns_recordtype_A.toNat
def typCNAME : Nat := Generated.nns_recordtype_CNAME.toNat
def typTXT : Nat := Generated.nns_recordtype_TXT.toNat
def typAAAA : Nat := Generated.nns_recordtype_AAAA.toNat

/-- `isAlNum`: lower-case letter or digit -/
def isAlNum (c : Nat) : Bool := (decide (97 ≤ c) && decide (c ≤ 122)) || (decide (48 ≤ c) && decide (c ≤ 57))

def isLower (c : Nat) : Bool := decide (97 ≤ c) && decide (c ≤ 122)

/-- the characters `v[1] … v[len-2]` -/
def middle (v : Bytes) : Bytes := (v.drop 1).dropLast

/-- `checkFragment(v, isRoot)` -/
def checkFragment (v : Bytes) (isRoot : Bool) : Bool :=
  let maxLength := if isRoot then maxRootLength else maxFragmentLength
  match v with
  | [] => false
  | c :: _ =>
    if maxLength < v.length then false
    else if isRoot && !isLower c then false
    else if !isRoot && !isAlNum c then false
    else if !(middle v).all (fun x => decide (x = 45) || isAlNum x) then false
    else isAlNum (v.getLastD 0)

/-- the loop of `safeSplitAndCheck`: every fragment is checked, the last one as a root -/
def checkFragments : List Bytes → Bool
  | [] => true
  | [f] => checkFragment f true
  | f :: g :: r => checkFragment f false && checkFragments (g :: r)

/-- `safeSplitAndCheck(name)`: `some fragments` when the message is empty, `none` otherwise -/
def safeSplitAndCheck (name : Bytes) : Option (List Bytes) :=
  let l := name.length
  if l < minNameLength ∨ maxNameLength < l then none
  else
    let frs := split 46 name
    if checkFragments frs then some frs else none

/-! ## `checkIPv4` -/

/-- one iteration of the loop of `checkIPv4`: `none` = FAULT, `some none` = `return false`,
`some (some n)` = `numbers[i] = n` -/
def v4frag (f : Bytes) : Option (Option Int) :=
  match f with
  | [] => some none
  | c0 :: _ =>
    if c0 < 48 ∨ 57 < c0 then some none
    else
      match atoi10 f with
      | none => none
      | some n =>
        if n < 0 ∨ 255 < n then none            -- panic("not a byte")
        else if 0 < n ∧ c0 = 48 then some none
        else if n = 0 ∧ 1 < f.length then some none
        else some (some n)

def v4loop : List Bytes → Option (Option (List Int))
  | [] => some (some [])
  | f :: r =>
    match v4frag f with
    | none => none
    | some none => some none
    | some (some n) =>
      match v4loop r with
      | none => none
      | some none => some none
      | some (some ns) => some (some (n :: ns))

def getAt : List Int → Nat → Int
  | [], _ => 0
  | x :: _, 0 => x
  | _ :: r, n + 1 => getAt r n

def setAt : List Int → Nat → Int → List Int
  | [], _, _ => []
  | _ :: r, 0, v => v :: r
  | x :: r, n + 1, v => x :: setAt r n v

/-- the exclusion list at the end of `checkIPv4` -/
def v4excluded (n0 n1 n3 : Int) : Bool :=
  decide (n0 = 0) || decide (n0 = 10) || decide (n0 = 127) || decide (224 ≤ n0) ||
  (decide (n0 = 169) && decide (n1 = 254)) ||
  (decide (n0 = 172) && decide (16 ≤ n1) && decide (n1 ≤ 31)) ||
  (decide (n0 = 192) && decide (n1 = 168)) ||
  decide (n3 = 0) || decide (n3 = 255)

/-- `checkIPv4(data)`; `none` = FAULT -/
def checkIPv4 (data : Bytes) : Option Bool :=
  let l := data.length
  if l < 7 ∨ 15 < l then some false
  else
    let frs := split 46 data
    if frs.length ≠ 4 then some false
    else
      match v4loop frs with
      | none => none
      | some none => some false
      | some (some ns) => some (!v4excluded (getAt ns 0) (getAt ns 1) (getAt ns 3))

/-! ## `checkIPv6` -/

structure V6St where
  hasEmpty : Bool
  nums : List Int
  deriving DecidableEq, Repr

/-- `for j := i; j < endIndex; j++ { nums[j] = 0 }`, `n = endIndex - i` -/
def zeroFill (nums : List Int) (i : Nat) : Nat → List Int
  | 0 => nums
  | n + 1 => zeroFill (setAt nums i 0) (i + 1) n

/-- one iteration of the loop of `checkIPv6` at index `i` of `l` fragments `frs`:
`none` = FAULT, `some none` = `return false` -/
def v6step (frs : List Bytes) (l i : Nat) (f : Bytes) (st : V6St) : Option (Option V6St) :=
  if f.length = 0 then
    if i = 0 then
      if (frs.getD 1 []).length ≠ 0 then some none
      else some (some { st with nums := setAt st.nums i 0 })
    else if i = l - 1 then
      if (frs.getD (i - 1) []).length ≠ 0 then some none
      else some (some { st with nums := setAt st.nums 7 0 })
    else if st.hasEmpty then some none
    else some (some ⟨true, zeroFill st.nums i (9 - l + i - i)⟩)
  else
    if 4 < f.length then some none
    else
      match atoi16 (48 :: f) with
      | none => none
      | some n =>
        if 65535 < n then none                   -- panic("fragment overflows uint16")
        else
          let idx := if st.hasEmpty then i + 8 - l else i
          if 8 ≤ idx then none                   -- index out of range
          else some (some { st with nums := setAt st.nums idx n })

def v6loop (frs : List Bytes) (l : Nat) : Nat → List Bytes → V6St → Option (Option V6St)
  | _, [], st => some (some st)
  | i, f :: r, st =>
    match v6step frs l i f st with
    | none => none
    | some none => some none
    | some (some st') => v6loop frs l (i + 1) r st'

/-- the global-unicast test at the end of `checkIPv6` -/
def v6range (nums : List Int) : Bool :=
  let f0 := getAt nums 0
  if f0 < 8192 ∨ f0 = 8194 ∨ f0 = 16382 ∨ 16383 < f0 then false
  else if f0 = 8193 then
    let f1 := getAt nums 1
    if f1 < 512 ∨ f1 = 3512 then false else true
  else true

/-- `checkIPv6(data)`; `none` = FAULT -/
def checkIPv6 (data : Bytes) : Option Bool :=
  let l0 := data.length
  if l0 < 2 ∨ 39 < l0 then some false
  else
    let frs := split 58 data
    let l := frs.length
    if l < 3 ∨ 9 < l then some false
    else if l = 9 ∧ ¬((frs.getD 0 []).length = 0 ∧ (frs.getD 1 []).length = 0) ∧
        ¬((frs.getD 7 []).length = 0 ∧ (frs.getD 8 []).length = 0) then some false
    else
      match v6loop frs l 0 frs ⟨false, List.replicate 8 0⟩ with
      | none => none
      | some none => some false
      | some (some st) =>
        if l < 8 ∧ st.hasEmpty = false then some false
        else some (v6range st.nums)

/-! ## record data dispatch of `checkRecord` -/

/-- the `switch typ` of `checkRecord` followed by `if !ok { panic }`: `true` = the data passes,
`false` = FAULT (invalid data, a FAULT inside a scanner, or an unsupported type) -/
def dataOK (typ : Nat) (data : Bytes) : Bool :=
  if typ = typA then checkIPv4 data = some true
  else if typ = typCNAME then (safeSplitAndCheck data).isSome
  else if typ = typTXT then decide (data.length ≤ maxTXTLength)
  else if typ = typAAAA then checkIPv6 data = some true
  else false

/-! ## reduced NNS state and the entry points -/

structure RecKey where
  token : Bytes
  name : Bytes
  typ : Nat
  deriving DecidableEq, Repr

structure State where
  /-- registered roots (prefixRoot) -/
  roots : List Bytes
  /-- registered names with their owner id; `0` = owned by the committee (TLD) (prefixName) -/
  doms : List (Bytes × Nat)
  /-- records per (token, name, type) in id order (prefixRecord); an entry never holds an empty list -/
  recs : List (RecKey × List Bytes)
  deriving DecidableEq, Repr

structure Env where
  /-- ids of the user accounts whose witness the transaction carries -/
  signers : List Nat
  /-- the committee multisignature witness is present -/
  committee : Bool

def State.registered (s : State) (n : Bytes) : Bool := s.doms.any (fun d => d.1 == n)
def State.ownerOf (s : State) (n : Bytes) : Nat := ((s.doms.find? (fun d => d.1 == n)).map (·.2)).getD 0
def State.recsOf (s : State) (k : RecKey) : List Bytes := ((s.recs.find? (fun r => r.1 == k)).map (·.2)).getD []
def State.setRecs (s : State) (k : RecKey) (v : List Bytes) : State :=
  { s with recs := (k, v) :: s.recs.filter (fun r => r.1 != k) }

/-- `parentExpired(ctx, first, fragments)` without time: some name `fragments[i..]`, `first ≤ i`, is not registered.
`n` counts the candidates still to look at: `i = first … last`. -/
def parentMissing (s : State) (frs : List Bytes) (first : Nat) : Bool :=
  (List.range (frs.length - first)).any (fun k => !s.registered (join 46 (frs.drop (first + k))))

/-- `NameState.checkAdmin` (no admins in the reduced state) -/
def checkAdmin (s : State) (env : Env) (n : Bytes) : Bool :=
  let o := s.ownerOf n
  if o = 0 then env.committee else env.signers.contains o

/-- `tokenIDFromName`: the longest registered suffix of at least two labels, else the name itself -/
def tokenIDFromName (s : State) (name : Bytes) (frs : List Bytes) : Bytes :=
  match (List.range (frs.length - 1)).find? (fun i => s.registered (join 46 (frs.drop i))) with
  | some i => join 46 (frs.drop i)
  | none => name

/-- `r.Name` ends with `"." + name` (the test of `getParentConflictingRecord`) -/
def endsWithDot (rn name : Bytes) : Bool :=
  decide (name.length + 1 ≤ rn.length) && (rn.drop (rn.length - (name.length + 1)) == 46 :: name)

/-- `len(getParentConflictingRecord(ctx, name, fragments)) != 0` -/
def conflict (s : State) (name : Bytes) (frs : List Bytes) : Bool :=
  let parent := name.drop ((frs.headD []).length + 1)
  s.recs.any (fun r => r.1.token == parent && !r.2.isEmpty && endsWithDot r.1.name name)

/-- `getFragmentedNameState(ctx, tokenID, fragments)` succeeds -/
def nameStateOK (s : State) (token : Bytes) (frs : List Bytes) : Bool :=
  s.registered token && !parentMissing s frs 1

inductive Ret where
  | null
  | bool (b : Bool)
  | list (l : List Bytes)
  deriving DecidableEq, Repr

inductive Op where
  | avail (name : Bytes)
  | tld (name : Bytes)
  | reg (name : Bytes) (owner : Nat)
  | add (name : Bytes) (typ : Nat) (data : Bytes)
  | set (name : Bytes) (typ : Nat) (id : Nat) (data : Bytes)
  | get (name : Bytes) (typ : Nat)
  deriving DecidableEq, Repr

/-- `IsAvailable` -/
def isAvailable (s : State) (name : Bytes) : Option Bool :=
  match safeSplitAndCheck name with
  | none => none
  | some frs =>
    let l := frs.length
    if !s.roots.contains (frs.getLastD []) then
      (if l ≠ 1 then none else some true)
    else if !parentMissing s frs 0 then some false
    else if l = 1 then none                      -- name[len(fragments[0])+1:] out of range
    else some (!conflict s name frs)

/-- `RegisterTLD` / `saveCommitteeDomain` -/
def registerTLD (s : State) (env : Env) (name : Bytes) : Option State :=
  if !env.committee then none
  else
    match safeSplitAndCheck name with
    | none => none
    | some frs =>
      if frs.length ≠ 1 then none
      else if s.roots.contains name && !parentMissing s frs 0 then none
      else some { s with roots := name :: s.roots.filter (· != name),
                         doms := (name, 0) :: s.doms.filter (fun d => d.1 != name) }

/-- `Register` (the owner argument is always a well-formed account of user `owner ≥ 1`) -/
def register (s : State) (env : Env) (name : Bytes) (owner : Nat) : Option (State × Bool) :=
  match safeSplitAndCheck name with
  | none => none
  | some frs =>
    let l := frs.length
    if l = 1 then none
    else if !s.roots.contains (frs.getLastD []) then none
    else if parentMissing s frs 1 then none
    else
      let parent := name.drop ((frs.headD []).length + 1)
      if 2 < l && !checkAdmin s env parent then none
      else if conflict s name frs then none
      else if !env.signers.contains owner then none
      else if s.registered name then some (s, false)
      else some ({ s with doms := (name, owner) :: s.doms }, true)

/-- `checkRecord`: `some tokenID` or FAULT -/
def checkRecord (s : State) (env : Env) (name : Bytes) (typ : Nat) (data : Bytes) : Option Bytes :=
  match safeSplitAndCheck name with               -- tokenIDFromName → splitAndCheck
  | none => none
  | some frs =>
    let token := tokenIDFromName s name frs
    if !dataOK typ data then none
    else
      let tfrs := split 46 token
      if tfrs.length = 1 then none
      else if !nameStateOK s token tfrs then none
      else if !checkAdmin s env token then none
      else some token

/-- `AddRecord` -/
def addRecord (s : State) (env : Env) (name : Bytes) (typ : Nat) (data : Bytes) : Option State :=
  match checkRecord s env name typ data with
  | none => none
  | some token =>
    let k : RecKey := ⟨token, name, typ⟩
    let old := s.recsOf k
    if old.contains data then none
    else if maxRecordID < old.length then none
    else if typ = typCNAME ∧ old.length ≠ 0 then none
    else some (s.setRecs k (old ++ [data]))

def setNth : List Bytes → Nat → Bytes → List Bytes
  | [], _, _ => []
  | _ :: r, 0, v => v :: r
  | x :: r, n + 1, v => x :: setNth r n v

/-- some record with another id holds `data` -/
def dupElsewhere : List Bytes → Nat → Bytes → Bool
  | [], _, _ => false
  | _ :: r, 0, v => r.contains v
  | x :: r, n + 1, v => x == v || dupElsewhere r n v

/-- `SetRecord` -/
def setRecord (s : State) (env : Env) (name : Bytes) (typ id : Nat) (data : Bytes) : Option State :=
  match checkRecord s env name typ data with
  | none => none
  | some token =>
    let k : RecKey := ⟨token, name, typ⟩
    let old := s.recsOf k
    if old.length ≤ id then none
    else if dupElsewhere old id data then none
    else some (s.setRecs k (setNth old id data))

/-- `GetRecords` (after f022f46: `getFragmentedNameState(ctx, tokenID, nil)` checks the parent chain of the
token the records belong to, i.e. the fragments of `tokenID`, as `checkRecord` does) -/
def getRecords (s : State) (name : Bytes) (typ : Nat) : Option (List Bytes) :=
  let frs := split 46 name
  if frs.length = 1 then none
  else
    match safeSplitAndCheck name with
    | none => none
    | some cfrs =>
      let token := tokenIDFromName s name cfrs
      if !nameStateOK s token (split 46 token) then none
      else some (s.recsOf ⟨token, name, typ⟩)

/-- one invocation; `none` = FAULT -/
def step (s : State) (env : Env) : Op → Option (State × Ret)
  | .avail n => (isAvailable s n).map (fun b => (s, .bool b))
  | .tld n => (registerTLD s env n).map (fun s' => (s', .null))
  | .reg n o => (register s env n o).map (fun r => (r.1, .bool r.2))
  | .add n t d => (addRecord s env n t d).map (fun s' => (s', .null))
  | .set n t i d => (setRecord s env n t i d).map (fun s' => (s', .null))
  | .get n t => (getRecords s n t).map (fun l => (s, .list l))

/-- transaction atomicity: a FAULT leaves the state as it was -/
def invoke (s : State) (env : Env) (op : Op) : State × Option Ret :=
  match step s env op with
  | none => (s, none)
  | some (s', r) => (s', some r)

/-- a test invocation: the result of `step`, the state is never committed -/
def dryRun (s : State) (env : Env) (op : Op) : State × Option Ret := (s, (invoke s env op).2)

/-- the state right after deployment with the `neofs` TLD (`chainx.DeployNNS`) -/
def init : State := ⟨[Generated.common_ContractTLD_bytes], [(Generated.common_ContractTLD_bytes, 0)], []⟩

end NeoFS.NNSSyntax
