/-! # Storage write footprint of the contract methods — vocabulary

`NeoFS.Generated.Footprint.table` (regenerated from the Go sources by `extract footprint` on every run) lists, for every
manifest method of every contract, what the method MAY do to the world outside its own stack: `put` / `delete` of a storage
key, calls of other contracts (`call` with write or notify permission, `callro` without), notifications. A storage key is
abstracted to its FAMILY: the constant bytes it starts with, and whether it is exactly these bytes (`exact`) or is followed
by data. A key that starts with no constant is the family `⟨[], false⟩`: every key.

The checkers below are what the property files evaluate (by the kernel) over the whole regenerated table; `Fam.keys` gives
them their meaning and the three lemmas at the end connect the Boolean checkers to it. Core Lean only. -/
namespace NeoFS.Footprint

structure Entry where
  contract : String
  method : String
  /-- `put`, `delete`, `call`, `callro`, `notify` -/
  kind : String
  /-- put/delete: hex of the leading constant bytes, `*` appended when data follows, `?site` when there is no leading
  constant; call/callro: `target.method`; notify: event name. For the reader; theorems use `bytes`/`exact`. -/
  family : String
  /-- call/callro: the called method; notify: the event; empty for put/delete -/
  name : String
  bytes : List Nat
  exact : Bool
  deriving Repr, DecidableEq

/-- a set of storage keys: exactly `bytes`, or everything that starts with `bytes` -/
structure Fam where
  bytes : List Nat
  exact : Bool
  deriving Repr, DecidableEq

/-- the key is exactly these bytes -/
def exactly (b : List Nat) : Fam := ⟨b, true⟩
/-- every key that starts with these bytes -/
def startingWith (b : List Nat) : Fam := ⟨b, false⟩
/-- every key -/
def anyKey : Fam := ⟨[], false⟩

def Entry.fam (e : Entry) : Fam := ⟨e.bytes, e.exact⟩
def Entry.isWrite (e : Entry) : Bool := e.kind == "put" || e.kind == "delete"
/-- everything that changes state visible to others: storage writes, notifications, calls that may write -/
def Entry.isEffect (e : Entry) : Bool := e.isWrite || e.kind == "notify" || e.kind == "call"

def isPrefix : List Nat → List Nat → Bool
  | [], _ => true
  | _ :: _, [] => false
  | a :: as, b :: bs => a == b && isPrefix as bs

/-- the keys of the family -/
def Fam.keys (f : Fam) (k : List Nat) : Prop := if f.exact then k = f.bytes else ∃ d, k = f.bytes ++ d

/-- some key may belong to both families -/
def Fam.overlaps (a b : Fam) : Bool :=
  match a.exact, b.exact with
  | true, true => a.bytes == b.bytes
  | true, false => isPrefix b.bytes a.bytes
  | false, true => isPrefix a.bytes b.bytes
  | false, false => isPrefix a.bytes b.bytes || isPrefix b.bytes a.bytes

/-- every key of `a` is a key of `b` -/
def Fam.within (a b : Fam) : Bool :=
  if b.exact then a.exact && a.bytes == b.bytes else isPrefix b.bytes a.bytes

/-- The regenerated table, grouped: one list of rows per contract (`Generated.Footprint.contracts`); the flat `table` is
the concatenation. Every checker looks only at the rows of the contract it is about (`rows`), which keeps kernel evaluation
small; `Grouped` (checked once, `Props/C03.lean`) says that the groups are what their label says, so looking at one group is
looking at all rows of that contract in the whole table (`rows_complete`). -/
abbrev Table := List (String × List Entry)

def flat (t : Table) : List Entry := t.flatMap (·.2)

/-- the rows of contract `c` -/
def rows (t : Table) (c : String) : List Entry :=
  match t.find? (·.1 == c) with
  | some p => p.2
  | none => []

/-- labels are distinct and every row carries the label of its group -/
def Grouped : Table → Bool
  | [] => true
  | p :: ps => p.2.all (·.contract == p.1) && !(ps.any (·.1 == p.1)) && Grouped ps

/-- the table with one more row / without the rows satisfying `p` (for the refutation examples in the property files) -/
def withRow (t : Table) (e : Entry) : Table := t.map (fun p => if p.1 == e.contract then (p.1, e :: p.2) else p)
def withoutRows (t : Table) (p : Entry → Bool) : Table := t.map (fun g => (g.1, g.2.filter (fun e => !p e)))

/-- the rows of one method -/
def writes (t : Table) (c m : String) : List Entry := (rows t c).filter (fun e => e.method == m)

def dedup : List String → List String
  | [] => []
  | x :: xs => if xs.contains x then dedup xs else x :: dedup xs

/-- the methods of contract `c` that may perform operation `kind` on some key of family `f` -/
def writers (t : Table) (c kind : String) (f : Fam) : List String :=
  dedup (((rows t c).filter (fun e => e.kind == kind && e.fam.overlaps f)).map (·.method))

def methodsOf (ms : List (String × List String)) (c : String) : List String :=
  match ms.find? (·.1 == c) with
  | some p => p.2
  | none => []

/-- `onlyBy t c kind f ms`: in contract `c`, every row of kind `kind` whose key family may contain a key of `f` belongs to
a method of `ms` — nobody else can `kind` a key of `f`. Rows with an undetermined key overlap everything. -/
def onlyBy (t : Table) (c kind : String) (f : Fam) (ms : List String) : Bool :=
  (rows t c).all (fun e => !(e.kind == kind && e.fam.overlaps f) || ms.contains e.method)

/-- `onlyBy` with the rows whose family satisfies `apart` left out: used where two families share their first bytes at the level
of this abstraction but are kept apart by something it does not see (the key length) -/
def onlyByApartFrom (t : Table) (c kind : String) (f : Fam) (apart : Fam → Bool) (ms : List String) : Bool :=
  (rows t c).all (fun e => !(e.kind == kind && e.fam.overlaps f && !apart e.fam) || ms.contains e.method)

/-- some row says that method `m` of `c` may `kind` a key of `f` (non-vacuity of `onlyBy`; determined keys only) -/
def does (t : Table) (c m kind : String) (f : Fam) : Bool :=
  (rows t c).any (fun e => e.method == m && e.kind == kind && e.fam.within f)

/-- `writesWithin t c m fs`: every storage write (put or delete) of method `m` lies inside one of the families `fs` -/
def writesWithin (t : Table) (c m : String) (fs : List Fam) : Bool :=
  (rows t c).all (fun e => !(e.method == m && e.isWrite) || fs.any (fun f => e.fam.within f))

/-- method `m` of `c` has no effect row at all -/
def noEffect (t : Table) (c m : String) : Bool :=
  (rows t c).all (fun e => !(e.method == m && e.isEffect))

/-- method `m` of `c` performs no storage write that could concern a key of one of the families -/
def touchesNone (t : Table) (c m : String) (fs : List Fam) : Bool :=
  (rows t c).all (fun e => !(e.method == m && e.isWrite) || fs.all (fun f => !e.fam.overlaps f))

/-- whatever one of the methods `srcs` may put, method `m` may delete: every put row of `srcs` lies inside the family of some
delete row of `m` -/
def putsCoveredBy (t : Table) (c : String) (srcs : List String) (m : String) : Bool :=
  (rows t c).all (fun e => !(e.kind == "put" && srcs.contains e.method) ||
    (rows t c).any (fun d => d.kind == "delete" && d.method == m && e.fam.within d.fam))

/-- rows of kind `kind` (call / callro / notify) named `name` occur only in the methods `ms`; a row whose name is not a
constant (`?`) counts as any name -/
def namedOnlyBy (t : Table) (c kind name : String) (ms : List String) : Bool :=
  (rows t c).all (fun e => !(e.kind == kind && (e.name == name || e.name == "?")) || ms.contains e.method)

def named (t : Table) (c m kind name : String) : Bool :=
  (rows t c).any (fun e => e.method == m && e.kind == kind && e.name == name)

/-- each of the families `among` lies inside the family of some delete row of method `m` -/
def deletesAllOf (t : Table) (c m : String) (among : List Fam) : Bool :=
  among.all (fun f => (rows t c).any (fun e => e.method == m && e.kind == "delete" && (Fam.within f e.fam)))

/-! ## Meaning of the checkers -/

theorem isPrefix_iff (p k : List Nat) : isPrefix p k = true ↔ ∃ d, k = p ++ d := by
  induction p generalizing k with
  | nil => simp [isPrefix]
  | cons a as ih =>
    cases k with
    | nil => simp [isPrefix]
    | cons b bs =>
      simp only [isPrefix, Bool.and_eq_true, beq_iff_eq, ih, List.cons_append, List.cons.injEq]
      constructor
      · rintro ⟨h, d, hd⟩; exact ⟨d, h.symm, hd⟩
      · rintro ⟨d, h, hd⟩; exact ⟨h.symm, d, hd⟩

/-- families that do not `overlap` have no key in common -/
theorem overlaps_sound (a b : Fam) (k : List Nat) (ha : a.keys k) (hb : b.keys k) : a.overlaps b = true := by
  obtain ⟨ab, ae⟩ := a
  obtain ⟨bb, be⟩ := b
  cases ae <;> cases be <;> simp only [Fam.keys, Fam.overlaps, if_true, if_false, Bool.false_eq_true] at *
  · obtain ⟨d, hd⟩ := ha
    obtain ⟨d', hd'⟩ := hb
    rw [Bool.or_eq_true, isPrefix_iff, isPrefix_iff]
    subst hd
    -- ab ++ d = bb ++ d': one of the two is a prefix of the other
    rcases List.append_eq_append_iff.mp hd' with ⟨m, h1, _⟩ | ⟨m, h1, _⟩
    · exact Or.inl ⟨m, h1⟩
    · exact Or.inr ⟨m, h1⟩
  · obtain ⟨d, hd⟩ := ha
    subst hb
    exact (isPrefix_iff _ _).mpr ⟨d, hd⟩
  · obtain ⟨d, hd⟩ := hb
    subst ha
    exact (isPrefix_iff _ _).mpr ⟨d, hd⟩
  · subst ha; subst hb; simp

/-- `within a b`: every key of `a` is a key of `b` -/
theorem within_sound (a b : Fam) (h : a.within b = true) (k : List Nat) (ha : a.keys k) : b.keys k := by
  obtain ⟨ab, ae⟩ := a
  obtain ⟨bb, be⟩ := b
  cases be <;> simp only [Fam.within, Fam.keys, if_true, if_false, Bool.false_eq_true, Bool.and_eq_true, beq_iff_eq] at *
  · obtain ⟨d, hd⟩ := (isPrefix_iff _ _).mp h
    cases ae <;> simp only [if_true, if_false, Bool.false_eq_true] at ha
    · obtain ⟨d', hd'⟩ := ha
      exact ⟨d ++ d', by rw [hd', hd, List.append_assoc]⟩
    · exact ⟨d, by rw [ha, hd]⟩
  · obtain ⟨he, hb⟩ := h
    subst he; subst hb
    simpa using ha

/-- looking at one group is looking at the whole table: in a grouped table every row of the flat table that carries the label
`c` is a row of `rows t c` -/
theorem rows_complete : ∀ (t : Table), Grouped t = true → ∀ e ∈ flat t, ∀ c, e.contract = c → e ∈ rows t c := by
  intro t
  induction t with
  | nil => intro _ e he; simp [flat] at he
  | cons p ps ih =>
    intro hg e he c hc
    simp only [Grouped, Bool.and_eq_true, Bool.not_eq_true', List.all_eq_true, beq_iff_eq] at hg
    obtain ⟨⟨hlab, hnot⟩, hrest⟩ := hg
    simp only [flat, List.flatMap_cons, List.mem_append] at he
    by_cases hpc : p.1 = c
    · have hrows : rows (p :: ps) c = p.2 := by simp [rows, List.find?, hpc]
      rw [hrows]
      rcases he with he | he
      · exact he
      · exfalso
        have hin := ih hrest e he c hc
        unfold rows at hin
        cases hf : ps.find? (·.1 == c) with
        | none => simp [hf] at hin
        | some q =>
          have hq := List.find?_some hf
          have hmem := List.mem_of_find?_eq_some hf
          have hany : ps.any (·.1 == p.1) = true := List.any_eq_true.mpr ⟨q, hmem, by simpa [hpc] using hq⟩
          rw [hany] at hnot
          exact Bool.noConfusion hnot
    · have hrows : rows (p :: ps) c = rows ps c := by
        have : (p.1 == c) = false := by simpa using hpc
        simp [rows, List.find?, this]
      rw [hrows]
      rcases he with he | he
      · exact absurd ((hlab e he).symm.trans hc) hpc
      · exact ih hrest e he c hc

/-- reading of `onlyBy`: a row of another method of the contract, of that kind, cannot concern any key of the family -/
theorem onlyBy_sound {t : Table} {c kind : String} {f : Fam} {ms : List String} (hg : Grouped t = true)
    (h : onlyBy t c kind f ms = true)
    (e : Entry) (he : e ∈ flat t) (hc : e.contract = c) (hk : e.kind = kind) (k : List Nat) (hek : e.fam.keys k) (hfk : f.keys k) :
    e.method ∈ ms := by
  have h1 := List.all_eq_true.mp h e (rows_complete t hg e he c hc)
  have ho := overlaps_sound e.fam f k hek hfk
  simp only [hk, ho, beq_self_eq_true, Bool.and_self, Bool.not_true, Bool.false_or] at h1
  exact List.contains_iff_mem.mp h1

/-- reading of `writesWithin`: every key a put/delete row of the method can concern belongs to one of the listed families -/
theorem writesWithin_sound {t : Table} {c m : String} {fs : List Fam} (hg : Grouped t = true) (h : writesWithin t c m fs = true)
    (e : Entry) (he : e ∈ flat t) (hc : e.contract = c) (hm : e.method = m) (hw : e.isWrite = true) (k : List Nat) (hek : e.fam.keys k) :
    ∃ f ∈ fs, f.keys k := by
  have h1 := List.all_eq_true.mp h e (rows_complete t hg e he c hc)
  simp only [hm, hw, beq_self_eq_true, Bool.and_self, Bool.not_true, Bool.false_or] at h1
  obtain ⟨f, hf, hin⟩ := List.any_eq_true.mp h1
  exact ⟨f, hf, within_sound _ _ hin k hek⟩

end NeoFS.Footprint
