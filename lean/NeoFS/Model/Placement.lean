import NeoFS.Base.Bytes
import NeoFS.Generated.Consts
/-! # Container contract, placement roster and placement signatures (C14), hand-written model

Source: `contracts/container/contract.go` — `AddNextEpochNodes`, `counterToBytes`, `counterFromBytes`,
`validatePlacementIndex`, `CommitContainerListUpdate`, `Nodes`, `ReplicasNumbers`,
`VerifyPlacementSignatures`, `SubmitObjectPut` (+ `getFromMap`).

The model works on the byte-keyed contract storage itself, with the real key layout

* pending roster    `u ‖ cid ‖ vector ‖ BE16(counter)` ↦ public key      (`nextEpochNodesPrefix`)
* committed roster  `n ‖ cid ‖ vector ‖ BE16(counter)` ↦ public key      (`nodesPrefix`)
* REP numbers       `r ‖ cid ‖ index` ↦ integer (NeoVM encoding)          (`replicasNumberPrefix`)
* meta-on-chain     `m ‖ cid` ↦ empty                                     (`containersWithMetaPrefix`)

The store is kept in key order (the order in which `storage.Find` iterates), so `find` is a filter.
`step` returns `none` for a FAULT; `invoke` implements transaction atomicity.
ECDSA is a parameter (`Env.verify`, `Env.badKey`); the signature type `σ` is abstract: the contract
only hands signatures to `crypto.VerifyWithECDsa` and takes the length of the rows.
Tied to the code by the correspondence run of `./check C14`. -/
namespace NeoFS.Placement
open NeoFS

abbrev Store := List (Bytes × Bytes)

/-- lexicographic order on byte strings (the iteration order of `storage.Find`) -/
def blt : Bytes → Bytes → Bool
  | [], [] => false
  | [], _ :: _ => true
  | _ :: _, [] => false
  | a :: x, b :: y => if a < b then true else if a = b then blt x y else false

/-- `p` is a prefix of `k` -/
def isPre : Bytes → Bytes → Bool
  | [], _ => true
  | _ :: _, [] => false
  | a :: p, b :: k => if a = b then isPre p k else false

def get : Store → Bytes → Option Bytes
  | [], _ => none
  | (k', v) :: r, k => if k' = k then some v else get r k

/-- `storage.Put`: replace, or insert at the key's place -/
def put : Store → Bytes → Bytes → Store
  | [], k, v => [(k, v)]
  | (k', v') :: r, k, v =>
    if k = k' then (k, v) :: r
    else if blt k k' then (k, v) :: (k', v') :: r
    else (k', v') :: put r k v

/-- `storage.Delete` -/
def del (s : Store) (k : Bytes) : Store := s.filter (fun e => !(e.1 == k))

/-- `storage.Find(prefix)`: the snapshot, taken at the call, of all items whose key has the prefix, in key order -/
def find (s : Store) (p : Bytes) : List (Bytes × Bytes) := s.filter (fun e => isPre p e.1)

/-! ### constants (regenerated from the sources) -/

def pU : Nat := (Generated.container_nextEpochNodesPrefix_bytes.headD 0)
def pN : Nat := (Generated.container_nodesPrefix_bytes.headD 0)
def pR : Nat := (Generated.container_replicasNumberPrefix_bytes.headD 0)
def pM : Nat := (Generated.container_containersWithMetaPrefix_bytes.headD 0)
def maxREPs : Int := Generated.container_maxNumOfREPs
/-- `interop.Hash256Len` -/
def cidLen : Nat := 32
/-- `interop.PublicKeyCompressedLen` -/
def keyLen : Nat := 33

/-! ### glue -/

/-- `append(buffer, x)` (NEWBUFFER/SETITEM): the VM accepts −128 … 255 and stores the low byte, anything
else FAULTs. `uint8(x)` is not a truncation in the compiled code. -/
def byteOf (z : Int) : Option Nat := if -128 ≤ z ∧ z ≤ 255 then some (z % 256).toNat else none

/-- `counterToBytes`: integer → VM bytes (minimal little-endian two's complement), padded to two bytes,
first two bytes swapped -/
def counterToBytes (c : Int) : Bytes :=
  match encInt c with
  | [] => [0, 0]
  | [a] => [0, a]
  | a :: b :: r => b :: a :: r

/-- `counterFromBytes`: swap the first two bytes, read as VM integer; fewer than two bytes: FAULT -/
def counterFromBytes : Bytes → Option Int
  | a :: b :: r => some (decInt (b :: a :: r))
  | _ => none

def uKey (cid : Bytes) : Bytes := pU :: cid
def nKey (cid : Bytes) : Bytes := pN :: cid
def rKey (cid : Bytes) : Bytes := pR :: cid
def mKey (cid : Bytes) : Bytes := pM :: cid

/-! ### AddNextEpochNodes -/

/-- `validatePlacementIndex` -/
def validatePlacementIndex (s : Store) (cid : Bytes) (vec : Int) : Bool :=
  if vec = 0 then true
  else match byteOf (vec - 1) with
    | none => false                                            -- FAULT in `append`
    | some b => !(find s (uKey cid ++ [b])).isEmpty            -- `!iterator.Next(iter)` ⇒ panic

/-- the `for _, publicKey := range publicKeys` loop -/
def addLoop (pre : Bytes) : Store → Int → List Bytes → Option Store
  | s, _, [] => some s
  | s, c, k :: ks =>
    if k.length ≠ keyLen then none
    else addLoop pre (put s (pre ++ counterToBytes (c + 1)) k) (c + 1) ks

/-- counter continuation: the largest key suffix under the prefix (`Find … Backwards`, first item) -/
def lastCounter (s : Store) (pre : Bytes) : Option Int :=
  match (find s pre).getLast? with
  | none => some 0
  | some e => counterFromBytes (e.1.drop pre.length)

/-- `publicKeys = none` is the Null stack item (`range` over Null FAULTs) -/
def addNextEpochNodes (s : Store) (alphabet : Bool) (cid : Bytes) (vec : Int) (keys : Option (List Bytes)) :
    Option Store :=
  if cid.length ≠ cidLen then none
  else if vec ≥ maxREPs then none
  else if !validatePlacementIndex s cid vec then none
  else if !alphabet then none
  else match byteOf vec with
    | none => none
    | some vb =>
      let pre := uKey cid ++ [vb]
      match lastCounter s pre with
      | none => none
      | some c =>
        match keys with
        | none => none
        | some ks => addLoop pre s c ks

/-! ### CommitContainerListUpdate -/

def delAll (s : Store) (l : List (Bytes × Bytes)) : Store := l.foldl (fun st e => del st e.1) s

/-- the copy loop: `storage.Delete(newNode.key)`, `storage.Put(n ‖ key[1:], val)` -/
def moveAll (s : Store) (l : List (Bytes × Bytes)) : Store :=
  l.foldl (fun st e => put (del st e.1) (pN :: e.1.drop 1) e.2) s

/-- `for i, replica := range replicas` -/
def putReps (cid : Bytes) : Store → Int → List Int → Option Store
  | s, _, [] => some s
  | s, i, r :: rs =>
    if r > maxREPs then none
    else match byteOf i with
      | none => none
      | some b => putReps cid (put s (rKey cid ++ [b]) (encInt r)) (i + 1) rs

/-- `replicas = none` is Null (`replicas != nil` is false) -/
def commitContainerListUpdate (s : Store) (alphabet : Bool) (cid : Bytes) (replicas : Option (List Int)) :
    Option Store :=
  if cid.length ≠ cidLen then none
  else if !alphabet then none
  else
    let s1 := delAll s (find s (nKey cid))
    let s2 := moveAll s1 (find s1 (uKey cid))
    let s3 := delAll s2 (find s2 (rKey cid))
    match replicas with
    | none => some s3
    | some rs => putReps cid s3 0 rs

/-! ### read API -/

/-- `Nodes(cID, placementVector)`: the iterator's values -/
def nodes (s : Store) (cid : Bytes) (vec : Int) : Option (List Bytes) :=
  if cid.length ≠ cidLen then none
  else match byteOf vec with
    | none => none
    | some b => some ((find s (nKey cid ++ [b])).map (·.2))

/-- `ReplicasNumbers(cID)`: the iterator's values (stored integers, still as bytes) -/
def replicasNumbers (s : Store) (cid : Bytes) : Option (List Bytes) :=
  if cid.length ≠ cidLen then none
  else some ((find s (rKey cid)).map (·.2))

/-! ### VerifyPlacementSignatures -/

/-- the two faces of `crypto.VerifyWithECDsa(msg, pub, sig, Secp256r1Sha256)` -/
structure Oracle (σ : Type) where
  verify : Bytes → Bytes → σ → Bool
  /-- the bytes are not a point of the curve: the native call FAULTs -/
  badKey : Bytes → Bool

/-- `nodesLoop`: the first member that is not counted yet and whose key verifies `sig`.
`none` = FAULT, `some none` = nobody. -/
def scanNodes {σ : Type} (o : Oracle σ) (msg : Bytes) (sig : σ) (counted : List Bytes) :
    List Bytes → Option (Option Bytes)
  | [] => some none
  | pub :: rest =>
    if counted.contains pub then scanNodes o msg sig counted rest       -- `continue nodesLoop`
    else if o.badKey pub then none
    else if o.verify msg pub sig then some (some pub)                   -- `break`
    else scanNodes o msg sig counted rest

/-- `for _, sig := range sigs[i]`: `some true` = `counter == m` reached (`continue repsLoop`),
`some false` = row exhausted (`return false`). `members = none`: `Nodes(cid, uint8(i))` FAULTs. -/
def sigLoop {σ : Type} (o : Oracle σ) (msg : Bytes) (members : Option (List Bytes)) (m : Int) :
    Int → List Bytes → List σ → Option Bool
  | _, _, [] => some false
  | c, counted, sig :: rest =>
    match members with
    | none => none
    | some ms =>
      match scanNodes o msg sig counted ms with
      | none => none
      | some none => if c = m then some true else sigLoop o msg members m c counted rest
      | some (some pub) =>
        if c + 1 = m then some true else sigLoop o msg members m (c + 1) (counted ++ [pub]) rest

/-- a row of the signature matrix: `none` is Null -/
abbrev Row (σ : Type) := Option (List σ)
/-- the signature matrix: `none` is Null -/
abbrev Matrix (σ : Type) := Option (List (Row σ))

def matrixLen {σ : Type} : Matrix σ → Nat
  | none => 0
  | some l => l.length

def rowLen {σ : Type} : Row σ → Nat
  | none => 0
  | some l => l.length

/-- `repsLoop` -/
def repsLoop {σ : Type} (o : Oracle σ) (s : Store) (cid msg : Bytes) (sigs : Matrix σ) :
    Nat → List Bytes → Option Bool
  | _, [] => some true
  | i, v :: rest =>
    if matrixLen sigs = i then some false
    else match sigs with
      | none => none
      | some rows =>
        match rows[i]? with
        | none => none                                           -- PICKITEM out of range (unreachable: i < len)
        | some row =>
          let m := decInt v
          if (rowLen row : Int) < m then some false
          else match row with
            | none => none                                       -- `range` over Null
            | some sl =>
              match sigLoop o msg (nodes s cid (i : Int)) m 0 [] sl with
              | none => none
              | some false => some false
              | some true => repsLoop o s cid msg sigs (i + 1) rest

def verifyPlacementSignatures {σ : Type} (o : Oracle σ) (s : Store) (cid msg : Bytes) (sigs : Matrix σ) :
    Option Bool :=
  match replicasNumbers s cid with
  | none => none
  | some vals => repsLoop o s cid msg sigs 0 vals

/-! ### SubmitObjectPut -/

/-- the deserialized meta map as far as the method looks at it: `none` = key absent (`getFromMap` panics) -/
structure Meta where
  cid : Option Bytes
  oid : Option Bytes
  network : Option Int
  size : Option Int
  deleted : Option (List Bytes)
  locked : Option (List Bytes)
  validUntil : Option Int

structure Env (σ : Type) where
  /-- the transaction carries the witness of the Alphabet multi-signature account -/
  alphabet : Bool
  /-- `ledger.CurrentIndex()` -/
  height : Int
  /-- `runtime.GetNetwork()` -/
  magic : Int
  oracle : Oracle σ

inductive Event where
  | nodesUpdate (cid : Bytes)
  | objectPut (cid oid : Bytes)
  deriving Repr, DecidableEq

/-- `meta = none`: the bytes do not deserialize to a map. `raw` are the bytes that were signed. -/
def submitObjectPut {σ : Type} (s : Store) (env : Env σ) (mi : Option Meta) (raw : Bytes) (sigs : Matrix σ) :
    Option (List Event) :=
  match mi with
  | none => none
  | some mt =>
    match mt.cid with
    | none => none
    | some cid =>
      if cid.length ≠ cidLen then none
      else if (get s (mKey cid)).isNone then none
      else match mt.oid with
        | none => none
        | some oid =>
          if oid.length ≠ cidLen then none
          else match mt.network with
            | none => none
            | some net =>
              if net ≠ env.magic then none
              else match mt.size, mt.deleted with
                | some _, some dl =>
                  if dl.any (fun d => d.length ≠ cidLen) then none
                  else match mt.locked with
                    | none => none
                    | some ll =>
                      if ll.any (fun d => d.length ≠ cidLen) then none
                      else match mt.validUntil with
                        | none => none
                        | some vub =>
                          if vub ≤ env.height then none
                          else match verifyPlacementSignatures env.oracle s cid raw sigs with
                            | some true => some [.objectPut cid oid]
                            | _ => none
                | _, _ => none

/-! ### the invocation -/

inductive Op (σ : Type) where
  | add (cid : Bytes) (vec : Int) (keys : Option (List Bytes))
  | commit (cid : Bytes) (replicas : Option (List Int))
  | nodes (cid : Bytes) (vec : Int)
  | reps (cid : Bytes)
  | verify (cid msg : Bytes) (sigs : Matrix σ)
  | submit (mi : Option Meta) (raw : Bytes) (sigs : Matrix σ)

inductive Ret where
  | null
  | bool (b : Bool)
  | keys (l : List Bytes)
  | ints (l : List Int)
  deriving Repr, DecidableEq

abbrev Halt := Store × Ret × List Event

/-- `none` = FAULT -/
def step {σ : Type} (s : Store) (env : Env σ) : Op σ → Option Halt
  | .add cid vec keys => (addNextEpochNodes s env.alphabet cid vec keys).map (fun s' => (s', .null, []))
  | .commit cid reps =>
    (commitContainerListUpdate s env.alphabet cid reps).map (fun s' => (s', .null, [.nodesUpdate cid]))
  | .nodes cid vec => (nodes s cid vec).map (fun l => (s, .keys l, []))
  | .reps cid => (replicasNumbers s cid).map (fun l => (s, .ints (l.map decInt), []))
  | .verify cid msg sigs => (verifyPlacementSignatures env.oracle s cid msg sigs).map (fun b => (s, .bool b, []))
  | .submit mi raw sigs => (submitObjectPut s env mi raw sigs).map (fun ev => (s, .null, ev))

/-- transaction atomicity: a FAULT leaves the storage as it was -/
def invoke {σ : Type} (s : Store) (env : Env σ) (op : Op σ) : Store × Option (Ret × List Event) :=
  match step s env op with
  | none => (s, none)
  | some (s', r, ev) => (s', some (r, ev))

def run {σ : Type} (s : Store) : List (Env σ × Op σ) → Store
  | [] => s
  | (env, op) :: rest => run (invoke s env op).1 rest

/-- a fresh contract as far as this model is concerned: the meta-on-chain markers of the containers
created during set-up, in key order -/
def initWith (metaCids : List Bytes) : Store := metaCids.foldl (fun s c => put s (mKey c) []) []

def init : Store := []

end NeoFS.Placement
