/-! # Witness-inertness IR (property C03)

Every exported contract method is translated (by `/verif/extract`, from the Go sources, on every run) into a
term of `Stmt`: witness checks are kept, every storage write / notification / token transfer / mutating call
is an `effect`, every data-dependent branch is a `choice`, every loop a `loop`. The concrete semantics `Exec`
lets data conditions and loop counts be arbitrary, so it over-approximates every real execution for every
argument and every storage content. `outs` is a finite abstract evaluator; `sound` shows that every concrete
outcome is one `outs` lists; `inertB` is the decision procedure run (by `decide`) on the regenerated table. -/
namespace NeoFS.Access

inductive Stmt where
  | skip | effect | fault
  | ret | retT | retF          -- return (no / unknown result), return true, return false
  | brk                        -- `break` / `continue`: the current loop iteration is over
  | guard (w : Nat)            -- FAULT unless witness atom `w` holds
  | seq (a b : Stmt)
  | ifW (w : Nat) (a b : Stmt) -- branch on a witness atom
  | choice (a b : Stmt)        -- branch on data
  | loop (a : Stmt)
  | try (a h : Stmt)           -- `defer func(){ if recover() != nil { h } }()` around `a`
  | scope (a : Stmt)           -- inlined call whose result is not branched on: a return ends the callee only
  | callIf (c a b : Stmt)      -- `if helper(..) { a } else { b }` with the helper body `c` inlined
  deriving Repr, DecidableEq

inductive Kind where | norm | ret | retT | retF | brk | fault
  deriving Repr, DecidableEq

/-- how the statement ended, and whether an effect has happened so far -/
abbrev Res := Kind × Bool
abbrev Val := Nat → Bool

def Kind.isRet : Kind → Bool
  | .ret | .retT | .retF => true
  | _ => false

/-- concrete runs: data conditions and loop counts are arbitrary -/
inductive Exec (v : Val) : Stmt → Bool → Res → Prop where
  | skip {e} : Exec v .skip e (.norm, e)
  | effect {e} : Exec v .effect e (.norm, true)
  | fault {e} : Exec v .fault e (.fault, e)
  | ret {e} : Exec v .ret e (.ret, e)
  | retT {e} : Exec v .retT e (.retT, e)
  | retF {e} : Exec v .retF e (.retF, e)
  | brk {e} : Exec v .brk e (.brk, e)
  | guardOk {w e} : v w = true → Exec v (.guard w) e (.norm, e)
  | guardNo {w e} : v w = false → Exec v (.guard w) e (.fault, e)
  | seqNorm {a b e e' r} : Exec v a e (.norm, e') → Exec v b e' r → Exec v (.seq a b) e r
  | seqStop {a b e k e'} : Exec v a e (k, e') → k ≠ .norm → Exec v (.seq a b) e (k, e')
  | ifT {w a b e r} : v w = true → Exec v a e r → Exec v (.ifW w a b) e r
  | ifF {w a b e r} : v w = false → Exec v b e r → Exec v (.ifW w a b) e r
  | choiceL {a b e r} : Exec v a e r → Exec v (.choice a b) e r
  | choiceR {a b e r} : Exec v b e r → Exec v (.choice a b) e r
  | loopDone {a e} : Exec v (.loop a) e (.norm, e)
  | loopStep {a e k e' r} : Exec v a e (k, e') → (k = .norm ∨ k = .brk) → Exec v (.loop a) e' r → Exec v (.loop a) e r
  | loopStop {a e k e'} : Exec v a e (k, e') → k ≠ .norm → k ≠ .brk → Exec v (.loop a) e (k, e')
  | tryOk {a h e k e'} : Exec v a e (k, e') → k ≠ .fault → Exec v (.try a h) e (k, e')
  | tryCatch {a h e e' r} : Exec v a e (.fault, e') → Exec v h e' r → Exec v (.try a h) e r
  | scopeRet {a e k e'} : Exec v a e (k, e') → k.isRet = true → Exec v (.scope a) e (.norm, e')
  | scopeOther {a e k e'} : Exec v a e (k, e') → k.isRet = false → Exec v (.scope a) e (k, e')
  | callT {c a b e e' r} : Exec v c e (.retT, e') → Exec v a e' r → Exec v (.callIf c a b) e r
  | callF {c a b e e' r} : Exec v c e (.retF, e') → Exec v b e' r → Exec v (.callIf c a b) e r
  | callUL {c a b e k e' r} : Exec v c e (k, e') → (k = .ret ∨ k = .norm ∨ k = .brk) → Exec v a e' r → Exec v (.callIf c a b) e r
  | callUR {c a b e k e' r} : Exec v c e (k, e') → (k = .ret ∨ k = .norm ∨ k = .brk) → Exec v b e' r → Exec v (.callIf c a b) e r
  | callFault {c a b e e'} : Exec v c e (.fault, e') → Exec v (.callIf c a b) e (.fault, e')

/-- insert without duplicates (keeps the result lists at most 12 long) -/
def ins (r : Res) (l : List Res) : List Res := if l.contains r then l else r :: l
def union (a b : List Res) : List Res := a.foldr ins b
def bind (l : List Res) (f : Res → List Res) : List Res := l.foldr (fun r acc => union (f r) acc) []

/-- abstract evaluator: the possible (kind, effect-flag) outcomes of `s` started with flag `e` -/
def outs (v : Val) : Stmt → Bool → List Res
  | .skip, e => [(.norm, e)]
  | .effect, _ => [(.norm, true)]
  | .fault, e => [(.fault, e)]
  | .ret, e => [(.ret, e)]
  | .retT, e => [(.retT, e)]
  | .retF, e => [(.retF, e)]
  | .brk, e => [(.brk, e)]
  | .guard w, e => if v w then [(.norm, e)] else [(.fault, e)]
  | .seq a b, e => bind (outs v a e) (fun r => if r.1 = .norm then outs v b r.2 else [r])
  | .ifW w a b, e => if v w then outs v a e else outs v b e
  | .choice a b, e => union (outs v a e) (outs v b e)
  | .loop a, e =>
      -- flags reachable at the loop head: `e`, and `true` if some iteration from `e` goes on with the flag set
      let heads : List Bool :=
        e :: (if (outs v a e).any (fun r => (r.1 == .norm || r.1 == .brk) && r.2) then [true] else [])
      heads.foldr (fun h acc => union ((.norm, h) :: (outs v a h).filter (fun r => r.1 != .norm && r.1 != .brk)) acc) []
  | .try a h, e => bind (outs v a e) (fun r => if r.1 = .fault then outs v h r.2 else [r])
  | .scope a, e => bind (outs v a e) (fun r => if r.1.isRet then [(.norm, r.2)] else [r])
  | .callIf c a b, e =>
      bind (outs v c e) (fun r =>
        if r.1 = .retT then outs v a r.2
        else if r.1 = .retF then outs v b r.2
        else if r.1 = .fault then [r]
        else union (outs v a r.2) (outs v b r.2))

/-- started without a prior effect, `s` can only end by a FAULT (rolled back) or without any effect -/
def Inert (v : Val) (s : Stmt) : Prop := ∀ r, Exec v s false r → r.1 = .fault ∨ r.2 = false

/-- decision procedure for one valuation -/
def inertB (v : Val) (s : Stmt) : Bool := (outs v s false).all (fun r => r.1 == .fault || !r.2)

/-- some run under `v` ends without FAULT after an effect (used for "the same call with the required
witnesses can take effect") -/
def canEffectB (v : Val) (s : Stmt) : Bool := (outs v s false).any (fun r => r.1 != .fault && r.2)

/-- valuation given by a bit mask over the method's atom indices -/
def maskVal (m : Nat) : Val := fun w => m.testBit w

end NeoFS.Access
