import NeoFS.Model.UpgradeStore
import NeoFS.Generated.Consts
/-! # Contract upgrade (property C16), hand-written model

What is modelled, branch by branch, FAULT paths and order of effects included:

* `common/version.go`: `CheckVersion` (`checkVersion`), `AppendVersion` (`appendVersion`);
* `common/update.go` + `common/ir.go`: `HasUpdateAccess` / `CommitteeAddress` / `Multiaddress`, the
  Alphabet-majority test of `neofs.Update` and `processing.Update`, `nns.checkCommittee` (`updateAccess`);
* `common/vote.go`: `getBallots`, `TryPurgeVotes`;
* every contract's `Update` (`update`) and the `isUpdate` branch of its `_deploy` (`migrate`):
  Balance (`switchToNotary`, `switchToAccPrefixes`), Container (un-prefixed 32/57-byte keys → `x`/`o`,
  `switchToNotary`), Netmap (node structures < 0.16, `switchToNotary`, subscribers < 0.19),
  NNS (< 0.18: TLD owners), NeoFSID, Audit, Reputation, Proxy, NeoFS, Processing, Alphabet (the
  GAS distribution of a non-notary Alphabet contract is NOT modelled: the model FAULTs there).

A contract instance is `CState` = the version constant compiled into the deployed executable + its
storage. `step` returns `none` for a FAULT, `invoke` restores the old state then (atomicity).
The new executable's constants are the regenerated `NeoFS.Generated.common_Version/PrevVersion`. -/
namespace NeoFS.Upgrade
open NeoFS NeoFS.Generated

inductive Kind where
  | balance | container | netmap | nns | neofsid | alphabet | audit | reputation | proxy | neofs | processing
  deriving Repr, DecidableEq

/-- accounts whose witness a transaction can carry. `msig m ks` is the m-of-ks multi-signature
account (ks = sorted ids of public keys); script-hash collisions are assumed away (DESIGN section 4). -/
inductive Acct where
  | msig (m : Nat) (ks : List Nat)
  | single (i : Nat)
  | user (t : Nat)
  deriving Repr, DecidableEq

structure Env where
  witnesses : List Acct
  /-- `neo.GetCommittee()` -/
  committee : List Nat
  /-- `roles.GetDesignatedByRole(roles.NeoFSAlphabet, height+1)` -/
  role : List Nat
  /-- `ledger.CurrentIndex()` -/
  height : Int
  deriving Repr

structure CState where
  /-- `common.Version` of the deployed executable -/
  ver : Int
  store : Store
  deriving Repr

/-! ### storage keys -/

def notaryKey : Bytes := balance_switchToNotary_notaryDisabledKey_bytes   -- "notary" in every contract
def voteKey : Bytes := common_voteKey_bytes                                -- "ballots"
def netmapHashKey : Bytes := alphabet_netmapKey_bytes                      -- "netmapScriptHash"
def containerHashKey : Bytes := netmap_containerContractKey_bytes          -- "containerScriptHash"
def balanceHashKey : Bytes := netmap_balanceContractKey_bytes              -- "balanceScriptHash"
def innerRingKey : Bytes := [105, 110, 110, 101, 114, 114, 105, 110, 103]  -- "innerring"
def accPrefix : Nat := balance_accPrefix.toNat                             -- 'a'
def cnrPrefix : Nat := container_containerKeyPrefix.toNat                  -- 'x'
def ownPrefix : Nat := container_ownerKeyPrefix.toNat                      -- 'o'

/-! ### common/version.go -/

/-- `CheckVersion`: `false` = panic -/
def checkVersion (frm : Int) : Bool :=
  if frm < common_PrevVersion then false
  else if frm ≥ common_Version then false
  else true

/-- `AppendVersion(data)` executed by the OLD executable whose constant is `ver`; `append` on
anything that is not an Array/Struct FAULTs -/
def appendVersion (data : Item) (ver : Int) : Option (List Item) :=
  match data with
  | .null => some [.int ver]
  | .array l => some (l ++ [.int ver])
  | .struct l => some (l ++ [.int ver])
  | _ => none

/-- `args[len(args)-1].(int)` of `_deploy` -/
def deployVersion (args : List Item) : Option Int :=
  match args.getLast? with
  | none => none
  | some x => toInt x

/-! ### witnesses -/

/-- `common.Multiaddress`: `contract.CreateMultisigAccount` FAULTs on an empty key list -/
def multiaddress (ks : List Nat) (committee : Bool) : Option Acct :=
  if ks.isEmpty then none
  else some (.msig (if committee then ks.length / 2 + 1 else ks.length * 2 / 3 + 1) ks)

def checkWitness (env : Env) (a : Acct) : Bool := env.witnesses.contains a

/-- the witness test at the head of `Update`; `none` = FAULT inside the test itself -/
def updateAccess (k : Kind) (env : Env) : Option Bool :=
  match k with
  | .neofs => (multiaddress env.role true).map (checkWitness env)
  | .processing => (multiaddress env.role true).map (checkWitness env)
  | .nns =>   -- `checkCommittee`: `l-(l-1)/2`
    if env.committee.isEmpty then none
    else some (checkWitness env (.msig (env.committee.length - (env.committee.length - 1) / 2) env.committee))
  | _ => (multiaddress env.committee true).map (checkWitness env)

/-! ### common/vote.go -/

/-- `getBallots` -/
def getBallots (s : Store) : Option (List Item) :=
  match get s voteKey with
  | none => some []
  | some b =>
    match deser b with
    | none => none
    | some it => elems it

/-- `cnd.Height` -/
def ballotHeight (c : Item) : Option Int :=
  match elems c with
  | none => none
  | some l =>
    match l[2]? with
    | none => none
    | some x => toInt x

/-- the loop of `TryPurgeVotes`: `some true` = an in-progress vote was met -/
def pendingLoop (h : Int) : List Item → Option Bool
  | [] => some false
  | c :: r =>
    match ballotHeight c with
    | none => none
    | some bh => if h - bh ≤ common_blockDiff then some true else pendingLoop h r

/-- `TryPurgeVotes`: the answer and the storage afterwards -/
def tryPurgeVotes (s : Store) (h : Int) : Option (Bool × Store) :=
  match getBallots s with
  | none => none
  | some l =>
    match pendingLoop h l with
    | none => none
    | some true => some (false, s)
    | some false => some (true, del s voteKey)

/-- `switchToNotary` of Balance / Container / Netmap / NeoFSID / Reputation / Audit: `extra` are the
legacy keys removed besides `notary`; `purge = false` for Audit, which has no ballots -/
def switchToNotary (extra : List Bytes) (purge : Bool) (s : Store) (h : Int) : Option Store :=
  match get s notaryKey with
  | none => some s                                  -- "contract is already notarized"
  | some nv =>
    match bytesToBool nv with
    | none => none
    | some flag =>
      let r : Option Store :=
        if flag && purge then
          match tryPurgeVotes s h with
          | none => none
          | some (true, s') => some s'
          | some (false, _) => none                 -- "pending vote detected"
        else some s
      match r with
      | none => none
      | some s1 => some ((notaryKey :: extra).foldl del s1)

/-! ### Balance -/

/-- loop body of `switchToAccPrefixes` -/
def accPrefixStep (st : Store) (kv : Bytes × Bytes) : Store :=
  if kv.1.length = 20 then del (put st (accPrefix :: kv.1) kv.2) kv.1 else st

def switchToAccPrefixes (s : Store) : Store := (snapshot s []).foldl accPrefixStep s

def balanceMigrate (v : Int) (h : Int) (s : Store) : Option Store :=
  match (if v < 17000 then switchToNotary [netmapHashKey, containerHashKey] true s h else some s) with
  | none => none
  | some s1 => some (if v < 20000 then switchToAccPrefixes s1 else s1)

/-! ### Container -/

/-- loop body of the rename loop of `_deploy` (it runs for every from-version) -/
def cnrStep (st : Store) (kv : Bytes × Bytes) : Store :=
  let st1 := if kv.1.length = 32 then put (del st kv.1) (cnrPrefix :: kv.1) kv.2 else st
  if kv.1.length = 57 then put (del st1 kv.1) (ownPrefix :: kv.1) kv.2 else st1

def cnrRename (s : Store) : Store := (snapshot s []).foldl cnrStep s

def containerMigrate (v : Int) (h : Int) (s : Store) : Option Store :=
  let s1 := cnrRename s
  if v < 17000 then switchToNotary [] true s1 h else some s1

/-! ### Netmap -/

/-- `Node{BLOB: nodes[j].BLOB, State: nodestate.Online}` -/
def nodeOldToNew (n : Item) : Option Item :=
  match elems n with
  | some (b :: _) => some (.struct [b, .int netmap_nodestate_Online])
  | _ => none

def mapNodes : List Item → Option (List Item)
  | [] => some []
  | n :: r =>
    match nodeOldToNew n with
    | none => none
    | some n' =>
      match mapNodes r with
      | none => none
      | some r' => some (n' :: r')

def snapshotKey (i : Nat) : Bytes := netmap_snapshotKeyPrefix_bytes ++ [i]

/-- one iteration of the snapshot loop. `newnodes := []Node{}`: an empty list is stored back as the
serialized empty array (since f42319b; `var newnodes []Node` stored the serialized Null before). -/
def migrateSnapshotAt (s : Store) (i : Nat) : Option Store :=
  match get s (snapshotKey i) with
  | none => some s
  | some data =>
    match deser data with
    | none => none
    | some it =>
      match elems it with
      | none => none
      | some nodes =>
        match mapNodes nodes with
        | none => none
        | some nn => some (put s (snapshotKey i) (ser (.array nn)))

def forSnapshots (s : Store) : List Nat → Option Store
  | [] => some s
  | i :: r =>
    match migrateSnapshotAt s i with
    | none => none
    | some s' => forSnapshots s' r

/-- `Node{BLOB: oldcan.f1.BLOB, State: oldcan.f2}` serialized -/
def candOldToNew (v : Bytes) : Option Bytes :=
  match deser v with
  | none => none
  | some it =>
    match elems it with
    | some (f1 :: f2 :: _) =>
      match elems f1 with
      | some (blob :: _) => some (ser (.struct [blob, f2]))
      | _ => none
    | _ => none

def forCandidates (s : Store) : List (Bytes × Bytes) → Option Store
  | [] => some s
  | (k, v) :: r =>
    match candOldToNew v with
    | none => none
    | some v' => forCandidates (put s k v') r

/-- `getSnapshotCount`: a missing item compares as "no iteration" (`i < Null` is false) -/
def snapshotCount (s : Store) : Option Nat :=
  match get s netmap_snapshotCountKey_bytes with
  | none => some 0
  | some b => if b.length ≤ 32 then some (decInt b).toNat else none

def netmapNodes16 (s : Store) : Option Store :=
  match snapshotCount s with
  | none => none
  | some c =>
    match forSnapshots s (List.range c) with
    | none => none
    | some s1 => forCandidates s1 (snapshot s1 netmap_candidatePrefix)

/-- one of the two subscriber moves of the `< 0.19` branch: `"e" ‖ idx ‖ hash`; `append(…, nil...)` FAULTs -/
def moveSubscriber (s : Store) (oldKey : Bytes) (idx : Nat) : Option Store :=
  match get s oldKey with
  | none => none
  | some hsh => some (del (put s (netmap_newEpochSubscribersPrefix_bytes ++ [idx] ++ hsh) []) oldKey)

def netmapMigrate (v : Int) (h : Int) (s : Store) : Option Store :=
  match (if v < 16000 then netmapNodes16 s else some s) with
  | none => none
  | some s1 =>
    match (if v < 17000 then switchToNotary [innerRingKey] true s1 h else some s1) with
    | none => none
    | some s2 =>
      if v < 19000 then
        match moveSubscriber s2 balanceHashKey 0 with
        | none => none
        | some s3 => moveSubscriber s3 containerHashKey 1
      else some s2

/-! ### NNS (< 0.18: TLDs become committee-owned) -/

def isTLDName (name : Bytes) : Bool := !(name.contains 46)      -- no '.'

/-- `updateBalance(ctx, name, owner, -1)` (`nnsDropOwner` below). The token key `ripemd160(name)` is taken from the storage key
of the name state (`prefixName ‖ ripemd160(name)`): hashes are not computed in Lean (DESIGN section 4). -/
def storedIntOr0 (s : Store) (k : Bytes) : Int :=
  match get s k with
  | none => 0
  | some b => decInt b

def nnsDropOwner (s : Store) (owner tokenKey : Bytes) : Store :=
  let bk := nns_prefixBalance.toNat :: owner
  let bal : Int := storedIntOr0 s bk
  let s1 := if bal - 1 = 0 then del s bk else put s bk (encInt (bal - 1))
  del s1 (nns_prefixAccountToken.toNat :: (owner ++ tokenKey))

def nnsStep (s : Store) (kv : Bytes × Bytes) : Option Store :=
  match deser kv.2 with                       -- storage.DeserializeValues
  | none => none
  | some it =>
    match elems it with
    | some (owner :: nameI :: rest) =>
      match nameI with
      | .bytes name =>
        if !isTLDName name then some s
        else
          match owner with
          | .bytes o =>
            let s1 := nnsDropOwner s o (kv.1.drop 1)
            let it' := match it with
              | .array _ => Item.array (.null :: nameI :: rest)
              | _ => Item.struct (.null :: nameI :: rest)
            some (put s1 kv.1 (ser it'))
          | _ => none                       -- `append([]byte{prefixBalance}, nil...)` FAULTs
      | _ => none
    | _ => none

def forNames (s : Store) : List (Bytes × Bytes) → Option Store
  | [] => some s
  | kv :: r =>
    match nnsStep s kv with
    | none => none
    | some s' => forNames s' r

def nnsMigrate (v : Int) (s : Store) : Option Store :=
  if v ≥ 18000 then some s else forNames s (snapshot s [nns_prefixName.toNat])

/-! ### NeoFSID, Audit, Reputation, Alphabet -/

def neofsidMigrate (v : Int) (h : Int) (s : Store) : Option Store :=
  match (if v < 17000 then switchToNotary [containerHashKey] true s h else some s) with
  | none => none
  | some s1 => some (if v < 19000 then del s1 netmapHashKey else s1)

def auditMigrate (v : Int) (h : Int) (s : Store) : Option Store :=
  if v < 17000 then switchToNotary [netmapHashKey] false s h else some s

def reputationMigrate (v : Int) (h : Int) (s : Store) : Option Store :=
  if v < 17000 then switchToNotary [] true s h else some s

/-- Alphabet `switchToNotary(ctx, args)`. Modelled: the argument accesses, "already notarized", the
`notary = false` case, the Proxy-address test and the pending-vote test of the `notary = true` case.
NOT modelled: the GAS distribution that follows (the model FAULTs instead). -/
def alphabetSwitch (args : List Item) (h : Int) (s : Store) : Option Store :=
  match args[3]? with                                    -- `contractName := args[3].(string)`
  | none => none
  | some nameI =>
    -- the name is only logged; a number (as the appended version would be) is in general not valid
    -- UTF-8 and `runtime.Log` FAULTs: the model FAULTs on every numeric name where it is logged
    let loggable := match nameI with | Item.int _ => false | _ => true
    match get s notaryKey with
    | none => if loggable then some s else none
    | some nv =>
      match bytesToBool nv with
      | none => none
      | some false => some (del s notaryKey)
      | some true =>
        match args[2]? with
        | some (Item.bytes p) =>
          if p.length ≠ 20 then none                     -- invalid (or, when empty, unresolved) Proxy address
          else
            match tryPurgeVotes s h with
            | none => none
            | some (false, _) => none                    -- "pending vote detected"
            | some (true, _) => none                     -- GAS distribution: not modelled
        | _ => none

def alphabetMigrate (v : Int) (args : List Item) (h : Int) (s : Store) : Option Store :=
  if v < 17000 then alphabetSwitch args h s else some s

/-- the `isUpdate` branch of `_deploy` after `CheckVersion`, per contract -/
def migrate (k : Kind) (v : Int) (args : List Item) (h : Int) (s : Store) : Option Store :=
  match k with
  | .balance => balanceMigrate v h s
  | .container => containerMigrate v h s
  | .netmap => netmapMigrate v h s
  | .nns => nnsMigrate v s
  | .neofsid => neofsidMigrate v h s
  | .alphabet => alphabetMigrate v args h s
  | .audit => auditMigrate v h s
  | .reputation => reputationMigrate v h s
  | .proxy => some s
  | .neofs => some s
  | .processing => some s

/-- `_deploy(args, isUpdate = true)` of the NEW executable -/
def deployUpdate (k : Kind) (args : List Item) (h : Int) (s : Store) : Option Store :=
  match deployVersion args with
  | none => none
  | some v => if checkVersion v then migrate k v args h s else none

/-! ### operations -/

inductive Op where
  /-- `update(nef, manifest, data)`; `nefOk = false`: the executable or manifest is rejected by
  ContractManagement -/
  | update (data : Item) (nefOk : Bool)
  /-- harness-only raw replacement of the whole storage (writes the synthetic pre-upgrade storage);
  exists only in executables that were not updated yet -/
  | load (s : Store)
  deriving Repr

/-- `Update` of contract `k`; the result is the storage after `_deploy` of the new executable and the
new version constant -/
def update (k : Kind) (st : CState) (env : Env) (data : Item) (nefOk : Bool) : Option CState :=
  match updateAccess k env with
  | none => none
  | some false => none                                   -- "only committee can update contract"
  | some true =>
    match appendVersion data st.ver with
    | none => none
    | some args =>
      if !nefOk then none
      else
        match deployUpdate k args env.height st.store with
        | none => none
        | some s' => some ⟨common_Version, s'⟩

def step (k : Kind) (st : CState) (env : Env) : Op → Option CState
  | .update data nefOk => update k st env data nefOk
  | .load s => some { st with store := s }

/-- transaction atomicity: a FAULT leaves the contract (executable and storage) as it was -/
def invoke (k : Kind) (st : CState) (env : Env) (op : Op) : CState × Bool :=
  match step k st env op with
  | none => (st, false)
  | some st' => (st', true)

def run (k : Kind) (st : CState) : List (Env × Op) → CState
  | [] => st
  | (env, op) :: rest => run k (invoke k st env op).1 rest

end NeoFS.Upgrade
