import NeoFS.Model.UpgradeStore
import NeoFS.Generated.Consts
/-! # Contract upgrade (property C16), hand-written model

What is modelled, branch by branch, FAULT paths and order of effects included:

* `common/version.go`: `CheckVersion` (`checkVersion`), `AppendVersion` (`appendVersion`);
* `common/update.go` + `common/ir.go`: `HasUpdateAccess` / `CommitteeAddress` / `Multiaddress`, the
  Alphabet-majority test of `neofs.Update` and `processing.Update`, `nns.checkCommittee` (`updateAccess`);
* `common/vote.go`: `getBallots`, `TryPurgeVotes`;
* every contract's `Update` (`update`) and the `isUpdate` branch of its `_deploy` (`migrate`):
  Balance (`switchToNotary`, `switchToAccPrefixes`), Container (un-prefixed 32/57-byte keys → `x`/`o`,
  `switchToNotary`), Netmap (node structures < 0.16, `switchToNotary`, subscribers < 0.19),
  NNS (< 0.18: TLD owners), NeoFSID, Audit, Reputation, Proxy, NeoFS, Processing, Alphabet (incl. the
  GAS distribution of a non-notary Alphabet contract: native GAS transfers and Notary deposits on a
  `Ledger` supplied by the environment).

A contract instance is `CState` = the version constant compiled into the deployed executable + its
storage. `step` returns `none` for a FAULT, `invoke` restores the old state then (atomicity).
The new executable's constants are the regenerated `NeoFS.Generated.common_Version/PrevVersion`. -/
namespace NeoFS.Upgrade
open NeoFS NeoFS.Generated

inductive Kind where
  | balance | container | netmap | nns | neofsid | alphabet | audit | reputation | proxy | neofs | processing
  deriving Repr, DecidableEq

/-- accounts whose witness a transaction can carry. `msig m ks` is the m-of-ks multi-signature
account (ks = sorted ids of public keys); script-hash collisions are assumed away (DESIGN section 4). -/
inductive Acct where
  | msig (m : Nat) (ks : List Nat)
  | single (i : Nat)
  | user (t : Nat)
  deriving Repr, DecidableEq

/-- native GAS balances and Notary deposits. Balances and deposited amounts are lists of signed deltas:
the balance of an account is the sum of its entries (no uniqueness invariant needed). Accounts are
20-byte script hashes; the standard account of a 33-byte public key is represented by the key itself
(hashes are not computed; distinctness of all script hashes involved is assumed, DESIGN section 4). -/
structure Ledger where
  bal : List (Bytes × Int) := []
  /-- Notary: deposited amounts (deltas) -/
  dep : List (Bytes × Int) := []
  /-- Notary: `till` of the accounts that have a deposit -/
  till : List (Bytes × Int) := []
  deriving Repr

/-- what the Alphabet migration sees of the chain besides its own storage -/
structure AlphaEnv where
  /-- `runtime.GetExecutingScriptHash()` -/
  self : Bytes := []
  /-- hash of the native Notary contract -/
  notary : Bytes := []
  /-- the deployed Netmap contract and what its `netmap()` / `innerRingList()` answer -/
  netmapHash : Bytes := []
  nodes : List Item := []
  irKeys : List Bytes := []
  /-- what `common.ResolveFSContract("proxy")` answers (`none`: FAULT) -/
  nnsProxy : Option Bytes := none
  /-- deployed contracts whose `onNEP17Payment` is missing or refuses GAS -/
  rejecting : List Bytes := []
  /-- Policy: fee of the NotaryAssisted attribute (the first deposit must be twice that) -/
  notaryFee : Int := 0
  ledger : Ledger := {}
  deriving Repr

structure Env where
  witnesses : List Acct
  /-- `neo.GetCommittee()` -/
  committee : List Nat
  /-- `roles.GetDesignatedByRole(roles.NeoFSAlphabet, height+1)` -/
  role : List Nat
  /-- `ledger.CurrentIndex()` -/
  height : Int
  alpha : AlphaEnv := {}
  deriving Repr

/-- native RoleManagement as `neofs.Update` / `processing.Update` read it. `designateAsRole` executed in block `N`
stores the key list under index `N+1` (neo-go `designateAsRole`: key `role ‖ BE32(Block.Index+1)`);
`getDesignatedByRole(role, index)` answers the stored list with the greatest stored index `≤ index`. `ds` holds
`(stored index, keys)` in the order the designations were made. The contracts ask for `ledger.CurrentIndex()+1`, which
during block `B` is `B` itself: a designation made in block `N` is in force for every transaction from block `N+1` on
(and not yet for later transactions of block `N`). -/
def roleInForce (ds : List (Int × List Nat)) (index : Int) : List Nat :=
  ds.foldl (fun cur d => if d.1 ≤ index then d.2 else cur) []

structure CState where
  /-- `common.Version` of the deployed executable -/
  ver : Int
  store : Store
  deriving Repr

/-! ### storage keys -/

def notaryKey : Bytes := balance_switchToNotary_notaryDisabledKey_bytes   -- "notary" in every contract
def voteKey : Bytes := common_voteKey_bytes                                -- "ballots"
def netmapHashKey : Bytes := alphabet_netmapKey_bytes                      -- "netmapScriptHash"
def containerHashKey : Bytes := netmap_containerContractKey_bytes          -- "containerScriptHash"
def balanceHashKey : Bytes := netmap_balanceContractKey_bytes              -- "balanceScriptHash"
def innerRingKey : Bytes := [105, 110, 110, 101, 114, 114, 105, 110, 103]  -- "innerring"
def accPrefix : Nat := balance_accPrefix_bytes.headD 0                             -- 'a'
def cnrPrefix : Nat := container_containerKeyPrefix.toNat                  -- 'x'
def ownPrefix : Nat := container_ownerKeyPrefix.toNat                      -- 'o'

/-! ### common/version.go -/

/-- `CheckVersion`: `false` = panic -/
def checkVersion (frm : Int) : Bool :=
  if frm < common_PrevVersion then false
  else if frm ≥ common_Version then false
  else true

/-- `AppendVersion(data)` executed by the OLD executable whose constant is `ver`; `append` on
anything that is not an Array/Struct FAULTs -/
def appendVersion (data : Item) (ver : Int) : Option (List Item) :=
  match data with
  | .null => some [.int ver]
  | .array l => some (l ++ [.int ver])
  | .struct l => some (l ++ [.int ver])
  | _ => none

/-- `args[len(args)-1].(int)` of `_deploy` -/
def deployVersion (args : List Item) : Option Int :=
  match args.getLast? with
  | none => none
  | some x => toInt x

/-! ### witnesses -/

/-- `common.Multiaddress`: `contract.CreateMultisigAccount` FAULTs on an empty key list -/
def multiaddress (ks : List Nat) (committee : Bool) : Option Acct :=
  if ks.isEmpty then none
  else some (.msig (if committee then ks.length / 2 + 1 else ks.length * 2 / 3 + 1) ks)

def checkWitness (env : Env) (a : Acct) : Bool := env.witnesses.contains a

/-- the witness test at the head of `Update`; `none` = FAULT inside the test itself -/
def updateAccess (k : Kind) (env : Env) : Option Bool :=
  match k with
  | .neofs => (multiaddress env.role true).map (checkWitness env)
  | .processing => (multiaddress env.role true).map (checkWitness env)
  | .nns =>   -- `checkCommittee`: `l-(l-1)/2`
    if env.committee.isEmpty then none
    else some (checkWitness env (.msig (env.committee.length - (env.committee.length - 1) / 2) env.committee))
  | _ => (multiaddress env.committee true).map (checkWitness env)

/-! ### common/vote.go -/

/-- `getBallots` -/
def getBallots (s : Store) : Option (List Item) :=
  match get s voteKey with
  | none => some []
  | some b =>
    match deser b with
    | none => none
    | some it => elems it

/-- `cnd.Height` -/
def ballotHeight (c : Item) : Option Int :=
  match elems c with
  | none => none
  | some l =>
    match l[2]? with
    | none => none
    | some x => toInt x

/-- the loop of `TryPurgeVotes`: `some true` = an in-progress vote was met -/
def pendingLoop (h : Int) : List Item → Option Bool
  | [] => some false
  | c :: r =>
    match ballotHeight c with
    | none => none
    | some bh => if h - bh ≤ common_blockDiff then some true else pendingLoop h r

/-- `TryPurgeVotes`: the answer and the storage afterwards -/
def tryPurgeVotes (s : Store) (h : Int) : Option (Bool × Store) :=
  match getBallots s with
  | none => none
  | some l =>
    match pendingLoop h l with
    | none => none
    | some true => some (false, s)
    | some false => some (true, del s voteKey)

/-- `switchToNotary` of Balance / Container / Netmap / NeoFSID / Reputation / Audit: `extra` are the
legacy keys removed besides `notary`; `purge = false` for Audit, which has no ballots -/
def switchToNotary (extra : List Bytes) (purge : Bool) (s : Store) (h : Int) : Option Store :=
  match get s notaryKey with
  | none => some s                                  -- "contract is already notarized"
  | some nv =>
    match bytesToBool nv with
    | none => none
    | some flag =>
      let r : Option Store :=
        if flag && purge then
          match tryPurgeVotes s h with
          | none => none
          | some (true, s') => some s'
          | some (false, _) => none                 -- "pending vote detected"
        else some s
      match r with
      | none => none
      | some s1 => some ((notaryKey :: extra).foldl del s1)

/-! ### Balance -/

/-- loop body of `switchToAccPrefixes` -/
def accPrefixStep (st : Store) (kv : Bytes × Bytes) : Store :=
  if kv.1.length = 20 then del (put st (accPrefix :: kv.1) kv.2) kv.1 else st

def switchToAccPrefixes (s : Store) : Store := (snapshot s []).foldl accPrefixStep s

def balanceMigrate (v : Int) (h : Int) (s : Store) : Option Store :=
  match (if v < 17000 then switchToNotary [netmapHashKey, containerHashKey] true s h else some s) with
  | none => none
  | some s1 => some (if v < 20000 then switchToAccPrefixes s1 else s1)

/-! ### Container -/

/-- loop body of the rename loop of `_deploy` (it runs for every from-version) -/
def cnrStep (st : Store) (kv : Bytes × Bytes) : Store :=
  let st1 := if kv.1.length = 32 then put (del st kv.1) (cnrPrefix :: kv.1) kv.2 else st
  if kv.1.length = 57 then put (del st1 kv.1) (ownPrefix :: kv.1) kv.2 else st1

def cnrRename (s : Store) : Store := (snapshot s []).foldl cnrStep s

def containerMigrate (v : Int) (h : Int) (s : Store) : Option Store :=
  let s1 := cnrRename s
  if v < 17000 then switchToNotary [] true s1 h else some s1

/-! ### Netmap -/

/-- `Node{BLOB: nodes[j].BLOB, State: nodestate.Online}` -/
def nodeOldToNew (n : Item) : Option Item :=
  match elems n with
  | some (b :: _) => some (.struct [b, .int netmap_nodestate_Online])
  | _ => none

def mapNodes : List Item → Option (List Item)
  | [] => some []
  | n :: r =>
    match nodeOldToNew n with
    | none => none
    | some n' =>
      match mapNodes r with
      | none => none
      | some r' => some (n' :: r')

def snapshotKey (i : Nat) : Bytes := netmap_snapshotKeyPrefix_bytes ++ [i]

/-- one iteration of the snapshot loop. `newnodes := []Node{}`: an empty list is stored back as the
serialized empty array (since f42319b; `var newnodes []Node` stored the serialized Null before). -/
def migrateSnapshotAt (s : Store) (i : Nat) : Option Store :=
  match get s (snapshotKey i) with
  | none => some s
  | some data =>
    match deser data with
    | none => none
    | some it =>
      match elems it with
      | none => none
      | some nodes =>
        match mapNodes nodes with
        | none => none
        | some nn => some (put s (snapshotKey i) (ser (.array nn)))

def forSnapshots (s : Store) : List Nat → Option Store
  | [] => some s
  | i :: r =>
    match migrateSnapshotAt s i with
    | none => none
    | some s' => forSnapshots s' r

/-- `Node{BLOB: oldcan.f1.BLOB, State: oldcan.f2}` serialized -/
def candOldToNew (v : Bytes) : Option Bytes :=
  match deser v with
  | none => none
  | some it =>
    match elems it with
    | some (f1 :: f2 :: _) =>
      match elems f1 with
      | some (blob :: _) => some (ser (.struct [blob, f2]))
      | _ => none
    | _ => none

def forCandidates (s : Store) : List (Bytes × Bytes) → Option Store
  | [] => some s
  | (k, v) :: r =>
    match candOldToNew v with
    | none => none
    | some v' => forCandidates (put s k v') r

/-- `getSnapshotCount`: a missing item compares as "no iteration" (`i < Null` is false) -/
def snapshotCount (s : Store) : Option Nat :=
  match get s netmap_snapshotCountKey_bytes with
  | none => some 0
  | some b => if b.length ≤ 32 then some (decInt b).toNat else none

def netmapNodes16 (s : Store) : Option Store :=
  match snapshotCount s with
  | none => none
  | some c =>
    match forSnapshots s (List.range c) with
    | none => none
    | some s1 => forCandidates s1 (snapshot s1 netmap_candidatePrefix)

/-- one of the two subscriber moves of the `< 0.19` branch: `"e" ‖ idx ‖ hash`; `append(…, nil...)` FAULTs -/
def moveSubscriber (s : Store) (oldKey : Bytes) (idx : Nat) : Option Store :=
  match get s oldKey with
  | none => none
  | some hsh => some (del (put s (netmap_newEpochSubscribersPrefix_bytes ++ [idx] ++ hsh) []) oldKey)

def netmapMigrate (v : Int) (h : Int) (s : Store) : Option Store :=
  match (if v < 16000 then netmapNodes16 s else some s) with
  | none => none
  | some s1 =>
    match (if v < 17000 then switchToNotary [innerRingKey] true s1 h else some s1) with
    | none => none
    | some s2 =>
      if v < 19000 then
        match moveSubscriber s2 balanceHashKey 0 with
        | none => none
        | some s3 => moveSubscriber s3 containerHashKey 1
      else some s2

/-! ### NNS (< 0.18: TLDs become committee-owned) -/

def isTLDName (name : Bytes) : Bool := !(name.contains 46)      -- no '.'

/-- `updateBalance(ctx, name, owner, -1)` (`nnsDropOwner` below). The token key `ripemd160(name)` is taken from the storage key
of the name state (`prefixName ‖ ripemd160(name)`): hashes are not computed in Lean (DESIGN section 4). -/
def storedIntOr0 (s : Store) (k : Bytes) : Int :=
  match get s k with
  | none => 0
  | some b => decInt b

def nnsDropOwner (s : Store) (owner tokenKey : Bytes) : Store :=
  let bk := nns_prefixBalance.toNat :: owner
  let bal : Int := storedIntOr0 s bk
  let s1 := if bal - 1 = 0 then del s bk else put s bk (encInt (bal - 1))
  del s1 (nns_prefixAccountToken.toNat :: (owner ++ tokenKey))

def nnsStep (s : Store) (kv : Bytes × Bytes) : Option Store :=
  match deser kv.2 with                       -- storage.DeserializeValues
  | none => none
  | some it =>
    match elems it with
    | some (owner :: nameI :: rest) =>
      match nameI with
      | .bytes name =>
        if !isTLDName name then some s
        else
          match owner with
          | .bytes o =>
            let s1 := nnsDropOwner s o (kv.1.drop 1)
            let it' := match it with
              | .array _ => Item.array (.null :: nameI :: rest)
              | _ => Item.struct (.null :: nameI :: rest)
            some (put s1 kv.1 (ser it'))
          | _ => none                       -- `append([]byte{prefixBalance}, nil...)` FAULTs
      | _ => none
    | _ => none

def forNames (s : Store) : List (Bytes × Bytes) → Option Store
  | [] => some s
  | kv :: r =>
    match nnsStep s kv with
    | none => none
    | some s' => forNames s' r

def nnsMigrate (v : Int) (s : Store) : Option Store :=
  if v ≥ 18000 then some s else forNames s (snapshot s [nns_prefixName.toNat])

/-! ### NeoFSID, Audit, Reputation, Alphabet -/

def neofsidMigrate (v : Int) (h : Int) (s : Store) : Option Store :=
  match (if v < 17000 then switchToNotary [containerHashKey] true s h else some s) with
  | none => none
  | some s1 => some (if v < 19000 then del s1 netmapHashKey else s1)

def auditMigrate (v : Int) (h : Int) (s : Store) : Option Store :=
  if v < 17000 then switchToNotary [netmapHashKey] false s h else some s

def reputationMigrate (v : Int) (h : Int) (s : Store) : Option Store :=
  if v < 17000 then switchToNotary [] true s h else some s

/-! ### Alphabet: native GAS and Notary as `switchToNotary` uses them -/

def sumOf (l : List (Bytes × Int)) (a : Bytes) : Int :=
  match l with
  | [] => 0
  | (k, x) :: r => (if k = a then x else 0) + sumOf r a

/-- `gas.BalanceOf(a)` -/
def balOf (L : Ledger) (a : Bytes) : Int := sumOf L.bal a
/-- Notary `balanceOf(a)` -/
def depOf (L : Ledger) (a : Bytes) : Int := sumOf L.dep a

def tillOf (l : List (Bytes × Int)) (a : Bytes) : Option Int :=
  match l with
  | [] => none
  | (k, t) :: r => if k = a then some t else tillOf r a

/-- total GAS on all accounts -/
def totalGas (L : Ledger) : Int := (L.bal.map (·.2)).sum

def alphaProxyKey : Bytes := NeoFS.Generated.alphabet_proxyKey_bytes
def lockInterval : Int := alphabet_switchToNotary_lockInterval
def notaryDepositLimit : Int := alphabet_switchToNotary_notaryDepositLimit
/-- neo-go `defaultDepositDeltaTill`: the lock of a first deposit made by somebody else -/
def depositDeltaTill : Int := 5760

/-- `gas.Transfer(self, to, amt, data)` called by the contract itself; `none` = the call FAULTs or answers
`false` (every caller here panics then). `data = some (receiver, till)` is the Notary deposit request.
* insufficient funds ⇒ `false`;
* `to` = Notary: `onNEP17Payment` of the native contract: `data` must be the 2-element array, `till ≥ height+2`,
  not below an existing deposit's `till`, a FIRST deposit must be at least twice the NotaryAssisted fee and -
  the transaction's sender not being the receiver - is locked until `height + 5760`; an existing lock stays;
* `to` is a contract without a working `onNEP17Payment` ⇒ FAULT. -/
def gasTransfer (h : Int) (ae : AlphaEnv) (L : Ledger) (to : Bytes) (amt : Int) (data : Option (Bytes × Int)) :
    Option Ledger :=
  if amt < 0 then none
  else if balOf L ae.self < amt then none
  else
    let L1 : Ledger := { L with bal := (to, amt) :: (ae.self, -amt) :: L.bal }
    if to = ae.notary then
      match data with
      | none => none
      | some (rcv, till) =>
        if till < h + 2 then none
        else
          match tillOf L.till rcv with
          | some t => if till < t then none else some { L1 with dep := (rcv, amt) :: L1.dep }
          | none =>
            if amt < 2 * ae.notaryFee then none
            else some { L1 with dep := (rcv, amt) :: L1.dep, till := L1.till ++ [(rcv, h + depositDeltaTill)] }
    else if ae.rejecting.contains to then none
    else some L1

/-- `storageNodes[i].blob[2:35]` -/
def nodeKey (n : Item) : Option Bytes :=
  match elems n with
  | some (Item.bytes b :: _) => if b.length < 35 then none else some ((b.drop 2).take 33)
  | some (Item.buffer b :: _) => if b.length < 35 then none else some ((b.drop 2).take 33)
  | _ => none

def nodeKeys : List Item → Option (List Bytes)
  | [] => some []
  | n :: r =>
    match nodeKey n with
    | none => none
    | some k =>
      match nodeKeys r with
      | none => none
      | some ks => some (k :: ks)

/-- the two loops over Inner Ring and storage nodes: `simple` to the node's account, `part` as its Notary deposit -/
def payNodes (h : Int) (ae : AlphaEnv) (simple part : Int) : Ledger → List Bytes → Option Ledger
  | L, [] => some L
  | L, k :: r =>
    match gasTransfer h ae L k simple none with
    | none => none
    | some L1 =>
      match gasTransfer h ae L1 ae.notary part (some (k, h + lockInterval)) with
      | none => none
      | some L2 => payNodes h ae simple part L2 r

/-- the amounts of the distribution for a contract balance `b` and `n` nodes: to Proxy, plain per node, Notary
deposit per node -/
def alphaShares (b : Int) (n : Int) : Int × Int × Int :=
  let currentGAS := b * 3 / 4
  let toProxy := currentGAS / 2
  let perNode := (currentGAS - toProxy) / n
  let part := if perNode / 2 > notaryDepositLimit then notaryDepositLimit else perNode / 2
  (toProxy, perNode - part, part)

/-- the Proxy address: `args[2]`, or the NNS record when the argument is empty (`none` = FAULT; an argument
that is not a byte string, e.g. Null, is not modelled: FAULT) -/
def alphaProxy (args : List Item) (ae : AlphaEnv) : Option Bytes :=
  match args[2]? with
  | some (Item.bytes p) => if p.length > 0 then (if p.length ≠ 20 then none else some p) else ae.nnsProxy
  | _ => none

/-- the Netmap address: `args[1]`, or the stored one when the argument is empty -/
def alphaNetmap (args : List Item) (s1 : Store) : Option Bytes :=
  match args[1]? with
  | some (Item.bytes nm) => if nm.length > 0 then (if nm.length ≠ 20 then none else some nm) else get s1 netmapHashKey
  | _ => none

/-- "distribute 75% of available GAS": half of it to Proxy, the rest evenly between Inner Ring and storage nodes,
each node's share split between its account and its Notary deposit -/
def alphaDistribute (h : Int) (ae : AlphaEnv) (proxy : Bytes) : Option Ledger :=
  if balOf ae.ledger ae.self * 3 / 4 = 0 then none                  -- "no GAS in the contract"
  else if ae.nodes.length + ae.irKeys.length = 0 then none          -- division by zero
  else
    let sh := alphaShares (balOf ae.ledger ae.self) ((ae.nodes.length + ae.irKeys.length : Nat) : Int)
    match gasTransfer h ae ae.ledger proxy sh.1 none with
    | none => none
    | some L1 =>
      match nodeKeys ae.nodes with
      | none => none
      | some snKeys => payNodes h ae sh.2.1 sh.2.2 L1 (ae.irKeys ++ snKeys)

/-- the `notary = true` branch after the flag test -/
def alphaNonNotary (args : List Item) (h : Int) (ae : AlphaEnv) (s : Store) : Option (Store × Ledger) :=
  match alphaProxy args ae with
  | none => none
  | some proxy =>
    match tryPurgeVotes s h with
    | none => none
    | some r =>
      if !r.1 then none                                   -- "pending vote detected"
      else
        match alphaNetmap args r.2 with
        | none => none
        | some nm =>
          if nm ≠ ae.netmapHash then none                 -- no such contract
          else
            match alphaDistribute h ae proxy with
            | none => none
            | some L2 => some (del (put r.2 alphaProxyKey proxy) notaryKey, L2)

/-- the contract name is only logged; a number (as the appended version would be) is in general not valid
UTF-8 and `runtime.Log` FAULTs: the model FAULTs on every numeric name where it is logged -/
def loggableName : Item → Bool
  | Item.int _ => false
  | _ => true

/-- Alphabet `switchToNotary(ctx, args)`, every branch: the storage afterwards and the GAS/Notary ledger
afterwards -/
def alphabetSwitchFull (args : List Item) (h : Int) (ae : AlphaEnv) (s : Store) : Option (Store × Ledger) :=
  match args[3]? with                                    -- `contractName := args[3].(string)`
  | none => none
  | some nameI =>
    match get s notaryKey with
    | none => if loggableName nameI then some (s, ae.ledger) else none
    | some nv =>
      match bytesToBool nv with
      | none => none
      | some false => some (del s notaryKey, ae.ledger)
      | some true => if loggableName nameI then alphaNonNotary args h ae s else none

def alphabetSwitch (args : List Item) (h : Int) (ae : AlphaEnv) (s : Store) : Option Store :=
  (alphabetSwitchFull args h ae s).map (·.1)

def alphabetMigrate (v : Int) (args : List Item) (h : Int) (ae : AlphaEnv) (s : Store) : Option Store :=
  if v < 17000 then alphabetSwitch args h ae s else some s

/-- the `isUpdate` branch of `_deploy` after `CheckVersion`, per contract -/
def migrate (k : Kind) (v : Int) (args : List Item) (env : Env) (s : Store) : Option Store :=
  match k with
  | .balance => balanceMigrate v env.height s
  | .container => containerMigrate v env.height s
  | .netmap => netmapMigrate v env.height s
  | .nns => nnsMigrate v s
  | .neofsid => neofsidMigrate v env.height s
  | .alphabet => alphabetMigrate v args env.height env.alpha s
  | .audit => auditMigrate v env.height s
  | .reputation => reputationMigrate v env.height s
  | .proxy => some s
  | .neofs => some s
  | .processing => some s

/-- `_deploy(args, isUpdate = true)` of the NEW executable -/
def deployUpdate (k : Kind) (args : List Item) (env : Env) (s : Store) : Option Store :=
  match deployVersion args with
  | none => none
  | some v => if checkVersion v then migrate k v args env s else none

/-! ### operations -/

inductive Op where
  /-- `update(nef, manifest, data)`; `nefOk = false`: the executable or manifest is rejected by
  ContractManagement -/
  | update (data : Item) (nefOk : Bool)
  /-- harness-only raw replacement of the whole storage (writes the synthetic pre-upgrade storage);
  exists only in executables that were not updated yet -/
  | load (s : Store)
  deriving Repr

/-- `Update` of contract `k`; the result is the storage after `_deploy` of the new executable and the
new version constant -/
def update (k : Kind) (st : CState) (env : Env) (data : Item) (nefOk : Bool) : Option CState :=
  match updateAccess k env with
  | none => none
  | some false => none                                   -- "only committee can update contract"
  | some true =>
    match appendVersion data st.ver with
    | none => none
    | some args =>
      if !nefOk then none
      else
        match deployUpdate k args env st.store with
        | none => none
        | some s' => some ⟨common_Version, s'⟩

/-- the GAS/Notary ledger after `Update`: only a HALTed upgrade of a pre-0.17 Alphabet contract moves GAS; a
FAULT leaves the ledger as it was (atomicity; fees are paid by the transaction's sender, not the contract) -/
def ledgerAfterUpdate (k : Kind) (st : CState) (env : Env) (data : Item) (nefOk : Bool) : Ledger :=
  match update k st env data nefOk, k, appendVersion data st.ver with
  | some _, .alphabet, some args =>
    if st.ver < 17000 then
      match alphabetSwitchFull args env.height env.alpha st.store with
      | some (_, L) => L
      | none => env.alpha.ledger
    else env.alpha.ledger
  | _, _, _ => env.alpha.ledger

def step (k : Kind) (st : CState) (env : Env) : Op → Option CState
  | .update data nefOk => update k st env data nefOk
  | .load s => some { st with store := s }

/-- transaction atomicity: a FAULT leaves the contract (executable and storage) as it was -/
def invoke (k : Kind) (st : CState) (env : Env) (op : Op) : CState × Bool :=
  match step k st env op with
  | none => (st, false)
  | some st' => (st', true)

def run (k : Kind) (st : CState) : List (Env × Op) → CState
  | [] => st
  | (env, op) :: rest => run k (invoke k st env op).1 rest

end NeoFS.Upgrade
