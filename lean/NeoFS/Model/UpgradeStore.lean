import NeoFS.Base.Bytes
/-! # Substrate of the upgrade model (property C16)

* `Store`: the byte-keyed contract storage as an association list with unique keys
  (`get` / `put` / `del`), `snapshot` = what `storage.Find(ctx, prefix, …)` iterates: the entries
  with the prefix in key order, taken ONCE at the call (later puts/deletes in the loop body do not
  change it; DESIGN.md section 4).
* `Item`: NeoVM stack items as far as the migrations (de)serialize them, with `ser` / `deser` =
  `std.Serialize` / `std.Deserialize` (neo-go `stackitem/serialization.go`; maps, interop items and
  the 2048-item limit are not modelled).
Core Lean only; everything is structural (or fuel-) recursive so that `decide` evaluates it. -/
namespace NeoFS.Upgrade
open NeoFS

abbrev Store := List (Bytes × Bytes)

def get : Store → Bytes → Option Bytes
  | [], _ => none
  | (k, v) :: r, q => if k = q then some v else get r q

def del (s : Store) (q : Bytes) : Store := s.filter (fun kv => decide (kv.1 ≠ q))

def put (s : Store) (k v : Bytes) : Store := (k, v) :: del s k

def keys (s : Store) : List Bytes := s.map (·.1)

/-- the uniqueness invariant of a storage -/
def NodupKeys (s : Store) : Prop := (keys s).Nodup

/-! ### key order (byte-wise lexicographic, as the storage iterates) -/

def keyLe (a b : Bytes) : Bool := decide (a ≤ b)

def insKV (a : Bytes × Bytes) : Store → Store
  | [] => [a]
  | b :: l => if keyLe a.1 b.1 then a :: b :: l else b :: insKV a l

/-- structural insertion sort by key (`List.mergeSort` does not reduce under `decide`) -/
def sortKV : Store → Store
  | [] => []
  | a :: l => insKV a (sortKV l)

def hasPrefix (p k : Bytes) : Bool := p.isPrefixOf k

/-- `storage.Find(ctx, p, None)`: the entries whose key starts with `p`, in key order, as of now -/
def snapshot (s : Store) (p : Bytes) : Store := sortKV (s.filter (fun kv => hasPrefix p kv.1))

/-! ### stack items and their serialization -/

inductive Item where
  | null
  | bool (b : Bool)
  | int (i : Int)
  | bytes (b : Bytes)
  | buffer (b : Bytes)
  | array (l : List Item)
  | struct (l : List Item)
  deriving Repr, Inhabited

/-- `io.PutVarUint` -/
def varuint (n : Nat) : Bytes :=
  if n < 0xfd then [n] else if n < 0x10000 then 0xfd :: natLEk 2 n
  else if n < 0x100000000 then 0xfe :: natLEk 4 n else 0xff :: natLEk 8 n

mutual
/-- `std.Serialize` -/
def ser : Item → Bytes
  | .null => [0]
  | .bool b => [0x20, if b then 1 else 0]
  | .int i => 0x21 :: (let e := encInt i; e.length :: e)
  | .bytes b => 0x28 :: (varuint b.length ++ b)
  | .buffer b => 0x30 :: (varuint b.length ++ b)
  | .array l => 0x40 :: (varuint l.length ++ serL l)
  | .struct l => 0x41 :: (varuint l.length ++ serL l)
def serL : List Item → Bytes
  | [] => []
  | x :: r => ser x ++ serL r
end

def readVarUint : Bytes → Option (Nat × Bytes)
  | [] => none
  | b :: r =>
    if b < 0xfd then some (b, r)
    else
      let k := if b = 0xfd then 2 else if b = 0xfe then 4 else 8
      if r.length < k then none else some (leVal (r.take k), r.drop k)

def readVarBytes (bs : Bytes) : Option (Bytes × Bytes) :=
  match readVarUint bs with
  | none => none
  | some (n, r) => if r.length < n then none else some (r.take n, r.drop n)

/-- reads `n` items; `fuel` bounds the total number of items (every item takes at least one byte) -/
def deserN : Nat → Nat → Bytes → Option (List Item × Bytes)
  | _, 0, bs => some ([], bs)
  | 0, _ + 1, _ => none
  | f + 1, n + 1, bs =>
    match bs with
    | [] => none
    | t :: r =>
      let one : Option (Item × Bytes) :=
        if t = 0 then some (.null, r)
        else if t = 0x20 then (match r with | [] => none | b :: r' => some (.bool (b != 0), r'))
        else if t = 0x21 then (match readVarBytes r with
            | some (d, r') => if d.length ≤ 33 then some (.int (decInt d), r') else none
            | none => none)
        else if t = 0x28 then (match readVarBytes r with | some (d, r') => some (.bytes d, r') | none => none)
        else if t = 0x30 then (match readVarBytes r with | some (d, r') => some (.buffer d, r') | none => none)
        else if t = 0x40 ∨ t = 0x41 then
          (match readVarUint r with
           | none => none
           | some (cnt, r') =>
             match deserN f cnt r' with
             | none => none
             | some (l, r'') => some (if t = 0x40 then .array l else .struct l, r''))
        else none
      match one with
      | none => none
      | some (it, rest) =>
        match deserN f n rest with
        | none => none
        | some (l, rest') => some (it :: l, rest')

/-- `std.Deserialize` (`none` = FAULT); trailing bytes are ignored as neo-go does -/
def deser (b : Bytes) : Option Item :=
  match deserN (b.length + 1) 1 b with
  | some ([x], _) => some x
  | _ => none

/-- conversion to Integer as the VM does it for arithmetic and comparisons -/
def toInt : Item → Option Int
  | .int i => some i
  | .bytes b => if b.length ≤ 32 then some (decInt b) else none
  | .buffer b => if b.length ≤ 32 then some (decInt b) else none
  | .bool b => some (if b then 1 else 0)
  | _ => none

/-- the elements of an Array or Struct (`PICKITEM`, `range`, `len` FAULT on anything else) -/
def elems : Item → Option (List Item)
  | .array l => some l
  | .struct l => some l
  | _ => none

/-- ByteString → Boolean (`JMPIF` on a storage value): FAULT above 32 bytes, else "some byte is non-zero" -/
def bytesToBool (b : Bytes) : Option Bool :=
  if b.length > 32 then none else some (b.any (fun x => x != 0))

-- the serialization of a Balance account `{Balance: 12345, Until: 0, Parent: nil}` and of an empty list
example : ser (.struct [.int 12345, .int 0, .null]) = [0x41, 3, 0x21, 2, 0x39, 0x30, 0x21, 0, 0] := by decide
example : (deser [0x41, 3, 0x21, 2, 0x39, 0x30, 0x21, 0, 0]).map ser = some [0x41, 3, 0x21, 2, 0x39, 0x30, 0x21, 0, 0] := by decide
example : ser (.array []) = [0x40, 0] := by decide
example : (deser [0x40, 1, 0x41, 3, 0x28, 2, 7, 7, 0x40, 0, 0x21, 1, 9]).map ser
    = some (ser (.array [.struct [.bytes [7, 7], .array [], .int 9]])) := by decide
example : deser [0x41, 3, 0x21] = none := by decide

end NeoFS.Upgrade
