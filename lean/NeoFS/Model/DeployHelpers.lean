import NeoFS.Base.Bytes
import NeoFS.Generated.Consts
/-! # Pure helpers of the deployment procedure (`deploy/*.go`), property C13, layer 1

Branch-by-branch models of

* `divideFundsEvenly`                       (deploy/funds.go)
* `neoFSRuntimeTransactionModifier`         (deploy/deploy.go) — over `UInt32`, because the property is
                                            about the behaviour at the `uint32` boundary; also ONE modifier
                                            applied at a sequence of heights (`modifierSeq`)
* `sharedTransactionData` codec + checksum  (deploy/notary.go) — SHA-256 is a parameter; base64 is
                                            Go's `base64.StdEncoding` (padding, `\r`/`\n` skipped,
                                            trailing bits ignored), modelled on byte strings
* `sharedTxDataMatches`                     (deploy/notary.go)
* `designateNotarySignatureDomainForMember`, `calculateAlphabetContractAddressDomain` (deploy/nns.go)

Strings are byte strings (`Bytes`, the UTF-8 bytes Go sees); integers of Go type `uint64`/`int`
are `Nat`/`Int` (the theorems state explicitly where a bound is needed). -/
namespace NeoFS.DeployHelpers
open NeoFS

/-! ## divideFundsEvenly -/

/-- the `for i := range n` loop: `k` iterations left, current index `i`, remaining remainder `rem`.
Every element is one invocation `f(i, amount)` of the callback, in call order. -/
def divLoop (quot : Nat) : Nat → Nat → Nat → List (Nat × Nat)
  | 0, _, _ => []
  | k + 1, i, rem =>
    if rem > 0 then (i, quot + 1) :: divLoop quot k (i + 1) (rem - 1)
    else if quot = 0 then []                                   -- `else if amount == 0 { return }`
    else (i, quot) :: divLoop quot k (i + 1) 0

/-- `none` = run-time panic (integer division by zero). For a negative `n` the quotient and the
remainder are computed from `uint64(n)` (no panic) and `for i := range n` does not iterate. -/
def divideFundsEvenly (amount : Nat) (n : Int) : Option (List (Nat × Nat)) :=
  if n = 0 then none
  else if n < 0 then some []
  else some (divLoop (amount / n.toNat) n.toNat 0 (amount % n.toNat))

/-! ## neoFSRuntimeTransactionModifier -/

def span : UInt32 := (Generated.deploy_neoFSRuntimeTransactionModifier_span).toNat.toUInt32

def maxU32 : UInt32 := 0xFFFFFFFF

/-- nonce and ValidUntilBlock set for the current height (all arithmetic is `uint32` arithmetic) -/
def window (h : UInt32) : UInt32 × UInt32 :=
  let n := h / span
  let nonce := n * span
  if maxU32 - span > nonce then (nonce, nonce + span) else (nonce, maxU32)

/-- the whole modifier: `actor.DefaultCheckerModifier` refuses every VM state but HALT -/
def modifier (vmState : String) (h : UInt32) : Option (UInt32 × UInt32) :=
  if vmState = "HALT" then some (window h) else none

/-- ONE modifier applied to a sequence of transactions. `syncNeoFSContract` and `updateNNSContract` build
the modifier once, before their loop, and use it for every update transaction of the stage; the closure
calls `getBlockchainHeight` on EVERY application, so the i-th transaction gets the window of the height
that is current at the i-th application — not of the height at which the modifier was built. -/
def modifierSeq (vmState : String) (heights : List UInt32) : List (Option (UInt32 × UInt32)) :=
  heights.map (modifier vmState)

/-! ## sharedTransactionData -/

structure Shared where
  sender : Bytes      -- util.Uint160 in big-endian order (20 bytes)
  vub : Nat           -- uint32
  nonce : Nat         -- uint32
  deriving DecidableEq, Repr

def uint160Size : Nat := 20
def sharedLen : Nat := (Generated.deploy_sharedTransactionDataLen).toNat
def checksumLen : Nat := (Generated.deploy_sharedTransactionDataChecksumLen).toNat

/-- well-formed value of the Go struct -/
def Shared.WF (x : Shared) : Prop :=
  x.sender.length = uint160Size ∧ (∀ b ∈ x.sender, b < 256) ∧ x.vub < 2 ^ 32 ∧ x.nonce < 2 ^ 32

def beVal : Bytes → Nat
  | [] => 0
  | b :: r => b * 256 ^ r.length + beVal r

/-- `sharedTransactionData.bytes` -/
def Shared.bytes (x : Shared) : Bytes := x.sender ++ be 4 x.vub ++ be 4 x.nonce

/-- the part of `decodeString` after base64: length test and field extraction -/
def decodeBytes (b : Bytes) : Option Shared :=
  if b.length ≠ sharedLen then none
  else some ⟨b.take uint160Size, beVal ((b.drop uint160Size).take 4), beVal ((b.drop (uint160Size + 4)).take 4)⟩

/-! ### base64.StdEncoding on byte strings -/

def encSextet (v : Nat) : Nat :=
  if v < 26 then 65 + v else if v < 52 then 97 + (v - 26) else if v < 62 then 48 + (v - 52)
  else if v = 62 then 43 else 47

def decSextet (c : Nat) : Option Nat :=
  if 65 ≤ c ∧ c ≤ 90 then some (c - 65) else if 97 ≤ c ∧ c ≤ 122 then some (c - 97 + 26)
  else if 48 ≤ c ∧ c ≤ 57 then some (c - 48 + 52) else if c = 43 then some 62
  else if c = 47 then some 63 else none

def padChar : Nat := 61

def b64Enc : Bytes → Bytes
  | [] => []
  | [a] => [encSextet (a / 4), encSextet (a % 4 * 16), padChar, padChar]
  | [a, b] => [encSextet (a / 4), encSextet (a % 4 * 16 + b / 16), encSextet (b % 16 * 4), padChar]
  | a :: b :: c :: r =>
    encSextet (a / 4) :: encSextet (a % 4 * 16 + b / 16) :: encSextet (b % 16 * 4 + c / 64) ::
      encSextet (c % 64) :: b64Enc r

/-- quanta of four characters; padding only in the last quantum; trailing bits are not checked
(non-strict mode) -/
def b64DecQuanta : Bytes → Option Bytes
  | [] => some []
  | a :: b :: c :: d :: r =>
    if r = [] ∧ d = padChar then
      if c = padChar then
        match decSextet a, decSextet b with
        | some x, some y => some [x * 4 + y / 16]
        | _, _ => none
      else
        match decSextet a, decSextet b, decSextet c with
        | some x, some y, some z => some [x * 4 + y / 16, y % 16 * 16 + z / 4]
        | _, _, _ => none
    else
      match decSextet a, decSextet b, decSextet c, decSextet d, b64DecQuanta r with
      | some x, some y, some z, some w, some rest =>
        some ((x * 4 + y / 16) :: (y % 16 * 16 + z / 4) :: (z % 4 * 64 + w) :: rest)
      | _, _, _, _, _ => none
  | _ => none

/-- Go's decoder skips `\r` and `\n` wherever they stand -/
def b64Strip (s : Bytes) : Bytes := s.filter (fun c => c ≠ 10 ∧ c ≠ 13)

def b64Dec (s : Bytes) : Option Bytes := b64DecQuanta (b64Strip s)

/-- `sharedTransactionData.encodeToString` (as bytes of the string) -/
def Shared.encodeToString (x : Shared) : Bytes := b64Enc x.bytes

/-- `sharedTransactionData.decodeString`; `none` = error -/
def decodeString (s : Bytes) : Option Shared :=
  match b64Dec s with
  | none => none
  | some b => decodeBytes b

/-! ### checksum -/

/-- `unshiftChecksum`: first 4 bytes of the digest of the serialised data, then the payload -/
def unshiftChecksum (sha : Bytes → Bytes) (x : Shared) (data : Bytes) : Bytes :=
  (sha x.bytes).take checksumLen ++ data

def isPrefix : Bytes → Bytes → Bool
  | [], _ => true
  | _ :: _, [] => false
  | a :: p, b :: l => a = b && isPrefix p l

/-- `shiftChecksum`: `(false, data)` when too short, `(false, nil)` on mismatch -/
def shiftChecksum (sha : Bytes → Bytes) (x : Shared) (data : Bytes) : Bool × Bytes :=
  if data.length < checksumLen then (false, data)
  else if ¬ isPrefix ((sha x.bytes).take checksumLen) data then (false, [])
  else (true, data.drop checksumLen)

/-- `sharedTxDataMatches` on the fields of the transaction it reads -/
def sharedTxDataMatches (txNonce txVub : Nat) (signers : List Bytes) (d : Shared) : Bool :=
  d.nonce = txNonce && d.vub = txVub &&
    (match signers with
     | [] => false
     | s :: _ => s = d.sender)

/-! ## NNS names -/

def asciiOf (s : String) : Bytes := s.toList.map Char.toNat

/-- `fmt.Sprintf("%s%d.%s", domainDesignateNotaryPrefix, memberIndex, domainBootstrap)` -/
def sigDomain (i : Int) : String :=
  Generated.deploy_domainDesignateNotaryPrefix ++ toString i ++ "." ++ Generated.deploy_domainBootstrap

/-- `fmt.Sprintf(domainAlphabetFmt, index)` with `domainAlphabetFmt = "alphabet%d"` -/
def alphabetDomain (i : Int) : String := "alphabet" ++ toString i

end NeoFS.DeployHelpers
