import NeoFS.Base.Bytes
import NeoFS.Generated.Consts
/-! # Netmap contract, snapshot history (contracts/netmap/contract.go), hand-written model for C08.

Modelled branch by branch: `_deploy` (fresh deployment: count, ring slots, current id, epoch),
`NewEpoch` (witness, epoch guard, `filterNetmap`, `fillNetmap`, ring advance, `dropNetmap(epoch-count)`),
`UpdateSnapshotCount` (guards incl. the upper bound 256, grow / shrink move loops, slot deletion loop,
node-list drop loop),
`moveSnapshot`, `dropNetmap`, `fourBytesBE`, `Snapshot`, `SnapshotByEpoch`, `ListNodesEpoch`, `Netmap`,
`Epoch`, and — only as far as they decide *what a tick publishes* — `AddPeerIR`, `AddNode`, `DeleteNode`.

Storage is modelled by key family, with the key *construction* kept at byte level where the property
depends on it:
* `snapshot_‖byte(k)`  ↦ `ring : slot byte ↦ published legacy map` (an absent key and an empty list are
  different: moving an absent slot FAULTs); `byte(k)` FAULTs for `k > 255` (NeoVM `SETITEM` on a Buffer);
* `p‖fourBytesBE(e)‖key` ↦ `pl : 4-byte key ↦ node list`, `fourBytesBE` computed from the VM integer
  encoding exactly as the code does (so negative and ≥ 2³² arguments alias other epochs);
* `snapshotCount`, `snapshotCurrent`, `snapshotEpoch` ↦ `count`, `id`, `cur`;
* `candidate‖key`, `2‖key` ↦ `c1`, `c2` (node ids in storage-key order).
A published map is the list of node ids in key order (node contents are opaque to this property).

Not modelled (outside C08): node states other than Online, `UpdateState*`, `AddPeer`, configuration,
subscribers (`cleanup` calls no one on a fresh deployment), `snapshotBlock`, contract update.

`none` = FAULT; `invoke` implements transaction atomicity. Tied to the code by `./check C08`. -/
namespace NeoFS.NetmapRing
open NeoFS

/-- a published network map: node ids in storage-key order -/
abbrev NMap := List Nat

/-! ### key construction -/

/-- `string([]byte{byte(k)})`: the compiler emits `SETITEM` on a one-byte Buffer; the VM FAULTs when the
value does not fit (`> 255`). Indices are never negative here. -/
def slotKey (k : Nat) : Option Nat := if k ≤ 255 then some k else none

/-- `fourBytesBE`: `res := make([]byte,4); copy(res, convert.ToBytes(num)); REVERSEITEMS` -/
def be4 (z : Int) : Bytes := ((encInt z ++ [0, 0, 0, 0]).take 4).reverse

/-! ### the ring: `snapshot_‖b` -/
abbrev Ring := List (Nat × NMap)

def rget (r : Ring) (i : Nat) : Option NMap := (r.find? (fun kv => kv.1 == i)).map (·.2)
def rdel (r : Ring) (i : Nat) : Ring := r.filter (fun kv => kv.1 != i)
def rset (r : Ring) (i : Nat) (v : NMap) : Ring := (i, v) :: rdel r i

/-! ### the structured per-epoch lists: `p‖be4 e‖key` -/
abbrev PL := List (Bytes × NMap)

/-- `storage.Find(p‖k4)`: the node entries under a 4-byte epoch key (none stored = empty) -/
def pget (p : PL) (k : Bytes) : NMap := ((p.find? (fun kv => kv.1 == k)).map (·.2)).getD []
def pdel (p : PL) (k : Bytes) : PL := p.filter (fun kv => kv.1 != k)
def pset (p : PL) (k : Bytes) (v : NMap) : PL := if v = [] then pdel p k else (k, v) :: pdel p k

/-- sorted insert without duplicates (storage keys are unique and iterated in order) -/
def sins (x : Nat) : List Nat → List Nat
  | [] => [x]
  | y :: l => if x < y then x :: y :: l else if x = y then y :: l else y :: sins x l

/-- the entries under one key after putting `xs` next to the existing ones -/
def union (a xs : List Nat) : List Nat := xs.foldl (fun acc x => sins x acc) a

structure State where
  count : Nat          -- snapshotCount
  id : Nat             -- snapshotCurrent
  cur : Nat            -- snapshotEpoch
  ring : Ring
  pl : PL
  c1 : List Nat        -- legacy candidates (`candidate‖key`), key order
  c2 : List Nat        -- structured candidates (`2‖key`), key order
  deriving Repr, DecidableEq

structure Env where
  alphabet : Bool      -- the transaction carries the Alphabet multi-signature witness
  nodeWit : Bool       -- … the witness of the node named by the operation

inductive Op where
  | newEpoch (e : Int)
  | updateSnapshotCount (k : Int)
  | addPeerIR (i : Nat)
  | addNode (i : Nat)
  | deleteNode (i : Nat)
  deriving Repr

/-- `_deploy` (not an update): count, empty lists in slots `0..count-1`, current id 0, epoch 0 -/
def init : State :=
  let n := Generated.netmap_DefaultSnapshotCount.toNat
  ⟨n, 0, 0, (List.range n).map (fun i => (i, [])), [], [], []⟩

/-! ### NewEpoch -/

/-- `fillNetmap`: every structured candidate is put under `p‖be4 e‖key` -/
def fill (p : PL) (k4 : Bytes) (cands : List Nat) : PL := pset p k4 (union (pget p k4) cands)

/-- `dropNetmap`: delete everything found under `p‖be4 e` -/
def dropNetmap (p : PL) (e : Int) : PL := pdel p (be4 e)

def newEpoch (s : State) (env : Env) (e : Int) : Option State :=
  if !env.alphabet then none                                   -- common.CheckAlphabetWitness
  else if e ≤ (s.cur : Int) then none                          -- "invalid epoch"
  else
    let published := s.c1                                      -- filterNetmap (all candidates are Online)
    let pl1 := fill s.pl (be4 e) s.c2                          -- fillNetmap
    if s.count = 0 then none                                   -- (id + 1) % 0
    else
      let id := (s.id + 1) % s.count
      match slotKey id with
      | none => none
      | some b =>
        let ring := rset s.ring b published                    -- SetSerialized(snapshot_‖byte(id))
        let pl2 := if e > (s.count : Int) then dropNetmap pl1 (e - s.count) else pl1
        some { s with cur := e.toNat, id := id, ring := ring, pl := pl2 }

/-! ### UpdateSnapshotCount -/

/-- `moveSnapshot`: both keys are built first, then `Put(keyTo, Get(keyFrom))`; `Put(k, nil)` FAULTs -/
def moveSnapshot (r : Ring) (frm to : Nat) : Option Ring :=
  match slotKey frm, slotKey to with
  | some f, some t =>
    match rget r f with
    | none => none
    | some v => some (rset r t v)
  | _, _ => none

/-- a move loop: `n` iterations, the `i`-th moves `(mv i).1 → (mv i).2`; stops at the first FAULT -/
def moveLoop (r : Ring) (mv : Nat → Nat × Nat) (i : Nat) : Nat → Option Ring
  | 0 => some r
  | n + 1 =>
    match moveSnapshot r (mv i).1 (mv i).2 with
    | none => none
    | some r' => moveLoop r' mv (i + 1) n

/-- `for k := a; k < a+n; k++ { storage.Delete(snapshot_‖byte(k)) }`; building the key FAULTs for `k > 255` -/
def delLoop (r : Ring) (k : Nat) : Nat → Option Ring
  | 0 => some r
  | n + 1 =>
    match slotKey k with
    | none => none
    | some b => delLoop (rdel r b) (k + 1) n

/-- `for k := curEpoch-oldCount+1; k <= curEpoch-count; k++ { dropNetmap(k) }` -/
def dropEpochs (cur old new : Nat) : List Int :=
  (List.range (old - new)).map (fun (i : Nat) => (cur : Int) - (old : Int) + 1 + (i : Int))

def updateSnapshotCount (s : State) (env : Env) (k : Int) : Option State :=
  if !env.alphabet then none                                   -- common.CheckAlphabetWitness
  else if k ≤ 0 then none                                      -- "count must be positive"
  else if k > 256 then none                                    -- "count must not exceed 256" (one-byte slot index)
  else
    let new := k.toNat
    let old := s.count
    if old = new then none                                     -- "count has not changed"
    else
      let id := s.id
      if old < new then
        -- grow: `for k := count-1; k >= lower; k-- { moveSnapshot(k-diff, k) }`
        let diff := new - old
        let lower := diff + id + 1
        match moveLoop s.ring (fun i => (new - 1 - i - diff, new - 1 - i)) 0 (new - lower) with
        | none => none
        | some r =>
          let delFinish := if old < id + 1 + diff then old else id + 1 + diff
          match delLoop r (id + 1) (delFinish - (id + 1)) with
          | none => none
          | some r' =>
            let pl' := (dropEpochs s.cur old new).foldl dropNetmap s.pl
            some { s with count := new, ring := r', pl := pl' }
      else
        -- shrink: `for k := start; k < count; k++ { moveSnapshot(k+step, k) }`
        let step := if id < new then old - new else id - new + 1
        let start := if id < new then id + 1 else 0
        let id' := if id < new then id else new - 1
        match moveLoop s.ring (fun i => (start + i + step, start + i)) 0 (new - start) with
        | none => none
        | some r =>
          match delLoop r new (old - new) with
          | none => none
          | some r' =>
            let pl' := (dropEpochs s.cur old new).foldl dropNetmap s.pl
            some { s with count := new, id := id', ring := r', pl := pl' }

/-! ### candidates (only what a tick publishes) -/

def addPeerIR (s : State) (env : Env) (i : Nat) : Option State :=
  if !env.alphabet then none else some { s with c1 := sins i s.c1 }

def addNode (s : State) (env : Env) (i : Nat) : Option State :=
  if !env.nodeWit then none else if !env.alphabet then none else some { s with c2 := sins i s.c2 }

def deleteNode (s : State) (env : Env) (i : Nat) : Option State :=
  if !env.alphabet then none
  else some { s with c1 := s.c1.filter (· != i), c2 := s.c2.filter (· != i) }

/-! ### read API -/

/-- `Snapshot(diff)` -/
def snapshot (s : State) (d : Int) : Option NMap :=
  if d < 0 ∨ (s.count : Int) ≤ d then none                    -- "incorrect diff"
  else
    let need := (((s.id : Int) - d + s.count) % s.count).toNat
    match slotKey need with
    | none => none
    | some b => some ((rget s.ring b).getD [])                 -- getSnapshot: absent key = empty list

/-- `SnapshotByEpoch(epoch)` -/
def snapshotByEpoch (s : State) (e : Int) : Option NMap := snapshot s ((s.cur : Int) - e)

/-- `ListNodesEpoch(epoch)` (exposed as `listNodes(epoch)`) -/
def listNodes (s : State) (e : Int) : NMap := pget s.pl (be4 e)

/-- `Netmap()` -/
def netmap (s : State) : Option NMap :=
  match slotKey s.id with
  | none => none
  | some b => some ((rget s.ring b).getD [])

/-! ### invocation -/

def step (s : State) (env : Env) : Op → Option State
  | .newEpoch e => newEpoch s env e
  | .updateSnapshotCount k => updateSnapshotCount s env k
  | .addPeerIR i => addPeerIR s env i
  | .addNode i => addNode s env i
  | .deleteNode i => deleteNode s env i

/-- transaction atomicity: a FAULT leaves the state untouched -/
def invoke (s : State) (env : Env) (op : Op) : State × Bool :=
  match step s env op with
  | none => (s, false)
  | some s' => (s', true)

def run (s : State) : List (Env × Op) → State
  | [] => s
  | (env, op) :: rest => run (invoke s env op).1 rest

/-! ### branch ids (driver only) -/
def branch (s : State) (env : Env) : Op → String
  | .newEpoch e =>
    if !env.alphabet then "tick.nowitness" else if e ≤ (s.cur : Int) then "tick.stale"
    else if s.count = 0 then "tick.div0" else if (slotKey ((s.id + 1) % s.count)).isNone then "tick.slot256"
    else (if (s.id + 1) % s.count = 0 then "tick.wrap" else "tick.next") ++
         (if e > (s.count : Int) then ",tick.drop" else ",tick.nodrop") ++
         (if e = (s.cur : Int) + 1 then "" else ",tick.jump")
  | .updateSnapshotCount k =>
    if !env.alphabet then "resize.nowitness" else if k ≤ 0 then "resize.nonpositive"
    else if k > 256 then "resize.above256"
    else if s.count = k.toNat then "resize.same"
    else
      let kind := if s.count < k.toNat then "resize.grow" else if s.id < k.toNat then "resize.shrinkK2" else "resize.shrinkK1"
      match updateSnapshotCount s env k with
      | none => kind ++ ".fault"
      | some _ => kind
  | .addPeerIR _ => if env.alphabet then "addpeer" else "addpeer.nowitness"
  | .addNode _ => if !env.nodeWit then "addnode.nonodewitness" else if env.alphabet then "addnode" else "addnode.nowitness"
  | .deleteNode _ => if env.alphabet then "delnode" else "delnode.nowitness"

end NeoFS.NetmapRing
