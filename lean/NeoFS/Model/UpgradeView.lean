import NeoFS.Model.Upgrade
/-! # The read API of the contracts as far as property C16 looks through it (`absNew`), and the same
questions asked of a storage in the documented OLD layout (`absOld`).

`none` = the getter FAULTs. The getters are those of the CURRENT sources (they are what answers after
an upgrade); the old-layout readings differ only in where they look (un-prefixed keys). The
correspondence run compares every getter below with the real contract before and after `update`. -/
namespace NeoFS.Upgrade
open NeoFS NeoFS.Generated

/-- the entries under a one-byte prefix, prefix removed (what `Find(prefix, RemovePrefix)` lists), unordered -/
def prefixView (p : Nat) (s : Store) : Store :=
  (s.filter (fun kv => hasPrefix [p] kv.1)).map (fun kv => (kv.1.drop 1, kv.2))

/-- the entries whose key has exactly `n` bytes (a family of an un-prefixed old layout), unordered -/
def lengthView (n : Nat) (s : Store) : Store := s.filter (fun kv => kv.1.length = n)

/-! ### Balance -/

/-- `getAccount(...).Balance` for the record stored under `key` -/
def accountBalanceAt (s : Store) (key : Bytes) : Option Int :=
  match get s key with
  | none => some 0
  | some b =>
    match deser b with
    | none => none
    | some it =>
      match elems it with
      | some (x :: _) => toInt x
      | _ => none

/-- `balanceOf(acc)` of the current executable: the record under `a ‖ acc` -/
def balanceOfNew (s : Store) (acc : Bytes) : Option Int := accountBalanceAt s (accPrefix :: acc)
/-- the balance of `acc` in the layout before 0.20: the record under the bare 20-byte key -/
def balanceOfOld (s : Store) (acc : Bytes) : Option Int := accountBalanceAt s acc

/-- `totalSupply()` (same key in both layouts) -/
def totalSupply (s : Store) : Option Int :=
  match get s balance_circulation_bytes with
  | none => some 0
  | some b => if b.length ≤ 32 then some (decInt b) else none

/-- all account records as `NewEpoch` iterates them (`Find(a)`, prefix removed) -/
def accountsNew (s : Store) : Store := prefixView accPrefix s
/-- all account records of the old layout: the 20-byte keys -/
def accountsOld (s : Store) : Store := lengthView 20 s

/-! ### Container -/

def byteLen : Item → Option Nat
  | .bytes b => some b.length
  | .buffer b => some b.length
  | _ => none

/-- `getContainer` + the `len(cnt.Value) == 0` test of `Get`, for the record under `key` -/
def containerAt (s : Store) (key : Bytes) : Option Item :=
  match get s key with
  | none => none                                   -- NotFoundError
  | some b =>
    match deser b with
    | none => none
    | some it =>
      match elems it with
      | some (v :: _) =>
        match byteLen v with
        | some n => if n = 0 then none else some it
        | none => none
      | _ => none

def containerNew (s : Store) (cid : Bytes) : Option Item := containerAt s (cnrPrefix :: cid)
def containerOld (s : Store) (cid : Bytes) : Option Item := containerAt s cid

/-- `ownerFromBinaryContainer` -/
def ownerOfBlob (v : Bytes) : Option Bytes :=
  match v[1]? with
  | none => none
  | some o =>
    let off := 2 + o + 4
    if v.length < off + 25 then none else some ((v.drop off).take 25)

def ownerAt (s : Store) (key : Bytes) : Option Bytes :=
  match containerAt s key with
  | none => none
  | some it =>
    match elems it with
    | some (.bytes v :: _) => ownerOfBlob v
    | some (.buffer v :: _) => ownerOfBlob v
    | _ => none

def ownerNew (s : Store) (cid : Bytes) : Option Bytes := ownerAt s (cnrPrefix :: cid)

/-- `count()` -/
def countNew (s : Store) : Nat := (prefixView cnrPrefix s).length
/-- number of containers of the old layout: the 32-byte keys -/
def countOld (s : Store) : Nat := (lengthView 32 s).length

/-- `list(nil)` = `getAllContainers`: the ids in key order -/
def allContainersNew (s : Store) : List Bytes := (snapshot s [cnrPrefix]).map (fun kv => kv.1.drop 1)

/-- the container records `(id, blob)` in both layouts (unordered) -/
def containersNew (s : Store) : Store := prefixView cnrPrefix s
def containersOld (s : Store) : Store := lengthView 32 s

/-- the owner index `(owner ‖ id, id)` in both layouts (unordered) -/
def ownerIndexNew (s : Store) : Store := prefixView ownPrefix s
def ownerIndexOld (s : Store) : Store := lengthView 57 s

/-- `list(owner)` / `containersOf(owner)` for a non-empty owner: the values under `o ‖ owner`, key order -/
def listNew (s : Store) (owner : Bytes) : List Bytes := (snapshot s (ownPrefix :: owner)).map (·.2)

/-- the same listing asked of the layout before 0.17: the values under the bare 57-byte keys `owner ‖ cid` -/
def listOld (s : Store) (owner : Bytes) : List Bytes :=
  ((lengthView 57 s).filter (fun kv => hasPrefix owner kv.1)).map (·.2)

/-- `eACL(cid)` with the container record under `cnrKey`: `some none` = the default (empty) table -/
def eaclAt (s : Store) (cnrKey cid : Bytes) : Option (Option Item) :=
  match ownerAt s cnrKey with
  | none => none
  | some _ =>
    match get s (container_eACLPrefix ++ cid) with
    | none => some none
    | some b => (deser b).map some

def eaclNew (s : Store) (cid : Bytes) : Option (Option Item) := eaclAt s (cnrPrefix :: cid) cid
def eaclOld (s : Store) (cid : Bytes) : Option (Option Item) := eaclAt s cid cid

/-- `alias(cid)` with the container record under `cnrKey`: `some none` = Null -/
def aliasAt (s : Store) (cnrKey cid : Bytes) : Option (Option Bytes) :=
  match ownerAt s cnrKey with
  | none => none
  | some _ => some (get s (container_nnsHasAliasKey_bytes ++ cid))

def aliasNew (s : Store) (cid : Bytes) : Option (Option Bytes) := aliasAt s (cnrPrefix :: cid) cid
def aliasOld (s : Store) (cid : Bytes) : Option (Option Bytes) := aliasAt s cid cid

/-! ### Netmap -/

/-- `getSnapshot` -/
def nmSnapshotAt (s : Store) (i : Nat) : Option Item :=
  match get s (snapshotKey i) with
  | none => some (.array [])
  | some b => deser b

def storedInt (s : Store) (key : Bytes) : Option Int :=
  match get s key with
  | none => none
  | some b => if b.length ≤ 32 then some (decInt b) else none

/-- `netmap()` -/
def nmNetmap (s : Store) : Option Item :=
  match storedInt s netmap_snapshotCurrentIDKey_bytes with
  | none => none
  | some id => if id < 0 ∨ 255 < id then none else nmSnapshotAt s id.toNat

/-- `snapshot(diff)` -/
def nmSnapshot (s : Store) (diff : Int) : Option Item :=
  match storedInt s netmap_snapshotCountKey_bytes, storedInt s netmap_snapshotCurrentIDKey_bytes with
  | some count, some id =>
    if diff < 0 ∨ count ≤ diff then none
    else
      let need := (id - diff + count) % count
      if need < 0 ∨ 255 < need then none else nmSnapshotAt s need.toNat
  | _, _ => none

def deserAll : List (Bytes × Bytes) → Option (List Item)
  | [] => some []
  | kv :: r =>
    match deser kv.2 with
    | none => none
    | some it =>
      match deserAll r with
      | none => none
      | some l => some (it :: l)

/-- `netmapCandidates()` -/
def nmCandidates (s : Store) : Option (List Item) := deserAll (snapshot s netmap_candidatePrefix)

/-- `listConfig()`: `(key without prefix, value)` in key order -/
def nmConfig (s : Store) : Store :=
  (snapshot s netmap_configPrefix).map (fun kv => (kv.1.drop netmap_configPrefix.length, kv.2))

/-- the NewEpoch subscribers in call order (`cleanup`): keys under `e`, index byte dropped -/
def nmSubscribers (s : Store) : List Bytes :=
  (snapshot s netmap_newEpochSubscribersPrefix_bytes).map (fun kv => kv.1.drop 2)

/-! ### NNS, NeoFSID -/

/-- NNS `balanceOf(owner)` -/
def nnsBalanceOf (s : Store) (owner : Bytes) : Option Int :=
  match get s (nns_prefixBalance.toNat :: owner) with
  | none => some 0
  | some b => if b.length ≤ 32 then some (decInt b) else none

/-- NNS `totalSupply()` -/
def nnsTotalSupply (s : Store) : Option Int :=
  match get s [nns_prefixTotalSupply.toNat] with
  | none => none
  | some b => if b.length ≤ 32 then some (decInt b) else none

/-- NeoFSID `key(owner)`: the keys under `o ‖ owner`, prefix removed, key order -/
def idKeys (s : Store) (owner : Bytes) : List Bytes :=
  (snapshot s (neofsid_ownerKeysPrefix.toNat :: owner)).map (fun kv => kv.1.drop (1 + owner.length))

end NeoFS.Upgrade
