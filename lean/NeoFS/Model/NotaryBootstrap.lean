import NeoFS.Generated.Consts
import NeoFS.Generated.DeployFacts
/-! # Notary bootstrap of the committee (`deploy/notary.go`), property C13, layer 2 — message-level model

`enableNotary` lets an n-member committee designate the Notary role to itself before the Notary
service exists: the leader (member 0) publishes shared transaction data in an NNS record, every
other member publishes its signature of the transaction built from that data under its own NNS
domain, the leader collects `M − 1` of them (`M = n − (n−1)/2`), appends them to the committee
witness and sends the transaction.

The model keeps the decision structure of

* `enableNotary`                                   → `leaderStep` / `signerStep` (role check first)
* `initDesignateNotaryRoleToLocalAccountTick`      → `soloTick`   (n = 1)
* `initDesignateNotaryRoleAsLeaderTick`            → `leaderTick` (domain / record / expiry), `leaderMain`
                                                     (make the transaction, `collect` the signatures),
                                                     `leaderSend` (guards, finalisation, `Send`), `generate`
                                                     (`generateAndShareTxData` with `resetTx`)
* `initDesignateNotaryRoleAsSignerTick`            → `signerTick`, `signerPublish`

including the quirks of the code as it stands: before (re)sending the designation the leader consults
`registerDomainTxMonitor` (not `designateRoleTxMonitor`), and `triedDesignateRoleTx` is never reset
(`Props/C13.lean`, `lost_designation_is_never_resent`);

and abstracts: the chain to `{height, the tx-data domain and record, signature domains and
records, the block that accepted the designation}`; signatures to `(signer, signed data)`;
the 4-byte checksum to the shared data it was made from; RPC/GAS failures (none). Rounds are
deterministic: every live member ticks once on the same chain state, then one block includes what
was sent (`round`). What the environment still chooses per round is in `Env`: who ticks, who restarts
with a fresh process state, the random nonce, Go's map iteration order, loss of the designation
transaction.

The index maps of the leader's collection loop and of the signers are a parameter (`Maps`); the maps
of the code under test are extracted from `deploy/notary.go` into `Generated/DeployFacts.lean`
(`current`). -/
namespace NeoFS.NotaryBootstrap

/-- Which domains the leader reads, which key it verifies with, where a signer writes.
The leader loops over `i ∈ [lo n, hi n)`, reads the signature domain number `i + domOff`, verifies
with committee key `i + keyOff` and stores under that index; signer `j` writes domain `j + sdOff`;
`sorted` = collected signatures are appended in ascending committee index (else in Go map order). -/
structure Maps where
  lo : Nat → Nat
  hi : Nat → Nat
  domOff : Nat
  keyOff : Nat
  sdOff : Nat
  sorted : Bool
  /-- a signer whose published record belongs to OUTDATED shared data replaces it (`setRecord(id 0)`, the
  code sets `recordExists` for every record it found) — `false`: it re-signs with `addRecord`, which NNS
  appends as record #1 while everybody reads record #0 -/
  replaceOutdated : Bool

/-- the maps of the code under test -/
def current : Maps :=
  { lo := Generated.DeployFacts.leaderLoopLo, hi := Generated.DeployFacts.leaderLoopHi,
    domOff := Generated.DeployFacts.leaderDomainOff, keyOff := Generated.DeployFacts.leaderKeyOff,
    sdOff := Generated.DeployFacts.signerDomainOff, sorted := Generated.DeployFacts.appendSorted,
    replaceOutdated := Generated.DeployFacts.signerReplacesOutdatedRecord }

/-- the maps of the tree before `fix:` bbff1af / 7a46371 (F11, F12): `for i := range committee[1:]` -/
def beforeFix : Maps :=
  { lo := fun _ => 0, hi := fun n => n - 1, domOff := 0, keyOff := 0, sdOff := 0, sorted := false, replaceOutdated := true }

/-- `smartcontract.GetMajorityHonestNodeCount` -/
def majority (n : Nat) : Nat := n - (n - 1) / 2

/-- `sharedTransactionData` without the (constant) sender -/
structure Shared where
  vub : Nat
  nonce : Nat
  deriving DecidableEq, Repr

/-- abstract signature: who signed the designation transaction built from which shared data -/
structure Sig where
  signer : Nat
  over : Shared
  deriving DecidableEq, Repr

/-- content of a signature record: checksum of the shared data it belongs to, then the signature -/
structure SigRec where
  cs : Shared
  sig : Sig
  deriving DecidableEq, Repr

structure Chain where
  height : Nat
  txDom : Bool                    -- designate-committee-notary-tx.bootstrap is registered
  txRec : Option Shared           -- its TXT record
  sigDom : Nat → Bool             -- designate-committee-notary-<k>.bootstrap is registered
  sigRec : Nat → Option SigRec    -- its TXT record
  roleAt : Option Nat             -- block that accepted the designation of the Notary role to the committee

/-- `checkRole`: `GetDesignatedByRole(role, currentHeight)` sees a designation made in block `b`
from height `b + 1` on -/
def Chain.roleVisible (c : Chain) : Bool :=
  match c.roleAt with
  | some b => decide (b < c.height)
  | none => false

def Chain.fresh (h : Nat) : Chain := ⟨h, false, none, fun _ => false, fun _ => none, none⟩

/-- CHECKMULTISIG of the M-of-n committee witness: exactly `M` signatures of the transaction, made
with keys of strictly ascending committee index -/
def validScript (n : Nat) (d : Shared) (script : List Sig) : Prop :=
  script.length = majority n ∧ (script.map (·.signer)).Pairwise (· < ·) ∧
    ∀ s ∈ script, s.signer < n ∧ s.over = d

instance (n : Nat) (d : Shared) (script : List Sig) : Decidable (validScript n d script) := by
  unfold validScript; infer_instance

/-! ## leader -/

structure Leader where
  tx : Option Shared              -- `tx` (nil or built from this shared data)
  sigs : List (Nat × Sig)         -- `mCommitteeIndexToSignature`, kept in ascending index order
  fullySigned : Bool              -- `txFullySigned`
  script : List Sig               -- invocation script of the committee witness of `tx`
  tried : Bool                    -- `triedDesignateRoleTx`
  pendReg : Bool                  -- `registerDomainTxMonitor.isPending()`
  pendSet : Bool                  -- `setDomainRecordTxMonitor.isPending()`
  pendDes : Bool                  -- `designateRoleTxMonitor.isPending()`
  deriving Repr

def Leader.init : Leader := ⟨none, [], false, [], false, false, false, false⟩

inductive LAct
  | none
  | regTxDom
  | setTxRec (d : Shared)
  /-- `localActor.Send(tx)` accepted by the RPC node -/
  | designate (d : Shared) (script : List Sig)
  /-- `localActor.Send(tx)` answered ErrVerificationFailed; the leader regenerates the shared data -/
  | designateRefused (d : Shared) (script : List Sig) (next : Shared)
  /-- n = 1: plain transaction of the single member -/
  | designateSolo
  deriving DecidableEq, Repr

structure Env where
  live : Nat → Bool                                     -- who ticks in this round
  fresh : Nat → Bool                                    -- who (re)starts with an empty process state
  nonce : Nat                                           -- `rand.Uint32()`
  order : List (Nat × Sig) → List (Nat × Sig)           -- Go map iteration order
  dropDesignate : Bool                                  -- the designation transaction sent in this round is lost

/-- map assignment `m[k] = s` on the ascending association list -/
def insertSig (k : Nat) (s : Sig) : List (Nat × Sig) → List (Nat × Sig)
  | [] => [(k, s)]
  | (k', s') :: r =>
    if k < k' then (k, s) :: (k', s') :: r
    else if k = k' then (k, s) :: r
    else (k', s') :: insertSig k s r

inductive Collected
  | regenerate                      -- too many invalid signatures: `generateAndShareTxData(true)`
  | sigs (m : List (Nat × Sig))     -- the map after the loop (run to the end or left by `break`)
  deriving Repr

/-- the collection loop of the leader over the loop indices `is`; `inv` = `invalidSignatureCounter` -/
def collect (mp : Maps) (n need : Nat) (c : Chain) (d : Shared) :
    List Nat → List (Nat × Sig) → Nat → Collected
  | [], m, _ => .sigs m
  | i :: is, m, inv =>
    match c.sigRec (i + mp.domOff) with
    | none => collect mp n need c d is m inv                           -- missing domain / record: wait
    | some r =>
      if r.cs ≠ d then collect mp n need c d is m inv                  -- checksum mismatch: skip
      else if ¬ (r.sig.signer = i + mp.keyOff ∧ r.sig.over = d) then   -- VerifyHashable with key i+keyOff
        if inv + 1 + majority n > n then .regenerate
        else collect mp n need c d is m (inv + 1)
      else
        let m' := insertSig (i + mp.keyOff) r.sig m
        if m'.length = need then .sigs m' else collect mp n need c d is m' inv

def vubIncrement (maxInc : Nat) : Nat :=
  let dflt := (Generated.deploy_initDesignateNotaryRoleAsLeaderTick_defaultValidUntilBlockIncrement).toNat
  if dflt ≤ maxInc then dflt else maxInc

/-- `generateAndShareTxData`: `resetTx`, fresh shared data, one NNS transaction -/
def generate (maxInc : Nat) (env : Env) (c : Chain) (l : Leader) : Leader × Shared :=
  ({ l with tx := none, sigs := [], fullySigned := false, script := [], pendSet := true, pendDes := false },
   ⟨c.height + vubIncrement maxInc, env.nonce⟩)

def generateAct (maxInc : Nat) (env : Env) (c : Chain) (l : Leader) : Leader × LAct :=
  ((generate maxInc env c l).1, .setTxRec (generate maxInc env c l).2)

def loopIndices (mp : Maps) (n : Nat) : List Nat := List.range' (mp.lo n) (mp.hi n - mp.lo n)

/-- `initDesignateNotaryRoleAsLeaderTick`, last part: enough signatures are gathered — the pending / tried
guards, finalisation of the witness, `localActor.Send(tx)` -/
def leaderSend (mp : Maps) (n maxInc : Nat) (env : Env) (c : Chain) (d : Shared) (l2 : Leader) : Leader × LAct :=
  if l2.pendReg then (l2, .none)                        -- (sic) the code asks registerDomainTxMonitor here
  else if l2.tried then generateAct maxInc env c l2      -- "expired without side-effect, will recreate"
  else
    let l3 := if l2.fullySigned then l2 else
      { l2 with script := l2.script ++ ((if mp.sorted then l2.sigs else env.order l2.sigs).map (·.2)),
                fullySigned := true }
    -- `localActor.Send(tx)`: the RPC node refuses an expired transaction (ValidUntilBlock ≤ height:
    -- "failed to send …, will try again later") and one whose witnesses do not verify
    if ¬ (c.height < d.vub) then (l3, .none)
    else if validScript n d l3.script then
      ({ l3 with tried := true, pendDes := true }, .designate d l3.script)
    else
      ((generate maxInc env c l3).1, .designateRefused d l3.script (generate maxInc env c l3).2)

/-- `initDesignateNotaryRoleAsLeaderTick`, middle part: the shared data `d` is on chain and not expired —
(re)make the transaction, collect signatures -/
def leaderMain (mp : Maps) (n maxInc : Nat) (env : Env) (c : Chain) (d : Shared) (l : Leader) : Leader × LAct :=
  -- `tx == nil || !sharedTxDataMatches`: make the transaction, sign with the local and the committee account
  let l1 := if l.tx = some d then l else { l with tx := some d, script := [⟨0, d⟩] }
  match (if l1.sigs.length < majority n - 1
         then collect mp n (majority n - 1) c d (loopIndices mp n) l1.sigs 0 else .sigs l1.sigs) with
  | .regenerate => generateAct maxInc env c l1
  | .sigs m =>
    if m.length < majority n - 1 then ({ l1 with sigs := m }, .none)      -- not enough signatures yet
    else leaderSend mp n maxInc env c d { l1 with sigs := m }

/-- one call of the function returned by `initDesignateNotaryRoleAsLeaderTick` -/
def leaderTick (mp : Maps) (n maxInc : Nat) (env : Env) (c : Chain) (l : Leader) : Leader × LAct :=
  if ¬ c.txDom then
    -- NNS domain is missing, registration is needed
    if l.pendReg then (l, .none) else ({ l with pendReg := true }, .regTxDom)
  else
    match c.txRec with
    | none =>
      -- missing record of the NNS domain
      if l.pendSet then (l, .none) else generateAct maxInc env c l
    | some d =>
      if c.height > d.vub then generateAct maxInc env c l          -- shared data expired
      else leaderMain mp n maxInc env c d l

/-- one call of the function returned by `initDesignateNotaryRoleToLocalAccountTick` (n = 1) -/
def soloTick (l : Leader) : Leader × LAct :=
  if l.pendDes then (l, .none) else ({ l with pendDes := true }, .designateSolo)

/-- body of the `enableNotary` loop for member 0: role check, then the tick -/
def leaderStep (mp : Maps) (n maxInc : Nat) (env : Env) (c : Chain) (l : Leader) : Leader × LAct :=
  if c.roleVisible then (l, .none)                                 -- all committee members have a Notary role: return nil
  else if n = 1 then soloTick l
  else leaderTick mp n maxInc env c l

/-! ## signers -/

structure Signer where
  tx : Option Shared
  pendReg : Bool
  pendSet : Bool
  deriving Repr

def Signer.init : Signer := ⟨none, false, false⟩

inductive SAct
  | none
  | regDom                      -- register designate-committee-notary-<j+sdOff>.bootstrap
  | setRec (r : SigRec)         -- record #0 of that domain becomes `r`: `addRecord` on a domain without records, `setRecord(id 0)`
  | appendRec (r : SigRec)      -- `addRecord` on a domain that has a record: NNS stores `r` as record #1 (or refuses a
                                -- duplicate); record #0, the only one anybody reads, stays
  deriving DecidableEq, Repr

/-- `SignHashable` + `unshiftChecksum` -/
def signRec (j : Nat) (d : Shared) : SigRec := ⟨d, ⟨j, d⟩⟩

/-- `initDesignateNotaryRoleAsSignerTick`, second part: the transaction for the shared data `d` is in hand —
register the own signature domain, publish or refresh the own signature -/
def signerPublish (mp : Maps) (j : Nat) (c : Chain) (d : Shared) (s1 : Signer) : Signer × SAct :=
  if ¬ c.sigDom (j + mp.sdOff) then
    -- NNS domain is missing, registration is needed
    if s1.pendReg then (s1, .none) else ({ s1 with pendReg := true }, .regDom)
  else
    match c.sigRec (j + mp.sdOff) with
    | none =>
      -- missing record of the NNS domain, needed to be set
      if s1.pendSet then (s1, .none) else ({ s1 with pendSet := true }, .setRec (signRec j d))
    | some r =>
      if r.cs ≠ d then                                       -- checksum of other (outdated) shared data: sign again
        ({ s1 with pendSet := true }, if mp.replaceOutdated then .setRec (signRec j d) else .appendRec (signRec j d))
      else if ¬ (r.sig.signer = j ∧ r.sig.over = d) then ({ s1 with pendSet := true }, .setRec (signRec j d))
      else (s1, .none)                                       -- own valid signature is published

/-- one call of the function returned by `initDesignateNotaryRoleAsSignerTick` for member `j` -/
def signerTick (mp : Maps) (j : Nat) (c : Chain) (s : Signer) : Signer × SAct :=
  if ¬ c.txDom then (s, .none)                                     -- NNS domain is missing, will wait for a leader
  else
    match c.txRec with
    | none => (s, .none)                                           -- missing record, will wait for a leader
    | some d =>
      if c.height > d.vub then ({ s with tx := none, pendSet := false }, .none)   -- expired: resetTx, wait for the leader
      else signerPublish mp j c d (if s.tx = some d then s else { s with tx := some d })  -- recreate the transaction if needed

def signerStep (mp : Maps) (j : Nat) (c : Chain) (s : Signer) : Signer × SAct :=
  if c.roleVisible then (s, .none) else signerTick mp j c s

/-! ## rounds -/

structure State where
  chain : Chain
  leader : Leader
  signer : Nat → Signer

def State.init (h : Nat) : State := ⟨Chain.fresh h, Leader.init, fun _ => Signer.init⟩

/-- the only member that writes signature domain `k` -/
def writerOf (mp : Maps) (n k : Nat) : Option Nat :=
  if mp.sdOff ≤ k ∧ 1 ≤ k - mp.sdOff ∧ k - mp.sdOff < n then some (k - mp.sdOff) else none

/-- the next block: everything sent in the round is included (`dropDesignate` excepted) -/
def applyBlock (mp : Maps) (n : Nat) (env : Env) (c : Chain) (la : LAct) (sa : Nat → SAct) : Chain :=
  { height := c.height + 1,
    txDom := c.txDom || (match la with | .regTxDom => true | _ => false),
    txRec := (match la with
              | .setTxRec d => some d
              | .designateRefused _ _ d => some d
              | _ => c.txRec),
    sigDom := fun k => c.sigDom k ||
      (match writerOf mp n k with
       | some j => (match sa j with | .regDom => true | _ => false)
       | none => false),
    sigRec := fun k =>
      (match writerOf mp n k with
       | some j => (match sa j with | .setRec r => some r | _ => c.sigRec k)
       | none => c.sigRec k),
    roleAt := (match c.roleAt with
               | some b => some b
               | none =>
                 match la with
                 | .designate d script =>
                   if validScript n d script ∧ c.height + 1 ≤ d.vub ∧ env.dropDesignate = false
                   then some (c.height + 1) else none
                 | .designateSolo => if env.dropDesignate = false then some (c.height + 1) else none
                 | _ => none) }

/-- the transaction monitors report back before the next tick -/
def Leader.settle (l : Leader) : Leader := { l with pendReg := false, pendSet := false, pendDes := false }
def Signer.settle (s : Signer) : Signer := { s with pendReg := false, pendSet := false }

def leaderOut (mp : Maps) (n maxInc : Nat) (env : Env) (s : State) : Leader × LAct :=
  let l0 := if env.fresh 0 then Leader.init else s.leader
  if env.live 0 then leaderStep mp n maxInc env s.chain l0 else (l0, .none)

def signerOut (mp : Maps) (n : Nat) (env : Env) (s : State) (j : Nat) : Signer × SAct :=
  let s0 := if env.fresh j then Signer.init else s.signer j
  if env.live j ∧ 1 ≤ j ∧ j < n then signerStep mp j s.chain s0 else (s0, .none)

def round (mp : Maps) (n maxInc : Nat) (env : Env) (s : State) : State :=
  { chain := applyBlock mp n env s.chain (leaderOut mp n maxInc env s).2 (fun j => (signerOut mp n env s j).2),
    leader := (leaderOut mp n maxInc env s).1.settle,
    signer := fun j => (signerOut mp n env s j).1.settle }

def run (mp : Maps) (n maxInc : Nat) (s : State) : List Env → State
  | [] => s
  | e :: es => run mp n maxInc (round mp n maxInc e s) es

/-- the fair environment for a live set: these members tick in every round, nobody restarts, nothing is lost -/
def fairEnv (live : Nat → Bool) (nonce : Nat) : Env := ⟨live, fun _ => false, nonce, id, false⟩

def rounds (mp : Maps) (n maxInc : Nat) (live : Nat → Bool) (nonce : Nat) : Nat → State → State
  | 0, s => s
  | k + 1, s => rounds mp n maxInc live nonce k (round mp n maxInc (fairEnv live nonce) s)

end NeoFS.NotaryBootstrap
