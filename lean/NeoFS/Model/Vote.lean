import NeoFS.Base.Bytes
import NeoFS.Generated.Consts
/-! # Vote collection without Notary (common/vote.go, common/ir.go), hand-written model.

`Ballot`, `vote` (= `common.Vote`), `removeVotes` (= `common.RemoveVotes`), `invoker`
(= `common.InnerRingInvoker`) and `collect`: the code sequence every vote-collected method of the
main-chain NeoFS contract repeats (`threshold := len(alphabet)*2/3 + 1; n := Vote(..); if n < threshold
{ return }; RemoveVotes(..)`).

The decision id is an opaque byte string: `cheque`, `alphabetUpdate` and `setConfig` use their `id`
argument as it is, `innerRingCandidateRemove` uses `sha256(key ‖ "delete")`, which the harness computes
and passes on the op line (hashes are never computed in Lean).
Tied to the code by the correspondence run of `./check C17|C19`. -/
namespace NeoFS.Vote
open NeoFS

/-- `common.Ballot` -/
structure Ballot where
  id : Bytes
  voters : List Bytes
  height : Int
  deriving Repr, DecidableEq

/-- `const blockDiff = 20` (regenerated from the sources) -/
def blockDiff : Int := NeoFS.Generated.common_blockDiff

/-- result of `common.Vote`: `dup n` is the early `return len(voters)` (nothing is written),
`stored bs n` is the path that ends with `SetSerialized(ctx, voteKey, newCandidates)` -/
inductive VoteRes where
  | dup (n : Nat)
  | stored (bs : List Ballot) (n : Nat)
  deriving Repr, DecidableEq

/-- `newCandidates = append(newCandidates, cnd)` for the remaining iterations -/
def VoteRes.cons (c : Ballot) : VoteRes → VoteRes
  | .dup n => .dup n
  | .stored l n => .stored (c :: l) n

/-- the `for _, cnd := range candidates` loop of `common.Vote` followed by the `if found < 0` block.
`found` mirrors the Go variable (`none` = -1). -/
def voteLoop (h : Int) (id frm : Bytes) : List Ballot → Option Nat → VoteRes
  | [], some n => .stored [] n
  | [], none => .stored [⟨id, [frm], h⟩] 1                        -- `if found < 0 {…}`
  | c :: rest, found =>
    if h - c.height > blockDiff then voteLoop h id frm rest found  -- stale ballot: `continue`
    else if c.id = id then
      if c.voters.contains frm then .dup c.voters.length          -- `return len(voters)`
      else (voteLoop h id frm rest (some (c.voters.length + 1))).cons ⟨id, c.voters ++ [frm], h⟩
    else (voteLoop h id frm rest found).cons c

/-- `common.Vote(ctx, id, from)` at block height `h` (`ledger.CurrentIndex()`) -/
def vote (bs : List Ballot) (h : Int) (id frm : Bytes) : VoteRes := voteLoop h id frm bs none

/-- the `for i, cnd := range candidates { if bytesEqual(cnd.ID, id) { index = i; break } }` loop -/
def firstIdx (id : Bytes) : List Ballot → Option Nat
  | [] => none
  | c :: rest => if c.id = id then some 0 else (firstIdx id rest).map (· + 1)

/-- `common.RemoveVotes`: `index` stays 0 when no ballot has the id (`var index int`);
`util.Remove(candidates, index)` FAULTs on an index out of range (`none`) -/
def removeVotes (bs : List Ballot) (id : Bytes) : Option (List Ballot) :=
  let i := (firstIdx id bs).getD 0
  if i < bs.length then some (bs.eraseIdx i) else none

/-- `len(alphabet)*2/3 + 1` -/
def threshold (n : Nat) : Nat := n * 2 / 3 + 1

/-- `common.InnerRingInvoker`: the first stored key whose witness is present.
`wit k = none` models `runtime.CheckWitness` FAULTing on a byte string that is not a public key. -/
def invoker (wit : Bytes → Option Bool) : List Bytes → Option (Option Bytes)
  | [] => some none
  | k :: rest =>
    match wit k with
    | none => none
    | some true => some (some k)
    | some false => invoker wit rest

/-- the shared tail `n := Vote(..); if n < threshold { return }; RemoveVotes(..)`.
`none` = FAULT; `some (bs', fire)`: the new ballot list and whether the method goes on to execute. -/
def collect (thr : Nat) (bs : List Ballot) (h : Int) (id k : Bytes) : Option (List Ballot × Bool) :=
  match vote bs h id k with
  | .dup n => if n < thr then some (bs, false) else (removeVotes bs id).map (fun b => (b, true))
  | .stored bs' n => if n < thr then some (bs', false) else (removeVotes bs' id).map (fun b => (b, true))

end NeoFS.Vote
