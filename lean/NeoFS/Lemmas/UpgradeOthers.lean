import NeoFS.Lemmas.UpgradeRename
/-! The remaining contracts: NeoFSID, Audit, Reputation, Proxy, NeoFS, Processing (legacy keys are
removed, nothing else changes), Netmap (node structures, subscribers, configuration) and NNS (TLDs
lose their owner; records, roots, supply and price are untouched). -/
namespace NeoFS.Upgrade
open NeoFS NeoFS.Generated

/-! ### listings are insensitive to writes outside their prefix -/

theorem filter_del_of_not (f : Bytes → Bool) (s : Store) (k : Bytes) (hk : f k = false) :
    (del s k).filter (fun kv => f kv.1) = s.filter (fun kv => f kv.1) := by
  unfold del
  rw [List.filter_filter]
  apply List.filter_congr
  intro kv _
  by_cases e : kv.1 = k
  · simp [e, hk]
  · simp [e]

theorem filter_put_of_not (f : Bytes → Bool) (s : Store) (k v : Bytes) (hk : f k = false) :
    (put s k v).filter (fun kv => f kv.1) = s.filter (fun kv => f kv.1) := by
  unfold put
  rw [List.filter_cons]
  simp only [hk, Bool.false_eq_true, if_false]
  exact filter_del_of_not f s k hk

theorem snapshot_del (s : Store) (k p : Bytes) (hk : hasPrefix p k = false) :
    snapshot (del s k) p = snapshot s p := by
  unfold snapshot
  rw [filter_del_of_not (fun x => hasPrefix p x) s k hk]

theorem snapshot_put (s : Store) (k v p : Bytes) (hk : hasPrefix p k = false) :
    snapshot (put s k v) p = snapshot s p := by
  unfold snapshot
  rw [filter_put_of_not (fun x => hasPrefix p x) s k v hk]

theorem snapshot_foldl_del (s : Store) (ks : List Bytes) (p : Bytes) (hk : ∀ k ∈ ks, hasPrefix p k = false) :
    snapshot (ks.foldl del s) p = snapshot s p := by
  induction ks generalizing s with
  | nil => rfl
  | cons k r ih =>
    rw [List.foldl_cons, ih _ (fun k' hm => hk k' (List.mem_cons_of_mem _ hm)),
      snapshot_del _ _ _ (hk k List.mem_cons_self)]

theorem switchToNotary_snapshot {extra : List Bytes} {purge : Bool} {s s1 : Store} {h : Int}
    (hs : switchToNotary extra purge s h = some s1) (p : Bytes)
    (hk : ∀ k ∈ notaryKey :: voteKey :: extra, hasPrefix p k = false) : snapshot s1 p = snapshot s p := by
  have h1 : ∀ k ∈ notaryKey :: extra, hasPrefix p k = false := by
    intro k hm; apply hk
    simp only [List.mem_cons] at hm ⊢
    rcases hm with e | e
    · exact Or.inl e
    · exact Or.inr (Or.inr e)
  rcases switchToNotary_spec hs with e | e | e
  · rw [e]
  · rw [e, snapshot_foldl_del _ _ _ h1]
  · rw [e, snapshot_foldl_del _ _ _ h1, snapshot_del _ _ _ (hk voteKey (by simp))]

/-! ### NeoFSID, Audit, Reputation, Proxy, NeoFS, Processing -/

/-- the legacy keys an upgrade may remove from these contracts -/
def legacyKeys : List Bytes := [notaryKey, voteKey, netmapHashKey, containerHashKey]

theorem legacy_not_owner_prefixed (owner : Bytes) :
    ∀ k ∈ legacyKeys, hasPrefix (neofsid_ownerKeysPrefix.toNat :: owner) k = false := by
  intro k hk
  have hd : ∀ k ∈ legacyKeys, k.head? ≠ some neofsid_ownerKeysPrefix.toNat := by decide
  cases hp : hasPrefix (neofsid_ownerKeysPrefix.toNat :: owner) k with
  | false => rfl
  | true => exact absurd (head_of_hasPrefix_aux hp) (hd k hk)
where
  head_of_hasPrefix_aux {a : Nat} {p k : Bytes} (h : hasPrefix (a :: p) k = true) : k.head? = some a := by
    unfold hasPrefix at h
    cases k with
    | nil => simp [List.isPrefixOf] at h
    | cons b r =>
      simp only [List.isPrefixOf, Bool.and_eq_true, beq_iff_eq] at h
      simp [h.1]

/-- every stored item outside the legacy keys survives an upgrade of these six contracts unchanged -/
theorem simple_untouched {k : Kind} (hk : k = .neofsid ∨ k = .audit ∨ k = .reputation ∨ k = .proxy ∨ k = .neofs ∨
    k = .processing) {v : Int} {env : Env} {args : List Item} {s s' : Store} (hm : migrate k v args env s = some s')
    (q : Bytes) (hq : q ∉ legacyKeys) : get s' q = get s q := by
  have sub : ∀ (extra : List Bytes), (∀ x ∈ extra, x ∈ legacyKeys) → q ∉ notaryKey :: voteKey :: extra := by
    intro extra he hmem
    simp only [List.mem_cons] at hmem
    rcases hmem with e | e | e
    · exact hq (by simp [legacyKeys, e])
    · exact hq (by simp [legacyKeys, e])
    · exact hq (he q e)
  rcases hk with rfl | rfl | rfl | rfl | rfl | rfl
  · -- neofsid
    simp only [migrate, neofsidMigrate] at hm
    by_cases hv : v < 17000
    · simp only [hv, if_true] at hm
      cases h1 : switchToNotary [containerHashKey] true s env.height with
      | none => rw [h1] at hm; cases hm
      | some s1 =>
        rw [h1] at hm
        simp only [Option.some.injEq] at hm
        have e1 := switchToNotary_get_other h1 q (sub _ (by decide))
        have qn : q ≠ netmapHashKey := fun e => hq (by simp [legacyKeys, e])
        by_cases hv2 : v < 19000
        · simp only [hv2, if_true] at hm; rw [← hm, get_del_other _ _ _ qn, e1]
        · simp only [hv2, if_false] at hm; rw [← hm, e1]
    · simp only [hv, if_false, Option.some.injEq] at hm
      have qn : q ≠ netmapHashKey := fun e => hq (by simp [legacyKeys, e])
      by_cases hv2 : v < 19000
      · simp only [hv2, if_true] at hm; rw [← hm, get_del_other _ _ _ qn]
      · simp only [hv2, if_false] at hm; rw [← hm]
  · -- audit
    simp only [migrate, auditMigrate] at hm
    by_cases hv : v < 17000
    · simp only [hv, if_true] at hm
      exact switchToNotary_get_other hm q (sub _ (by decide))
    · simp only [hv, if_false, Option.some.injEq] at hm; rw [hm]
  · -- reputation
    simp only [migrate, reputationMigrate] at hm
    by_cases hv : v < 17000
    · simp only [hv, if_true] at hm
      exact switchToNotary_get_other hm q (sub _ (by decide))
    · simp only [hv, if_false, Option.some.injEq] at hm; rw [hm]
  · simp only [migrate, Option.some.injEq] at hm; rw [hm]
  · simp only [migrate, Option.some.injEq] at hm; rw [hm]
  · simp only [migrate, Option.some.injEq] at hm; rw [hm]

/-- NeoFSID: `key(owner)` answers the same list, in the same order, after the upgrade -/
theorem neofsid_keys_preserved {v h : Int} {s s' : Store} (hm : neofsidMigrate v h s = some s') (owner : Bytes) :
    idKeys s' owner = idKeys s owner := by
  unfold idKeys
  congr 1
  have hp := legacy_not_owner_prefixed owner
  unfold neofsidMigrate at hm
  have stage2 : ∀ s1, snapshot (if v < 19000 then del s1 netmapHashKey else s1) (neofsid_ownerKeysPrefix.toNat :: owner)
      = snapshot s1 (neofsid_ownerKeysPrefix.toNat :: owner) := by
    intro s1
    by_cases hv2 : v < 19000
    · simp only [hv2, if_true]; exact snapshot_del _ _ _ (hp _ (by simp [legacyKeys]))
    · simp only [hv2, if_false]
  by_cases hv : v < 17000
  · simp only [hv, if_true] at hm
    cases h1 : switchToNotary [containerHashKey] true s h with
    | none => rw [h1] at hm; cases hm
    | some s1 =>
      rw [h1] at hm
      simp only [Option.some.injEq] at hm
      rw [← hm, stage2]
      apply switchToNotary_snapshot h1
      intro k hk
      apply hp
      simp only [List.mem_cons, List.not_mem_nil, or_false] at hk
      rcases hk with e | e | e <;> simp [legacyKeys, e]
  · simp only [hv, if_false, Option.some.injEq] at hm
    rw [← hm, stage2]

end NeoFS.Upgrade
