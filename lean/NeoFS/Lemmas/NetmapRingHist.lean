import NeoFS.Lemmas.NetmapRingResize
/-! # C08: histories. The specification is driven by the calls the contract accepted (HALT); the
invariant holds after every prefix of every history inside the property's quantifier. -/
namespace NeoFS.NetmapRing
open NeoFS

/-- the property's quantifier, per operation: ticks are consecutive (a stale epoch number is allowed — it
is refused) and epochs stay below 2³² (the width of `fourBytesBE`). `updateSnapshotCount` may be called with
ANY integer: the method's own guards refuse what does not fit the one-byte ring index. -/
def wfOp (s : State) : Op → Bool
  | .newEpoch e => decide (e ≤ (s.cur : Int) + 1) && decide (s.cur + 1 < 2 ^ 32)
  | _ => true

def wfHist : State → List (Env × Op) → Bool
  | _, [] => true
  | s, (env, op) :: rest => wfOp s op && wfHist (invoke s env op).1 rest

/-- a history inside the property's quantifier -/
abbrev WFHist (s : State) (ops : List (Env × Op)) : Prop := wfHist s ops = true

/-- the specification follows the accepted calls -/
def specStep (s : State) (p : Spec) (env : Env) : Op → Spec
  | .newEpoch e => if (newEpoch s env e).isSome then p.tick (published s) else p
  | .updateSnapshotCount k => if (updateSnapshotCount s env k).isSome then p.resize k.toNat else p
  | _ => p

def runBoth : State → Spec → List (Env × Op) → State × Spec
  | s, p, [] => (s, p)
  | s, p, (env, op) :: rest => runBoth (invoke s env op).1 (specStep s p env op) rest

theorem runBoth_fst (s : State) (p : Spec) (ops : List (Env × Op)) : (runBoth s p ops).1 = run s ops := by
  induction ops generalizing s p with
  | nil => rfl
  | cons x rest ih => obtain ⟨env, op⟩ := x; simp only [runBoth, run]; exact ih _ _

theorem inv_cands (s : State) (p : Spec) (h : RingInv s p) (a b : List Nat) :
    RingInv { s with c1 := a, c2 := b } p :=
  ⟨h.count_eq, h.cur_eq, h.n_pos, h.n_le, h.id_lt, h.valid_le_n, h.valid_le_cur, h.hist_len, h.cur_lt,
   h.ring_in, h.ring_out, h.ring_beyond, h.pl_in, h.pl_out⟩

theorem invoke_cand_addPeerIR (s : State) (env : Env) (i : Nat) :
    ∃ a b, (invoke s env (.addPeerIR i)).1 = { s with c1 := a, c2 := b } := by
  simp only [invoke, step, addPeerIR]
  by_cases ha : env.alphabet = true
  · exact ⟨sins i s.c1, s.c2, by simp [ha]⟩
  · exact ⟨s.c1, s.c2, by simp [ha]⟩

theorem invoke_cand_addNode (s : State) (env : Env) (i : Nat) :
    ∃ a b, (invoke s env (.addNode i)).1 = { s with c1 := a, c2 := b } := by
  simp only [invoke, step, addNode]
  by_cases hn : env.nodeWit = true
  · by_cases ha : env.alphabet = true
    · exact ⟨s.c1, sins i s.c2, by simp [ha, hn]⟩
    · exact ⟨s.c1, s.c2, by simp [ha, hn]⟩
  · exact ⟨s.c1, s.c2, by simp [hn]⟩

theorem invoke_cand_deleteNode (s : State) (env : Env) (i : Nat) :
    ∃ a b, (invoke s env (.deleteNode i)).1 = { s with c1 := a, c2 := b } := by
  simp only [invoke, step, deleteNode]
  by_cases ha : env.alphabet = true
  · exact ⟨s.c1.filter (· != i), s.c2.filter (· != i), by simp [ha]⟩
  · exact ⟨s.c1, s.c2, by simp [ha]⟩

theorem inv_step (s : State) (p : Spec) (env : Env) (op : Op) (h : RingInv s p) (hw : wfOp s op = true) :
    RingInv (invoke s env op).1 (specStep s p env op) := by
  cases op with
  | newEpoch e =>
    simp only [wfOp, Bool.and_eq_true, decide_eq_true_eq] at hw
    simp only [invoke, step, specStep]
    cases hr : newEpoch s env e with
    | none => simpa using h
    | some s' =>
      simp only [Option.isSome_some, if_true]
      obtain ⟨_, hlt, _, _, _⟩ := newEpoch_some s s' env e hr
      have he : e = (s.cur : Int) + 1 := by omega
      subst he
      exact inv_tick s s' p env h hw.2 hr
  | updateSnapshotCount k =>
    simp only [invoke, step, specStep]
    cases hr : updateSnapshotCount s env k with
    | none => simpa using h
    | some s' =>
      simp only [Option.isSome_some, if_true]
      exact inv_resize s s' p env k h hr
  | addPeerIR i =>
    obtain ⟨a, b, e⟩ := invoke_cand_addPeerIR s env i
    simp only [specStep]; rw [e]; exact inv_cands s p h a b
  | addNode i =>
    obtain ⟨a, b, e⟩ := invoke_cand_addNode s env i
    simp only [specStep]; rw [e]; exact inv_cands s p h a b
  | deleteNode i =>
    obtain ⟨a, b, e⟩ := invoke_cand_deleteNode s env i
    simp only [specStep]; rw [e]; exact inv_cands s p h a b

theorem inv_run (ops : List (Env × Op)) : ∀ (s : State) (p : Spec), RingInv s p → WFHist s ops →
    RingInv (runBoth s p ops).1 (runBoth s p ops).2 := by
  induction ops with
  | nil => intro s p h _; exact h
  | cons x rest ih =>
    intro s p h hw
    obtain ⟨env, op⟩ := x
    simp only [WFHist, wfHist, Bool.and_eq_true] at hw
    obtain ⟨hw1, hw2⟩ := hw
    simp only [runBoth]
    exact ih _ _ (inv_step s p env op h hw1) hw2

/-! ### the specification itself says what the property says -/

/-- with no count change since deployment, `valid = min(N, elapsed)` -/
theorem valid_ticks_only (ms : List Pub) :
    (ms.foldl Spec.tick Spec.init).valid = min 10 ms.length ∧ (ms.foldl Spec.tick Spec.init).n = 10 := by
  have gen : ∀ (ms : List Pub) (p : Spec), (ms.foldl Spec.tick p).n = p.n ∧
      (p.valid ≤ p.n → (ms.foldl Spec.tick p).valid = min p.n (p.valid + ms.length)) := by
    intro ms
    induction ms with
    | nil => intro p; simp; omega
    | cons m ms ih =>
      intro p
      simp only [List.foldl_cons, List.length_cons]
      obtain ⟨i1, i2⟩ := ih (p.tick m)
      refine ⟨by rw [i1]; rfl, ?_⟩
      intro hv
      have : (p.tick m).valid ≤ (p.tick m).n := by simp only [Spec.tick]; omega
      rw [i2 this]
      simp only [Spec.tick]; omega
  obtain ⟨g1, g2⟩ := gen ms Spec.init
  refine ⟨?_, g1⟩
  rw [g2 (by decide)]; simp [Spec.init]

/-! ### a concrete history for the non-vacuity examples -/
def alpha : Env := ⟨true, true⟩
def nobody : Env := ⟨false, false⟩

/-- candidates change before every tick; shrink 10→3 at epoch 13, refused calls in between, grow 3→5,
a grow that must move a never-filled slot (FAULT), counts 257 and 2⁶³ (refused), ticks after each change -/
def exHist : List (Env × Op) :=
  [(alpha, .addPeerIR 1), (alpha, .addNode 1), (alpha, .newEpoch 1),
   (alpha, .addPeerIR 2), (alpha, .addNode 2), (alpha, .newEpoch 2),
   (alpha, .deleteNode 1), (alpha, .newEpoch 3),
   (alpha, .addPeerIR 0), (alpha, .addNode 0), (alpha, .newEpoch 4),
   (alpha, .deleteNode 2), (alpha, .newEpoch 5),
   (alpha, .addPeerIR 3), (alpha, .addNode 3), (alpha, .newEpoch 6),
   (alpha, .addPeerIR 1), (alpha, .addNode 1), (alpha, .newEpoch 7),
   (alpha, .deleteNode 0), (alpha, .newEpoch 8),
   (alpha, .addPeerIR 4), (alpha, .addNode 4), (alpha, .newEpoch 9),
   (alpha, .deleteNode 3), (alpha, .newEpoch 10),
   (alpha, .addPeerIR 2), (alpha, .addNode 2), (alpha, .newEpoch 11),
   (alpha, .deleteNode 1), (alpha, .newEpoch 12),
   (alpha, .addPeerIR 0), (alpha, .addNode 0), (alpha, .newEpoch 13),
   (alpha, .updateSnapshotCount 3),
   (nobody, .newEpoch 14), (alpha, .newEpoch 13), (alpha, .updateSnapshotCount 0), (alpha, .updateSnapshotCount 3),
   (alpha, .updateSnapshotCount 257), (alpha, .updateSnapshotCount 9223372036854775808),
   (alpha, .deleteNode 4), (alpha, .newEpoch 14),
   (alpha, .updateSnapshotCount 5),
   (alpha, .addPeerIR 1), (alpha, .addNode 1), (alpha, .newEpoch 15),
   (alpha, .updateSnapshotCount 7),
   (alpha, .deleteNode 2), (alpha, .newEpoch 16)]

end NeoFS.NetmapRing
