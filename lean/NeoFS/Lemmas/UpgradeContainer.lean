import NeoFS.Lemmas.UpgradeRename
/-! Container: the documented key families of the storage before and since 0.17, the key-length
separation lemmas, and what the `_deploy` update branch (rename loop, then `switchToNotary`) does. -/
namespace NeoFS.Upgrade
open NeoFS NeoFS.Generated

/-! ### documented key families -/

def cnrNamed : List Bytes :=
  [notaryKey, voteKey, container_netmapContractKey_bytes, container_balanceContractKey_bytes,
   container_neofsIDContractKey_bytes, container_nnsContractKey_bytes, container_nnsRootKey_bytes]

/-- families whose keys are the same before and since 0.17: named keys, `eACL ‖ cid`,
`nnsHasAlias ‖ cid`, the estimation families `est…` and `cnr ‖ epoch ‖ cid ‖ 10 bytes` with an epoch
of at most 9 bytes (every unsigned 64-bit epoch) -/
def CnrOther (k : Bytes) : Prop :=
  k ∈ cnrNamed ∨
  (hasPrefix container_eACLPrefix k = true ∧ k.length = 36) ∨
  (hasPrefix container_nnsHasAliasKey_bytes k = true ∧ k.length = 43) ∨
  (hasPrefix container_singleEstimatePrefix_bytes k = true ∧ (k.length = 35 ∨ k.length = 55)) ∨
  (hasPrefix container_estimateKeyPrefix_bytes k = true ∧ 45 ≤ k.length ∧ k.length ≤ 54)

/-- families that exist only since 0.17: `x ‖ cid`, `d ‖ cid`, `m ‖ cid` (33 bytes), `o ‖ owner ‖ cid`
(58), `r ‖ cid ‖ i` (34), `n`/`u ‖ cid ‖ vector ‖ counter` (36 or 37) -/
def CnrNewOnly (k : Bytes) : Prop :=
  (k.length = 33 ∧ (k.head? = some cnrPrefix ∨ k.head? = some container_deletedKeyPrefix.toNat ∨
      k.head? = some container_containersWithMetaPrefix.toNat)) ∨
  (k.length = 58 ∧ k.head? = some ownPrefix) ∨
  (k.length = 34 ∧ k.head? = some container_replicasNumberPrefix.toNat) ∨
  ((k.length = 36 ∨ k.length = 37) ∧ (k.head? = some container_nodesPrefix.toNat ∨
      k.head? = some container_nextEpochNodesPrefix.toNat))

/-- **old-layout invariant** (before 0.17): containers under bare 32-byte ids, the owner index under bare
57-byte `owner ‖ cid`, plus the version-independent families -/
def ContainerOld (s : Store) : Prop := ∀ k ∈ keys s, k.length = 32 ∨ k.length = 57 ∨ CnrOther k

/-- **current-layout invariant** (0.17 and later) -/
def ContainerNew (s : Store) : Prop := ∀ k ∈ keys s, CnrNewOnly k ∨ CnrOther k

theorem head_of_hasPrefix {a : Nat} {p k : Bytes} (h : hasPrefix (a :: p) k = true) : k.head? = some a := by
  unfold hasPrefix at h
  cases k with
  | nil => simp [List.isPrefixOf] at h
  | cons b r =>
    simp only [List.isPrefixOf, Bool.and_eq_true, beq_iff_eq] at h
    simp [h.1]

theorem cnrNamed_sep : ∀ k ∈ cnrNamed, k.length ≠ 32 ∧ k.length ≠ 57 ∧ k.length ≠ 33 ∧ k.length ≠ 58 ∧
    k.head? ≠ some cnrPrefix ∧ k.head? ≠ some ownPrefix := by decide

/-- **key-length separation**: no version-independent family has 32-, 33-, 57- or 58-byte keys… -/
theorem cnrOther_len {k : Bytes} (h : CnrOther k) :
    k.length ≠ 32 ∧ k.length ≠ 57 ∧ k.length ≠ 33 ∧ k.length ≠ 58 := by
  rcases h with h | ⟨_, h⟩ | ⟨_, h⟩ | ⟨_, h⟩ | ⟨_, h1, h2⟩
  · have := cnrNamed_sep k h; exact ⟨this.1, this.2.1, this.2.2.1, this.2.2.2.1⟩
  · omega
  · omega
  · omega
  · omega

/-- …and none of their keys starts with `x` or `o` -/
theorem cnrOther_head {k : Bytes} (h : CnrOther k) : k.head? ≠ some cnrPrefix ∧ k.head? ≠ some ownPrefix := by
  rcases h with h | ⟨h, _⟩ | ⟨h, _⟩ | ⟨h, _⟩ | ⟨h, _⟩
  · have := cnrNamed_sep k h; exact ⟨this.2.2.2.2.1, this.2.2.2.2.2⟩
  all_goals
    have hh := head_of_hasPrefix h
    rw [hh]
    constructor <;> decide

/-- **key-length separation** for the current layout: nothing has 32 or 57 bytes -/
theorem cnrNewOnly_len {k : Bytes} (h : CnrNewOnly k) : k.length ≠ 32 ∧ k.length ≠ 57 := by
  rcases h with ⟨h, _⟩ | ⟨h, _⟩ | ⟨h, _⟩ | ⟨h, _⟩ <;> omega

theorem containerNew_no_bare {s : Store} (h : ContainerNew s) : ∀ k ∈ keys s, k.length ≠ 32 ∧ k.length ≠ 57 := by
  intro k hk
  rcases h k hk with h | h
  · exact cnrNewOnly_len h
  · exact ⟨(cnrOther_len h).1, (cnrOther_len h).2.1⟩

/-! ### the update branch -/

theorem containerMigrate_eq (v h : Int) (s : Store) :
    containerMigrate v h s = if v < 17000 then switchToNotary [] true (cnrRename s) h else some (cnrRename s) := rfl

/-- second stage: nothing but `notary` / `ballots` can change -/
theorem container_stage2 {v h : Int} {s s' : Store} (hm : containerMigrate v h s = some s') (hn : NodupKeys s) :
    NodupKeys s' ∧ (∀ q w, get s' q = some w → get (cnrRename s) q = some w) ∧
      (∀ q, q ∉ [notaryKey, voteKey] → get s' q = get (cnrRename s) q) := by
  rw [containerMigrate_eq] at hm
  by_cases hv : v < 17000
  · simp only [hv, if_true] at hm
    exact ⟨switchToNotary_nodup hm (nodup_cnrRename hn), switchToNotary_sub hm, switchToNotary_get_other hm⟩
  · simp only [hv, if_false, Option.some.injEq] at hm
    subst hm
    exact ⟨nodup_cnrRename hn, fun _ _ h => h, fun _ _ => rfl⟩

theorem notary_vote_len : ∀ k ∈ [notaryKey, voteKey], k.length ≠ 32 ∧ k.length ≠ 57 ∧ k.length ≠ 33 ∧ k.length ≠ 58 := by
  decide

/-- **a container record moves** from its bare id to `x ‖ cid` (old layout) -/
theorem container_record_moves {v h : Int} {s s' : Store} (hn : NodupKeys s) (ho : ContainerOld s)
    (hm : containerMigrate v h s = some s') (cid : Bytes) (h32 : cid.length = 32) :
    get s' (cnrPrefix :: cid) = get s cid ∧ get s' cid = none := by
  obtain ⟨_, _, hoth⟩ := container_stage2 hm hn
  have n1 : cnrPrefix :: cid ∉ [notaryKey, voteKey] := by
    intro hmem; have := (notary_vote_len _ hmem).2.2.1; simp [h32] at this
  have n2 : cid ∉ [notaryKey, voteKey] := by
    intro hmem; exact (notary_vote_len _ hmem).1 h32
  rw [hoth _ n1, hoth _ n2, get_cnrRename hn, get_cnrRename hn]
  constructor
  · have l33 : (cnrPrefix :: cid).length = 33 := by simp [h32]
    have a : ¬ ((33 : Nat) = 32 ∨ (33 : Nat) = 57) := by omega
    simp only [l33, a, if_false, List.head?_cons, List.tail_cons, true_and]
    cases hg : get s cid with
    | some w => simp
    | none =>
      simp only [Option.isSome_none, Bool.false_eq_true, if_false]
      have b : ¬ (33 : Nat) = 58 := by omega
      simp only [b, false_and, if_false]
      apply get_none_of_not_mem
      intro hmem
      rcases ho _ hmem with hl | hl | hl
      · simp [h32] at hl
      · simp [h32] at hl
      · have := (cnrOther_head hl).1; simp at this
  · simp [h32]

/-- **an owner-index entry moves** from `owner ‖ cid` to `o ‖ owner ‖ cid` (old layout) -/
theorem container_index_moves {v h : Int} {s s' : Store} (hn : NodupKeys s) (ho : ContainerOld s)
    (hm : containerMigrate v h s = some s') (k : Bytes) (h57 : k.length = 57) :
    get s' (ownPrefix :: k) = get s k ∧ get s' k = none := by
  obtain ⟨_, _, hoth⟩ := container_stage2 hm hn
  have n1 : ownPrefix :: k ∉ [notaryKey, voteKey] := by
    intro hmem; have := (notary_vote_len _ hmem).2.2.2; simp [h57] at this
  have n2 : k ∉ [notaryKey, voteKey] := by
    intro hmem; exact (notary_vote_len _ hmem).2.1 h57
  rw [hoth _ n1, hoth _ n2, get_cnrRename hn, get_cnrRename hn]
  constructor
  · have l58 : (ownPrefix :: k).length = 58 := by simp [h57]
    have a : ¬ ((58 : Nat) = 32 ∨ (58 : Nat) = 57) := by omega
    have b : ¬ (58 : Nat) = 33 := by omega
    simp only [l58, a, if_false, b, false_and, List.head?_cons, List.tail_cons, true_and]
    cases hg : get s k with
    | some w => simp
    | none =>
      simp only [Option.isSome_none, Bool.false_eq_true, if_false]
      apply get_none_of_not_mem
      intro hmem
      rcases ho _ hmem with hl | hl | hl
      · simp [h57] at hl
      · simp [h57] at hl
      · have := (cnrOther_head hl).2; simp at this
  · simp [h57]

/-- every other family is untouched (old layout; `notary` and `ballots` excepted) -/
theorem container_other_untouched {v h : Int} {s s' : Store} (hn : NodupKeys s)
    (hm : containerMigrate v h s = some s') (q : Bytes) (hq : CnrOther q) (hnv : q ∉ [notaryKey, voteKey]) :
    get s' q = get s q := by
  obtain ⟨_, _, hoth⟩ := container_stage2 hm hn
  rw [hoth _ hnv, get_cnrRename hn]
  obtain ⟨a, b, c, d⟩ := cnrOther_len hq
  have : ¬ (q.length = 32 ∨ q.length = 57) := by omega
  simp [this, c, d]

/-- in the current layout the whole loop is the identity (`notary` and `ballots` excepted) -/
theorem container_new_identity {v h : Int} {s s' : Store} (hn : NodupKeys s)
    (hb : ∀ k ∈ keys s, k.length ≠ 32 ∧ k.length ≠ 57)
    (hm : containerMigrate v h s = some s') (q : Bytes) (hnv : q ∉ [notaryKey, voteKey]) :
    get s' q = get s q := by
  obtain ⟨_, _, hoth⟩ := container_stage2 hm hn
  rw [hoth _ hnv, get_cnrRename hn]
  have none_of_len : ∀ k : Bytes, (k.length = 32 ∨ k.length = 57) → get s k = none := by
    intro k hk
    apply get_none_of_not_mem
    intro hmem
    have := hb k hmem
    omega
  by_cases hsel : q.length = 32 ∨ q.length = 57
  · simp only [hsel, if_true]; exact (none_of_len q hsel).symm
  · simp only [hsel, if_false]
    by_cases hx : q.length = 33
    · have : get s q.tail = none := none_of_len _ (by left; simp [hx])
      simp [this, hx]
    · by_cases ho : q.length = 58
      · have : get s q.tail = none := none_of_len _ (by right; simp [ho])
        simp [this, ho]
      · simp [hx, ho]

/-- short keys (named keys such as `notary`, `ballots`) pass through the rename loop -/
theorem get_cnrRename_short {s : Store} (hn : NodupKeys s) (q : Bytes) (h : q.length < 32) :
    get (cnrRename s) q = get s q := by
  rw [get_cnrRename hn]
  have a : ¬ (q.length = 32 ∨ q.length = 57) := by omega
  have b : ¬ q.length = 33 := by omega
  have c : ¬ q.length = 58 := by omega
  simp [a, b, c]

theorem container_containers_perm {v h : Int} {s s' : Store} (hn : NodupKeys s) (ho : ContainerOld s)
    (hm : containerMigrate v h s = some s') : (containersNew s').Perm (containersOld s) := by
  unfold containersNew containersOld
  obtain ⟨hn', hsub, hoth⟩ := container_stage2 hm hn
  apply prefixView_perm_lengthView hn hn'
  intro k w
  by_cases h32 : k.length = 32
  · rw [(container_record_moves hn ho hm k h32).1]; simp [h32]
  · constructor
    · intro hg
      exfalso
      have hg' := hsub _ _ hg
      rw [get_cnrRename hn] at hg'
      by_cases hsel : (cnrPrefix :: k).length = 32 ∨ (cnrPrefix :: k).length = 57
      · simp only [hsel, if_true] at hg'; cases hg'
      · simp only [hsel, if_false] at hg'
        have l33 : ¬ (cnrPrefix :: k).length = 33 := by simp; omega
        have hne : ¬ (some cnrPrefix = some ownPrefix) := by decide
        simp only [l33, false_and, if_false, List.head?_cons, hne, and_false] at hg'
        rcases ho _ (mem_keys_of_get hg') with hl | hl | hl
        · exact hsel (Or.inl hl)
        · exact hsel (Or.inr hl)
        · have := (cnrOther_head hl).1; simp at this
    · intro ⟨_, hl⟩; exact absurd hl h32

theorem container_index_perm {v h : Int} {s s' : Store} (hn : NodupKeys s) (ho : ContainerOld s)
    (hm : containerMigrate v h s = some s') : (ownerIndexNew s').Perm (ownerIndexOld s) := by
  unfold ownerIndexNew ownerIndexOld
  obtain ⟨hn', hsub, hoth⟩ := container_stage2 hm hn
  apply prefixView_perm_lengthView hn hn'
  intro k w
  by_cases h57 : k.length = 57
  · rw [(container_index_moves hn ho hm k h57).1]; simp [h57]
  · constructor
    · intro hg
      exfalso
      have hg' := hsub _ _ hg
      rw [get_cnrRename hn] at hg'
      by_cases hsel : (ownPrefix :: k).length = 32 ∨ (ownPrefix :: k).length = 57
      · simp only [hsel, if_true] at hg'; cases hg'
      · simp only [hsel, if_false] at hg'
        have l58 : ¬ (ownPrefix :: k).length = 58 := by simp; omega
        have hne : ¬ (some ownPrefix = some cnrPrefix) := by decide
        simp only [l58, false_and, if_false, List.head?_cons, hne, and_false] at hg'
        rcases ho _ (mem_keys_of_get hg') with hl | hl | hl
        · exact hsel (Or.inl hl)
        · exact hsel (Or.inr hl)
        · have := (cnrOther_head hl).2; simp at this
    · intro ⟨_, hl⟩; exact absurd hl h57

/-! ### `list(owner)` -/

theorem hasPrefix_cons (a : Nat) (p k : Bytes) :
    hasPrefix (a :: p) k = (hasPrefix [a] k && hasPrefix p (k.drop 1)) := by
  unfold hasPrefix
  cases k with
  | nil => simp [List.isPrefixOf]
  | cons b r => simp [List.isPrefixOf]

/-- `list(owner)` of the current layout lists (in some order) the entries of the prefixed owner index that
start with the owner -/
theorem listNew_perm (s : Store) (owner : Bytes) :
    (listNew s owner).Perm (((prefixView ownPrefix s).filter (fun kv => hasPrefix owner kv.1)).map (·.2)) := by
  unfold listNew prefixView
  have e : ((s.filter (fun kv => hasPrefix [ownPrefix] kv.1)).map (fun kv => (kv.1.drop 1, kv.2))).filter
        (fun kv => hasPrefix owner kv.1) =
      ((s.filter (fun kv => hasPrefix (ownPrefix :: owner) kv.1)).map (fun kv => (kv.1.drop 1, kv.2))) := by
    rw [List.filter_map, List.filter_filter]
    congr 1
    apply List.filter_congr
    intro kv _
    simp only [Function.comp]
    rw [hasPrefix_cons ownPrefix owner kv.1, Bool.and_comm]
  rw [e, List.map_map]
  exact List.Perm.map _ (snapshot_perm s (ownPrefix :: owner))

/-- **`list(owner)` / `containersOf(owner)` after the upgrade** list exactly the container ids the bare index
held for that owner -/
theorem container_list_perm {v h : Int} {s s' : Store} (hn : NodupKeys s) (ho : ContainerOld s)
    (hm : containerMigrate v h s = some s') (owner : Bytes) : (listNew s' owner).Perm (listOld s owner) := by
  refine (listNew_perm s' owner).trans ?_
  unfold listOld
  have := container_index_perm hn ho hm
  unfold ownerIndexNew ownerIndexOld at this
  exact List.Perm.map _ (List.Perm.filter _ this)

end NeoFS.Upgrade
