import NeoFS.Lemmas.NetmapRingBE4
import NeoFS.Lemmas.NetmapRingMoves
import NeoFS.Lemmas.NetmapRingSpec
/-! # C08: the invariant `RingInv` holds initially, is preserved by every HALTing tick of the next epoch
and by every HALTing `updateSnapshotCount K` with `K ≤ 256`, and makes the read API answer what the
specification says. -/
namespace NeoFS.NetmapRing
open NeoFS

theorem mod_slot (id n d : Nat) (hid : id < n) (hd : d < n) : (id + n - d) % n = slotOf id n d := by
  unfold slotOf
  by_cases h : d ≤ id
  · simp only [h, if_true]
    have : id + n - d = (id - d) + n := by omega
    rw [this, Nat.add_mod_right, Nat.mod_eq_of_lt (by omega)]
  · simp only [h, if_false]
    exact Nat.mod_eq_of_lt (by omega)

theorem succ_mod (id n : Nat) (hid : id < n) : (id + 1) % n = if id + 1 < n then id + 1 else 0 := by
  by_cases h : id + 1 < n
  · simp only [h, if_true]; exact Nat.mod_eq_of_lt h
  · simp only [h, if_false]
    have : id + 1 = n := by omega
    rw [this, Nat.mod_self]

theorem slotOf_lt (id n d : Nat) (hid : id < n) (hd : d < n) : slotOf id n d < n := by
  unfold slotOf; split <;> omega

theorem ago_tick_zero (p : Spec) (m : Pub) : (p.tick m).ago 0 = m := by
  simp [Spec.ago, Spec.tick]

theorem ago_tick_succ (p : Spec) (m : Pub) (d : Nat) : (p.tick m).ago (d + 1) = p.ago d := by
  simp [Spec.ago, Spec.tick]

theorem ago_resize (p : Spec) (k d : Nat) : (p.resize k).ago d = p.ago d := rfl

/-! ### the read API under the invariant -/

theorem snapshot_eq (s : State) (p : Spec) (h : RingInv s p) (d : Int) : snapshot s d = p.snapshot d := by
  unfold snapshot Spec.snapshot
  rw [h.count_eq]
  by_cases hg : d < 0 ∨ (p.n : Int) ≤ d
  · simp only [hg, if_true]
  · simp only [hg, if_false]
    obtain ⟨dn, rfl⟩ : ∃ dn : Nat, d = (dn : Int) := ⟨d.toNat, by omega⟩
    have hdn : dn < p.n := by omega
    have e1 : (s.id : Int) - (dn : Int) + (p.n : Int) = ((s.id + p.n - dn : Nat) : Int) := by omega
    have e2 : ((((s.id + p.n - dn : Nat) : Int) % (p.n : Int))).toNat = (s.id + p.n - dn) % p.n := by
      rw [← Int.natCast_emod, Int.toNat_natCast]
    simp only [e1, e2, Int.toNat_natCast]
    rw [mod_slot s.id p.n dn h.id_lt hdn]
    have hs := slotOf_lt s.id p.n dn h.id_lt hdn
    rw [slotKey_le _ (by have := h.n_le; omega)]
    simp only []
    by_cases hv : dn < p.valid
    · simp only [hv, if_true]; rw [h.ring_in dn hv]; rfl
    · simp only [hv, if_false]; rw [h.ring_out dn (by omega) hdn]

theorem snapshotByEpoch_eq (s : State) (p : Spec) (h : RingInv s p) (e : Int) :
    snapshotByEpoch s e = p.snapshotByEpoch e := by
  unfold snapshotByEpoch Spec.snapshotByEpoch
  rw [h.cur_eq]; exact snapshot_eq s p h _

theorem listNodes_eq (s : State) (p : Spec) (h : RingInv s p) (e : Nat) (he : e < 2 ^ 32) :
    listNodes s (e : Int) = p.listNodes e := by
  unfold listNodes Spec.listNodes
  by_cases hw : p.cur < e + p.valid ∧ e ≤ p.cur
  · simp only [hw, and_self, if_true]; exact h.pl_in e hw.1 hw.2
  · simp only [hw, if_false]
    apply h.pl_out
    intro e' h1 h2 heq
    have := be4_inj_nat e' e (by have := h.cur_lt; omega) he heq
    subst this; exact hw ⟨h1, h2⟩

theorem netmap_eq (s : State) (p : Spec) (h : RingInv s p) : netmap s = some p.netmap := by
  unfold netmap Spec.netmap
  rw [slotKey_le _ (by have := h.n_le; have := h.id_lt; omega)]
  simp only []
  have e0 : slotOf s.id p.n 0 = s.id := by simp [slotOf]
  by_cases hv : 0 < p.valid
  · simp only [hv, if_true]; have := h.ring_in 0 hv; rw [e0] at this; rw [this]; rfl
  · simp only [hv, if_false]
    have := h.ring_out 0 (by omega) h.n_pos; rw [e0] at this; rw [this]

/-! ### initial state -/

theorem rget_all_nil (r : Ring) (hr : ∀ kv ∈ r, kv.2 = []) (j : Nat) : (rget r j).getD [] = [] := by
  unfold rget
  cases hf : r.find? (fun kv => kv.1 == j) with
  | none => rfl
  | some kv => have := hr kv (List.mem_of_find?_eq_some hf); simp [this]

theorem inv_init : RingInv init Spec.init := by
  have hn : Generated.netmap_DefaultSnapshotCount.toNat = 10 := rfl
  refine ⟨?_, rfl, by decide, by decide, by decide, by decide, by decide, rfl, by decide, ?_, ?_, ?_, ?_, ?_⟩
  · exact hn
  · intro d hd; exact absurd hd (by simp [Spec.init])
  · intro d _ _
    apply rget_all_nil
    intro kv hkv
    simp only [init, List.mem_map] at hkv
    obtain ⟨i, _, rfl⟩ := hkv; rfl
  · intro j hj
    unfold rget
    have : init.ring.find? (fun kv => kv.1 == j) = none := by
      rw [List.find?_eq_none]
      intro kv hkv
      simp only [init, hn, List.mem_map, List.mem_range] at hkv
      obtain ⟨i, hi, rfl⟩ := hkv
      simp only [Spec.init] at hj
      simp; omega
    simp [this]
  · intro e h1 h2; simp only [Spec.init] at h1 h2; omega
  · intro k4 _; rfl

/-! ### a HALTing tick -/

theorem newEpoch_some (s s' : State) (env : Env) (e : Int) (h : newEpoch s env e = some s') :
    env.alphabet = true ∧ (s.cur : Int) < e ∧ s.count ≠ 0 ∧ (s.id + 1) % s.count ≤ 255 ∧
    s' = { s with cur := e.toNat, id := (s.id + 1) % s.count,
                  ring := rset s.ring ((s.id + 1) % s.count) s.c1,
                  pl := if e > (s.count : Int) then dropNetmap (fill s.pl (be4 e) s.c2) (e - s.count)
                        else fill s.pl (be4 e) s.c2 } := by
  unfold newEpoch at h
  by_cases ha : env.alphabet = true
  · by_cases he : e ≤ (s.cur : Int)
    · simp [ha, he] at h
    · by_cases hc : s.count = 0
      · simp [ha, he, hc] at h
      · simp only [ha, he, hc, Bool.not_true, Bool.false_eq_true, if_false] at h
        cases hk : slotKey ((s.id + 1) % s.count) with
        | none => simp [hk] at h
        | some b =>
          obtain ⟨rfl, hb⟩ := slotKey_some _ _ hk
          simp only [hk, Option.some.injEq] at h
          exact ⟨ha, by omega, hc, hb, h.symm⟩
  · simp [ha] at h

/-- under the invariant the Alphabet's tick of the next epoch HALTs -/
theorem tick_halts (s : State) (p : Spec) (h : RingInv s p) (env : Env) (ha : env.alphabet = true) :
    ∃ s', newEpoch s env ((s.cur : Int) + 1) = some s' := by
  unfold newEpoch
  have hc : s.count ≠ 0 := by have := h.n_pos; have := h.count_eq; omega
  have he : ¬ ((s.cur : Int) + 1 ≤ (s.cur : Int)) := by omega
  have hlt : (s.id + 1) % s.count < s.count := Nat.mod_lt _ (by omega)
  have hk : slotKey ((s.id + 1) % s.count) = some ((s.id + 1) % s.count) :=
    slotKey_le _ (by have := h.n_le; have := h.count_eq; omega)
  simp only [ha, he, hc, hk, Bool.not_true, Bool.false_eq_true, if_false]
  exact ⟨_, rfl⟩

theorem inv_tick (s s' : State) (p : Spec) (env : Env) (h : RingInv s p) (hcur : s.cur + 1 < 2 ^ 32)
    (ht : newEpoch s env ((s.cur : Int) + 1) = some s') : RingInv s' (p.tick (published s)) := by
  obtain ⟨_, _, _, _, hs'⟩ := newEpoch_some s s' env _ ht
  have hcnt := h.count_eq
  have hcure := h.cur_eq
  have hn1 := h.n_pos
  have hn2 := h.n_le
  have hid := h.id_lt
  have hv1 := h.valid_le_n
  have hv2 := h.valid_le_cur
  have hc32 := h.cur_lt
  have hidm : (s.id + 1) % s.count = if s.id + 1 < p.n then s.id + 1 else 0 := by
    rw [hcnt]; exact succ_mod s.id p.n hid
  have etn : ((s.cur : Int) + 1).toNat = s.cur + 1 := by omega
  -- the list stored under the new epoch key before the tick is empty
  have hfresh : pget s.pl (be4 ((s.cur : Int) + 1)) = [] := by
    apply h.pl_out
    intro e' _ h2 heq
    have e1 : ((s.cur : Int) + 1) = ((s.cur + 1 : Nat) : Int) := by omega
    rw [e1] at heq
    have := be4_inj_nat e' (s.cur + 1) (by omega) hcur heq
    omega
  have hfill : ∀ k4, pget (fill s.pl (be4 ((s.cur : Int) + 1)) s.c2) k4 =
      if k4 = be4 ((s.cur : Int) + 1) then union [] s.c2 else pget s.pl k4 := by
    intro k4; unfold fill; rw [pget_pset, hfresh]
  have hnew : ((s.cur : Int) + 1) = ((p.cur + 1 : Nat) : Int) := by omega
  subst hs'
  refine ⟨?_, ?_, ?_, ?_, ?_, ?_, ?_, ?_, ?_, ?_, ?_, ?_, ?_, ?_⟩
  · exact hcnt
  · show ((s.cur : Int) + 1).toNat = p.cur + 1; omega
  · exact hn1
  · exact hn2
  · show (s.id + 1) % s.count < p.n
    rw [hidm]; split <;> omega
  · show min (p.valid + 1) p.n ≤ p.n; omega
  · show min (p.valid + 1) p.n ≤ p.cur + 1; omega
  · show (published s :: p.hist).length = p.cur + 1
    simp [h.hist_len]
  · show p.cur + 1 < 2 ^ 32; omega
  · -- ring_in
    intro d hd
    show rget (rset s.ring ((s.id + 1) % s.count) s.c1) (slotOf ((s.id + 1) % s.count) p.n d) = _
    have hd' : d < min (p.valid + 1) p.n := hd
    rw [rget_rset, hidm]
    cases d with
    | zero =>
      have : slotOf (if s.id + 1 < p.n then s.id + 1 else 0) p.n 0 = (if s.id + 1 < p.n then s.id + 1 else 0) := by
        simp [slotOf]
      rw [this, ago_tick_zero]; simp [published]
    | succ d =>
      have hne : slotOf (if s.id + 1 < p.n then s.id + 1 else 0) p.n (d + 1) ≠ (if s.id + 1 < p.n then s.id + 1 else 0) := by
        unfold slotOf; split <;> split <;> omega
      have heq : slotOf (if s.id + 1 < p.n then s.id + 1 else 0) p.n (d + 1) = slotOf s.id p.n d := by
        unfold slotOf; split <;> split <;> split <;> omega
      rw [if_neg hne, heq, ago_tick_succ]
      exact h.ring_in d (by omega)
  · -- ring_out
    intro d hd1 hd2
    show (rget (rset s.ring ((s.id + 1) % s.count) s.c1) (slotOf ((s.id + 1) % s.count) p.n d)).getD [] = []
    have hd1' : min (p.valid + 1) p.n ≤ d := hd1
    have hd2' : d < p.n := hd2
    rw [rget_rset, hidm]
    cases d with
    | zero => omega
    | succ d =>
      have hne : slotOf (if s.id + 1 < p.n then s.id + 1 else 0) p.n (d + 1) ≠ (if s.id + 1 < p.n then s.id + 1 else 0) := by
        unfold slotOf; split <;> split <;> omega
      have heq : slotOf (if s.id + 1 < p.n then s.id + 1 else 0) p.n (d + 1) = slotOf s.id p.n d := by
        unfold slotOf; split <;> split <;> split <;> omega
      rw [if_neg hne, heq]
      exact h.ring_out d (by omega) (by omega)
  · -- ring_beyond
    intro j hj
    show rget (rset s.ring ((s.id + 1) % s.count) s.c1) j = none
    have hj' : p.n ≤ j := hj
    rw [rget_rset, hidm]
    have : j ≠ (if s.id + 1 < p.n then s.id + 1 else 0) := by split <;> omega
    rw [if_neg this]; exact h.ring_beyond j hj'
  · -- pl_in
    intro e h1 h2
    have h1' : p.cur + 1 < e + min (p.valid + 1) p.n := h1
    have h2' : e ≤ p.cur + 1 := h2
    show pget (if ((s.cur : Int) + 1) > (s.count : Int) then dropNetmap (fill s.pl (be4 ((s.cur : Int) + 1)) s.c2) (((s.cur : Int) + 1) - s.count)
              else fill s.pl (be4 ((s.cur : Int) + 1)) s.c2) (be4 (e : Int)) = ((p.tick (published s)).ago (p.cur + 1 - e)).nodes
    have hcore : pget (fill s.pl (be4 ((s.cur : Int) + 1)) s.c2) (be4 (e : Int)) = ((p.tick (published s)).ago (p.cur + 1 - e)).nodes := by
      rw [hfill]
      by_cases he : e = p.cur + 1
      · subst he
        rw [hnew]; simp only [if_true, Nat.sub_self, ago_tick_zero]; rfl
      · have hne : be4 (e : Int) ≠ be4 ((s.cur : Int) + 1) := by
          rw [hnew]; intro heq
          exact he (be4_inj_nat e (p.cur + 1) (by omega) (by omega) heq)
        rw [if_neg hne]
        have : p.cur + 1 - e = (p.cur - e) + 1 := by omega
        rw [this, ago_tick_succ]
        exact h.pl_in e (by omega) (by omega)
    by_cases hdrop : ((s.cur : Int) + 1) > (s.count : Int)
    · rw [if_pos hdrop]
      unfold dropNetmap; rw [pget_pdel]
      have e2 : ((s.cur : Int) + 1) - (s.count : Int) = ((p.cur + 1 - p.n : Nat) : Int) := by omega
      have hne : be4 (e : Int) ≠ be4 (((s.cur : Int) + 1) - (s.count : Int)) := by
        rw [e2]; intro heq
        have := be4_inj_nat e (p.cur + 1 - p.n) (by omega) (by omega) heq
        omega
      rw [if_neg hne]; exact hcore
    · rw [if_neg hdrop]; exact hcore
  · -- pl_out
    intro k4 hk
    have hk' : ∀ e : Nat, p.cur + 1 < e + min (p.valid + 1) p.n → e ≤ p.cur + 1 → be4 (e : Int) ≠ k4 := hk
    show pget (if ((s.cur : Int) + 1) > (s.count : Int) then dropNetmap (fill s.pl (be4 ((s.cur : Int) + 1)) s.c2) (((s.cur : Int) + 1) - s.count)
              else fill s.pl (be4 ((s.cur : Int) + 1)) s.c2) k4 = []
    have hk0 : k4 ≠ be4 ((s.cur : Int) + 1) := by
      rw [hnew]; intro heq
      exact hk' (p.cur + 1) (by omega) (by omega) heq.symm
    by_cases hdrop : ((s.cur : Int) + 1) > (s.count : Int)
    · rw [if_pos hdrop]
      unfold dropNetmap; rw [pget_pdel]
      by_cases hd : k4 = be4 (((s.cur : Int) + 1) - (s.count : Int))
      · rw [if_pos hd]
      · rw [if_neg hd, hfill, if_neg hk0]
        apply h.pl_out
        intro e h1 h2
        by_cases hin : p.cur + 1 < e + min (p.valid + 1) p.n
        · exact hk' e hin (by omega)
        · -- e is the epoch that has just left the window: it is the dropped one
          have he : e = p.cur + 1 - p.n := by omega
          have e2 : ((s.cur : Int) + 1) - (s.count : Int) = ((p.cur + 1 - p.n : Nat) : Int) := by omega
          intro heq; apply hd; rw [e2, ← he]; exact heq.symm
    · rw [if_neg hdrop, hfill, if_neg hk0]
      apply h.pl_out
      intro e h1 h2
      exact hk' e (by omega) (by omega)

end NeoFS.NetmapRing
