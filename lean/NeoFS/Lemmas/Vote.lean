import NeoFS.Model.Vote
set_option linter.unusedSimpArgs false
set_option linter.unusedVariables false
/-! Helper lemmas for the vote-collection model (C17): a closed form of `common.Vote` + `RemoveVotes`
on well-formed ballot lists, the ballot invariant, and the refinement to the per-id tally specification.
Property theorems live in `NeoFS/Props/C17.lean`. -/
namespace NeoFS.Vote
open NeoFS

/-! ### the specification: one tally per decision id, in the property's own vocabulary -/

/-- the votes collected for one decision: distinct Alphabet keys and the block of the last counted vote -/
structure Tally where
  voters : List Bytes
  last : Int
  deriving DecidableEq

abbrev Spec := Bytes → Option Tally

/-- a tally is stale once more than 20 blocks have passed since its last counted vote -/
def Tally.liveAt (h : Int) (t : Option Tally) : Option Tally :=
  match t with
  | none => none
  | some t => if h - t.last > 20 then none else some t

def Spec.set (sp : Spec) (id : Bytes) (t : Option Tally) : Spec := fun i => if i = id then t else sp i

/-- one accepted invocation for decision `id` at block `h` by stored key `k` (whose witness is present):
the new tallies and whether the decision executes in this invocation -/
def Spec.step (thr : Nat) (sp : Spec) (h : Int) (id k : Bytes) : Spec × Bool :=
  match Tally.liveAt h (sp id) with
  | none =>                                            -- no live ballot: a new one starts with this vote
    if 1 < thr then (sp.set id (some ⟨[k], h⟩), false) else (sp.set id none, true)
  | some t =>
    if k ∈ t.voters then (sp, false)                   -- repeated vote: counts once
    else if t.voters.length + 1 < thr then (sp.set id (some ⟨t.voters ++ [k], h⟩), false)
    else (sp.set id none, true)                        -- the distinct voters reach the threshold

/-! ### ballot lists -/

def isLive (h : Int) (c : Ballot) : Bool := !decide (h - c.height > blockDiff)
def liveB (h : Int) (bs : List Ballot) : List Ballot := bs.filter (isLive h)
def hasId (id : Bytes) (c : Ballot) : Bool := decide (c.id = id)
def rep (h : Int) (id k : Bytes) (c : Ballot) : Ballot := if c.id = id then ⟨id, c.voters ++ [k], h⟩ else c

def toTally (b : Ballot) : Tally := ⟨b.voters, b.height⟩
/-- the tallies a ballot list stands for -/
def absB (bs : List Ballot) : Spec := fun id => (bs.find? (hasId id)).map toTally

/-- closed form of `collect` on well-formed lists -/
def collectF (thr : Nat) (bs : List Ballot) (h : Int) (id k : Bytes) : List Ballot × Bool :=
  let L := liveB h bs
  match L.find? (hasId id) with
  | none => if 1 < thr then (L ++ [⟨id, [k], h⟩], false) else (L, true)
  | some c =>
    if c.voters.contains k then (bs, false)
    else if c.voters.length + 1 < thr then (L.map (rep h id k), false)
    else (L.filter (fun b => !hasId id b), true)

theorem noId_find (id : Bytes) (l : List Ballot) (h : id ∉ l.map (·.id)) : l.find? (hasId id) = none := by
  rw [List.find?_eq_none]
  intro c hc
  simp only [hasId, decide_eq_true_eq]
  intro e; exact h (e ▸ List.mem_map_of_mem (f := (·.id)) hc)

theorem noId_rep (hh : Int) (id k : Bytes) (l : List Ballot) (h : id ∉ l.map (·.id)) : l.map (rep hh id k) = l := by
  induction l with
  | nil => rfl
  | cons c r ih =>
    simp only [List.map_cons, List.mem_cons, not_or] at h
    simp only [List.map_cons]
    have : rep hh id k c = c := by
      unfold rep; rw [if_neg]; intro e; exact h.1 e.symm
    rw [this, ih h.2]

theorem noId_filter (id : Bytes) (l : List Ballot) (h : id ∉ l.map (·.id)) : l.filter (fun b => !hasId id b) = l := by
  rw [List.filter_eq_self]
  intro c hc
  simp only [hasId, Bool.not_eq_true', decide_eq_false_iff_not]
  intro e; exact h (e ▸ List.mem_map_of_mem (f := (·.id)) hc)

theorem liveB_ids_sub (h : Int) (bs : List Ballot) (id : Bytes) (hn : id ∉ bs.map (·.id)) :
    id ∉ (liveB h bs).map (·.id) := by
  intro hm
  rw [List.mem_map] at hm
  obtain ⟨c, hc, rfl⟩ := hm
  exact hn (List.mem_map_of_mem (f := (·.id)) (List.mem_filter.mp hc).1)

theorem liveB_cons (h : Int) (c : Ballot) (r : List Ballot) :
    liveB h (c :: r) = if isLive h c then c :: liveB h r else liveB h r := by
  unfold liveB; rw [List.filter_cons]

/-- closed form of the loop of `common.Vote` on a list with pairwise different ids -/
theorem voteLoop_char (h : Int) (id k : Bytes) (bs : List Ballot) (found : Option Nat)
    (hn : (bs.map (·.id)).Nodup) :
    voteLoop h id k bs found =
      match (liveB h bs).find? (hasId id) with
      | none => (match found with
          | some n => .stored (liveB h bs) n
          | none => .stored (liveB h bs ++ [⟨id, [k], h⟩]) 1)
      | some c => if c.voters.contains k then .dup c.voters.length
                  else .stored ((liveB h bs).map (rep h id k)) (c.voters.length + 1) := by
  induction bs generalizing found with
  | nil =>
    cases found <;> simp [voteLoop, liveB]
  | cons c r ih =>
    have hnr : (r.map (·.id)).Nodup := (List.nodup_cons.mp hn).2
    have hcr : c.id ∉ r.map (·.id) := (List.nodup_cons.mp hn).1
    simp only [voteLoop]
    by_cases hs : h - c.height > blockDiff
    · -- stale: skipped
      have hl : isLive h c = false := by simp [isLive, hs]
      rw [if_pos hs, liveB_cons, hl]
      simp only [Bool.false_eq_true, if_false]
      exact ih found hnr
    · have hl : isLive h c = true := by simp [isLive, hs]
      rw [if_neg hs, liveB_cons, hl]
      simp only [if_true]
      by_cases he : c.id = id
      · subst he
        rw [if_pos rfl]
        have hf : (c :: liveB h r).find? (hasId c.id) = some c := by
          simp [List.find?_cons, hasId]
        rw [hf]
        by_cases hk : k ∈ c.voters
        · simp [hk]
        · have hno := liveB_ids_sub h r c.id hcr
          have hrc : rep h c.id k c = ⟨c.id, c.voters ++ [k], h⟩ := by simp [rep]
          rw [ih (some (c.voters.length + 1)) hnr, noId_find c.id _ hno]
          simp [hk, VoteRes.cons, noId_rep h c.id k _ hno, hrc]
      · rw [if_neg he]
        have hf : (c :: liveB h r).find? (hasId id) = (liveB h r).find? (hasId id) := by
          simp [List.find?_cons, hasId, he]
        rw [hf, ih found hnr]
        have hrep : rep h id k c = c := by simp [rep, he]
        cases hm : (liveB h r).find? (hasId id) with
        | none =>
          cases found <;> simp [VoteRes.cons]
        | some c' =>
          simp only []
          by_cases hk : k ∈ c'.voters
          · simp [hk, VoteRes.cons]
          · simp [hk, VoteRes.cons, hrep]

theorem firstIdx_noId (id : Bytes) (l : List Ballot) (h : id ∉ l.map (·.id)) : firstIdx id l = none := by
  induction l with
  | nil => rfl
  | cons c r ih =>
    simp only [List.map_cons, List.mem_cons, not_or] at h
    simp only [firstIdx]
    rw [if_neg (fun e => h.1 e.symm), ih h.2]; rfl

theorem firstIdx_erase (id : Bytes) (l : List Ballot) (hn : (l.map (·.id)).Nodup) (hm : id ∈ l.map (·.id)) :
    ∃ i, firstIdx id l = some i ∧ i < l.length ∧ l.eraseIdx i = l.filter (fun b => !hasId id b) := by
  induction l with
  | nil => simp at hm
  | cons c r ih =>
    have hnr : (r.map (·.id)).Nodup := (List.nodup_cons.mp hn).2
    have hcr : c.id ∉ r.map (·.id) := (List.nodup_cons.mp hn).1
    by_cases he : c.id = id
    · subst he
      refine ⟨0, by simp [firstIdx], by simp, ?_⟩
      rw [List.eraseIdx_cons_zero, List.filter_cons]
      have h1 : (!hasId c.id c) = false := by simp [hasId]
      rw [h1]; simp only [Bool.false_eq_true, if_false]
      exact (noId_filter c.id r hcr).symm
    · have hm' : id ∈ r.map (·.id) := by
        simp only [List.map_cons, List.mem_cons] at hm
        rcases hm with e | e
        · exact absurd e.symm he
        · exact e
      obtain ⟨i, hi1, hi2, hi3⟩ := ih hnr hm'
      refine ⟨i + 1, ?_, by simp; omega, ?_⟩
      · simp only [firstIdx, if_neg he, hi1]; rfl
      · rw [List.eraseIdx_cons_succ, List.filter_cons]
        have h1 : (!hasId id c) = true := by simp [hasId, he]
        rw [h1]; simp only [if_true]
        rw [hi3]

/-- `RemoveVotes` on a list with pairwise different ids that holds the id: exactly that ballot goes -/
theorem removeVotes_char (id : Bytes) (bs : List Ballot) (hn : (bs.map (·.id)).Nodup) (hm : id ∈ bs.map (·.id)) :
    removeVotes bs id = some (bs.filter (fun b => !hasId id b)) := by
  obtain ⟨i, h1, h2, h3⟩ := firstIdx_erase id bs hn hm
  unfold removeVotes
  rw [h1]
  simp only [Option.getD_some]
  rw [if_pos h2, h3]

/-! ### the ballot invariant -/

/-- what every stored ballot list satisfies between invocations, for a fixed stored key list `keys`
(threshold `thr`) at block height `H` -/
structure BInv (keys : List Bytes) (thr : Nat) (H : Int) (bs : List Ballot) : Prop where
  ids : (bs.map (·.id)).Nodup                          -- one ballot per id
  vnodup : ∀ b ∈ bs, b.voters.Nodup                   -- voters are distinct …
  vkeys : ∀ b ∈ bs, ∀ v ∈ b.voters, v ∈ keys          -- … stored keys
  below : ∀ b ∈ bs, b.voters.length < thr             -- a ballot that reaches the threshold is removed at once
  hle : ∀ b ∈ bs, b.height ≤ H                        -- `height` is the block of a past vote

theorem BInv.mono {keys : List Bytes} {thr : Nat} {H h : Int} {bs : List Ballot} (hi : BInv keys thr H bs) (hh : H ≤ h) :
    BInv keys thr h bs :=
  ⟨hi.ids, hi.vnodup, hi.vkeys, hi.below, fun b hb => by have := hi.hle b hb; omega⟩

theorem find_some_mem {id : Bytes} {l : List Ballot} {c : Ballot} (h : l.find? (hasId id) = some c) :
    c ∈ l ∧ c.id = id := by
  refine ⟨List.mem_of_find?_eq_some h, ?_⟩
  have := List.find?_some h
  simpa [hasId] using this

theorem find_none_noId {id : Bytes} {l : List Ballot} (h : l.find? (hasId id) = none) : id ∉ l.map (·.id) := by
  intro hm
  rw [List.mem_map] at hm
  obtain ⟨c, hc, rfl⟩ := hm
  rw [List.find?_eq_none] at h
  have := h c hc
  simp [hasId] at this

theorem liveB_mem {h : Int} {bs : List Ballot} {c : Ballot} (hc : c ∈ liveB h bs) : c ∈ bs :=
  (List.mem_filter.mp hc).1

theorem liveB_nodup (h : Int) (bs : List Ballot) (hn : (bs.map (·.id)).Nodup) : ((liveB h bs).map (·.id)).Nodup :=
  List.Nodup.sublist (List.Sublist.map _ List.filter_sublist) hn

theorem rep_id (h : Int) (id k : Bytes) (c : Ballot) : (rep h id k c).id = c.id := by
  unfold rep; split
  · rename_i e; exact e.symm
  · rfl

theorem rep_ids (h : Int) (id k : Bytes) (l : List Ballot) : (l.map (rep h id k)).map (·.id) = l.map (·.id) := by
  induction l with
  | nil => rfl
  | cons c r ih => simp only [List.map_cons, rep_id, ih]

theorem filter_map_rep (h : Int) (id k : Bytes) (l : List Ballot) :
    (l.map (rep h id k)).filter (fun b => !hasId id b) = l.filter (fun b => !hasId id b) := by
  induction l with
  | nil => rfl
  | cons c r ih =>
    rw [List.map_cons, List.filter_cons, List.filter_cons]
    have e1 : hasId id (rep h id k c) = hasId id c := by simp only [hasId, rep_id]
    rw [e1, ih]
    by_cases he : c.id = id
    · have : hasId id c = true := by simp [hasId, he]
      simp [this]
    · have h2 : rep h id k c = c := by simp [rep, he]
      rw [h2]

theorem collectF_none {thr : Nat} {bs : List Ballot} {h : Int} {id k : Bytes}
    (hf : (liveB h bs).find? (hasId id) = none) :
    collectF thr bs h id k = if 1 < thr then (liveB h bs ++ [⟨id, [k], h⟩], false) else (liveB h bs, true) := by
  unfold collectF; simp only [hf]

theorem collectF_some {thr : Nat} {bs : List Ballot} {h : Int} {id k : Bytes} {c : Ballot}
    (hf : (liveB h bs).find? (hasId id) = some c) :
    collectF thr bs h id k =
      if c.voters.contains k then (bs, false)
      else if c.voters.length + 1 < thr then ((liveB h bs).map (rep h id k), false)
      else ((liveB h bs).filter (fun b => !hasId id b), true) := by
  unfold collectF; simp only [hf]

/-- on a well-formed list `collect` never FAULTs and equals its closed form -/
theorem collect_eq {keys : List Bytes} {thr : Nat} {H : Int} {bs : List Ballot} (hinv : BInv keys thr H bs)
    (hthr : 0 < thr) (h : Int) (id k : Bytes) :
    collect thr bs h id k = some (collectF thr bs h id k) := by
  unfold collect vote
  rw [voteLoop_char h id k bs none hinv.ids]
  have hLn := liveB_nodup h bs hinv.ids
  cases hf : (liveB h bs).find? (hasId id) with
  | none =>
    rw [collectF_none hf]
    simp only []
    by_cases h1 : 1 < thr
    · simp [h1]
    · simp only [h1, if_false]
      have hno := find_none_noId hf
      have hn' : ((liveB h bs ++ [(⟨id, [k], h⟩ : Ballot)]).map (·.id)).Nodup := by
        rw [List.map_append, List.nodup_append]
        refine ⟨hLn, by simp, ?_⟩
        intro a ha b hb
        simp only [List.map_cons, List.map_nil, List.mem_singleton] at hb
        subst hb
        intro e; subst e; exact hno ha
      have hm' : id ∈ (liveB h bs ++ [(⟨id, [k], h⟩ : Ballot)]).map (·.id) := by simp
      rw [removeVotes_char id _ hn' hm']
      simp only [Option.map_some, List.filter_append, Option.some.injEq, Prod.mk.injEq, and_true]
      rw [noId_filter id _ hno]
      simp [hasId]
  | some c =>
    rw [collectF_some hf]
    obtain ⟨hcL, hcid⟩ := find_some_mem hf
    have hcb : c ∈ bs := liveB_mem hcL
    simp only []
    by_cases hk : k ∈ c.voters
    · have hb := hinv.below c hcb
      simp [hk, hb]
    · simp only [List.contains_iff_mem, hk, if_false]
      by_cases h2 : c.voters.length + 1 < thr
      · simp [h2]
      · simp only [h2, if_false]
        have hn' : (((liveB h bs).map (rep h id k)).map (·.id)).Nodup := by rw [rep_ids]; exact hLn
        have hm' : id ∈ ((liveB h bs).map (rep h id k)).map (·.id) := by
          rw [rep_ids]; exact hcid ▸ List.mem_map_of_mem (f := (·.id)) hcL
        rw [removeVotes_char id _ hn' hm', filter_map_rep]
        rfl

/-! ### refinement: ballot list ⟶ tallies -/

/-- the ballot list stands for the tallies `sp`, as far as ballots that are still live at `h` go -/
def Rel (h : Int) (bs : List Ballot) (sp : Spec) : Prop :=
  ∀ id, Tally.liveAt h (absB bs id) = Tally.liveAt h (sp id)

theorem blockDiff_eq : blockDiff = 20 := rfl

theorem liveAt_liveAt {H h : Int} (hh : H ≤ h) (t : Option Tally) :
    Tally.liveAt h (Tally.liveAt H t) = Tally.liveAt h t := by
  cases t with
  | none => rfl
  | some t =>
    simp only [Tally.liveAt]
    by_cases h1 : H - t.last > 20
    · have h2 : h - t.last > 20 := by omega
      simp [h1, h2, Tally.liveAt]
    · simp [h1, Tally.liveAt]

/-- a stale ballot stays stale: the relation survives the passing of blocks -/
theorem Rel.mono {H h : Int} {bs : List Ballot} {sp : Spec} (hr : Rel H bs sp) (hh : H ≤ h) : Rel h bs sp := by
  intro id
  rw [← liveAt_liveAt hh (absB bs id), ← liveAt_liveAt hh (sp id), hr id]

theorem liveAt_toTally (h : Int) (c : Ballot) :
    Tally.liveAt h (some (toTally c)) = if isLive h c then some (toTally c) else none := by
  simp only [Tally.liveAt, toTally, isLive, blockDiff_eq]
  by_cases h1 : h - c.height > 20 <;> simp [h1]

/-- looking an id up among the live ballots = looking it up and testing liveness (ids are unique) -/
theorem find_liveB (h : Int) (id : Bytes) (bs : List Ballot) (hn : (bs.map (·.id)).Nodup) :
    (liveB h bs).find? (hasId id) =
      match bs.find? (hasId id) with
      | none => none
      | some c => if isLive h c then some c else none := by
  induction bs with
  | nil => rfl
  | cons c r ih =>
    have hnr : (r.map (·.id)).Nodup := (List.nodup_cons.mp hn).2
    have hcr : c.id ∉ r.map (·.id) := (List.nodup_cons.mp hn).1
    rw [liveB_cons]
    by_cases he : c.id = id
    · subst he
      have h1 : (c :: r).find? (hasId c.id) = some c := by simp [List.find?_cons, hasId]
      rw [h1]
      by_cases hl : isLive h c = true
      · simp [hl, List.find?_cons, hasId]
      · simp only [hl, Bool.false_eq_true, if_false]
        exact noId_find c.id _ (liveB_ids_sub h r c.id hcr)
    · have h1 : (c :: r).find? (hasId id) = r.find? (hasId id) := by simp [List.find?_cons, hasId, he]
      rw [h1, ← ih hnr]
      by_cases hl : isLive h c = true
      · simp [hl, List.find?_cons, hasId, he]
      · simp [hl]

theorem liveAt_absB_live (h : Int) (id : Bytes) (bs : List Ballot) (hn : (bs.map (·.id)).Nodup) :
    Tally.liveAt h (absB bs id) = ((liveB h bs).find? (hasId id)).map toTally := by
  rw [find_liveB h id bs hn]
  unfold absB
  cases hf : bs.find? (hasId id) with
  | none => rfl
  | some c =>
    simp only [Option.map_some]
    rw [liveAt_toTally]
    by_cases hl : isLive h c = true <;> simp [hl]

theorem liveAt_absB_liveB (h : Int) (id : Bytes) (bs : List Ballot) (hn : (bs.map (·.id)).Nodup) :
    Tally.liveAt h (absB (liveB h bs) id) = Tally.liveAt h (absB bs id) := by
  rw [liveAt_absB_live h id bs hn]
  unfold absB
  cases hf : (liveB h bs).find? (hasId id) with
  | none => rfl
  | some c =>
    simp only [Option.map_some]
    rw [liveAt_toTally]
    have : isLive h c = true := (List.mem_filter.mp (List.mem_of_find?_eq_some hf)).2
    simp [this]

theorem find_append_new (l : List Ballot) (b : Ballot) (id' : Bytes) :
    (l ++ [b]).find? (hasId id') = match l.find? (hasId id') with
      | some c => some c
      | none => if b.id = id' then some b else none := by
  rw [List.find?_append]
  cases l.find? (hasId id') with
  | some c => rfl
  | none => by_cases hb : b.id = id' <;> simp [List.find?_cons, hasId, hb]

theorem nodup_ids_inj {l : List Ballot} (hn : (l.map (·.id)).Nodup) {a b : Ballot} (ha : a ∈ l) (hb : b ∈ l)
    (e : a.id = b.id) : a = b := by
  induction l with
  | nil => cases ha
  | cons c r ih =>
    have hnr : (r.map (·.id)).Nodup := (List.nodup_cons.mp hn).2
    have hcr : c.id ∉ r.map (·.id) := (List.nodup_cons.mp hn).1
    rcases List.mem_cons.mp ha with rfl | ha' <;> rcases List.mem_cons.mp hb with rfl | hb'
    · rfl
    · exact absurd (e ▸ List.mem_map_of_mem (f := (·.id)) hb') hcr
    · exact absurd (e ▸ List.mem_map_of_mem (f := (·.id)) ha') hcr
    · exact ih hnr ha' hb'

theorem find_map_rep (h : Int) (id k id' : Bytes) (l : List Ballot) :
    (l.map (rep h id k)).find? (hasId id') = (l.find? (hasId id')).map (rep h id k) := by
  induction l with
  | nil => rfl
  | cons c r ih =>
    rw [List.map_cons, List.find?_cons, List.find?_cons]
    have e1 : hasId id' (rep h id k c) = hasId id' c := by simp only [hasId, rep_id]
    rw [e1]
    cases hasId id' c with
    | true => rfl
    | false => exact ih

theorem find_filter_other (id id' : Bytes) (l : List Ballot) (hne : id' ≠ id) :
    (l.filter (fun b => !hasId id b)).find? (hasId id') = l.find? (hasId id') := by
  induction l with
  | nil => rfl
  | cons c r ih =>
    rw [List.filter_cons]
    by_cases he : c.id = id
    · have h1 : (!hasId id c) = false := by simp [hasId, he]
      have h2 : hasId id' c = false := by simp [hasId, he]; exact fun e => hne e.symm
      rw [h1]; simp only [Bool.false_eq_true, if_false]
      rw [List.find?_cons, h2]; exact ih
    · have h1 : (!hasId id c) = true := by simp [hasId, he]
      rw [h1]; simp only [if_true]
      rw [List.find?_cons, List.find?_cons, ih]

theorem find_filter_self (id : Bytes) (l : List Ballot) :
    (l.filter (fun b => !hasId id b)).find? (hasId id) = none := by
  rw [List.find?_eq_none]
  intro c hc
  have := (List.mem_filter.mp hc).2
  simpa using this

theorem liveAt_fresh (h : Int) (vs : List Bytes) : Tally.liveAt h (some ⟨vs, h⟩) = some ⟨vs, h⟩ := by
  simp [Tally.liveAt]

/-- **one accepted vote, closed form**: the closed form of `collect` takes related states to related states,
fires exactly when the tally specification fires, and keeps the ballot invariant -/
theorem collectF_refines {keys : List Bytes} {thr : Nat} {H h : Int} {bs : List Ballot} {sp : Spec}
    (hinv : BInv keys thr H bs) (hthr : 0 < thr) (hH : H ≤ h) (hrel : Rel H bs sp) (id k : Bytes) (hk : k ∈ keys) :
    (collectF thr bs h id k).2 = (Spec.step thr sp h id k).2 ∧
    Rel h (collectF thr bs h id k).1 (Spec.step thr sp h id k).1 ∧
    BInv keys thr h (collectF thr bs h id k).1 := by
  have hrel' : Rel h bs sp := hrel.mono hH
  have hLn := liveB_nodup h bs hinv.ids
  have hspid : Tally.liveAt h (sp id) = ((liveB h bs).find? (hasId id)).map toTally := by
    rw [← hrel' id, liveAt_absB_live h id bs hinv.ids]
  -- the invariant of the surviving ballots
  have hLinv : BInv keys thr h (liveB h bs) :=
    ⟨hLn, fun b hb => hinv.vnodup b (liveB_mem hb), fun b hb => hinv.vkeys b (liveB_mem hb),
     fun b hb => hinv.below b (liveB_mem hb), fun b hb => by have := hinv.hle b (liveB_mem hb); omega⟩
  -- other ids are untouched
  have hother : ∀ id', id' ≠ id → Tally.liveAt h (absB (liveB h bs) id') = Tally.liveAt h (sp id') := by
    intro id' _; rw [liveAt_absB_liveB h id' bs hinv.ids, hrel' id']
  cases hf : (liveB h bs).find? (hasId id) with
  | none =>
    rw [hf] at hspid
    simp only [Option.map_none] at hspid
    have hno := find_none_noId hf
    rw [collectF_none hf]
    unfold Spec.step
    rw [hspid]
    simp only []
    by_cases h1 : 1 < thr
    · simp only [h1, if_true]
      refine ⟨trivial, ?_, ?_⟩
      · intro id'
        unfold absB
        rw [find_append_new]
        by_cases he : id' = id
        · subst he
          rw [hf]; simp only [if_true, Option.map_some, Spec.set, toTally]
        · have := hother id' he
          unfold absB at this
          simp only [Spec.set, he, if_false]
          cases hf' : (liveB h bs).find? (hasId id') with
          | some c => rw [hf'] at this; simpa using this
          | none =>
            rw [hf'] at this
            have hne : ¬ id = id' := fun e => he e.symm
            simp only [hne, if_false]
            exact this
      · refine ⟨?_, ?_, ?_, ?_, ?_⟩
        · rw [List.map_append, List.nodup_append]
          refine ⟨hLn, by simp, ?_⟩
          intro a ha b hb
          simp only [List.map_cons, List.map_nil, List.mem_singleton] at hb
          subst hb
          intro e; subst e; exact hno ha
        · intro b hb
          rcases List.mem_append.mp hb with hb | hb
          · exact hLinv.vnodup b hb
          · simp only [List.mem_singleton] at hb; subst hb; simp
        · intro b hb v hv
          rcases List.mem_append.mp hb with hb | hb
          · exact hLinv.vkeys b hb v hv
          · simp only [List.mem_singleton] at hb; subst hb
            simp only [List.mem_singleton] at hv; subst hv; exact hk
        · intro b hb
          rcases List.mem_append.mp hb with hb | hb
          · exact hLinv.below b hb
          · simp only [List.mem_singleton] at hb; subst hb; simpa using h1
        · intro b hb
          rcases List.mem_append.mp hb with hb | hb
          · exact hLinv.hle b hb
          · simp only [List.mem_singleton] at hb; subst hb; simp
    · simp only [h1, if_false]
      refine ⟨trivial, ?_, hLinv⟩
      intro id'
      by_cases he : id' = id
      · subst he
        unfold absB
        rw [hf]; simp [Spec.set, Tally.liveAt]
      · simp only [Spec.set, he, if_false]
        exact hother id' he
  | some c =>
    rw [hf] at hspid
    simp only [Option.map_some] at hspid
    obtain ⟨hcL, hcid⟩ := find_some_mem hf
    rw [collectF_some hf]
    unfold Spec.step
    rw [hspid]
    simp only [toTally, List.contains_iff_mem]
    by_cases hkv : k ∈ c.voters
    · simp only [hkv, if_true]
      exact ⟨trivial, hrel', ⟨hinv.ids, hinv.vnodup, hinv.vkeys, hinv.below,
        fun b hb => by have := hinv.hle b hb; omega⟩⟩
    · simp only [hkv, if_false]
      by_cases h2 : c.voters.length + 1 < thr
      · simp only [h2, if_true]
        refine ⟨trivial, ?_, ?_⟩
        · intro id'
          unfold absB
          rw [find_map_rep]
          by_cases he : id' = id
          · subst he
            rw [hf]
            simp only [Option.map_some, Spec.set, if_true, toTally, rep, hcid]
          · have := hother id' he
            unfold absB at this
            simp only [Spec.set, he, if_false]
            cases hf' : (liveB h bs).find? (hasId id') with
            | none => rw [hf'] at this; simpa using this
            | some c' =>
              rw [hf'] at this
              obtain ⟨_, hc'id⟩ := find_some_mem hf'
              have hne : ¬ c'.id = id := fun e => he (hc'id ▸ e)
              simp only [Option.map_some, rep, hne, if_false]
              simpa using this
        · refine ⟨by rw [rep_ids]; exact hLn, ?_, ?_, ?_, ?_⟩
          · intro b hb
            obtain ⟨b0, hb0, rfl⟩ := List.mem_map.mp hb
            unfold rep; split
            · rename_i e
              -- the ballot of the id is `c` (ids are unique)
              have : b0 = c := nodup_ids_inj hLn hb0 hcL (e.trans hcid.symm)
              subst this
              simp only []
              rw [List.nodup_append]
              refine ⟨hLinv.vnodup _ hb0, by simp, ?_⟩
              intro a ha b hb'
              simp only [List.mem_singleton] at hb'
              subst hb'
              intro e'; subst e'; exact hkv ha
            · exact hLinv.vnodup b0 hb0
          · intro b hb v hv
            obtain ⟨b0, hb0, rfl⟩ := List.mem_map.mp hb
            unfold rep at hv; split at hv
            · simp only [List.mem_append, List.mem_singleton] at hv
              rcases hv with hv | hv
              · exact hLinv.vkeys b0 hb0 v hv
              · subst hv; exact hk
            · exact hLinv.vkeys b0 hb0 v hv
          · intro b hb
            obtain ⟨b0, hb0, rfl⟩ := List.mem_map.mp hb
            unfold rep; split
            · rename_i e
              have : b0 = c := nodup_ids_inj hLn hb0 hcL (e.trans hcid.symm)
              subst this
              simp only [List.length_append, List.length_cons, List.length_nil]
              omega
            · exact hLinv.below b0 hb0
          · intro b hb
            obtain ⟨b0, hb0, rfl⟩ := List.mem_map.mp hb
            unfold rep; split
            · simp
            · exact hLinv.hle b0 hb0
      · simp only [h2, if_false]
        refine ⟨trivial, ?_, ?_⟩
        · intro id'
          by_cases he : id' = id
          · subst he
            unfold absB
            rw [find_filter_self]; simp [Spec.set, Tally.liveAt]
          · simp only [Spec.set, he, if_false]
            unfold absB
            rw [find_filter_other id id' _ he]
            exact hother id' he
        · have hsub : ∀ b, b ∈ (liveB h bs).filter (fun b => !hasId id b) → b ∈ liveB h bs :=
            fun b hb => (List.mem_filter.mp hb).1
          exact ⟨List.Nodup.sublist (List.Sublist.map _ List.filter_sublist) hLn,
            fun b hb => hLinv.vnodup b (hsub b hb), fun b hb => hLinv.vkeys b (hsub b hb),
            fun b hb => hLinv.below b (hsub b hb), fun b hb => hLinv.hle b (hsub b hb)⟩

end NeoFS.Vote
