import NeoFS.Lemmas.UpgradeNetmap2
import NeoFS.Lemmas.EpochStoresEnc
/-! NNS (< 0.18): the accounting of the TLD loop - by how much the balance of a former TLD owner drops and which
account-token entries disappear. (`decInt (encInt z) = z` for `0 ≤ z < 256^40` is `NeoFS.decInt_encInt`.) -/
namespace NeoFS.Upgrade
open NeoFS NeoFS.Generated

/-- the owner of a name state that is a TLD held by an account (what the loop acts on) -/
def tldOwner (v : Bytes) : Option Bytes :=
  match deser v with
  | none => none
  | some it =>
    match elems it with
    | some (Item.bytes o :: Item.bytes name :: _) => if isTLDName name then some o else none
    | _ => none

/-- number of TLDs of `o` among the entries -/
def tldCount (l : Store) (o : Bytes) : Int :=
  match l with
  | [] => 0
  | kv :: r => (if tldOwner kv.2 = some o then 1 else 0) + tldCount r o

/-- the account-token keys `0x02 ‖ owner ‖ tokenKey` of the TLDs among the entries -/
def tldTokenKeys (l : Store) : List Bytes :=
  match l with
  | [] => []
  | kv :: r =>
    match tldOwner kv.2 with
    | some o => (nns_prefixAccountToken.toNat :: (o ++ kv.1.drop 1)) :: tldTokenKeys r
    | none => tldTokenKeys r

/-- what a non-faulting step did -/
theorem nnsStep_cases {s s1 : Store} {kv : Bytes × Bytes} (h : nnsStep s kv = some s1) :
    (tldOwner kv.2 = none ∧ s1 = s) ∨
    (∃ o v', tldOwner kv.2 = some o ∧ s1 = put (nnsDropOwner s o (kv.1.drop 1)) kv.1 v') := by
  unfold nnsStep at h
  unfold tldOwner
  cases hd : deser kv.2 with
  | none => rw [hd] at h; cases h
  | some it =>
    rw [hd] at h
    simp only at h ⊢
    cases he : elems it with
    | none => rw [he] at h; cases h
    | some l =>
      rw [he] at h
      match l, h with
      | [], h => cases h
      | [_], h => cases h
      | owner :: nameI :: rest, h =>
        simp only at h
        cases nameI with
        | bytes name =>
          simp only at h
          by_cases ht : isTLDName name = true
          · simp only [ht, Bool.not_true, Bool.false_eq_true, if_false] at h
            cases owner with
            | bytes o =>
              simp only [Option.some.injEq] at h
              right
              exact ⟨o, _, by simp [ht], h.symm⟩
            | null => cases h
            | bool _ => cases h
            | int _ => cases h
            | buffer _ => cases h
            | array _ => cases h
            | struct _ => cases h
          · have ht' : isTLDName name = false := by simpa using ht
            simp only [ht', Bool.not_false, if_true, Option.some.injEq] at h
            left
            refine ⟨?_, h.symm⟩
            cases owner <;> simp [ht']
        | null => cases h
        | bool _ => cases h
        | int _ => cases h
        | buffer _ => cases h
        | array _ => cases h
        | struct _ => cases h

theorem storedIntOr0_congr {s t : Store} {k : Bytes} (h : get s k = get t k) : storedIntOr0 s k = storedIntOr0 t k := by
  unfold storedIntOr0; rw [h]

/-- the balance record after `updateBalance(…, owner, -1)` -/
theorem nnsDropOwner_balance (s : Store) (o' tk o : Bytes)
    (hb : o' = o → 1 ≤ storedIntOr0 s (nns_prefixBalance.toNat :: o) ∧ storedIntOr0 s (nns_prefixBalance.toNat :: o) < 256 ^ 40) :
    storedIntOr0 (nnsDropOwner s o' tk) (nns_prefixBalance.toNat :: o) =
      storedIntOr0 s (nns_prefixBalance.toNat :: o) - (if o' = o then 1 else 0) := by
  unfold nnsDropOwner
  simp only
  have tokNe : nns_prefixBalance.toNat :: o ≠ nns_prefixAccountToken.toNat :: (o' ++ tk) := by
    intro e; have := (List.cons.inj e).1; revert this; decide
  rw [storedIntOr0_congr (get_del_other _ _ _ tokNe)]
  by_cases e : o' = o
  · subst e
    obtain ⟨h1, h2⟩ := hb rfl
    simp only [if_true]
    by_cases hz : storedIntOr0 s (nns_prefixBalance.toNat :: o') - 1 = 0
    · simp only [hz, if_true]
      unfold storedIntOr0
      rw [get_del_self]
    · simp only [hz, if_false]
      have : storedIntOr0 (put s (nns_prefixBalance.toNat :: o') (encInt (storedIntOr0 s (nns_prefixBalance.toNat :: o') - 1)))
          (nns_prefixBalance.toNat :: o') = decInt (encInt (storedIntOr0 s (nns_prefixBalance.toNat :: o') - 1)) := by
        unfold storedIntOr0; rw [get_put_self]
      rw [this, NeoFS.decInt_encInt _ ⟨by omega, by omega⟩]
  · simp only [e, if_false]
    have bkNe : nns_prefixBalance.toNat :: o ≠ nns_prefixBalance.toNat :: o' := by
      intro h; exact e (List.cons.inj h).2.symm
    have : storedIntOr0 (if storedIntOr0 s (nns_prefixBalance.toNat :: o') - 1 = 0 then del s (nns_prefixBalance.toNat :: o')
        else put s (nns_prefixBalance.toNat :: o') (encInt (storedIntOr0 s (nns_prefixBalance.toNat :: o') - 1)))
        (nns_prefixBalance.toNat :: o) = storedIntOr0 s (nns_prefixBalance.toNat :: o) := by
      apply storedIntOr0_congr
      split
      · exact get_del_other _ _ _ bkNe
      · exact get_put_other _ _ _ _ bkNe
    rw [this]; omega

/-- **the balance of a former TLD owner drops by exactly the number of its TLDs** (loop invariant) -/
theorem forNames_balance {s s' : Store} {l : Store} (h : forNames s l = some s')
    (hl : ∀ kv ∈ l, kv.1.head? = some nns_prefixName.toNat) (o : Bytes)
    (hb : tldCount l o ≤ storedIntOr0 s (nns_prefixBalance.toNat :: o) ∧
      storedIntOr0 s (nns_prefixBalance.toNat :: o) < 256 ^ 40) :
    storedIntOr0 s' (nns_prefixBalance.toNat :: o) = storedIntOr0 s (nns_prefixBalance.toNat :: o) - tldCount l o := by
  induction l generalizing s with
  | nil => simp only [forNames, Option.some.injEq] at h; rw [← h]; simp [tldCount]
  | cons kv r ih =>
    unfold forNames at h
    cases h1 : nnsStep s kv with
    | none => rw [h1] at h; cases h
    | some s1 =>
      rw [h1] at h
      have hr : ∀ kv ∈ r, kv.1.head? = some nns_prefixName.toNat := fun x hx => hl x (List.mem_cons_of_mem _ hx)
      have hcnt : ∀ r', tldCount r' o ≥ 0 := by
        intro r'; induction r' with
        | nil => simp [tldCount]
        | cons x xs ihx => simp only [tldCount]; split <;> omega
      simp only [tldCount] at hb ⊢
      rcases nnsStep_cases h1 with ⟨hn, hs⟩ | ⟨o', v', ho, hs⟩
      · subst hs
        simp only [hn, reduceCtorEq, if_false, Int.zero_add] at hb ⊢
        exact ih h hr hb
      · have keyNe : nns_prefixBalance.toNat :: o ≠ kv.1 := by
          intro e
          have := hl kv List.mem_cons_self
          rw [← e] at this
          simp only [List.head?_cons, Option.some.injEq] at this
          revert this; decide
        have step : storedIntOr0 s1 (nns_prefixBalance.toNat :: o) =
            storedIntOr0 s (nns_prefixBalance.toNat :: o) - (if o' = o then 1 else 0) := by
          rw [hs, storedIntOr0_congr (get_put_other _ _ _ _ keyNe)]
          apply nnsDropOwner_balance
          intro e
          have := hcnt r
          simp only [ho, e, if_true] at hb
          constructor <;> omega
        have e1 : (if tldOwner kv.2 = some o then (1 : Int) else 0) = (if o' = o then 1 else 0) := by
          rw [ho]; by_cases e : o' = o <;> simp [e]
        rw [e1] at hb ⊢
        have := hcnt r
        rw [ih h hr (by rw [step]; constructor <;> omega), step]
        omega

/-- **the account-token entries**: exactly the entries `0x02 ‖ owner ‖ tokenKey` of the TLDs disappear, every
other one keeps its value -/
theorem forNames_tokens {s s' : Store} {l : Store} (h : forNames s l = some s')
    (hl : ∀ kv ∈ l, kv.1.head? = some nns_prefixName.toNat) (q : Bytes)
    (hq : q.head? = some nns_prefixAccountToken.toNat) :
    get s' q = if q ∈ tldTokenKeys l then none else get s q := by
  induction l generalizing s with
  | nil => simp only [forNames, Option.some.injEq] at h; rw [← h]; simp [tldTokenKeys]
  | cons kv r ih =>
    unfold forNames at h
    cases h1 : nnsStep s kv with
    | none => rw [h1] at h; cases h
    | some s1 =>
      rw [h1] at h
      have hr : ∀ kv ∈ r, kv.1.head? = some nns_prefixName.toNat := fun x hx => hl x (List.mem_cons_of_mem _ hx)
      rw [ih h hr]
      rcases nnsStep_cases h1 with ⟨hn, hs⟩ | ⟨o', v', ho, hs⟩
      · subst hs
        simp only [tldTokenKeys, hn]
      · simp only [tldTokenKeys, ho, List.mem_cons]
        have keyNe : q ≠ kv.1 := by
          intro e
          have := hl kv List.mem_cons_self
          rw [← e, hq] at this
          simp only [Option.some.injEq] at this
          revert this; decide
        have bkNe : ∀ x : Bytes, q ≠ nns_prefixBalance.toNat :: x := by
          intro x e; rw [e] at hq
          simp only [List.head?_cons, Option.some.injEq] at hq
          revert hq; decide
        have g1 : get s1 q = if q = nns_prefixAccountToken.toNat :: (o' ++ kv.1.drop 1) then none else get s q := by
          rw [hs, get_put_other _ _ _ _ keyNe]
          unfold nnsDropOwner
          simp only
          by_cases e : q = nns_prefixAccountToken.toNat :: (o' ++ kv.1.drop 1)
          · rw [if_pos e, e, get_del_self]
          · rw [if_neg e, get_del_other _ _ _ e]
            split
            · exact get_del_other _ _ _ (bkNe o')
            · exact get_put_other _ _ _ _ (bkNe o')
        rw [g1]
        by_cases e : q = nns_prefixAccountToken.toNat :: (o' ++ kv.1.drop 1)
        · simp [e]
        · by_cases e2 : q ∈ tldTokenKeys r
          · simp [e2]
          · simp only [e2, if_false, e, false_or]

end NeoFS.Upgrade
