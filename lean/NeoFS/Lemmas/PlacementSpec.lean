import NeoFS.Lemmas.PlacementCommit
set_option linter.unusedSimpArgs false
set_option linter.unusedVariables false
/-! The abstract roster of property C14 and the proof that the stored roster refines it along every
history inside the property's quantifier. -/
namespace NeoFS.Placement
open NeoFS

/-! ### the specification: the roster in the property's own words -/

/-- per container and placement vector: the keys accumulated by `addNextEpochNodes` since the previous
commit (`pending`), the keys fixed by the last commit (`nodes`), the REP numbers fixed by the last commit -/
structure Roster where
  pending : Bytes → Nat → List Bytes
  nodes : Bytes → Nat → List Bytes
  reps : Bytes → List Int

def Roster.empty : Roster := ⟨fun _ _ => [], fun _ _ => [], fun _ => []⟩

/-- an `addNextEpochNodes` call is accepted: Alphabet witness, 32-byte container id, vector number 0 … 254
that continues the numbering (vector 0, or vector `vec − 1` already has pending keys), 33-byte keys -/
def addOK (r : Roster) (alphabet : Bool) (cid : Bytes) (vec : Int) (keys : Option (List Bytes)) : Bool :=
  alphabet && (cid.length == 32) && decide (0 ≤ vec) && decide (vec < 255) &&
  (vec == 0 || !(r.pending cid (vec - 1).toNat).isEmpty) &&
  (match keys with
   | none => false
   | some ks => ks.all (fun k => k.length == 33))

/-- accepted keys are appended to what is pending for the vector -/
def Roster.add (r : Roster) (cid : Bytes) (v : Nat) (ks : List Bytes) : Roster :=
  { r with pending := fun c i => if c = cid ∧ i = v then r.pending c i ++ ks else r.pending c i }

/-- a `commitContainerListUpdate` call is accepted: Alphabet witness, 32-byte id, at most 256 REP numbers ≤ 255 -/
def commitOK (alphabet : Bool) (cid : Bytes) (reps : Option (List Int)) : Bool :=
  alphabet && (cid.length == 32) && (reps.getD []).all (fun x => decide (x ≤ 255)) && decide ((reps.getD []).length ≤ 256)

/-- the commit fixes what is pending and the REP numbers, and empties the pending roster -/
def Roster.commit (r : Roster) (cid : Bytes) (reps : Option (List Int)) : Roster :=
  { pending := fun c i => if c = cid then [] else r.pending c i
    nodes := fun c i => if c = cid then r.pending c i else r.nodes c i
    reps := fun c => if c = cid then reps.getD [] else r.reps c }

def specStep {σ : Type} (r : Roster) (alphabet : Bool) : Op σ → Roster
  | .add cid vec keys => if addOK r alphabet cid vec keys then r.add cid vec.toNat (keys.getD []) else r
  | .commit cid reps => if commitOK alphabet cid reps then r.commit cid reps else r
  | _ => r

def specRun {σ : Type} (r : Roster) : List (Env σ × Op σ) → Roster
  | [] => r
  | (env, op) :: rest => specRun (specStep r env.alphabet op) rest

/-! ### refinement relation, invariant, quantifier -/

/-- the storage shows the roster `r` through the prefixes the read API iterates over -/
def Refines (s : Store) (r : Roster) : Prop :=
  ∀ cid, cid.length = 32 →
    (∀ b, b < 256 → pendingOf s cid b = r.pending cid b ∧ nodesOf s cid b = r.nodes cid b) ∧
    (repsOf s cid).map decInt = r.reps cid

/-- key order, and the pending keys of every vector carry the counters 1 … n -/
def Inv (s : Store) : Prop :=
  Sorted s ∧ ∀ cid b, cid.length = 32 → b < 256 →
    ∃ vals, vals.length ≤ 32767 ∧ find s (uKey cid ++ [b]) = enumFrom (uKey cid ++ [b]) 1 vals

/-- the property's quantifier: vector numbers and REP numbers are `uint8` (not negative); a vector never
collects more than 32767 keys between two commits (the quantifier names rosters of up to 300 keys) -/
def WFOp {σ : Type} (s : Store) : Op σ → Prop
  | .add cid vec keys => 0 ≤ vec ∧ ∀ ks, keys = some ks → (pendingOf s cid vec.toNat).length + ks.length ≤ 32767
  | .commit _ reps => ∀ rs, reps = some rs → ∀ x ∈ rs, 0 ≤ x
  | _ => True

def WFHist {σ : Type} (s : Store) : List (Env σ × Op σ) → Prop
  | [] => True
  | (env, op) :: rest => WFOp s op ∧ WFHist (invoke s env op).1 rest

/-! ### bridge lemmas: regenerated constants = the literals of the property text -/

theorem cidLen_eq : cidLen = 32 := rfl
theorem keyLen_eq : keyLen = 33 := rfl
theorem maxREPs_eq : maxREPs = 255 := by decide
theorem pU_eq : pU = 117 := by decide
theorem pN_eq : pN = 110 := by decide
theorem pR_eq : pR = 114 := by decide
theorem pM_eq : pM = 109 := by decide

/-! ### helpers -/

theorem decInt_encInt_byte (n : Nat) (h : n ≤ 255) : decInt (encInt (n : Int)) = (n : Int) := by
  rw [encInt_counter n (by omega)]
  by_cases h0 : n = 0
  · subst h0; simp [decInt]
  · by_cases h1 : n < 128
    · have : ¬ 128 ≤ n := by omega
      simp [h0, h1, decInt, leVal, this]
    · have h2 : n < 256 := by omega
      simp [h0, h1, h2, decInt, leVal]

theorem map_decInt_encInt (rs : List Int) (h : ∀ x ∈ rs, 0 ≤ x ∧ x ≤ 255) : (rs.map encInt).map decInt = rs := by
  induction rs with
  | nil => rfl
  | cons x rs ih =>
    have hx := h x List.mem_cons_self
    simp only [List.map_cons, ih (fun y hy => h y (List.mem_cons_of_mem _ hy))]
    congr 1
    have : x = ((x.toNat : Nat) : Int) := by omega
    rw [this]
    exact decInt_encInt_byte x.toNat (by omega)

/-- a key lies under at most one prefix `p ‖ cid` with a 32-byte `cid` -/
theorem family_unique {a b : Nat} {cid cid' x y k : Bytes} (hl : cid.length = cid'.length)
    (h1 : isPre (a :: cid ++ x) k = true) (h2 : isPre (b :: cid' ++ y) k = true) : a = b ∧ cid = cid' := by
  obtain ⟨t, rfl⟩ := (isPre_iff _ _).mp h1
  obtain ⟨t', e⟩ := (isPre_iff _ _).mp h2
  simp only [List.cons_append, List.append_assoc, List.cons.injEq] at e
  exact ⟨e.1, (List.append_inj e.2 hl).1⟩

theorem find_nil_of_pending_nil {s : Store} {cid : Bytes} {b : Nat} (h : pendingOf s cid b = []) :
    find s (uKey cid ++ [b]) = [] := by
  unfold pendingOf at h
  exact List.map_eq_nil_iff.mp h

theorem validate_eq (s : Store) (r : Roster) (hR : Refines s r) (cid : Bytes) (hc : cid.length = 32) (vec : Int)
    (h0 : 0 ≤ vec) (h1 : vec < 255) :
    validatePlacementIndex s cid vec = (vec == 0 || !(r.pending cid (vec - 1).toNat).isEmpty) := by
  unfold validatePlacementIndex
  by_cases hz : vec = 0
  · simp [hz]
  · have e : vec - 1 = (((vec - 1).toNat : Nat) : Int) := by omega
    have hb : byteOf (vec - 1) = some (vec - 1).toNat := by
      rw [e]; exact byteOf_nat _ (by omega)
    have hp := ((hR cid hc).1 (vec - 1).toNat (by omega)).1
    simp only [hz, if_false, hb]
    have hz' : (vec == 0) = false := by simpa using hz
    rw [hz', Bool.false_or, ← hp]
    unfold pendingOf
    cases find s (uKey cid ++ [(vec - 1).toNat]) <;> simp

/-! ### AddNextEpochNodes against the specification -/

theorem add_halts_iff (s : Store) (r : Roster) (hI : Inv s) (hR : Refines s r) (alphabet : Bool) (cid : Bytes)
    (vec : Int) (keys : Option (List Bytes)) (h0 : 0 ≤ vec) :
    (addNextEpochNodes s alphabet cid vec keys).isSome = addOK r alphabet cid vec keys := by
  unfold addNextEpochNodes addOK
  by_cases hc : cid.length = 32
  · by_cases hv : vec < 255
    · have hv' : ¬ vec ≥ maxREPs := by rw [maxREPs_eq]; omega
      rw [validate_eq s r hR cid hc vec h0 hv]
      have e : vec = ((vec.toNat : Nat) : Int) := by omega
      have hb : byteOf vec = some vec.toNat := by
        rw [e]; exact byteOf_nat _ (by omega)
      obtain ⟨vals, hvl, hf⟩ := hI.2 cid vec.toNat hc (by omega)
      have hlc := lastCounter_enum s (uKey cid ++ [vec.toNat]) vals hvl hf
      simp only [cidLen_eq, hc, ne_eq, not_true_eq_false, if_false, hv', hb, hlc, beq_self_eq_true, Bool.and_true,
        h0, hv, decide_true, Bool.true_and]
      cases hval : (vec == 0 || !(r.pending cid (vec - 1).toNat).isEmpty) with
      | false => cases alphabet <;> rfl
      | true =>
        cases alphabet with
        | false => simp
        | true =>
          cases keys with
          | none => simp
          | some ks =>
            simp only [Bool.not_true, Bool.false_eq_true, if_false, Bool.true_and, Bool.and_true, addLoop_eq]
            by_cases hk : ∀ k ∈ ks, k.length = keyLen
            · rw [if_pos hk]
              simp only [Option.isSome_some]
              symm
              rw [List.all_eq_true]
              intro k hkm
              have := hk k hkm
              rw [keyLen_eq] at this
              simpa using this
            · rw [if_neg hk]
              simp only [Option.isSome_none]
              symm
              rw [Bool.eq_false_iff]
              intro hall
              apply hk
              intro k hkm
              have := List.all_eq_true.mp hall k hkm
              rw [keyLen_eq]
              simpa using this
    · have hv' : vec ≥ maxREPs := by rw [maxREPs_eq]; omega
      simp [cidLen_eq, hc, hv', hv]
  · have : (cid.length == 32) = false := by simpa using hc
    simp [cidLen_eq, hc, this]

theorem prefix_u_diff {cid cid' : Bytes} {b b' : Nat} (hc : cid.length = 32) (hc' : cid'.length = 32)
    (hne : ¬ (cid' = cid ∧ b' = b)) (k : Bytes) (hk : isPre (uKey cid' ++ [b']) k = true) :
    isPre (uKey cid ++ [b]) k = false := by
  cases h : isPre (uKey cid ++ [b]) k with
  | false => rfl
  | true =>
    exfalso; apply hne
    have := isPre_same_length (by simp [uKey, hc, hc']) hk h
    simp only [uKey, List.cons_append, List.cons.injEq, true_and] at this
    have h2 := List.append_inj this (by rw [hc, hc'])
    exact ⟨h2.1, by simpa using h2.2⟩

theorem prefix_other_family {a : Nat} {cid cid' x : Bytes} {b : Nat} (ha : a ≠ pU) (k : Bytes)
    (hk : isPre (a :: cid' ++ x) k = true) : isPre (uKey cid ++ [b]) k = false := by
  cases h : isPre (uKey cid ++ [b]) k with
  | false => rfl
  | true =>
    exfalso
    obtain ⟨t, rfl⟩ := (isPre_iff _ _).mp hk
    obtain ⟨t', e⟩ := (isPre_iff _ _).mp h
    simp only [uKey, List.cons_append, List.cons.injEq] at e
    exact ha e.1

/-- an accepted `addNextEpochNodes` call refines `Roster.add` and keeps the invariant -/
theorem add_refines (s : Store) (r : Roster) (hI : Inv s) (hR : Refines s r) (cid : Bytes) (vec : Int)
    (ks : List Bytes) (hok : addOK r true cid vec (some ks) = true)
    (hbound : (pendingOf s cid vec.toNat).length + ks.length ≤ 32767) :
    ∃ s', addNextEpochNodes s true cid vec (some ks) = some s' ∧ Inv s' ∧ Refines s' (r.add cid vec.toNat ks) := by
  have hok' := hok
  unfold addOK at hok
  simp only [Bool.true_and, Bool.and_eq_true, beq_iff_eq, decide_eq_true_eq] at hok
  obtain ⟨⟨⟨⟨hc, h0⟩, hv⟩, hprev⟩, hkeys⟩ := hok
  have hk : ∀ k ∈ ks, k.length = keyLen := by
    intro k hkm
    have := List.all_eq_true.mp hkeys k hkm
    simpa [keyLen_eq] using this
  have e : vec = ((vec.toNat : Nat) : Int) := by omega
  have hb : byteOf vec = some vec.toNat := by
    rw [e]; exact byteOf_nat _ (by omega)
  have hval : validatePlacementIndex s cid vec = true := by
    rw [validate_eq s r hR cid hc vec h0 hv]; exact hprev
  obtain ⟨vals, hvl, hf⟩ := hI.2 cid vec.toNat hc (by omega)
  have hvals : pendingOf s cid vec.toNat = vals := by
    unfold pendingOf; rw [hf, enumFrom_map_snd]
  rw [hvals] at hbound
  obtain ⟨s', hrun, hs', hnew, hother⟩ := add_spec s hI.1 cid (by rw [cidLen_eq]; exact hc) vec vec.toNat hb
    (by rw [maxREPs_eq]; exact hv) hval vals hf ks hk hbound
  refine ⟨s', hrun, ⟨hs', ?_⟩, ?_⟩
  · intro cid' b' hc' hb'
    by_cases hsame : cid' = cid ∧ b' = vec.toNat
    · obtain ⟨rfl, rfl⟩ := hsame
      exact ⟨vals ++ ks, by rw [List.length_append]; exact hbound, hnew⟩
    · obtain ⟨vals', hvl', hf'⟩ := hI.2 cid' b' hc' hb'
      refine ⟨vals', hvl', ?_⟩
      rw [← hf']
      apply find_congr hs' hI.1
      intro k hk'
      exact hother k (prefix_u_diff hc hc' hsame k hk')
  · intro cid' hc'
    refine ⟨?_, ?_⟩
    · intro b' hb'
      refine ⟨?_, ?_⟩
      · by_cases hsame : cid' = cid ∧ b' = vec.toNat
        · obtain ⟨rfl, rfl⟩ := hsame
          simp only [Roster.add, and_self, if_true]
          rw [← ((hR cid' hc').1 vec.toNat hb').1, hvals]
          unfold pendingOf; rw [hnew, enumFrom_map_snd]
        · simp only [Roster.add, hsame, if_false]
          rw [← ((hR cid' hc').1 b' hb').1]
          unfold pendingOf
          congr 1
          apply find_congr hs' hI.1
          intro k hk'
          exact hother k (prefix_u_diff hc hc' hsame k hk')
      · simp only [Roster.add]
        rw [← ((hR cid' hc').1 b' hb').2]
        unfold nodesOf
        congr 1
        apply find_congr hs' hI.1
        intro k hk'
        exact hother k (prefix_other_family (fun h => pU_ne_pN h.symm) k (by simpa [nKey] using hk'))
    · simp only [Roster.add]
      rw [← (hR cid' hc').2]
      unfold repsOf
      congr 2
      apply find_congr hs' hI.1
      intro k hk'
      have : isPre (pR :: cid' ++ []) k = true := by simpa [rKey] using hk'
      exact hother k (prefix_other_family (fun h => pU_ne_pR h.symm) k this)

/-! ### CommitContainerListUpdate against the specification -/

theorem commit_halts_iff (s : Store) (alphabet : Bool) (cid : Bytes) (reps : Option (List Int)) :
    (commitContainerListUpdate s alphabet cid reps).isSome = commitOK alphabet cid reps := by
  unfold commitContainerListUpdate commitOK
  by_cases hc : cid.length = 32
  · cases alphabet with
    | false => simp [cidLen_eq, hc]
    | true =>
      simp only [cidLen_eq, hc, ne_eq, not_true_eq_false, if_false, Bool.not_true, Bool.false_eq_true,
        beq_self_eq_true, Bool.true_and]
      cases reps with
      | none => simp
      | some rs =>
        have := putReps_eq cid (commitCore s cid) 0 rs (by omega)
        simp only [Int.natCast_zero] at this
        show (putReps cid (commitCore s cid) 0 rs).isSome = _
        rw [this]
        simp only [Option.getD_some, maxREPs_eq]
        by_cases h1 : ∀ x ∈ rs, x ≤ 255
        · by_cases h2 : rs.length ≤ 256
          · have : 0 + rs.length ≤ 256 := by omega
            rw [if_pos ⟨h1, this⟩]
            simp only [Option.isSome_some, h2, decide_true, Bool.and_true]
            symm
            rw [List.all_eq_true]
            intro x hx
            simpa using h1 x hx
          · have : ¬ 0 + rs.length ≤ 256 := by omega
            simp [h1, h2, this]
        · simp only [h1, false_and, if_false, Option.isSome_none]
          symm
          rw [Bool.eq_false_iff]
          intro hall
          apply h1
          intro x hx
          simp only [Bool.and_eq_true, List.all_eq_true, decide_eq_true_eq] at hall
          exact hall.1 x hx
  · have : (cid.length == 32) = false := by simpa using hc
    simp [cidLen_eq, hc, this]

theorem not_pre_of_other_cid {a b : Nat} {cid cid' x : Bytes} (hc : cid.length = 32) (hc' : cid'.length = 32)
    (hne : cid' ≠ cid) (k : Bytes) (hk : isPre (a :: cid' ++ x) k = true) : isPre (b :: cid) k = false := by
  cases h : isPre (b :: cid) k with
  | false => rfl
  | true =>
    exfalso
    have h' : isPre (b :: cid ++ []) k = true := by simpa using h
    exact hne (family_unique (by rw [hc, hc']) hk h').2

/-- an accepted `commitContainerListUpdate` call refines `Roster.commit` and keeps the invariant -/
theorem commit_refines (s : Store) (r : Roster) (hI : Inv s) (hR : Refines s r) (cid : Bytes)
    (reps : Option (List Int)) (hok : commitOK true cid reps = true) (hnn : ∀ rs, reps = some rs → ∀ x ∈ rs, 0 ≤ x) :
    ∃ s', commitContainerListUpdate s true cid reps = some s' ∧ Inv s' ∧ Refines s' (r.commit cid reps) ∧
      find s' (uKey cid) = [] := by
  unfold commitOK at hok
  simp only [Bool.true_and, Bool.and_eq_true, beq_iff_eq, decide_eq_true_eq, List.all_eq_true] at hok
  obtain ⟨⟨hc, hle⟩, hlen⟩ := hok
  obtain ⟨s', hrun, hs', hn, hu, hr, hother⟩ := commit_spec s hI.1 cid (by rw [cidLen_eq]; exact hc) reps (by
    intro rs hrs
    subst hrs
    simp only [Option.getD_some] at hle hlen
    exact ⟨by rw [maxREPs_eq]; exact hle, hlen⟩)
  have hu' : ∀ b, find s' (uKey cid ++ [b]) = [] := by
    intro b; rw [find_append_filter, hu]; rfl
  -- keys of another container are untouched
  have untouched : ∀ cid' (a : Nat) (x : Bytes), cid'.length = 32 → cid' ≠ cid →
      find s' (a :: cid' ++ x) = find s (a :: cid' ++ x) := by
    intro cid' a x hc' hne
    apply find_congr hs' hI.1
    intro k hk
    exact hother k (not_pre_of_other_cid hc hc' hne k hk) (not_pre_of_other_cid hc hc' hne k hk)
      (not_pre_of_other_cid hc hc' hne k hk)
  refine ⟨s', hrun, ⟨hs', ?_⟩, ?_, hu⟩
  · intro cid' b hc' hb
    by_cases hsame : cid' = cid
    · subst hsame
      exact ⟨[], by simp, by rw [hu' b]; rfl⟩
    · obtain ⟨vals, hvl, hf⟩ := hI.2 cid' b hc' hb
      refine ⟨vals, hvl, ?_⟩
      rw [← hf]
      exact untouched cid' pU [b] hc' hsame
  · intro cid' hc'
    by_cases hsame : cid' = cid
    · subst hsame
      refine ⟨?_, ?_⟩
      · intro b hb
        refine ⟨?_, ?_⟩
        · simp only [Roster.commit, if_true]
          unfold pendingOf; rw [hu' b]; rfl
        · simp only [Roster.commit, if_true]
          rw [← ((hR cid' hc').1 b hb).1]
          unfold nodesOf pendingOf
          rw [hn b, List.map_map]
          rfl
      · simp only [Roster.commit, if_true]
        unfold repsOf
        rw [hr, repEnum_map_snd]
        apply map_decInt_encInt
        intro x hx
        cases reps with
        | none => simp at hx
        | some rs =>
          simp only [Option.getD_some] at hx hle
          exact ⟨hnn rs rfl x hx, hle x hx⟩
    · refine ⟨?_, ?_⟩
      · intro b hb
        simp only [Roster.commit, hsame, if_false]
        rw [← ((hR cid' hc').1 b hb).1, ← ((hR cid' hc').1 b hb).2]
        unfold pendingOf nodesOf
        have h1 := untouched cid' pU [b] hc' hsame
        have h2 := untouched cid' pN [b] hc' hsame
        simp only [uKey, nKey] at h1 h2 ⊢
        rw [h1, h2]
        exact ⟨rfl, rfl⟩
      · simp only [Roster.commit, hsame, if_false]
        rw [← (hR cid' hc').2]
        unfold repsOf
        have h3 := untouched cid' pR [] hc' hsame
        simp only [List.append_nil] at h3
        simp only [rKey]
        rw [h3]

/-! ### every invocation, every history -/

variable {σ : Type}

theorem step_refines (s : Store) (r : Roster) (hI : Inv s) (hR : Refines s r) (env : Env σ) (op : Op σ)
    (hw : WFOp s op) :
    Inv (invoke s env op).1 ∧ Refines (invoke s env op).1 (specStep r env.alphabet op) := by
  cases op with
  | add cid vec keys =>
    obtain ⟨h0, hb⟩ := hw
    have hiff := add_halts_iff s r hI hR env.alphabet cid vec keys h0
    simp only [invoke, step, specStep]
    cases hok : addOK r env.alphabet cid vec keys with
    | false =>
      rw [hok] at hiff
      have : addNextEpochNodes s env.alphabet cid vec keys = none := by
        cases h : addNextEpochNodes s env.alphabet cid vec keys with
        | none => rfl
        | some _ => rw [h] at hiff; simp at hiff
      simp only [this, Option.map_none, Bool.false_eq_true, if_false]
      exact ⟨hI, hR⟩
    | true =>
      have ha : env.alphabet = true := by
        unfold addOK at hok
        cases h : env.alphabet with
        | true => rfl
        | false => rw [h] at hok; simp at hok
      obtain ⟨ks, hks⟩ : ∃ ks, keys = some ks := by
        cases keys with
        | none => unfold addOK at hok; simp at hok
        | some ks => exact ⟨ks, rfl⟩
      subst hks
      rw [ha] at hok ⊢
      obtain ⟨s', hrun, hI', hR'⟩ := add_refines s r hI hR cid vec ks hok (hb ks rfl)
      simp only [hrun, Option.map_some, if_true, Option.getD_some]
      exact ⟨hI', hR'⟩
  | commit cid reps =>
    have hiff := commit_halts_iff s env.alphabet cid reps
    simp only [invoke, step, specStep]
    cases hok : commitOK env.alphabet cid reps with
    | false =>
      rw [hok] at hiff
      have : commitContainerListUpdate s env.alphabet cid reps = none := by
        cases h : commitContainerListUpdate s env.alphabet cid reps with
        | none => rfl
        | some _ => rw [h] at hiff; simp at hiff
      simp only [this, Option.map_none, Bool.false_eq_true, if_false]
      exact ⟨hI, hR⟩
    | true =>
      have ha : env.alphabet = true := by
        unfold commitOK at hok
        cases h : env.alphabet with
        | true => rfl
        | false => rw [h] at hok; simp at hok
      rw [ha] at hok ⊢
      obtain ⟨s', hrun, hI', hR', _⟩ := commit_refines s r hI hR cid reps hok hw
      simp only [hrun, Option.map_some, if_true]
      exact ⟨hI', hR'⟩
  | nodes cid vec =>
    simp only [invoke, step, specStep]
    cases nodes s cid vec <;> exact ⟨hI, hR⟩
  | reps cid =>
    simp only [invoke, step, specStep]
    cases replicasNumbers s cid <;> exact ⟨hI, hR⟩
  | verify cid msg sigs =>
    simp only [invoke, step, specStep]
    cases verifyPlacementSignatures env.oracle s cid msg sigs <;> exact ⟨hI, hR⟩
  | submit mi raw sigs =>
    simp only [invoke, step, specStep]
    cases submitObjectPut s env mi raw sigs <;> exact ⟨hI, hR⟩

theorem run_refines (s : Store) (r : Roster) (hI : Inv s) (hR : Refines s r) (hist : List (Env σ × Op σ))
    (hw : WFHist s hist) : Inv (run s hist) ∧ Refines (run s hist) (specRun r hist) := by
  induction hist generalizing s r with
  | nil => exact ⟨hI, hR⟩
  | cons x rest ih =>
    obtain ⟨env, op⟩ := x
    obtain ⟨hw1, hw2⟩ := hw
    obtain ⟨hI', hR'⟩ := step_refines s r hI hR env op hw1
    exact ih _ _ hI' hR' hw2

/-! ### initial storage -/

theorem initWith_keys (cids : List Bytes) : ∀ e ∈ initWith cids, ∃ t, e.1 = pM :: t := by
  unfold initWith
  suffices h : ∀ (s : Store), (∀ e ∈ s, ∃ t, e.1 = pM :: t) →
      ∀ e ∈ cids.foldl (fun s c => put s (mKey c) []) s, ∃ t, e.1 = pM :: t from h [] (by simp)
  induction cids with
  | nil => intro s hs; exact hs
  | cons c cids ih =>
    intro s hs
    apply ih
    intro e he
    rcases mem_put he with h | h
    · exact ⟨c, by rw [h]; rfl⟩
    · exact hs e h

theorem sorted_initWith (cids : List Bytes) : Sorted (initWith cids) := by
  unfold initWith
  suffices h : ∀ (s : Store), Sorted s → Sorted (cids.foldl (fun s c => put s (mKey c) []) s) from h [] sorted_nil
  induction cids with
  | nil => intro s hs; exact hs
  | cons c cids ih => intro s hs; exact ih _ (sorted_put hs _ _)

theorem find_initWith_nil (cids : List Bytes) (a : Nat) (ha : a ≠ pM) (p : Bytes) : find (initWith cids) (a :: p) = [] := by
  unfold find
  rw [List.filter_eq_nil_iff]
  intro e he
  obtain ⟨t, ht⟩ := initWith_keys cids e he
  rw [ht, isPre_cons_ne _ _ ha]
  decide

/-- the storage the harness cases start from: only meta-on-chain markers -/
theorem inv_initWith (cids : List Bytes) : Inv (initWith cids) := by
  refine ⟨sorted_initWith cids, ?_⟩
  intro cid b _ _
  exact ⟨[], by simp, by rw [show uKey cid ++ [b] = pU :: (cid ++ [b]) from rfl,
    find_initWith_nil cids pU (fun h => pM_ne_pU h.symm)]; rfl⟩

theorem refines_initWith (cids : List Bytes) : Refines (initWith cids) Roster.empty := by
  intro cid _
  refine ⟨?_, ?_⟩
  · intro b _
    unfold pendingOf nodesOf
    rw [show uKey cid ++ [b] = pU :: (cid ++ [b]) from rfl, show nKey cid ++ [b] = pN :: (cid ++ [b]) from rfl,
      find_initWith_nil cids pU (fun h => pM_ne_pU h.symm), find_initWith_nil cids pN (fun h => pM_ne_pN h.symm)]
    exact ⟨rfl, rfl⟩
  · unfold repsOf
    rw [show rKey cid = pR :: cid from rfl, find_initWith_nil cids pR (fun h => pM_ne_pR h.symm)]
    rfl

/-! ### contiguity of the vector numbering (specification level) -/

/-- vector `v + 1` has keys only if vector `v` has -/
def Contiguous (f : Bytes → Nat → List Bytes) : Prop := ∀ cid v, f cid (v + 1) ≠ [] → f cid v ≠ []

theorem specStep_contiguous (r : Roster) (h1 : Contiguous r.pending) (h2 : Contiguous r.nodes) (alphabet : Bool)
    (op : Op σ) : Contiguous (specStep r alphabet op).pending ∧ Contiguous (specStep r alphabet op).nodes := by
  cases op with
  | add cid vec keys =>
    simp only [specStep]
    cases hok : addOK r alphabet cid vec keys with
    | false => exact ⟨h1, h2⟩
    | true =>
      simp only [if_true]
      refine ⟨?_, h2⟩
      intro c v hne
      simp only [Roster.add] at hne ⊢
      unfold addOK at hok
      simp only [Bool.and_eq_true, decide_eq_true_eq, Bool.or_eq_true, beq_iff_eq, Bool.not_eq_true',
        List.isEmpty_eq_false_iff] at hok
      obtain ⟨⟨⟨⟨_, h0⟩, _⟩, hprev⟩, _⟩ := hok
      by_cases e1 : c = cid ∧ v = vec.toNat
      · -- the vector below the target only grows
        simp only [e1, and_self, if_true]
        have e2 : ¬ (c = cid ∧ v + 1 = vec.toNat) := by omega
        simp only [e2, if_false] at hne
        have := h1 c v hne
        rw [e1.1, e1.2] at this
        intro h; exact this (List.append_eq_nil_iff.mp h).1
      · simp only [e1, if_false]
        by_cases e2 : c = cid ∧ v + 1 = vec.toNat
        · -- the target vector: its predecessor has keys (the contiguity check)
          obtain ⟨rfl, e3⟩ := e2
          rcases hprev with hz | hp
          · omega
          · have : (vec - 1).toNat = v := by omega
            rw [this] at hp; exact hp
        · simp only [e2, if_false] at hne
          exact h1 c v hne
  | commit cid reps =>
    simp only [specStep]
    cases hok : commitOK alphabet cid reps with
    | false => exact ⟨h1, h2⟩
    | true =>
      simp only [if_true, Roster.commit]
      refine ⟨?_, ?_⟩
      · intro c v hne
        by_cases e : c = cid
        · simp [e] at hne
        · simp only [e, if_false] at hne ⊢
          exact h1 c v hne
      · intro c v hne
        by_cases e : c = cid
        · simp only [e, if_true] at hne ⊢
          exact h1 cid v hne
        · simp only [e, if_false] at hne ⊢
          exact h2 c v hne
  | nodes _ _ => exact ⟨h1, h2⟩
  | reps _ => exact ⟨h1, h2⟩
  | verify _ _ _ => exact ⟨h1, h2⟩
  | submit _ _ _ => exact ⟨h1, h2⟩

theorem specRun_contiguous (r : Roster) (h1 : Contiguous r.pending) (h2 : Contiguous r.nodes)
    (hist : List (Env σ × Op σ)) : Contiguous (specRun r hist).pending ∧ Contiguous (specRun r hist).nodes := by
  induction hist generalizing r with
  | nil => exact ⟨h1, h2⟩
  | cons x rest ih =>
    obtain ⟨env, op⟩ := x
    obtain ⟨a, b⟩ := specStep_contiguous r h1 h2 env.alphabet op
    exact ih _ a b

end NeoFS.Placement

namespace NeoFS.Placement
open NeoFS

/-- the effect of a HALTed `CommitContainerListUpdate` on the container's own families, for every
key-ordered storage (no invariant needed): committed := pending, pending := ∅, REP numbers := argument -/
theorem commit_effect (s : Store) (hs : Sorted s) (alphabet : Bool) (cid : Bytes) (reps : Option (List Int))
    (s' : Store) (h : commitContainerListUpdate s alphabet cid reps = some s') :
    (∀ b, nodesOf s' cid b = pendingOf s cid b) ∧ find s' (uKey cid) = [] ∧ (∀ b, pendingOf s' cid b = []) ∧
      repsOf s' cid = (reps.getD []).map encInt := by
  have hok : commitOK alphabet cid reps = true := by
    rw [← commit_halts_iff s, h]; rfl
  have ha : alphabet = true := by
    unfold commitOK at hok
    cases alphabet with
    | true => rfl
    | false => simp at hok
  subst ha
  unfold commitOK at hok
  simp only [Bool.true_and, Bool.and_eq_true, beq_iff_eq, decide_eq_true_eq, List.all_eq_true] at hok
  obtain ⟨⟨hc, hle⟩, hlen⟩ := hok
  obtain ⟨s'', hrun, hs'', hn, hu, hr, _⟩ := commit_spec s hs cid (by rw [cidLen_eq]; exact hc) reps (by
    intro rs hrs
    subst hrs
    simp only [Option.getD_some] at hle hlen
    exact ⟨by rw [maxREPs_eq]; exact hle, hlen⟩)
  rw [h] at hrun
  simp only [Option.some.injEq] at hrun
  subst hrun
  refine ⟨?_, hu, ?_, ?_⟩
  · intro b
    unfold nodesOf pendingOf
    rw [hn b, List.map_map]; rfl
  · intro b
    unfold pendingOf
    rw [find_append_filter, hu]; rfl
  · unfold repsOf
    rw [hr, repEnum_map_snd]

/-- the read API on a 32-byte id and a vector number 0 … 255 returns what the prefixes show -/
theorem nodes_eq (s : Store) (cid : Bytes) (hc : cid.length = 32) (vec : Int) (h0 : 0 ≤ vec) (h1 : vec ≤ 255) :
    nodes s cid vec = some (nodesOf s cid vec.toNat) := by
  unfold nodes nodesOf
  have e : vec = ((vec.toNat : Nat) : Int) := by omega
  have hb : byteOf vec = some vec.toNat := by
    rw [e]; exact byteOf_nat _ (by omega)
  simp [cidLen_eq, hc, hb]

theorem replicasNumbers_eq (s : Store) (cid : Bytes) (hc : cid.length = 32) :
    replicasNumbers s cid = some (repsOf s cid) := by
  unfold replicasNumbers repsOf
  simp [cidLen_eq, hc]

end NeoFS.Placement

namespace NeoFS.Placement
open NeoFS

/-! ### key order is kept by every invocation (no quantifier restriction) -/

theorem sorted_addLoop (pre : Bytes) (s : Store) (c : Int) (ks : List Bytes) (s' : Store) (hs : Sorted s)
    (h : addLoop pre s c ks = some s') : Sorted s' := by
  induction ks generalizing s c with
  | nil => simp only [addLoop, Option.some.injEq] at h; subst h; exact hs
  | cons k ks ih =>
    simp only [addLoop] at h
    split at h
    · exact absurd h (by simp)
    · exact ih _ _ (sorted_put hs _ _) h

theorem sorted_add (s : Store) (hs : Sorted s) (a : Bool) (cid : Bytes) (vec : Int) (keys : Option (List Bytes))
    (s' : Store) (h : addNextEpochNodes s a cid vec keys = some s') : Sorted s' := by
  unfold addNextEpochNodes at h
  split at h
  · exact absurd h (by simp)
  · split at h
    · exact absurd h (by simp)
    · split at h
      · exact absurd h (by simp)
      · split at h
        · exact absurd h (by simp)
        · split at h
          · exact absurd h (by simp)
          · simp only at h
            split at h
            · exact absurd h (by simp)
            · split at h
              · exact absurd h (by simp)
              · exact sorted_addLoop _ _ _ _ _ hs h

theorem sorted_putReps (cid : Bytes) (s : Store) (i : Int) (rs : List Int) (s' : Store) (hs : Sorted s)
    (h : putReps cid s i rs = some s') : Sorted s' := by
  induction rs generalizing s i with
  | nil => simp only [putReps, Option.some.injEq] at h; subst h; exact hs
  | cons r rs ih =>
    simp only [putReps] at h
    split at h
    · exact absurd h (by simp)
    · split at h
      · exact absurd h (by simp)
      · exact ih _ _ (sorted_put hs _ _) h

theorem sorted_commit (s : Store) (hs : Sorted s) (a : Bool) (cid : Bytes) (reps : Option (List Int)) (s' : Store)
    (h : commitContainerListUpdate s a cid reps = some s') : Sorted s' := by
  unfold commitContainerListUpdate at h
  split at h
  · exact absurd h (by simp)
  · split at h
    · exact absurd h (by simp)
    · have hcore := sorted_commitCore s hs cid
      simp only at h
      split at h
      · simp only [Option.some.injEq] at h; subst h; exact hcore
      · exact sorted_putReps _ _ _ _ _ hcore h

theorem sorted_invoke {σ : Type} (s : Store) (hs : Sorted s) (env : Env σ) (op : Op σ) : Sorted (invoke s env op).1 := by
  cases op with
  | add cid vec keys =>
    simp only [invoke, step]
    cases h : addNextEpochNodes s env.alphabet cid vec keys with
    | none => exact hs
    | some s' => exact sorted_add s hs _ _ _ _ s' h
  | commit cid reps =>
    simp only [invoke, step]
    cases h : commitContainerListUpdate s env.alphabet cid reps with
    | none => exact hs
    | some s' => exact sorted_commit s hs _ _ _ s' h
  | nodes cid vec => simp only [invoke, step]; cases nodes s cid vec <;> exact hs
  | reps cid => simp only [invoke, step]; cases replicasNumbers s cid <;> exact hs
  | verify cid msg sigs =>
    simp only [invoke, step]; cases verifyPlacementSignatures env.oracle s cid msg sigs <;> exact hs
  | submit mi raw sigs => simp only [invoke, step]; cases submitObjectPut s env mi raw sigs <;> exact hs

theorem sorted_run {σ : Type} (s : Store) (hs : Sorted s) (hist : List (Env σ × Op σ)) : Sorted (run s hist) := by
  induction hist generalizing s with
  | nil => exact hs
  | cons x rest ih =>
    obtain ⟨env, op⟩ := x
    exact ih _ (sorted_invoke s hs env op)

end NeoFS.Placement
