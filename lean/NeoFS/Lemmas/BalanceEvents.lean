import NeoFS.Lemmas.BalanceMore
set_option linter.unusedSimpArgs false
set_option linter.unusedVariables false
/-! Lemmas about the notification stream of the Balance model (C01): supply delta, inertness of
FAULTs and refusals, pairing of `Transfer`/`TransferX`, replay of balances from notifications. -/
namespace NeoFS.Balance
open NeoFS

/-! ### supply -/

/-- how much `totalSupply` moves: `halted` says whether the invocation HALTed -/
def supplyDelta : Op → Bool → Int
  | .mint _ amt _, true => amt
  | .burn _ amt _, true => -amt
  | _, _ => 0

/-- whether an invocation HALTed -/
def halted (r : State × Option (Option Bool × List Event)) : Bool := r.2.isSome

theorem supply_step (s s' : State) (env : Env) (op : Op) (r : Option Bool) (ev : List Event)
    (h : step s env op = some (s', r, ev)) : s'.supply = s.supply + supplyDelta op true := by
  cases op with
  | transfer f t amt =>
    rcases step_transfer_inv _ _ _ _ _ _ _ _ h with ⟨m, _, rfl, _⟩ | ⟨_, rfl, _⟩ <;> simp [supplyDelta]
  | transferX f t amt d =>
    obtain ⟨_, _, _, m, _, rfl, _⟩ := step_transferX_inv _ _ _ _ _ _ _ _ _ h
    simp [supplyDelta]
  | mint t amt d =>
    obtain ⟨_, _, m, _, rfl, _⟩ := step_mint_inv _ _ _ _ _ _ _ _ h
    simp [supplyDelta]
  | burn f amt d =>
    obtain ⟨_, _, m, _, _, rfl, _⟩ := step_burn_inv _ _ _ _ _ _ _ _ h
    simp only [supplyDelta]; omega
  | lock d f t amt till =>
    obtain ⟨_, _, _, m, evx, _, rfl, _⟩ := step_lock_inv _ _ _ _ _ _ _ _ _ _ h
    simp [supplyDelta]
  | newEpoch e =>
    obtain ⟨_, rfl, _⟩ := step_newEpoch_inv _ _ _ _ _ _ h
    simp [supplyDelta]

theorem supplyDelta_false (op : Op) : supplyDelta op false = 0 := by
  cases op <;> rfl

theorem supply_invoke (s : State) (env : Env) (op : Op) :
    (invoke s env op).1.supply = s.supply + supplyDelta op (halted (invoke s env op)) := by
  cases hs : step s env op with
  | none =>
    rw [invoke_fault _ _ _ hs]
    simp [halted, supplyDelta_false]
  | some p =>
    obtain ⟨s', r, ev⟩ := p
    rw [invoke_halt _ _ _ _ _ _ hs]
    simp only [halted, Option.isSome_some]
    exact supply_step _ _ _ _ _ _ hs

/-! ### FAULTs and refusals are inert -/

theorem fault_inert (s : State) (env : Env) (op : Op) (h : (invoke s env op).2 = none) :
    (invoke s env op).1 = s := by
  unfold invoke at h ⊢
  cases hs : step s env op with
  | none => rfl
  | some p => obtain ⟨s', r, ev⟩ := p; rw [hs] at h; cases h

theorem refusal_inert (s : State) (env : Env) (f t : Hash) (amt : Int) (ev : List Event)
    (h : (invoke s env (.transfer f t amt)).2 = some (some false, ev)) :
    (invoke s env (.transfer f t amt)).1 = s ∧ ev = [] := by
  have hs := invoke_some_inv _ _ _ _ _ h
  rcases step_transfer_inv _ _ _ _ _ _ _ _ hs with ⟨m, _, _, hr⟩ | ⟨_, h1, _, h3⟩
  · cases hr
  · exact ⟨h1, h3⟩

/-- the public transfer never FAULTs: it answers `true` or `false` -/
theorem transfer_halts (s : State) (env : Env) (f t : Hash) (amt : Int) :
    ∃ b ev, (invoke s env (.transfer f t amt)).2 = some (some b, ev) := by
  unfold invoke
  simp only [step]
  cases xfer s.accts env f t amt false [] with
  | none => exact ⟨false, [], rfl⟩
  | some p => exact ⟨true, p.2, rfl⟩

/-! ### pairing of `Transfer` and `TransferX` -/

/-- `pairedThen tl ev`: `ev` is a concatenation of adjacent pairs
`[Transfer f t a, TransferX f t a d]` followed by exactly `tl` -/
def pairedThen (tl : List Event) : List Event → Bool
  | .transfer f t a :: .transferX f' t' a' _ :: r =>
      (f == f' && t == t' && a == a') && pairedThen tl r
  | l => l == tl

/-- the notification list consists of `Transfer`/`TransferX` pairs with equal payload -/
def Paired (ev : List Event) : Prop := pairedThen [] ev = true

/-- the shape of the notifications of one HALTed invocation of `op` -/
def EventsShape : Op → List Event → Prop
  | .lock d f t amt till, ev => pairedThen [.lock d f t amt till] ev = true
  | _, ev => Paired ev

instance (ev : List Event) : Decidable (Paired ev) := by unfold Paired; infer_instance
instance (op : Op) (ev : List Event) : Decidable (EventsShape op ev) := by
  cases op <;> (unfold EventsShape; infer_instance)

theorem pairedThen_pair (tl r : List Event) (f t : Hash) (a : Int) (d : List Nat) :
    pairedThen tl (.transfer f t a :: .transferX f t a d :: r) = pairedThen tl r := by
  simp [pairedThen]

theorem pairedThen_append (tl ev2 : List Event) (h2 : pairedThen tl ev2 = true) :
    ∀ ev1 : List Event, pairedThen [] ev1 = true → pairedThen tl (ev1 ++ ev2) = true := by
  intro ev1
  induction ev1 using pairedThen.induct with
  | case1 f t a f' t' a' d r ih =>
    intro h
    simp only [pairedThen, Bool.and_eq_true, beq_iff_eq] at h
    obtain ⟨⟨⟨rfl, rfl⟩, rfl⟩, hr⟩ := h
    show pairedThen tl (.transfer f t a :: .transferX f t a d :: (r ++ ev2)) = true
    rw [pairedThen_pair]
    exact ih hr
  | case2 l hl =>
    intro h
    rw [pairedThen] at h
    · simp only [beq_iff_eq] at h
      subst h
      exact h2
    · exact hl

theorem paired_nil : Paired [] := rfl

theorem paired_pair (f t : Hash) (a : Int) (d : List Nat) :
    Paired [.transfer f t a, .transferX f t a d] := by
  simp [Paired, pairedThen]

theorem paired_append (ev1 ev2 : List Event) (h1 : Paired ev1) (h2 : Paired ev2) : Paired (ev1 ++ ev2) :=
  pairedThen_append [] ev2 h2 ev1 h1

theorem unlockOne_paired (env : Env) (e : Int) (cur : Accts × List Event) (k : Hash)
    (h : Paired cur.2) : Paired (unlockOne env e cur k).2 := by
  unfold unlockOne
  simp only
  split
  · exact h
  · split
    · cases hx : xfer cur.1 env k (getAcc cur.1 k).parent (getAcc cur.1 k).bal true (4 :: encInt e) with
      | none => exact h
      | some p =>
        obtain ⟨m', ev⟩ := p
        obtain ⟨_, rfl, _⟩ := xfer_inv _ _ _ _ _ _ _ _ _ hx
        exact paired_append _ _ h (paired_pair _ _ _ _)
    · exact h

theorem foldl_unlock_paired (env : Env) (e : Int) (keys : List Hash) (cur : Accts × List Event)
    (h : Paired cur.2) : Paired (keys.foldl (unlockOne env e) cur).2 := by
  induction keys generalizing cur with
  | nil => exact h
  | cons k ks ih => exact ih _ (unlockOne_paired env e cur k h)

theorem events_shape_step (s s' : State) (env : Env) (op : Op) (r : Option Bool) (ev : List Event)
    (h : step s env op = some (s', r, ev)) : EventsShape op ev := by
  cases op with
  | transfer f t amt =>
    rcases step_transfer_inv _ _ _ _ _ _ _ _ h with ⟨m, hx, _, _⟩ | ⟨_, _, _, rfl⟩
    · obtain ⟨_, rfl, _⟩ := xfer_inv _ _ _ _ _ _ _ _ _ hx
      exact paired_pair _ _ _ _
    · exact paired_nil
  | transferX f t amt d =>
    obtain ⟨_, _, _, m, hx, _, _⟩ := step_transferX_inv _ _ _ _ _ _ _ _ _ h
    obtain ⟨_, rfl, _⟩ := xfer_inv _ _ _ _ _ _ _ _ _ hx
    exact paired_pair _ _ _ _
  | mint t amt d =>
    obtain ⟨_, _, m, hx, _, _⟩ := step_mint_inv _ _ _ _ _ _ _ _ h
    obtain ⟨_, rfl, _⟩ := xfer_inv _ _ _ _ _ _ _ _ _ hx
    exact paired_pair _ _ _ _
  | burn f amt d =>
    obtain ⟨_, _, m, hx, _, _, _⟩ := step_burn_inv _ _ _ _ _ _ _ _ h
    obtain ⟨_, rfl, _⟩ := xfer_inv _ _ _ _ _ _ _ _ _ hx
    exact paired_pair _ _ _ _
  | lock d f t amt till =>
    obtain ⟨_, _, _, m, evx, hx, _, _, rfl⟩ := step_lock_inv _ _ _ _ _ _ _ _ _ _ h
    obtain ⟨_, rfl, _⟩ := xfer_inv _ _ _ _ _ _ _ _ _ hx
    simp [EventsShape, pairedThen]
  | newEpoch e =>
    obtain ⟨_, _, _, rfl⟩ := step_newEpoch_inv _ _ _ _ _ _ h
    exact foldl_unlock_paired env e _ _ paired_nil

/-- the exact notifications of a HALTed invocation of every method but the tick -/
def opEvents : Op → List Event
  | .transfer f t amt => [.transfer f t amt, .transferX f t amt []]
  | .transferX f t amt d => [.transfer f t amt, .transferX f t amt d]
  | .mint t amt d => [.transfer [] t amt, .transferX [] t amt (1 :: d)]
  | .burn f amt d => [.transfer f [] amt, .transferX f [] amt (2 :: d)]
  | .lock d f t amt till => [.transfer f t amt, .transferX f t amt (3 :: d), .lock d f t amt till]
  | .newEpoch _ => []

theorem events_exact_step (s s' : State) (env : Env) (op : Op) (r : Option Bool) (ev : List Event)
    (h : step s env op = some (s', r, ev)) (hne : ∀ e, op ≠ .newEpoch e) (hr : r ≠ some false) :
    ev = opEvents op := by
  cases op with
  | transfer f t amt =>
    rcases step_transfer_inv _ _ _ _ _ _ _ _ h with ⟨m, hx, _, _⟩ | ⟨_, _, rfl, _⟩
    · obtain ⟨_, rfl, _⟩ := xfer_inv _ _ _ _ _ _ _ _ _ hx
      rfl
    · exact absurd rfl hr
  | transferX f t amt d =>
    obtain ⟨_, _, _, m, hx, _, _⟩ := step_transferX_inv _ _ _ _ _ _ _ _ _ h
    obtain ⟨_, rfl, _⟩ := xfer_inv _ _ _ _ _ _ _ _ _ hx
    rfl
  | mint t amt d =>
    obtain ⟨_, _, m, hx, _, _⟩ := step_mint_inv _ _ _ _ _ _ _ _ h
    obtain ⟨_, rfl, _⟩ := xfer_inv _ _ _ _ _ _ _ _ _ hx
    rfl
  | burn f amt d =>
    obtain ⟨_, _, m, hx, _, _, _⟩ := step_burn_inv _ _ _ _ _ _ _ _ h
    obtain ⟨_, rfl, _⟩ := xfer_inv _ _ _ _ _ _ _ _ _ hx
    rfl
  | lock d f t amt till =>
    obtain ⟨_, _, _, m, evx, hx, _, _, rfl⟩ := step_lock_inv _ _ _ _ _ _ _ _ _ _ h
    obtain ⟨_, rfl, _⟩ := xfer_inv _ _ _ _ _ _ _ _ _ hx
    rfl
  | newEpoch e => exact absurd rfl (hne e)

/-! ### replaying balances from the notifications -/

/-- effect of one notification on a balance function: only `Transfer` counts; a side that is not
a 20-byte address (mint source, burn sink) has no balance -/
def applyEvent (b : Hash → Int) : Event → Hash → Int
  | .transfer f t a => fun k =>
      let b1 : Int := if f.length = 20 ∧ k = f then b k - a else b k
      if t.length = 20 ∧ k = t then b1 + a else b1
  | _ => b

def applyEvents (b : Hash → Int) (evs : List Event) : Hash → Int := evs.foldl applyEvent b

theorem applyEvents_append (b : Hash → Int) (e1 e2 : List Event) :
    applyEvents b (e1 ++ e2) = applyEvents (applyEvents b e1) e2 := by
  unfold applyEvents; rw [List.foldl_append]

theorem applyEvents_nil (b : Hash → Int) : applyEvents b [] = b := rfl

theorem applyEvents_pair (b : Hash → Int) (f t : Hash) (a : Int) (d : List Nat) :
    applyEvents b [.transfer f t a, .transferX f t a d] = applyEvent b (.transfer f t a) := rfl

theorem applyEvents_lock (b : Hash → Int) (d : List Nat) (f t : Hash) (a till : Int) :
    applyEvents b [.lock d f t a till] = b := rfl

theorem balOf_credit_debit (m : Accts) (f t : Hash) (amt : Int) :
    balOf (creditM (debitM m f amt) t amt) = applyEvent (balOf m) (.transfer f t amt) := by
  funext k
  rw [balOf_creditM, balOf_debitM]
  rfl

/-- one `Token.transfer`: the new balances are the old ones with the notification applied -/
theorem xfer_replay (m m' : Accts) (env : Env) (f t : Hash) (amt : Int) (ir : Bool) (d : List Nat)
    (ev : List Event) (h : xfer m env f t amt ir d = some (m', ev)) :
    balOf m' = applyEvents (balOf m) ev := by
  obtain ⟨_, rfl, rfl, _⟩ := xfer_inv _ _ _ _ _ _ _ _ _ h
  rw [applyEvents_pair]
  exact balOf_credit_debit m f t amt

theorem unlockOne_replay (env : Env) (e : Int) (b0 : Hash → Int) (cur : Accts × List Event) (k : Hash)
    (h : balOf cur.1 = applyEvents b0 cur.2) :
    balOf (unlockOne env e cur k).1 = applyEvents b0 (unlockOne env e cur k).2 := by
  unfold unlockOne
  simp only
  split
  · exact h
  · split
    · cases hx : xfer cur.1 env k (getAcc cur.1 k).parent (getAcc cur.1 k).bal true (4 :: encInt e) with
      | none => exact h
      | some p =>
        obtain ⟨m', ev⟩ := p
        show balOf m' = applyEvents b0 (cur.2 ++ ev)
        rw [applyEvents_append, ← h]
        exact xfer_replay _ _ _ _ _ _ _ _ _ hx
    · exact h

theorem foldl_unlock_replay (env : Env) (e : Int) (b0 : Hash → Int) (keys : List Hash)
    (cur : Accts × List Event) (h : balOf cur.1 = applyEvents b0 cur.2) :
    balOf (keys.foldl (unlockOne env e) cur).1 = applyEvents b0 (keys.foldl (unlockOne env e) cur).2 := by
  induction keys generalizing cur with
  | nil => exact h
  | cons k ks ih => exact ih _ (unlockOne_replay env e b0 cur k h)

/-- `Lock` first overwrites the target with an empty lock record; when the target held no funds
(fresh address or a record with balance 0) this changes no balance -/
theorem balOf_set_zero (m : Accts) (t f : Hash) (till : Int) (h : (getAcc m t).bal = 0) :
    balOf (setAcc m t ⟨0, till, f⟩) = balOf m := by
  funext k
  unfold balOf
  by_cases hk : t = k
  · subst hk
    rw [getAcc_setAcc_self, h]
  · rw [getAcc_setAcc_other _ _ _ _ hk]

/-- the only thing replay needs from the property's quantifier: a lock target holds no funds -/
def LockZero (s : State) : Op → Prop
  | .lock _ _ t _ _ => (getAcc s.accts t).bal = 0
  | _ => True

theorem lockZero_of_wf (s : State) (op : Op) (h : WFOp s op) : LockZero s op := by
  cases op <;> simp only [LockZero] <;> first | trivial | exact h.2.2

theorem replay_step (s s' : State) (env : Env) (op : Op) (r : Option Bool) (ev : List Event)
    (hw : LockZero s op) (h : step s env op = some (s', r, ev)) :
    balOf s'.accts = applyEvents (balOf s.accts) ev := by
  cases op with
  | transfer f t amt =>
    rcases step_transfer_inv _ _ _ _ _ _ _ _ h with ⟨m, hx, rfl, _⟩ | ⟨_, rfl, _, rfl⟩
    · exact xfer_replay _ _ _ _ _ _ _ _ _ hx
    · rfl
  | transferX f t amt d =>
    obtain ⟨_, _, _, m, hx, rfl, _⟩ := step_transferX_inv _ _ _ _ _ _ _ _ _ h
    exact xfer_replay _ _ _ _ _ _ _ _ _ hx
  | mint t amt d =>
    obtain ⟨_, _, m, hx, rfl, _⟩ := step_mint_inv _ _ _ _ _ _ _ _ h
    exact xfer_replay _ _ _ _ _ _ _ _ _ hx
  | burn f amt d =>
    obtain ⟨_, _, m, hx, _, rfl, _⟩ := step_burn_inv _ _ _ _ _ _ _ _ h
    exact xfer_replay _ _ _ _ _ _ _ _ _ hx
  | lock d f t amt till =>
    obtain ⟨_, _, _, m, evx, hx, rfl, _, rfl⟩ := step_lock_inv _ _ _ _ _ _ _ _ _ _ h
    rw [applyEvents_append, applyEvents_lock, ← balOf_set_zero s.accts t f till hw]
    exact xfer_replay _ _ _ _ _ _ _ _ _ hx
  | newEpoch e =>
    obtain ⟨_, rfl, _, rfl⟩ := step_newEpoch_inv _ _ _ _ _ _ h
    exact foldl_unlock_replay env e (balOf s.accts) _ (s.accts, []) rfl

/-! ### whole histories -/

/-- the notifications of one invocation (none if it FAULTed) -/
def invokeEvents (s : State) (env : Env) (op : Op) : List Event :=
  match (invoke s env op).2 with
  | some (_, ev) => ev
  | none => []

/-- the notification stream of a history -/
def histEvents (s : State) : List (Env × Op) → List Event
  | [] => []
  | (env, op) :: rest => invokeEvents s env op ++ histEvents (invoke s env op).1 rest

theorem replay_invoke (s : State) (env : Env) (op : Op) (hw : LockZero s op) :
    balOf (invoke s env op).1.accts = applyEvents (balOf s.accts) (invokeEvents s env op) := by
  cases hs : step s env op with
  | none =>
    unfold invokeEvents
    rw [invoke_fault _ _ _ hs]; rfl
  | some p =>
    obtain ⟨s', r, ev⟩ := p
    unfold invokeEvents
    rw [invoke_halt _ _ _ _ _ _ hs]
    exact replay_step _ _ _ _ _ _ hw hs

/-- lock targets hold no funds, along a history -/
def LockZeroHist (s : State) : List (Env × Op) → Prop
  | [] => True
  | (env, op) :: rest => LockZero s op ∧ LockZeroHist (invoke s env op).1 rest

theorem lockZeroHist_of_wf (hist : List (Env × Op)) (s : State) (h : WFHist s hist) :
    LockZeroHist s hist := by
  induction hist generalizing s with
  | nil => trivial
  | cons x rest ih =>
    obtain ⟨env, op⟩ := x
    exact ⟨lockZero_of_wf s op h.1, ih _ h.2⟩

theorem replay_hist (hist : List (Env × Op)) (s : State) (hw : LockZeroHist s hist) :
    balOf (run s hist).accts = applyEvents (balOf s.accts) (histEvents s hist) := by
  induction hist generalizing s with
  | nil => rfl
  | cons x rest ih =>
    obtain ⟨env, op⟩ := x
    show balOf (run (invoke s env op).1 rest).accts = _
    rw [ih _ hw.2, replay_invoke s env op hw.1]
    simp only [histEvents]
    rw [applyEvents_append]

theorem paired_invoke (s : State) (env : Env) (op : Op) (r : Option Bool) (ev : List Event)
    (h : (invoke s env op).2 = some (r, ev)) : EventsShape op ev :=
  events_shape_step _ _ _ _ _ _ (invoke_some_inv _ _ _ _ _ h)

end NeoFS.Balance
