import NeoFS.Base.Bytes
set_option linter.unusedSimpArgs false
set_option linter.unusedVariables false
/-! NeoVM integer ⇄ bytes lemmas used by C20: `decInt (encInt e) = e` and injectivity of `encInt` for every
epoch number `0 ≤ e < 256^40` (the VM itself stops at 2^255). -/
namespace NeoFS

theorem leVal_append (a b : Bytes) : leVal (a ++ b) = leVal a + 256 ^ a.length * leVal b := by
  induction a with
  | nil => simp [leVal]
  | cons x xs ih =>
    simp only [List.cons_append, leVal, ih, List.length_cons, Nat.pow_succ]
    rw [Nat.mul_add, Nat.add_assoc, Nat.mul_assoc, Nat.mul_left_comm (256 ^ xs.length) 256]

theorem leVal_natLE (f n : Nat) (h : n < 256 ^ f) : leVal (natLE f n) = n := by
  induction f generalizing n with
  | zero =>
    have : n = 0 := by simp at h; omega
    subst this; simp [natLE, leVal]
  | succ f ih =>
    unfold natLE
    by_cases hn : n = 0
    · subst hn; simp [leVal]
    · simp only [hn, if_false, leVal]
      have hlt : n / 256 < 256 ^ f := by
        apply Nat.div_lt_of_lt_mul
        rw [Nat.pow_succ] at h
        omega
      rw [ih _ hlt]
      omega

/-- epoch numbers: non-negative and within the range of the model's encoder -/
def EpochOK (e : Int) : Prop := 0 ≤ e ∧ e < 256 ^ 40

theorem decInt_encNat (n : Nat) (h : n < 256 ^ 40) : decInt (encNat n) = (n : Int) := by
  have hv := leVal_natLE 40 n h
  unfold encNat
  simp only
  cases hl : (natLE 40 n).getLast? with
  | none =>
    simp only
    have : natLE 40 n = [] := by
      cases hd : natLE 40 n with
      | nil => rfl
      | cons a l => rw [hd] at hl; simp [List.getLast?_cons] at hl
    rw [this] at hv
    simp [leVal] at hv
    subst hv
    simp [decInt]
  | some top =>
    simp only
    by_cases ht : 128 ≤ top
    · simp only [ht, if_true]
      unfold decInt
      have : (natLE 40 n ++ [0]).getLast? = some 0 := by simp
      rw [this]
      simp only
      have h0 : ¬ (128 ≤ 0) := by omega
      simp only [h0, if_false]
      rw [leVal_append, hv]
      simp [leVal]
    · simp only [ht, if_false]
      unfold decInt
      rw [hl]
      simp only [ht, if_false]
      rw [hv]

theorem decInt_encInt (e : Int) (h : EpochOK e) : decInt (encInt e) = e := by
  obtain ⟨h0, h1⟩ := h
  unfold encInt
  simp only [h0, if_true]
  have : e.toNat < 256 ^ 40 := by omega
  rw [decInt_encNat _ this]
  exact Int.toNat_of_nonneg h0

theorem encInt_inj (a b : Int) (ha : EpochOK a) (hb : EpochOK b) (h : encInt a = encInt b) : a = b := by
  have := congrArg decInt h
  rwa [decInt_encInt a ha, decInt_encInt b hb] at this

/-- epochs whose encodings have one length are distinguished by a prefix test -/
theorem encInt_prefix_same_length (a b : Int) (r : Bytes) (ha : EpochOK a) (hb : EpochOK b)
    (hl : (encInt a).length = (encInt b).length) : encInt a <+: encInt b ++ r ↔ a = b := by
  constructor
  · intro h
    have h2 : encInt b <+: encInt b ++ r := List.prefix_append _ _
    have h3 : encInt a <+: encInt b := List.prefix_of_prefix_length_le h h2 (by omega)
    exact encInt_inj a b ha hb (h3.eq_of_length hl)
  · rintro rfl; exact List.prefix_append _ _

example : EpochOK 257 := by unfold EpochOK; omega
example : decInt (encInt 65536) = 65536 := decInt_encInt _ (by unfold EpochOK; omega)

end NeoFS
