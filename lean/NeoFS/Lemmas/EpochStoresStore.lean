import NeoFS.Model.EpochStores
set_option linter.unusedSimpArgs false
set_option linter.unusedVariables false
/-! Store lemmas for the EpochStores model (C20): get/put/del, `find` = filter by prefix (as a set and as a
permutation), the fixed-width family lemma `find_family_exact`. -/
namespace NeoFS.EpochStores
open NeoFS

variable {α : Type}

/-! ### membership, get, put, del -/

theorem mem_del_iff (s : Store α) (k : Bytes) (kv : Bytes × α) : kv ∈ del s k ↔ kv.1 ≠ k ∧ kv ∈ s := by
  unfold del; rw [List.mem_filter]; simp only [bne_iff_ne, ne_eq]; exact And.comm

theorem mem_put_iff (s : Store α) (k : Bytes) (v : α) (kv : Bytes × α) :
    kv ∈ put s k v ↔ kv = (k, v) ∨ (kv.1 ≠ k ∧ kv ∈ s) := by
  unfold put; rw [List.mem_cons, mem_del_iff]

theorem not_mem_keys_del (s : Store α) (k : Bytes) : k ∉ (del s k).map (·.1) := by
  intro h
  rw [List.mem_map] at h
  obtain ⟨x, hx, rfl⟩ := h
  exact ((mem_del_iff s x.1 x).mp hx).1 rfl

theorem uniq_del (s : Store α) (k : Bytes) (h : Uniq s) : Uniq (del s k) := by
  unfold Uniq del at *; exact List.Nodup.sublist (List.Sublist.map _ List.filter_sublist) h

theorem uniq_put (s : Store α) (k : Bytes) (v : α) (h : Uniq s) : Uniq (put s k v) := by
  unfold put Uniq
  rw [List.map_cons, List.nodup_cons]
  exact ⟨not_mem_keys_del s k, uniq_del s k h⟩

theorem uniq_nil : Uniq ([] : Store α) := by unfold Uniq; simp

theorem get_eq_some_of_mem (s : Store α) (h : Uniq s) (k : Bytes) (v : α) (hm : (k, v) ∈ s) : get s k = some v := by
  induction s with
  | nil => cases hm
  | cons x xs ih =>
    obtain ⟨kx, vx⟩ := x
    have hxs : Uniq xs := by unfold Uniq at *; exact (List.nodup_cons.mp h).2
    have hnot : kx ∉ xs.map (·.1) := by unfold Uniq at h; exact (List.nodup_cons.mp h).1
    rcases List.mem_cons.mp hm with e | hm'
    · simp only [Prod.mk.injEq] at e
      obtain ⟨rfl, rfl⟩ := e
      simp [get, List.find?_cons]
    · have hne : kx ≠ k := by
        intro e; subst e
        exact hnot (List.mem_map_of_mem (f := (·.1)) hm')
      have : get ((kx, vx) :: xs) k = get xs k := by simp [get, List.find?_cons, hne]
      rw [this]; exact ih hxs hm'

theorem mem_of_get_eq_some (s : Store α) (k : Bytes) (v : α) (hg : get s k = some v) : (k, v) ∈ s := by
  unfold get at hg
  cases hf : s.find? (fun kv => kv.1 == k) with
  | none => rw [hf] at hg; cases hg
  | some kv =>
    rw [hf] at hg
    simp only [Option.map_some, Option.some.injEq] at hg
    have hm := List.mem_of_find?_eq_some hf
    have hp := List.find?_some hf
    simp only [beq_iff_eq] at hp
    obtain ⟨a, b⟩ := kv
    simp only at hp hg
    subst hp; subst hg
    exact hm

theorem mem_iff_get (s : Store α) (h : Uniq s) (k : Bytes) (v : α) : (k, v) ∈ s ↔ get s k = some v :=
  ⟨get_eq_some_of_mem s h k v, mem_of_get_eq_some s k v⟩

theorem get_eq_none_iff (s : Store α) (k : Bytes) : get s k = none ↔ ∀ v, (k, v) ∉ s := by
  unfold get
  constructor
  · intro hg v hm
    cases hf : s.find? (fun kv => kv.1 == k) with
    | none =>
      rw [List.find?_eq_none] at hf
      exact hf (k, v) hm (by simp)
    | some kv => rw [hf] at hg; cases hg
  · intro hn
    cases hf : s.find? (fun kv => kv.1 == k) with
    | none => rfl
    | some kv =>
      exfalso
      have hm := List.mem_of_find?_eq_some hf
      have hp := List.find?_some hf
      simp only [beq_iff_eq] at hp
      obtain ⟨a, b⟩ := kv
      simp only at hp
      subst hp
      exact hn b hm

theorem get_put_self (s : Store α) (k : Bytes) (v : α) : get (put s k v) k = some v := by
  simp [put, get, List.find?_cons]

theorem get_del_self (s : Store α) (k : Bytes) : get (del s k) k = none := by
  rw [get_eq_none_iff]; intro v hm
  exact ((mem_del_iff s k (k, v)).mp hm).1 rfl

theorem get_del_other (s : Store α) (k k' : Bytes) (h : k' ≠ k) : get (del s k) k' = get s k' := by
  unfold del get; simp only [List.find?_filter]; congr 2; funext kv
  by_cases e : kv.1 = k'
  · subst e; simp [h]
  · simp [e]

theorem get_put_other (s : Store α) (k k' : Bytes) (v : α) (h : k' ≠ k) : get (put s k v) k' = get s k' := by
  have h' : (k == k') = false := by simp; exact fun e => h e.symm
  have := get_del_other s k k' h
  unfold put get at *; simp only [List.find?, h']; exact this

theorem del_absent (s : Store α) (k : Bytes) (h : ∀ v, (k, v) ∉ s) : del s k = s := by
  unfold del; rw [List.filter_eq_self]; intro kv hkv
  simp only [bne_iff_ne, ne_eq]
  intro e
  obtain ⟨a, b⟩ := kv
  simp only at e; subst e
  exact h b hkv

/-! ### insertion sort: a permutation -/

theorem perm_ins (a : Bytes × α) (l : List (Bytes × α)) : (ins a l).Perm (a :: l) := by
  induction l with
  | nil => simp [ins]
  | cons b l ih =>
    unfold ins; split
    · exact List.Perm.refl _
    · exact (List.Perm.cons b ih).trans (List.Perm.swap a b l)

theorem perm_isort (l : List (Bytes × α)) : (isort l).Perm l := by
  induction l with
  | nil => simp [isort]
  | cons a l ih => exact (perm_ins a (isort l)).trans (List.Perm.cons a ih)

theorem mem_isort (x : Bytes × α) (l : List (Bytes × α)) : x ∈ isort l ↔ x ∈ l :=
  (perm_isort l).mem_iff

/-! ### find -/

theorem find_perm (s : Store α) (p : Bytes) : (find s p).Perm (s.filter (fun kv => p.isPrefixOf kv.1)) :=
  perm_isort _

/-- `storage.Find(p)` returns exactly the stored entries whose key has prefix `p` -/
theorem mem_find_iff (s : Store α) (p : Bytes) (kv : Bytes × α) : kv ∈ find s p ↔ kv ∈ s ∧ p <+: kv.1 := by
  unfold find; rw [mem_isort, List.mem_filter, List.isPrefixOf_iff_prefix]

theorem find_nodup_keys (s : Store α) (p : Bytes) (h : Uniq s) : ((find s p).map (·.1)).Nodup := by
  have hp := (find_perm s p).map (·.1)
  refine (List.Perm.nodup_iff hp).mpr ?_
  unfold Uniq at h
  exact List.Nodup.sublist (List.Sublist.map _ List.filter_sublist) h

theorem nodup_of_nodup_keys (l : List (Bytes × α)) (h : (l.map (·.1)).Nodup) : l.Nodup := by
  induction l with
  | nil => exact List.nodup_nil
  | cons x xs ih =>
    rw [List.map_cons, List.nodup_cons] at h
    rw [List.nodup_cons]
    exact ⟨fun hm => h.1 (List.mem_map_of_mem (f := (·.1)) hm), ih h.2⟩

theorem find_nodup (s : Store α) (p : Bytes) (h : Uniq s) : (find s p).Nodup :=
  nodup_of_nodup_keys _ (find_nodup_keys s p h)

/-! ### prefixes -/

theorem prefix_same_length {a b r : Bytes} (hl : a.length = b.length) : a <+: b ++ r ↔ a = b := by
  constructor
  · intro h
    have h2 : b <+: b ++ r := List.prefix_append b r
    have h3 : a <+: b := List.prefix_of_prefix_length_le h h2 (by omega)
    exact h3.eq_of_length hl
  · rintro rfl; exact List.prefix_append a r

/-- **find_family_exact.** For a key `P ‖ f x' ‖ rest` of a family whose middle component has a FIXED width,
`Find (P ‖ f x)` returns the entry iff it is stored under `x` (more precisely under an `x'` with the same
encoding). This is what makes NeoFSID owner keys, configuration reads and fixed-width slices exact. -/
theorem find_family_exact {X : Type} (P : Bytes) (f : X → Bytes) (w : Nat) (hw : ∀ x, (f x).length = w)
    (s : Store α) (x x' : X) (rest : Bytes) (v : α) :
    (P ++ (f x' ++ rest), v) ∈ find s (P ++ f x) ↔ (P ++ (f x' ++ rest), v) ∈ s ∧ f x' = f x := by
  rw [mem_find_iff]
  simp only
  rw [List.prefix_append_right_inj, prefix_same_length (by rw [hw, hw])]
  constructor
  · rintro ⟨h1, h2⟩; exact ⟨h1, h2.symm⟩
  · rintro ⟨h1, h2⟩; exact ⟨h1, h2.symm⟩

/-- the general (variable-width) fact: the entry is returned iff the queried encoding is a byte prefix of
the stored encoding followed by the rest of the key -/
theorem find_family_char {X : Type} (P : Bytes) (f : X → Bytes) (s : Store α) (x x' : X) (rest : Bytes) (v : α) :
    (P ++ (f x' ++ rest), v) ∈ find s (P ++ f x) ↔ (P ++ (f x' ++ rest), v) ∈ s ∧ f x <+: f x' ++ rest := by
  rw [mem_find_iff]
  simp only
  rw [List.prefix_append_right_inj]

end NeoFS.EpochStores
