import NeoFS.Lemmas.ContainerMap
set_option linter.unusedSimpArgs false
set_option linter.unusedVariables false
/-! What a HALTed `put` / `delete` / `setEACL` did: one characterisation lemma per method, from which
all property theorems are derived. -/
namespace NeoFS.Container
open NeoFS

/-! ### NNS -/

theorem nnsGetTXT_ok {s : State} {domain : Bytes} {recs : List Bytes} (h : nnsGetTXT s domain = .ok recs) :
    ∃ dm, AL.get s.doms domain = some dm ∧ dm.txt = recs := by
  unfold nnsGetTXT at h
  dsimp only at h
  split at h
  · cases h
  · split at h
    · cases h
    · split at h
      · cases h
      · rename_i dm hdm
        split at h
        · cases h; exact ⟨dm, hdm, rfl⟩
        · cases h

theorem checkNiceName_false {env : Env} {s : State} {domain : Bytes} (h : checkNiceName env s domain = .ok false) :
    ∃ dm, AL.get s.doms domain = some dm ∧ dm.txt = [] := by
  unfold checkNiceName at h
  split at h
  · cases h
  · cases h
  · split at h
    · cases h
    · split at h
      · cases h
      · split at h
        · cases h
        · rename_i recs hrecs
          split at h
          · cases h
          · rename_i hlen
            obtain ⟨dm, hdm, ht⟩ := nnsGetTXT_ok hrecs
            refine ⟨dm, hdm, ?_⟩
            rw [ht]
            cases recs with
            | nil => rfl
            | cons a r => simp at hlen

theorem nnsRegister_ok {env : Env} {roots : List Bytes} {doms d1 : List (Bytes × Dom)} {domain : Bytes}
    (h : nnsRegister env roots doms domain = .ok d1) :
    AL.get doms domain = none ∧ d1 = AL.put doms domain ⟨env.self, []⟩ := by
  unfold nnsRegister at h
  split at h
  · cases h
  · split at h
    · cases h
    · split at h
      · cases h
      · split at h
        · cases h
        · split at h
          · cases h
          · split at h
            · cases h
            · split at h
              · cases h
              · rename_i hn
                cases h; exact ⟨hn, rfl⟩

theorem nnsAddTXT_ok {env : Env} {doms d2 : List (Bytes × Dom)} {domain cid : Bytes}
    (h : nnsAddTXT env doms domain cid = .ok d2) :
    ∃ dm, AL.get doms domain = some dm ∧ d2 = AL.put doms domain { dm with txt := dm.txt ++ [cid] } := by
  unfold nnsAddTXT at h
  split at h
  · cases h
  · rename_i dm hdm
    split at h
    · cases h
    · split at h
      · cases h
      · split at h
        · cases h
        · cases h; exact ⟨dm, hdm, rfl⟩

theorem nnsDeleteTXT_ok {env : Env} {doms d3 : List (Bytes × Dom)} {domain : Bytes}
    (h : nnsDeleteTXT env doms domain = .ok d3) :
    (AL.get doms domain = none ∧ d3 = doms) ∨
    ∃ dm, AL.get doms domain = some dm ∧ d3 = AL.put doms domain { dm with txt := [] } := by
  unfold nnsDeleteTXT at h
  split at h
  · rename_i hn; cases h; exact Or.inl ⟨hn, rfl⟩
  · rename_i dm hdm
    split at h
    · cases h
    · cases h; exact Or.inr ⟨dm, hdm, rfl⟩

/-- the alias part of a HALTed `putNamed` -/
theorem putAlias_ok {env : Env} {s s2 : State} {cid domain : Bytes} {needReg : Bool}
    (h : putAlias env s cid domain needReg = .ok s2) :
    ∃ d1 d2 d3,
      (if needReg then nnsRegister env s.roots s.doms domain = .ok d1 else d1 = s.doms) ∧
      nnsAddTXT env d1 domain cid = .ok d2 ∧
      (match AL.get s.alias cid with
       | none => d3 = d2
       | some old => if old ≠ domain then nnsDeleteTXT env d2 old = .ok d3 else d3 = d2) ∧
      s2 = { s with doms := d3, alias := AL.put s.alias cid domain } := by
  unfold putAlias at h
  split at h
  · cases h
  · rename_i d1 hd1
    have hreg : (if needReg then nnsRegister env s.roots s.doms domain = .ok d1 else d1 = s.doms) := by
      cases needReg with
      | true => simpa using hd1
      | false => simp at hd1; simp [hd1]
    split at h
    · cases h
    · rename_i d2 hd2
      split at h
      · rename_i hnone
        cases h
        exact ⟨d1, d2, d2, hreg, hd2, by simp [hnone], rfl⟩
      · rename_i old hold
        split at h
        · rename_i hne
          split at h
          · cases h
          · rename_i d3 hd3
            cases h
            exact ⟨d1, d2, d3, hreg, hd2, by simp [hold, hne, hd3], rfl⟩
        · rename_i heq
          cases h
          exact ⟨d1, d2, d2, hreg, hd2, by simp [hold, heq], rfl⟩

/-! ### put -/

def putDomain (env : Env) (name zone : Bytes) : Bytes := name ++ dot :: (if zone = [] then env.root else zone)

def metaSet (s : State) (cid : Bytes) (mt : Option Bool) : List Bytes := if mt = some true then sadd s.m cid else s.m

/-- everything a HALTed `put` / `putNamed` / `putMeta` checked and did -/
structure PutOK (env : Env) (s : State) (cid blob sg pub token name zone : Bytes) (mt : Option Bool)
    (s' : State) (evs : List Ev) (owner : Bytes) (fee : Int) (b' : Balance.State) (bev : List Balance.Event)
    (needReg : Bool) : Prop where
  hOwner : ownerOf blob = some owner
  notTomb : cid ∉ s.d
  hNice : name ≠ [] → checkNiceName env { s with m := metaSet s cid mt } (putDomain env name zone) = .ok needReg
  hFee : putFee s (decide (name ≠ [])) = some fee
  hBal : ¬ (Balance.getAcc s.bal.accts (walletToScriptHash owner)).bal < fee * (env.alphabet.length : Int)
  hWit : alphaWitness env = true
  hPay : payFees env (walletToScriptHash owner) fee (feeDetails cid) env.alphabet (s.bal, []) = some (b', bev)
  hAlias : if name ≠ [] then
             putAlias env { s with m := metaSet s cid mt, bal := b', o := AL.put s.o (owner, cid) cid,
                                   x := AL.put s.x cid ⟨blob, sg, pub, token⟩ } cid (putDomain env name zone) needReg = .ok s'
           else s' = { s with m := metaSet s cid mt, bal := b', o := AL.put s.o (owner, cid) cid,
                              x := AL.put s.x cid ⟨blob, sg, pub, token⟩ }
  hPub : pub.length = 33
  hCid : cid.length = 32
  hEv : evs = bev.map Ev.bal ++ [.putSuccess cid pub]

theorem putFee_m (s : State) (l : List Bytes) (b : Bool) : putFee { s with m := l } b = putFee s b := rfl

theorem putStep_ok {env : Env} {s s' : State} {cid blob sg pub token name zone : Bytes} {mt : Option Bool}
    {evs : List Ev} (h : putStep env s cid blob sg pub token name zone mt = .ok (s', evs)) :
    ∃ owner fee b' bev needReg, PutOK env s cid blob sg pub token name zone mt s' evs owner fee b' bev needReg := by
  unfold putStep at h
  dsimp only at h
  have hs0 : (if mt = some true then { s with m := sadd s.m cid } else s) = { s with m := metaSet s cid mt } := by
    unfold metaSet; split <;> rfl
  rw [hs0] at h
  split at h
  · cases h
  · rename_i owner hOwner
    split at h
    · cases h
    · rename_i hTomb
      split at h
      · cases h
      · rename_i needReg hNR
        split at h
        · cases h
        · rename_i fee hFee
          split at h
          · cases h
          · rename_i hBal
            split at h
            · cases h
            · rename_i hWit
              split at h
              · cases h
              · rename_i b' bev hPay
                split at h
                · cases h
                · rename_i s2 hs2
                  split at h
                  · cases h
                  · rename_i hg1
                    split at h
                    · cases h
                    · rename_i hg2
                      simp only [Except.ok.injEq, Prod.mk.injEq] at h
                      obtain ⟨h1, h2⟩ := h
                      subst h1
                      have hp : pub.length = 33 := by
                        simp only [Bool.or_eq_true, decide_eq_true_eq, not_or, Decidable.not_not] at hg2
                        exact hg2.2
                      have hc : cid.length = 32 := by
                        simp only [Bool.or_eq_true, decide_eq_true_eq, not_or, Decidable.not_not] at hg2
                        exact hg2.1
                      refine ⟨owner, fee, b', bev, needReg, hOwner, hTomb, ?_, hFee, hBal, ?_, hPay, ?_, hp, hc, h2.symm⟩
                      · intro hn
                        simpa [hn, putDomain] using hNR
                      · simpa using hWit
                      · by_cases hn : name = []
                        · simp only [hn, ne_eq, not_true_eq_false, decide_false, if_false] at hs2 ⊢
                          simp at hs2
                          exact hs2.symm
                        · simp only [hn, ne_eq, not_false_eq_true, decide_true, if_true] at hs2 ⊢
                          exact hs2

/-! ### delete -/

/-- everything a HALTed `delete` of a stored container did -/
structure DelOK (env : Env) (s : State) (cid : Bytes) (s' : State) (evs : List Ev) (c : Cnr) (owner : Bytes)
    (s1 : State) : Prop where
  hX : AL.get s.x cid = some c
  hOwner : ownerOf c.value = some owner
  hWit : alphaWitness env = true
  hAlias : match AL.get s.alias cid with
    | none => s1 = s
    | some domain =>
      if domain.length ≠ 0 then
        ∃ d', nnsDeleteTXT env s.doms domain = .ok d' ∧ s1 = { s with alias := AL.del s.alias cid, doms := d' }
      else s1 = s
  hS : s' = { s1 with o := AL.del s1.o (owner, cid), x := AL.del s1.x cid, m := sdel s1.m cid,
                      eacl := AL.del s1.eacl cid, d := sadd s1.d cid }
  hEv : evs = [.deleteSuccess cid]

theorem deleteStep_ok {env : Env} {s s' : State} {cid : Bytes} {evs : List Ev}
    (h : deleteStep env s cid = .ok (s', evs)) :
    (AL.get s.x cid = none ∧ s' = s ∧ evs = []) ∨ ∃ c owner s1, DelOK env s cid s' evs c owner s1 := by
  unfold deleteStep at h
  split at h
  · rename_i hn
    cases h; exact Or.inl ⟨hn, rfl, rfl⟩
  · rename_i c hc
    split at h
    · cases h
    · rename_i owner hOwner
      split at h
      · cases h
      · rename_i hWit
        dsimp only at h
        split at h
        · cases h
        · rename_i s1 hs1
          simp only [Except.ok.injEq, Prod.mk.injEq] at h
          obtain ⟨h1, h2⟩ := h
          refine Or.inr ⟨c, owner, s1, hc, hOwner, by simpa using hWit, ?_, h1.symm, h2.symm⟩
          split at hs1
          · cases hs1; rename_i hnone; simp [hnone]
          · rename_i domain hdom
            simp only [hdom]
            split at hs1
            · rename_i hlen
              simp only [hlen, ne_eq, not_false_eq_true, if_true]
              split at hs1
              · cases hs1
              · rename_i d' hd'
                cases hs1; exact ⟨d', hd', rfl⟩
            · rename_i hlen
              simp only [hlen, if_false]
              cases hs1; rfl

/-! ### setEACL -/

theorem setEACLStep_ok {env : Env} {s s' : State} {table sg pub token : Bytes} {evs : List Ev}
    (h : setEACLStep env s table sg pub token = .ok (s', evs)) :
    ∃ cid c, eaclCID table = some cid ∧ AL.get s.x cid = some c ∧ alphaWitness env = true ∧ pub.length = 33 ∧
      s' = { s with eacl := AL.put s.eacl cid ⟨table, sg, pub, token⟩ } ∧ evs = [.setEACLSuccess cid pub] := by
  unfold setEACLStep at h
  split at h
  · cases h
  · rename_i cid hcid
    split at h
    · cases h
    · rename_i c hc
      split at h
      · cases h
      · split at h
        · cases h
        · rename_i hWit
          split at h
          · cases h
          · rename_i hp
            simp only [Except.ok.injEq, Prod.mk.injEq] at h
            exact ⟨cid, c, hcid, hc, by simpa using hWit, by simpa using hp, h.1.symm, h.2.symm⟩

end NeoFS.Container
