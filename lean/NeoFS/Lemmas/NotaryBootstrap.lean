import NeoFS.Model.NotaryBootstrap
/-! Lemmas about the Notary bootstrap model (C13, layer 2): the signature map, the collection loop. -/
namespace NeoFS.NotaryBootstrap

/-! ## the signature map -/

def keys (m : List (Nat × Sig)) : List Nat := m.map (·.1)

/-- ascending committee indices (no index twice) -/
def Asc (m : List (Nat × Sig)) : Prop := m.Pairwise (fun p q => p.1 < q.1)

/-- every stored signature was made by the member it is stored under, over the transaction built
from `d`, and that member is a non-leading committee member -/
def SigsFor (n : Nat) (d : Shared) (m : List (Nat × Sig)) : Prop :=
  ∀ p ∈ m, p.2.signer = p.1 ∧ p.2.over = d ∧ 1 ≤ p.1 ∧ p.1 < n

theorem mem_insertSig (k : Nat) (s : Sig) : ∀ (m : List (Nat × Sig)) (p : Nat × Sig),
    p ∈ insertSig k s m → p = (k, s) ∨ p ∈ m
  | [], p, h => by simp only [insertSig, List.mem_singleton] at h; exact Or.inl h
  | (k', s') :: r, p, h => by
    simp only [insertSig] at h
    split at h
    · simp only [List.mem_cons] at h ⊢
      rcases h with h | h | h
      · exact Or.inl h
      · exact Or.inr (Or.inl h)
      · exact Or.inr (Or.inr h)
    · split at h
      · simp only [List.mem_cons] at h ⊢
        rcases h with h | h
        · exact Or.inl h
        · exact Or.inr (Or.inr h)
      · simp only [List.mem_cons] at h ⊢
        rcases h with h | h
        · exact Or.inr (Or.inl h)
        · rcases mem_insertSig k s r p h with h | h
          · exact Or.inl h
          · exact Or.inr (Or.inr h)

theorem key_mem_insertSig (k : Nat) (s : Sig) : ∀ (m : List (Nat × Sig)), k ∈ keys (insertSig k s m)
  | [] => by simp [insertSig, keys]
  | (k', s') :: r => by
    simp only [insertSig]
    split
    · simp [keys]
    · split
      · simp [keys]
      · have := key_mem_insertSig k s r
        simp only [keys, List.map_cons, List.mem_cons] at this ⊢
        exact Or.inr this

theorem keys_subset_insertSig (k : Nat) (s : Sig) : ∀ (m : List (Nat × Sig)) (x : Nat),
    x ∈ keys m → x ∈ keys (insertSig k s m)
  | [], x, h => by simp [keys] at h
  | (k', s') :: r, x, h => by
    simp only [keys, List.map_cons, List.mem_cons] at h
    simp only [insertSig]
    split
    · simp only [keys, List.map_cons, List.mem_cons]
      rcases h with h | h
      · exact Or.inr (Or.inl h)
      · exact Or.inr (Or.inr h)
    · split
      · rename_i hk
        simp only [keys, List.map_cons, List.mem_cons]
        rcases h with h | h
        · exact Or.inl (h.trans hk.symm)
        · exact Or.inr h
      · simp only [keys, List.map_cons, List.mem_cons]
        rcases h with h | h
        · exact Or.inl h
        · exact Or.inr (keys_subset_insertSig k s r x h)

theorem length_insertSig_le (k : Nat) (s : Sig) : ∀ (m : List (Nat × Sig)),
    (insertSig k s m).length ≤ m.length + 1
  | [] => by simp [insertSig]
  | (k', s') :: r => by
    simp only [insertSig]
    split
    · simp
    · split
      · simp
      · have := length_insertSig_le k s r
        simp only [List.length_cons]; omega

theorem asc_insertSig (k : Nat) (s : Sig) : ∀ (m : List (Nat × Sig)), Asc m → Asc (insertSig k s m)
  | [], _ => by simp [insertSig, Asc]
  | (k', s') :: r, h => by
    simp only [Asc, List.pairwise_cons] at h
    simp only [insertSig]
    split
    · rename_i hk
      simp only [Asc, List.pairwise_cons]
      refine ⟨?_, h.1, h.2⟩
      intro q hq
      simp only [List.mem_cons] at hq
      rcases hq with rfl | hq
      · exact hk
      · exact Nat.lt_trans hk (h.1 q hq)
    · split
      · rename_i hk
        simp only [Asc, List.pairwise_cons]
        exact ⟨fun q hq => hk ▸ h.1 q hq, h.2⟩
      · rename_i h1 h2
        simp only [Asc, List.pairwise_cons]
        refine ⟨?_, asc_insertSig k s r h.2⟩
        intro q hq
        rcases mem_insertSig k s r q hq with rfl | hq
        · show k' < k; omega
        · exact h.1 q hq

theorem sigsFor_insertSig (n : Nat) (d : Shared) (k : Nat) (s : Sig) (m : List (Nat × Sig))
    (hm : SigsFor n d m) (hs : s.signer = k ∧ s.over = d ∧ 1 ≤ k ∧ k < n) : SigsFor n d (insertSig k s m) := by
  intro p hp
  rcases mem_insertSig k s m p hp with rfl | hp
  · exact hs
  · exact hm p hp

/-- an ascending map has no more entries than any duplicate-free list that holds all its keys -/
theorem asc_nodup_keys (m : List (Nat × Sig)) (h : Asc m) : (keys m).Nodup := by
  unfold keys Asc at *
  rw [List.nodup_iff_pairwise_ne, List.pairwise_map]
  exact h.imp (fun hlt => Nat.ne_of_lt hlt)

theorem length_le_of_keys_subset (m : List (Nat × Sig)) (l : List Nat) (h : Asc m) (hs : ∀ x ∈ keys m, x ∈ l) :
    m.length ≤ l.length := by
  have := List.Nodup.length_le_of_subset (asc_nodup_keys m h) hs
  simpa [keys] using this

/-! ## the collection loop -/

/-- at loop index `i` the leader finds a record for the current shared data whose signature verifies -/
def validB (mp : Maps) (c : Chain) (d : Shared) (i : Nat) : Bool :=
  match c.sigRec (i + mp.domOff) with
  | some r => decide (r.cs = d ∧ r.sig.signer = i + mp.keyOff ∧ r.sig.over = d)
  | none => false

/-- … a record for the current shared data whose signature does NOT verify with key `i + keyOff` -/
def badB (mp : Maps) (c : Chain) (d : Shared) (i : Nat) : Bool :=
  match c.sigRec (i + mp.domOff) with
  | some r => decide (r.cs = d ∧ ¬ (r.sig.signer = i + mp.keyOff ∧ r.sig.over = d))
  | none => false

/-- The loop keeps the map ascending, valid for `d`, never longer than `need`, and never loses a key. -/
theorem collect_ok (mp : Maps) (n need : Nat) (c : Chain) (d : Shared) :
    ∀ (is : List Nat) (m : List (Nat × Sig)) (inv : Nat) (m' : List (Nat × Sig)),
      (∀ i ∈ is, 1 ≤ i + mp.keyOff ∧ i + mp.keyOff < n) → Asc m → SigsFor n d m → m.length < need →
      collect mp n need c d is m inv = .sigs m' →
      Asc m' ∧ SigsFor n d m' ∧ m'.length ≤ need ∧ (∀ x ∈ keys m, x ∈ keys m')
  | [], m, inv, m', _, ha, hf, hl, h => by
    simp only [collect, Collected.sigs.injEq] at h
    subst h
    exact ⟨ha, hf, Nat.le_of_lt hl, fun x hx => hx⟩
  | i :: is, m, inv, m', hk, ha, hf, hl, h => by
    have hk' : ∀ i ∈ is, 1 ≤ i + mp.keyOff ∧ i + mp.keyOff < n := fun j hj => hk j (List.mem_cons_of_mem _ hj)
    simp only [collect] at h
    split at h
    · exact collect_ok mp n need c d is m inv m' hk' ha hf hl h
    · rename_i r hr
      split at h
      · exact collect_ok mp n need c d is m inv m' hk' ha hf hl h
      · split at h
        · split at h
          · simp at h
          · exact collect_ok mp n need c d is m (inv + 1) m' hk' ha hf hl h
        · rename_i hcs hv
          simp only [Decidable.not_not] at hv hcs
          have hins := sigsFor_insertSig n d (i + mp.keyOff) r.sig m hf ⟨hv.1, hv.2, hk i (List.mem_cons_self ..)⟩
          have hasc := asc_insertSig (i + mp.keyOff) r.sig m ha
          have hlen := length_insertSig_le (i + mp.keyOff) r.sig m
          split at h
          · rename_i hn
            simp only [Collected.sigs.injEq] at h
            subst h
            exact ⟨hasc, hins, Nat.le_of_eq hn, keys_subset_insertSig _ _ m⟩
          · rename_i hn
            have := collect_ok mp n need c d is _ inv m' hk' hasc hins (by omega) h
            exact ⟨this.1, this.2.1, this.2.2.1, fun x hx => this.2.2.2 x (keys_subset_insertSig _ _ m x hx)⟩

/-- If the loop ends without `need` signatures, it has picked up every valid signature it passed. -/
theorem collect_complete (mp : Maps) (n need : Nat) (c : Chain) (d : Shared) :
    ∀ (is : List Nat) (m : List (Nat × Sig)) (inv : Nat) (m' : List (Nat × Sig)),
      collect mp n need c d is m inv = .sigs m' →
      m'.length = need ∨ ((∀ i ∈ is, validB mp c d i = true → (i + mp.keyOff) ∈ keys m') ∧ ∀ x ∈ keys m, x ∈ keys m')
  | [], m, inv, m', h => by
    simp only [collect, Collected.sigs.injEq] at h
    subst h
    exact Or.inr ⟨fun i hi => absurd hi (by simp), fun x hx => hx⟩
  | i :: is, m, inv, m', h => by
    simp only [collect] at h
    split at h
    · rename_i hr
      rcases collect_complete mp n need c d is m inv m' h with hl | ⟨hv, hs⟩
      · exact Or.inl hl
      · refine Or.inr ⟨?_, hs⟩
        intro j hj hvj
        simp only [List.mem_cons] at hj
        rcases hj with rfl | hj
        · simp [validB, hr] at hvj
        · exact hv j hj hvj
    · rename_i r hr
      split at h
      · rename_i hcs
        rcases collect_complete mp n need c d is m inv m' h with hl | ⟨hv, hs⟩
        · exact Or.inl hl
        · refine Or.inr ⟨?_, hs⟩
          intro j hj hvj
          simp only [List.mem_cons] at hj
          rcases hj with rfl | hj
          · simp only [validB, hr, decide_eq_true_eq] at hvj
            exact absurd hvj.1 hcs
          · exact hv j hj hvj
      · split at h
        · rename_i hcs hv0
          split at h
          · simp at h
          · rcases collect_complete mp n need c d is m (inv + 1) m' h with hl | ⟨hv, hs⟩
            · exact Or.inl hl
            · refine Or.inr ⟨?_, hs⟩
              intro j hj hvj
              simp only [List.mem_cons] at hj
              rcases hj with rfl | hj
              · simp only [validB, hr, decide_eq_true_eq] at hvj
                exact absurd hvj.2 hv0
              · exact hv j hj hvj
        · split at h
          · rename_i hn
            simp only [Collected.sigs.injEq] at h
            subst h
            exact Or.inl hn
          · rcases collect_complete mp n need c d is _ inv m' h with hl | ⟨hv, hs⟩
            · exact Or.inl hl
            · refine Or.inr ⟨?_, fun x hx => hs x (keys_subset_insertSig _ _ m x hx)⟩
              intro j hj hvj
              simp only [List.mem_cons] at hj
              rcases hj with rfl | hj
              · exact hs _ (key_mem_insertSig _ _ m)
              · exact hv j hj hvj

/-- The invalid-signature threshold is not reached while bad records + counter + M ≤ n. -/
theorem collect_no_regenerate (mp : Maps) (n need : Nat) (c : Chain) (d : Shared) :
    ∀ (is : List Nat) (m : List (Nat × Sig)) (inv : Nat),
      is.countP (badB mp c d) + inv + majority n ≤ n →
      collect mp n need c d is m inv ≠ .regenerate
  | [], m, inv, _ => by simp [collect]
  | i :: is, m, inv, hb => by
    simp only [collect]
    split
    · rename_i hr
      have : badB mp c d i = false := by simp [badB, hr]
      rw [List.countP_cons_of_neg (by simp [this])] at hb
      exact collect_no_regenerate mp n need c d is m inv hb
    · rename_i r hr
      split
      · rename_i hcs
        have : badB mp c d i = false := by simp [badB, hr, hcs]
        rw [List.countP_cons_of_neg (by simp [this])] at hb
        exact collect_no_regenerate mp n need c d is m inv hb
      · split
        · rename_i hcs hv0
          simp only [Decidable.not_not] at hcs
          have : badB mp c d i = true := by simp only [badB, hr, decide_eq_true_eq]; exact ⟨hcs, hv0⟩
          rw [List.countP_cons_of_pos this] at hb
          split
          · omega
          · exact collect_no_regenerate mp n need c d is m (inv + 1) (by omega)
        · rename_i hcs hv0
          simp only [Decidable.not_not] at hcs hv0
          have : badB mp c d i = false := by simp [badB, hr, hcs, hv0]
          rw [List.countP_cons_of_neg (by simp [this])] at hb
          split
          · simp
          · exact collect_no_regenerate mp n need c d is _ inv hb

/-- Whatever the loop adds to the map is the key of a valid record it passed. -/
theorem collect_only_valid (mp : Maps) (n need : Nat) (c : Chain) (d : Shared) :
    ∀ (is : List Nat) (m : List (Nat × Sig)) (inv : Nat) (m' : List (Nat × Sig)),
      collect mp n need c d is m inv = .sigs m' →
      ∀ x ∈ keys m', x ∈ keys m ∨ ∃ i ∈ is, validB mp c d i = true ∧ x = i + mp.keyOff
  | [], m, inv, m', h => by
    simp only [collect, Collected.sigs.injEq] at h
    subst h
    exact fun x hx => Or.inl hx
  | i :: is, m, inv, m', h => by
    have lift : ∀ (m0 : List (Nat × Sig)) x, (x ∈ keys m0 ∨ ∃ j ∈ is, validB mp c d j = true ∧ x = j + mp.keyOff) →
        (∀ y ∈ keys m0, y ∈ keys m ∨ y = i + mp.keyOff ∧ validB mp c d i = true) →
        x ∈ keys m ∨ ∃ j ∈ i :: is, validB mp c d j = true ∧ x = j + mp.keyOff := by
      intro m0 x hx hm0
      rcases hx with hx | ⟨j, hj, hv, rfl⟩
      · rcases hm0 x hx with h1 | ⟨h1, h2⟩
        · exact Or.inl h1
        · exact Or.inr ⟨i, List.mem_cons_self .., h2, h1⟩
      · exact Or.inr ⟨j, List.mem_cons_of_mem _ hj, hv, rfl⟩
    simp only [collect] at h
    split at h
    · exact fun x hx => lift m x (collect_only_valid mp n need c d is m inv m' h x hx) (fun y hy => Or.inl hy)
    · rename_i r hr
      split at h
      · exact fun x hx => lift m x (collect_only_valid mp n need c d is m inv m' h x hx) (fun y hy => Or.inl hy)
      · split at h
        · split at h
          · simp at h
          · exact fun x hx => lift m x (collect_only_valid mp n need c d is m (inv + 1) m' h x hx) (fun y hy => Or.inl hy)
        · rename_i hcs hv0
          simp only [Decidable.not_not] at hcs hv0
          have hvi : validB mp c d i = true := by simp only [validB, hr, decide_eq_true_eq]; exact ⟨hcs, hv0.1, hv0.2⟩
          have hm0 : ∀ y ∈ keys (insertSig (i + mp.keyOff) r.sig m), y ∈ keys m ∨ y = i + mp.keyOff ∧ validB mp c d i = true := by
            intro y hy
            simp only [keys, List.mem_map] at hy
            obtain ⟨p, hp, rfl⟩ := hy
            rcases mem_insertSig _ _ m p hp with rfl | hp
            · exact Or.inr ⟨rfl, hvi⟩
            · exact Or.inl (by simp only [keys, List.mem_map]; exact ⟨p, hp, rfl⟩)
          split at h
          · simp only [Collected.sigs.injEq] at h
            subst h
            exact fun x hx => lift _ x (Or.inl hx) hm0
          · exact fun x hx => lift _ x (collect_only_valid mp n need c d is _ inv m' h x hx) hm0

/-! ## the leader's invariant -/

/-- the loop indices stay inside the committee and never name the leader's own key -/
def KeysInRange (mp : Maps) (n : Nat) : Prop :=
  ∀ i ∈ loopIndices mp n, 1 ≤ i + mp.keyOff ∧ i + mp.keyOff < n

/-- Consistency of the leader's process state with the chain: a transaction in hand was built from
the shared data on chain; the collected signatures are signatures of that transaction by distinct
non-leading members, kept in index order, at most `M − 1` of them; the witness script holds the
leader's own signature and, once finalised, the collected ones in that order. -/
def LInv (n : Nat) (c : Chain) (l : Leader) : Prop :=
  l.sigs.length ≤ majority n - 1 ∧
  match l.tx with
  | none => l.sigs = [] ∧ l.fullySigned = false
  | some d => c.txRec = some d ∧ Asc l.sigs ∧ SigsFor n d l.sigs ∧
      (l.fullySigned = false → l.script = [⟨0, d⟩]) ∧
      (l.fullySigned = true → l.script = ⟨0, d⟩ :: l.sigs.map (·.2) ∧ l.sigs.length = majority n - 1 ∧
        (l.tried = true ∨ d.vub ≤ c.height))

theorem LInv_init (n : Nat) (c : Chain) : LInv n c Leader.init := by
  simp [LInv, Leader.init]

theorem LInv_generate (n maxInc : Nat) (env : Env) (c c' : Chain) (l : Leader) :
    LInv n c' (generate maxInc env c l).1 := by
  simp [LInv, generate]

theorem LInv_settle (n : Nat) (c : Chain) (l : Leader) (h : LInv n c l) : LInv n c l.settle := by
  simpa [LInv, Leader.settle] using h

/-- the `txRec` field after the block that includes the leader's action -/
def txRecAfter (c : Chain) (a : LAct) : Option Shared :=
  match a with
  | .setTxRec d => some d
  | .designateRefused _ _ d => some d
  | _ => c.txRec

theorem majority_pos (n : Nat) (h : 1 ≤ n) : 1 ≤ majority n := by unfold majority; omega

/-- a finalised script over an ascending valid map is a valid M-of-n witness -/
theorem validScript_of_sigs (n : Nat) (d : Shared) (m : List (Nat × Sig)) (hn : 1 ≤ n)
    (ha : Asc m) (hf : SigsFor n d m) (hl : m.length = majority n - 1) :
    validScript n d (⟨0, d⟩ :: m.map (·.2)) := by
  have hM := majority_pos n hn
  refine ⟨by simp only [List.length_cons, List.length_map, hl]; omega, ?_, ?_⟩
  · simp only [List.map_cons, List.map_map, List.pairwise_cons, List.mem_map, Function.comp]
    refine ⟨?_, ?_⟩
    · rintro a' ⟨p, hp, rfl⟩
      have := hf p hp
      show 0 < p.2.signer
      omega
    · rw [List.pairwise_map]
      refine List.Pairwise.imp_of_mem ?_ ha
      intro p q hp hq hpq
      have h1 := hf p hp
      have h2 := hf q hq
      show p.2.signer < q.2.signer
      omega
  · intro s hs
    simp only [List.mem_cons, List.mem_map] at hs
    rcases hs with rfl | ⟨p, hp, rfl⟩
    · exact ⟨by show 0 < n; omega, rfl⟩
    · have := hf p hp
      exact ⟨by omega, this.2.1⟩

/-! ## one tick of the leader -/

/-- what has to hold of the result `r` of one leader tick -/
def TickPost (n : Nat) (c : Chain) (r : Leader × LAct) : Prop :=
  (∀ d sc nx, r.2 ≠ .designateRefused d sc nx) ∧
  (∀ d sc, r.2 = .designate d sc → c.txRec = some d ∧ c.height < d.vub ∧ validScript n d sc ∧ r.1.tried = true) ∧
  (∀ c' : Chain, c'.txRec = txRecAfter c r.2 → c'.height = c.height + 1 → LInv n c' r.1)

theorem tickPost_keep (n : Nat) (c : Chain) (l l' : Leader) (hl : LInv n c l)
    (h1 : l'.tx = l.tx) (h2 : l'.sigs = l.sigs) (h3 : l'.fullySigned = l.fullySigned) (h4 : l'.script = l.script)
    (h5 : l'.tried = l.tried) (a : LAct) (ha : a = .none ∨ a = .regTxDom ∨ a = .designateSolo) : TickPost n c (l', a) := by
  refine ⟨by rcases ha with rfl | rfl | rfl <;> simp, by rcases ha with rfl | rfl | rfl <;> simp, ?_⟩
  intro c' hc hh
  have hc' : c'.txRec = c.txRec := by rcases ha with rfl | rfl | rfl <;> simpa [txRecAfter] using hc
  unfold LInv at hl ⊢
  simp only [h1, h2, h3, h4, h5]
  refine ⟨hl.1, ?_⟩
  have h2' := hl.2
  cases htx : l.tx with
  | none => simp only [htx] at h2' ⊢; exact h2'
  | some d =>
    simp only [htx] at h2' ⊢
    refine ⟨hc'.trans h2'.1, h2'.2.1, h2'.2.2.1, h2'.2.2.2.1, ?_⟩
    intro hf
    have := h2'.2.2.2.2 hf
    refine ⟨this.1, this.2.1, ?_⟩
    rcases this.2.2 with h | h
    · exact Or.inl h
    · exact Or.inr (by omega)

theorem tickPost_generate (n maxInc : Nat) (env : Env) (c : Chain) (l : Leader) :
    TickPost n c (generateAct maxInc env c l) := by
  refine ⟨by simp [generateAct], by simp [generateAct], ?_⟩
  intro c' _ _
  exact LInv_generate n maxInc env c c' l


/-- the order in which the collected signatures are appended is the index order: true of every
environment when the code sorts, and of the fair environment (identity map order) in any case -/
def OrderOK (mp : Maps) (env : Env) : Prop := ∀ m : List (Nat × Sig), (if mp.sorted = true then m else env.order m) = m

theorem orderOK_sorted (mp : Maps) (env : Env) (h : mp.sorted = true) : OrderOK mp env := by
  intro m; rw [if_pos h]

theorem orderOK_fair (mp : Maps) (live : Nat → Bool) (nonce : Nat) : OrderOK mp (fairEnv live nonce) := by
  intro m; split <;> rfl

/-- state handed to `leaderSend`: transaction for `d` in hand, exactly `M − 1` valid signatures -/
def SendPre (n : Nat) (c : Chain) (d : Shared) (l2 : Leader) : Prop :=
  l2.tx = some d ∧ c.txRec = some d ∧ Asc l2.sigs ∧ SigsFor n d l2.sigs ∧ l2.sigs.length = majority n - 1 ∧
  (l2.fullySigned = false → l2.script = [⟨0, d⟩]) ∧
  (l2.fullySigned = true → l2.script = ⟨0, d⟩ :: l2.sigs.map (·.2) ∧ (l2.tried = true ∨ d.vub ≤ c.height))

theorem LInv_of_sendPre (n : Nat) (c c' : Chain) (d : Shared) (l2 : Leader) (h : SendPre n c d l2)
    (hc : c'.txRec = c.txRec) (hh : c'.height = c.height + 1) : LInv n c' l2 := by
  obtain ⟨h1, h2, h3, h4, h5, h6, h7⟩ := h
  unfold LInv
  refine ⟨Nat.le_of_eq h5, ?_⟩
  simp only [h1]
  refine ⟨hc.trans h2, h3, h4, h6, ?_⟩
  intro hf
  have := h7 hf
  refine ⟨this.1, h5, ?_⟩
  rcases this.2 with h | h
  · exact Or.inl h
  · exact Or.inr (by omega)

theorem leaderSend_post (mp : Maps) (n maxInc : Nat) (env : Env) (c : Chain) (d : Shared) (l2 : Leader)
    (hn : 1 ≤ n) (hs : OrderOK mp env) (hexp : ¬ c.height > d.vub) (h : SendPre n c d l2) :
    TickPost n c (leaderSend mp n maxInc env c d l2) := by
  unfold leaderSend
  by_cases hp : l2.pendReg = true
  · rw [if_pos hp]
    refine ⟨by simp, by simp, ?_⟩
    intro c' hc hh
    exact LInv_of_sendPre n c c' d l2 h (by simpa [txRecAfter] using hc) hh
  · rw [if_neg hp]
    by_cases ht : l2.tried = true
    · rw [if_pos ht]; exact tickPost_generate n maxInc env c l2
    · rw [if_neg ht]
      obtain ⟨h1, h2, h3, h4, h5, h6, h7⟩ := h
      -- the finalised state
      have hl3 : ∀ l3 : Leader, l3 = (if l2.fullySigned = true then l2 else
            { l2 with script := l2.script ++ ((if mp.sorted = true then l2.sigs else env.order l2.sigs).map (·.2)),
                      fullySigned := true }) →
          l3.tx = some d ∧ l3.sigs = l2.sigs ∧ l3.tried = l2.tried ∧
          ((c.height < d.vub) → l3.script = ⟨0, d⟩ :: l2.sigs.map (·.2)) ∧
          (l3.fullySigned = true → l3.script = ⟨0, d⟩ :: l3.sigs.map (·.2)) ∧
          (l3.fullySigned = false → l3.script = [⟨0, d⟩]) := by
        intro l3 e
        by_cases hf : l2.fullySigned = true
        · rw [if_pos hf] at e
          subst e
          refine ⟨h1, rfl, rfl, ?_, fun _ => (h7 hf).1, fun hff => absurd hf (by simp [hff])⟩
          intro hlt
          rcases (h7 hf).2 with h | h
          · exact absurd h ht
          · omega
        · rw [if_neg hf] at e
          have hf' : l2.fullySigned = false := by simpa using hf
          subst e
          simp only [hs l2.sigs, h6 hf', List.singleton_append]
          exact ⟨h1, trivial, trivial, fun _ => trivial, fun _ => trivial, fun hff => by simp at hff⟩
      generalize hl3e : (if l2.fullySigned = true then l2 else
            { l2 with script := l2.script ++ ((if mp.sorted = true then l2.sigs else env.order l2.sigs).map (·.2)),
                      fullySigned := true }) = l3
      obtain ⟨e1, e2, e3, e4, e5, e6⟩ := hl3 l3 hl3e.symm
      simp only []
      by_cases hlt : c.height < d.vub
      · rw [if_neg (by simpa using hlt)]
        have hscript := e4 hlt
        have hvalid : validScript n d l3.script := by
          rw [hscript]; exact validScript_of_sigs n d l2.sigs hn h3 h4 h5
        rw [if_pos hvalid]
        refine ⟨by simp, ?_, ?_⟩
        · intro d' sc he
          simp only [LAct.designate.injEq] at he
          obtain ⟨rfl, rfl⟩ := he
          exact ⟨h2, hlt, hvalid, rfl⟩
        · intro c' hc hh
          have hc' : c'.txRec = c.txRec := by simpa [txRecAfter] using hc
          unfold LInv
          simp only [e1, e2]
          refine ⟨Nat.le_of_eq h5, hc'.trans h2, h3, h4, ?_, ?_⟩
          · intro hf; exact e6 hf
          · intro hf; exact ⟨e2 ▸ e5 hf, h5, Or.inl trivial⟩
      · rw [if_pos (by simpa using hlt)]
        refine ⟨by simp, by simp, ?_⟩
        intro c' hc hh
        have hc' : c'.txRec = c.txRec := by simpa [txRecAfter] using hc
        unfold LInv
        simp only [e1, e2]
        refine ⟨Nat.le_of_eq h5, hc'.trans h2, h3, h4, e6, ?_⟩
        intro hf
        exact ⟨e2 ▸ e5 hf, h5, Or.inr (by omega)⟩


/-- the leader's state after the transaction for `d` has been (re)made -/
def L1Pre (n : Nat) (c : Chain) (d : Shared) (l1 : Leader) : Prop :=
  l1.tx = some d ∧ Asc l1.sigs ∧ SigsFor n d l1.sigs ∧ l1.sigs.length ≤ majority n - 1 ∧
  (l1.fullySigned = false → l1.script = [⟨0, d⟩]) ∧
  (l1.fullySigned = true → l1.script = ⟨0, d⟩ :: l1.sigs.map (·.2) ∧ l1.sigs.length = majority n - 1 ∧
    (l1.tried = true ∨ d.vub ≤ c.height))

theorem l1Pre_of_LInv (n : Nat) (c : Chain) (d : Shared) (l : Leader) (hl : LInv n c l) (hc : c.txRec = some d) :
    L1Pre n c d (if l.tx = some d then l else { l with tx := some d, script := [⟨0, d⟩] }) := by
  unfold LInv at hl
  cases htx : l.tx with
  | none =>
    simp only [htx] at hl
    rw [if_neg (by simp)]
    refine ⟨rfl, ?_, ?_, ?_, fun _ => rfl, ?_⟩
    · simp [hl.2.1, Asc]
    · simp [hl.2.1, SigsFor]
    · simp [hl.2.1]
    · intro hf; simp [hl.2.2] at hf
  | some d' =>
    simp only [htx] at hl
    have : d' = d := by
      have := hl.2.1.symm.trans hc
      simpa using this
    subst this
    rw [if_pos rfl]
    exact ⟨htx, hl.2.2.1, hl.2.2.2.1, hl.1, hl.2.2.2.2.1, hl.2.2.2.2.2⟩

theorem leaderMain_post (mp : Maps) (n maxInc : Nat) (env : Env) (c : Chain) (d : Shared) (l : Leader)
    (hn : 1 ≤ n) (hs : OrderOK mp env) (hk : KeysInRange mp n) (hl : LInv n c l)
    (hc : c.txRec = some d) (hexp : ¬ c.height > d.vub) :
    TickPost n c (leaderMain mp n maxInc env c d l) := by
  unfold leaderMain
  have hl1 := l1Pre_of_LInv n c d l hl hc
  generalize (if l.tx = some d then l else { l with tx := some d, script := [⟨0, d⟩] }) = l1 at hl1
  obtain ⟨p1, p2, p3, p4, p5, p6⟩ := hl1
  simp only []
  -- what is handed on once the map `m` is fixed
  have fin : ∀ m : List (Nat × Sig), Asc m → SigsFor n d m → m.length ≤ majority n - 1 →
      (l1.fullySigned = true → m = l1.sigs) →
      TickPost n c (if m.length < majority n - 1 then ({ l1 with sigs := m }, LAct.none)
                    else leaderSend mp n maxInc env c d { l1 with sigs := m }) := by
    intro m ha hf hle hfs
    by_cases hlt : m.length < majority n - 1
    · rw [if_pos hlt]
      have hfalse : l1.fullySigned = false := by
        cases hb : l1.fullySigned with
        | false => rfl
        | true =>
          have := hfs hb
          have := (p6 hb).2.1
          subst m; omega
      refine ⟨by simp, by simp, ?_⟩
      intro c' hc' hh
      have hc'' : c'.txRec = c.txRec := by simpa [txRecAfter] using hc'
      unfold LInv
      simp only [p1]
      refine ⟨hle, hc''.trans hc, ha, hf, p5, ?_⟩
      intro hb; simp [hfalse] at hb
    · rw [if_neg hlt]
      apply leaderSend_post mp n maxInc env c d _ hn hs hexp
      refine ⟨p1, hc, ha, hf, (by show m.length = majority n - 1; omega), p5, ?_⟩
      intro hb
      have e := hfs hb
      have := p6 hb
      simp only [e]
      exact ⟨this.1, this.2.2⟩
  by_cases hlen : l1.sigs.length < majority n - 1
  · rw [if_pos hlen]
    cases hcol : collect mp n (majority n - 1) c d (loopIndices mp n) l1.sigs 0 with
    | regenerate => simp only []; exact tickPost_generate n maxInc env c l1
    | sigs m =>
      simp only []
      have := collect_ok mp n (majority n - 1) c d (loopIndices mp n) l1.sigs 0 m hk p2 p3 hlen hcol
      apply fin m this.1 this.2.1 this.2.2.1
      intro hb
      have := (p6 hb).2.1
      omega
  · rw [if_neg hlen]
    simp only []
    exact fin l1.sigs p2 p3 p4 (fun _ => rfl)

theorem leaderTick_inv (mp : Maps) (n maxInc : Nat) (env : Env) (c : Chain) (l : Leader)
    (hn : 1 ≤ n) (hs : OrderOK mp env) (hk : KeysInRange mp n) (hl : LInv n c l) :
    TickPost n c (leaderTick mp n maxInc env c l) := by
  unfold leaderTick
  by_cases htd : ¬ (c.txDom = true)
  · rw [if_pos htd]
    by_cases hp : l.pendReg = true
    · rw [if_pos hp]; exact tickPost_keep n c l l hl rfl rfl rfl rfl rfl _ (Or.inl rfl)
    · rw [if_neg hp]; exact tickPost_keep n c l _ hl rfl rfl rfl rfl rfl _ (Or.inr (Or.inl rfl))
  · rw [if_neg htd]
    cases hrec : c.txRec with
    | none =>
      simp only []
      by_cases hp : l.pendSet = true
      · rw [if_pos hp]; exact tickPost_keep n c l l hl rfl rfl rfl rfl rfl _ (Or.inl rfl)
      · rw [if_neg hp]; exact tickPost_generate n maxInc env c l
    | some d =>
      simp only []
      by_cases hexp : c.height > d.vub
      · rw [if_pos hexp]; exact tickPost_generate n maxInc env c l
      · rw [if_neg hexp]
        exact leaderMain_post mp n maxInc env c d l hn hs hk hl hrec hexp

/-! ## rounds -/

theorem applyBlock_txRec (mp : Maps) (n : Nat) (env : Env) (c : Chain) (la : LAct) (sa : Nat → SAct) :
    (applyBlock mp n env c la sa).txRec = txRecAfter c la := by
  cases la <;> rfl

theorem applyBlock_height (mp : Maps) (n : Nat) (env : Env) (c : Chain) (la : LAct) (sa : Nat → SAct) :
    (applyBlock mp n env c la sa).height = c.height + 1 := rfl

/-- `leaderOut` (restart, liveness, role check, n = 1) satisfies the tick postcondition -/
theorem leaderOut_post (mp : Maps) (n maxInc : Nat) (env : Env) (s : State)
    (hn : 1 ≤ n) (hs : OrderOK mp env) (hk : KeysInRange mp n) (hl : LInv n s.chain s.leader) :
    TickPost n s.chain (leaderOut mp n maxInc env s) := by
  unfold leaderOut
  have hl0 : LInv n s.chain (if env.fresh 0 = true then Leader.init else s.leader) := by
    split
    · exact LInv_init n s.chain
    · exact hl
  generalize (if env.fresh 0 = true then Leader.init else s.leader) = l0 at hl0
  simp only []
  by_cases hlive : env.live 0 = true
  · rw [if_pos hlive]
    unfold leaderStep
    by_cases hv : s.chain.roleVisible = true
    · rw [if_pos hv]; exact tickPost_keep n s.chain l0 l0 hl0 rfl rfl rfl rfl rfl _ (Or.inl rfl)
    · rw [if_neg hv]
      by_cases h1 : n = 1
      · rw [if_pos h1]
        unfold soloTick
        split
        · exact tickPost_keep n s.chain l0 l0 hl0 rfl rfl rfl rfl rfl _ (Or.inl rfl)
        · exact tickPost_keep n s.chain l0 _ hl0 rfl rfl rfl rfl rfl _ (Or.inr (Or.inr rfl))
      · rw [if_neg h1]
        exact leaderTick_inv mp n maxInc env s.chain l0 hn hs hk hl0
  · rw [if_neg hlive]; exact tickPost_keep n s.chain l0 l0 hl0 rfl rfl rfl rfl rfl _ (Or.inl rfl)

/-- the leader's invariant survives every round, whatever the environment does -/
theorem round_LInv (mp : Maps) (n maxInc : Nat) (env : Env) (s : State)
    (hn : 1 ≤ n) (hs : OrderOK mp env) (hk : KeysInRange mp n) (hl : LInv n s.chain s.leader) :
    LInv n (round mp n maxInc env s).chain (round mp n maxInc env s).leader := by
  have hp := leaderOut_post mp n maxInc env s hn hs hk hl
  unfold round
  simp only []
  apply LInv_settle
  exact hp.2.2 _ (applyBlock_txRec ..) (applyBlock_height ..)

theorem run_LInv (mp : Maps) (n maxInc : Nat) (hn : 1 ≤ n) (hs : mp.sorted = true) (hk : KeysInRange mp n) :
    ∀ (envs : List Env) (s : State), LInv n s.chain s.leader →
      LInv n (run mp n maxInc s envs).chain (run mp n maxInc s envs).leader
  | [], _, h => h
  | e :: es, s, h => run_LInv mp n maxInc hn hs hk es _ (round_LInv mp n maxInc e s hn (orderOK_sorted mp e hs) hk h)

/-! ## once the role is visible nothing is sent -/

theorem visible_leaderOut (mp : Maps) (n maxInc : Nat) (env : Env) (s : State) (h : s.chain.roleVisible = true) :
    (leaderOut mp n maxInc env s).2 = .none := by
  unfold leaderOut leaderStep
  simp only [h, if_true]
  split <;> rfl

theorem visible_signerOut (mp : Maps) (n : Nat) (env : Env) (s : State) (j : Nat) (h : s.chain.roleVisible = true) :
    (signerOut mp n env s j).2 = .none := by
  unfold signerOut signerStep
  simp only [h, if_true]
  split <;> rfl

theorem applyBlock_none (mp : Maps) (n : Nat) (env : Env) (c : Chain) (sa : Nat → SAct) (hsa : ∀ j, sa j = .none) :
    (applyBlock mp n env c .none sa).height = c.height + 1 ∧
    (applyBlock mp n env c .none sa).txDom = c.txDom ∧
    (applyBlock mp n env c .none sa).txRec = c.txRec ∧
    (∀ k, (applyBlock mp n env c .none sa).sigDom k = c.sigDom k) ∧
    (∀ k, (applyBlock mp n env c .none sa).sigRec k = c.sigRec k) ∧
    (applyBlock mp n env c .none sa).roleAt = c.roleAt := by
  refine ⟨rfl, by simp [applyBlock], rfl, ?_, ?_, ?_⟩
  · intro k
    simp only [applyBlock]
    split <;> simp [hsa]
  · intro k
    simp only [applyBlock]
    split <;> simp [hsa]
  · cases hr : c.roleAt <;> simp [applyBlock, hr]

/-- a visible role stays visible -/
theorem visible_stays (mp : Maps) (n maxInc : Nat) (env : Env) (s : State) (h : s.chain.roleVisible = true) :
    (round mp n maxInc env s).chain.roleVisible = true := by
  have hl := visible_leaderOut mp n maxInc env s h
  have hsg := fun j => visible_signerOut mp n env s j h
  unfold round
  simp only [hl]
  have := applyBlock_none mp n env s.chain (fun j => (signerOut mp n env s j).2) hsg
  unfold Chain.roleVisible at h ⊢
  rw [this.2.2.2.2.2, this.1]
  split at h
  · rename_i b hb
    simp only [decide_eq_true_eq] at h ⊢
    omega
  · simp at h

/-! ## a lost designation is never repeated -/

theorem generate_tried (maxInc : Nat) (env : Env) (c : Chain) (l : Leader) : (generate maxInc env c l).1.tried = l.tried := rfl

theorem tried_leaderSend (mp : Maps) (n maxInc : Nat) (env : Env) (c : Chain) (d : Shared) (l : Leader) (ht : l.tried = true) :
    (leaderSend mp n maxInc env c d l).1.tried = true ∧
    (∀ d' sc, (leaderSend mp n maxInc env c d l).2 ≠ .designate d' sc) ∧
    (leaderSend mp n maxInc env c d l).2 ≠ .designateSolo := by
  unfold leaderSend
  split
  · simp [ht]
  · simp [ht, generateAct, generate]

theorem tried_leaderMain (mp : Maps) (n maxInc : Nat) (env : Env) (c : Chain) (d : Shared) (l : Leader) (ht : l.tried = true) :
    (leaderMain mp n maxInc env c d l).1.tried = true ∧
    (∀ d' sc, (leaderMain mp n maxInc env c d l).2 ≠ .designate d' sc) ∧
    (leaderMain mp n maxInc env c d l).2 ≠ .designateSolo := by
  unfold leaderMain
  have hl1 : (if l.tx = some d then l else { l with tx := some d, script := [⟨0, d⟩] }).tried = true := by
    split <;> simp [ht]
  generalize (if l.tx = some d then l else { l with tx := some d, script := [⟨0, d⟩] }) = l1 at hl1
  simp only []
  split
  · simp [generateAct, generate, hl1]
  · split
    · simp [hl1]
    · exact tried_leaderSend mp n maxInc env c d _ hl1

/-- once `triedDesignateRoleTx` is set, a tick keeps it set and never sends a designation again -/
theorem tried_leaderTick (mp : Maps) (n maxInc : Nat) (env : Env) (c : Chain) (l : Leader) (ht : l.tried = true) :
    (leaderTick mp n maxInc env c l).1.tried = true ∧
    (∀ d sc, (leaderTick mp n maxInc env c l).2 ≠ .designate d sc) ∧
    (leaderTick mp n maxInc env c l).2 ≠ .designateSolo := by
  unfold leaderTick
  split
  · split <;> simp [ht]
  · split
    · split <;> simp [ht, generateAct, generate]
    · split
      · simp [ht, generateAct, generate]
      · exact tried_leaderMain mp n maxInc env c _ l ht

theorem applyBlock_roleAt_none (mp : Maps) (n : Nat) (env : Env) (c : Chain) (la : LAct) (sa : Nat → SAct)
    (hr : c.roleAt = none) (h1 : ∀ d sc, la ≠ .designate d sc) (h2 : la ≠ .designateSolo) :
    (applyBlock mp n env c la sa).roleAt = none := by
  cases la with
  | designate d sc => exact absurd rfl (h1 d sc)
  | designateSolo => exact absurd rfl h2
  | _ => simp [applyBlock, hr]

theorem roleVisible_of_none (c : Chain) (h : c.roleAt = none) : c.roleVisible = false := by
  simp [Chain.roleVisible, h]

/-- The leader that has sent its designation once and lost it (`tried` set, role not designated) never
sends another one, whatever happens afterwards, unless its process is restarted. -/
theorem tried_round (mp : Maps) (n maxInc : Nat) (env : Env) (s : State) (hn : 2 ≤ n) (hf : env.fresh 0 = false)
    (ht : s.leader.tried = true) (hr : s.chain.roleAt = none) :
    (round mp n maxInc env s).leader.tried = true ∧ (round mp n maxInc env s).chain.roleAt = none := by
  have key : (leaderOut mp n maxInc env s).1.tried = true ∧
      (∀ d sc, (leaderOut mp n maxInc env s).2 ≠ .designate d sc) ∧ (leaderOut mp n maxInc env s).2 ≠ .designateSolo := by
    unfold leaderOut
    simp only [hf, Bool.false_eq_true, if_false]
    split
    · unfold leaderStep
      rw [roleVisible_of_none _ hr]
      simp only [Bool.false_eq_true, if_false]
      rw [if_neg (by omega)]
      exact tried_leaderTick mp n maxInc env s.chain s.leader ht
    · exact ⟨ht, by simp, by simp⟩
  unfold round
  exact ⟨key.1, applyBlock_roleAt_none _ _ _ _ _ _ hr key.2.1 key.2.2⟩

theorem tried_run (mp : Maps) (n maxInc : Nat) (hn : 2 ≤ n) :
    ∀ (envs : List Env) (s : State), (∀ e ∈ envs, e.fresh 0 = false) → s.leader.tried = true → s.chain.roleAt = none →
      (run mp n maxInc s envs).chain.roleAt = none
  | [], _, _, _, hr => hr
  | e :: es, s, hf, ht, hr => by
    have := tried_round mp n maxInc e s hn (hf e (List.mem_cons_self ..)) ht hr
    exact tried_run mp n maxInc hn es _ (fun e' he' => hf e' (List.mem_cons_of_mem _ he')) this.1 this.2

/-! ## signers and the chain -/

theorem signerPublish_setRec (mp : Maps) (j : Nat) (c : Chain) (d : Shared) (s1 : Signer) (r : SigRec)
    (h : (signerPublish mp j c d s1).2 = .setRec r) : r = signRec j d := by
  unfold signerPublish at h
  repeat' split at h
  all_goals first | (simp at h; done) | (simp only [SAct.setRec.injEq] at h; exact h.symm)

/-- a signer only ever publishes its own signature of the transaction built from the shared data on chain -/
theorem signerTick_setRec (mp : Maps) (j : Nat) (c : Chain) (s : Signer) (r : SigRec)
    (h : (signerTick mp j c s).2 = .setRec r) : ∃ d, c.txRec = some d ∧ r = signRec j d := by
  unfold signerTick at h
  split at h
  · simp at h
  · split at h
    · simp at h
    · rename_i d hd
      split at h
      · simp at h
      · exact ⟨d, hd, signerPublish_setRec mp j c d _ r h⟩

theorem signerOut_setRec (mp : Maps) (n : Nat) (env : Env) (s : State) (j : Nat) (r : SigRec)
    (h : (signerOut mp n env s j).2 = .setRec r) :
    env.live j = true ∧ 1 ≤ j ∧ j < n ∧ ∃ d, s.chain.txRec = some d ∧ r = signRec j d := by
  unfold signerOut at h
  simp only [] at h
  split at h
  · rename_i hl
    unfold signerStep at h
    split at h
    · simp at h
    · exact ⟨hl.1, hl.2.1, hl.2.2, signerTick_setRec mp j _ _ r h⟩
  · simp at h

/-- every signature record on chain was written by the member that owns the domain, a member of `S`,
and is that member's signature of some shared data -/
def ChainInv (mp : Maps) (n : Nat) (S : Nat → Bool) (c : Chain) : Prop :=
  ∀ k r, c.sigRec k = some r → ∃ j d', writerOf mp n k = some j ∧ S j = true ∧ r = signRec j d'

theorem ChainInv_fresh (mp : Maps) (n : Nat) (S : Nat → Bool) (h : Nat) : ChainInv mp n S (Chain.fresh h) := by
  intro k r hr; simp [Chain.fresh] at hr

theorem round_ChainInv (mp : Maps) (n maxInc : Nat) (S : Nat → Bool) (env : Env) (s : State)
    (hS : ∀ j, env.live j = true → S j = true) (hc : ChainInv mp n S s.chain) :
    ChainInv mp n S (round mp n maxInc env s).chain := by
  intro k r hr
  unfold round at hr
  simp only [applyBlock] at hr
  split at hr
  · rename_i j hw
    split at hr
    · rename_i r' hsa
      simp only [Option.some.injEq] at hr
      subst hr
      obtain ⟨hl, _, _, d, _, rfl⟩ := signerOut_setRec mp n env s j r' hsa
      exact ⟨j, d, hw, hS j hl, rfl⟩
    · exact hc k r hr
  · exact hc k r hr

/-! ## too few collectible signers: the bootstrap never completes -/

/-- loop index `i` can ever yield a valid signature: the domain the leader reads there is the one
member `i + keyOff` writes, and that member belongs to the live set -/
def validIdx (mp : Maps) (n : Nat) (S : Nat → Bool) (i : Nat) : Bool :=
  decide (writerOf mp n (i + mp.domOff) = some (i + mp.keyOff)) && S (i + mp.keyOff)

/-- number of signers of `S` whose signature the leader can collect -/
def collectible (mp : Maps) (n : Nat) (S : Nat → Bool) : Nat := (loopIndices mp n).countP (validIdx mp n S)

theorem validIdx_of_validB (mp : Maps) (n : Nat) (S : Nat → Bool) (c : Chain) (d : Shared) (i : Nat)
    (hc : ChainInv mp n S c) (hv : validB mp c d i = true) : validIdx mp n S i = true := by
  unfold validB at hv
  split at hv
  · rename_i r hr
    simp only [decide_eq_true_eq] at hv
    obtain ⟨j, d', hw, hS, rfl⟩ := hc _ r hr
    simp only [signRec] at hv
    have : j = i + mp.keyOff := hv.2.1
    subst this
    simp [validIdx, hw, hS]
  · simp at hv

theorem collect_asc (mp : Maps) (n need : Nat) (c : Chain) (d : Shared) :
    ∀ (is : List Nat) (m : List (Nat × Sig)) (inv : Nat) (m' : List (Nat × Sig)),
      Asc m → collect mp n need c d is m inv = .sigs m' → Asc m'
  | [], m, inv, m', ha, h => by
    simp only [collect, Collected.sigs.injEq] at h; subst h; exact ha
  | i :: is, m, inv, m', ha, h => by
    simp only [collect] at h
    split at h
    · exact collect_asc mp n need c d is m inv m' ha h
    · split at h
      · exact collect_asc mp n need c d is m inv m' ha h
      · split at h
        · split at h
          · simp at h
          · exact collect_asc mp n need c d is m (inv + 1) m' ha h
        · split at h
          · simp only [Collected.sigs.injEq] at h; subst h; exact asc_insertSig _ _ m ha
          · exact collect_asc mp n need c d is _ inv m' (asc_insertSig _ _ m ha) h

/-- the leader's map only holds keys of collectible signers -/
def KInv (mp : Maps) (n : Nat) (S : Nat → Bool) (l : Leader) : Prop :=
  Asc l.sigs ∧ ∀ x ∈ keys l.sigs, ∃ i ∈ loopIndices mp n, validIdx mp n S i = true ∧ x = i + mp.keyOff

theorem KInv_length (mp : Maps) (n : Nat) (S : Nat → Bool) (l : Leader) (h : KInv mp n S l) :
    l.sigs.length ≤ collectible mp n S := by
  have := length_le_of_keys_subset l.sigs (((loopIndices mp n).filter (validIdx mp n S)).map (· + mp.keyOff)) h.1 (by
    intro x hx
    obtain ⟨i, hi, hv, rfl⟩ := h.2 x hx
    simp only [List.mem_map, List.mem_filter]
    exact ⟨i, ⟨hi, hv⟩, rfl⟩)
  simpa [collectible, List.countP_eq_length_filter] using this

theorem KInv_nil (mp : Maps) (n : Nat) (S : Nat → Bool) (l : Leader) (h : l.sigs = []) : KInv mp n S l := by
  simp [KInv, h, Asc, keys]

/-- what one tick does when too few signers are collectible: no designation, the invariant stays -/
def NoDesignate (a : LAct) : Prop :=
  (∀ d sc, a ≠ .designate d sc) ∧ (∀ d sc nx, a ≠ .designateRefused d sc nx) ∧ a ≠ .designateSolo

theorem leaderMain_insufficient (mp : Maps) (n maxInc : Nat) (S : Nat → Bool) (env : Env) (c : Chain) (d : Shared) (l : Leader)
    (hc : ChainInv mp n S c) (hk : KInv mp n S l) (hcnt : collectible mp n S < majority n - 1) :
    NoDesignate (leaderMain mp n maxInc env c d l).2 ∧ KInv mp n S (leaderMain mp n maxInc env c d l).1 := by
  unfold leaderMain
  have hl1 : KInv mp n S (if l.tx = some d then l else { l with tx := some d, script := [⟨0, d⟩] }) := by
    split
    · exact hk
    · exact hk
  generalize (if l.tx = some d then l else { l with tx := some d, script := [⟨0, d⟩] }) = l1 at hl1
  have hlen := KInv_length mp n S l1 hl1
  simp only []
  rw [if_pos (by omega)]
  cases hcol : collect mp n (majority n - 1) c d (loopIndices mp n) l1.sigs 0 with
  | regenerate =>
    simp only []
    exact ⟨⟨by simp [generateAct], by simp [generateAct], by simp [generateAct]⟩, KInv_nil _ _ _ _ rfl⟩
  | sigs m =>
    simp only []
    have hm : KInv mp n S { l1 with sigs := m } := by
      refine ⟨collect_asc mp n _ c d _ _ _ m hl1.1 hcol, ?_⟩
      intro x hx
      rcases collect_only_valid mp n _ c d _ _ _ m hcol x hx with h | ⟨i, hi, hv, rfl⟩
      · exact hl1.2 x h
      · exact ⟨i, hi, validIdx_of_validB mp n S c d i hc hv, rfl⟩
    have hmlen := KInv_length mp n S _ hm
    rw [if_pos (by show m.length < majority n - 1; have : m.length ≤ collectible mp n S := hmlen; omega)]
    exact ⟨⟨by simp, by simp, by simp⟩, hm⟩

theorem leaderTick_insufficient (mp : Maps) (n maxInc : Nat) (S : Nat → Bool) (env : Env) (c : Chain) (l : Leader)
    (hc : ChainInv mp n S c) (hk : KInv mp n S l) (hcnt : collectible mp n S < majority n - 1) :
    NoDesignate (leaderTick mp n maxInc env c l).2 ∧ KInv mp n S (leaderTick mp n maxInc env c l).1 := by
  unfold leaderTick
  split
  · split
    · exact ⟨⟨by simp, by simp, by simp⟩, hk⟩
    · exact ⟨⟨by simp, by simp, by simp⟩, hk⟩
  · split
    · split
      · exact ⟨⟨by simp, by simp, by simp⟩, hk⟩
      · exact ⟨⟨by simp [generateAct], by simp [generateAct], by simp [generateAct]⟩, KInv_nil _ _ _ _ rfl⟩
    · split
      · exact ⟨⟨by simp [generateAct], by simp [generateAct], by simp [generateAct]⟩, KInv_nil _ _ _ _ rfl⟩
      · exact leaderMain_insufficient mp n maxInc S env c _ l hc hk hcnt

/-- one round with too few collectible signers (committee of at least two) -/
theorem round_insufficient (mp : Maps) (n maxInc : Nat) (S : Nat → Bool) (env : Env) (s : State) (hn : 2 ≤ n)
    (hS : ∀ j, env.live j = true → S j = true) (hcnt : collectible mp n S < majority n - 1)
    (hc : ChainInv mp n S s.chain) (hk : KInv mp n S s.leader) (hr : s.chain.roleAt = none) :
    ChainInv mp n S (round mp n maxInc env s).chain ∧ KInv mp n S (round mp n maxInc env s).leader ∧
    (round mp n maxInc env s).chain.roleAt = none := by
  have key : NoDesignate (leaderOut mp n maxInc env s).2 ∧ KInv mp n S (leaderOut mp n maxInc env s).1 := by
    unfold leaderOut
    have hl0 : KInv mp n S (if env.fresh 0 = true then Leader.init else s.leader) := by
      split
      · exact KInv_nil _ _ _ _ rfl
      · exact hk
    generalize (if env.fresh 0 = true then Leader.init else s.leader) = l0 at hl0
    simp only []
    split
    · unfold leaderStep
      rw [roleVisible_of_none _ hr]
      simp only [Bool.false_eq_true, if_false]
      rw [if_neg (by omega)]
      exact leaderTick_insufficient mp n maxInc S env s.chain l0 hc hl0 hcnt
    · exact ⟨⟨by simp, by simp, by simp⟩, hl0⟩
  refine ⟨round_ChainInv mp n maxInc S env s hS hc, ?_, ?_⟩
  · unfold round
    exact key.2
  · unfold round
    exact applyBlock_roleAt_none _ _ _ _ _ _ hr key.1.1 key.1.2.2

theorem run_insufficient (mp : Maps) (n maxInc : Nat) (S : Nat → Bool) (hn : 2 ≤ n)
    (hcnt : collectible mp n S < majority n - 1) :
    ∀ (envs : List Env) (s : State), (∀ e ∈ envs, ∀ j, e.live j = true → S j = true) →
      ChainInv mp n S s.chain → KInv mp n S s.leader → s.chain.roleAt = none →
      (run mp n maxInc s envs).chain.roleAt = none
  | [], _, _, _, _, hr => hr
  | e :: es, s, hS, hc, hk, hr => by
    have := round_insufficient mp n maxInc S e s hn (hS e (List.mem_cons_self ..)) hcnt hc hk hr
    exact run_insufficient mp n maxInc S hn hcnt es _ (fun e' he' => hS e' (List.mem_cons_of_mem _ he')) this.1 this.2.1 this.2.2

end NeoFS.NotaryBootstrap
