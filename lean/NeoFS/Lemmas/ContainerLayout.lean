import NeoFS.Model.Container
set_option linter.unusedSimpArgs false
set_option linter.unusedVariables false
/-! Layout of the Container contract's storage keys: the byte encodings of the key families never meet, and
the `storage.Find` prefixes used by the C04 read API select exactly their own family. This is what makes the
typed-family view of `NeoFS/Model/Container.lean` faithful. The one overlap that does exist (placement
methods, prefix `n`‖cid, against the `nnsHasAlias…`/`nns…`/`netmap…` keys) is stated exactly. -/
namespace NeoFS.Container
open NeoFS

theorem lenArg {a b : Bytes} (h : a = b) : a.length = b.length := congrArg _ h

/-- bridge: the regenerated prefixes are the literals of the source (`'x' 'o' 'd' 'm' 'n' 'r' 'u'`, "eACL",
"nnsHasAlias", "est", "cnr") -/
theorem prefixes_are_literals :
    (Generated.container_containerKeyPrefix_bytes.headD 0) = 120 ∧ (Generated.container_ownerKeyPrefix_bytes.headD 0) = 111 ∧
    (Generated.container_deletedKeyPrefix_bytes.headD 0) = 100 ∧ (Generated.container_containersWithMetaPrefix_bytes.headD 0) = 109 ∧
    (Generated.container_nodesPrefix_bytes.headD 0) = 110 ∧ (Generated.container_replicasNumberPrefix_bytes.headD 0) = 114 ∧
    (Generated.container_nextEpochNodesPrefix_bytes.headD 0) = 117 ∧
    Generated.container_eACLPrefix = [101, 65, 67, 76] ∧
    Generated.container_nnsHasAliasKey_bytes = [110, 110, 115, 72, 97, 115, 65, 108, 105, 97, 115] ∧
    Generated.container_singleEstimatePrefix_bytes = [101, 115, 116] ∧
    Generated.container_estimateKeyPrefix_bytes = [99, 110, 114] := by decide

/-- **families_disjoint**: well-formed keys (32-byte ids, 25-byte owners) of the sixteen key families have
pairwise different byte encodings, and inside a family the encoding determines the id / owner. Hence
`storage.Get/Put/Delete` on one family never touches another one. -/
theorem families_disjoint (k1 k2 : Key) (h1 : k1.WF) (h2 : k2.WF) (h : k1.enc = k2.enc) : k1 = k2 := by
  cases k1 <;> cases k2 <;>
    simp [Key.enc, Key.WF, byteOf, Generated.container_containerKeyPrefix_bytes, Generated.container_ownerKeyPrefix_bytes,
      Generated.container_deletedKeyPrefix_bytes, Generated.container_containersWithMetaPrefix_bytes, Generated.container_eACLPrefix,
      Generated.container_nnsHasAliasKey_bytes, Generated.container_neofsIDContractKey_bytes,
      Generated.container_balanceContractKey_bytes, Generated.container_netmapContractKey_bytes,
      Generated.container_nnsContractKey_bytes, Generated.container_nnsRootKey_bytes, Generated.container_nodesPrefix_bytes,
      Generated.container_replicasNumberPrefix_bytes, Generated.container_nextEpochNodesPrefix_bytes,
      Generated.container_singleEstimatePrefix_bytes, Generated.container_estimateKeyPrefix_bytes] at h1 h2 h ⊢ <;>
    first
      | exact h
      | (have := lenArg h; simp at this; omega)
      | exact List.append_inj h (by omega)

/-- `storage.Find('x')` (`Count`, `getAllContainers`) iterates over family `x` only (no length assumption) -/
theorem find_x_exact (k : Key) (h : [(Generated.container_containerKeyPrefix_bytes.headD 0)] <+: k.enc) : ∃ cid, k = .x cid := by
  cases k <;>
    simp [Key.enc, byteOf, Generated.container_containerKeyPrefix_bytes, Generated.container_ownerKeyPrefix_bytes,
      Generated.container_deletedKeyPrefix_bytes, Generated.container_containersWithMetaPrefix_bytes, Generated.container_eACLPrefix,
      Generated.container_nnsHasAliasKey_bytes, Generated.container_neofsIDContractKey_bytes,
      Generated.container_balanceContractKey_bytes, Generated.container_netmapContractKey_bytes,
      Generated.container_nnsContractKey_bytes, Generated.container_nnsRootKey_bytes, Generated.container_nodesPrefix_bytes,
      Generated.container_replicasNumberPrefix_bytes, Generated.container_nextEpochNodesPrefix_bytes,
      Generated.container_singleEstimatePrefix_bytes, Generated.container_estimateKeyPrefix_bytes,
      List.cons_prefix_cons] at h ⊢

/-- `storage.Find('o' ‖ arg)` (`List`, `ContainersOf`) iterates over family `o` only, and `arg` is matched
against `owner ‖ cid` (no length assumption) -/
theorem find_o_exact (k : Key) (arg : Bytes) (h : ((Generated.container_ownerKeyPrefix_bytes.headD 0) :: arg) <+: k.enc) :
    ∃ ow cid, k = .o ow cid ∧ arg <+: ow ++ cid := by
  cases k <;>
    simp [Key.enc, byteOf, Generated.container_containerKeyPrefix_bytes, Generated.container_ownerKeyPrefix_bytes,
      Generated.container_deletedKeyPrefix_bytes, Generated.container_containersWithMetaPrefix_bytes, Generated.container_eACLPrefix,
      Generated.container_nnsHasAliasKey_bytes, Generated.container_neofsIDContractKey_bytes,
      Generated.container_balanceContractKey_bytes, Generated.container_netmapContractKey_bytes,
      Generated.container_nnsContractKey_bytes, Generated.container_nnsRootKey_bytes, Generated.container_nodesPrefix_bytes,
      Generated.container_replicasNumberPrefix_bytes, Generated.container_nextEpochNodesPrefix_bytes,
      Generated.container_singleEstimatePrefix_bytes, Generated.container_estimateKeyPrefix_bytes,
      List.cons_prefix_cons] at h ⊢
  exact ⟨_, _, ⟨rfl, rfl⟩, h⟩

/-- a 25-byte owner as `Find` argument selects exactly the entries of that owner -/
theorem find_o_owner (ow ow' cid : Bytes) (h1 : ow.length = 25) (h2 : ow'.length = 25) :
    ow <+: ow' ++ cid ↔ ow = ow' := by
  constructor
  · rintro ⟨t, ht⟩; exact (List.append_inj ht (by omega)).1
  · rintro rfl; exact List.prefix_append _ _

/-- ids that begin with "nsHasAlias" -/
def aliasLike (cid : Bytes) : Prop := [110, 115, 72, 97, 115, 65, 108, 105, 97, 115] <+: cid

/-- The known exception (DESIGN.md section 7, C04): the placement methods iterate with the prefix
`'n' ‖ cid ‖ …`; for an id that begins with "nsHasAlias" this prefix also matches alias keys … -/
theorem aliasLike_overlap : ∃ cid cid' : Bytes, cid.length = 32 ∧ cid'.length = 32 ∧ aliasLike cid ∧
    ((Generated.container_nodesPrefix_bytes.headD 0) :: cid ++ [0]) <+: (Key.alias cid').enc := by
  refine ⟨[110, 115, 72, 97, 115, 65, 108, 105, 97, 115] ++ List.replicate 22 0, List.replicate 32 0, by decide, by decide,
    ⟨List.replicate 22 0, rfl⟩, ⟨List.replicate 9 0, by decide⟩⟩

/-- … and for every other 32-byte id the prefix `'n' ‖ cid` selects family `nodes` only. -/
theorem find_nodes_exact (cid : Bytes) (hc : cid.length = 32) (hna : ¬ aliasLike cid) (k : Key) (hk : k.WF)
    (h : ((Generated.container_nodesPrefix_bytes.headD 0) :: cid) <+: k.enc) : ∃ rest, k = .nodes rest := by
  have hlen := List.IsPrefix.length_le h
  cases k <;>
    simp [Key.enc, Key.WF, byteOf, Generated.container_containerKeyPrefix_bytes, Generated.container_ownerKeyPrefix_bytes,
      Generated.container_deletedKeyPrefix_bytes, Generated.container_containersWithMetaPrefix_bytes, Generated.container_eACLPrefix,
      Generated.container_nnsHasAliasKey_bytes, Generated.container_neofsIDContractKey_bytes,
      Generated.container_balanceContractKey_bytes, Generated.container_netmapContractKey_bytes,
      Generated.container_nnsContractKey_bytes, Generated.container_nnsRootKey_bytes, Generated.container_nodesPrefix_bytes,
      Generated.container_replicasNumberPrefix_bytes, Generated.container_nextEpochNodesPrefix_bytes,
      Generated.container_singleEstimatePrefix_bytes, Generated.container_estimateKeyPrefix_bytes,
      List.cons_prefix_cons] at h hk hlen ⊢ <;>
    first
      | omega
      | skip
  -- alias key: 'n' ‖ cid is a prefix of "nnsHasAlias" ‖ cid' only if cid begins with "nsHasAlias"
  rename_i cid'
  apply hna
  unfold aliasLike
  have h2 : [110, 115, 72, 97, 115, 65, 108, 105, 97, 115] <+: [110, 115, 72, 97, 115, 65, 108, 105, 97, 115] ++ cid' :=
    List.prefix_append _ _
  exact List.prefix_of_prefix_length_le h2 h (by simp; omega)

end NeoFS.Container
