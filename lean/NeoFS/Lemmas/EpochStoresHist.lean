import NeoFS.Lemmas.EpochStoresStep
set_option linter.unusedSimpArgs false
set_option linter.unusedVariables false
/-! NeoFSID and configuration maps over histories (C20): refinement to the typed maps
`owner ↦ key set` and `configuration key ↦ value`. -/
namespace NeoFS.EpochStores
open NeoFS

/-! ### NeoFSID -/

/-- owner ↦ set of bound keys, in the property's vocabulary -/
abbrev FsidSpec := Bytes → Bytes → Prop

def fsidSpecEntry (A : FsidSpec) (s : State) (env : Env) (op : Op) : FsidSpec :=
  match op with
  | .iadd o ks => if (step s env op).isSome then (fun o' k => A o' k ∨ (o' = o ∧ k ∈ ks)) else A
  | .irm o ks => if (step s env op).isSome then (fun o' k => A o' k ∧ ¬ (o' = o ∧ k ∈ ks)) else A
  | _ => A

/-- the owner ↦ keys map after a history: accepted `addKey` adds, accepted `removeKey` removes -/
def fsidSpec (s : State) : List (Env × Op) → FsidSpec → FsidSpec
  | [], A => A
  | (env, op) :: rest, A => fsidSpec (invoke s env op).1 rest (fsidSpecEntry A s env op)

def FsidR (s : Store Bytes) (A : FsidSpec) : Prop :=
  FsidWF s ∧ ∀ o k, o.length = 25 → (k ∈ keysOf s o ↔ A o k)

theorem fsidR_init : FsidR [] (fun _ _ => False) := by
  refine ⟨⟨uniq_nil, fun kv h => (by cases h)⟩, ?_⟩
  intro o k ho
  rw [mem_keysOf [] ⟨uniq_nil, fun kv h => (by cases h)⟩ o k ho]
  simp [get]

theorem fsidSpecEntry_fault (A : FsidSpec) (s : State) (env : Env) (op : Op) (h : step s env op = none) :
    fsidSpecEntry A s env op = A := by
  unfold fsidSpecEntry; cases op <;> simp [h]

theorem fsidR_step (s s' : State) (A : FsidSpec) (env : Env) (op : Op) (r : Ret) (ev : List Event)
    (hr : FsidR s.fsid A) (h : step s env op = some (s', r, ev)) : FsidR s'.fsid (fsidSpecEntry A s env op) := by
  have hsome : (step s env op).isSome = true := by rw [h]; rfl
  obtain ⟨hwf, hA⟩ := hr
  rcases step_fsid' s s' env op r ev h with ⟨o, ks, rfl, hp⟩ | ⟨o, ks, rfl, hp⟩ | ⟨h1, h2, h3⟩
  · obtain ⟨_, ho, hks, hwf', hget⟩ := fsidAdd_spec _ _ _ _ _ hwf hp
    refine ⟨hwf', ?_⟩
    intro o' k ho'
    have : fsidSpecEntry A s env (.iadd o ks) = (fun o' k => A o' k ∨ (o' = o ∧ k ∈ ks)) := by
      unfold fsidSpecEntry; simp only [hsome, if_true]
    rw [this, mem_keysOf _ hwf' o' k ho', hget]
    dsimp only
    rw [← hA o' k ho', mem_keysOf _ hwf o' k ho']
    by_cases hc : ∃ k0 ∈ ks, fsidKeyOf o k0 = fsidKeyOf o' k
    · obtain ⟨k0, hk0, e⟩ := hc
      obtain ⟨rfl, rfl⟩ := fsidKeyOf_inj o o' k0 k (by omega) e
      have : ∃ k1 ∈ ks, fsidKeyOf o k1 = fsidKeyOf o k0 := ⟨k0, hk0, rfl⟩
      rw [if_pos this]
      constructor
      · intro _; right; exact ⟨rfl, hk0⟩
      · intro _; exact ⟨hks k0 hk0, by simp⟩
    · rw [if_neg hc]
      constructor
      · intro hh; left; exact hh
      · rintro (hh | ⟨rfl, hk⟩)
        · exact hh
        · exact absurd ⟨k, hk, rfl⟩ hc
  · obtain ⟨_, ho, hks, hwf', hget⟩ := fsidRemove_spec _ _ _ _ _ hwf hp
    refine ⟨hwf', ?_⟩
    intro o' k ho'
    have : fsidSpecEntry A s env (.irm o ks) = (fun o' k => A o' k ∧ ¬ (o' = o ∧ k ∈ ks)) := by
      unfold fsidSpecEntry; simp only [hsome, if_true]
    rw [this, mem_keysOf _ hwf' o' k ho', hget]
    dsimp only
    rw [← hA o' k ho', mem_keysOf _ hwf o' k ho']
    by_cases hc : ∃ k0 ∈ ks, fsidKeyOf o k0 = fsidKeyOf o' k
    · obtain ⟨k0, hk0, e⟩ := hc
      obtain ⟨rfl, rfl⟩ := fsidKeyOf_inj o o' k0 k (by omega) e
      have : ∃ k1 ∈ ks, fsidKeyOf o k1 = fsidKeyOf o k0 := ⟨k0, hk0, rfl⟩
      rw [if_pos this]
      constructor
      · intro hh; exact absurd rfl hh.2
      · intro hh; exact absurd ⟨rfl, hk0⟩ hh.2
    · rw [if_neg hc]
      constructor
      · intro hh; refine ⟨hh, ?_⟩
        rintro ⟨rfl, hk⟩
        exact hc ⟨k, hk, rfl⟩
      · intro hh; exact hh.1
  · have : fsidSpecEntry A s env op = A := by
      unfold fsidSpecEntry
      cases op <;> first | rfl | (exfalso; exact h1 _ _ rfl) | (exfalso; exact h2 _ _ rfl)
    rw [this, h3]
    exact ⟨hwf, hA⟩

theorem fsidR_run (hist : List (Env × Op)) (s : State) (A : FsidSpec) (hr : FsidR s.fsid A) :
    FsidR (run s hist).fsid (fsidSpec s hist A) := by
  induction hist generalizing s A with
  | nil => simpa [run, fsidSpec] using hr
  | cons x rest ih =>
    obtain ⟨env, op⟩ := x
    simp only [run, fsidSpec]
    apply ih
    cases hs : step s env op with
    | none => rw [invoke_fault s env op hs, fsidSpecEntry_fault A s env op hs]; exact hr
    | some res =>
      obtain ⟨s', r, ev⟩ := res
      rw [invoke_halt s s' env op r ev hs]
      exact fsidR_step s s' A env op r ev hr hs

/-! ### configuration maps -/

abbrev CfgSpec := Bytes → Option Bytes

def ncfgSpecEntry (A : CfgSpec) (s : State) (env : Env) (op : Op) : CfgSpec :=
  match op with
  | .nset k v => if (step s env op).isSome then (fun k' => if k' = k then some v else A k') else A
  | _ => A

def fcfgSpecEntry (A : CfgSpec) (s : State) (env : Env) (op : Op) : CfgSpec :=
  match op with
  | .fset _ k v => if (step s env op).isSome then (fun k' => if k' = k then some v else A k') else A
  | _ => A

/-- the Netmap configuration after a history: the last accepted `setConfig` of every key -/
def ncfgSpec (s : State) : List (Env × Op) → CfgSpec → CfgSpec
  | [], A => A
  | (env, op) :: rest, A => ncfgSpec (invoke s env op).1 rest (ncfgSpecEntry A s env op)

/-- the NeoFS (main chain contract) configuration after a history -/
def fcfgSpec (s : State) : List (Env × Op) → CfgSpec → CfgSpec
  | [], A => A
  | (env, op) :: rest, A => fcfgSpec (invoke s env op).1 rest (fcfgSpecEntry A s env op)

def CfgR (p : Bytes) (s : Store Bytes) (A : CfgSpec) : Prop := CfgWF p s ∧ ∀ k, cfgGet p s k = A k

theorem cfgR_init (p : Bytes) : CfgR p [] (fun _ => none) :=
  ⟨⟨uniq_nil, fun kv h => (by cases h)⟩, fun k => (by simp [cfgGet, get])⟩

theorem ncfgSpecEntry_fault (A : CfgSpec) (s : State) (env : Env) (op : Op) (h : step s env op = none) :
    ncfgSpecEntry A s env op = A := by
  unfold ncfgSpecEntry; cases op <;> simp [h]

theorem fcfgSpecEntry_fault (A : CfgSpec) (s : State) (env : Env) (op : Op) (h : step s env op = none) :
    fcfgSpecEntry A s env op = A := by
  unfold fcfgSpecEntry; cases op <;> simp [h]

theorem ncfgR_step (s s' : State) (A : CfgSpec) (env : Env) (op : Op) (r : Ret) (ev : List Event)
    (hr : CfgR cfgP s.nmc A) (h : step s env op = some (s', r, ev)) :
    CfgR cfgP s'.nmc (ncfgSpecEntry A s env op) := by
  have hsome : (step s env op).isSome = true := by rw [h]; rfl
  obtain ⟨hwf, hA⟩ := hr
  rcases step_nmc' s s' env op r ev h with ⟨k, v, rfl, hp⟩ | ⟨h1, h3⟩
  · obtain ⟨_, hwf', hget⟩ := cfgSet_spec _ _ _ _ _ _ hwf hp
    refine ⟨hwf', ?_⟩
    intro k'
    have : ncfgSpecEntry A s env (.nset k v) = (fun k' => if k' = k then some v else A k') := by
      unfold ncfgSpecEntry; simp only [hsome, if_true]
    rw [this, hget, hA]
  · have : ncfgSpecEntry A s env op = A := by
      unfold ncfgSpecEntry
      cases op <;> first | rfl | (exfalso; exact h1 _ _ rfl)
    rw [this, h3]
    exact ⟨hwf, hA⟩

theorem fcfgR_step (s s' : State) (A : CfgSpec) (env : Env) (op : Op) (r : Ret) (ev : List Event)
    (hr : CfgR cfgPF s.fsc A) (h : step s env op = some (s', r, ev)) :
    CfgR cfgPF s'.fsc (fcfgSpecEntry A s env op) := by
  have hsome : (step s env op).isSome = true := by rw [h]; rfl
  obtain ⟨hwf, hA⟩ := hr
  rcases step_fsc' s s' env op r ev h with ⟨id, k, v, rfl, hp, _⟩ | ⟨h1, h3, _⟩
  · obtain ⟨_, hwf', hget⟩ := cfgSet_spec _ _ _ _ _ _ hwf hp
    refine ⟨hwf', ?_⟩
    intro k'
    have : fcfgSpecEntry A s env (.fset id k v) = (fun k' => if k' = k then some v else A k') := by
      unfold fcfgSpecEntry; simp only [hsome, if_true]
    rw [this, hget, hA]
  · have : fcfgSpecEntry A s env op = A := by
      unfold fcfgSpecEntry
      cases op <;> first | rfl | (exfalso; exact h1 _ _ _ rfl)
    rw [this, h3]
    exact ⟨hwf, hA⟩

theorem ncfgR_run (hist : List (Env × Op)) (s : State) (A : CfgSpec) (hr : CfgR cfgP s.nmc A) :
    CfgR cfgP (run s hist).nmc (ncfgSpec s hist A) := by
  induction hist generalizing s A with
  | nil => simpa [run, ncfgSpec] using hr
  | cons x rest ih =>
    obtain ⟨env, op⟩ := x
    simp only [run, ncfgSpec]
    apply ih
    cases hs : step s env op with
    | none => rw [invoke_fault s env op hs, ncfgSpecEntry_fault A s env op hs]; exact hr
    | some res =>
      obtain ⟨s', r, ev⟩ := res
      rw [invoke_halt s s' env op r ev hs]
      exact ncfgR_step s s' A env op r ev hr hs

theorem fcfgR_run (hist : List (Env × Op)) (s : State) (A : CfgSpec) (hr : CfgR cfgPF s.fsc A) :
    CfgR cfgPF (run s hist).fsc (fcfgSpec s hist A) := by
  induction hist generalizing s A with
  | nil => simpa [run, fcfgSpec] using hr
  | cons x rest ih =>
    obtain ⟨env, op⟩ := x
    simp only [run, fcfgSpec]
    apply ih
    cases hs : step s env op with
    | none => rw [invoke_fault s env op hs, fcfgSpecEntry_fault A s env op hs]; exact hr
    | some res =>
      obtain ⟨s', r, ev⟩ := res
      rw [invoke_halt s s' env op r ev hs]
      exact fcfgR_step s s' A env op r ev hr hs

end NeoFS.EpochStores
