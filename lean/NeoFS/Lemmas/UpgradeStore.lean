import NeoFS.Model.UpgradeStore
/-! Lemmas about the byte-keyed storage of the upgrade model: `get`/`put`/`del`, the uniqueness
invariant, the iteration snapshot, and the generic "rename while iterating a snapshot" fold that the
Balance and Container migrations instantiate. -/
namespace NeoFS.Upgrade
open NeoFS

/-! ### get / put / del -/

theorem get_cons (k v : Bytes) (r : Store) (q : Bytes) :
    get ((k, v) :: r) q = if k = q then some v else get r q := rfl

theorem del_cons (kv : Bytes × Bytes) (r : Store) (q : Bytes) :
    del (kv :: r) q = if kv.1 ≠ q then kv :: del r q else del r q := by
  unfold del
  by_cases h : kv.1 = q <;> simp [h]

theorem get_del_self (s : Store) (q : Bytes) : get (del s q) q = none := by
  induction s with
  | nil => rfl
  | cons kv r ih =>
    rw [del_cons]
    by_cases h : kv.1 = q
    · simp [h, ih]
    · simp only [ne_eq, h, not_false_eq_true, if_true]
      obtain ⟨k, v⟩ := kv
      rw [get_cons]; simp only at h; simp [h, ih]

theorem get_del_other (s : Store) (q k : Bytes) (h : k ≠ q) : get (del s q) k = get s k := by
  induction s with
  | nil => rfl
  | cons kv r ih =>
    obtain ⟨k0, v0⟩ := kv
    rw [del_cons]
    by_cases h0 : k0 = q
    · simp only [ne_eq, h0, not_true_eq_false, if_false, get_cons]
      have : ¬ q = k := fun e => h e.symm
      simp [this, ih]
    · simp only [ne_eq, h0, not_false_eq_true, if_true, get_cons, ih]

theorem get_put_self (s : Store) (k v : Bytes) : get (put s k v) k = some v := by
  simp [put, get_cons]

theorem get_put_other (s : Store) (k v q : Bytes) (h : q ≠ k) : get (put s k v) q = get s q := by
  have : ¬ k = q := fun e => h e.symm
  simp [put, get_cons, this, get_del_other s k q h]

theorem get_some_mem {s : Store} {k v : Bytes} (h : get s k = some v) : (k, v) ∈ s := by
  induction s with
  | nil => simp [get] at h
  | cons kv r ih =>
    obtain ⟨k0, v0⟩ := kv
    rw [get_cons] at h
    by_cases h0 : k0 = k
    · simp only [h0, if_true, Option.some.injEq] at h
      simp [h0, h]
    · simp only [h0, if_false] at h
      exact List.mem_cons_of_mem _ (ih h)

theorem get_none_of_not_mem {s : Store} {k : Bytes} (h : k ∉ keys s) : get s k = none := by
  induction s with
  | nil => rfl
  | cons kv r ih =>
    obtain ⟨k0, v0⟩ := kv
    simp only [keys, List.map_cons, List.mem_cons, not_or] at h
    rw [get_cons]
    have : ¬ k0 = k := fun e => h.1 e.symm
    simp only [this, if_false]
    exact ih h.2

theorem mem_keys_of_get {s : Store} {k v : Bytes} (h : get s k = some v) : k ∈ keys s :=
  List.mem_map.mpr ⟨(k, v), get_some_mem h, rfl⟩

theorem get_isSome_of_mem_keys {s : Store} {k : Bytes} (h : k ∈ keys s) : ∃ v, get s k = some v := by
  induction s with
  | nil => simp [keys] at h
  | cons kv r ih =>
    obtain ⟨k0, v0⟩ := kv
    rw [get_cons]
    by_cases h0 : k0 = k
    · exact ⟨v0, by simp [h0]⟩
    · simp only [h0, if_false]
      simp only [keys, List.map_cons, List.mem_cons] at h
      rcases h with h | h
      · exact absurd h.symm h0
      · exact ih h

theorem get_of_mem {s : Store} (hn : NodupKeys s) {k v : Bytes} (h : (k, v) ∈ s) : get s k = some v := by
  induction s with
  | nil => simp at h
  | cons kv r ih =>
    obtain ⟨k0, v0⟩ := kv
    simp only [NodupKeys, keys, List.map_cons, List.nodup_cons] at hn
    rw [get_cons]
    simp only [List.mem_cons, Prod.mk.injEq] at h
    rcases h with ⟨hk, hv⟩ | h
    · simp [hk, hv]
    · have : ¬ k0 = k := by
        intro e
        exact hn.1 (List.mem_map.mpr ⟨(k, v), h, by simp [e]⟩)
      simp only [this, if_false]
      exact ih hn.2 h

theorem mem_iff_get {s : Store} (hn : NodupKeys s) (k v : Bytes) : (k, v) ∈ s ↔ get s k = some v :=
  ⟨get_of_mem hn, get_some_mem⟩

theorem mem_keys_iff_get {s : Store} (k : Bytes) : k ∈ keys s ↔ ∃ v, get s k = some v :=
  ⟨get_isSome_of_mem_keys, fun ⟨_, h⟩ => mem_keys_of_get h⟩

/-! ### the uniqueness invariant -/

theorem mem_keys_del {s : Store} {q k : Bytes} : k ∈ keys (del s q) ↔ k ∈ keys s ∧ k ≠ q := by
  simp only [keys, del, List.mem_map, List.mem_filter, decide_eq_true_eq]
  constructor
  · rintro ⟨kv, ⟨hm, hne⟩, rfl⟩
    exact ⟨⟨kv, hm, rfl⟩, hne⟩
  · rintro ⟨⟨kv, hm, rfl⟩, hne⟩
    exact ⟨kv, ⟨hm, hne⟩, rfl⟩

theorem nodup_del {s : Store} (h : NodupKeys s) (q : Bytes) : NodupKeys (del s q) := by
  unfold NodupKeys keys del at *
  exact List.Nodup.sublist (List.Sublist.map _ List.filter_sublist) h

theorem nodup_put {s : Store} (h : NodupKeys s) (k v : Bytes) : NodupKeys (put s k v) := by
  unfold put NodupKeys keys
  rw [List.map_cons, List.nodup_cons]
  refine ⟨?_, nodup_del h k⟩
  intro hm
  exact (mem_keys_del.mp hm).2 rfl

theorem nodup_foldl_del {s : Store} (h : NodupKeys s) (ks : List Bytes) : NodupKeys (ks.foldl del s) := by
  induction ks generalizing s with
  | nil => exact h
  | cons k r ih => exact ih (nodup_del h k)

theorem get_foldl_del_other (s : Store) (ks : List Bytes) (q : Bytes) (h : q ∉ ks) :
    get (ks.foldl del s) q = get s q := by
  induction ks generalizing s with
  | nil => rfl
  | cons k r ih =>
    simp only [List.mem_cons, not_or] at h
    rw [List.foldl_cons, ih (del s k) h.2, get_del_other s k q h.1]

theorem get_foldl_del_mem (s : Store) (ks : List Bytes) (q : Bytes) (h : q ∈ ks) :
    get (ks.foldl del s) q = none := by
  induction ks generalizing s with
  | nil => simp at h
  | cons k r ih =>
    rw [List.foldl_cons]
    by_cases hq : q ∈ r
    · exact ih (del s k) hq
    · simp only [List.mem_cons] at h
      rcases h with h | h
      · rw [get_foldl_del_other _ _ _ hq, h, get_del_self]
      · exact absurd h hq

/-- two storages with unique keys that answer every `get` alike hold the same entries -/
theorem mem_iff_of_get_eq {s t : Store} (hs : NodupKeys s) (ht : NodupKeys t)
    (h : ∀ q, get s q = get t q) (kv : Bytes × Bytes) : kv ∈ s ↔ kv ∈ t := by
  obtain ⟨k, v⟩ := kv
  rw [mem_iff_get hs, mem_iff_get ht, h]

theorem nodup_of_nodupKeys {s : Store} (h : NodupKeys s) : s.Nodup := by
  unfold NodupKeys keys at h
  unfold List.Nodup at *
  rw [List.pairwise_map] at h
  exact List.Pairwise.imp (fun hne e => hne (by rw [e])) h

/-! ### the iteration snapshot -/

theorem insKV_perm (a : Bytes × Bytes) (l : Store) : (insKV a l).Perm (a :: l) := by
  induction l with
  | nil => exact List.Perm.refl _
  | cons b l ih =>
    unfold insKV
    split
    · exact List.Perm.refl _
    · exact ((List.Perm.cons b ih).trans (List.Perm.swap a b l))

theorem sortKV_perm (l : Store) : (sortKV l).Perm l := by
  induction l with
  | nil => exact List.Perm.refl _
  | cons a l ih =>
    unfold sortKV
    exact (insKV_perm a (sortKV l)).trans (List.Perm.cons a ih)

theorem hasPrefix_nil (k : Bytes) : hasPrefix [] k = true := by
  unfold hasPrefix; simp

/-- the unfiltered snapshot (`Find(ctx, []byte{}, None)`) holds exactly the entries of the storage -/
theorem snapshot_nil_perm (s : Store) : (snapshot s []).Perm s := by
  unfold snapshot
  have : s.filter (fun kv => hasPrefix [] kv.1) = s := by
    rw [List.filter_eq_self]; intro a _; exact hasPrefix_nil a.1
  rw [this]
  exact sortKV_perm s

theorem snapshot_perm (s : Store) (p : Bytes) :
    (snapshot s p).Perm (s.filter (fun kv => hasPrefix p kv.1)) := sortKV_perm _

theorem nodupKeys_of_perm {s t : Store} (p : s.Perm t) (h : NodupKeys t) : NodupKeys s := by
  unfold NodupKeys keys at *
  exact (List.Perm.nodup_iff (List.Perm.map _ p)).mpr h

/-! ### renaming keys while iterating over a snapshot

`ren k = some k'` means: the loop body moves the entry under `k` to `k'` (deleting `k`); `none`: it
leaves the entry alone. The body may put first and delete afterwards (Balance) or the other way
round (Container): both orders answer `get` alike because `k' ≠ k`. -/

def renStep (ren : Bytes → Option Bytes) (putFirst : Bool) (st : Store) (kv : Bytes × Bytes) : Store :=
  match ren kv.1 with
  | none => st
  | some k' => if putFirst then del (put st k' kv.2) kv.1 else put (del st kv.1) k' kv.2

/-- the three properties of a renaming that make the loop order-independent -/
structure GoodRen (ren : Bytes → Option Bytes) : Prop where
  /-- a new key differs from the old one -/
  ne : ∀ k k', ren k = some k' → k' ≠ k
  /-- a new key is never selected itself -/
  tgt : ∀ k k', ren k = some k' → ren k' = none
  /-- different old keys get different new keys -/
  inj : ∀ k₁ k₂ q, ren k₁ = some q → ren k₂ = some q → k₁ = k₂

theorem get_renStep {ren : Bytes → Option Bytes} (hr : GoodRen ren) (pf : Bool) (st : Store)
    (k v q : Bytes) :
    get (renStep ren pf st (k, v)) q =
      match ren k with
      | none => get st q
      | some k' => if q = k' then some v else if q = k then none else get st q := by
  unfold renStep
  cases hk : ren k with
  | none => rfl
  | some k' =>
    have hne := hr.ne k k' hk
    simp only
    by_cases h1 : q = k'
    · subst h1
      simp only [if_true]
      cases pf
      · simp [get_put_self]
      · simp only [if_true]
        rw [get_del_other _ _ _ hne, get_put_self]
    · simp only [h1, if_false]
      by_cases h2 : q = k
      · subst h2
        simp only [if_true]
        cases pf
        · simp only [Bool.false_eq_true, if_false]
          rw [get_put_other _ _ _ _ h1, get_del_self]
        · simp only [if_true]; rw [get_del_self]
      · simp only [h2, if_false]
        cases pf
        · simp only [Bool.false_eq_true, if_false]
          rw [get_put_other _ _ _ _ h1, get_del_other _ _ _ h2]
        · simp only [if_true]
          rw [get_del_other _ _ _ h2, get_put_other _ _ _ _ h1]

theorem nodup_renStep (ren : Bytes → Option Bytes) (pf : Bool) {st : Store} (h : NodupKeys st)
    (kv : Bytes × Bytes) : NodupKeys (renStep ren pf st kv) := by
  unfold renStep
  cases ren kv.1 with
  | none => exact h
  | some k' =>
    cases pf
    · exact nodup_put (nodup_del h _) _ _
    · exact nodup_del (nodup_put h _ _) _

theorem nodup_foldl_renStep (ren : Bytes → Option Bytes) (pf : Bool) {st : Store} (h : NodupKeys st)
    (l : Store) : NodupKeys (l.foldl (renStep ren pf) st) := by
  induction l generalizing st with
  | nil => exact h
  | cons kv r ih => exact ih (nodup_renStep ren pf h kv)

/-- a key that no snapshot entry is renamed to, and that is not a selected snapshot key, keeps its value -/
theorem ren_untouched {ren : Bytes → Option Bytes} (hr : GoodRen ren) (pf : Bool) (l : Store) (s0 : Store)
    (q : Bytes) (h1 : ∀ kv ∈ l, ren kv.1 ≠ some q) (h2 : q ∉ keys l ∨ ren q = none) :
    get (l.foldl (renStep ren pf) s0) q = get s0 q := by
  induction l generalizing s0 with
  | nil => rfl
  | cons kv r ih =>
    obtain ⟨k, v⟩ := kv
    rw [List.foldl_cons]
    have h1' : ∀ kv ∈ r, ren kv.1 ≠ some q := fun kv hm => h1 kv (List.mem_cons_of_mem _ hm)
    have h2' : q ∉ keys r ∨ ren q = none := by
      rcases h2 with h | h
      · left; intro hm; exact h (by simp only [keys, List.map_cons, List.mem_cons]; exact Or.inr hm)
      · right; exact h
    rw [ih _ h1' h2', get_renStep hr]
    cases hk : ren k with
    | none => rfl
    | some k' =>
      simp only
      have a1 : ¬ q = k' := by
        intro e; exact h1 (k, v) (List.mem_cons_self) (by rw [hk, e])
      have a2 : ¬ q = k := by
        intro e
        rcases h2 with h | h
        · exact h (by simp [keys, e])
        · rw [e, hk] at h; cases h
      simp [a1, a2]

/-- a selected snapshot key is gone after the loop -/
theorem ren_deleted {ren : Bytes → Option Bytes} (hr : GoodRen ren) (pf : Bool) (l : Store)
    (hl : NodupKeys l) (s0 : Store) (q : Bytes) (hq : q ∈ keys l) (hsel : (ren q).isSome) :
    get (l.foldl (renStep ren pf) s0) q = none := by
  have hnot : ∀ (l' : Store), ∀ kv ∈ l', ren kv.1 ≠ some q := by
    intro l' kv _ e
    have := hr.tgt kv.1 q e
    rw [this] at hsel; cases hsel
  induction l generalizing s0 with
  | nil => simp [keys] at hq
  | cons kv r ih =>
    obtain ⟨k, v⟩ := kv
    rw [List.foldl_cons]
    simp only [NodupKeys, keys, List.map_cons, List.nodup_cons] at hl
    simp only [keys, List.map_cons, List.mem_cons] at hq
    by_cases hk : q = k
    · subst hk
      rw [ren_untouched hr pf r _ q (hnot r) (Or.inl hl.1), get_renStep hr]
      cases hk' : ren q with
      | none => rw [hk'] at hsel; cases hsel
      | some k' =>
        simp only
        have : ¬ q = k' := fun e => hr.ne q k' hk' e.symm
        simp [this]
    · rcases hq with hq | hq
      · exact absurd hq hk
      · exact ih hl.2 _ hq

/-- the value of a selected snapshot entry is found under its new key after the loop -/
theorem ren_moved {ren : Bytes → Option Bytes} (hr : GoodRen ren) (pf : Bool) (l : Store)
    (hl : NodupKeys l) (s0 : Store) (k v q : Bytes) (hm : (k, v) ∈ l) (hk : ren k = some q) :
    get (l.foldl (renStep ren pf) s0) q = some v := by
  induction l generalizing s0 with
  | nil => simp at hm
  | cons kv r ih =>
    obtain ⟨k0, v0⟩ := kv
    rw [List.foldl_cons]
    simp only [NodupKeys, keys, List.map_cons, List.nodup_cons] at hl
    simp only [List.mem_cons, Prod.mk.injEq] at hm
    rcases hm with ⟨hk0, hv0⟩ | hm
    · subst hk0; subst hv0
      have h1 : ∀ kv ∈ r, ren kv.1 ≠ some q := by
        intro kv hmem e
        have := hr.inj kv.1 k q e hk
        exact hl.1 (List.mem_map.mpr ⟨kv, hmem, this⟩)
      rw [ren_untouched hr pf r _ q h1 (Or.inr (hr.tgt k q hk)), get_renStep hr, hk]
      simp
    · exact ih hl.2 _ hm

end NeoFS.Upgrade
