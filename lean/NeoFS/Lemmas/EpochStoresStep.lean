import NeoFS.Lemmas.EpochStoresFsid
set_option linter.unusedSimpArgs false
set_option linter.unusedVariables false
/-! Frame lemmas for `step` (C20): which operation can change which contract's store, and how. -/
namespace NeoFS.EpochStores
open NeoFS

/-- case analysis of `step`: splits every match/if of the reduced hypothesis and substitutes the result -/
macro "step_split" h:ident : tactic => `(tactic| (
  (repeat' split at $h:ident) <;>
  (try (simp only [Option.some.injEq, Prod.mk.injEq, reduceCtorEq] at $h:ident)) <;>
  (try (obtain ⟨hh1, hh2, hh3⟩ := $h:ident; subst hh1))))

theorem alpha_of_not_not {b : Bool} (h : ¬ (!b) = true) : b = true := by
  cases b <;> simp_all

theorem step_rep (s s' : State) (env : Env) (op : Op) (r : Ret) (ev : List Event)
    (h : step s env op = some (s', r, ev)) :
    s'.rep = s.rep ∨ ∃ e p v, op = .rput e p v ∧ env.alpha = true ∧ repPut s.rep e p v = some s'.rep := by
  cases op <;> simp only [step, guardLen] at h <;> step_split h <;> (try (left; rfl))
  right
  exact ⟨_, _, _, rfl, alpha_of_not_not (by assumption), by assumption⟩

theorem step_aud (s s' : State) (env : Env) (op : Op) (r : Ret) (ev : List Event)
    (h : step s env op = some (s', r, ev)) :
    s'.aud = s.aud ∨ ∃ ir raw hh, op = .aput ir raw hh ∧ audPut s.aud env ir raw hh = some s'.aud := by
  cases op <;> simp only [step, guardLen] at h <;> step_split h <;> (try (left; rfl))
  right
  exact ⟨_, _, _, rfl, by assumption⟩

theorem step_fsid (s s' : State) (env : Env) (op : Op) (r : Ret) (ev : List Event)
    (h : step s env op = some (s', r, ev)) :
    s'.fsid = s.fsid ∨ (∃ o ks, op = .iadd o ks ∧ fsidAdd s.fsid env o ks = some s'.fsid) ∨
      (∃ o ks, op = .irm o ks ∧ fsidRemove s.fsid env o ks = some s'.fsid) := by
  cases op <;> simp only [step, guardLen] at h <;> step_split h <;> (try (left; rfl))
  · right; left
    exact ⟨_, _, rfl, by assumption⟩
  · right; right
    exact ⟨_, _, rfl, by assumption⟩

theorem step_nmc (s s' : State) (env : Env) (op : Op) (r : Ret) (ev : List Event)
    (h : step s env op = some (s', r, ev)) :
    s'.nmc = s.nmc ∨ ∃ k v, op = .nset k v ∧ cfgSet cfgP s.nmc env k v = some s'.nmc := by
  cases op <;> simp only [step, guardLen] at h <;> step_split h <;> (try (left; rfl))
  right
  exact ⟨_, _, rfl, by assumption⟩

theorem step_fsc (s s' : State) (env : Env) (op : Op) (r : Ret) (ev : List Event)
    (h : step s env op = some (s', r, ev)) :
    s'.fsc = s.fsc ∨ ∃ id k v, op = .fset id k v ∧ cfgSet cfgPF s.fsc env k v = some s'.fsc ∧
      ev = [.setConfig id k v] := by
  cases op <;> simp only [step, guardLen] at h <;> step_split h <;> (try (left; rfl))
  right
  exact ⟨_, _, _, rfl, by assumption, by subst_vars; rfl⟩

/-- the estimation stores change only by `cput` (PutContainerSize) and the two tick forms (cleanup) -/
theorem step_cnr (s s' : State) (env : Env) (op : Op) (r : Ret) (ev : List Event)
    (h : step s env op = some (s', r, ev)) :
    (s'.cnt.cnr = s.cnt.cnr ∧ s'.cnt.est = s.cnt.est) ∨
    (∃ snap e cid size pub hh, op = .cput snap e cid size pub hh ∧
        estPut s.cnt env snap e cid size pub hh = some s'.cnt) ∨
    (∃ e, (op = .ctick e ∨ ∃ cur, op = .tick cur e ∧ cur < e) ∧ env.alpha = true ∧
        cleanup s.cnt.cnr e = some s'.cnt.cnr ∧ s'.cnt.est = s.cnt.est) := by
  cases op <;> simp only [step, guardLen] at h <;> step_split h <;> (try (left; exact ⟨rfl, rfl⟩))
  · right; left
    exact ⟨_, _, _, _, _, _, rfl, by assumption⟩
  · right; right
    exact ⟨_, Or.inl rfl, alpha_of_not_not (by assumption), by assumption, rfl⟩
  · right; right
    refine ⟨_, Or.inr ⟨_, rfl, ?_⟩, alpha_of_not_not (by assumption), by assumption, rfl⟩
    omega

/-! exclusive forms (the third alternative names the operations it excludes) -/

theorem step_fsid' (s s' : State) (env : Env) (op : Op) (r : Ret) (ev : List Event)
    (h : step s env op = some (s', r, ev)) :
    (∃ o ks, op = .iadd o ks ∧ fsidAdd s.fsid env o ks = some s'.fsid) ∨
    (∃ o ks, op = .irm o ks ∧ fsidRemove s.fsid env o ks = some s'.fsid) ∨
    ((∀ o ks, op ≠ .iadd o ks) ∧ (∀ o ks, op ≠ .irm o ks) ∧ s'.fsid = s.fsid) := by
  cases op <;> simp only [step, guardLen] at h <;> step_split h <;>
    first
    | (right; right; exact ⟨(by intro _ _ hh; cases hh), (by intro _ _ hh; cases hh), rfl⟩)
    | (left; exact ⟨_, _, rfl, by assumption⟩)
    | (right; left; exact ⟨_, _, rfl, by assumption⟩)

theorem step_nmc' (s s' : State) (env : Env) (op : Op) (r : Ret) (ev : List Event)
    (h : step s env op = some (s', r, ev)) :
    (∃ k v, op = .nset k v ∧ cfgSet cfgP s.nmc env k v = some s'.nmc) ∨
    ((∀ k v, op ≠ .nset k v) ∧ s'.nmc = s.nmc) := by
  cases op <;> simp only [step, guardLen] at h <;> step_split h <;>
    first
    | (right; exact ⟨(by intro _ _ hh; cases hh), rfl⟩)
    | (left; exact ⟨_, _, rfl, by assumption⟩)

theorem step_fsc' (s s' : State) (env : Env) (op : Op) (r : Ret) (ev : List Event)
    (h : step s env op = some (s', r, ev)) :
    (∃ id k v, op = .fset id k v ∧ cfgSet cfgPF s.fsc env k v = some s'.fsc ∧ ev = [.setConfig id k v]) ∨
    ((∀ id k v, op ≠ .fset id k v) ∧ s'.fsc = s.fsc ∧ ev = []) := by
  cases op <;> simp only [step, guardLen] at h <;> step_split h <;>
    first
    | (right; exact ⟨(by intro _ _ _ hh; cases hh), rfl, by subst_vars; rfl⟩)
    | (left; exact ⟨_, _, _, rfl, by assumption, by subst_vars; rfl⟩)

theorem checkWitnessKey_true (env : Env) (k : Bytes) (h : checkWitnessKey env k = some true) :
    k.length = 33 ∧ k ∈ env.wit := by
  unfold checkWitnessKey at h
  split at h
  · simp only [Option.some.injEq] at h
    exact ⟨by assumption, by simpa using h⟩
  · split at h
    · simp at h
    · cases h

/-- a FAULTed invocation leaves every store untouched (transaction atomicity) -/
theorem invoke_fault (s : State) (env : Env) (op : Op) (h : step s env op = none) : (invoke s env op).1 = s := by
  unfold invoke; rw [h]

theorem invoke_halt (s s' : State) (env : Env) (op : Op) (r : Ret) (ev : List Event)
    (h : step s env op = some (s', r, ev)) : (invoke s env op).1 = s' := by
  unfold invoke; rw [h]

end NeoFS.EpochStores
