import NeoFS.Model.Netmap
/-! Lemmas about the byte-string order `blt` and the sorted key families `Map` of the Netmap model. -/
namespace NeoFS.Netmap
open NeoFS

/-! ### `blt` is a strict total order -/

theorem blt_irrefl (a : Bytes) : blt a a = false := by
  induction a with
  | nil => rfl
  | cons x xs ih => simp only [blt, Nat.lt_irrefl, if_false]; exact ih

theorem blt_nil_right (a : Bytes) : blt a [] = false := by
  cases a <;> rfl

theorem blt_trans : ∀ (a b c : Bytes), blt a b = true → blt b c = true → blt a c = true
  | _, [], _, h, _ => by rw [blt_nil_right] at h; cases h
  | _, _ :: _, [], _, h => by rw [blt_nil_right] at h; cases h
  | [], _ :: _, _ :: _, _, _ => rfl
  | x :: xs, y :: ys, z :: zs, h1, h2 => by
    simp only [blt] at h1 h2 ⊢
    by_cases hxy : x < y
    · by_cases hyz : y < z
      · have : x < z := Nat.lt_trans hxy hyz
        simp [this]
      · simp only [hyz, if_false] at h2
        by_cases hzy : z < y
        · simp [hzy] at h2
        · have : y = z := by omega
          subst this; simp [hxy]
    · simp only [hxy, if_false] at h1
      by_cases hyx : y < x
      · simp [hyx] at h1
      · simp only [hyx, if_false] at h1
        have : x = y := by omega
        subst this
        by_cases hxz : x < z
        · simp [hxz]
        · simp only [hxz, if_false] at h2 ⊢
          by_cases hzx : z < x
          · simp [hzx] at h2
          · simp only [hzx, if_false] at h2 ⊢
            exact blt_trans xs ys zs h1 h2

theorem blt_asymm (a b : Bytes) (h : blt a b = true) : blt b a = false := by
  cases hb : blt b a with
  | false => rfl
  | true =>
    have := blt_trans a b a h hb
    rw [blt_irrefl] at this; cases this

theorem blt_ne (a b : Bytes) (h : blt a b = true) : a ≠ b := by
  intro e; subst e; rw [blt_irrefl] at h; cases h

theorem blt_trichotomy : ∀ (a b : Bytes), blt a b = false → blt b a = false → a = b
  | [], [], _, _ => rfl
  | [], _ :: _, h, _ => by simp [blt] at h
  | _ :: _, [], _, h => by simp [blt] at h
  | x :: xs, y :: ys, h1, h2 => by
    simp only [blt] at h1 h2
    by_cases hxy : x < y
    · simp [hxy] at h1
    · by_cases hyx : y < x
      · simp [hyx] at h2
      · simp only [hxy, hyx, if_false] at h1 h2
        have : x = y := by omega
        subst this
        rw [blt_trichotomy xs ys h1 h2]

theorem blt_append_left (p a b : Bytes) : blt (p ++ a) (p ++ b) = blt a b := by
  induction p with
  | nil => rfl
  | cons x xs ih => simp only [List.cons_append, blt, Nat.lt_irrefl, if_false]; exact ih

theorem blt_cons_lt (x y : Nat) (xs ys : Bytes) (h : x < y) : blt (x :: xs) (y :: ys) = true := by
  simp [blt, h]

namespace Map
variable {α : Type}

/-- keys strictly increasing -/
def Sorted (m : Map α) : Prop := m.Pairwise (fun x y => blt x.1 y.1 = true)

theorem sorted_nil : Sorted ([] : Map α) := List.Pairwise.nil

theorem sorted_cons {k : Bytes} {v : α} {r : Map α} :
    Sorted ((k, v) :: r) ↔ (∀ x ∈ r, blt k x.1 = true) ∧ Sorted r := by
  unfold Sorted; rw [List.pairwise_cons]

/-! ### get / put / del -/

theorem get_put_same (k : Bytes) (v : α) (m : Map α) : get (put k v m) k = some v := by
  induction m with
  | nil => simp [put, get]
  | cons x r ih =>
    obtain ⟨k', v'⟩ := x
    simp only [put]
    by_cases h1 : k' = k
    · simp [h1, get]
    · simp only [h1, if_false]
      by_cases h2 : blt k k' = true
      · simp [h2, get]
      · simp only [h2, Bool.false_eq_true, if_false, get, h1]; exact ih

theorem get_put_other (k k2 : Bytes) (v : α) (m : Map α) (h : k2 ≠ k) : get (put k v m) k2 = get m k2 := by
  induction m with
  | nil => simp [put, get, Ne.symm h]
  | cons x r ih =>
    obtain ⟨k', v'⟩ := x
    simp only [put]
    by_cases h1 : k' = k
    · subst h1
      simp only [if_true, get, Ne.symm h, if_false]
    · simp only [h1, if_false]
      by_cases h2 : blt k k' = true
      · simp only [h2, if_true]
        show get ((k, v) :: (k', v') :: r) k2 = get ((k', v') :: r) k2
        simp only [get, Ne.symm h, if_false]
      · simp only [h2, Bool.false_eq_true, if_false]
        show get ((k', v') :: put k v r) k2 = get ((k', v') :: r) k2
        simp only [get]; rw [ih]

theorem get_del_same (k : Bytes) (m : Map α) : get (del k m) k = none := by
  induction m with
  | nil => rfl
  | cons x r ih =>
    obtain ⟨k', v'⟩ := x
    simp only [del]
    by_cases h1 : k' = k
    · simp only [h1, if_true]; exact ih
    · simp only [h1, if_false, get]; exact ih

theorem get_del_other (k k2 : Bytes) (m : Map α) (h : k2 ≠ k) : get (del k m) k2 = get m k2 := by
  induction m with
  | nil => rfl
  | cons x r ih =>
    obtain ⟨k', v'⟩ := x
    simp only [del]
    by_cases h1 : k' = k
    · subst h1
      simp only [if_true, get, Ne.symm h, if_false]; exact ih
    · simp only [h1, if_false, get]; rw [ih]

theorem get_none_of_not_mem (m : Map α) (k : Bytes) (h : ∀ x ∈ m, x.1 ≠ k) : get m k = none := by
  induction m with
  | nil => rfl
  | cons x r ih =>
    obtain ⟨k', v'⟩ := x
    simp only [get]
    have h1 : k' ≠ k := h (k', v') (List.mem_cons_self)
    simp only [h1, if_false]
    exact ih (fun y hy => h y (List.mem_cons_of_mem _ hy))

theorem mem_of_get {m : Map α} {k : Bytes} {v : α} (h : get m k = some v) : (k, v) ∈ m := by
  induction m with
  | nil => cases h
  | cons x r ih =>
    obtain ⟨k', v'⟩ := x
    simp only [get] at h
    by_cases h1 : k' = k
    · simp only [h1, if_true, Option.some.injEq] at h
      subst h1; subst h; exact List.mem_cons_self
    · simp only [h1, if_false] at h
      exact List.mem_cons_of_mem _ (ih h)

theorem get_of_mem {m : Map α} (hs : Sorted m) {k : Bytes} {v : α} (h : (k, v) ∈ m) : get m k = some v := by
  induction m with
  | nil => cases h
  | cons x r ih =>
    obtain ⟨k', v'⟩ := x
    rw [sorted_cons] at hs
    simp only [get]
    rcases List.mem_cons.mp h with h | h
    · cases h; simp
    · have := hs.1 (k, v) h
      have hne : k' ≠ k := blt_ne _ _ this
      simp only [hne, if_false]
      exact ih hs.2 h

theorem mem_iff_get {m : Map α} (hs : Sorted m) (k : Bytes) (v : α) : (k, v) ∈ m ↔ get m k = some v :=
  ⟨get_of_mem hs, mem_of_get⟩

/-! ### membership after put / del -/

theorem mem_put {k : Bytes} {v : α} {m : Map α} {x : Bytes × α} (h : x ∈ put k v m) : x = (k, v) ∨ x ∈ m := by
  induction m with
  | nil => simp only [put, List.mem_singleton] at h; exact Or.inl h
  | cons y r ih =>
    obtain ⟨k', v'⟩ := y
    simp only [put] at h
    by_cases h1 : k' = k
    · simp only [h1, if_true] at h
      rcases List.mem_cons.mp h with h | h
      · exact Or.inl h
      · exact Or.inr (List.mem_cons_of_mem _ h)
    · simp only [h1, if_false] at h
      by_cases h2 : blt k k' = true
      · simp only [h2, if_true] at h
        rcases List.mem_cons.mp h with h | h
        · exact Or.inl h
        · exact Or.inr h
      · simp only [h2, Bool.false_eq_true, if_false] at h
        rcases List.mem_cons.mp h with h | h
        · exact Or.inr (h ▸ List.mem_cons_self)
        · rcases ih h with h | h
          · exact Or.inl h
          · exact Or.inr (List.mem_cons_of_mem _ h)

theorem mem_del {k : Bytes} {m : Map α} {x : Bytes × α} (h : x ∈ del k m) : x ∈ m := by
  induction m with
  | nil => cases h
  | cons y r ih =>
    obtain ⟨k', v'⟩ := y
    simp only [del] at h
    by_cases h1 : k' = k
    · simp only [h1, if_true] at h; exact List.mem_cons_of_mem _ (ih h)
    · simp only [h1, if_false] at h
      rcases List.mem_cons.mp h with h | h
      · exact h ▸ List.mem_cons_self
      · exact List.mem_cons_of_mem _ (ih h)

theorem sorted_put (k : Bytes) (v : α) (m : Map α) (hs : Sorted m) : Sorted (put k v m) := by
  induction m with
  | nil => simp [put, Sorted]
  | cons y r ih =>
    obtain ⟨k', v'⟩ := y
    have hs' := sorted_cons.mp hs
    simp only [put]
    by_cases h1 : k' = k
    · subst h1; simp only [if_true]
      exact sorted_cons.mpr hs'
    · simp only [h1, if_false]
      by_cases h2 : blt k k' = true
      · simp only [h2, if_true]
        refine sorted_cons.mpr ⟨?_, hs⟩
        intro x hx
        rcases List.mem_cons.mp hx with hx | hx
        · subst hx; exact h2
        · exact blt_trans _ _ _ h2 (hs'.1 x hx)
      · simp only [h2, Bool.false_eq_true, if_false]
        refine sorted_cons.mpr ⟨?_, ih hs'.2⟩
        intro x hx
        rcases mem_put hx with hx | hx
        · subst hx
          have h3 : blt k k' = false := by cases hb : blt k k' <;> simp_all
          cases hb : blt k' k with
          | true => rfl
          | false => exact absurd (blt_trichotomy _ _ h3 hb).symm h1
        · exact hs'.1 x hx

theorem sorted_del (k : Bytes) (m : Map α) (hs : Sorted m) : Sorted (del k m) := by
  induction m with
  | nil => exact sorted_nil
  | cons y r ih =>
    obtain ⟨k', v'⟩ := y
    have hs' := sorted_cons.mp hs
    simp only [del]
    by_cases h1 : k' = k
    · simp only [h1, if_true]; exact ih hs'.2
    · simp only [h1, if_false]
      exact sorted_cons.mpr ⟨fun x hx => hs'.1 x (mem_del hx), ih hs'.2⟩

/-- a sorted map is determined by its `get` function (canonical representation) -/
theorem ext : ∀ (a b : Map α), Sorted a → Sorted b → (∀ k, get a k = get b k) → a = b
  | [], [], _, _, _ => rfl
  | [], (k, v) :: r, _, _, h => by
    have := h k; simp [get] at this
  | (k, v) :: r, [], _, _, h => by
    have := h k; simp [get] at this
  | (k1, v1) :: r1, (k2, v2) :: r2, ha, hb, h => by
    have ha' := sorted_cons.mp ha
    have hb' := sorted_cons.mp hb
    have hk : k1 = k2 := by
      apply blt_trichotomy
      · -- if k1 < k2 then b has no k1
        cases hlt : blt k1 k2 with
        | false => rfl
        | true =>
          have h1 := h k1
          simp only [get, if_true] at h1
          have hne : k2 ≠ k1 := (blt_ne _ _ hlt).symm
          simp only [hne, if_false] at h1
          have : get r2 k1 = none := get_none_of_not_mem r2 k1 (fun x hx e => by
            have := blt_trans _ _ _ hlt (hb'.1 x hx)
            rw [e, blt_irrefl] at this; cases this)
          rw [this] at h1; cases h1
      · cases hlt : blt k2 k1 with
        | false => rfl
        | true =>
          have h1 := h k2
          simp only [get, if_true] at h1
          have hne : k1 ≠ k2 := (blt_ne _ _ hlt).symm
          simp only [hne, if_false] at h1
          have : get r1 k2 = none := get_none_of_not_mem r1 k2 (fun x hx e => by
            have := blt_trans _ _ _ hlt (ha'.1 x hx)
            rw [e, blt_irrefl] at this; cases this)
          rw [this] at h1; cases h1
    subst hk
    have hv : v1 = v2 := by
      have h1 := h k1; simp only [get, if_true, Option.some.injEq] at h1; exact h1
    subst hv
    have hr : r1 = r2 := by
      apply ext r1 r2 ha'.2 hb'.2
      intro k
      by_cases hk : k1 = k
      · subst hk
        rw [get_none_of_not_mem r1 k1 (fun x hx e => by
              have := ha'.1 x hx; rw [e, blt_irrefl] at this; cases this),
            get_none_of_not_mem r2 k1 (fun x hx e => by
              have := hb'.1 x hx; rw [e, blt_irrefl] at this; cases this)]
      · have h1 := h k
        simp only [get, hk, if_false] at h1
        exact h1
    rw [hr]

/-- putting a key that is greater than every key appends -/
theorem put_append (k : Bytes) (v : α) (m : Map α) (h : ∀ x ∈ m, blt x.1 k = true) :
    put k v m = m ++ [(k, v)] := by
  induction m with
  | nil => rfl
  | cons y r ih =>
    obtain ⟨k', v'⟩ := y
    have h0 := h (k', v') List.mem_cons_self
    have h1 : k' ≠ k := blt_ne _ _ h0
    have h2 : blt k k' = false := blt_asymm _ _ h0
    simp only [put, h1, if_false, h2, List.cons_append]
    rw [ih (fun x hx => h x (List.mem_cons_of_mem _ hx))]
    simp

/-! ### prefixes -/

theorem stripPrefix_eq_some_iff (p k r : Bytes) : stripPrefix p k = some r ↔ k = p ++ r := by
  induction p generalizing k with
  | nil => simp [stripPrefix, eq_comm]
  | cons a p ih =>
    cases k with
    | nil => simp [stripPrefix]
    | cons b k =>
      simp only [stripPrefix, List.cons_append, List.cons.injEq]
      by_cases hab : a = b
      · simp only [hab, if_true, true_and]; exact ih k
      · simp only [hab, if_false]
        constructor
        · intro h; cases h
        · intro h; exact absurd h.1.symm hab

theorem stripPrefix_append (p r : Bytes) : stripPrefix p (p ++ r) = some r :=
  (stripPrefix_eq_some_iff p (p ++ r) r).mpr rfl

theorem stripPrefix_other (p q r : Bytes) (hl : p.length = q.length) (hne : p ≠ q) :
    stripPrefix p (q ++ r) = none := by
  cases h : stripPrefix p (q ++ r) with
  | none => rfl
  | some x =>
    have := (stripPrefix_eq_some_iff p (q ++ r) x).mp h
    exact absurd (List.append_inj this hl.symm).1.symm hne

theorem get_findP (p : Bytes) (m : Map α) (k : Bytes) : get (findP p m) k = get m (p ++ k) := by
  induction m with
  | nil => rfl
  | cons y r ih =>
    obtain ⟨k', v'⟩ := y
    simp only [findP]
    cases hs : stripPrefix p k' with
    | none =>
      simp only [get]
      have : k' ≠ p ++ k := fun e => by
        rw [e, stripPrefix_append] at hs; cases hs
      simp only [this, if_false]; exact ih
    | some x =>
      have hk' := (stripPrefix_eq_some_iff p k' x).mp hs
      simp only [get]
      by_cases hx : x = k
      · subst hx; simp [hk']
      · have : k' ≠ p ++ k := fun e => by
          rw [hk'] at e; exact hx (List.append_cancel_left e)
        simp only [hx, this, if_false]; exact ih

theorem mem_findP {p : Bytes} {m : Map α} {x : Bytes × α} (h : x ∈ findP p m) : (p ++ x.1, x.2) ∈ m := by
  induction m with
  | nil => cases h
  | cons y r ih =>
    obtain ⟨k', v'⟩ := y
    simp only [findP] at h
    cases hs : stripPrefix p k' with
    | none => rw [hs] at h; exact List.mem_cons_of_mem _ (ih h)
    | some z =>
      rw [hs] at h
      have hk' := (stripPrefix_eq_some_iff p k' z).mp hs
      rcases List.mem_cons.mp h with h | h
      · subst h; rw [hk']; exact List.mem_cons_self
      · exact List.mem_cons_of_mem _ (ih h)

theorem sorted_findP (p : Bytes) (m : Map α) (hs : Sorted m) : Sorted (findP p m) := by
  induction m with
  | nil => exact sorted_nil
  | cons y r ih =>
    obtain ⟨k', v'⟩ := y
    have hs' := sorted_cons.mp hs
    simp only [findP]
    cases hsp : stripPrefix p k' with
    | none => exact ih hs'.2
    | some z =>
      have hk' := (stripPrefix_eq_some_iff p k' z).mp hsp
      refine sorted_cons.mpr ⟨?_, ih hs'.2⟩
      intro x hx
      have := hs'.1 _ (mem_findP hx)
      rw [hk'] at this
      simpa [blt_append_left] using this

theorem mem_delP {p : Bytes} {m : Map α} {x : Bytes × α} (h : x ∈ delP p m) : x ∈ m := by
  induction m with
  | nil => cases h
  | cons y r ih =>
    obtain ⟨k', v'⟩ := y
    simp only [delP] at h
    cases hs : stripPrefix p k' with
    | none =>
      rw [hs] at h
      rcases List.mem_cons.mp h with h | h
      · exact h ▸ List.mem_cons_self
      · exact List.mem_cons_of_mem _ (ih h)
    | some z => rw [hs] at h; exact List.mem_cons_of_mem _ (ih h)

theorem sorted_delP (p : Bytes) (m : Map α) (hs : Sorted m) : Sorted (delP p m) := by
  induction m with
  | nil => exact sorted_nil
  | cons y r ih =>
    obtain ⟨k', v'⟩ := y
    have hs' := sorted_cons.mp hs
    simp only [delP]
    cases hsp : stripPrefix p k' with
    | none => exact sorted_cons.mpr ⟨fun x hx => hs'.1 x (mem_delP hx), ih hs'.2⟩
    | some z => exact ih hs'.2

theorem get_delP (p : Bytes) (m : Map α) (k : Bytes) :
    get (delP p m) k = if (stripPrefix p k).isSome then none else get m k := by
  induction m with
  | nil => simp [delP, get]
  | cons y r ih =>
    obtain ⟨k', v'⟩ := y
    simp only [delP]
    cases hsp : stripPrefix p k' with
    | none =>
      simp only [get]
      by_cases hk : k' = k
      · subst hk; simp [hsp]
      · simp only [hk, if_false]; exact ih
    | some z =>
      simp only [get]
      by_cases hk : k' = k
      · subst hk; simp only [hsp, Option.isSome_some, if_true]
        rw [ih]; simp [hsp]
      · simp only [hk, if_false]; exact ih

end Map
end NeoFS.Netmap
