import NeoFS.Lemmas.Access
/-! The abstract evaluator looks only at the atoms that occur in the program; every valuation therefore behaves
like one of the finitely many bit masks over the method's atom table (used to lift the table theorems of C03
from bit masks to arbitrary valuations). -/
namespace NeoFS.Access

def atomsIn : Stmt → List Nat
  | .guard w => [w]
  | .ifW w a b => w :: (atomsIn a ++ atomsIn b)
  | .seq a b | .choice a b | .try a b => atomsIn a ++ atomsIn b
  | .loop a | .scope a => atomsIn a
  | .callIf c a b => atomsIn c ++ (atomsIn a ++ atomsIn b)
  | _ => []

theorem outs_congr (v v' : Val) (s : Stmt) (h : ∀ w ∈ atomsIn s, v w = v' w) (e : Bool) :
    outs v s e = outs v' s e := by
  induction s generalizing e with
  | skip | effect | fault | ret | retT | retF | brk => rfl
  | guard w => simp only [outs, h w (by simp [atomsIn])]
  | seq a b iha ihb =>
    have ha : ∀ w ∈ atomsIn a, v w = v' w := fun w hw => h w (by simp [atomsIn, hw])
    have hb : ∀ w ∈ atomsIn b, v w = v' w := fun w hw => h w (by simp [atomsIn, hw])
    simp only [outs, iha ha]
    congr 1; funext r; rw [ihb hb]
  | ifW w a b iha ihb =>
    have ha : ∀ w ∈ atomsIn a, v w = v' w := fun w hw => h w (by simp [atomsIn, hw])
    have hb : ∀ w ∈ atomsIn b, v w = v' w := fun w hw => h w (by simp [atomsIn, hw])
    simp only [outs, h w (by simp [atomsIn]), iha ha, ihb hb]
  | choice a b iha ihb =>
    have ha : ∀ w ∈ atomsIn a, v w = v' w := fun w hw => h w (by simp [atomsIn, hw])
    have hb : ∀ w ∈ atomsIn b, v w = v' w := fun w hw => h w (by simp [atomsIn, hw])
    simp only [outs, iha ha, ihb hb]
  | loop a iha =>
    have ha : ∀ w ∈ atomsIn a, v w = v' w := fun w hw => h w (by simp [atomsIn, hw])
    simp only [outs, iha ha]
  | «try» a b iha ihb =>
    have ha : ∀ w ∈ atomsIn a, v w = v' w := fun w hw => h w (by simp [atomsIn, hw])
    have hb : ∀ w ∈ atomsIn b, v w = v' w := fun w hw => h w (by simp [atomsIn, hw])
    simp only [outs, iha ha]
    congr 1; funext r; rw [ihb hb]
  | scope a iha =>
    have ha : ∀ w ∈ atomsIn a, v w = v' w := fun w hw => h w (by simp [atomsIn, hw])
    simp only [outs, iha ha]
  | callIf c a b ihc iha ihb =>
    have hc : ∀ w ∈ atomsIn c, v w = v' w := fun w hw => h w (by simp [atomsIn, hw])
    have ha : ∀ w ∈ atomsIn a, v w = v' w := fun w hw => h w (by simp [atomsIn, hw])
    have hb : ∀ w ∈ atomsIn b, v w = v' w := fun w hw => h w (by simp [atomsIn, hw])
    simp only [outs, ihc hc]
    congr 1; funext r; rw [iha ha, ihb hb]

/-- the bit mask of a valuation restricted to atoms `0..k-1` -/
def maskOf (v : Val) : Nat → Nat
  | 0 => 0
  | k + 1 => maskOf v k + (if v k then 2 ^ k else 0)

theorem maskOf_lt (v : Val) (k : Nat) : maskOf v k < 2 ^ k := by
  induction k with
  | zero => simp [maskOf]
  | succ k ih =>
    simp only [maskOf]
    have : 2 ^ (k + 1) = 2 ^ k + 2 ^ k := by rw [Nat.pow_succ]; omega
    split <;> omega

theorem testBit_maskOf (v : Val) (k i : Nat) (hi : i < k) : (maskOf v k).testBit i = v i := by
  induction k with
  | zero => omega
  | succ k ih =>
    simp only [maskOf]
    have hlt := maskOf_lt v k
    by_cases hik : i = k
    · subst hik
      by_cases hv : v i = true
      · simp only [hv, if_true]
        rw [Nat.add_comm, Nat.testBit_two_pow_add_eq]
        simp [Nat.testBit_lt_two_pow hlt]
      · have hv' : v i = false := by simpa using hv
        simp only [hv', Bool.false_eq_true, if_false, Nat.add_zero]
        exact Nat.testBit_lt_two_pow hlt
    · have hi' : i < k := by omega
      by_cases hv : v k = true
      · simp only [hv, if_true]
        rw [Nat.add_comm, Nat.testBit_two_pow_add_gt hi']
        exact ih hi'
      · have hv' : v k = false := by simpa using hv
        simp only [hv', Bool.false_eq_true, if_false, Nat.add_zero]
        exact ih hi'

/-- every valuation agrees, on a program whose atoms are below `k`, with the bit mask `maskOf v k` -/
theorem outs_maskOf (v : Val) (s : Stmt) (k : Nat) (hwf : ∀ w ∈ atomsIn s, w < k) (e : Bool) :
    outs v s e = outs (maskVal (maskOf v k)) s e :=
  outs_congr v _ s (fun w hw => by unfold maskVal; rw [testBit_maskOf v k w (hwf w hw)]) e

end NeoFS.Access
