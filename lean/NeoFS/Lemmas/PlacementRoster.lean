import NeoFS.Lemmas.PlacementCounter
set_option linter.unusedSimpArgs false
set_option linter.unusedVariables false
/-! The stored roster (C14): what `AddNextEpochNodes` and `CommitContainerListUpdate` do to the three key
families, stated through `Find` on the families' prefixes. -/
namespace NeoFS.Placement
open NeoFS

/-- values `Find(u ‖ cid ‖ b)` iterates over: the pending roster of vector `b` -/
def pendingOf (s : Store) (cid : Bytes) (b : Nat) : List Bytes := (find s (uKey cid ++ [b])).map (·.2)
/-- values `Find(n ‖ cid ‖ b)` iterates over: what `nodes(cid, b)` returns -/
def nodesOf (s : Store) (cid : Bytes) (b : Nat) : List Bytes := (find s (nKey cid ++ [b])).map (·.2)
/-- values `Find(r ‖ cid)` iterates over: what `replicasNumbers(cid)` returns -/
def repsOf (s : Store) (cid : Bytes) : List Bytes := (find s (rKey cid)).map (·.2)

/-- the items `p ‖ BE16(i), p ‖ BE16(i+1), …` holding `xs` -/
def enumFrom (p : Bytes) : Nat → List Bytes → Store
  | _, [] => []
  | i, x :: xs => (p ++ counterToBytes (i : Int), x) :: enumFrom p (i + 1) xs

theorem enumFrom_map_snd (p : Bytes) (i : Nat) (xs : List Bytes) : (enumFrom p i xs).map (·.2) = xs := by
  induction xs generalizing i with
  | nil => rfl
  | cons x xs ih => simp [enumFrom, ih]

theorem enumFrom_append (p : Bytes) (i : Nat) (xs ys : List Bytes) :
    enumFrom p i (xs ++ ys) = enumFrom p i xs ++ enumFrom p (i + xs.length) ys := by
  induction xs generalizing i with
  | nil => simp [enumFrom]
  | cons x xs ih =>
    simp only [List.cons_append, enumFrom, ih, List.length_cons]
    have : i + 1 + xs.length = i + (xs.length + 1) := by omega
    rw [this]

theorem mem_enumFrom (p : Bytes) (i : Nat) (xs : List Bytes) (k v : Bytes) :
    (k, v) ∈ enumFrom p i xs ↔ ∃ j, ∃ (h : j < xs.length), k = p ++ counterToBytes ((i + j : Nat) : Int) ∧ v = xs[j] := by
  induction xs generalizing i with
  | nil => simp [enumFrom]
  | cons x xs ih =>
    simp only [enumFrom, List.mem_cons, Prod.mk.injEq, ih]
    constructor
    · rintro (⟨h1, h2⟩ | ⟨j, hj, h1, h2⟩)
      · exact ⟨0, by simp, by simpa using h1, by simpa using h2⟩
      · refine ⟨j + 1, by simpa using hj, ?_, by simpa using h2⟩
        have : i + 1 + j = i + (j + 1) := by omega
        rw [← this]; exact h1
    · rintro ⟨j, hj, h1, h2⟩
      cases j with
      | zero => left; exact ⟨by simpa using h1, by simpa using h2⟩
      | succ j' =>
        right
        refine ⟨j', by simpa using hj, ?_, by simpa using h2⟩
        have : i + 1 + j' = i + (j' + 1) := by omega
        rw [this]; exact h1

theorem sorted_enumFrom (p : Bytes) (i : Nat) (xs : List Bytes) (h : i + xs.length ≤ 32768) :
    Sorted (enumFrom p i xs) := by
  induction xs generalizing i with
  | nil => exact sorted_nil
  | cons x xs ih =>
    unfold Sorted at ih ⊢
    simp only [enumFrom]
    rw [List.pairwise_cons]
    simp only [List.length_cons] at h
    refine ⟨?_, ih (i + 1) (by omega)⟩
    rintro ⟨k, v⟩ hm
    obtain ⟨j, hj, hk, _⟩ := (mem_enumFrom p (i + 1) xs k v).mp hm
    simp only [hk, blt_append_left]
    rw [counterToBytes_lt i (i + 1 + j) (by omega) (by omega)]
    simp; omega

theorem enumFrom_getLast (p : Bytes) (i : Nat) (xs : List Bytes) (h : xs ≠ []) :
    ∃ v, (enumFrom p i xs).getLast? = some (p ++ counterToBytes ((i + xs.length - 1 : Nat) : Int), v) := by
  induction xs generalizing i with
  | nil => exact absurd rfl h
  | cons x xs ih =>
    cases xs with
    | nil => exact ⟨x, by simp [enumFrom]⟩
    | cons y ys =>
      obtain ⟨v, hv⟩ := ih (i + 1) (by simp)
      refine ⟨v, ?_⟩
      simp only [enumFrom] at hv ⊢
      rw [List.getLast?_cons_cons, hv]
      simp only [List.length_cons]
      have : i + 1 + (ys.length + 1) - 1 = i + (ys.length + 1 + 1) - 1 := by omega
      rw [this]

/-! ### AddNextEpochNodes -/

/-- the puts of the loop, without the length test -/
def addPuts (pre : Bytes) : Store → Nat → List Bytes → Store
  | s, _, [] => s
  | s, n, k :: ks => addPuts pre (put s (pre ++ counterToBytes ((n + 1 : Nat) : Int)) k) (n + 1) ks

theorem addLoop_eq (pre : Bytes) (s : Store) (n : Nat) (ks : List Bytes) :
    addLoop pre s (n : Int) ks = if ∀ k ∈ ks, k.length = keyLen then some (addPuts pre s n ks) else none := by
  induction ks generalizing s n with
  | nil => simp [addLoop, addPuts]
  | cons k ks ih =>
    simp only [addLoop, addPuts]
    have e : (n : Int) + 1 = ((n + 1 : Nat) : Int) := by omega
    by_cases hk : k.length = keyLen
    · simp only [hk, ne_eq, not_true_eq_false, if_false, e, ih, List.mem_cons, forall_eq_or_imp, true_and]
    · simp [hk]

theorem sorted_addPuts (pre : Bytes) (s : Store) (n : Nat) (ks : List Bytes) (h : Sorted s) :
    Sorted (addPuts pre s n ks) := by
  induction ks generalizing s n with
  | nil => exact h
  | cons k ks ih => exact ih _ _ (sorted_put h _ _)

theorem get_addPuts_other (pre : Bytes) (s : Store) (n : Nat) (ks : List Bytes) (k' : Bytes)
    (h : ∀ j, j < ks.length → k' ≠ pre ++ counterToBytes ((n + 1 + j : Nat) : Int)) :
    get (addPuts pre s n ks) k' = get s k' := by
  induction ks generalizing s n with
  | nil => rfl
  | cons k ks ih =>
    simp only [addPuts]
    rw [ih]
    · rw [get_put, if_neg]
      have := h 0 (by simp)
      simpa using this
    · intro j hj
      have := h (j + 1) (by simpa using hj)
      have e : n + 1 + (j + 1) = n + 1 + 1 + j := by omega
      rw [e] at this; exact this

theorem get_addPuts_new (pre : Bytes) (s : Store) (n : Nat) (ks : List Bytes) (hb : n + ks.length ≤ 32767)
    (j : Nat) (hj : j < ks.length) :
    get (addPuts pre s n ks) (pre ++ counterToBytes ((n + 1 + j : Nat) : Int)) = some ks[j] := by
  induction ks generalizing s n j with
  | nil => exact absurd hj (by simp)
  | cons k ks ih =>
    simp only [List.length_cons] at hb hj
    simp only [addPuts]
    cases j with
    | zero =>
      rw [get_addPuts_other]
      · simp [get_put]
      · intro j' hj' e
        have := List.append_cancel_left e
        have := counterToBytes_inj _ _ (by omega) (by omega) this
        omega
    | succ j' =>
      have := ih (put s (pre ++ counterToBytes ((n + 1 : Nat) : Int)) k) (n + 1) (by omega) j' (by omega)
      have e : n + 1 + (j' + 1) = n + 1 + 1 + j' := by omega
      rw [e, this]; simp

theorem byteOf_lt {z : Int} {b : Nat} (h : byteOf z = some b) : b < 256 := by
  unfold byteOf at h
  split at h
  · simp only [Option.some.injEq] at h
    omega
  · exact absurd h (by simp)

theorem byteOf_nat (n : Nat) (h : n ≤ 255) : byteOf (n : Int) = some n := by
  unfold byteOf
  have : -128 ≤ (n : Int) ∧ (n : Int) ≤ 255 := by omega
  simp only [this, and_self, if_true, Option.some.injEq]
  omega

/-- `lastCounter` reads the number of keys already pending under the prefix -/
theorem lastCounter_enum (s : Store) (pre : Bytes) (vals : List Bytes) (hv : vals.length ≤ 32767)
    (h : find s pre = enumFrom pre 1 vals) : lastCounter s pre = some (vals.length : Int) := by
  unfold lastCounter
  rw [h]
  cases hvals : vals with
  | nil => simp [enumFrom]
  | cons x xs =>
    obtain ⟨v, hv'⟩ := enumFrom_getLast pre 1 (x :: xs) (by simp)
    rw [hv']
    have e : 1 + (x :: xs).length - 1 = (x :: xs).length := by simp
    rw [e]
    rw [hvals] at hv
    show counterFromBytes (List.drop pre.length (pre ++ counterToBytes ((x :: xs).length : Int))) = _
    rw [List.drop_left]
    exact counterFromBytes_counterToBytes _ hv

/-- `AddNextEpochNodes` on a vector whose pending keys carry the counters 1 … n: the batch is stored under
the counters n+1 …, nothing else changes. -/
theorem add_spec (s : Store) (hs : Sorted s) (cid : Bytes) (hc : cid.length = cidLen) (vec : Int) (b : Nat)
    (hb : byteOf vec = some b) (hv : vec < maxREPs) (hval : validatePlacementIndex s cid vec = true)
    (vals : List Bytes) (hfind : find s (uKey cid ++ [b]) = enumFrom (uKey cid ++ [b]) 1 vals)
    (ks : List Bytes) (hk : ∀ k ∈ ks, k.length = keyLen) (hbound : vals.length + ks.length ≤ 32767) :
    ∃ s', addNextEpochNodes s true cid vec (some ks) = some s' ∧ Sorted s' ∧
      find s' (uKey cid ++ [b]) = enumFrom (uKey cid ++ [b]) 1 (vals ++ ks) ∧
      ∀ k', isPre (uKey cid ++ [b]) k' = false → get s' k' = get s k' := by
  have hlc := lastCounter_enum s (uKey cid ++ [b]) vals (by omega) hfind
  refine ⟨addPuts (uKey cid ++ [b]) s vals.length ks, ?_, sorted_addPuts _ _ _ _ hs, ?_, ?_⟩
  · unfold addNextEpochNodes
    have h2 : ¬ vec ≥ maxREPs := by omega
    simp only [hc, ne_eq, not_true_eq_false, if_false, h2, hval, Bool.not_true, Bool.false_eq_true, hb, hlc,
      addLoop_eq]
    exact if_pos hk
  · apply find_eq_of (sorted_addPuts _ _ _ _ hs)
    · exact sorted_enumFrom _ _ _ (by simp; omega)
    · intro k v
      rw [enumFrom_append, List.mem_append, ← hfind, mem_find_get hs, mem_enumFrom]
      constructor
      · rintro (⟨h1, h2⟩ | ⟨j, hj, h1, h2⟩)
        · refine ⟨?_, h2⟩
          rw [get_addPuts_other]
          · exact h1
          · intro j hj e
            -- a key that is already stored carries a counter ≤ n
            have hm : (k, v) ∈ enumFrom (uKey cid ++ [b]) 1 vals := by
              rw [← hfind, mem_find_get hs]; exact ⟨h1, h2⟩
            obtain ⟨j', hj', e', _⟩ := (mem_enumFrom _ _ _ _ _).mp hm
            rw [e'] at e
            have := counterToBytes_inj _ _ (by omega) (by omega) (List.append_cancel_left e)
            omega
        · subst h1
          refine ⟨?_, isPre_append _ _⟩
          have e : 1 + vals.length + j = vals.length + 1 + j := by omega
          rw [e, get_addPuts_new _ _ _ _ hbound j hj, h2]
      · rintro ⟨h1, h2⟩
        by_cases hex : ∃ j, j < ks.length ∧ k = (uKey cid ++ [b]) ++ counterToBytes ((vals.length + 1 + j : Nat) : Int)
        · obtain ⟨j, hj, e⟩ := hex
          right
          refine ⟨j, hj, ?_, ?_⟩
          · have e2 : 1 + vals.length + j = vals.length + 1 + j := by omega
            rw [e2]; exact e
          · rw [e, get_addPuts_new _ _ _ _ hbound j hj] at h1
            simpa using h1.symm
        · left
          refine ⟨?_, h2⟩
          rw [get_addPuts_other] at h1
          · exact h1
          · intro j hj e; exact hex ⟨j, hj, e⟩
  · intro k' hk'
    apply get_addPuts_other
    intro j hj e
    rw [e, isPre_append] at hk'
    exact absurd hk' (by decide)

end NeoFS.Placement
