import NeoFS.Lemmas.NNSSyntaxSplit
/-! `safeSplitAndCheck` accepts exactly the well-formed names (`Spec.ValidName`). -/
namespace NeoFS.NNSSyntax
open NeoFS NeoFS.NNSSyntax.Spec

theorem maxRootLength_eq : maxRootLength = 16 := rfl
theorem maxFragmentLength_eq : maxFragmentLength = 63 := rfl
theorem minNameLength_eq : minNameLength = 3 := rfl
theorem maxNameLength_eq : maxNameLength = 255 := rfl
theorem maxTXTLength_eq : maxTXTLength = 255 := rfl
theorem typA_eq : typA = 1 := rfl
theorem typCNAME_eq : typCNAME = 5 := rfl
theorem typTXT_eq : typTXT = 16 := rfl
theorem typAAAA_eq : typAAAA = 28 := rfl

theorem isAlNum_iff (c : Nat) : isAlNum c = true ↔ AlNum c := by
  unfold isAlNum AlNum Lower Digit
  simp only [Bool.or_eq_true, Bool.and_eq_true, decide_eq_true_eq]

theorem isLower_iff (c : Nat) : isLower c = true ↔ Lower c := by
  unfold isLower Lower
  simp only [Bool.and_eq_true, decide_eq_true_eq]

theorem lower_alnum {c : Nat} (h : Lower c) : AlNum c := Or.inl h

theorem midChar_iff (x : Nat) : (decide (x = 45) || isAlNum x) = true ↔ (AlNum x ∨ x = 45) := by
  rw [Bool.or_eq_true, decide_eq_true_eq, isAlNum_iff]; exact Or.comm

def midP (x : Nat) : Bool := decide (x = 45) || isAlNum x

theorem checkFragment_cons_eq (c : Nat) (t : Bytes) (r : Bool) :
    checkFragment (c :: t) r =
      (decide ((c :: t).length ≤ (if r then 16 else 63)) && (if r then isLower c else isAlNum c) &&
        (middle (c :: t)).all midP && isAlNum ((c :: t).getLastD 0)) := by
  have hmid : (fun x => decide (x = 45) || isAlNum x) = midP := rfl
  simp only [checkFragment, maxRootLength_eq, maxFragmentLength_eq, hmid]
  cases r
  · simp only [Bool.false_and, Bool.not_false, Bool.true_and, if_false, Bool.false_eq_true]
    by_cases h1 : 63 < (c :: t).length
    · have : decide ((c :: t).length ≤ 63) = false := decide_eq_false (by omega)
      simp only [h1, if_true, this, Bool.false_and]
    · have : decide ((c :: t).length ≤ 63) = true := decide_eq_true (by omega)
      simp only [h1, if_false, this, Bool.true_and]
      cases h2 : isAlNum c <;> cases h3 : (middle (c :: t)).all midP <;> simp
  · simp only [Bool.true_and, Bool.not_true, Bool.false_and, if_true, Bool.false_eq_true, if_false]
    by_cases h1 : 16 < (c :: t).length
    · have : decide ((c :: t).length ≤ 16) = false := decide_eq_false (by omega)
      simp only [h1, if_true, this, Bool.false_and]
    · have : decide ((c :: t).length ≤ 16) = true := decide_eq_true (by omega)
      simp only [h1, if_false, this, Bool.true_and]
      cases h2 : isLower c <;> cases h3 : (middle (c :: t)).all midP <;> simp

/-- `checkFragment` with the conditions of its branches spelled out -/
theorem checkFragment_cons (c : Nat) (t : Bytes) (r : Bool) :
    checkFragment (c :: t) r = true ↔
      (c :: t).length ≤ (if r then 16 else 63) ∧ (r = true → Lower c) ∧ (r = false → AlNum c) ∧
      (∀ x ∈ middle (c :: t), AlNum x ∨ x = 45) ∧ AlNum ((c :: t).getLastD 0) := by
  rw [checkFragment_cons_eq, Bool.and_eq_true, Bool.and_eq_true, Bool.and_eq_true, decide_eq_true_eq,
    List.all_eq_true, isAlNum_iff]
  have hm : (∀ x ∈ middle (c :: t), midP x = true) ↔ (∀ x ∈ middle (c :: t), AlNum x ∨ x = 45) :=
    ⟨fun h x hx => (midChar_iff x).mp (h x hx), fun h x hx => (midChar_iff x).mpr (h x hx)⟩
  rw [hm]
  cases r
  · rw [if_neg (by simp), if_neg (by simp), isAlNum_iff]
    constructor
    · rintro ⟨⟨⟨h1, h2⟩, h3⟩, h4⟩; exact ⟨h1, (fun e => Bool.noConfusion e), fun _ => h2, h3, h4⟩
    · rintro ⟨h1, _, h2, h3, h4⟩; exact ⟨⟨⟨h1, h2 rfl⟩, h3⟩, h4⟩
  · rw [if_pos rfl, if_pos rfl, isLower_iff]
    constructor
    · rintro ⟨⟨⟨h1, h2⟩, h3⟩, h4⟩; exact ⟨h1, fun _ => h2, (fun e => Bool.noConfusion e), h3, h4⟩
    · rintro ⟨h1, h2, _, h3, h4⟩; exact ⟨⟨⟨h1, h2 rfl⟩, h3⟩, h4⟩

/-- a fragment passes `checkFragment` iff it is a label; as a root also at most 16 bytes, starting with a letter -/
theorem checkFragment_iff (v : Bytes) (r : Bool) :
    checkFragment v r = true ↔
      Label v ∧ (r = true → v.length ≤ 16 ∧ ∀ c, v.head? = some c → Lower c) := by
  cases v with
  | nil =>
    constructor
    · intro h; simp [checkFragment] at h
    · rintro ⟨⟨h, _⟩, _⟩; simp at h
  | cons c t =>
    rw [checkFragment_cons]
    rcases List.eq_nil_or_concat t with rfl | ⟨t', z, rfl⟩
    · -- one character
      simp only [middle, List.drop_succ_cons, List.drop_zero, List.dropLast_nil, List.getLastD_cons,
        List.getLastD_nil, List.length_cons, List.length_nil]
      unfold Label
      simp only [List.length_cons, List.length_nil, List.head?_cons, List.getLast?_singleton,
        Option.some.injEq, List.mem_singleton]
      constructor
      · rintro ⟨h1, h2, h3, _, h5⟩
        refine ⟨⟨by omega, by omega, ?_, ?_, ?_⟩, ?_⟩
        · intro x hx; subst hx; exact Or.inl h5
        · intro x hx; subst hx; exact h5
        · intro x hx; subst hx; exact h5
        · intro hr; subst hr
          refine ⟨by simpa using h1, ?_⟩
          intro x hx; subst hx; exact h2 rfl
      · rintro ⟨⟨_, h2, h3, h4, h5⟩, h6⟩
        refine ⟨?_, ?_, ?_, ?_, h4 c rfl⟩
        · cases r
          · simpa using h2
          · simpa using (h6 rfl).1
        · intro hr; exact (h6 hr).2 c rfl
        · intro _; exact h4 c rfl
        · intro x hx; cases hx
    · -- c :: t' ++ [z]
      rw [List.concat_eq_append]
      have hm : middle (c :: (t' ++ [z])) = t' := by
        simp only [middle, List.drop_succ_cons, List.drop_zero, List.dropLast_concat]
      have hl : (c :: (t' ++ [z])).getLastD 0 = z := by
        rw [List.getLastD_cons, List.getLastD_concat]
      have hl' : (c :: (t' ++ [z])).getLast? = some z := by
        have : c :: (t' ++ [z]) = (c :: t') ++ [z] := rfl
        rw [this, List.getLast?_concat]
      rw [hm, hl]
      unfold Label
      simp only [List.head?_cons, Option.some.injEq, hl']
      constructor
      · rintro ⟨h1, h2, h3, h4, h5⟩
        have hc : AlNum c := by
          cases r
          · exact h3 rfl
          · exact lower_alnum (h2 rfl)
        refine ⟨⟨by simp, ?_, ?_, ?_, ?_⟩, ?_⟩
        · cases r
          · simpa using h1
          · have : (c :: (t' ++ [z])).length ≤ 16 := by simpa using h1
            omega
        · intro x hx
          simp only [List.mem_cons, List.mem_append, List.mem_singleton, List.not_mem_nil, or_false] at hx
          rcases hx with rfl | hx | rfl
          · exact Or.inl hc
          · exact h4 x hx
          · exact Or.inl h5
        · intro x hx; subst hx; exact hc
        · intro x hx; subst hx; exact h5
        · intro hr; subst hr
          refine ⟨by simpa using h1, ?_⟩
          intro x hx; subst hx; exact h2 rfl
      · rintro ⟨⟨_, h2, h3, h4, h5⟩, h6⟩
        refine ⟨?_, ?_, ?_, ?_, h5 z rfl⟩
        · cases r
          · simpa using h2
          · simpa using (h6 rfl).1
        · intro hr; exact (h6 hr).2 c rfl
        · intro _; exact h4 c rfl
        · intro x hx; exact h3 x (by simp [hx])

/-- the loop of `safeSplitAndCheck` accepts a non-empty fragment list iff every fragment but the last is a label
and the last one is a label of at most 16 bytes starting with a letter -/
theorem checkFragments_iff (init : List Bytes) (last : Bytes) :
    checkFragments (init ++ [last]) = true ↔
      (∀ v ∈ init, Label v) ∧ Label last ∧ last.length ≤ 16 ∧ (∀ c, last.head? = some c → Lower c) := by
  induction init with
  | nil =>
    show checkFragment last true = true ↔ _
    rw [checkFragment_iff]
    constructor
    · rintro ⟨h1, h2⟩; exact ⟨(fun v hv => nomatch hv), h1, (h2 rfl).1, (h2 rfl).2⟩
    · rintro ⟨_, h1, h2, h3⟩; exact ⟨h1, fun _ => ⟨h2, h3⟩⟩
  | cons f r ih =>
    have hne : ∃ g r', r ++ [last] = g :: r' := by
      cases r with
      | nil => exact ⟨last, [], rfl⟩
      | cons g r' => exact ⟨g, r' ++ [last], rfl⟩
    obtain ⟨g, r', hg⟩ := hne
    have : checkFragments ((f :: r) ++ [last]) = (checkFragment f false && checkFragments (r ++ [last])) := by
      rw [List.cons_append, hg]; rfl
    rw [this, Bool.and_eq_true, ih, checkFragment_iff]
    constructor
    · rintro ⟨⟨h1, _⟩, h2, h3⟩
      refine ⟨?_, h3⟩
      intro v hv; simp only [List.mem_cons] at hv
      rcases hv with rfl | hv
      · exact h1
      · exact h2 v hv
    · rintro ⟨h1, h2⟩
      exact ⟨⟨h1 f (by simp), fun e => Bool.noConfusion e⟩, fun v hv => h1 v (by simp [hv]), h2⟩

theorem label_no_dot {v : Bytes} (h : Label v) : 46 ∉ v := by
  intro hm
  have := h.2.2.1 46 hm
  unfold AlNum Lower Digit at this
  omega

theorem exists_init_last (xs : List Bytes) (h : xs ≠ []) : ∃ init last, xs = init ++ [last] := by
  rcases List.eq_nil_or_concat xs with e | ⟨i, l, e⟩
  · exact absurd e h
  · exact ⟨i, l, by rw [e, List.concat_eq_append]⟩

/-- **safeSplitAndCheck accepts exactly the well-formed names**, and then returns their labels -/
theorem safeSplitAndCheck_isSome_iff (s : Bytes) : (safeSplitAndCheck s).isSome = true ↔ ValidName s := by
  unfold safeSplitAndCheck ValidName
  simp only [minNameLength_eq, maxNameLength_eq]
  by_cases hl : s.length < 3 ∨ 255 < s.length
  · simp only [hl, if_true, Option.isSome_none, Bool.false_eq_true, false_iff]
    rintro ⟨h1, h2, _⟩; omega
  · simp only [hl, if_false]
    obtain ⟨init, last, hs⟩ := exists_init_last (split 46 s) (split_ne_nil 46 s)
    constructor
    · intro h
      have hc : checkFragments (split 46 s) = true := by
        cases hb : checkFragments (split 46 s) with
        | true => rfl
        | false => rw [hb] at h; simp at h
      rw [hs, checkFragments_iff] at hc
      refine ⟨by omega, by omega, init, last, ?_, hc⟩
      rw [← join_eq_sepJoin, ← hs, join_split]
    · rintro ⟨_, _, init', last', hs', h1, h2, h3, h4⟩
      have hsplit : split 46 s = init' ++ [last'] := by
        rw [hs', ← join_eq_sepJoin]
        apply split_join
        · simp
        · intro x hx
          simp only [List.mem_append, List.mem_singleton] at hx
          rcases hx with hx | rfl
          · exact label_no_dot (h1 x hx)
          · exact label_no_dot h2
      have hc : checkFragments (split 46 s) = true := by
        rw [hsplit, checkFragments_iff]; exact ⟨h1, h2, h3, h4⟩
      simp [hc]

theorem safeSplitAndCheck_eq_some (s : Bytes) (frs : List Bytes) (h : safeSplitAndCheck s = some frs) :
    frs = split 46 s ∧ ValidName s := by
  have hv : ValidName s := (safeSplitAndCheck_isSome_iff s).mp (by rw [h]; rfl)
  refine ⟨?_, hv⟩
  unfold safeSplitAndCheck at h
  simp only at h
  split at h
  · cases h
  · split at h
    · exact (Option.some.inj h).symm
    · cases h

end NeoFS.NNSSyntax
