import NeoFS.Lemmas.NetmapRing
/-! # C08: every HALTing `updateSnapshotCount K` preserves `RingInv`, for all old counts,
ring positions and elapsed epochs. -/
namespace NeoFS.NetmapRing
open NeoFS

/-! ### the move loops as parallel assignments -/

theorem growMoves_safe (old new id : Nat) : Par.Safe (growMoves old new id) := by
  apply Par.safe_of_pairwise; unfold growMoves; simp only []; rw [List.pairwise_map]
  refine List.Pairwise.imp_of_mem ?_ (List.pairwise_lt_range (n := new - (new - old + id + 1)))
  intro a b ha hb hab; simp only [List.mem_range] at ha hb
  constructor <;> simp only [ne_eq] <;> omega

theorem shrinkMoves_safe (start step new : Nat) : Par.Safe (shrinkMoves start step new) := by
  apply Par.safe_of_pairwise; unfold shrinkMoves upTo; rw [List.map_map, List.pairwise_map]
  refine List.Pairwise.imp_of_mem ?_ (List.pairwise_lt_range (n := new - start))
  intro a b ha hb hab; simp only [List.mem_range] at ha hb
  simp only [Function.comp]
  constructor <;> simp only [ne_eq] <;> omega

theorem growMoves_par (r : Nat → Option NMap) (old new id : Nat) (_hid : id < old) (hlt : old < new) (j : Nat) :
    Par.applyMoves r (growMoves old new id) j =
      if new - old + id + 1 ≤ j ∧ j < new then r (j - (new - old)) else r j := by
  rw [Par.applyMoves_eq_par _ _ (growMoves_safe old new id)]
  by_cases hj : new - old + id + 1 ≤ j ∧ j < new
  · rw [if_pos hj]
    obtain ⟨m, hm, e, hp⟩ := Par.par_target (growMoves old new id) r j
      ⟨(new - 1 - (new - 1 - j) - (new - old), new - 1 - (new - 1 - j)), by
        unfold growMoves; simp only [List.mem_map, List.mem_range]
        exact ⟨new - 1 - j, by omega, rfl⟩, by simp only []; omega⟩
    rw [hp]
    unfold growMoves at hm; simp only [List.mem_map, List.mem_range] at hm
    obtain ⟨i, hi, rfl⟩ := hm
    simp only [] at e ⊢
    congr 1; omega
  · rw [if_neg hj]
    apply Par.par_nontarget
    intro m hm
    unfold growMoves at hm; simp only [List.mem_map, List.mem_range] at hm
    obtain ⟨i, hi, rfl⟩ := hm
    simp only []; omega

theorem shrinkMoves_par (r : Nat → Option NMap) (start step new : Nat) (j : Nat) :
    Par.applyMoves r (shrinkMoves start step new) j =
      if start ≤ j ∧ j < new then r (j + step) else r j := by
  rw [Par.applyMoves_eq_par _ _ (shrinkMoves_safe start step new)]
  by_cases hj : start ≤ j ∧ j < new
  · rw [if_pos hj]
    obtain ⟨m, hm, e, hp⟩ := Par.par_target (shrinkMoves start step new) r j
      ⟨(j + step, j), by
        unfold shrinkMoves; simp only [List.mem_map, mem_upTo]
        exact ⟨j, hj, rfl⟩, rfl⟩
    rw [hp]
    unfold shrinkMoves at hm; simp only [List.mem_map, mem_upTo] at hm
    obtain ⟨k, _, rfl⟩ := hm
    simp only [] at e ⊢
    subst e; rfl
  · rw [if_neg hj]
    apply Par.par_nontarget
    intro m hm
    unfold shrinkMoves at hm; simp only [List.mem_map, mem_upTo] at hm
    obtain ⟨k, hk, rfl⟩ := hm
    simp only []; omega

/-! ### what a HALTing call looks like -/

/-- `updateSnapshotCount` with its loops written as lists of moves / slots -/
theorem updateSnapshotCount_nat (s : State) (env : Env) (new : Nat) :
    updateSnapshotCount s env (new : Int) =
      if !env.alphabet then none
      else if (new : Int) ≤ 0 then none
      else if (new : Int) > 256 then none
      else if s.count = new then none
      else if s.count < new then
        match applyMoves s.ring (growMoves s.count new s.id) with
        | none => none
        | some r =>
          match delSlots r (upTo (s.id + 1) (if s.count < s.id + 1 + (new - s.count) then s.count
                                            else s.id + 1 + (new - s.count))) with
          | none => none
          | some r' => some { s with count := new, ring := r',
                                     pl := (dropEpochs s.cur s.count new).foldl dropNetmap s.pl }
      else
        match applyMoves s.ring (shrinkMoves (if s.id < new then s.id + 1 else 0)
                (if s.id < new then s.count - new else s.id - new + 1) new) with
        | none => none
        | some r =>
          match delSlots r (upTo new s.count) with
          | none => none
          | some r' => some { s with count := new, id := if s.id < new then s.id else new - 1, ring := r',
                                     pl := (dropEpochs s.cur s.count new).foldl dropNetmap s.pl } := by
  unfold updateSnapshotCount
  simp only [Int.toNat_natCast, moveLoop_eq, delLoop_range, Nat.zero_add]
  simp only [growMoves, shrinkMoves, upTo, List.map_map]
  rfl

theorem resize_some_nat (s s' : State) (env : Env) (new : Nat)
    (h : updateSnapshotCount s env (new : Int) = some s') :
    env.alphabet = true ∧ 0 < new ∧ new ≤ 256 ∧ s.count ≠ new ∧
    ((s.count < new ∧ ∃ r r',
        applyMoves s.ring (growMoves s.count new s.id) = some r ∧
        delSlots r (upTo (s.id + 1) (if s.count < s.id + 1 + (new - s.count) then s.count
                                     else s.id + 1 + (new - s.count))) = some r' ∧
        s' = { s with count := new, ring := r',
                      pl := (dropEpochs s.cur s.count new).foldl dropNetmap s.pl }) ∨
     (new < s.count ∧ ∃ r r',
        applyMoves s.ring (shrinkMoves (if s.id < new then s.id + 1 else 0)
          (if s.id < new then s.count - new else s.id - new + 1) new) = some r ∧
        delSlots r (upTo new s.count) = some r' ∧
        s' = { s with count := new, id := if s.id < new then s.id else new - 1, ring := r',
                      pl := (dropEpochs s.cur s.count new).foldl dropNetmap s.pl })) := by
  rw [updateSnapshotCount_nat] at h
  by_cases ha : env.alphabet = true
  · have hna : ¬ ((!env.alphabet) = true) := by simp [ha]
    rw [if_neg hna] at h
    by_cases hk : (new : Int) ≤ 0
    · rw [if_pos hk] at h; exact absurd h (by simp)
    · rw [if_neg hk] at h
      by_cases hu : (new : Int) > 256
      · rw [if_pos hu] at h; exact absurd h (by simp)
      rw [if_neg hu] at h
      by_cases hc : s.count = new
      · rw [if_pos hc] at h; exact absurd h (by simp)
      · rw [if_neg hc] at h
        refine ⟨ha, by omega, by omega, hc, ?_⟩
        by_cases hg : s.count < new
        · left
          rw [if_pos hg] at h
          cases h1 : applyMoves s.ring (growMoves s.count new s.id) with
          | none => rw [h1] at h; exact absurd h (by simp)
          | some r =>
            rw [h1] at h
            cases h2 : delSlots r (upTo (s.id + 1) (if s.count < s.id + 1 + (new - s.count) then s.count
                                     else s.id + 1 + (new - s.count))) with
            | none => simp only [h2] at h; exact absurd h (by simp)
            | some r' =>
              simp only [h2, Option.some.injEq] at h
              exact ⟨hg, r, r', rfl, h2, h.symm⟩
        · right
          rw [if_neg hg] at h
          cases h1 : applyMoves s.ring (shrinkMoves (if s.id < new then s.id + 1 else 0)
              (if s.id < new then s.count - new else s.id - new + 1) new) with
          | none => rw [h1] at h; exact absurd h (by simp)
          | some r =>
            rw [h1] at h
            cases h2 : delSlots r (upTo new s.count) with
            | none => simp only [h2] at h; exact absurd h (by simp)
            | some r' =>
              simp only [h2, Option.some.injEq] at h
              exact ⟨by omega, r, r', rfl, h2, h.symm⟩
  · simp [ha] at h

/-- an accepted count is positive and at most 256 (the two guards) -/
theorem resize_bounds (s s' : State) (env : Env) (k : Int) (h : updateSnapshotCount s env k = some s') :
    0 < k ∧ k ≤ 256 := by
  unfold updateSnapshotCount at h
  by_cases ha : env.alphabet = true
  · by_cases hk : k ≤ 0
    · simp [ha, hk] at h
    · by_cases hu : k > 256
      · simp [ha, hk, hu] at h
      · omega
  · simp [ha] at h

theorem resize_pos (s s' : State) (env : Env) (k : Int) (h : updateSnapshotCount s env k = some s') :
    0 < k := (resize_bounds s s' env k h).1

/-- `count > 256` is refused (FAULT), whoever signs and whatever the state -/
theorem resize_above_refused (s : State) (env : Env) (k : Int) (hk : 256 < k) :
    updateSnapshotCount s env k = none := by
  cases h : updateSnapshotCount s env k with
  | none => rfl
  | some s' => have := (resize_bounds s s' env k h).2; omega

/-! ### the node lists after the drop loop -/

theorem pl_resize (s : State) (p : Spec) (h : RingInv s p) (new : Nat) (hn2 : new ≤ 256) :
    (∀ e : Nat, p.cur < e + min p.valid new → e ≤ p.cur →
       pget ((dropEpochs s.cur s.count new).foldl dropNetmap s.pl) (be4 (e : Int)) = (p.ago (p.cur - e)).nodes) ∧
    (∀ k4 : Bytes, (∀ e : Nat, p.cur < e + min p.valid new → e ≤ p.cur → be4 (e : Int) ≠ k4) →
       pget ((dropEpochs s.cur s.count new).foldl dropNetmap s.pl) k4 = []) := by
  have hcnt := h.count_eq
  have hcure := h.cur_eq
  have hv1 := h.valid_le_n
  have hc32 := h.cur_lt
  have hle := h.n_le
  constructor
  · intro e h1 h2
    rw [foldl_drop_get]
    have hno : ¬ ∃ k ∈ dropEpochs s.cur s.count new, be4 k = be4 (e : Int) := by
      rintro ⟨k, hk, heq⟩
      rw [mem_dropEpochs] at hk
      by_cases hneg : k < 0
      · exact be4_neg_ne k e p.cur hneg (by omega) h2 hc32 heq
      · obtain ⟨kn, rfl⟩ : ∃ kn : Nat, k = (kn : Int) := ⟨k.toNat, by omega⟩
        have := be4_inj_nat kn e (by omega) (by omega) heq
        omega
    rw [if_neg hno]
    exact h.pl_in e (by omega) h2
  · intro k4 hk
    rw [foldl_drop_get]
    by_cases hex : ∃ k ∈ dropEpochs s.cur s.count new, be4 k = k4
    · rw [if_pos hex]
    · rw [if_neg hex]
      apply h.pl_out
      intro e h1 h2
      by_cases hin : p.cur < e + min p.valid new
      · exact hk e hin h2
      · intro heq
        apply hex
        refine ⟨(e : Int), ?_, heq⟩
        rw [mem_dropEpochs]; omega

/-! ### from the three transport facts to the invariant -/

theorem inv_resize_core (s : State) (p : Spec) (h : RingInv s p) (new id' : Nat) (r' : Ring)
    (hn1 : 1 ≤ new) (hn2 : new ≤ 256) (hid' : id' < new)
    (T1 : ∀ d, d < p.n → d < new → rget r' (slotOf id' new d) = rget s.ring (slotOf s.id p.n d))
    (T2 : ∀ d, p.n ≤ d → d < new → rget r' (slotOf id' new d) = none)
    (T3 : ∀ j, new ≤ j → rget r' j = none) :
    RingInv { s with count := new, id := id', ring := r',
                     pl := (dropEpochs s.cur s.count new).foldl dropNetmap s.pl } (p.resize new) := by
  have hv1 := h.valid_le_n
  obtain ⟨P1, P2⟩ := pl_resize s p h new hn2
  refine ⟨rfl, h.cur_eq, hn1, hn2, hid', ?_, ?_, h.hist_len, h.cur_lt, ?_, ?_, ?_, ?_, ?_⟩
  · show min p.valid new ≤ new; omega
  · show min p.valid new ≤ p.cur; have := h.valid_le_cur; omega
  · intro d hd
    have hd' : d < min p.valid new := hd
    show rget r' (slotOf id' new d) = some ((p.resize new).ago d).legacy
    rw [T1 d (by omega) (by omega), ago_resize]
    exact h.ring_in d (by omega)
  · intro d hd1 hd2
    have hd1' : min p.valid new ≤ d := hd1
    have hd2' : d < new := hd2
    show (rget r' (slotOf id' new d)).getD [] = []
    by_cases ho : d < p.n
    · rw [T1 d ho hd2']
      exact h.ring_out d (by omega) ho
    · rw [T2 d (by omega) hd2']; rfl
  · intro j hj
    exact T3 j hj
  · intro e h1 h2
    exact P1 e h1 h2
  · intro k4 hk
    exact P2 k4 hk

/-! ### the three cases -/

theorem inv_grow (s : State) (p : Spec) (h : RingInv s p) (new : Nat) (r r' : Ring)
    (hlt : s.count < new) (hn2 : new ≤ 256)
    (h1 : applyMoves s.ring (growMoves s.count new s.id) = some r)
    (h2 : delSlots r (upTo (s.id + 1) (if s.count < s.id + 1 + (new - s.count) then s.count
                                       else s.id + 1 + (new - s.count))) = some r') :
    RingInv { s with count := new, ring := r',
                     pl := (dropEpochs s.cur s.count new).foldl dropNetmap s.pl } (p.resize new) := by
  have hcnt := h.count_eq
  have hid := h.id_lt
  have hn1 := h.n_pos
  rw [hcnt] at h1 h2 hlt
  have hF : ∀ j, rget r' j =
      if s.id + 1 ≤ j ∧ j < (if p.n < s.id + 1 + (new - p.n) then p.n else s.id + 1 + (new - p.n)) then none
      else if new - p.n + s.id + 1 ≤ j ∧ j < new then rget s.ring (j - (new - p.n)) else rget s.ring j := by
    intro j
    rw [delSlots_get _ _ _ h2 j]
    simp only [mem_upTo]
    rw [(applyMoves_get _ _ _ h1).2, growMoves_par _ _ _ _ hid hlt]
  have := inv_resize_core s p h new s.id r' (by omega) hn2 (by omega) ?_ ?_ ?_
  · exact this
  · intro d hd1 hd2
    rw [hF]
    unfold slotOf
    by_cases c : d ≤ s.id
    · simp only [c, if_true]
      rw [if_neg (by omega), if_neg (by omega)]
    · simp only [c, if_false]
      rw [if_neg (by split <;> omega), if_pos (by omega)]
      congr 1; omega
  · intro d hd1 hd2
    rw [hF]
    unfold slotOf
    have c : ¬ d ≤ s.id := by omega
    simp only [c, if_false]
    by_cases c2 : s.id + new - d < (if p.n < s.id + 1 + (new - p.n) then p.n else s.id + 1 + (new - p.n))
    · rw [if_pos ⟨by omega, c2⟩]
    · rw [if_neg (by omega), if_neg (by omega)]
      apply h.ring_beyond
      split at c2 <;> omega
  · intro j hj
    rw [hF, if_neg (by split <;> omega), if_neg (by omega)]
    exact h.ring_beyond j (by omega)

theorem inv_shrink (s : State) (p : Spec) (h : RingInv s p) (new : Nat) (r r' : Ring)
    (hlt : new < s.count) (hn1 : 1 ≤ new)
    (h1 : applyMoves s.ring (shrinkMoves (if s.id < new then s.id + 1 else 0)
          (if s.id < new then s.count - new else s.id - new + 1) new) = some r)
    (h2 : delSlots r (upTo new s.count) = some r') :
    RingInv { s with count := new, id := if s.id < new then s.id else new - 1, ring := r',
                     pl := (dropEpochs s.cur s.count new).foldl dropNetmap s.pl } (p.resize new) := by
  have hcnt := h.count_eq
  have hid := h.id_lt
  have hn2 := h.n_le
  rw [hcnt] at h1 h2 hlt
  have hF : ∀ j, rget r' j =
      if new ≤ j ∧ j < p.n then none
      else if (if s.id < new then s.id + 1 else 0) ≤ j ∧ j < new then
        rget s.ring (j + (if s.id < new then p.n - new else s.id - new + 1))
      else rget s.ring j := by
    intro j
    rw [delSlots_get _ _ _ h2 j]
    simp only [mem_upTo]
    rw [(applyMoves_get _ _ _ h1).2, shrinkMoves_par]
  have := inv_resize_core s p h new (if s.id < new then s.id else new - 1) r' hn1 (by omega)
    (by split <;> omega) ?_ ?_ ?_
  · exact this
  · intro d hd1 hd2
    rw [hF]
    by_cases c : s.id < new
    · simp only [c, if_true]
      unfold slotOf
      by_cases c2 : d ≤ s.id
      · simp only [c2, if_true]
        rw [if_neg (by omega), if_neg (by omega)]
      · simp only [c2, if_false]
        rw [if_neg (by omega), if_pos (by omega)]
        congr 1; omega
    · simp only [c, if_false]
      unfold slotOf
      have c2 : d ≤ new - 1 := by omega
      have c3 : d ≤ s.id := by omega
      simp only [c2, c3, if_true]
      rw [if_neg (by omega), if_pos (by omega)]
      congr 1; omega
  · intro d hd1 hd2; omega
  · intro j hj
    rw [hF]
    by_cases c : j < p.n
    · rw [if_pos ⟨hj, c⟩]
    · rw [if_neg (by omega), if_neg (by omega)]
      exact h.ring_beyond j (by omega)

/-- **Every HALTing `updateSnapshotCount K` preserves the invariant** — all old counts, all ring positions,
all elapsed epochs (the guards of the method give `1 ≤ K ≤ 256`). -/
theorem inv_resize (s s' : State) (p : Spec) (env : Env) (k : Int) (h : RingInv s p)
    (hr : updateSnapshotCount s env k = some s') : RingInv s' (p.resize k.toNat) := by
  obtain ⟨hpos, _⟩ := resize_bounds s s' env k hr
  obtain ⟨new, rfl⟩ : ∃ new : Nat, k = (new : Int) := ⟨k.toNat, by omega⟩
  rw [Int.toNat_natCast]
  obtain ⟨_, _, hle, _, hcase⟩ := resize_some_nat s s' env new hr
  rcases hcase with ⟨hlt, r, r', h1, h2, rfl⟩ | ⟨hlt, r, r', h1, h2, rfl⟩
  · exact inv_grow s p h new r r' hlt hle h1 h2
  · exact inv_shrink s p h new r r' hlt (by omega) h1 h2

end NeoFS.NetmapRing
