import NeoFS.Lemmas.NNSSyntaxSplit
/-! The hexadecimal reader: `std.Atoi("0" + f, 16)` for a group `f` of one to four characters is the plain
non-negative hexadecimal value, or a FAULT when a character is not a hexadecimal digit. -/
namespace NeoFS.NNSSyntax
open NeoFS NeoFS.NNSSyntax.Spec

theorem hexDigit_of_hexChar (c : Nat) (h : HexChar c) : hexDigit c = some (hexCharVal c) := by
  unfold HexChar Digit at h
  unfold hexDigit hexCharVal
  rcases h with h | h | h
  · rw [if_pos h, if_pos (by omega)]
  · rw [if_neg (by omega), if_pos h, if_neg (by omega), if_neg (by omega)]
  · rw [if_neg (by omega), if_neg (by omega), if_pos h, if_neg (by omega), if_pos (by omega)]

theorem hexDigit_of_not_hexChar (c : Nat) (h : ¬ HexChar c) : hexDigit c = none := by
  unfold HexChar Digit at h
  unfold hexDigit
  rw [if_neg (by omega), if_neg (by omega), if_neg (by omega)]

theorem hexCharVal_lt (c : Nat) (h : HexChar c) : hexCharVal c < 16 := by
  unfold HexChar Digit at h
  unfold hexCharVal
  rcases h with h | h | h
  · rw [if_pos (by omega)]; omega
  · rw [if_neg (by omega), if_neg (by omega)]; omega
  · rw [if_neg (by omega), if_pos (by omega)]; omega

theorem hexDigit_zero : hexDigit 48 = some 0 := by decide

theorem groupVal_one (a : Nat) : groupVal [a] = hexCharVal a := by simp [groupVal]
theorem groupVal_two (a b : Nat) : groupVal [a, b] = hexCharVal a * 16 + hexCharVal b := by simp [groupVal]
theorem groupVal_three (a b c : Nat) :
    groupVal [a, b, c] = (hexCharVal a * 16 + hexCharVal b) * 16 + hexCharVal c := by simp [groupVal]
theorem groupVal_four (a b c d : Nat) :
    groupVal [a, b, c, d] = ((hexCharVal a * 16 + hexCharVal b) * 16 + hexCharVal c) * 16 + hexCharVal d := by
  simp [groupVal]

theorem atoi16_one (a x : Nat) (ha : hexDigit a = some x) (hx : x < 16) : atoi16 [48, a] = some (x : Int) := by
  have hb : hexBytes [48, a] = some [x] := by simp [hexBytes, hexDigit_zero, ha]
  have hn : ¬ (128 ≤ x) := by omega
  simp [atoi16, hb, beVal, hn]

theorem atoi16_two (a b x y : Nat) (ha : hexDigit a = some x) (hb : hexDigit b = some y) (hx : x < 16) (hy : y < 16) :
    atoi16 [48, a, b] = some ((x * 16 + y : Nat) : Int) := by
  have h : hexBytes [48, 48, a, b] = some [0, x * 16 + y] := by simp [hexBytes, hexDigit_zero, ha, hb]
  simp [atoi16, h, beVal]

theorem atoi16_three (a b c x y z : Nat) (ha : hexDigit a = some x) (hb : hexDigit b = some y)
    (hc : hexDigit c = some z) (hx : x < 16) (hy : y < 16) (hz : z < 16) :
    atoi16 [48, a, b, c] = some (((x * 16 + y) * 16 + z : Nat) : Int) := by
  have h : hexBytes [48, a, b, c] = some [x, y * 16 + z] := by simp [hexBytes, hexDigit_zero, ha, hb, hc]
  have hn : ¬ (128 ≤ x) := by omega
  simp [atoi16, h, beVal, hn]
  omega

theorem atoi16_four (a b c d x y z w : Nat) (ha : hexDigit a = some x) (hb : hexDigit b = some y)
    (hc : hexDigit c = some z) (hd : hexDigit d = some w) (hx : x < 16) (hy : y < 16) (hz : z < 16) (hw : w < 16) :
    atoi16 [48, a, b, c, d] = some ((((x * 16 + y) * 16 + z) * 16 + w : Nat) : Int) := by
  have h : hexBytes [48, 48, a, b, c, d] = some [0, x * 16 + y, z * 16 + w] := by
    simp [hexBytes, hexDigit_zero, ha, hb, hc, hd]
  simp [atoi16, h, beVal]
  omega

theorem hexBytes_none_of_digit (a b : Nat) (r : Bytes) (h : hexDigit a = none ∨ hexDigit b = none) :
    hexBytes (a :: b :: r) = none := by
  simp only [hexBytes]
  rcases h with h | h
  · rw [h]
  · rw [h]; cases hexDigit a <;> rfl

theorem hexBytes_none_tail (a b : Nat) (r : Bytes) (h : hexBytes r = none) : hexBytes (a :: b :: r) = none := by
  simp only [hexBytes]
  rw [h]; cases hexDigit a <;> cases hexDigit b <;> rfl

theorem atoi16_none_even (s : Bytes) (hl : s.length % 2 = 0) (h : hexBytes s = none) : atoi16 s = none := by
  unfold atoi16
  have : decide (s.length % 2 = 1) = false := decide_eq_false (by omega)
  simp only [this, Bool.false_eq_true, if_false, h]

theorem atoi16_none_odd (s : Bytes) (hl : s.length % 2 = 1) (h : hexBytes (48 :: s) = none) : atoi16 s = none := by
  unfold atoi16
  have : decide (s.length % 2 = 1) = true := decide_eq_true hl
  simp only [this, if_true, h]

/-- `std.Atoi("0"+f, 16)` of a hexadecimal group is its value: never negative (the F8 repair) -/
theorem atoi16_pad_group (f : Bytes) (h : HexGroup f) : atoi16 (48 :: f) = some ((groupVal f : Nat) : Int) := by
  obtain ⟨h1, h4, hc⟩ := h
  match f, h1, h4, hc with
  | [a], _, _, hc =>
    have ha := hc a (by simp)
    rw [groupVal_one]; exact atoi16_one a _ (hexDigit_of_hexChar a ha) (hexCharVal_lt a ha)
  | [a, b], _, _, hc =>
    have ha := hc a (by simp); have hb := hc b (by simp)
    rw [groupVal_two]
    exact atoi16_two a b _ _ (hexDigit_of_hexChar a ha) (hexDigit_of_hexChar b hb) (hexCharVal_lt a ha) (hexCharVal_lt b hb)
  | [a, b, c], _, _, hc =>
    have ha := hc a (by simp); have hb := hc b (by simp); have hcc := hc c (by simp)
    rw [groupVal_three]
    exact atoi16_three a b c _ _ _ (hexDigit_of_hexChar a ha) (hexDigit_of_hexChar b hb) (hexDigit_of_hexChar c hcc)
      (hexCharVal_lt a ha) (hexCharVal_lt b hb) (hexCharVal_lt c hcc)
  | [a, b, c, d], _, _, hc =>
    have ha := hc a (by simp); have hb := hc b (by simp); have hcc := hc c (by simp); have hd := hc d (by simp)
    rw [groupVal_four]
    exact atoi16_four a b c d _ _ _ _ (hexDigit_of_hexChar a ha) (hexDigit_of_hexChar b hb) (hexDigit_of_hexChar c hcc)
      (hexDigit_of_hexChar d hd) (hexCharVal_lt a ha) (hexCharVal_lt b hb) (hexCharVal_lt c hcc) (hexCharVal_lt d hd)
  | _ :: _ :: _ :: _ :: _ :: _, _, h4, _ => simp at h4

theorem groupVal_le (f : Bytes) (h : HexGroup f) : groupVal f ≤ 65535 := by
  obtain ⟨h1, h4, hc⟩ := h
  match f, h1, h4, hc with
  | [a], _, _, hc =>
    have := hexCharVal_lt a (hc a (by simp)); rw [groupVal_one]; omega
  | [a, b], _, _, hc =>
    have := hexCharVal_lt a (hc a (by simp)); have := hexCharVal_lt b (hc b (by simp)); rw [groupVal_two]; omega
  | [a, b, c], _, _, hc =>
    have := hexCharVal_lt a (hc a (by simp)); have := hexCharVal_lt b (hc b (by simp))
    have := hexCharVal_lt c (hc c (by simp)); rw [groupVal_three]; omega
  | [a, b, c, d], _, _, hc =>
    have := hexCharVal_lt a (hc a (by simp)); have := hexCharVal_lt b (hc b (by simp))
    have := hexCharVal_lt c (hc c (by simp)); have := hexCharVal_lt d (hc d (by simp)); rw [groupVal_four]; omega
  | _ :: _ :: _ :: _ :: _ :: _, _, h4, _ => simp at h4

/-- a group of one to four characters with a non-hexadecimal character makes `std.Atoi` FAULT -/
theorem atoi16_pad_bad (f : Bytes) (h1 : 1 ≤ f.length) (h4 : f.length ≤ 4) (hbad : ¬ ∀ c ∈ f, HexChar c) :
    atoi16 (48 :: f) = none := by
  have key : ∀ c, ¬ HexChar c → hexDigit c = none := hexDigit_of_not_hexChar
  match f, h1, h4, hbad with
  | [a], _, _, hbad =>
    have ha : ¬ HexChar a := fun h => hbad (by intro c hc; simp at hc; subst hc; exact h)
    apply atoi16_none_even _ (by simp)
    exact hexBytes_none_of_digit _ _ _ (Or.inr (key a ha))
  | [a, b], _, _, hbad =>
    apply atoi16_none_odd _ (by simp)
    apply hexBytes_none_tail
    by_cases ha : HexChar a
    · by_cases hb : HexChar b
      · exact absurd (by intro c hc; simp at hc; rcases hc with rfl | rfl <;> assumption) hbad
      · exact hexBytes_none_of_digit _ _ _ (Or.inr (key b hb))
    · exact hexBytes_none_of_digit _ _ _ (Or.inl (key a ha))
  | [a, b, c], _, _, hbad =>
    apply atoi16_none_even _ (by simp)
    by_cases ha : HexChar a
    · apply hexBytes_none_tail
      by_cases hb : HexChar b
      · by_cases hc : HexChar c
        · exact absurd (by intro x hx; simp at hx; rcases hx with rfl | rfl | rfl <;> assumption) hbad
        · exact hexBytes_none_of_digit _ _ _ (Or.inr (key c hc))
      · exact hexBytes_none_of_digit _ _ _ (Or.inl (key b hb))
    · exact hexBytes_none_of_digit _ _ _ (Or.inr (key a ha))
  | [a, b, c, d], _, _, hbad =>
    apply atoi16_none_odd _ (by simp)
    apply hexBytes_none_tail
    by_cases ha : HexChar a
    · by_cases hb : HexChar b
      · apply hexBytes_none_tail
        by_cases hc : HexChar c
        · by_cases hd : HexChar d
          · exact absurd (by intro x hx; simp at hx; rcases hx with rfl | rfl | rfl | rfl <;> assumption) hbad
          · exact hexBytes_none_of_digit _ _ _ (Or.inr (key d hd))
        · exact hexBytes_none_of_digit _ _ _ (Or.inl (key c hc))
      · exact hexBytes_none_of_digit _ _ _ (Or.inr (key b hb))
    · exact hexBytes_none_of_digit _ _ _ (Or.inl (key a ha))
  | _ :: _ :: _ :: _ :: _ :: _, _, h4, _ => simp at h4

/-- the unrepaired reading (F8): without the leading `0`, `ffff` is `-1` -/
example : atoi16 [102, 102, 102, 102] = some (-1) := by decide
example : atoi16 [48, 102, 102, 102, 102] = some 65535 := by decide
example : atoi16 [102, 48, 48] = some (-256) := by decide

end NeoFS.NNSSyntax
