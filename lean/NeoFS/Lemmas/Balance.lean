import NeoFS.Model.Balance
set_option linter.unusedSimpArgs false
set_option linter.unusedVariables false
/-! Helper lemmas for the Balance model (C01, C02, C09). Property theorems live in NeoFS/Props. -/
namespace NeoFS.Balance
open NeoFS
/-! ### lemmas on the account map -/

theorem getAcc_absent (m : Accts) (k : Hash) (h : k ∉ m.map (·.1)) : getAcc m k = Account.empty := by
  unfold getAcc
  have : m.find? (fun kv => kv.1 == k) = none := by
    rw [List.find?_eq_none]; intro y hy
    simp only [beq_iff_eq]
    intro e; exact h (e ▸ List.mem_map_of_mem (f := (·.1)) hy)
  simp [this]

theorem delAcc_absent (m : Accts) (k : Hash) (h : k ∉ m.map (·.1)) : delAcc m k = m := by
  unfold delAcc; rw [List.filter_eq_self]; intro y hy
  simp only [bne_iff_ne, ne_eq]
  intro e; exact h (e ▸ List.mem_map_of_mem (f := (·.1)) hy)

theorem total_del (m : Accts) (k : Hash) (h : Uniq m) : total (delAcc m k) = total m - (getAcc m k).bal := by
  induction m with
  | nil => simp [delAcc, total, getAcc, Account.empty]
  | cons x xs ih =>
    obtain ⟨kx, vx⟩ := x
    have hxs : Uniq xs := by unfold Uniq at *; exact (List.nodup_cons.mp h).2
    have hnot : kx ∉ xs.map (·.1) := by unfold Uniq at h; exact (List.nodup_cons.mp h).1
    by_cases e : kx = k
    · subst e
      have h2 := delAcc_absent xs kx hnot
      have e1 : delAcc ((kx, vx) :: xs) kx = delAcc xs kx := by simp [delAcc, List.filter_cons]
      have e2 : getAcc ((kx, vx) :: xs) kx = vx := by simp [getAcc, List.find?_cons]
      rw [e1, h2, e2]; simp only [total]; omega
    · have e1 : delAcc ((kx, vx) :: xs) k = (kx, vx) :: delAcc xs k := by simp [delAcc, List.filter_cons, e]
      have e2 : getAcc ((kx, vx) :: xs) k = getAcc xs k := by simp [getAcc, List.find?_cons, e]
      rw [e1, e2]; simp only [total]; rw [ih hxs]; omega

theorem total_set (m : Accts) (k : Hash) (a : Account) (h : Uniq m) :
    total (setAcc m k a) = total m - (getAcc m k).bal + a.bal := by
  unfold setAcc; simp only [total]; rw [total_del m k h]; omega

theorem uniq_del (m : Accts) (k : Hash) (h : Uniq m) : Uniq (delAcc m k) := by
  unfold Uniq delAcc at *; exact List.Nodup.sublist (List.Sublist.map _ List.filter_sublist) h

theorem not_mem_del (m : Accts) (k : Hash) : k ∉ (delAcc m k).map (·.1) := by
  unfold delAcc; intro h
  rw [List.mem_map] at h
  obtain ⟨x, hx, rfl⟩ := h
  rw [List.mem_filter] at hx
  simp at hx

theorem uniq_set (m : Accts) (k : Hash) (a : Account) (h : Uniq m) : Uniq (setAcc m k a) := by
  unfold setAcc Uniq
  rw [List.map_cons, List.nodup_cons]
  exact ⟨not_mem_del m k, uniq_del m k h⟩

def Nonneg (m : Accts) : Prop := ∀ kv ∈ m, 0 ≤ kv.2.bal

theorem getAcc_nonneg (m : Accts) (k : Hash) (h : Nonneg m) : 0 ≤ (getAcc m k).bal := by
  unfold getAcc
  cases hf : m.find? (fun kv => kv.1 == k) with
  | none => simp [Account.empty]
  | some kv => simpa using h kv (List.mem_of_find?_eq_some hf)

theorem nonneg_del (m : Accts) (k : Hash) (h : Nonneg m) : Nonneg (delAcc m k) := by
  intro kv hkv; exact h kv (List.mem_filter.mp hkv).1

theorem nonneg_set (m : Accts) (k : Hash) (a : Account) (h : Nonneg m) (ha : 0 ≤ a.bal) :
    Nonneg (setAcc m k a) := by
  intro kv hkv
  unfold setAcc at hkv
  rcases List.mem_cons.mp hkv with rfl | hkv
  · exact ha
  · exact nonneg_del m k h kv hkv

def debit (frm : Hash) (amt : Int) : Int := if frm.length == 20 then amt else 0

/-- what one `Token.transfer` does to the sheet, for every argument -/
theorem xfer_spec (m m' : Accts) (env : Env) (f t : Hash) (amt : Int) (ir : Bool) (d : List Nat)
    (ev : List Event) (hu : Uniq m) (hn : Nonneg m) (h : xfer m env f t amt ir d = some (m', ev)) :
    Uniq m' ∧ Nonneg m' ∧ 0 ≤ amt ∧ total m' = total m - debit f amt + debit t amt ∧
      ev = [.transfer f t amt, .transferX f t amt d] := by
  unfold xfer at h
  cases hc : canTransfer m env f t amt ir with
  | none => rw [hc] at h; cases h
  | some a =>
    rw [hc] at h
    simp only [Option.some.injEq, Prod.mk.injEq] at h
    obtain ⟨hm, hev⟩ := h
    -- facts from canTransfer
    have hamt : 0 ≤ amt := by
      unfold canTransfer at hc
      by_cases hlt : amt < 0
      · simp [hlt] at hc
      · omega
    have ha : f.length = 20 → a = getAcc m f ∧ amt ≤ a.bal := by
      intro hf
      unfold canTransfer at hc
      have hlt : ¬ amt < 0 := by omega
      simp only [hlt, if_false] at hc
      split at hc
      · cases hc
      · split at hc
        · rename_i h2
          have : (f.length == 0) = false := by simp [hf]
          simp [this] at h2
        · split at hc
          · cases hc
          · rename_i h3
            simp only [Option.some.injEq] at hc
            subst hc
            exact ⟨rfl, by omega⟩
    -- step 1: debit
    have h1 : ∃ m1, m1 = (if (f.length == 20) = true then
          (if a.bal = amt then delAcc m f else setAcc m f { a with bal := a.bal - amt }) else m) ∧
        Uniq m1 ∧ Nonneg m1 ∧ total m1 = total m - debit f amt := by
      refine ⟨_, rfl, ?_⟩
      by_cases hf : f.length = 20
      · obtain ⟨rfl, hle⟩ := ha hf
        have hfb : (f.length == 20) = true := by simp [hf]
        simp only [hfb, if_true, debit]
        by_cases heq : (getAcc m f).bal = amt
        · simp only [heq, if_true]
          exact ⟨uniq_del m f hu, nonneg_del m f hn, by rw [total_del m f hu]; omega⟩
        · simp only [heq, if_false]
          refine ⟨uniq_set m f _ hu, nonneg_set m f _ hn (by simp; omega), ?_⟩
          rw [total_set m f _ hu]; simp; omega
      · have hfb : (f.length == 20) = false := by simp [hf]
        simp only [hfb, debit]
        exact ⟨hu, hn, by simp⟩
    obtain ⟨m1, hm1, hu1, hn1, ht1⟩ := h1
    rw [← hm1] at hm
    -- step 2: credit
    refine ⟨?_, ?_, hamt, ?_, hev.symm⟩
    · rw [← hm]; split
      · exact uniq_set m1 t _ hu1
      · exact hu1
    · rw [← hm]; split
      · exact nonneg_set m1 t _ hn1 (by have := getAcc_nonneg m1 t hn1; simp; omega)
      · exact hn1
    · rw [← hm]
      by_cases ht : t.length = 20
      · have htb : (t.length == 20) = true := by simp [ht]
        simp only [htb, if_true, debit]
        rw [total_set m1 t _ hu1, ht1]; simp [debit]; omega
      · have htb : (t.length == 20) = false := by simp [ht]
        simp only [htb, debit]
        simp only [Bool.false_eq_true, if_false]
        rw [ht1]; simp [debit]

/-- the property's own restrictions on arguments (C01 quantifier): Alphabet-only methods get
20-byte addresses; a lock target holds no funds (a fresh address, or an empty record `⟨0,_,_⟩`
left there e.g. by somebody's zero-amount transfer — `Lock` overwrites that record) -/
def WFOp (s : State) : Op → Prop
  | .transfer _ _ _ => True
  | .transferX f t _ _ => f.length = 20 ∧ t.length = 20
  | .mint t _ _ => t.length = 20
  | .burn f _ _ => f.length = 20
  | .lock _ f t _ _ => f.length = 20 ∧ t.length = 20 ∧ (getAcc s.accts t).bal = 0
  | .newEpoch _ => True

/-- every lock account's refund address is a well-formed account address -/
def ParentsOK (m : Accts) : Prop := ∀ kv ∈ m, kv.2.parent ≠ [] → kv.2.parent.length = 20

structure BInv (s : State) : Prop where
  uniq : Uniq s.accts
  nonneg : Nonneg s.accts
  sum : s.supply = total s.accts

/-- a fresh address holds nothing -/
theorem fresh_bal_zero (m : Accts) (t : Hash) (h : t ∉ m.map (·.1)) : (getAcc m t).bal = 0 := by
  rw [getAcc_absent m t h]; rfl

/-- the old quantifier (fresh lock target) is a special case of the current one -/
theorem wfOp_lock_of_fresh (s : State) (d : List Nat) (f t : Hash) (amt till : Int)
    (hf : f.length = 20) (ht : t.length = 20) (h : t ∉ s.accts.map (·.1)) :
    WFOp s (.lock d f t amt till) := ⟨hf, ht, fresh_bal_zero s.accts t h⟩

theorem debit20 (h : Hash) (amt : Int) (hl : h.length = 20) : debit h amt = amt := by simp [debit, hl]
theorem debit_nil (amt : Int) : debit [] amt = 0 := by simp [debit]

/-- C01, one step, all methods except the epoch tick (every argument, every caller) -/
theorem inv_step_basic (s : State) (env : Env) (op : Op) (h : BInv s) (hw : WFOp s op)
    (hne : ∀ e, op ≠ .newEpoch e) : BInv (invoke s env op).1 := by
  obtain ⟨hu, hn, hs⟩ := h
  unfold invoke
  cases hstep : step s env op with
  | none => exact ⟨hu, hn, hs⟩
  | some r =>
    obtain ⟨s', ret, ev⟩ := r
    show BInv s'
    cases op with
    | newEpoch e => exact absurd rfl (hne e)
    | transfer f t amt =>
      simp only [step] at hstep
      cases hx : xfer s.accts env f t amt false [] with
      | none => rw [hx] at hstep; simp at hstep; rw [← hstep.1]; exact ⟨hu, hn, hs⟩
      | some p =>
        obtain ⟨m, ev'⟩ := p
        rw [hx] at hstep; simp at hstep
        obtain ⟨hu', hn', _, ht, _⟩ := xfer_spec _ _ _ _ _ _ _ _ _ hu hn hx
        -- the public method refuses unless both addresses are 20 bytes
        have hl : f.length = 20 ∧ t.length = 20 := by
          unfold xfer at hx
          cases hc : canTransfer s.accts env f t amt false with
          | none => rw [hc] at hx; cases hx
          | some a =>
            unfold canTransfer at hc
            by_cases hlt : amt < 0
            · simp [hlt] at hc
            · simp only [hlt, if_false] at hc
              split at hc
              · cases hc
              · rename_i h2
                simp [usable] at h2
                exact ⟨h2.2.1, h2.1⟩
        rw [← hstep.1]
        exact ⟨hu', hn', by show s.supply = total m; rw [ht, debit20 f amt hl.1, debit20 t amt hl.2, hs]; omega⟩
    | transferX f t amt d =>
      simp only [step] at hstep
      split at hstep
      · cases hstep
      · cases hx : xfer s.accts env f t amt true d with
        | none => rw [hx] at hstep; cases hstep
        | some p =>
          obtain ⟨m, ev'⟩ := p
          rw [hx] at hstep; simp at hstep
          obtain ⟨hu', hn', _, ht, _⟩ := xfer_spec _ _ _ _ _ _ _ _ _ hu hn hx
          rw [← hstep.1]
          exact ⟨hu', hn', by show s.supply = total m; rw [ht, debit20 f amt hw.1, debit20 t amt hw.2, hs]; omega⟩
    | mint t amt d =>
      simp only [step] at hstep
      split at hstep
      · cases hstep
      · cases hx : xfer s.accts env [] t amt true (1 :: d) with
        | none => rw [hx] at hstep; cases hstep
        | some p =>
          obtain ⟨m, ev'⟩ := p
          rw [hx] at hstep; simp at hstep
          obtain ⟨hu', hn', _, ht, _⟩ := xfer_spec _ _ _ _ _ _ _ _ _ hu hn hx
          rw [← hstep.1]
          exact ⟨hu', hn', by show s.supply + amt = total m; rw [ht, debit_nil, debit20 t amt hw, hs]; omega⟩
    | burn f amt d =>
      simp only [step] at hstep
      split at hstep
      · cases hstep
      · cases hx : xfer s.accts env f [] amt true (2 :: d) with
        | none => rw [hx] at hstep; cases hstep
        | some p =>
          obtain ⟨m, ev'⟩ := p
          rw [hx] at hstep
          simp only at hstep
          split at hstep
          · cases hstep
          · simp at hstep
            obtain ⟨hu', hn', _, ht, _⟩ := xfer_spec _ _ _ _ _ _ _ _ _ hu hn hx
            rw [← hstep.1]
            exact ⟨hu', hn', by show s.supply - amt = total m; rw [ht, debit_nil, debit20 f amt hw, hs]; omega⟩
    | lock d f t amt till =>
      simp only [step] at hstep
      split at hstep
      · cases hstep
      · cases hx : xfer (setAcc s.accts t ⟨0, till, f⟩) env f t amt true (3 :: d) with
        | none => rw [hx] at hstep; cases hstep
        | some p =>
          obtain ⟨m, ev'⟩ := p
          rw [hx] at hstep; simp at hstep
          have hu0 := uniq_set s.accts t ⟨0, till, f⟩ hu
          have hn0 := nonneg_set s.accts t ⟨0, till, f⟩ hn (by simp)
          have ht0 : total (setAcc s.accts t ⟨0, till, f⟩) = total s.accts := by
            rw [total_set _ _ _ hu, hw.2.2]; simp
          obtain ⟨hu', hn', _, ht, _⟩ := xfer_spec _ _ _ _ _ _ _ _ _ hu0 hn0 hx
          rw [← hstep.1]
          exact ⟨hu', hn', by show s.supply = total m; rw [ht, ht0, debit20 f amt hw.1, debit20 t amt hw.2.1, hs]; omega⟩

/-! ### the epoch tick -/

theorem getAcc_mem (m : Accts) (k : Hash) (h : getAcc m k ≠ Account.empty) : (k, getAcc m k) ∈ m := by
  unfold getAcc at *
  cases hf : m.find? (fun kv => kv.1 == k) with
  | none => rw [hf] at h; simp at h
  | some kv =>
    have hm := List.mem_of_find?_eq_some hf
    have hk := List.find?_some hf
    simp at hk
    simp only [Option.map_some, Option.getD_some]
    rw [← hk]; exact hm

theorem parentsOK_del (m : Accts) (k : Hash) (h : ParentsOK m) : ParentsOK (delAcc m k) := by
  intro kv hkv; exact h kv (List.mem_filter.mp hkv).1

theorem parentsOK_set (m : Accts) (k : Hash) (a : Account) (h : ParentsOK m)
    (ha : a.parent ≠ [] → a.parent.length = 20) : ParentsOK (setAcc m k a) := by
  intro kv hkv
  unfold setAcc at hkv
  rcases List.mem_cons.mp hkv with rfl | hkv
  · exact ha
  · exact parentsOK_del m k h kv hkv

theorem getAcc_parentOK (m : Accts) (k : Hash) (h : ParentsOK m) :
    (getAcc m k).parent ≠ [] → (getAcc m k).parent.length = 20 := by
  intro ht
  have hne : getAcc m k ≠ Account.empty := by
    intro e; rw [e] at ht; simp [Account.empty] at ht
  exact h _ (getAcc_mem m k hne) ht

theorem xfer_parentsOK (m m' : Accts) (env : Env) (f t : Hash) (amt : Int) (ir : Bool) (d : List Nat)
    (ev : List Event) (hp : ParentsOK m) (h : xfer m env f t amt ir d = some (m', ev)) : ParentsOK m' := by
  unfold xfer at h
  cases hc : canTransfer m env f t amt ir with
  | none => rw [hc] at h; cases h
  | some a =>
    rw [hc] at h
    simp only [Option.some.injEq, Prod.mk.injEq] at h
    obtain ⟨hm, _⟩ := h
    have ha : a.parent ≠ [] → a.parent.length = 20 := by
      unfold canTransfer at hc
      split at hc
      · cases hc
      · split at hc
        · cases hc
        · split at hc
          · simp at hc; rw [← hc]; simp [Account.empty]
          · dsimp only at hc
            split at hc
            · cases hc
            · simp at hc; rw [← hc]; exact getAcc_parentOK m f hp
    have h1 : ParentsOK (if (f.length == 20) = true then
          (if a.bal = amt then delAcc m f else setAcc m f { a with bal := a.bal - amt }) else m) := by
      split
      · split
        · exact parentsOK_del m f hp
        · exact parentsOK_set m f _ hp ha
      · exact hp
    rw [← hm]
    split
    · exact parentsOK_set _ t _ h1 (getAcc_parentOK _ t h1)
    · exact h1

structure TInv (m : Accts) : Prop where
  uniq : Uniq m
  nonneg : Nonneg m
  parents : ParentsOK m

theorem unlockOne_inv (env : Env) (e : Int) (cur : Accts × List Event) (k : Hash) (hk : k.length = 20)
    (h : TInv cur.1) : TInv (unlockOne env e cur k).1 ∧ total (unlockOne env e cur k).1 = total cur.1 := by
  unfold unlockOne
  simp only
  split
  · exact ⟨h, rfl⟩
  · rename_i htill
    split
    · cases hx : xfer cur.1 env k (getAcc cur.1 k).parent (getAcc cur.1 k).bal true (4 :: encInt e) with
      | none => exact ⟨h, rfl⟩
      | some p =>
        obtain ⟨m', ev⟩ := p
        obtain ⟨hu', hn', _, ht, _⟩ := xfer_spec _ _ _ _ _ _ _ _ _ h.uniq h.nonneg hx
        have hp' := xfer_parentsOK _ _ _ _ _ _ _ _ _ h.parents hx
        have hpl := getAcc_parentOK cur.1 k h.parents htill
        refine ⟨⟨hu', hn', hp'⟩, ?_⟩
        show total m' = total cur.1
        rw [ht, debit20 k _ hk, debit20 _ _ hpl]; omega
    · exact ⟨h, rfl⟩

theorem foldl_unlock_inv (env : Env) (e : Int) (keys : List Hash) (hk : ∀ k ∈ keys, k.length = 20)
    (cur : Accts × List Event) (h : TInv cur.1) :
    TInv (keys.foldl (unlockOne env e) cur).1 ∧ total (keys.foldl (unlockOne env e) cur).1 = total cur.1 := by
  induction keys generalizing cur with
  | nil => exact ⟨h, rfl⟩
  | cons k ks ih =>
    simp only [List.foldl_cons]
    have h1 := unlockOne_inv env e cur k (hk k (List.mem_cons_self ..)) h
    have h2 := ih (fun k' hk' => hk k' (List.mem_cons_of_mem _ hk')) _ h1.1
    exact ⟨h2.1, by rw [h2.2, h1.2]⟩

/-- C01 for the tick: any number of locks released in one call keeps the sheet consistent -/
theorem inv_tick (s : State) (env : Env) (e : Int) (h : BInv s) (hp : ParentsOK s.accts) :
    BInv (invoke s env (.newEpoch e)).1 ∧ ParentsOK (invoke s env (.newEpoch e)).1.accts ∧
      (invoke s env (.newEpoch e)).1.supply = s.supply := by
  obtain ⟨hu, hn, hs⟩ := h
  by_cases ha : env.alphabet = true
  · have hkeys : ∀ k ∈ isort ((s.accts.map (·.1)).filter (fun k => k.length == 20)), k.length = 20 := by
      intro k hk
      rw [mem_isort, List.mem_filter] at hk
      simpa using hk.2
    have := foldl_unlock_inv env e _ hkeys (s.accts, []) ⟨hu, hn, hp⟩
    have hstep : step s env (.newEpoch e) = some
        ({ s with accts := ((isort ((s.accts.map (·.1)).filter (fun k => k.length == 20))).foldl
            (unlockOne env e) (s.accts, [])).1 }, none,
         ((isort ((s.accts.map (·.1)).filter (fun k => k.length == 20))).foldl
            (unlockOne env e) (s.accts, [])).2) := by
      simp [step, ha]
    unfold invoke; rw [hstep]
    exact ⟨⟨this.1.uniq, this.1.nonneg, by show s.supply = _; rw [this.2]; exact hs⟩, this.1.parents, rfl⟩
  · have hstep : step s env (.newEpoch e) = none := by simp [step, ha]
    unfold invoke; rw [hstep]
    exact ⟨⟨hu, hn, hs⟩, hp, rfl⟩

/-! ### all methods, all histories -/

theorem parentsOK_step_basic (s : State) (env : Env) (op : Op) (hp : ParentsOK s.accts) (hw : WFOp s op)
    (hne : ∀ e, op ≠ .newEpoch e) : ParentsOK (invoke s env op).1.accts := by
  unfold invoke
  cases hstep : step s env op with
  | none => exact hp
  | some r =>
    obtain ⟨s', ret, ev⟩ := r
    show ParentsOK s'.accts
    cases op with
    | newEpoch e => exact absurd rfl (hne e)
    | transfer f t amt =>
      simp only [step] at hstep
      cases hx : xfer s.accts env f t amt false [] with
      | none => rw [hx] at hstep; simp at hstep; rw [← hstep.1]; exact hp
      | some p =>
        obtain ⟨m, ev'⟩ := p
        rw [hx] at hstep; simp at hstep; rw [← hstep.1]
        exact xfer_parentsOK _ _ _ _ _ _ _ _ _ hp hx
    | transferX f t amt d =>
      simp only [step] at hstep
      split at hstep
      · cases hstep
      · cases hx : xfer s.accts env f t amt true d with
        | none => rw [hx] at hstep; cases hstep
        | some p =>
          obtain ⟨m, ev'⟩ := p
          rw [hx] at hstep; simp at hstep; rw [← hstep.1]
          exact xfer_parentsOK _ _ _ _ _ _ _ _ _ hp hx
    | mint t amt d =>
      simp only [step] at hstep
      split at hstep
      · cases hstep
      · cases hx : xfer s.accts env [] t amt true (1 :: d) with
        | none => rw [hx] at hstep; cases hstep
        | some p =>
          obtain ⟨m, ev'⟩ := p
          rw [hx] at hstep; simp at hstep; rw [← hstep.1]
          exact xfer_parentsOK _ _ _ _ _ _ _ _ _ hp hx
    | burn f amt d =>
      simp only [step] at hstep
      split at hstep
      · cases hstep
      · cases hx : xfer s.accts env f [] amt true (2 :: d) with
        | none => rw [hx] at hstep; cases hstep
        | some p =>
          obtain ⟨m, ev'⟩ := p
          rw [hx] at hstep
          simp only at hstep
          split at hstep
          · cases hstep
          · simp at hstep; rw [← hstep.1]
            exact xfer_parentsOK _ _ _ _ _ _ _ _ _ hp hx
    | lock d f t amt till =>
      simp only [step] at hstep
      split at hstep
      · cases hstep
      · cases hx : xfer (setAcc s.accts t ⟨0, till, f⟩) env f t amt true (3 :: d) with
        | none => rw [hx] at hstep; cases hstep
        | some p =>
          obtain ⟨m, ev'⟩ := p
          rw [hx] at hstep; simp at hstep; rw [← hstep.1]
          have h0 : ParentsOK (setAcc s.accts t ⟨0, till, f⟩) := parentsOK_set _ _ _ hp (fun _ => hw.1)
          exact xfer_parentsOK _ _ _ _ _ _ _ _ _ h0 hx

structure SInv (s : State) : Prop where
  sheet : BInv s
  parents : ParentsOK s.accts

/-- C01, one invocation: any method, any arguments within the property's quantifier, any caller -/
theorem inv_invoke (s : State) (env : Env) (op : Op) (h : SInv s) (hw : WFOp s op) : SInv (invoke s env op).1 := by
  by_cases hne : ∃ e, op = .newEpoch e
  · obtain ⟨e, rfl⟩ := hne
    have := inv_tick s env e h.sheet h.parents
    exact ⟨this.1, this.2.1⟩
  · have hne' : ∀ e, op ≠ .newEpoch e := fun e he => hne ⟨e, he⟩
    exact ⟨inv_step_basic s env op h.sheet hw hne', parentsOK_step_basic s env op h.parents hw hne'⟩


/-- the quantifier's restrictions, evaluated along the history -/
def WFHist (s : State) : List (Env × Op) → Prop
  | [] => True
  | (env, op) :: rest => WFOp s op ∧ WFHist (invoke s env op).1 rest


theorem inv_init : SInv init :=
  ⟨⟨List.nodup_nil, (fun _ h => nomatch h), rfl⟩, (fun _ h => nomatch h)⟩

/-- **C01 (sheet part)**: after every prefix of every history, supply = Σ balances and no balance is negative -/
theorem C01_sheet (hist : List (Env × Op)) (s : State) (h : SInv s) (hw : WFHist s hist) : SInv (run s hist) := by
  induction hist generalizing s with
  | nil => exact h
  | cons x rest ih =>
    obtain ⟨env, op⟩ := x
    exact ih _ (inv_invoke s env op h hw.1) hw.2

theorem C01_reachable (hist : List (Env × Op)) (hw : WFHist init hist) :
    (run init hist).supply = total (run init hist).accts ∧ Nonneg (run init hist).accts :=
  let h := C01_sheet hist init inv_init hw
  ⟨h.sheet.sum, h.sheet.nonneg⟩

-- non-vacuity: a concrete history satisfying the hypotheses, ending in a non-trivial state
def A : Hash := List.replicate 20 1
def B : Hash := List.replicate 20 2
def L : Hash := List.replicate 20 3
def alpha : Env := ⟨[], [], true⟩
def asA : Env := ⟨[A], [], false⟩
def demo : List (Env × Op) :=
  [(alpha, .mint A 1000 []), (asA, .transfer A B 300), (alpha, .lock [] A L 100 2),
   (alpha, .burn L 40 []), (alpha, .newEpoch 1), (alpha, .newEpoch 2), (asA, .transfer A B (-5))]
example : (run init demo).supply = 960 := by decide
example : total (run init demo).accts = 960 := by decide
example : getAcc (run init demo).accts A = ⟨660, 0, []⟩ := by decide

end NeoFS.Balance
