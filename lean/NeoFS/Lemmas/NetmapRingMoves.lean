import NeoFS.Model.NetmapRing
/-! # Ring and list-store lemmas for C08: lookups after set/delete, sequential `moveSnapshot`s equal the
parallel assignment when no later move touches an earlier target, the exact effect of the three move
loops of `UpdateSnapshotCount` and of the deletion loops. -/
namespace NeoFS.NetmapRing
open NeoFS

/-! ### list forms of the loops (what the proofs work with) -/

def applyMoves (r : Ring) : List (Nat × Nat) → Option Ring
  | [] => some r
  | (f, t) :: ms =>
    match moveSnapshot r f t with
    | none => none
    | some r' => applyMoves r' ms

def delSlots (r : Ring) : List Nat → Option Ring
  | [] => some r
  | k :: ks =>
    match slotKey k with
    | none => none
    | some b => delSlots (rdel r b) ks

def upTo (a b : Nat) : List Nat := (List.range (b - a)).map (fun i => a + i)

/-- grow: `for k := count-1; k >= lower; k-- { moveSnapshot(k-diff, k) }` -/
def growMoves (old new id : Nat) : List (Nat × Nat) :=
  let diff := new - old
  let lower := diff + id + 1
  (List.range (new - lower)).map (fun i => (new - 1 - i - diff, new - 1 - i))

/-- shrink: `for k := start; k < count; k++ { moveSnapshot(k+step, k) }` -/
def shrinkMoves (start step new : Nat) : List (Nat × Nat) :=
  (upTo start new).map (fun k => (k + step, k))

theorem moveLoop_eq (mv : Nat → Nat × Nat) (n : Nat) : ∀ (r : Ring) (i : Nat),
    moveLoop r mv i n = applyMoves r ((List.range n).map (fun j => mv (i + j))) := by
  induction n with
  | zero => intro r i; rfl
  | succ n ih =>
    intro r i
    rw [List.range_succ_eq_map, List.map_cons, List.map_map]
    simp only [moveLoop, applyMoves, Nat.add_zero]
    cases moveSnapshot r (mv i).1 (mv i).2 with
    | none => rfl
    | some r' =>
      simp only []
      rw [ih r' (i + 1)]
      congr 2
      funext j; simp only [Function.comp]; congr 1; omega

theorem delLoop_eq (n : Nat) : ∀ (r : Ring) (k : Nat), delLoop r k n = delSlots r (upTo k (k + n)) := by
  induction n with
  | zero => intro r k; simp [delLoop, upTo, delSlots]
  | succ n ih =>
    intro r k
    have e : upTo k (k + (n + 1)) = k :: upTo (k + 1) (k + 1 + n) := by
      unfold upTo
      have e1 : k + (n + 1) - k = n + 1 := by omega
      have e2 : k + 1 + n - (k + 1) = n := by omega
      rw [e1, e2, List.range_succ_eq_map, List.map_cons, List.map_map]
      congr 1
      apply List.map_congr_left
      intro j _; simp only [Function.comp]; omega
    rw [e]
    simp only [delLoop, delSlots]
    cases slotKey k with
    | none => rfl
    | some b => simp only []; exact ih _ _

theorem delLoop_range (r : Ring) (a b : Nat) : delLoop r a (b - a) = delSlots r (upTo a b) := by
  rw [delLoop_eq]
  congr 1
  unfold upTo
  have : a + (b - a) - a = b - a := by omega
  rw [this]

/-! ### ring lookups -/

theorem rget_rdel_self (r : Ring) (i : Nat) : rget (rdel r i) i = none := by
  simp [rget, rdel, List.find?_eq_none]

theorem rget_rdel_other (r : Ring) (i j : Nat) (h : j ≠ i) : rget (rdel r i) j = rget r j := by
  unfold rdel rget; simp only [List.find?_filter]; congr 2; funext kv
  by_cases e : kv.1 = j
  · subst e; simp [h]
  · simp [e]

theorem rget_rdel (r : Ring) (i j : Nat) : rget (rdel r i) j = if j = i then none else rget r j := by
  by_cases h : j = i
  · subst h; simp [rget_rdel_self]
  · simp [h, rget_rdel_other r i j h]

theorem rget_rset (r : Ring) (i j : Nat) (v : NMap) :
    rget (rset r i v) j = if j = i then some v else rget r j := by
  by_cases h : j = i
  · subst h; simp [rget, rset]
  · have h' : (i == j) = false := by simp; exact fun e => h e.symm
    have := rget_rdel_other r i j h
    simp only [h, if_false]
    unfold rset rget at *; simp only [List.find?, h']; exact this

/-! ### per-epoch list lookups -/

theorem pget_pdel_self (p : PL) (k : Bytes) : pget (pdel p k) k = [] := by
  have : (pdel p k).find? (fun kv => kv.1 == k) = none := by
    simp [pdel, List.find?_eq_none]
  simp [pget, this]

theorem pget_pdel_other (p : PL) (k k' : Bytes) (h : k' ≠ k) : pget (pdel p k) k' = pget p k' := by
  unfold pdel pget; simp only [List.find?_filter]; congr 3; funext kv
  by_cases e : kv.1 = k'
  · subst e; simp [h]
  · simp [e]

theorem pget_pdel (p : PL) (k k' : Bytes) : pget (pdel p k) k' = if k' = k then [] else pget p k' := by
  by_cases h : k' = k
  · subst h; simp [pget_pdel_self]
  · simp [h, pget_pdel_other p k k' h]

theorem pget_pset (p : PL) (k k' : Bytes) (v : NMap) :
    pget (pset p k v) k' = if k' = k then v else pget p k' := by
  unfold pset
  by_cases hv : v = []
  · simp only [hv, if_true]; rw [pget_pdel]
  · simp only [hv, if_false]
    by_cases h : k' = k
    · subst h; simp [pget]
    · have h' : (k == k') = false := by simp; exact fun e => h e.symm
      have := pget_pdel_other p k k' h
      simp only [h, if_false]
      unfold pget at *; simp only [List.find?, h']; exact this

/-! ### sequential moves = parallel assignment (functions `slot ↦ content`) -/
namespace Par
variable {α : Type}

def upd (r : Nat → Option α) (i : Nat) (v : Option α) : Nat → Option α := fun j => if j = i then v else r j

def applyMoves (r : Nat → Option α) : List (Nat × Nat) → (Nat → Option α)
  | [] => r
  | (s, t) :: ms => applyMoves (upd r t (r s)) ms

def parMoves (r : Nat → Option α) (ms : List (Nat × Nat)) : Nat → Option α :=
  fun j => match ms.find? (fun m => m.2 == j) with | some m => r m.1 | none => r j

/-- no later move reads or writes the target of an earlier one -/
def Safe : List (Nat × Nat) → Prop
  | [] => True
  | (_, t) :: ms => (∀ m ∈ ms, m.1 ≠ t ∧ m.2 ≠ t) ∧ Safe ms

theorem applyMoves_eq_par (ms : List (Nat × Nat)) (r : Nat → Option α) (h : Safe ms) :
    applyMoves r ms = parMoves r ms := by
  induction ms generalizing r with
  | nil => funext j; simp [applyMoves, parMoves]
  | cons m ms ih =>
    obtain ⟨s, t⟩ := m; obtain ⟨h1, h2⟩ := h
    funext j; simp only [applyMoves]; rw [ih _ h2]; unfold parMoves
    by_cases hj : t = j
    · subst hj
      have : ms.find? (fun m => m.2 == t) = none := by
        rw [List.find?_eq_none]; intro m hm; simp; exact (h1 m hm).2
      simp [List.find?, this, upd]
    · have hb : ((s, t).2 == j) = false := by simp [hj]
      simp only [List.find?, hb]
      cases hf : ms.find? (fun m => m.2 == j) with
      | none => simp [upd]; intro e; exact absurd e.symm hj
      | some m => have hm := List.mem_of_find?_eq_some hf; simp [upd, (h1 m hm).1]

theorem safe_of_pairwise (ms : List (Nat × Nat))
    (h : ms.Pairwise (fun a b => b.1 ≠ a.2 ∧ b.2 ≠ a.2)) : Safe ms := by
  induction ms with
  | nil => trivial
  | cons m ms ih =>
    obtain ⟨s, t⟩ := m; rw [List.pairwise_cons] at h; exact ⟨fun m hm => h.1 m hm, ih h.2⟩

theorem par_nontarget (ms : List (Nat × Nat)) (r : Nat → Option α) (j : Nat) (h : ∀ m ∈ ms, m.2 ≠ j) :
    parMoves r ms j = r j := by
  unfold parMoves
  have : ms.find? (fun m => m.2 == j) = none := by
    rw [List.find?_eq_none]; intro m hm; simp; exact h m hm
  simp [this]

/-- when `j` is a target, the parallel assignment reads the source of *some* move with that target -/
theorem par_target (ms : List (Nat × Nat)) (r : Nat → Option α) (j : Nat) (h : ∃ m ∈ ms, m.2 = j) :
    ∃ m ∈ ms, m.2 = j ∧ parMoves r ms j = r m.1 := by
  unfold parMoves
  cases hf : ms.find? (fun m => m.2 == j) with
  | none =>
    exfalso; rw [List.find?_eq_none] at hf
    obtain ⟨m, hm, e⟩ := h
    have := hf m hm; simp [e] at this
  | some m =>
    have hp := List.find?_some hf
    have hm := List.mem_of_find?_eq_some hf
    exact ⟨m, hm, by simpa using hp, rfl⟩

end Par

/-! ### the model's move / delete loops in terms of lookups -/

theorem slotKey_some (k b : Nat) (h : slotKey k = some b) : b = k ∧ k ≤ 255 := by
  unfold slotKey at h; split at h
  · simp at h; exact ⟨h.symm, by assumption⟩
  · simp at h

theorem slotKey_le (k : Nat) (h : k ≤ 255) : slotKey k = some k := by simp [slotKey, h]

theorem moveSnapshot_get (r r' : Ring) (f t : Nat) (h : moveSnapshot r f t = some r') :
    f ≤ 255 ∧ t ≤ 255 ∧ rget r' = Par.upd (rget r) t (rget r f) := by
  unfold moveSnapshot at h
  cases hf : slotKey f with
  | none => simp [hf] at h
  | some a =>
    cases ht : slotKey t with
    | none => simp [hf, ht] at h
    | some b =>
      obtain ⟨rfl, hf'⟩ := slotKey_some f a hf
      obtain ⟨rfl, ht'⟩ := slotKey_some t b ht
      simp only [hf, ht] at h
      cases hv : rget r a with
      | none => simp [hv] at h
      | some v =>
        simp only [hv, Option.some.injEq] at h
        subst h
        refine ⟨hf', ht', ?_⟩
        funext j; simp [rget_rset, Par.upd]

theorem applyMoves_get (ms : List (Nat × Nat)) : ∀ (r r' : Ring), applyMoves r ms = some r' →
    (∀ m ∈ ms, m.1 ≤ 255 ∧ m.2 ≤ 255) ∧ rget r' = Par.applyMoves (rget r) ms := by
  induction ms with
  | nil => intro r r' h; simp [applyMoves] at h; subst h; simp [Par.applyMoves]
  | cons m ms ih =>
    intro r r' h
    obtain ⟨f, t⟩ := m
    simp only [applyMoves] at h
    cases hm : moveSnapshot r f t with
    | none => simp [hm] at h
    | some r1 =>
      simp only [hm] at h
      obtain ⟨hf, ht, hg⟩ := moveSnapshot_get r r1 f t hm
      obtain ⟨hb, hg'⟩ := ih r1 r' h
      refine ⟨?_, ?_⟩
      · intro m hm'
        rcases List.mem_cons.mp hm' with e | e
        · subst e; exact ⟨hf, ht⟩
        · exact hb m e
      · rw [hg', hg]; rfl

theorem delSlots_get (ks : List Nat) : ∀ (r r' : Ring), delSlots r ks = some r' →
    ∀ j, rget r' j = if j ∈ ks then none else rget r j := by
  induction ks with
  | nil => intro r r' h j; simp [delSlots] at h; subst h; simp
  | cons k ks ih =>
    intro r r' h j
    simp only [delSlots] at h
    cases hk : slotKey k with
    | none => simp [hk] at h
    | some b =>
      obtain ⟨rfl, _⟩ := slotKey_some k b hk
      simp only [hk] at h
      rw [ih _ _ h j, rget_rdel]
      by_cases e : j = b
      · subst e; simp
      · by_cases e2 : j ∈ ks <;> simp [e, e2]

theorem mem_upTo (a b j : Nat) : j ∈ upTo a b ↔ a ≤ j ∧ j < b := by
  unfold upTo; simp only [List.mem_map, List.mem_range]
  constructor
  · rintro ⟨i, hi, rfl⟩; omega
  · intro h; exact ⟨j - a, by omega, by omega⟩

/-- dropping a list of epochs: a key survives iff no dropped epoch names it -/
theorem foldl_drop_get (ks : List Int) : ∀ (p : PL) (k4 : Bytes),
    pget (ks.foldl dropNetmap p) k4 = if ∃ k ∈ ks, be4 k = k4 then [] else pget p k4 := by
  induction ks with
  | nil => intro p k4; simp
  | cons k ks ih =>
    intro p k4
    simp only [List.foldl_cons]
    rw [ih]
    unfold dropNetmap
    rw [pget_pdel]
    by_cases h1 : ∃ k' ∈ ks, be4 k' = k4
    · have : ∃ k' ∈ k :: ks, be4 k' = k4 := by
        obtain ⟨k', hk', e⟩ := h1; exact ⟨k', List.mem_cons_of_mem _ hk', e⟩
      rw [if_pos h1, if_pos this]
    · by_cases h2 : k4 = be4 k
      · have : ∃ k' ∈ k :: ks, be4 k' = k4 := ⟨k, List.mem_cons_self, h2.symm⟩
        rw [if_neg h1, if_pos h2, if_pos this]
      · have : ¬ ∃ k' ∈ k :: ks, be4 k' = k4 := by
          rintro ⟨k', hk', e⟩
          rcases List.mem_cons.mp hk' with e' | e'
          · subst e'; exact h2 e.symm
          · exact h1 ⟨k', e', e⟩
        rw [if_neg h1, if_neg h2, if_neg this]

theorem mem_dropEpochs (cur old new : Nat) (k : Int) :
    k ∈ dropEpochs cur old new ↔ (cur : Int) - old + 1 ≤ k ∧ k ≤ (cur : Int) - new ∧ new < old := by
  unfold dropEpochs; simp only [List.mem_map, List.mem_range]
  constructor
  · rintro ⟨i, hi, rfl⟩; omega
  · intro h; exact ⟨(k - ((cur : Int) - old + 1)).toNat, by omega, by omega⟩

end NeoFS.NetmapRing
