import NeoFS.Lemmas.NNS
set_option linter.unusedSimpArgs false
set_option linter.unusedVariables false
/-! String lemmas of the NNS model: `split`/`joinDots` are inverse, the chain of enclosing names. -/
namespace NeoFS.NNS
open NeoFS

theorem split_ne_nil (sep : Nat) (s : Bytes) : split sep s ≠ [] := by
  induction s with
  | nil => simp [split]
  | cons c r ih =>
    unfold split
    split
    · simp
    · split
      · simp
      · simp

theorem split_cons_eq (sep c : Nat) (r : Bytes) :
    split sep (c :: r) =
      if c = sep then [] :: split sep r
      else ((c :: (split sep r).headD []) :: (split sep r).tail) := by
  conv => lhs; unfold split
  split
  · rfl
  · cases h : split sep r with
    | nil => exact absurd h (split_ne_nil sep r)
    | cons f fs => simp

/-- joining the fragments of a name with dots gives the name back: `name[sum:]` in `tokenIDFromName`
and `fragments[i] + "." + name` in `parentExpired` are the same strings -/
theorem joinDots_split (n : Bytes) : joinDots (split dot n) = n := by
  induction n with
  | nil => simp [split, joinDots]
  | cons c r ih =>
    rw [split_cons_eq]
    cases h : split dot r with
    | nil => exact absurd h (split_ne_nil dot r)
    | cons f fs =>
      rw [h] at ih
      by_cases e : c = dot
      · simp only [e, if_true]
        show [] ++ dot :: joinDots (f :: fs) = dot :: r
        rw [ih]; rfl
      · simp only [e, if_false, List.headD_cons, List.tail_cons]
        cases fs with
        | nil =>
          simp only [joinDots] at ih ⊢
          rw [ih]
        | cons g gs =>
          simp only [joinDots] at ih ⊢
          rw [← ih]; rfl

theorem chain_zero (frags : List Bytes) (h : frags ≠ []) : chain 0 frags = joinDots frags :: chain 1 frags := by
  cases frags with
  | nil => exact absurd rfl h
  | cons f fs => simp [chain, suffixes]

theorem chain_zero_split (n : Name) : chain 0 (split dot n) = n :: chain 1 (split dot n) := by
  rw [chain_zero _ (split_ne_nil dot n), joinDots_split]

theorem parentExpired_zero (s : State) (now : Int) (n : Name) :
    parentExpired s now 0 (split dot n) = (!live s now n || parentExpired s now 1 (split dot n)) := by
  unfold parentExpired
  rw [chain_zero_split]
  simp [List.any_cons]

theorem parentExpired_false_iff (s : State) (now : Int) (first : Nat) (frags : List Bytes) :
    parentExpired s now first frags = false ↔ ∀ m ∈ chain first frags, live s now m = true := by
  unfold parentExpired
  rw [List.any_eq_false]
  constructor
  · intro h m hm
    have := h m hm
    simpa using this
  · intro h m hm
    simp [h m hm]

theorem live_iff (s : State) (now : Int) (n : Name) :
    live s now n = true ↔ ∃ ns, mget s.names n = some ns ∧ now < ns.exp := by
  unfold live
  cases h : mget s.names n with
  | none => simp
  | some ns => simp

end NeoFS.NNS
