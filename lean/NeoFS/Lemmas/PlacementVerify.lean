import NeoFS.Model.Placement
set_option linter.unusedSimpArgs false
set_option linter.unusedVariables false
/-! Soundness of `VerifyPlacementSignatures` / `SubmitObjectPut` for every verification oracle (C14). -/
namespace NeoFS.Placement
open NeoFS

variable {σ : Type}

/-- what `nodesLoop` hands back is an uncounted member whose key verifies the signature -/
theorem scanNodes_some (o : Oracle σ) (msg : Bytes) (sig : σ) (counted ms : List Bytes) (pub : Bytes)
    (h : scanNodes o msg sig counted ms = some (some pub)) :
    pub ∈ ms ∧ pub ∉ counted ∧ o.verify msg pub sig = true := by
  induction ms with
  | nil => simp [scanNodes] at h
  | cons x rest ih =>
    simp only [scanNodes] at h
    by_cases h1 : counted.contains x = true
    · simp only [h1, if_true] at h
      obtain ⟨a, b, c⟩ := ih h
      exact ⟨List.mem_cons_of_mem _ a, b, c⟩
    · have h1' : counted.contains x = false := by simpa using h1
      by_cases h2 : o.badKey x = true
      · simp only [h1', h2, Bool.false_eq_true, if_false, if_true] at h
        exact absurd h (by simp)
      · have h2' : o.badKey x = false := by simpa using h2
        by_cases h3 : o.verify msg x sig = true
        · simp only [h1', h2', h3, Bool.false_eq_true, if_false, if_true, Option.some.injEq] at h
          subst h
          refine ⟨List.mem_cons_self, ?_, h3⟩
          intro hc; apply h1; simpa using hc
        · have h3' : o.verify msg x sig = false := by simpa using h3
          simp only [h1', h2', h3', Bool.false_eq_true, if_false] at h
          obtain ⟨a, b, c⟩ := ih h
          exact ⟨List.mem_cons_of_mem _ a, b, c⟩

/-- distinct members of the vector, each with a valid signature in the row -/
def Signers (o : Oracle σ) (msg : Bytes) (row : List σ) (ms K : List Bytes) : Prop :=
  K.Nodup ∧ ∀ k ∈ K, k ∈ ms ∧ ∃ sg ∈ row, o.verify msg k sg = true

theorem sigLoop_true (o : Oracle σ) (msg : Bytes) (ms : List Bytes) (m : Int) (row : List σ) :
    ∀ (rest : List σ) (c : Int) (counted : List Bytes),
      (∀ sg ∈ rest, sg ∈ row) → Signers o msg row ms counted → c = (counted.length : Int) →
      sigLoop o msg (some ms) m c counted rest = some true →
      ∃ K, Signers o msg row ms K ∧ (K.length : Int) = m := by
  intro rest
  induction rest with
  | nil => intro c counted _ _ _ h; simp [sigLoop] at h
  | cons sg rest ih =>
    intro c counted hsub hS hc h
    simp only [sigLoop] at h
    have hrest : ∀ x ∈ rest, x ∈ row := fun x hx => hsub x (List.mem_cons_of_mem _ hx)
    cases hscan : scanNodes o msg sg counted ms with
    | none => simp [hscan] at h
    | some r =>
      cases r with
      | none =>
        simp only [hscan] at h
        by_cases e : c = m
        · exact ⟨counted, hS, by rw [← hc]; exact e⟩
        · simp only [e, if_false] at h
          exact ih c counted hrest hS hc h
      | some pub =>
        simp only [hscan] at h
        obtain ⟨hmem, hnot, hver⟩ := scanNodes_some o msg sg counted ms pub hscan
        have hS' : Signers o msg row ms (counted ++ [pub]) := by
          refine ⟨?_, ?_⟩
          · rw [List.nodup_append]
            refine ⟨hS.1, by simp, ?_⟩
            intro a ha b hb
            rw [List.mem_singleton] at hb
            subst hb
            intro e; subst e; exact hnot ha
          · intro k hk
            rcases List.mem_append.mp hk with hk | hk
            · exact hS.2 k hk
            · rw [List.mem_singleton] at hk
              subst hk
              exact ⟨hmem, sg, hsub sg List.mem_cons_self, hver⟩
        have hlen : c + 1 = ((counted ++ [pub]).length : Int) := by
          rw [List.length_append, List.length_singleton, hc]; omega
        by_cases e : c + 1 = m
        · exact ⟨counted ++ [pub], hS', by rw [← hlen]; exact e⟩
        · simp only [e, if_false] at h
          exact ih (c + 1) (counted ++ [pub]) hrest hS' hlen h

/-- the row of the matrix that belongs to vector `i` -/
def rowAt (sigs : Matrix σ) (i : Nat) : Option (List σ) :=
  match sigs with
  | none => none
  | some rows => match rows[i]? with
    | some (some row) => some row
    | _ => none

/-- The property's acceptance condition for one placement vector: the matrix has a row for the vector
(missing vectors never count) and at least `rep` distinct members of the vector produced a valid
signature of `msg` found in that row (non-members, other messages, repetitions never count). -/
def VectorOK (o : Oracle σ) (s : Store) (cid msg : Bytes) (sigs : Matrix σ) (i : Nat) (rep : Int) : Prop :=
  ∃ (row : List σ) (members K : List Bytes),
    rowAt sigs i = some row ∧ nodes s cid (i : Int) = some members ∧
    K.Nodup ∧ (∀ k ∈ K, k ∈ members ∧ ∃ sg ∈ row, o.verify msg k sg = true) ∧ (K.length : Int) ≥ rep

theorem repsLoop_true (o : Oracle σ) (s : Store) (cid msg : Bytes) (sigs : Matrix σ) :
    ∀ (vals : List Bytes) (i : Nat), repsLoop o s cid msg sigs i vals = some true →
      ∀ j (hj : j < vals.length), VectorOK o s cid msg sigs (i + j) (decInt vals[j]) := by
  intro vals
  induction vals with
  | nil => intro i _ j hj; exact absurd hj (by simp)
  | cons v rest ih =>
    intro i h j hj
    simp only [repsLoop] at h
    by_cases h1 : matrixLen sigs = i
    · simp [h1] at h
    · simp only [h1, if_false] at h
      cases sigs with
      | none => simp at h
      | some rows =>
        simp only at h
        cases hr : rows[i]? with
        | none => simp [hr] at h
        | some row =>
          simp only [hr] at h
          by_cases h2 : (rowLen row : Int) < decInt v
          · simp [h2] at h
          · simp only [h2, if_false] at h
            cases hrow : row with
            | none => simp [hrow] at h
            | some sl =>
              simp only [hrow] at h
              cases hl : sigLoop o msg (nodes s cid (i : Int)) (decInt v) 0 [] sl with
              | none => simp [hl] at h
              | some b =>
                cases b with
                | false => simp [hl] at h
                | true =>
                  simp only [hl] at h
                  cases j with
                  | succ j' =>
                    have := ih (i + 1) h j' (by simpa using hj)
                    have e : i + 1 + j' = i + (j' + 1) := by omega
                    rw [e] at this
                    simpa using this
                  | zero =>
                    simp only [Nat.add_zero, List.getElem_cons_zero]
                    cases hn : nodes s cid (i : Int) with
                    | none =>
                      rw [hn] at hl
                      cases sl with
                      | nil => simp [sigLoop] at hl
                      | cons a b => simp [sigLoop] at hl
                    | some ms =>
                      rw [hn] at hl
                      obtain ⟨K, hK, hlen⟩ := sigLoop_true o msg ms (decInt v) sl sl 0 [] (fun _ hx => hx)
                        ⟨List.nodup_nil, fun k hk => absurd hk (by simp)⟩ (by simp) hl
                      refine ⟨sl, ms, K, ?_, hn, hK.1, hK.2, by omega⟩
                      simp [rowAt, hr, hrow]

/-- Soundness for every oracle: acceptance implies, for every placement vector that has a REP number,
REP distinct members with a valid signature in the vector's row. -/
theorem verify_sound (o : Oracle σ) (s : Store) (cid msg : Bytes) (sigs : Matrix σ)
    (h : verifyPlacementSignatures o s cid msg sigs = some true) :
    ∃ vals, replicasNumbers s cid = some vals ∧
      ∀ i (hi : i < vals.length), VectorOK o s cid msg sigs i (decInt vals[i]) := by
  unfold verifyPlacementSignatures at h
  cases hr : replicasNumbers s cid with
  | none => simp [hr] at h
  | some vals =>
    simp only [hr] at h
    refine ⟨vals, rfl, ?_⟩
    intro i hi
    have := repsLoop_true o s cid msg sigs vals 0 h i hi
    simpa using this

/-- `SubmitObjectPut` HALTs only after `VerifyPlacementSignatures` answered true for the container named
in the meta information, the signed message being the meta information itself -/
theorem submit_verified (s : Store) (env : Env σ) (mi : Option Meta) (raw : Bytes) (sigs : Matrix σ)
    (ev : List Event) (h : submitObjectPut s env mi raw sigs = some ev) :
    ∃ mt cid oid, mi = some mt ∧ mt.cid = some cid ∧ mt.oid = some oid ∧ ev = [.objectPut cid oid] ∧
      (get s (mKey cid)).isSome = true ∧
      verifyPlacementSignatures env.oracle s cid raw sigs = some true := by
  unfold submitObjectPut at h
  cases mi with
  | none => simp at h
  | some mt =>
    simp only at h
    cases hc : mt.cid with
    | none => simp [hc] at h
    | some cid =>
      simp only [hc] at h
      split at h
      · exact absurd h (by simp)
      · split at h
        · exact absurd h (by simp)
        · rename_i hmeta
          cases ho : mt.oid with
          | none => simp [ho] at h
          | some oid =>
            simp only [ho] at h
            split at h
            · exact absurd h (by simp)
            · cases hn : mt.network with
              | none => simp [hn] at h
              | some net =>
                simp only [hn] at h
                split at h
                · exact absurd h (by simp)
                · split at h
                  · split at h
                    · exact absurd h (by simp)
                    · split at h
                      · exact absurd h (by simp)
                      · split at h
                        · exact absurd h (by simp)
                        · split at h
                          · exact absurd h (by simp)
                          · split at h
                            · exact absurd h (by simp)
                            · split at h
                              · rename_i hv
                                simp only [Option.some.injEq] at h
                                refine ⟨mt, cid, oid, rfl, hc, ho, h.symm, ?_, hv⟩
                                cases hg : get s (mKey cid) with
                                | none => simp [hg] at hmeta
                                | some _ => rfl
                              · exact absurd h (by simp)
                  · exact absurd h (by simp)

end NeoFS.Placement
