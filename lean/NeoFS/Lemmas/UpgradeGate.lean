import NeoFS.Model.Upgrade
import NeoFS.Lemmas.UpgradeStore
/-! Lemmas about the gate of `Update` (witness, `AppendVersion`, `CheckVersion`), atomicity, and
`switchToNotary` / `TryPurgeVotes`. -/
namespace NeoFS.Upgrade
open NeoFS NeoFS.Generated

/-! ### AppendVersion / CheckVersion -/

theorem appendVersion_last {data : Item} {ver : Int} {args : List Item}
    (h : appendVersion data ver = some args) : ∃ pre, args = pre ++ [.int ver] := by
  unfold appendVersion at h
  cases data with
  | null => simp only [Option.some.injEq] at h; exact ⟨[], by simp [← h]⟩
  | array l => simp only [Option.some.injEq] at h; exact ⟨l, h.symm⟩
  | struct l => simp only [Option.some.injEq] at h; exact ⟨l, h.symm⟩
  | bool _ => cases h
  | int _ => cases h
  | bytes _ => cases h
  | buffer _ => cases h

theorem deployVersion_append (pre : List Item) (ver : Int) : deployVersion (pre ++ [.int ver]) = some ver := by
  unfold deployVersion
  simp [toInt]

theorem deployVersion_appendVersion {data : Item} {ver : Int} {args : List Item}
    (h : appendVersion data ver = some args) : deployVersion args = some ver := by
  obtain ⟨pre, rfl⟩ := appendVersion_last h
  exact deployVersion_append pre ver

theorem checkVersion_iff (v : Int) : checkVersion v = true ↔ common_PrevVersion ≤ v ∧ v < common_Version := by
  unfold checkVersion
  by_cases h1 : v < common_PrevVersion
  · simp only [h1, if_true]; constructor
    · intro h; cases h
    · intro h; omega
  · simp only [h1, if_false]
    by_cases h2 : v ≥ common_Version
    · simp only [h2, if_true]; constructor
      · intro h; cases h
      · intro h; omega
    · simp only [h2, if_false]; constructor
      · intro _; omega
      · intro _; trivial

/-! ### the shape of a HALTed update -/

theorem update_some {k : Kind} {st st' : CState} {env : Env} {data : Item} {nefOk : Bool}
    (h : update k st env data nefOk = some st') :
    updateAccess k env = some true ∧ nefOk = true ∧ checkVersion st.ver = true ∧
      st'.ver = common_Version ∧
      ∃ args, appendVersion data st.ver = some args ∧ migrate k st.ver args env st.store = some st'.store := by
  unfold update at h
  cases ha : updateAccess k env with
  | none => rw [ha] at h; cases h
  | some b =>
    rw [ha] at h
    cases b with
    | false => cases h
    | true =>
      simp only at h
      cases hv : appendVersion data st.ver with
      | none => rw [hv] at h; cases h
      | some args =>
        rw [hv] at h
        simp only at h
        cases nefOk with
        | false => simp at h
        | true =>
          simp only [Bool.not_true, Bool.false_eq_true, if_false] at h
          unfold deployUpdate at h
          rw [deployVersion_appendVersion hv] at h
          simp only at h
          by_cases hc : checkVersion st.ver = true
          · simp only [hc, if_true] at h
            cases hm : migrate k st.ver args env st.store with
            | none => rw [hm] at h; cases h
            | some s' =>
              rw [hm] at h
              simp only [Option.some.injEq] at h
              subst h
              exact ⟨rfl, rfl, hc, rfl, args, rfl, hm⟩
          · simp only [hc] at h; cases h

theorem multiaddress_some {ks : List Nat} {c : Bool} {a : Acct} (h : multiaddress ks c = some a) :
    ks ≠ [] ∧ a = .msig (if c then ks.length / 2 + 1 else ks.length * 2 / 3 + 1) ks := by
  unfold multiaddress at h
  cases ks with
  | nil => simp at h
  | cons x r =>
    simp only [List.isEmpty_cons, Bool.false_eq_true, if_false, Option.some.injEq] at h
    exact ⟨by simp, h.symm⟩

/-- `l - (l-1)/2` of `nns.checkCommittee` is the same threshold `l/2 + 1` as `common.Multiaddress` -/
theorem nns_threshold (l : Nat) (h : 0 < l) : l - (l - 1) / 2 = l / 2 + 1 := by omega

theorem mem_of_contains {l : List Acct} {a : Acct} (h : l.contains a = true) : a ∈ l := by
  simpa using h

/-- the account whose witness `Update` of contract `k` demands -/
def requiredAcct (k : Kind) (env : Env) : Acct :=
  match k with
  | .neofs => .msig (env.role.length / 2 + 1) env.role
  | .processing => .msig (env.role.length / 2 + 1) env.role
  | _ => .msig (env.committee.length / 2 + 1) env.committee

theorem access_true {k : Kind} {env : Env} (h : updateAccess k env = some true) :
    requiredAcct k env ∈ env.witnesses := by
  have viaMulti : ∀ ks, (multiaddress ks true).map (checkWitness env) = some true →
      Acct.msig (ks.length / 2 + 1) ks ∈ env.witnesses := by
    intro ks hm
    cases hx : multiaddress ks true with
    | none => rw [hx] at hm; cases hm
    | some a =>
      rw [hx] at hm
      simp only [Option.map_some, Option.some.injEq] at hm
      obtain ⟨_, ha⟩ := multiaddress_some hx
      simp only [if_true] at ha
      subst ha
      exact mem_of_contains hm
  cases k with
  | neofs => exact viaMulti _ h
  | processing => exact viaMulti _ h
  | nns =>
    unfold updateAccess at h
    simp only at h
    cases hc : env.committee with
    | nil => rw [hc] at h; simp at h
    | cons x r =>
      rw [hc] at h
      simp only [List.isEmpty_cons, Bool.false_eq_true, if_false, Option.some.injEq] at h
      have := mem_of_contains h
      unfold requiredAcct
      simp only [hc]
      rw [nns_threshold _ (by simp)] at this
      exact this
  | balance => exact viaMulti _ h
  | container => exact viaMulti _ h
  | netmap => exact viaMulti _ h
  | neofsid => exact viaMulti _ h
  | alphabet => exact viaMulti _ h
  | audit => exact viaMulti _ h
  | reputation => exact viaMulti _ h
  | proxy => exact viaMulti _ h

/-! ### atomicity and histories -/

theorem invoke_fault {k : Kind} {st : CState} {env : Env} {op : Op} (h : (invoke k st env op).2 = false) :
    (invoke k st env op).1 = st := by
  unfold invoke at *
  cases hs : step k st env op with
  | none => rfl
  | some st' => rw [hs] at h; cases h

theorem invoke_update_ver (k : Kind) (st : CState) (env : Env) (data : Item) (nefOk : Bool) :
    (invoke k st env (.update data nefOk)).1.ver = st.ver ∨
      (st.ver < common_Version ∧ (invoke k st env (.update data nefOk)).1.ver = common_Version) := by
  have hstep : step k st env (.update data nefOk) = update k st env data nefOk := rfl
  unfold invoke
  rw [hstep]
  cases hu : update k st env data nefOk with
  | none => left; rfl
  | some st' =>
    right
    obtain ⟨_, _, hc, hv, _⟩ := update_some hu
    exact ⟨((checkVersion_iff _).mp hc).2, hv⟩

theorem invoke_ver_mono (k : Kind) (st : CState) (env : Env) (op : Op) :
    st.ver ≤ (invoke k st env op).1.ver := by
  cases op with
  | update data nefOk =>
    rcases invoke_update_ver k st env data nefOk with h | ⟨h1, h2⟩
    · omega
    · omega
  | load s => simp [invoke, step]

theorem run_ver_mono (k : Kind) (hist : List (Env × Op)) (st : CState) : st.ver ≤ (run k st hist).ver := by
  induction hist generalizing st with
  | nil => exact Int.le_refl _
  | cons x r ih =>
    obtain ⟨env, op⟩ := x
    unfold run
    exact Int.le_trans (invoke_ver_mono k st env op) (ih _)

/-! ### TryPurgeVotes / switchToNotary -/

theorem pendingLoop_pending {h : Int} {l : List Item}
    (hp : ∃ c ∈ l, ∃ bh, ballotHeight c = some bh ∧ h - bh ≤ common_blockDiff) :
    pendingLoop h l ≠ some false := by
  induction l with
  | nil => obtain ⟨c, hc, _⟩ := hp; simp at hc
  | cons c r ih =>
    unfold pendingLoop
    cases hb : ballotHeight c with
    | none => simp
    | some bh =>
      simp only
      by_cases hd : h - bh ≤ common_blockDiff
      · simp [hd]
      · simp only [hd, if_false]
        apply ih
        obtain ⟨c', hc', bh', hb', hd'⟩ := hp
        simp only [List.mem_cons] at hc'
        rcases hc' with e | e
        · subst e; rw [hb] at hb'; simp only [Option.some.injEq] at hb'; subst hb'; exact absurd hd' hd
        · exact ⟨c', e, bh', hb', hd'⟩

theorem pendingLoop_clear {h : Int} {l : List Item} (hc : pendingLoop h l = some false) :
    ∀ c ∈ l, ∃ bh, ballotHeight c = some bh ∧ common_blockDiff < h - bh := by
  induction l with
  | nil => intro c hm; simp at hm
  | cons c r ih =>
    unfold pendingLoop at hc
    cases hb : ballotHeight c with
    | none => rw [hb] at hc; cases hc
    | some bh =>
      rw [hb] at hc
      simp only at hc
      by_cases hd : h - bh ≤ common_blockDiff
      · simp [hd] at hc
      · simp only [hd, if_false] at hc
        intro c' hm
        simp only [List.mem_cons] at hm
        rcases hm with e | e
        · subst e; exact ⟨bh, hb, by omega⟩
        · exact ih hc c' e

/-- what a non-faulting `TryPurgeVotes` does to the storage -/
theorem tryPurgeVotes_store {s s' : Store} {h : Int} {b : Bool} (ht : tryPurgeVotes s h = some (b, s')) :
    (b = false ∧ s' = s) ∨ (b = true ∧ s' = del s voteKey) := by
  unfold tryPurgeVotes at ht
  cases hg : getBallots s with
  | none => rw [hg] at ht; cases ht
  | some l =>
    rw [hg] at ht
    simp only at ht
    cases hp : pendingLoop h l with
    | none => rw [hp] at ht; cases ht
    | some p =>
      rw [hp] at ht
      cases p with
      | true => simp only [Option.some.injEq, Prod.mk.injEq] at ht; exact Or.inl ⟨ht.1.symm, ht.2.symm⟩
      | false => simp only [Option.some.injEq, Prod.mk.injEq] at ht; exact Or.inr ⟨ht.1.symm, ht.2.symm⟩

/-- the storage after a non-faulting `switchToNotary`: the listed keys (and, when the votes were
purged, `ballots`) are removed from some sub-storage, nothing else is touched -/
theorem switchToNotary_spec {extra : List Bytes} {purge : Bool} {s s1 : Store} {h : Int}
    (hs : switchToNotary extra purge s h = some s1) :
    s1 = s ∨ s1 = (notaryKey :: extra).foldl del s ∨ s1 = (notaryKey :: extra).foldl del (del s voteKey) := by
  unfold switchToNotary at hs
  cases hn : get s notaryKey with
  | none => rw [hn] at hs; simp only [Option.some.injEq] at hs; exact Or.inl hs.symm
  | some nv =>
    rw [hn] at hs
    simp only at hs
    cases hb : bytesToBool nv with
    | none => rw [hb] at hs; cases hs
    | some flag =>
      rw [hb] at hs
      simp only at hs
      by_cases hf : (flag && purge) = true
      · simp only [hf, if_true] at hs
        cases ht : tryPurgeVotes s h with
        | none => rw [ht] at hs; cases hs
        | some r =>
          obtain ⟨b, s'⟩ := r
          rw [ht] at hs
          rcases tryPurgeVotes_store ht with ⟨hb', hs'⟩ | ⟨hb', hs'⟩
          · subst hb'; simp at hs
          · subst hb'; subst hs'
            simp only [Option.some.injEq] at hs
            exact Or.inr (Or.inr hs.symm)
      · simp only [hf, Bool.false_eq_true, if_false, Option.some.injEq] at hs
        exact Or.inr (Or.inl hs.symm)

theorem switchToNotary_get_other {extra : List Bytes} {purge : Bool} {s s1 : Store} {h : Int}
    (hs : switchToNotary extra purge s h = some s1) (q : Bytes) (hq : q ∉ notaryKey :: voteKey :: extra) :
    get s1 q = get s q := by
  have h1 : q ∉ notaryKey :: extra := by
    intro hm; apply hq
    simp only [List.mem_cons] at hm ⊢
    rcases hm with e | e
    · exact Or.inl e
    · exact Or.inr (Or.inr e)
  have h2 : q ≠ voteKey := by
    intro e; apply hq; simp [e]
  rcases switchToNotary_spec hs with e | e | e
  · rw [e]
  · rw [e, get_foldl_del_other _ _ _ h1]
  · rw [e, get_foldl_del_other _ _ _ h1, get_del_other _ _ _ h2]

/-- nothing is added and no value is altered -/
theorem switchToNotary_sub {extra : List Bytes} {purge : Bool} {s s1 : Store} {h : Int}
    (hs : switchToNotary extra purge s h = some s1) (q v : Bytes) (hg : get s1 q = some v) :
    get s q = some v := by
  by_cases h1 : q ∈ notaryKey :: extra
  · rcases switchToNotary_spec hs with e | e | e
    · rw [e] at hg; exact hg
    · rw [e, get_foldl_del_mem _ _ _ h1] at hg; cases hg
    · rw [e, get_foldl_del_mem _ _ _ h1] at hg; cases hg
  · by_cases h2 : q = voteKey
    · rcases switchToNotary_spec hs with e | e | e
      · rw [e] at hg; exact hg
      · rw [e, get_foldl_del_other _ _ _ h1] at hg; exact hg
      · rw [e, get_foldl_del_other _ _ _ h1, h2, get_del_self] at hg; cases hg
    · rw [← switchToNotary_get_other hs q]
      · exact hg
      · intro hm
        simp only [List.mem_cons] at hm h1
        rcases hm with e | e | e
        · exact h1 (Or.inl e)
        · exact h2 e
        · exact h1 (Or.inr e)

theorem switchToNotary_nodup {extra : List Bytes} {purge : Bool} {s s1 : Store} {h : Int}
    (hs : switchToNotary extra purge s h = some s1) (hn : NodupKeys s) : NodupKeys s1 := by
  rcases switchToNotary_spec hs with e | e | e
  · rw [e]; exact hn
  · rw [e]; exact nodup_foldl_del hn _
  · rw [e]; exact nodup_foldl_del (nodup_del hn _) _

/-- after a non-faulting `switchToNotary` the non-notary flag is gone -/
theorem switchToNotary_flag_gone {extra : List Bytes} {purge : Bool} {s s1 : Store} {h : Int}
    (hs : switchToNotary extra purge s h = some s1) : get s1 notaryKey = none := by
  rcases switchToNotary_spec hs with e | e | e
  · -- s1 = s happens only when the flag is absent
    unfold switchToNotary at hs
    cases hn : get s notaryKey with
    | none => rw [e]; exact hn
    | some nv =>
      -- then s1 is one of the two deleting forms as well
      rw [hn] at hs
      simp only at hs
      cases hb : bytesToBool nv with
      | none => rw [hb] at hs; cases hs
      | some flag =>
        rw [hb] at hs
        simp only at hs
        by_cases hf : (flag && purge) = true
        · simp only [hf, if_true] at hs
          cases ht : tryPurgeVotes s h with
          | none => rw [ht] at hs; cases hs
          | some r =>
            obtain ⟨b, s'⟩ := r
            rw [ht] at hs
            cases b with
            | false => simp at hs
            | true =>
              simp only [Option.some.injEq] at hs
              rw [← hs]; exact get_foldl_del_mem _ _ _ (by simp)
        · simp only [hf, Bool.false_eq_true, if_false, Option.some.injEq] at hs
          rw [← hs]; exact get_foldl_del_mem _ _ _ (by simp)
  · rw [e]; exact get_foldl_del_mem _ _ _ (by simp)
  · rw [e]; exact get_foldl_del_mem _ _ _ (by simp)

/-- **pending vote blocks**: a non-notary flag that reads `true` and a readable ballot list that holds a
ballot not older than `blockDiff` blocks make `switchToNotary` FAULT -/
theorem switchToNotary_pending {extra : List Bytes} {s : Store} {h : Int} {nv : Bytes} {l : List Item}
    (hn : get s notaryKey = some nv) (hb : bytesToBool nv = some true) (hg : getBallots s = some l)
    (hp : ∃ c ∈ l, ∃ bh, ballotHeight c = some bh ∧ h - bh ≤ common_blockDiff) :
    switchToNotary extra true s h = none := by
  unfold switchToNotary
  rw [hn]; simp only; rw [hb]; simp only [Bool.and_self, if_true]
  unfold tryPurgeVotes
  rw [hg]; simp only
  have := pendingLoop_pending hp
  cases hx : pendingLoop h l with
  | none => rfl
  | some p =>
    cases p with
    | true => rfl
    | false => exact absurd hx this

/-- `getBallots` looks at the `ballots` item only -/
theorem getBallots_congr {s t : Store} (h : get s voteKey = get t voteKey) : getBallots s = getBallots t := by
  unfold getBallots; rw [h]

end NeoFS.Upgrade
