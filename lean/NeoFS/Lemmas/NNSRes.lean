import NeoFS.Lemmas.NNSRec
set_option linter.unusedSimpArgs false
set_option linter.unusedVariables false
/-! Lemmas on the read paths of the NNS records (C12): list views, token lookup, resolution. -/
namespace NeoFS.NNS
open NeoFS

/-- the abstract record table of the property: the values of one (enclosing name, name, type) in order -/
def Recs (s : State) (tok n : Name) (tb : Nat) : List Bytes := (recsByType s tok n tb).map (·.data)

theorem recsByType_congr {s s' : State} {tok n : Name} {tb : Nat}
    (h : ∀ i, mget s'.recs (tok, n, tb, i) = mget s.recs (tok, n, tb, i)) :
    recsByType s' tok n tb = recsByType s tok n tb := by
  rw [recsByType_eq, recsByType_eq]
  congr 1
  funext i
  exact h i

/-- what `updateSoaSerial` leaves alone: everything but the SOA record of the token -/
theorem soaSerial_other {s s' : State} {now : Int} {tok : Name} (hs : updateSoaSerial s now tok = some s')
    (tok' n' : Name) (tb' i' : Nat) (hne : tb' ≠ soaByte) :
    mget s'.recs (tok', n', tb', i') = mget s.recs (tok', n', tb', i') := by
  obtain ⟨_, rec, a, b, c, d, e, f, g, _, _, hr⟩ := updateSoaSerial_some hs
  rw [hr]
  apply mget_mput_other
  intro cc; injection cc with _ c2; injection c2 with _ c3; injection c3 with c4 _; exact hne c4.symm

/-- `getRecords` filters by `r.Type == typ`; under the invariant this filter is the identity -/
theorem filter_typ_id {s : State} (hinv : RecInv s.recs) (tok n : Name) (tb : Nat) (typ : Int) (ht : (tb : Int) = typ) :
    (recsByType s tok n tb).filter (fun r => r.typ == typ) = recsByType s tok n tb := by
  rw [List.filter_eq_self]
  intro r hr
  obtain ⟨i, _, hg⟩ := mem_recsByType.mp hr
  obtain ⟨_, k2, _⟩ := hinv.kv _ _ _ _ _ hg
  simp [k2, ht]

theorem flatMap_single {α β : Type} [DecidableEq α] (f : α → List β) (a : α) (l : List α) (hn : l.Nodup)
    (h : ∀ x ∈ l, x ≠ a → f x = []) : l.flatMap f = if a ∈ l then f a else [] := by
  induction l with
  | nil => simp
  | cons x xs ih =>
    have hx : x ∉ xs := (List.nodup_cons.mp hn).1
    have hxs := (List.nodup_cons.mp hn).2
    rw [List.flatMap_cons, ih hxs (fun y hy => h y (List.mem_cons_of_mem _ hy))]
    by_cases e : x = a
    · subst e; simp [hx]
    · have : f x = [] := h x List.mem_cons_self e
      have ne : ¬ a = x := fun c => e c.symm
      simp [this, List.mem_cons, ne]

/-- the records of one type inside the list `getAllRecords`/`resolve` iterate over are the list
`getRecords` reads: the three read paths see the same stored values in the same order -/
theorem recsOfName_filter_type {s : State} (hinv : RecInv s.recs) (tok n : Name) (tb : Nat) (typ : Int)
    (ht : (tb : Int) = typ) (hb : tb < 256) :
    (recsOfName s tok n).filter (fun r => r.typ == typ) = recsByType s tok n tb := by
  unfold recsOfName
  simp only [mget_recsUnder]
  rw [List.filter_flatMap]
  have hblock : ∀ x, (List.range 256).filterMap (fun i => mget s.recs (tok, n, x, i)) = recsByType s tok n x :=
    fun x => (recsByType_eq s tok n x).symm
  simp only [hblock]
  have hnd : ((List.range 256).filter (fun tb => (recsUnder s tok n).any (fun kv => kv.1.1 == tb))).Nodup :=
    List.Nodup.sublist List.filter_sublist List.nodup_range
  rw [flatMap_single _ tb _ hnd]
  · split
    · exact filter_typ_id hinv tok n tb typ ht
    · rename_i hnot
      -- no entry with this type byte: the list is empty
      symm
      rw [recsByType_eq, List.filterMap_eq_nil_iff]
      intro i _
      cases hg : mget s.recs (tok, n, tb, i) with
      | none => rfl
      | some r =>
        exfalso; apply hnot
        rw [List.mem_filter]
        refine ⟨List.mem_range.mpr hb, ?_⟩
        rw [List.any_eq_true]
        rw [← mget_recsUnder] at hg
        exact ⟨((tb, i), r), mget_some_mem hg, by simp⟩
  · intro x _ hne
    rw [List.filter_eq_nil_iff]
    intro r hr
    obtain ⟨i, _, hg⟩ := mem_recsByType.mp hr
    obtain ⟨_, k2, _⟩ := hinv.kv _ _ _ _ _ hg
    simp only [k2, beq_iff_eq]
    intro c; rw [← ht] at c
    exact hne (by omega)

theorem byteOf_nat (tb : Nat) (hb : tb < 256) : byteOf (tb : Int) = some tb := by
  unfold byteOf
  have h1 : -128 ≤ (tb : Int) ∧ (tb : Int) ≤ 255 := by omega
  have h2 : ((tb : Int) % 256) = tb := Int.emod_eq_of_lt (by omega) (by omega)
  simp only [h1, and_self, if_true, h2]; rfl

/-! ### resolution -/

/-- a trailing dot is dropped -/
def stripDot (name : Name) : Name := if name.getLast? = some dot then name.dropLast else name

/-- one step of `resolve`: the records of the (dot-stripped) name -/
def hop (s : State) (env : Env) (name : Name) : Option (List Rec) :=
  if name.length = 0 then none else allRecords s env (stripDot name)

def dataOf (typ : Int) (rs : List Rec) : List Bytes := (rs.filter (fun r => r.typ == typ)).map (·.data)
def cnameOf (rs : List Rec) : Name := ((rs.filter (fun r => r.typ == cnameType)).map (·.data)).getLastD []

theorem resolveAux_zero (s : State) (env : Env) (res : List Bytes) (name : Name) (typ : Int) :
    resolveAux s env 0 res name typ = none := rfl

theorem resolveAux_succ (s : State) (env : Env) (fuel : Nat) (res : List Bytes) (name : Name) (typ : Int) :
    resolveAux s env (fuel + 1) res name typ =
      match hop s env name with
      | none => none
      | some rs =>
        if (cnameOf rs).length = 0 ∨ typ = cnameType then some (res ++ dataOf typ rs)
        else resolveAux s env fuel (res ++ dataOf typ rs) (cnameOf rs) typ := by
  unfold hop
  conv => lhs; unfold resolveAux
  by_cases h : name.length = 0
  · simp [h]
  · simp only [h, if_false]
    rfl

/-! ### token lookup -/

/-- the candidates of `tokenIDFromName`, longest first: the name itself, then every enclosing name down to
the second level -/
def candidates (n : Name) : List Name := (suffixes (split dot n)).dropLast.map joinDots

theorem tokenOf_spec (s : State) (now : Int) (n : Name) :
    (tokenOf s now n = n ∧ ∀ c ∈ candidates n, live s now c = false) ∨
    (live s now (tokenOf s now n) = true ∧ ∃ longer shorter, candidates n = longer ++ tokenOf s now n :: shorter ∧
      ∀ c ∈ longer, live s now c = false) := by
  unfold tokenOf
  cases hf : ((suffixes (split dot n)).dropLast.map joinDots).find? (live s now) with
  | none =>
    left
    refine ⟨rfl, ?_⟩
    intro c hc
    have := List.find?_eq_none.mp hf c hc
    simpa using this
  | some t =>
    right
    obtain ⟨h1, as, bs, h2, h3⟩ := List.find?_eq_some_iff_append.mp hf
    refine ⟨h1, as, bs, h2, ?_⟩
    intro c hc
    have := h3 c hc
    simpa using this

theorem suffixes_ne_nil {l : List Bytes} (h : l ≠ []) : suffixes l ≠ [] := by
  cases l with
  | nil => exact absurd rfl h
  | cons a b => simp [suffixes]

/-- if the directly enclosing name is unexpired, the token is the name itself or that enclosing name -/
theorem tokenOf_shallow (s : State) (now : Int) (n : Name) (hl : (split dot n).length ≥ 3)
    (hp : live s now (joinDots ((split dot n).drop 1)) = true) :
    tokenOf s now n = n ∨ tokenOf s now n = joinDots ((split dot n).drop 1) := by
  have hj := joinDots_split n
  unfold tokenOf
  cases hs : split dot n with
  | nil => rw [hs] at hl; simp at hl
  | cons f0 r0 =>
    cases r0 with
    | nil => rw [hs] at hl; simp at hl
    | cons f1 r1 =>
      cases r1 with
      | nil => rw [hs] at hl; simp at hl
      | cons f2 r2 =>
        rw [hs] at hp hj
        simp only [List.drop_succ_cons, List.drop_zero] at hp ⊢
        have e : (suffixes (f0 :: f1 :: f2 :: r2)).dropLast =
            (f0 :: f1 :: f2 :: r2) :: (f1 :: f2 :: r2) :: (suffixes (f2 :: r2)).dropLast := by
          simp [suffixes]
        rw [e]
        simp only [List.map_cons, List.find?_cons, hj]
        cases hl0 : live s now n with
        | true => left; rfl
        | false => right; simp [hp]

end NeoFS.NNS
