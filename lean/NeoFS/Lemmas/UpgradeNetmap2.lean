import NeoFS.Lemmas.UpgradeNetmap
/-! Netmap, continued: what the update branch does to the node lists, the candidates and the NewEpoch
subscribers. -/
namespace NeoFS.Upgrade
open NeoFS NeoFS.Generated

/-- stages two and three of the Netmap update branch (`switchToNotary`, subscribers) -/
def netmapLate (v h : Int) (s1 : Store) : Option Store :=
  match (if v < 17000 then switchToNotary [innerRingKey] true s1 h else some s1) with
  | none => none
  | some s2 =>
    if v < 19000 then
      match moveSubscriber s2 balanceHashKey 0 with
      | none => none
      | some s3 => moveSubscriber s3 containerHashKey 1
    else some s2

theorem netmapMigrate_eq (v h : Int) (s : Store) :
    netmapMigrate v h s =
      match (if v < 16000 then netmapNodes16 s else some s) with
      | none => none
      | some s1 => netmapLate v h s1 := rfl

/-- the keys stages two and three may write -/
def NetmapLate (q : Bytes) : Prop :=
  hasPrefix subPrefix q = true ∨ q ∈ [notaryKey, voteKey, innerRingKey, balanceHashKey, containerHashKey]

theorem touches_moveSubscriber_late {s s' : Store} {oldKey : Bytes} {idx : Nat}
    (h : moveSubscriber s oldKey idx = some s') (ho : oldKey = balanceHashKey ∨ oldKey = containerHashKey) :
    Touches NetmapLate s s' := by
  unfold moveSubscriber at h
  cases hg : get s oldKey with
  | none => rw [hg] at h; cases h
  | some hsh =>
    rw [hg] at h
    simp only [Option.some.injEq] at h
    rw [← h]
    have a := (touches_put s (netmap_newEpochSubscribersPrefix_bytes ++ [idx] ++ hsh) []).mono (W' := NetmapLate)
      (fun q e => by
        left
        rw [e]
        unfold subPrefix hasPrefix
        simp [netmap_newEpochSubscribersPrefix_bytes, List.isPrefixOf])
    have b := (touches_del (put s (netmap_newEpochSubscribersPrefix_bytes ++ [idx] ++ hsh) []) oldKey).mono
      (W' := NetmapLate) (fun q e => by
        right
        rw [e]
        rcases ho with e' | e' <;> simp [e'])
    exact a.trans b

theorem touches_netmapLate {v h : Int} {s1 s' : Store} (hm : netmapLate v h s1 = some s') :
    Touches NetmapLate s1 s' := by
  unfold netmapLate at hm
  cases h2 : (if v < 17000 then switchToNotary [innerRingKey] true s1 h else some s1) with
  | none => rw [h2] at hm; cases hm
  | some s2 =>
    rw [h2] at hm
    simp only at hm
    have tB : Touches NetmapLate s1 s2 := by
      by_cases hv : v < 17000
      · simp only [hv, if_true] at h2
        exact (touches_switchToNotary h2).mono (fun q e => by
          right
          simp only [List.mem_cons, List.not_mem_nil, or_false] at e ⊢
          rcases e with e | e | e
          · exact Or.inl e
          · exact Or.inr (Or.inl e)
          · exact Or.inr (Or.inr (Or.inl e)))
      · simp only [hv, if_false, Option.some.injEq] at h2; rw [← h2]; exact Touches.refl _ _
    by_cases hv : v < 19000
    · simp only [hv, if_true] at hm
      cases h3 : moveSubscriber s2 balanceHashKey 0 with
      | none => rw [h3] at hm; cases hm
      | some s3 =>
        rw [h3] at hm
        simp only at hm
        exact (tB.trans (touches_moveSubscriber_late h3 (Or.inl rfl))).trans
          (touches_moveSubscriber_late hm (Or.inr rfl))
    · simp only [hv, if_false, Option.some.injEq] at hm
      rw [← hm]; exact tB

/-- **key separation**: a snapshot key is none of the keys the later stages write, nor a candidate -/
theorem snapshotKey_sep (i : Nat) :
    ¬ NetmapLate (snapshotKey i) ∧ hasPrefix netmap_candidatePrefix (snapshotKey i) = false := by
  constructor
  · intro h
    rcases h with h | h
    · unfold subPrefix hasPrefix snapshotKey netmap_newEpochSubscribersPrefix_bytes netmap_snapshotKeyPrefix_bytes at h
      simp [List.isPrefixOf] at h
    · have : (snapshotKey i).length = 10 := by simp [snapshotKey, netmap_snapshotKeyPrefix_bytes]
      have hl : ∀ k ∈ [notaryKey, voteKey, innerRingKey, balanceHashKey, containerHashKey], k.length ≠ 10 := by decide
      exact hl _ h this
  · unfold hasPrefix snapshotKey netmap_candidatePrefix netmap_snapshotKeyPrefix_bytes
    simp [List.isPrefixOf]

/-- a candidate key (`candidate ‖ …`) is none of the keys the later stages write, nor a snapshot key -/
theorem candidateKey_sep {k : Bytes} (hk : hasPrefix netmap_candidatePrefix k = true) :
    ¬ NetmapLate k ∧ ∀ j, k ≠ snapshotKey j := by
  have hh : k.head? = some 99 := by
    unfold netmap_candidatePrefix at hk
    exact legacy_not_owner_prefixed.head_of_hasPrefix_aux hk
  constructor
  · intro h
    rcases h with h | h
    · have : k.head? = some 101 := by
        unfold subPrefix netmap_newEpochSubscribersPrefix_bytes at h
        exact legacy_not_owner_prefixed.head_of_hasPrefix_aux h
      rw [hh] at this; cases this
    · have hl : ∀ k ∈ [notaryKey, voteKey, innerRingKey, balanceHashKey, containerHashKey],
          hasPrefix netmap_candidatePrefix k = false := by decide
      rw [hl k h] at hk; cases hk
  · intro j e
    rw [e] at hh
    simp [snapshotKey, netmap_snapshotKeyPrefix_bytes] at hh

/-- **node lists before 0.16**: every snapshot slot `i < count` holds the converted list after the upgrade
(`{BLOB}` ↦ `{BLOB, Online}` node for node; an empty list stays an empty list); an absent slot stays absent -/
theorem netmap_snapshot_migrated {v h : Int} {s s' : Store} (hv : v < 16000)
    (hm : netmapMigrate v h s = some s') (c : Nat) (hc : snapshotCount s = some c) (i : Nat) (hi : i < c) :
    match get s (snapshotKey i) with
    | none => get s' (snapshotKey i) = none
    | some d => ∃ d', convSnapshot d = some d' ∧ get s' (snapshotKey i) = some d' := by
  rw [netmapMigrate_eq] at hm
  simp only [hv, if_true] at hm
  cases h1 : netmapNodes16 s with
  | none => rw [h1] at hm; cases hm
  | some s1 =>
    rw [h1] at hm
    simp only at hm
    unfold netmapNodes16 at h1
    rw [hc] at h1
    simp only at h1
    cases h0 : forSnapshots s (List.range c) with
    | none => rw [h0] at h1; cases h1
    | some s0 =>
      rw [h0] at h1
      simp only at h1
      have eff := forSnapshots_effect h0 List.nodup_range i (List.mem_range.mpr hi)
      have keep1 : get s1 (snapshotKey i) = get s0 (snapshotKey i) := by
        apply (touches_forCandidates h1).get_eq
        intro hmem
        obtain ⟨kv, hkv, e⟩ := List.mem_map.mp hmem
        have := (mem_snapshot_prefix hkv).1
        rw [e, (snapshotKey_sep i).2] at this
        cases this
      have keep2 : get s' (snapshotKey i) = get s1 (snapshotKey i) :=
        (touches_netmapLate hm).get_eq _ (snapshotKey_sep i).1
      rw [keep2, keep1]
      exact eff

/-- **candidates before 0.16**: every candidate record `{{BLOB}, state}` is `{BLOB, state}` after the upgrade -/
theorem netmap_candidate_migrated {v h : Int} {s s' : Store} (hv : v < 16000) (hn : NodupKeys s)
    (hm : netmapMigrate v h s = some s') (k d : Bytes) (hk : hasPrefix netmap_candidatePrefix k = true)
    (hg : get s k = some d) : ∃ d', candOldToNew d = some d' ∧ get s' k = some d' := by
  rw [netmapMigrate_eq] at hm
  simp only [hv, if_true] at hm
  cases h1 : netmapNodes16 s with
  | none => rw [h1] at hm; cases hm
  | some s1 =>
    rw [h1] at hm
    simp only at hm
    unfold netmapNodes16 at h1
    cases hc : snapshotCount s with
    | none => rw [hc] at h1; cases h1
    | some c =>
      rw [hc] at h1
      simp only at h1
      cases h0 : forSnapshots s (List.range c) with
      | none => rw [h0] at h1; cases h1
      | some s0 =>
        rw [h0] at h1
        simp only at h1
        have t0 := touches_forSnapshots h0
        have g0 : get s0 k = some d := by
          rw [t0.get_eq k (fun ⟨j, e⟩ => (candidateKey_sep hk).2 j e)]; exact hg
        have hn0 := t0.nodup hn
        have mem : (k, d) ∈ snapshot s0 netmap_candidatePrefix := by
          apply (snapshot_perm s0 _).mem_iff.mpr
          simp only [List.mem_filter]
          exact ⟨get_some_mem g0, hk⟩
        have nd : NodupKeys (snapshot s0 netmap_candidatePrefix) := by
          apply nodupKeys_of_perm (snapshot_perm s0 _)
          unfold NodupKeys keys at *
          exact List.Nodup.sublist (List.Sublist.map _ List.filter_sublist) hn0
        obtain ⟨d', hd, hg1⟩ := forCandidates_effect h1 nd k d mem
        refine ⟨d', hd, ?_⟩
        rw [(touches_netmapLate hm).get_eq _ (candidateKey_sep hk).1]
        exact hg1

/-- since 0.16 node lists and candidates are not touched at all -/
theorem netmap_nodes_untouched {v h : Int} {s s' : Store} (hv : ¬ v < 16000) (hm : netmapMigrate v h s = some s')
    (k : Bytes) (hk : (∃ i, k = snapshotKey i) ∨ hasPrefix netmap_candidatePrefix k = true) :
    get s' k = get s k := by
  rw [netmapMigrate_eq] at hm
  simp only [hv, if_false] at hm
  apply (touches_netmapLate hm).get_eq
  rcases hk with ⟨i, e⟩ | hk
  · rw [e]; exact (snapshotKey_sep i).1
  · exact (candidateKey_sep hk).1

/-! ### subscribers (< 0.19) -/

theorem filter_put_of_pref (f : Bytes → Bool) (s : Store) (k v : Bytes) (hk : f k = true) :
    (put s k v).filter (fun kv => f kv.1) =
      (k, v) :: (s.filter (fun kv => f kv.1)).filter (fun kv => decide (kv.1 ≠ k)) := by
  unfold put del
  rw [List.filter_cons]
  simp only [hk, if_true]
  rw [List.filter_filter, List.filter_filter]
  congr 1
  apply List.filter_congr
  intro a _
  exact Bool.and_comm _ _

/-- **subscribers**: a storage without `e…` keys that names the Balance and the Container contract under the
legacy keys ends with exactly these two contracts as NewEpoch subscribers, Balance first -/
theorem netmap_subscribers {v h : Int} {s s' : Store} (hv : v < 19000) (hm : netmapMigrate v h s = some s')
    (hnone : snapshot s subPrefix = []) (b c : Bytes)
    (hb : get s balanceHashKey = some b) (hc : get s containerHashKey = some c) :
    nmSubscribers s' = [b, c] := by
  rw [netmapMigrate_eq] at hm
  cases h1 : (if v < 16000 then netmapNodes16 s else some s) with
  | none => rw [h1] at hm; cases hm
  | some s1 =>
    rw [h1] at hm
    simp only at hm
    -- stage one writes neither `e…` keys nor the two address keys
    have tA : Touches (fun q => (∃ j, q = snapshotKey j) ∨ hasPrefix netmap_candidatePrefix q = true) s s1 := by
      by_cases hv16 : v < 16000
      · simp only [hv16, if_true] at h1
        unfold netmapNodes16 at h1
        cases hcnt : snapshotCount s with
        | none => rw [hcnt] at h1; cases h1
        | some cnt =>
          rw [hcnt] at h1
          simp only at h1
          cases h0 : forSnapshots s (List.range cnt) with
          | none => rw [h0] at h1; cases h1
          | some s0 =>
            rw [h0] at h1
            simp only at h1
            exact ((touches_forSnapshots h0).mono (fun q e => Or.inl e)).trans
              ((touches_forCandidates h1).mono (fun q e => by
                right
                obtain ⟨kv, hkv, rfl⟩ := List.mem_map.mp e
                exact (mem_snapshot_prefix hkv).1))
      · simp only [hv16, if_false, Option.some.injEq] at h1; rw [← h1]; exact Touches.refl _ _
    have notE : ∀ k, ((∃ j, k = snapshotKey j) ∨ hasPrefix netmap_candidatePrefix k = true) →
        hasPrefix subPrefix k = false := by
      intro k hk
      cases hp : hasPrefix subPrefix k with
      | false => rfl
      | true =>
        exfalso
        rcases hk with ⟨j, e⟩ | hk
        · exact (snapshotKey_sep j).1 (Or.inl (e ▸ hp))
        · exact (candidateKey_sep hk).1 (Or.inl hp)
    have hnone1 : snapshot s1 subPrefix = [] := by rw [tA.snap_eq subPrefix notE]; exact hnone
    have addrKeep : ∀ k ∈ [balanceHashKey, containerHashKey], get s1 k = get s k := by
      intro k hk
      apply tA.get_eq
      have : ∀ k ∈ [balanceHashKey, containerHashKey], k.length ≠ 10 ∧ hasPrefix netmap_candidatePrefix k = false := by
        decide
      rintro (⟨j, e⟩ | hp)
      · apply (this k hk).1; rw [e]; simp [snapshotKey, netmap_snapshotKeyPrefix_bytes]
      · rw [(this k hk).2] at hp; cases hp
    unfold netmapLate at hm
    cases h2 : (if v < 17000 then switchToNotary [innerRingKey] true s1 h else some s1) with
    | none => rw [h2] at hm; cases hm
    | some s2 =>
      rw [h2] at hm
      simp only [hv, if_true] at hm
      have tB : Touches (fun q => q ∈ [notaryKey, voteKey, innerRingKey]) s1 s2 := by
        by_cases hv17 : v < 17000
        · simp only [hv17, if_true] at h2; exact touches_switchToNotary h2
        · simp only [hv17, if_false, Option.some.injEq] at h2; rw [← h2]; exact Touches.refl _ _
      have hnone2 : snapshot s2 subPrefix = [] := by
        rw [tB.snap_eq subPrefix (by decide)]; exact hnone1
      have hb2 : get s2 balanceHashKey = some b := by
        rw [tB.get_eq _ (by decide), addrKeep _ (by simp)]; exact hb
      have hc2 : get s2 containerHashKey = some c := by
        rw [tB.get_eq _ (by decide), addrKeep _ (by simp)]; exact hc
      -- the two moves, explicitly
      unfold moveSubscriber at hm
      rw [hb2] at hm
      simp only at hm
      have hc3 : get (del (put s2 (netmap_newEpochSubscribersPrefix_bytes ++ [0] ++ b) []) balanceHashKey)
          containerHashKey = some c := by
        rw [get_del_other _ _ _ (by decide), get_put_other _ _ _ _ (by
          intro e
          have := congrArg List.head? e
          simp [containerHashKey, netmap_containerContractKey_bytes, netmap_newEpochSubscribersPrefix_bytes] at this)]
        exact hc2
      rw [hc3] at hm
      simp only [Option.some.injEq] at hm
      rw [← hm]
      have e0 : hasPrefix subPrefix (netmap_newEpochSubscribersPrefix_bytes ++ [0] ++ b) = true := by
        unfold subPrefix hasPrefix; simp [netmap_newEpochSubscribersPrefix_bytes, List.isPrefixOf]
      have e1 : hasPrefix subPrefix (netmap_newEpochSubscribersPrefix_bytes ++ [1] ++ c) = true := by
        unfold subPrefix hasPrefix; simp [netmap_newEpochSubscribersPrefix_bytes, List.isPrefixOf]
      have nb : hasPrefix subPrefix balanceHashKey = false := by decide
      have nc : hasPrefix subPrefix containerHashKey = false := by decide
      have f2 : s2.filter (fun kv => hasPrefix subPrefix kv.1) = [] := by
        have := hnone2
        unfold snapshot at this
        have p := sortKV_perm (s2.filter (fun kv => hasPrefix subPrefix kv.1))
        rw [this] at p
        exact List.Perm.eq_nil (List.Perm.symm p)
      have f3 : (del (put s2 (netmap_newEpochSubscribersPrefix_bytes ++ [0] ++ b) []) balanceHashKey).filter
          (fun kv => hasPrefix subPrefix kv.1) = [(netmap_newEpochSubscribersPrefix_bytes ++ [0] ++ b, [])] := by
        rw [filter_del_of_not (fun x => hasPrefix subPrefix x) _ _ nb,
          filter_put_of_pref (fun x => hasPrefix subPrefix x) _ _ _ e0, f2]
        rfl
      have kne : netmap_newEpochSubscribersPrefix_bytes ++ [0] ++ b ≠ netmap_newEpochSubscribersPrefix_bytes ++ [1] ++ c := by
        intro e
        simp [netmap_newEpochSubscribersPrefix_bytes] at e
      unfold nmSubscribers snapshot
      change ((sortKV ((del (put (del (put s2 (netmap_newEpochSubscribersPrefix_bytes ++ [0] ++ b) []) balanceHashKey)
        (netmap_newEpochSubscribersPrefix_bytes ++ [1] ++ c) []) containerHashKey).filter
        (fun kv => hasPrefix subPrefix kv.1))).map fun kv => kv.1.drop 2) = [b, c]
      rw [filter_del_of_not (fun x => hasPrefix subPrefix x) _ _ nc,
        filter_put_of_pref (fun x => hasPrefix subPrefix x) _ _ _ e1, f3]
      simp only [List.filter_cons, List.filter_nil, ne_eq, kne, not_false_eq_true, decide_true, if_true]
      have le : keyLe (101 :: 1 :: c) (101 :: 0 :: b) = false := by
        unfold keyLe
        simp only [decide_eq_false_iff_not, List.not_le]
        apply List.Lex.cons
        exact List.Lex.rel (by decide)
      simp [sortKV, insKV, le, netmap_newEpochSubscribersPrefix_bytes]

/-- stage one (node structures) writes snapshot slots and candidate records only -/
theorem touches_netmapNodes16_fine {s s1 : Store} (h1 : netmapNodes16 s = some s1) :
    Touches (fun q => (∃ j, q = snapshotKey j) ∨ hasPrefix netmap_candidatePrefix q = true) s s1 := by
  unfold netmapNodes16 at h1
  cases hcnt : snapshotCount s with
  | none => rw [hcnt] at h1; cases h1
  | some cnt =>
    rw [hcnt] at h1
    simp only at h1
    cases h0 : forSnapshots s (List.range cnt) with
    | none => rw [h0] at h1; cases h1
    | some s0 =>
      rw [h0] at h1
      simp only at h1
      exact ((touches_forSnapshots h0).mono (fun q e => Or.inl e)).trans
        ((touches_forCandidates h1).mono (fun q e => by
          right
          obtain ⟨kv, hkv, rfl⟩ := List.mem_map.mp e
          exact (mem_snapshot_prefix hkv).1))

/-! ### NNS: name states -/

/-- finer than `touches_forNames`: besides balances and account tokens only the name keys of the
iterated entries are written -/
theorem touches_forNames_fine {s s' : Store} {l : Store} (h : forNames s l = some s')
    (hl : ∀ kv ∈ l, kv.1.head? = some nns_prefixName.toNat) :
    Touches (fun q => q.head? = some nns_prefixBalance.toNat ∨ q.head? = some nns_prefixAccountToken.toNat ∨
      q ∈ keys l) s s' := by
  induction l generalizing s with
  | nil => simp only [forNames, Option.some.injEq] at h; rw [← h]; exact Touches.refl _ _
  | cons kv r ih =>
    unfold forNames at h
    cases h1 : nnsStep s kv with
    | none => rw [h1] at h; cases h
    | some s1 =>
      rw [h1] at h
      have tail := (ih h (fun kv' hm => hl kv' (List.mem_cons_of_mem _ hm))).mono
        (W' := fun q => q.head? = some nns_prefixBalance.toNat ∨ q.head? = some nns_prefixAccountToken.toNat ∨
          q ∈ keys (kv :: r))
        (fun q e => by
          rcases e with e | e | e
          · exact Or.inl e
          · exact Or.inr (Or.inl e)
          · right; right; simp only [keys, List.map_cons, List.mem_cons]; exact Or.inr e)
      refine Touches.trans ?_ tail
      -- the step itself
      unfold nnsStep at h1
      cases hd : deser kv.2 with
      | none => rw [hd] at h1; cases h1
      | some it =>
        rw [hd] at h1
        simp only at h1
        split at h1
        · rename_i owner nameI rest _
          split at h1
          · rename_i name
            split at h1
            · simp only [Option.some.injEq] at h1; rw [← h1]; exact Touches.refl _ _
            · split at h1
              · rename_i o
                simp only [Option.some.injEq] at h1
                rw [← h1]
                have a := (touches_nnsDropOwner s o (kv.1.drop 1)).mono
                  (W' := fun q => q.head? = some nns_prefixBalance.toNat ∨ q.head? = some nns_prefixAccountToken.toNat ∨
                    q ∈ keys (kv :: r))
                  (fun q e => by
                    rcases e with e | e
                    · exact Or.inl e
                    · exact Or.inr (Or.inl e))
                exact a.trans ((touches_put _ kv.1 _).mono (fun q e => by
                  right; right; simp [keys, e]))
              · cases h1
          · cases h1
        · cases h1

/-- a name key outside the iterated entries is not written -/
theorem forNames_skip {s s' : Store} {l : Store} (h : forNames s l = some s')
    (hl : ∀ kv ∈ l, kv.1.head? = some nns_prefixName.toNat) (k : Bytes) (hk : k ∉ keys l)
    (hh : k.head? = some nns_prefixName.toNat) : get s' k = get s k := by
  apply (touches_forNames_fine h hl).get_eq
  rintro (e | e | e)
  · rw [hh] at e; exact absurd e (by decide)
  · rw [hh] at e; exact absurd e (by decide)
  · exact hk e

/-- the name key of an iterated entry holds, at the end, what the entry's own step left there -/
theorem forNames_at {s s' : Store} {l : Store} (h : forNames s l = some s') (hn : NodupKeys l)
    (hl : ∀ kv ∈ l, kv.1.head? = some nns_prefixName.toNat) (k v : Bytes) (hm : (k, v) ∈ l) :
    ∃ s0 s1, nnsStep s0 (k, v) = some s1 ∧ get s' k = get s1 k ∧ get s0 k = get s k := by
  induction l generalizing s with
  | nil => simp at hm
  | cons kv0 r ih =>
    have h' := h
    unfold forNames at h
    cases h1 : nnsStep s kv0 with
    | none => rw [h1] at h; cases h
    | some s1 =>
      rw [h1] at h
      simp only [NodupKeys, keys, List.map_cons, List.nodup_cons] at hn
      have hr : ∀ kv ∈ r, kv.1.head? = some nns_prefixName.toNat := fun kv hkv => hl kv (List.mem_cons_of_mem _ hkv)
      simp only [List.mem_cons] at hm
      rcases hm with e | hm
      · subst e
        exact ⟨s, s1, h1, forNames_skip h hr k hn.1 (hl _ List.mem_cons_self), rfl⟩
      · obtain ⟨t0, t1, hstep, ha, hb⟩ := ih h hn.2 hr hm
        refine ⟨t0, t1, hstep, ha, ?_⟩
        rw [hb]
        -- the first step does not write `k`
        have one : forNames s [kv0] = some s1 := by simp [forNames, h1]
        apply forNames_skip one (fun kv hkv => by
          simp only [List.mem_singleton] at hkv; rw [hkv]; exact hl _ List.mem_cons_self) k
        · simp only [keys, List.map_cons, List.map_nil, List.mem_singleton]
          intro e
          exact hn.1 (e ▸ List.mem_map.mpr ⟨(k, v), hm, rfl⟩)
        · exact hl _ (List.mem_cons_of_mem _ hm)

theorem nns_entries {s : Store} (hn : NodupKeys s) :
    NodupKeys (snapshot s [nns_prefixName.toNat]) ∧
      (∀ kv ∈ snapshot s [nns_prefixName.toNat], kv.1.head? = some nns_prefixName.toNat) ∧
      (∀ k v, get s k = some v → k.head? = some nns_prefixName.toNat → (k, v) ∈ snapshot s [nns_prefixName.toNat]) := by
  refine ⟨?_, ?_, ?_⟩
  · apply nodupKeys_of_perm (snapshot_perm s _)
    unfold NodupKeys keys at *
    exact List.Nodup.sublist (List.Sublist.map _ List.filter_sublist) hn
  · intro kv hkv
    exact (hasPrefix_singleton _ _).mp (mem_snapshot_prefix hkv).1
  · intro k v hg hh
    apply (snapshot_perm s _).mem_iff.mpr
    simp only [List.mem_filter]
    exact ⟨get_some_mem hg, (hasPrefix_singleton _ _).mpr hh⟩

/-- **NNS, names below a TLD**: the state of a name containing a dot (owner, name, expiration, admin) is
byte for byte what it was -/
theorem nns_subdomain_untouched {v : Int} {s s' : Store} (hn : NodupKeys s) (hv : v < 18000)
    (hm : nnsMigrate v s = some s') (k val : Bytes) (hg : get s k = some val)
    (hh : k.head? = some nns_prefixName.toNat) (it owner : Item) (name : Bytes) (rest : List Item)
    (hd : deser val = some it) (he : elems it = some (owner :: Item.bytes name :: rest))
    (hdot : isTLDName name = false) : get s' k = some val := by
  unfold nnsMigrate at hm
  have : ¬ v ≥ 18000 := by omega
  simp only [this, if_false] at hm
  obtain ⟨nd, heads, mem⟩ := nns_entries hn
  obtain ⟨s0, s1, hstep, ha, hb⟩ := forNames_at hm nd heads k val (mem k val hg hh)
  unfold nnsStep at hstep
  simp only [hd, he, hdot, Bool.not_false, if_true, Option.some.injEq] at hstep
  rw [ha, ← hstep, hb, hg]

/-- **NNS, TLDs**: the state of a name without a dot keeps name, expiration and admin and loses its owner -/
theorem nns_tld_owner_dropped {v : Int} {s s' : Store} (hn : NodupKeys s) (hv : v < 18000)
    (hm : nnsMigrate v s = some s') (k val : Bytes) (hg : get s k = some val)
    (hh : k.head? = some nns_prefixName.toNat) (o name : Bytes) (rest : List Item)
    (hd : deser val = some (Item.struct (Item.bytes o :: Item.bytes name :: rest)))
    (hdot : isTLDName name = true) :
    get s' k = some (ser (Item.struct (Item.null :: Item.bytes name :: rest))) := by
  unfold nnsMigrate at hm
  have : ¬ v ≥ 18000 := by omega
  simp only [this, if_false] at hm
  obtain ⟨nd, heads, mem⟩ := nns_entries hn
  obtain ⟨s0, s1, hstep, ha, _⟩ := forNames_at hm nd heads k val (mem k val hg hh)
  unfold nnsStep at hstep
  simp only [hd, elems, hdot, Bool.not_true, Bool.false_eq_true, if_false, Option.some.injEq] at hstep
  rw [ha, ← hstep, get_put_self]

end NeoFS.Upgrade
