import NeoFS.Lemmas.NNSSyntaxSplit
/-! `checkIPv4` answers `true` exactly on the canonical dotted-quad public unicast addresses (`Spec.CanonIPv4`). -/
namespace NeoFS.NNSSyntax
open NeoFS NeoFS.NNSSyntax.Spec

theorem isDigit_iff (c : Nat) : isDigit c = true ↔ Digit c := by
  unfold isDigit Digit; rw [Bool.and_eq_true, decide_eq_true_eq, decide_eq_true_eq]

theorem valAux_eq_foldl (acc : Nat) (s : Bytes) :
    valAux acc s = s.foldl (fun a c => a * 10 + (c - 48)) acc := by
  induction s generalizing acc with
  | nil => rfl
  | cons c cs ih =>
    show valAux (acc * 10 + (c - 48)) cs = _
    rw [ih]; rfl

theorem val_eq_decVal (s : Bytes) : val s = decVal s := valAux_eq_foldl 0 s

theorem valAux_ge (acc : Nat) (r : Bytes) : acc ≤ valAux acc r := by
  induction r generalizing acc with
  | nil => exact Nat.le_refl _
  | cons d ds ih =>
    have h := ih (acc * 10 + (d - 48))
    show acc ≤ valAux (acc * 10 + (d - 48)) ds
    omega

theorem val_cons (c : Nat) (r : Bytes) : val (c :: r) = valAux (c - 48) r := by
  show valAux (0 * 10 + (c - 48)) r = valAux (c - 48) r
  rw [Nat.zero_mul, Nat.zero_add]

theorem val_pos_of_head (c : Nat) (r : Bytes) (h : 49 ≤ c) : 0 < val (c :: r) := by
  rw [val_cons]; have := valAux_ge (c - 48) r; omega

theorem digits_iff (r : Bytes) : digits r = true ↔ r ≠ [] ∧ ∀ c ∈ r, Digit c := by
  unfold digits
  rw [Bool.and_eq_true, List.all_eq_true]
  constructor
  · rintro ⟨h1, h2⟩
    refine ⟨?_, fun c hc => (isDigit_iff c).mp (h2 c hc)⟩
    intro e; subst e; simp at h1
  · rintro ⟨h1, h2⟩
    refine ⟨?_, fun c hc => (isDigit_iff c).mpr (h2 c hc)⟩
    cases r with
    | nil => exact absurd rfl h1
    | cons _ _ => rfl

/-- for a string that starts with a digit `Atoi10` is the plain decimal reading -/
theorem atoi10_of_digit_head (c : Nat) (r : Bytes) (hc : 48 ≤ c ∧ c ≤ 57) :
    atoi10 (c :: r) = if digits (c :: r) then some (((val (c :: r) : Nat) : Int)) else none := by
  have h43 : c ≠ 43 := by omega
  have h45 : c ≠ 45 := by omega
  simp only [atoi10, h43, h45, if_false]

/-- a digit string of four or more characters that does not start with `0` is worth at least 1000 -/
theorem val_ge_1000 (c0 c1 c2 c3 : Nat) (r : Bytes) (h : 49 ≤ c0) : 1000 ≤ val (c0 :: c1 :: c2 :: c3 :: r) := by
  rw [val_cons]
  show 1000 ≤ valAux ((((c0 - 48) * 10 + (c1 - 48)) * 10 + (c2 - 48)) * 10 + (c3 - 48)) r
  have := valAux_ge ((((c0 - 48) * 10 + (c1 - 48)) * 10 + (c2 - 48)) * 10 + (c3 - 48)) r
  omega

theorem canonOctet_length {f : Bytes} {k : Nat} (h : CanonOctet f k) : 1 ≤ f.length ∧ f.length ≤ 3 := by
  obtain ⟨hne, hd, hz, hv, hk⟩ := h
  cases f with
  | nil => exact absurd rfl hne
  | cons c0 r0 =>
    refine ⟨by simp, ?_⟩
    cases r0 with
    | nil => simp
    | cons c1 r1 =>
      cases r1 with
      | nil => simp
      | cons c2 r2 =>
        cases r2 with
        | nil => simp
        | cons c3 r3 =>
          exfalso
          have h0 : Digit c0 := hd c0 (by simp)
          have hne48 : c0 ≠ 48 := by
            intro e; apply hz (by simp); simp [e]
          have := val_ge_1000 c0 c1 c2 c3 r3 (by unfold Digit at h0; omega)
          rw [val_eq_decVal] at this
          omega

theorem canonOctet_no_dot {f : Bytes} {k : Nat} (h : CanonOctet f k) : 46 ∉ f := by
  intro hm; have := h.2.1 46 hm; unfold Digit at this; omega

/-- one loop iteration of `checkIPv4` stores `n` iff the fragment is the canonical text of the octet `n` -/
theorem v4frag_iff (f : Bytes) (n : Int) :
    v4frag f = some (some n) ↔ ∃ k : Nat, n = ((k : Nat) : Int) ∧ CanonOctet f k := by
  cases f with
  | nil =>
    constructor
    · intro h; simp [v4frag] at h
    · rintro ⟨k, _, h, _⟩; exact absurd rfl h
  | cons c r =>
    by_cases hc : c < 48 ∨ 57 < c
    · have : v4frag (c :: r) = some none := by simp only [v4frag, hc, if_true]
      rw [this]
      constructor
      · intro h; cases h
      · rintro ⟨k, _, _, hd, _⟩
        have := hd c (by simp); unfold Digit at this; omega
    · have hc' : 48 ≤ c ∧ c ≤ 57 := by omega
      by_cases hd : digits (c :: r) = true
      · have hf : v4frag (c :: r) =
            (let n : Int := ((val (c :: r) : Nat) : Int)
             if n < 0 ∨ 255 < n then none
             else if 0 < n ∧ c = 48 then some none
             else if n = 0 ∧ 1 < (c :: r).length then some none
             else some (some n)) := by
          simp only [v4frag, hc, if_false, atoi10_of_digit_head c r hc', hd, if_true]
        rw [hf]
        have hdd := (digits_iff _).mp hd
        dsimp only
        by_cases h1 : ((val (c :: r) : Nat) : Int) < 0 ∨ 255 < ((val (c :: r) : Nat) : Int)
        · rw [if_pos h1]
          constructor
          · intro h; cases h
          · rintro ⟨k, _, _, _, _, hv, hk⟩
            rw [← val_eq_decVal] at hv; omega
        · rw [if_neg h1]
          by_cases h2 : 0 < ((val (c :: r) : Nat) : Int) ∧ c = 48
          · rw [if_pos h2]
            constructor
            · intro h; cases h
            · rintro ⟨k, _, _, _, hz, hv, _⟩
              exfalso
              have hlen : 1 < (c :: r).length := by
                cases r with
                | nil =>
                  have : val [c] = c - 48 := by rw [val_cons]; rfl
                  omega
                | cons _ _ => simp
              apply hz hlen; simp [h2.2]
          · rw [if_neg h2]
            by_cases h3 : ((val (c :: r) : Nat) : Int) = 0 ∧ 1 < (c :: r).length
            · rw [if_pos h3]
              constructor
              · intro h; cases h
              · rintro ⟨k, _, _, _, hz, _, _⟩
                exfalso
                have hne : c ≠ 48 := by
                  intro e; apply hz h3.2; simp [e]
                have := val_pos_of_head c r (by omega)
                omega
            · rw [if_neg h3]
              constructor
              · intro h
                have hn : n = ((val (c :: r) : Nat) : Int) := by
                  have := Option.some.inj (Option.some.inj h); exact this.symm
                refine ⟨val (c :: r), hn, hdd.1, hdd.2, ?_, (val_eq_decVal _).symm, by omega⟩
                intro hlen hh
                simp only [List.head?_cons, Option.some.injEq] at hh
                omega
              · rintro ⟨k, hk, _, _, _, hv, _⟩
                rw [← val_eq_decVal] at hv
                rw [hk, ← hv]
      · have hd' : digits (c :: r) = false := by
          cases hb : digits (c :: r) with
          | true => exact absurd hb hd
          | false => rfl
        have hf : v4frag (c :: r) = none := by
          simp only [v4frag, hc, if_false, atoi10_of_digit_head c r hc', hd']
          rfl
        rw [hf]
        constructor
        · intro h; cases h
        · rintro ⟨k, _, h1, h2, _⟩
          exact absurd ((digits_iff _).mpr ⟨h1, h2⟩) hd

theorem v4loop_cons_iff (f : Bytes) (r : List Bytes) (ns : List Int) :
    v4loop (f :: r) = some (some ns) ↔
      ∃ n ns', ns = n :: ns' ∧ v4frag f = some (some n) ∧ v4loop r = some (some ns') := by
  simp only [v4loop]
  cases h1 : v4frag f with
  | none => simp
  | some o =>
    cases o with
    | none => simp
    | some n =>
      cases h2 : v4loop r with
      | none => simp
      | some o2 =>
        cases o2 with
        | none => simp
        | some ns' =>
          simp only [Option.some.injEq]
          constructor
          · intro h; exact ⟨n, ns', h.symm, rfl, rfl⟩
          · rintro ⟨n', ns'', h, h3, h4⟩; subst h3; subst h4; exact h.symm

theorem v4loop_nil_iff (ns : List Int) : v4loop [] = some (some ns) ↔ ns = [] := by
  simp only [v4loop, Option.some.injEq]; exact eq_comm

theorem v4loop_four (f0 f1 f2 f3 : Bytes) (ns : List Int) :
    v4loop [f0, f1, f2, f3] = some (some ns) ↔
      ∃ a b c d : Nat, ns = [(a : Int), (b : Int), (c : Int), (d : Int)] ∧
        CanonOctet f0 a ∧ CanonOctet f1 b ∧ CanonOctet f2 c ∧ CanonOctet f3 d := by
  constructor
  · intro h
    obtain ⟨n0, r0, e0, h0, h⟩ := (v4loop_cons_iff _ _ _).mp h
    obtain ⟨n1, r1, e1, h1, h⟩ := (v4loop_cons_iff _ _ _).mp h
    obtain ⟨n2, r2, e2, h2, h⟩ := (v4loop_cons_iff _ _ _).mp h
    obtain ⟨n3, r3, e3, h3, h⟩ := (v4loop_cons_iff _ _ _).mp h
    have e4 := (v4loop_nil_iff _).mp h
    obtain ⟨a, ha, ca⟩ := (v4frag_iff _ _).mp h0
    obtain ⟨b, hb, cb⟩ := (v4frag_iff _ _).mp h1
    obtain ⟨c, hc, cc⟩ := (v4frag_iff _ _).mp h2
    obtain ⟨d, hd, cd⟩ := (v4frag_iff _ _).mp h3
    refine ⟨a, b, c, d, ?_, ca, cb, cc, cd⟩
    rw [e0, e1, e2, e3, e4, ha, hb, hc, hd]
  · rintro ⟨a, b, c, d, e, ca, cb, cc, cd⟩
    rw [v4loop_cons_iff]
    refine ⟨a, _, e, (v4frag_iff _ _).mpr ⟨a, rfl, ca⟩, ?_⟩
    rw [v4loop_cons_iff]
    refine ⟨b, _, rfl, (v4frag_iff _ _).mpr ⟨b, rfl, cb⟩, ?_⟩
    rw [v4loop_cons_iff]
    refine ⟨c, _, rfl, (v4frag_iff _ _).mpr ⟨c, rfl, cc⟩, ?_⟩
    rw [v4loop_cons_iff]
    exact ⟨d, _, rfl, (v4frag_iff _ _).mpr ⟨d, rfl, cd⟩, rfl⟩

theorem v4excluded_false_iff (a b d : Nat) :
    v4excluded (a : Int) (b : Int) (d : Int) = false ↔ PublicUnicast4 a b d := by
  unfold v4excluded PublicUnicast4
  simp only [Bool.or_eq_false_iff, Bool.and_eq_false_iff, decide_eq_false_iff_not]
  omega

theorem length_four {α : Type} (l : List α) (h : l.length = 4) : ∃ a b c d, l = [a, b, c, d] := by
  match l, h with
  | [a, b, c, d], _ => exact ⟨a, b, c, d, rfl⟩

/-- **checkIPv4 answers true exactly on the canonical dotted-quad public unicast addresses** -/
theorem checkIPv4_true_iff (s : Bytes) : checkIPv4 s = some true ↔ CanonIPv4 s := by
  unfold CanonIPv4
  constructor
  · intro h
    unfold checkIPv4 at h
    dsimp only at h
    split at h
    · cases h
    · split at h
      · cases h
      · rename_i hlen hcount
        have hcount' : (split 46 s).length = 4 := by
          cases Nat.decEq (split 46 s).length 4 with
          | isTrue e => exact e
          | isFalse e => exact absurd e hcount
        obtain ⟨f0, f1, f2, f3, hs⟩ := length_four _ hcount'
        rw [hs] at h
        cases hl : v4loop [f0, f1, f2, f3] with
        | none => rw [hl] at h; cases h
        | some o =>
          cases o with
          | none => rw [hl] at h; cases h
          | some ns =>
            rw [hl] at h
            obtain ⟨a, b, c, d, e, ca, cb, cc, cd⟩ := (v4loop_four _ _ _ _ _).mp hl
            subst e
            have hx : v4excluded (a : Int) (b : Int) (d : Int) = false := by
              have h' := Option.some.inj h
              simp only [getAt] at h'
              cases hb : v4excluded (a : Int) (b : Int) (d : Int) with
              | true => rw [hb] at h'; cases h'
              | false => rfl
            refine ⟨f0, f1, f2, f3, a, b, c, d, ?_, ca, cb, cc, cd, (v4excluded_false_iff a b d).mp hx⟩
            rw [← join_eq_sepJoin, ← hs, join_split]
  · rintro ⟨f0, f1, f2, f3, a, b, c, d, hs, ca, cb, cc, cd, hp⟩
    have hsplit : split 46 s = [f0, f1, f2, f3] := by
      rw [hs, ← join_eq_sepJoin]
      apply split_join
      · simp
      · intro x hx
        simp only [List.mem_cons, List.not_mem_nil, or_false] at hx
        rcases hx with rfl | rfl | rfl | rfl
        · exact canonOctet_no_dot ca
        · exact canonOctet_no_dot cb
        · exact canonOctet_no_dot cc
        · exact canonOctet_no_dot cd
    have hlen : s.length = f0.length + f1.length + f2.length + f3.length + 3 := by
      rw [hs, ← join_eq_sepJoin]
      simp only [join, List.length_append, List.length_cons]
      omega
    have l0 := canonOctet_length ca
    have l1 := canonOctet_length cb
    have l2 := canonOctet_length cc
    have l3 := canonOctet_length cd
    have hl : v4loop [f0, f1, f2, f3] = some (some [(a : Int), (b : Int), (c : Int), (d : Int)]) :=
      (v4loop_four _ _ _ _ _).mpr ⟨a, b, c, d, rfl, ca, cb, cc, cd⟩
    unfold checkIPv4
    dsimp only
    rw [if_neg (by omega), hsplit, if_neg (by simp), hl]
    simp only [getAt, (v4excluded_false_iff a b d).mpr hp, Bool.not_false]

end NeoFS.NNSSyntax
