import NeoFS.Model.NeoFSMain
import NeoFS.Lemmas.Vote
set_option linter.unusedSimpArgs false
set_option linter.unusedVariables false
/-! Helper lemmas for the NeoFS main-contract model: the vote-collecting methods against the tally
specification (C17). Property theorems live in `NeoFS/Props/C17.lean`. -/
namespace NeoFS.Main
open NeoFS NeoFS.Vote

/-- layout lemma behind the typed-family state of the model: none of the fixed storage keys ("alphabet",
"processingScriptHash", "notary", "ballots") lies in the "config"‖key or "candidates"‖key families, and the two
family prefixes do not overlap -/
theorem layout_disjoint :
    (∀ k ∈ [NeoFS.Generated.neofs_alphabetKey_bytes, NeoFS.Generated.neofs_processingContractKey_bytes,
            NeoFS.Generated.neofs_notaryDisabledKey_bytes, NeoFS.Generated.common_voteKey_bytes],
        configPrefix.isPrefixOf k = false ∧ candidatesPrefix.isPrefixOf k = false) ∧
    configPrefix.isPrefixOf candidatesPrefix = false ∧ candidatesPrefix.isPrefixOf configPrefix = false := by
  decide

theorem threshold_pos (n : Nat) : 0 < threshold n := by unfold threshold; omega

theorem invoker_some {wit : Bytes → Option Bool} {keys : List Bytes} {k : Bytes}
    (h : invoker wit keys = some (some k)) : k ∈ keys ∧ wit k = some true := by
  induction keys with
  | nil => simp [invoker] at h
  | cons a r ih =>
    simp only [invoker] at h
    cases hw : wit a with
    | none => rw [hw] at h; cases h
    | some b =>
      rw [hw] at h
      cases b with
      | true =>
        simp only [Option.some.injEq] at h
        subst h
        exact ⟨List.mem_cons_self, hw⟩
      | false =>
        simp only at h
        obtain ⟨h1, h2⟩ := ih h
        exact ⟨List.mem_cons_of_mem _ h1, h2⟩

/-- the stored key whose vote an invocation carries (vote mode): the first stored key with a witness -/
def invokerOf (w : World) (s : State) (env : Env) : Option Bytes :=
  match invoker (witKey w env) s.keys with
  | some (some k) => some k
  | _ => none

theorem invokerOf_some {w : World} {s : State} {env : Env} {k : Bytes} (h : invokerOf w s env = some k) :
    invoker (witKey w env) s.keys = some (some k) := by
  unfold invokerOf at h
  split at h
  · rename_i k' e; simp only [Option.some.injEq] at h; subst h; exact e
  · cases h

/-- the candidate itself asks for its removal (no vote is involved) -/
def ownerRequest (w : World) (env : Env) (k : Key) : Bool :=
  match w.acc k with
  | some a => env.wit.contains a
  | none => false

/-- the vote an invocation casts in vote mode: decision id and counted key. `none`: no vote (other methods,
removal requested by the candidate itself, or no stored key witnessed). -/
def castVote (w : World) (s : State) (env : Env) : Op → Option (Bytes × Bytes)
  | .cheque id _ _ _ => (invokerOf w s env).map (fun k => (id, k))
  | .setConfig id _ _ => (invokerOf w s env).map (fun k => (id, k))
  | .alphabetUpdate id _ _ => (invokerOf w s env).map (fun k => (id, k))
  | .candRemove k idh => if ownerRequest w env k then none else (invokerOf w s env).map (fun ik => (idh, ik))
  | _ => none

/-- a vote-collected method invoked by somebody who is not the candidate itself -/
def isVoteCall (w : World) (env : Env) : Op → Bool
  | .cheque .. => true
  | .setConfig .. => true
  | .alphabetUpdate .. => true
  | .candRemove k _ => !ownerRequest w env k
  | _ => false

def Event.isDecision : Event → Bool
  | .cheque .. => true
  | .alphabetUpdate .. => true
  | .setConfig .. => true
  | _ => false

/-! ### the gate in vote mode -/

theorem gate_vote {w : World} {s : State} {env : Env} {id : Bytes} {pre : Bool} (hnd : s.nd = true) :
    alphabetGate w s env id pre =
      match invokerOf w s env with
      | none => none
      | some k => if pre then collect (threshold s.keys.length) s.ballots env.height id k else none := by
  unfold alphabetGate invokerOf
  rw [if_pos hnd]
  cases hi : invoker (witKey w env) s.keys with
  | none => rfl
  | some o =>
    cases o with
    | none => rfl
    | some k => cases pre <;> simp

/-- what a HALTed vote-mode gate gives: the closed form of `collect` -/
theorem gate_vote_some {w : World} {s : State} {env : Env} {id : Bytes} {pre : Bool} {H : Int}
    {r : List Ballot × Bool} (hnd : s.nd = true)
    (hinv : BInv s.keys (threshold s.keys.length) H s.ballots)
    (hg : alphabetGate w s env id pre = some r) :
    ∃ k, invokerOf w s env = some k ∧ pre = true ∧
      r = collectF (threshold s.keys.length) s.ballots env.height id k := by
  rw [gate_vote hnd] at hg
  cases hi : invokerOf w s env with
  | none => rw [hi] at hg; cases hg
  | some k =>
    rw [hi] at hg
    simp only at hg
    cases pre with
    | false => simp at hg
    | true =>
      simp only [if_true] at hg
      rw [collect_eq hinv (threshold_pos _)] at hg
      simp only [Option.some.injEq] at hg
      exact ⟨k, rfl, rfl, hg.symm⟩

/-- strangers are rejected: without the witness of a stored key the gate FAULTs -/
theorem gate_vote_stranger {w : World} {s : State} {env : Env} {id : Bytes} {pre : Bool} (hnd : s.nd = true)
    (hi : invokerOf w s env = none) : alphabetGate w s env id pre = none := by
  rw [gate_vote hnd, hi]

/-! ### events of the GAS plumbing are never decision notifications -/

/-- the payment callback either aborts, or returns silently, or notifies one `Deposit` with the true amount -/
theorem onPaymentBody_some {c : Bool} {frm : Hash} {amt : Int} {rcv : Bytes} {evs : List Event}
    (h : onPaymentBody c frm amt rcv = some evs) :
    (rcv = ignoreMarker ∧ evs = []) ∨
    (rcv ≠ ignoreMarker ∧ c = true ∧ 0 < amt ∧ amt ≤ maxGAS ∧
      ((rcv.length = 20 ∧ evs = [.deposit frm amt rcv]) ∨ (rcv.length = 0 ∧ evs = [.deposit frm amt frm]))) := by
  unfold onPaymentBody at h
  by_cases h1 : rcv = ignoreMarker
  · simp only [h1, if_true, Option.some.injEq] at h; exact Or.inl ⟨h1, h.symm⟩
  · simp only [h1, if_false] at h
    by_cases h2 : amt ≤ 0
    · simp [h2] at h
    · simp only [h2, if_false] at h
      by_cases h3 : maxGAS < amt
      · simp [h3] at h
      · simp only [h3, if_false] at h
        cases c with
        | false => simp at h
        | true =>
          simp only [Bool.not_true, Bool.false_eq_true, if_false] at h
          refine Or.inr ⟨h1, rfl, by omega, by omega, ?_⟩
          by_cases h4 : rcv.length = 20
          · simp only [h4, if_true, Option.some.injEq] at h; exact Or.inl ⟨h4, h.symm⟩
          · simp only [h4, if_false] at h
            by_cases h5 : rcv.length = 0
            · simp only [h5, if_true, Option.some.injEq] at h; exact Or.inr ⟨h5, h.symm⟩
            · simp [h5] at h

theorem onPayment_noDecision {c : Bool} {frm : Hash} {amt : Int} {d : Data} {evs : List Event}
    (h : onPayment c frm amt d = some evs) : evs.filter Event.isDecision = [] := by
  unfold onPayment at h
  cases hf : d.form with
  | none => rw [hf] at h; cases h
  | some rcv =>
    rw [hf] at h
    simp only at h
    rcases onPaymentBody_some h with ⟨_, e⟩ | ⟨_, _, _, _, ⟨_, e⟩ | ⟨_, e⟩⟩ <;> subst e <;> rfl

theorem gasTransfer_noDecision {w : World} {g g' : Ledger} {auth ok : Bool} {frm to : Hash} {amt : Int} {d : Data}
    {evs : List Event} (h : gasTransfer w g auth frm to amt d = some (ok, g', evs)) :
    evs.filter Event.isDecision = [] := by
  unfold gasTransfer at h
  split at h
  · cases h
  · split at h
    · simp only [Option.some.injEq, Prod.mk.injEq] at h; rw [← h.2.2]; rfl
    · split at h
      · simp only [Option.some.injEq, Prod.mk.injEq] at h; rw [← h.2.2]; rfl
      · split at h
        · simp only [Option.some.injEq, Prod.mk.injEq] at h; rw [← h.2.2]; rfl
        · simp only at h
          split at h
          · split at h
            · cases h
            · rename_i evs' he
              simp only [Option.some.injEq, Prod.mk.injEq] at h
              rw [← h.2.2, List.filter_cons]
              simp only [Event.isDecision, Bool.false_eq_true, if_false]
              exact onPayment_noDecision he
          · simp only [Option.some.injEq, Prod.mk.injEq] at h; rw [← h.2.2]; rfl

theorem mustTransfer_noDecision {w : World} {g g' : Ledger} {auth : Bool} {frm to : Hash} {amt : Int} {d : Data}
    {evs : List Event} (h : mustTransfer w g auth frm to amt d = some (g', evs)) :
    evs.filter Event.isDecision = [] := by
  unfold mustTransfer at h
  split at h
  · rename_i g'' evs' he
    simp only [Option.some.injEq, Prod.mk.injEq] at h
    rw [← h.2]; exact gasTransfer_noDecision he
  · cases h

theorem payEach_noDecision {w : World} {user : Hash} {fee : Int} (ks : List Key) (g g' : Ledger) (evs evs' : List Event)
    (h0 : evs.filter Event.isDecision = [])
    (h : payEach w user fee ks g evs = some (g', evs')) : evs'.filter Event.isDecision = [] := by
  induction ks generalizing g evs with
  | nil => simp only [payEach, Option.some.injEq, Prod.mk.injEq] at h; rw [← h.2]; exact h0
  | cons k r ih =>
    simp only [payEach] at h
    split at h
    · cases h
    · split at h
      · cases h
      · rename_i a ha g1 e he
        apply ih g1 (evs ++ e) _ h
        rw [List.filter_append, h0, mustTransfer_noDecision he]; rfl

/-! ### shape of one invocation -/

theorem gate_vote_collect {w : World} {s : State} {env : Env} {id : Bytes} {pre : Bool}
    {r : List Ballot × Bool} (hnd : s.nd = true) (hg : alphabetGate w s env id pre = some r) :
    ∃ k, invokerOf w s env = some k ∧ pre = true ∧
      collect (threshold s.keys.length) s.ballots env.height id k = some r := by
  rw [gate_vote hnd] at hg
  cases hi : invokerOf w s env with
  | none => rw [hi] at hg; cases hg
  | some k =>
    rw [hi] at hg
    simp only at hg
    cases pre with
    | false => simp at hg
    | true => simp only [if_true] at hg; exact ⟨k, rfl, rfl, hg⟩

/-- a HALTed vote-collected invocation in vote mode: its invoker is a stored key with witness, the ballots and the
`fired` flag come from `collect`, and the stored keys change only if the invocation fires -/
theorem step_vote_shape {w : World} {s : State} {env : Env} {op : Op} {out : Halt} (hnd : s.nd = true)
    (hv : isVoteCall w env op = true) (h : step w s env op = some out) :
    ∃ id k r, castVote w s env op = some (id, k) ∧
      collect (threshold s.keys.length) s.ballots env.height id k = some r ∧
      out.st.ballots = r.1 ∧ out.fired = r.2 ∧ out.st.nd = true ∧ (r.2 = false → out.st.keys = s.keys) := by
  cases op with
  | skip => simp [isVoteCall] at hv
  | deposit => simp [isVoteCall] at hv
  | xfer => simp [isVoteCall] at hv
  | pay => simp [isVoteCall] at hv
  | withdraw => simp [isVoteCall] at hv
  | candAdd => simp [isVoteCall] at hv
  | cheque id u a l =>
    simp only [step] at h
    cases hg : alphabetGate w s env id true with
    | none => rw [hg] at h; cases h
    | some r =>
      obtain ⟨bs, go⟩ := r
      obtain ⟨k, hk, _, hc⟩ := gate_vote_collect hnd hg
      rw [hg] at h
      refine ⟨id, k, (bs, go), by simp [castVote, hk], hc, ?_⟩
      cases go with
      | false =>
        simp only [Option.some.injEq] at h; subst h
        exact ⟨rfl, rfl, hnd, fun _ => rfl⟩
      | true =>
        simp only at h
        split at h
        · cases h
        · simp only [Option.some.injEq] at h; subst h
          exact ⟨rfl, rfl, hnd, fun e => by cases e⟩
  | setConfig id key val =>
    simp only [step] at h
    cases hg : alphabetGate w s env id true with
    | none => rw [hg] at h; cases h
    | some r =>
      obtain ⟨bs, go⟩ := r
      obtain ⟨k, hk, _, hc⟩ := gate_vote_collect hnd hg
      rw [hg] at h
      refine ⟨id, k, (bs, go), by simp [castVote, hk], hc, ?_⟩
      cases go with
      | false =>
        simp only [Option.some.injEq] at h; subst h
        exact ⟨rfl, rfl, hnd, fun _ => rfl⟩
      | true =>
        simp only at h
        split at h
        · cases h
        · split at h
          · cases h
          · simp only [Option.some.injEq] at h; subst h
            exact ⟨rfl, rfl, hnd, fun e => by cases e⟩
  | alphabetUpdate id ks na =>
    simp only [step] at h
    split at h
    · cases h
    · cases hg : alphabetGate w s env id (ks.all (fun k => k.length == 33)) with
      | none => rw [hg] at h; cases h
      | some r =>
        obtain ⟨bs, go⟩ := r
        obtain ⟨k, hk, _, hc⟩ := gate_vote_collect hnd hg
        rw [hg] at h
        refine ⟨id, k, (bs, go), by simp [castVote, hk], hc, ?_⟩
        cases go with
        | false =>
          simp only [Option.some.injEq] at h; subst h
          exact ⟨rfl, rfl, hnd, fun _ => rfl⟩
        | true =>
          simp only [Option.some.injEq] at h; subst h
          exact ⟨rfl, rfl, hnd, fun e => by cases e⟩
  | candRemove k idh =>
    simp only [isVoteCall, Bool.not_eq_true'] at hv
    simp only [step] at h
    cases ha : w.acc k with
    | none => rw [ha] at h; cases h
    | some a =>
      rw [ha] at h
      simp only at h
      have hown : env.wit.contains a = false := by simpa [ownerRequest, ha] using hv
      rw [hown] at h
      simp only [Bool.false_eq_true, if_false, hnd, if_true] at h
      cases hi : invoker (witKey w env) s.keys with
      | none => rw [hi] at h; cases h
      | some o =>
        rw [hi] at h
        cases o with
        | none => cases h
        | some ik =>
          simp only at h
          have hio : invokerOf w s env = some ik := by simp [invokerOf, hi]
          cases hc : collect (threshold s.keys.length) s.ballots env.height idh ik with
          | none => rw [hc] at h; cases h
          | some r =>
            obtain ⟨bs, go⟩ := r
            rw [hc] at h
            refine ⟨idh, ik, (bs, go), by simp [castVote, hv, hio], hc, ?_⟩
            cases go with
            | false =>
              simp only [Option.some.injEq] at h; subst h
              exact ⟨rfl, rfl, rfl, fun _ => rfl⟩
            | true =>
              simp only [Option.some.injEq] at h; subst h
              exact ⟨rfl, rfl, rfl, fun e => by cases e⟩

/-- every other HALTed invocation leaves ballots, stored keys and mode alone, fires nothing and notifies no decision -/
theorem step_other_shape {w : World} {s : State} {env : Env} {op : Op} {out : Halt}
    (hv : isVoteCall w env op = false) (h : step w s env op = some out) :
    out.st.ballots = s.ballots ∧ out.st.keys = s.keys ∧ out.st.nd = s.nd ∧
      out.evs.filter Event.isDecision = [] := by
  cases op with
  | cheque => simp [isVoteCall] at hv
  | setConfig => simp [isVoteCall] at hv
  | alphabetUpdate => simp [isVoteCall] at hv
  | skip => simp only [step, Option.some.injEq] at h; subst h; exact ⟨rfl, rfl, rfl, rfl⟩
  | deposit frm amt d =>
    simp only [step] at h
    split at h
    · cases h
    · rename_i ok g evs he
      simp only [Option.some.injEq] at h; subst h
      exact ⟨rfl, rfl, rfl, gasTransfer_noDecision he⟩
  | xfer frm to amt =>
    simp only [step] at h
    split at h
    · cases h
    · rename_i ok g evs he
      simp only [Option.some.injEq] at h; subst h
      exact ⟨rfl, rfl, rfl, gasTransfer_noDecision he⟩
  | pay frm amt d =>
    simp only [step] at h
    split at h
    · cases h
    · rename_i evs he
      simp only [Option.some.injEq] at h; subst h
      exact ⟨rfl, rfl, rfl, onPayment_noDecision he⟩
  | withdraw user amt =>
    simp only [step] at h
    split at h
    · cases h
    · split at h
      · cases h
      · split at h
        · cases h
        · split at h
          · cases h
          · split at h
            · cases h
            · rename_i fee hfee
              split at h
              · cases h
              · rename_i g evs hp
                simp only [Option.some.injEq] at h; subst h
                refine ⟨rfl, rfl, rfl, ?_⟩
                rw [List.filter_append]
                have : evs.filter Event.isDecision = [] := by
                  by_cases hnd : s.nd = true
                  · rw [if_pos hnd] at hp
                    exact payEach_noDecision s.keys s.gas g [] evs rfl hp
                  · rw [if_neg hnd] at hp
                    exact mustTransfer_noDecision hp
                rw [this]; rfl
  | candAdd k =>
    simp only [step] at h
    split at h
    · cases h
    · split at h
      · cases h
      · split at h
        · cases h
        · split at h
          · cases h
          · split at h
            · cases h
            · rename_i g evs hp
              simp only [Option.some.injEq] at h; subst h
              exact ⟨rfl, rfl, rfl, mustTransfer_noDecision hp⟩
  | candRemove k idh =>
    simp only [isVoteCall, Bool.not_eq_false'] at hv
    simp only [step] at h
    cases ha : w.acc k with
    | none => rw [ha] at h; cases h
    | some a =>
      rw [ha] at h
      simp only at h
      have hown : env.wit.contains a = true := by simpa [ownerRequest, ha] using hv
      rw [hown] at h
      simp only [if_true, Option.some.injEq] at h; subst h
      exact ⟨rfl, rfl, rfl, rfl⟩

theorem castVote_none_of_not_voteCall {w : World} {s : State} {env : Env} {op : Op}
    (hv : isVoteCall w env op = false) : castVote w s env op = none := by
  cases op <;> simp [isVoteCall] at hv <;> simp [castVote, hv]

theorem map_pair_some {o : Option Bytes} {id id' k : Bytes} (h : o.map (fun k => (id, k)) = some (id', k)) :
    o = some k ∧ id = id' := by
  cases o with
  | none => cases h
  | some a => simp only [Option.map_some, Option.some.injEq, Prod.mk.injEq] at h; exact ⟨by rw [h.2], h.1⟩

theorem castVote_some_invoker {w : World} {s : State} {env : Env} {op : Op} {id k : Bytes}
    (h : castVote w s env op = some (id, k)) : invokerOf w s env = some k := by
  cases op with
  | cheque i _ _ _ => exact (map_pair_some h).1
  | setConfig i _ _ => exact (map_pair_some h).1
  | alphabetUpdate i _ _ => exact (map_pair_some h).1
  | candRemove c idh =>
    simp only [castVote] at h
    split at h
    · cases h
    · exact (map_pair_some h).1
  | skip => cases h
  | deposit => cases h
  | xfer => cases h
  | pay => cases h
  | withdraw => cases h
  | candAdd => cases h

/-- **one invocation against the tally specification** (vote mode, any caller, any arguments) -/
theorem step_refines {w : World} {s : State} {env : Env} {op : Op} {out : Halt} {sp : Spec} {H : Int}
    (hnd : s.nd = true) (hinv : BInv s.keys (threshold s.keys.length) H s.ballots) (hH : H ≤ env.height)
    (hrel : Rel H s.ballots sp) (h : step w s env op = some out) :
    match castVote w s env op with
    | none => out.st.ballots = s.ballots ∧ out.st.keys = s.keys ∧ out.st.nd = true ∧
        out.evs.filter Event.isDecision = []
    | some (id, k) =>
      k ∈ s.keys ∧ witKey w env k = some true ∧ out.st.nd = true ∧
      out.fired = (Spec.step (threshold s.keys.length) sp env.height id k).2 ∧
      Rel env.height out.st.ballots (Spec.step (threshold s.keys.length) sp env.height id k).1 ∧
      BInv s.keys (threshold s.keys.length) env.height out.st.ballots ∧
      (out.fired = false → out.st.keys = s.keys) := by
  cases hv : isVoteCall w env op with
  | false =>
    rw [castVote_none_of_not_voteCall hv]
    obtain ⟨h1, h2, h3, h4⟩ := step_other_shape hv h
    exact ⟨h1, h2, h3 ▸ hnd, h4⟩
  | true =>
    obtain ⟨id, k, r, hcv, hc, hb, hf, hn, hk⟩ := step_vote_shape hnd hv h
    rw [hcv]
    simp only
    have hio : invokerOf w s env = some k := castVote_some_invoker hcv
    obtain ⟨hks, hwit⟩ := invoker_some (invokerOf_some hio)
    rw [collect_eq hinv (threshold_pos _)] at hc
    simp only [Option.some.injEq] at hc
    obtain ⟨hfire, hrel', hinv'⟩ := collectF_refines hinv (threshold_pos _) hH hrel id k hks
    rw [hc] at hfire hrel' hinv'
    refine ⟨hks, hwit, hn, by rw [hf]; exact hfire, by rw [hb]; exact hrel', by rw [hb]; exact hinv', ?_⟩
    intro hff; exact hk (hf ▸ hff)

/-! ### the ghost flag `fired` against the observable effects -/

theorem cheque_effect {w : World} {s : State} {env : Env} {id : Bytes} {u : Hash} {a : Int} {l : Bytes} {out : Halt}
    (h : step w s env (.cheque id u a l) = some out) :
    (out.fired = true →
      (∃ evs, mustTransfer w s.gas true w.self u a .null = some (out.st.gas, evs) ∧ out.evs = evs ++ [.cheque id u a l]) ∧
      out.evs.filter Event.isDecision = [.cheque id u a l]) ∧
    (out.fired = false → out.evs = [] ∧ out.st.gas = s.gas) ∧
    out.st.cfg = s.cfg ∧ out.st.cands = s.cands ∧ out.st.keys = s.keys := by
  simp only [step] at h
  split at h
  · cases h
  · simp only [Option.some.injEq] at h; subst h
    exact ⟨(fun e => by cases e), fun _ => ⟨rfl, rfl⟩, rfl, rfl, rfl⟩
  · split at h
    · cases h
    · rename_i g evs hm
      simp only [Option.some.injEq] at h; subst h
      refine ⟨fun _ => ⟨⟨evs, hm, rfl⟩, ?_⟩, (fun e => by cases e), rfl, rfl, rfl⟩
      rw [List.filter_append, mustTransfer_noDecision hm]; rfl

theorem setConfig_effect {w : World} {s : State} {env : Env} {id key : Bytes} {val : Option Bytes} {out : Halt}
    (h : step w s env (.setConfig id key val) = some out) :
    (out.fired = true → ∃ v, val = some v ∧ out.evs = [.setConfig id key v] ∧ out.st.cfg = cfgPut s.cfg key v) ∧
    (out.fired = false → out.evs = [] ∧ out.st.cfg = s.cfg) ∧
    out.st.gas = s.gas ∧ out.st.cands = s.cands ∧ out.st.keys = s.keys := by
  simp only [step] at h
  split at h
  · cases h
  · simp only [Option.some.injEq] at h; subst h
    exact ⟨(fun e => by cases e), fun _ => ⟨rfl, rfl⟩, rfl, rfl, rfl⟩
  · split at h
    · cases h
    · rename_i v
      split at h
      · cases h
      · simp only [Option.some.injEq] at h; subst h
        exact ⟨fun _ => ⟨v, rfl, rfl, rfl⟩, (fun e => by cases e), rfl, rfl, rfl⟩

theorem alphabetUpdate_effect {w : World} {s : State} {env : Env} {id : Bytes} {ks : List Key} {na : Hash} {out : Halt}
    (h : step w s env (.alphabetUpdate id ks na) = some out) :
    (out.fired = true → out.evs = [.alphabetUpdate id ks] ∧ out.st.keys = ks ∧ out.st.saddr = na) ∧
    (out.fired = false → out.evs = [] ∧ out.st.keys = s.keys) ∧
    out.st.gas = s.gas ∧ out.st.cands = s.cands ∧ out.st.cfg = s.cfg ∧
    ks ≠ [] ∧ (∀ k ∈ ks, k.length = 33) := by
  simp only [step] at h
  split at h
  · cases h
  · rename_i hne
    have hne' : ks ≠ [] := by intro e; subst e; simp at hne
    cases hg : alphabetGate w s env id (ks.all (fun k => k.length == 33)) with
    | none => rw [hg] at h; cases h
    | some r =>
      have hall : ∀ k ∈ ks, k.length = 33 := by
        have : (ks.all (fun k => k.length == 33)) = true := by
          unfold alphabetGate at hg
          cases hp : ks.all (fun k => k.length == 33) with
          | true => rfl
          | false =>
            rw [hp] at hg
            split at hg
            · split at hg
              · cases hg
              · cases hg
              · simp at hg
            · split at hg
              · cases hg
              · simp at hg
        intro k hk
        have := List.all_eq_true.mp this k hk
        simpa using this
      obtain ⟨bs, go⟩ := r
      rw [hg] at h
      cases go with
      | false =>
        simp only [Option.some.injEq] at h; subst h
        exact ⟨(fun e => by cases e), fun _ => ⟨rfl, rfl⟩, rfl, rfl, rfl, hne', hall⟩
      | true =>
        simp only [Option.some.injEq] at h; subst h
        exact ⟨fun _ => ⟨rfl, rfl, rfl⟩, (fun e => by cases e), rfl, rfl, rfl, hne', hall⟩

theorem candRemove_effect {w : World} {s : State} {env : Env} {k : Key} {idh : Bytes} {out : Halt}
    (h : step w s env (.candRemove k idh) = some out) :
    (out.fired = true → out.st.cands = s.cands.filter (fun c => c != k)) ∧
    (out.fired = false → out.st.cands = s.cands) ∧
    out.evs = [] ∧ out.st.gas = s.gas ∧ out.st.cfg = s.cfg ∧ out.st.keys = s.keys := by
  simp only [step] at h
  cases ha : w.acc k with
  | none => rw [ha] at h; cases h
  | some a =>
    rw [ha] at h
    simp only at h
    split at h
    · simp only [Option.some.injEq] at h; subst h
      exact ⟨fun _ => rfl, (fun e => by cases e), rfl, rfl, rfl, rfl⟩
    · split at h
      · split at h
        · cases h
        · cases h
        · split at h
          · cases h
          · simp only [Option.some.injEq] at h; subst h
            exact ⟨(fun e => by cases e), fun _ => rfl, rfl, rfl, rfl, rfl⟩
          · simp only [Option.some.injEq] at h; subst h
            exact ⟨fun _ => rfl, (fun e => by cases e), rfl, rfl, rfl, rfl⟩
      · split at h
        · cases h
        · split at h
          · cases h
          · simp only [Option.some.injEq] at h; subst h
            exact ⟨fun _ => rfl, (fun e => by cases e), rfl, rfl, rfl, rfl⟩

/-! ### histories -/

/-- model and specification side by side: for every HALTed invocation that casts a vote, the pair
(the model's method body ran, the specification says the decision executes now) -/
def lock (w : World) : State → Spec → List (Env × Op) → List (Bool × Bool)
  | _, _, [] => []
  | s, sp, (env, op) :: rest =>
    match step w s env op with
    | none => lock w s sp rest                       -- FAULT: rolled back, nothing counts
    | some out =>
      match castVote w s env op with
      | none => lock w out.st sp rest
      | some (id, k) =>
        (out.fired, (Spec.step (threshold s.keys.length) sp env.height id k).2) ::
          lock w out.st (Spec.step (threshold s.keys.length) sp env.height id k).1 rest

/-- block heights never decrease along a history -/
def Mono (H : Int) : List (Env × Op) → Prop
  | [] => True
  | (env, _) :: rest => H ≤ env.height ∧ Mono env.height rest

/-- the stored Alphabet key list stays `ks` along the history (the property speaks about a fixed list) -/
def KeysFixed (w : World) (ks : List Key) : State → List (Env × Op) → Prop
  | s, [] => s.keys = ks
  | s, (env, op) :: rest => s.keys = ks ∧ KeysFixed w ks (invoke w s env op).1 rest

instance decMono : (H : Int) → (hist : List (Env × Op)) → Decidable (Mono H hist)
  | _, [] => isTrue trivial
  | H, (env, _) :: rest => @instDecidableAnd _ _ inferInstance (decMono env.height rest)

instance decKeysFixed (w : World) (ks : List Key) : (s : State) → (hist : List (Env × Op)) → Decidable (KeysFixed w ks s hist)
  | s, [] => (inferInstance : Decidable (s.keys = ks))
  | s, (env, op) :: rest => @instDecidableAnd _ _ inferInstance (decKeysFixed w ks (invoke w s env op).1 rest)

theorem KeysFixed.head {w : World} {ks : List Key} {s : State} {hist : List (Env × Op)}
    (h : KeysFixed w ks s hist) : s.keys = ks := by
  cases hist with
  | nil => exact h
  | cons a r => exact h.1

theorem invoke_fault {w : World} {s : State} {env : Env} {op : Op} (h : step w s env op = none) :
    invoke w s env op = (s, none) := by unfold invoke; rw [h]

theorem invoke_halt {w : World} {s : State} {env : Env} {op : Op} {out : Halt} (h : step w s env op = some out) :
    (invoke w s env op).1 = out.st := by unfold invoke; rw [h]

/-- **all histories**: along every history with a fixed stored key list the model executes a vote-collected
action in exactly the invocations in which the tally specification does; the ballot invariant and the
relation to the tallies hold after every prefix -/
theorem lock_agree (w : World) (hist : List (Env × Op)) :
    ∀ (s : State) (sp : Spec) (H : Int), s.nd = true →
      BInv s.keys (threshold s.keys.length) H s.ballots → Rel H s.ballots sp → Mono H hist →
      KeysFixed w s.keys s hist →
      (∀ p ∈ lock w s sp hist, p.1 = p.2) := by
  induction hist with
  | nil => intro s sp H _ _ _ _ _ p hp; simp [lock] at hp
  | cons a rest ih =>
    obtain ⟨env, op⟩ := a
    intro s sp H hnd hinv hrel hmono hfix p hp
    obtain ⟨hH, hmono'⟩ := hmono
    obtain ⟨_, hfix'⟩ := hfix
    simp only [lock] at hp
    cases hs : step w s env op with
    | none =>
      rw [hs] at hp
      rw [invoke_fault hs] at hfix'
      exact ih s sp env.height hnd (hinv.mono hH) (hrel.mono hH) hmono' hfix' p hp
    | some out =>
      rw [hs] at hp
      rw [invoke_halt hs] at hfix'
      have hkeys : out.st.keys = s.keys := hfix'.head
      have hsr := step_refines hnd hinv hH hrel hs
      cases hcv : castVote w s env op with
      | none =>
        rw [hcv] at hp hsr
        simp only at hp hsr
        obtain ⟨hb, _, hn, _⟩ := hsr
        apply ih out.st sp env.height hn _ _ hmono' (hkeys ▸ hfix') p hp
        · rw [hkeys, hb]; exact hinv.mono hH
        · rw [hb]; exact hrel.mono hH
      | some idk =>
        obtain ⟨id, k⟩ := idk
        rw [hcv] at hp hsr
        simp only at hp hsr
        obtain ⟨_, _, hn, hf, hr, hi, _⟩ := hsr
        rcases List.mem_cons.mp hp with rfl | hp'
        · exact hf
        · apply ih out.st _ env.height hn _ hr hmono' (hkeys ▸ hfix') p hp'
          rw [hkeys]; exact hi

/-- the ballot invariant after every history with a fixed stored key list -/
theorem run_inv (w : World) (hist : List (Env × Op)) :
    ∀ (s : State) (H : Int), s.nd = true →
      BInv s.keys (threshold s.keys.length) H s.ballots → Mono H hist → KeysFixed w s.keys s hist →
      ∃ H', BInv s.keys (threshold s.keys.length) H' (run w s hist).ballots ∧ (run w s hist).keys = s.keys := by
  induction hist with
  | nil => intro s H _ hinv _ _; exact ⟨H, hinv, rfl⟩
  | cons a rest ih =>
    obtain ⟨env, op⟩ := a
    intro s H hnd hinv hmono hfix
    obtain ⟨hH, hmono'⟩ := hmono
    obtain ⟨_, hfix'⟩ := hfix
    simp only [run]
    cases hs : step w s env op with
    | none =>
      rw [invoke_fault hs] at hfix' ⊢
      exact ih s env.height hnd (hinv.mono hH) hmono' hfix'
    | some out =>
      rw [invoke_halt hs] at hfix' ⊢
      have hkeys : out.st.keys = s.keys := hfix'.head
      have hsr := step_refines (sp := absB s.ballots) hnd hinv hH (fun _ => rfl) hs
      have key : out.st.nd = true ∧ BInv s.keys (threshold s.keys.length) env.height out.st.ballots := by
        cases hcv : castVote w s env op with
        | none =>
          rw [hcv] at hsr; simp only at hsr
          exact ⟨hsr.2.2.1, by rw [hsr.1]; exact hinv.mono hH⟩
        | some idk =>
          obtain ⟨id, k⟩ := idk
          rw [hcv] at hsr; simp only at hsr
          exact ⟨hsr.2.2.1, hsr.2.2.2.2.2.1⟩
      obtain ⟨H', h1, h2⟩ := ih out.st env.height key.1 (by rw [hkeys]; exact key.2) hmono' (hkeys ▸ hfix')
      exact ⟨H', by rw [← hkeys]; exact h1, by rw [h2, hkeys]⟩

end NeoFS.Main
