import NeoFS.Lemmas.EpochStoresStep
set_option linter.unusedSimpArgs false
set_option linter.unusedVariables false
/-! Container size estimation lemmas (C20), part 1: admission, key layout, exact effect of the put-time cleanup
loop (`updateEstimations`) and of the tick-time cleanup (`cleanupContainers`). -/
namespace NeoFS.EpochStores
open NeoFS

theorem cnrP_length : cnrP.length = 3 := rfl
theorem estP_length : estP.length = 3 := rfl
theorem cidSize_eq : cidSize = 32 := rfl
theorem postfixSize_eq : postfixSize = 10 := rfl
theorem cleanupDelta_eq : cleanupDelta = 3 := rfl
theorem totalCleanupDelta_eq : totalCleanupDelta = 4 := rfl

/-! ### admission -/

/-- **admission**: an estimation is stored only for an existing container, from a key that witnesses the
transaction and is in `netmap.snapshot(1)` (the previous epoch's network map) -/
theorem estPut_admitted (c c' : CState) (env : Env) (snap : Option (List Bytes)) (e : Int) (cid : Bytes) (size : Int)
    (pub h : Bytes) (hp : estPut c env snap e cid size pub h = some c') :
    cid ∈ c.live ∧ pub.length = 33 ∧ pub ∈ env.wit ∧ ∃ nodes, snap = some nodes ∧ pub ∈ nodes := by
  unfold estPut at hp
  by_cases hl : cid ∈ c.live
  · have hl' : c.live.contains cid = true := by simpa using hl
    simp only [hl', Bool.not_true, Bool.false_eq_true, if_false] at hp
    cases hw : checkWitnessKey env pub with
    | none => rw [hw] at hp; cases hp
    | some w =>
      rw [hw] at hp
      cases w with
      | false => cases hp
      | true =>
        simp only at hp
        cases snap with
        | none => cases hp
        | some nodes =>
          simp only at hp
          by_cases hn : pub ∈ nodes
          · obtain ⟨h33, hwit⟩ := checkWitnessKey_true env pub hw
            exact ⟨hl, h33, hwit, nodes, rfl, hn⟩
          · have hn' : nodes.contains pub = false := by simpa using hn
            simp only [hn', Bool.not_false, if_true] at hp
            cases hp
  · have hl' : c.live.contains cid = false := by simpa using hl
    simp only [hl', Bool.not_false, if_true] at hp
    cases hp

/-- the successful path of `PutContainerSize`, spelled out -/
theorem estPut_effect (c c' : CState) (env : Env) (snap : Option (List Bytes)) (e : Int) (cid : Bytes) (size : Int)
    (pub h : Bytes) (hp : estPut c env snap e cid size pub h = some c') :
    (estimationKey e cid h).length ≤ maxKeyLen ∧
    c'.cnr = (updLoop (put c.cnr (estimationKey e cid h) ⟨pub, size⟩) e cid h
        ((get c.est (estP ++ (cid ++ h))).getD [])).1 ∧
    c'.est = put c.est (estP ++ (cid ++ h))
        ((updLoop (put c.cnr (estimationKey e cid h) ⟨pub, size⟩) e cid h
          ((get c.est (estP ++ (cid ++ h))).getD [])).2 ++ [e]) ∧
    c'.live = c.live := by
  obtain ⟨h1, h2, h3, nodes, rfl, h5⟩ := estPut_admitted c c' env snap e cid size pub h hp
  unfold estPut at hp
  have hl : c.live.contains cid = true := by simpa using h1
  have hn : nodes.contains pub = true := by simpa using h5
  have hw : checkWitnessKey env pub = some true := by
    unfold checkWitnessKey; simp [h2, h3]
  simp only [hl, hw, hn, Bool.not_true, Bool.false_eq_true, if_false] at hp
  unfold putK at hp
  by_cases hk : (estimationKey e cid h).length ≤ maxKeyLen
  · simp only [hk, if_true] at hp
    by_cases hk2 : (estP ++ (cid ++ h)).length ≤ maxKeyLen
    · simp only [hk2, if_true, Option.some.injEq] at hp
      subst hp
      exact ⟨hk, rfl, rfl, rfl⟩
    · simp only [hk2, if_false] at hp; cases hp
  · simp only [hk, if_false] at hp; cases hp

/-! ### the put-time cleanup loop -/

theorem updLoop_list (s : Store Est) (e : Int) (cid h : Bytes) (old : List Int) :
    (updLoop s e cid h old).2 = old.filter (fun o => !decide (e - o > cleanupDelta)) := by
  induction old generalizing s with
  | nil => simp [updLoop]
  | cons o rest ih =>
    unfold updLoop
    by_cases hc : e - o > cleanupDelta
    · simp only [hc, if_true, List.filter_cons, decide_true, Bool.not_true, Bool.false_eq_true, if_false]
      exact ih _
    · simp only [hc, if_false, List.filter_cons, decide_false, Bool.not_false, if_true]
      rw [ih]

/-- **exact effect of the loop of `updateEstimations`**: it deletes the keys of the listed epochs that are
more than `CleanupDelta` behind, and nothing else -/
theorem updLoop_get (s : Store Est) (e : Int) (cid h : Bytes) (old : List Int) (k : Bytes) :
    get (updLoop s e cid h old).1 k =
      if (∃ o ∈ old, e - o > cleanupDelta ∧ k = estimationKey o cid h) then none else get s k := by
  induction old generalizing s with
  | nil => simp [updLoop]
  | cons o rest ih =>
    unfold updLoop
    by_cases hc : e - o > cleanupDelta
    · simp only [hc, if_true]
      rw [ih]
      by_cases h1 : ∃ o' ∈ rest, e - o' > cleanupDelta ∧ k = estimationKey o' cid h
      · have : ∃ o' ∈ o :: rest, e - o' > cleanupDelta ∧ k = estimationKey o' cid h := by
          obtain ⟨o', ho, hh⟩ := h1; exact ⟨o', List.mem_cons_of_mem _ ho, hh⟩
        simp only [h1, this, if_true]
      · by_cases h2 : k = estimationKey o cid h
        · have : ∃ o' ∈ o :: rest, e - o' > cleanupDelta ∧ k = estimationKey o' cid h :=
            ⟨o, List.mem_cons_self, hc, h2⟩
          simp only [h1, this, if_true, if_false]
          rw [h2]; exact get_del_self _ _
        · have : ¬ ∃ o' ∈ o :: rest, e - o' > cleanupDelta ∧ k = estimationKey o' cid h := by
            rintro ⟨o', ho, hh⟩
            rcases List.mem_cons.mp ho with rfl | ho
            · exact h2 hh.2
            · exact h1 ⟨o', ho, hh⟩
          simp only [h1, this, if_false]
          exact get_del_other _ _ _ h2
    · simp only [hc, if_false]
      rw [ih]
      have : (∃ o' ∈ o :: rest, e - o' > cleanupDelta ∧ k = estimationKey o' cid h) ↔
          (∃ o' ∈ rest, e - o' > cleanupDelta ∧ k = estimationKey o' cid h) := by
        constructor
        · rintro ⟨o', ho, hh⟩
          rcases List.mem_cons.mp ho with rfl | ho
          · exact absurd hh.1 hc
          · exact ⟨o', ho, hh⟩
        · rintro ⟨o', ho, hh⟩; exact ⟨o', List.mem_cons_of_mem _ ho, hh⟩
      simp only [this]

/-- the kept epochs, as a set -/
theorem updLoop_mem_list (s : Store Est) (e : Int) (cid h : Bytes) (old : List Int) (o : Int) :
    o ∈ (updLoop s e cid h old).2 ↔ o ∈ old ∧ ¬ (e - o > cleanupDelta) := by
  rw [updLoop_list, List.mem_filter]
  simp

/-- the loop's effect on the estimation records depends only on the SET of listed epochs (not on their order or
multiplicity): the `est…` record is bookkeeping whose exact content is not observable -/
theorem updLoop_get_congr (s : Store Est) (e : Int) (cid h : Bytes) (l l' : List Int) (hset : ∀ o, o ∈ l ↔ o ∈ l')
    (k : Bytes) : get (updLoop s e cid h l).1 k = get (updLoop s e cid h l').1 k := by
  rw [updLoop_get, updLoop_get]
  have : (∃ o ∈ l, e - o > cleanupDelta ∧ k = estimationKey o cid h) ↔
      (∃ o ∈ l', e - o > cleanupDelta ∧ k = estimationKey o cid h) := by
    constructor
    · rintro ⟨o, ho, hh⟩; exact ⟨o, (hset o).mp ho, hh⟩
    · rintro ⟨o, ho, hh⟩; exact ⟨o, (hset o).mpr ho, hh⟩
  simp only [this]

theorem updLoop_mem (s : Store Est) (e : Int) (cid h : Bytes) (old : List Int) (kv : Bytes × Est)
    (hm : kv ∈ (updLoop s e cid h old).1) : kv ∈ s := by
  induction old generalizing s with
  | nil => simpa [updLoop] using hm
  | cons o rest ih =>
    unfold updLoop at hm
    by_cases hc : e - o > cleanupDelta
    · simp only [hc, if_true] at hm
      exact ((mem_del_iff _ _ _).mp (ih _ hm)).2
    · simp only [hc, if_false] at hm
      exact ih _ hm

theorem updLoop_uniq (s : Store Est) (e : Int) (cid h : Bytes) (old : List Int) (hu : Uniq s) :
    Uniq (updLoop s e cid h old).1 := by
  induction old generalizing s with
  | nil => simpa [updLoop] using hu
  | cons o rest ih =>
    unfold updLoop
    by_cases hc : e - o > cleanupDelta
    · simp only [hc, if_true]; exact ih _ (uniq_del _ _ hu)
    · simp only [hc, if_false]; exact ih _ hu

/-! ### the tick-time cleanup -/

/-- the epoch a stored estimation key carries, as `cleanupContainers` reads it -/
def keyEpoch (k : Bytes) : Int := decInt ((k.drop cnrP.length).take (k.length - cidSize - postfixSize - cnrP.length))

theorem cleanOne_some (epoch : Int) (s : Store Est) (k : Bytes) (hk : 45 ≤ k.length) :
    cleanOne epoch (some s) k = some (if epoch - keyEpoch k > totalCleanupDelta then del s k else s) := by
  unfold cleanOne
  simp only
  have h1 : ¬ k.length < cidSize + postfixSize := by rw [cidSize_eq, postfixSize_eq]; omega
  simp only [h1, if_false]
  unfold slice
  have h2 : cnrP.length ≤ k.length - cidSize - postfixSize ∧ k.length - cidSize - postfixSize ≤ k.length := by
    rw [cnrP_length, cidSize_eq, postfixSize_eq]; omega
  simp only [h2, and_self, if_true]
  unfold keyEpoch
  by_cases hc : epoch - decInt (List.take (k.length - cidSize - postfixSize - cnrP.length) (List.drop cnrP.length k)) > totalCleanupDelta
  · simp only [hc, if_true]
  · simp only [hc, if_false]

theorem foldl_cleanOne (epoch : Int) (ks : List Bytes) (s : Store Est) (hk : ∀ k ∈ ks, 45 ≤ k.length) :
    ks.foldl (cleanOne epoch) (some s) =
      some (ks.foldl (fun s k => if epoch - keyEpoch k > totalCleanupDelta then del s k else s) s) := by
  induction ks generalizing s with
  | nil => rfl
  | cons k rest ih =>
    rw [List.foldl_cons, List.foldl_cons, cleanOne_some epoch s k (hk k List.mem_cons_self)]
    exact ih _ (fun k' hk' => hk k' (List.mem_cons_of_mem _ hk'))

theorem get_foldl_clean (epoch : Int) (ks : List Bytes) (s : Store Est) (x : Bytes) :
    get (ks.foldl (fun s k => if epoch - keyEpoch k > totalCleanupDelta then del s k else s) s) x =
      if x ∈ ks ∧ epoch - keyEpoch x > totalCleanupDelta then none else get s x := by
  induction ks generalizing s with
  | nil => simp
  | cons k rest ih =>
    rw [List.foldl_cons, ih]
    by_cases h1 : x ∈ rest ∧ epoch - keyEpoch x > totalCleanupDelta
    · have : x ∈ k :: rest ∧ epoch - keyEpoch x > totalCleanupDelta := ⟨List.mem_cons_of_mem _ h1.1, h1.2⟩
      simp only [h1, this, and_self, if_true]
    · by_cases h2 : x = k
      · subst h2
        by_cases hc : epoch - keyEpoch x > totalCleanupDelta
        · have hnr : x ∉ rest := fun hm => h1 ⟨hm, hc⟩
          have : x ∈ x :: rest ∧ epoch - keyEpoch x > totalCleanupDelta := ⟨List.mem_cons_self, hc⟩
          rw [if_neg h1, if_pos this, if_pos hc]
          exact get_del_self _ _
        · have : ¬ (x ∈ x :: rest ∧ epoch - keyEpoch x > totalCleanupDelta) := fun hh => hc hh.2
          rw [if_neg h1, if_neg this, if_neg hc]
      · have : ¬ (x ∈ k :: rest ∧ epoch - keyEpoch x > totalCleanupDelta) := by
          rintro ⟨hm, hc⟩
          rcases List.mem_cons.mp hm with e | hm
          · exact h2 e
          · exact h1 ⟨hm, hc⟩
        simp only [h1, this, if_false]
        by_cases hc : epoch - keyEpoch k > totalCleanupDelta
        · simp only [hc, if_true]; exact get_del_other _ _ _ h2
        · simp only [hc, if_false]

theorem mem_foldl_clean (epoch : Int) (ks : List Bytes) (s : Store Est) (kv : Bytes × Est)
    (h : kv ∈ ks.foldl (fun s k => if epoch - keyEpoch k > totalCleanupDelta then del s k else s) s) : kv ∈ s := by
  induction ks generalizing s with
  | nil => exact h
  | cons k rest ih =>
    rw [List.foldl_cons] at h
    have := ih _ h
    by_cases hc : epoch - keyEpoch k > totalCleanupDelta
    · simp only [hc, if_true] at this; exact ((mem_del_iff _ _ _).mp this).2
    · simpa only [hc, if_false] using this

theorem uniq_foldl_clean (epoch : Int) (ks : List Bytes) (s : Store Est) (hu : Uniq s) :
    Uniq (ks.foldl (fun s k => if epoch - keyEpoch k > totalCleanupDelta then del s k else s) s) := by
  induction ks generalizing s with
  | nil => exact hu
  | cons k rest ih =>
    rw [List.foldl_cons]
    apply ih
    by_cases hc : epoch - keyEpoch k > totalCleanupDelta
    · simp only [hc, if_true]; exact uniq_del _ _ hu
    · simpa only [hc, if_false] using hu

/-- **exact effect of `cleanupContainers(epoch)`** on a store whose keys all look like estimation keys:
it never FAULTs and removes exactly the entries whose key epoch is more than `TotalCleanupDelta` behind -/
theorem cleanup_spec (cnr : Store Est) (epoch : Int)
    (hshape : ∀ kv ∈ cnr, cnrP <+: kv.1 ∧ 45 ≤ kv.1.length) :
    ∃ cnr', cleanup cnr epoch = some cnr' ∧
      (∀ x, get cnr' x = if epoch - keyEpoch x > totalCleanupDelta then none else get cnr x) ∧
      (∀ kv ∈ cnr', kv ∈ cnr) ∧ (Uniq cnr → Uniq cnr') := by
  unfold cleanup
  have hk : ∀ k ∈ (find cnr cnrP).map (·.1), 45 ≤ k.length := by
    intro k hk
    rw [List.mem_map] at hk
    obtain ⟨kv, hkv, rfl⟩ := hk
    exact (hshape kv ((mem_find_iff _ _ _).mp hkv).1).2
  rw [foldl_cleanOne epoch _ cnr hk]
  refine ⟨_, rfl, ?_, fun kv h => mem_foldl_clean _ _ _ kv h, fun hu => uniq_foldl_clean _ _ _ hu⟩
  intro x
  rw [get_foldl_clean]
  by_cases hc : epoch - keyEpoch x > totalCleanupDelta
  · simp only [hc, and_true, if_true]
    by_cases hm : x ∈ (find cnr cnrP).map (·.1)
    · simp only [hm, if_true]
    · simp only [hm, if_false]
      rw [get_eq_none_iff]
      intro v hv
      apply hm
      rw [List.mem_map]
      exact ⟨(x, v), (mem_find_iff _ _ _).mpr ⟨hv, (hshape _ hv).1⟩, rfl⟩
  · simp only [hc, and_false, if_false]

/-! ### key layout -/

/-- well-formed estimation coordinates: an epoch number, a 32-byte container id, a 20-byte key digest -/
def EstWF (e : Int) (cid h : Bytes) : Prop := EpochOK e ∧ cid.length = 32 ∧ h.length = 20

theorem estimationKey_length (e : Int) (cid h : Bytes) (hc : cid.length = 32) (hh : h.length = 20) :
    (estimationKey e cid h).length = 3 + (encInt e).length + 42 := by
  unfold estimationKey
  simp only [List.length_append, cnrP_length, hc, List.length_take, postfixSize_eq, hh]
  omega

theorem estimationKey_inj (e e' : Int) (cid cid' h h' : Bytes) (hw : EstWF e cid h) (hw' : EstWF e' cid' h')
    (hk : estimationKey e cid h = estimationKey e' cid' h') : e = e' ∧ cid = cid' ∧ h.take 10 = h'.take 10 := by
  obtain ⟨he, hc, hh⟩ := hw
  obtain ⟨he', hc', hh'⟩ := hw'
  have hlen := congrArg List.length hk
  rw [estimationKey_length e cid h hc hh, estimationKey_length e' cid' h' hc' hh'] at hlen
  unfold estimationKey at hk
  have h1 := List.append_cancel_left hk
  obtain ⟨h2, h3⟩ := List.append_inj h1 (by omega)
  obtain ⟨h4, h5⟩ := List.append_inj h3 (by omega)
  exact ⟨encInt_inj e e' he he' h2, h4, by simpa [postfixSize_eq] using h5⟩

theorem keyEpoch_estimationKey (e : Int) (cid h : Bytes) (hw : EstWF e cid h) :
    keyEpoch (estimationKey e cid h) = e := by
  obtain ⟨he, hc, hh⟩ := hw
  unfold keyEpoch
  rw [estimationKey_length e cid h hc hh, cnrP_length, cidSize_eq, postfixSize_eq]
  unfold estimationKey
  rw [List.drop_left' cnrP_length]
  have : 3 + (encInt e).length + 42 - 32 - 10 - 3 = (encInt e).length := by omega
  rw [this, List.take_left' rfl]
  exact decInt_encInt e he

theorem estimationKey_shape (e : Int) (cid h : Bytes) (hc : cid.length = 32) (hh : h.length = 20) :
    cnrP <+: estimationKey e cid h ∧ 45 ≤ (estimationKey e cid h).length := by
  refine ⟨List.prefix_append _ _, ?_⟩
  rw [estimationKey_length e cid h hc hh]; omega

end NeoFS.EpochStores
