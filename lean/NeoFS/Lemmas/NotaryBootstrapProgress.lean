import NeoFS.Lemmas.NotaryBootstrap
/-! Progress of the Notary bootstrap model under the fair environment (C13, layer 2). -/
namespace NeoFS.NotaryBootstrap

/-- the signers of the live set `S` -/
def IsSigner (n : Nat) (S : Nat → Bool) (j : Nat) : Prop := S j = true ∧ 1 ≤ j ∧ j < n

/-- hypotheses of the progress theorems: a committee of at least two, the leader is live, the loop stays
inside the committee and is not longer than the number of non-leading members, enough signers of `S`
are collectible, and the chain accepts transactions that are valid for at least four more blocks -/
structure Hyp (mp : Maps) (n maxInc : Nat) (S : Nat → Bool) : Prop where
  two : 2 ≤ n
  leader : S 0 = true
  range : KeysInRange mp n
  short : (loopIndices mp n).length ≤ n - 1
  enough : majority n - 1 ≤ collectible mp n S
  inc : 4 ≤ maxInc
  replace : mp.replaceOutdated = true

theorem writerOf_some (mp : Maps) (n k j : Nat) (h : writerOf mp n k = some j) : k = j + mp.sdOff ∧ 1 ≤ j ∧ j < n := by
  unfold writerOf at h
  split at h
  · simp only [Option.some.injEq] at h; omega
  · simp at h

theorem writerOf_signer (mp : Maps) (n j : Nat) (h1 : 1 ≤ j) (h2 : j < n) : writerOf mp n (j + mp.sdOff) = some j := by
  unfold writerOf
  rw [if_pos (by omega)]
  congr 1; omega

/-- a bad record can only sit at a loop index that is not collectible -/
theorem not_validIdx_of_badB (mp : Maps) (n : Nat) (S : Nat → Bool) (c : Chain) (d : Shared) (i : Nat)
    (hc : ChainInv mp n S c) (hb : badB mp c d i = true) : validIdx mp n S i = false := by
  unfold badB at hb
  split at hb
  · rename_i r hr
    simp only [decide_eq_true_eq] at hb
    obtain ⟨j, d', hw, _, rfl⟩ := hc _ r hr
    simp only [signRec] at hb
    have hne : j ≠ i + mp.keyOff := by
      intro he
      exact hb.2 ⟨he, hb.1⟩
    simp only [validIdx, hw, Option.some.injEq, hne, decide_false, Bool.false_and]
  · simp at hb

theorem bad_count (mp : Maps) (n maxInc : Nat) (S : Nat → Bool) (c : Chain) (d : Shared)
    (H : Hyp mp n maxInc S) (hc : ChainInv mp n S c) :
    (loopIndices mp n).countP (badB mp c d) + 0 + majority n ≤ n := by
  have h1 : (loopIndices mp n).countP (badB mp c d) ≤ (loopIndices mp n).countP (fun i => ¬ validIdx mp n S i) := by
    apply List.countP_mono_left
    intro i _ hb
    simp [not_validIdx_of_badB mp n S c d i hc hb]
  have h2 := List.length_eq_countP_add_countP (validIdx mp n S) (l := loopIndices mp n)
  have h3 := H.short
  have h4 := H.enough
  have h5 : majority n ≤ n := by unfold majority; omega
  have h6 := majority_pos n (by have := H.two; omega)
  unfold collectible at h4
  omega

/-! ## the leader in the main phase -/

/-- outcome of a leader tick in the main phase under the progress hypotheses -/
def MainOutcome (n : Nat) (d : Shared) (r : Leader × LAct) : Prop :=
  (r.2 = .none ∧ r.1.tried = false) ∨ (∃ sc, r.2 = .designate d sc ∧ validScript n d sc)

theorem leaderSend_fair (mp : Maps) (n maxInc : Nat) (env : Env) (c : Chain) (d : Shared) (l2 : Leader)
    (hn : 1 ≤ n) (ho : OrderOK mp env) (hlt : c.height < d.vub) (h : SendPre n c d l2)
    (hp : l2.pendReg = false) (ht : l2.tried = false) :
    ∃ sc, (leaderSend mp n maxInc env c d l2).2 = .designate d sc ∧ validScript n d sc := by
  have hpost := leaderSend_post mp n maxInc env c d l2 hn ho (by omega) h
  unfold leaderSend at hpost ⊢
  rw [if_neg (by simp [hp]), if_neg (by simp [ht])] at hpost ⊢
  generalize (if l2.fullySigned = true then l2 else
      { l2 with script := l2.script ++ ((if mp.sorted = true then l2.sigs else env.order l2.sigs).map (·.2)),
                fullySigned := true }) = l3 at hpost ⊢
  simp only [] at hpost ⊢
  rw [if_neg (by simpa using hlt)] at hpost ⊢
  by_cases hv : validScript n d l3.script
  · rw [if_pos hv]
    exact ⟨_, rfl, hv⟩
  · rw [if_neg hv] at hpost
    exact absurd rfl (hpost.1 _ _ _)

theorem leaderMain_fair (mp : Maps) (n maxInc : Nat) (S : Nat → Bool) (env : Env) (c : Chain) (d : Shared) (l : Leader)
    (H : Hyp mp n maxInc S) (ho : OrderOK mp env) (hl : LInv n c l) (hc : ChainInv mp n S c)
    (hrec : c.txRec = some d) (hlt : c.height < d.vub) (hp : l.pendReg = false) (ht : l.tried = false) :
    MainOutcome n d (leaderMain mp n maxInc env c d l) ∧
    ((∀ i ∈ loopIndices mp n, validIdx mp n S i = true → validB mp c d i = true) →
      ∃ sc, (leaderMain mp n maxInc env c d l).2 = .designate d sc ∧ validScript n d sc) := by
  have hn : 1 ≤ n := by have := H.two; omega
  have hl1 := l1Pre_of_LInv n c d l hl hrec
  have hp1 : (if l.tx = some d then l else { l with tx := some d, script := [⟨0, d⟩] }).pendReg = false := by
    split <;> simp [hp]
  have ht1 : (if l.tx = some d then l else { l with tx := some d, script := [⟨0, d⟩] }).tried = false := by
    split <;> simp [ht]
  unfold leaderMain
  generalize (if l.tx = some d then l else { l with tx := some d, script := [⟨0, d⟩] }) = l1 at hl1 hp1 ht1
  obtain ⟨p1, p2, p3, p4, p5, p6⟩ := hl1
  simp only []
  -- once the map is fixed
  have fin : ∀ m : List (Nat × Sig), Asc m → SigsFor n d m → m.length ≤ majority n - 1 →
      (l1.fullySigned = true → m = l1.sigs) →
      MainOutcome n d (if m.length < majority n - 1 then ({ l1 with sigs := m }, LAct.none)
                       else leaderSend mp n maxInc env c d { l1 with sigs := m }) ∧
      (¬ m.length < majority n - 1 →
        ∃ sc, (if m.length < majority n - 1 then ({ l1 with sigs := m }, LAct.none)
                else leaderSend mp n maxInc env c d { l1 with sigs := m }).2 = .designate d sc ∧ validScript n d sc) := by
    intro m ha hf hle hfs
    by_cases hlen : m.length < majority n - 1
    · rw [if_pos hlen]
      exact ⟨Or.inl ⟨rfl, ht1⟩, fun h => absurd hlen h⟩
    · rw [if_neg hlen]
      have hpre : SendPre n c d { l1 with sigs := m } := by
        refine ⟨p1, hrec, ha, hf, (by show m.length = majority n - 1; omega), p5, ?_⟩
        intro hb
        have e := hfs hb
        have := p6 hb
        simp only [e]
        exact ⟨this.1, this.2.2⟩
      have := leaderSend_fair mp n maxInc env c d _ hn ho hlt hpre hp1 ht1
      exact ⟨Or.inr this, fun _ => this⟩
  by_cases hlen : l1.sigs.length < majority n - 1
  · rw [if_pos hlen]
    cases hcol : collect mp n (majority n - 1) c d (loopIndices mp n) l1.sigs 0 with
    | regenerate =>
      exact absurd hcol (collect_no_regenerate mp n _ c d _ _ 0 (bad_count mp n maxInc S c d H hc))
    | sigs m =>
      simp only []
      have hok := collect_ok mp n (majority n - 1) c d (loopIndices mp n) l1.sigs 0 m H.range p2 p3 hlen hcol
      have hfin := fin m hok.1 hok.2.1 hok.2.2.1 (by
        intro hb
        have := (p6 hb).2.1
        omega)
      refine ⟨hfin.1, ?_⟩
      intro hall
      apply hfin.2
      -- every collectible signature is on chain: the loop cannot end short
      rcases collect_complete mp n _ c d _ _ _ m hcol with he | ⟨hv, _⟩
      · omega
      · have hsub : ∀ x ∈ ((loopIndices mp n).filter (validIdx mp n S)).map (· + mp.keyOff), x ∈ keys m := by
          intro x hx
          simp only [List.mem_map, List.mem_filter] at hx
          obtain ⟨i, ⟨hi, hvi⟩, rfl⟩ := hx
          exact hv i hi (hall i hi hvi)
        have hnd : (((loopIndices mp n).filter (validIdx mp n S)).map (· + mp.keyOff)).Nodup := by
          exact List.Pairwise.map _ (fun a b (hab : a ≠ b) => by show a + mp.keyOff ≠ b + mp.keyOff; omega)
            (List.Pairwise.filter _ (List.nodup_range' (step := 1)))
        have hle := List.Nodup.length_le_of_subset hnd hsub
        simp only [List.length_map, keys, ← List.countP_eq_length_filter] at hle
        have := H.enough
        unfold collectible at this
        omega
  · rw [if_neg hlen]
    simp only []
    have hfin := fin l1.sigs p2 p3 p4 (fun _ => rfl)
    exact ⟨hfin.1, fun _ => hfin.2 hlen⟩

/-! ## the signers -/

theorem sigRec_eq (r : SigRec) (j : Nat) (d : Shared) (h1 : r.cs = d) (h2 : r.sig.signer = j) (h3 : r.sig.over = d) :
    r = signRec j d := by
  cases r with
  | mk cs sig =>
    cases sig with
    | mk sg ov =>
      simp only at h1 h2 h3
      subst h1 h2 h3
      rfl

/-- what a settled signer of the live set does while the shared data `d` is on chain and not expired -/
theorem signerPublish_progress (mp : Maps) (j : Nat) (c : Chain) (d : Shared) (s1 : Signer)
    (hrep : mp.replaceOutdated = true) (hs : s1.pendReg = false ∧ s1.pendSet = false) :
    (c.sigDom (j + mp.sdOff) = false → (signerPublish mp j c d s1).2 = .regDom) ∧
    (c.sigDom (j + mp.sdOff) = true →
      (signerPublish mp j c d s1).2 = .setRec (signRec j d) ∨
      ((signerPublish mp j c d s1).2 = .none ∧ c.sigRec (j + mp.sdOff) = some (signRec j d))) := by
  unfold signerPublish
  constructor
  · intro h
    simp [h, hs.1]
  · intro h
    simp only [h, not_true_eq_false, if_false]
    split
    · simp [hs.2]
    · rename_i r hr
      by_cases h1 : r.cs ≠ d
      · rw [if_pos h1, hrep]; exact Or.inl rfl
      · rw [if_neg h1]
        by_cases h2 : ¬ (r.sig.signer = j ∧ r.sig.over = d)
        · rw [if_pos h2]; exact Or.inl rfl
        · rw [if_neg h2]
          simp only [Decidable.not_not] at h1 h2
          exact Or.inr ⟨rfl, by rw [hr, sigRec_eq r j d h1 h2.1 h2.2]⟩

theorem signerOut_progress (mp : Maps) (n : Nat) (S : Nat → Bool) (nonce : Nat) (s : State) (j : Nat) (d : Shared)
    (hrep : mp.replaceOutdated = true) (hj : IsSigner n S j) (hr : s.chain.roleAt = none) (htd : s.chain.txDom = true) (hrec : s.chain.txRec = some d)
    (hexp : ¬ s.chain.height > d.vub) (hset : (s.signer j).pendReg = false ∧ (s.signer j).pendSet = false) :
    (s.chain.sigDom (j + mp.sdOff) = false → (signerOut mp n (fairEnv S nonce) s j).2 = .regDom) ∧
    (s.chain.sigDom (j + mp.sdOff) = true →
      (signerOut mp n (fairEnv S nonce) s j).2 = .setRec (signRec j d) ∨
      ((signerOut mp n (fairEnv S nonce) s j).2 = .none ∧ s.chain.sigRec (j + mp.sdOff) = some (signRec j d))) := by
  unfold signerOut
  simp only [fairEnv, Bool.false_eq_true, if_false]
  rw [if_pos ⟨hj.1, hj.2.1, hj.2.2⟩]
  unfold signerStep
  rw [roleVisible_of_none _ hr]
  simp only [Bool.false_eq_true, if_false]
  unfold signerTick
  rw [if_neg (by simp [htd])]
  simp only [hrec]
  rw [if_neg hexp]
  apply signerPublish_progress _ _ _ _ _ hrep
  split <;> simp [hset.1, hset.2]

/-- a member outside the signers of `S` does nothing -/
theorem signerOut_idle (mp : Maps) (n : Nat) (S : Nat → Bool) (nonce : Nat) (s : State) (j : Nat)
    (hj : ¬ IsSigner n S j) : (signerOut mp n (fairEnv S nonce) s j).2 = .none := by
  unfold signerOut
  simp only [fairEnv, Bool.false_eq_true, if_false]
  rw [if_neg (by intro h; exact hj ⟨h.1, h.2.1, h.2.2⟩)]

/-- signers wait while the leader has not published shared data -/
theorem signerOut_wait (mp : Maps) (n : Nat) (env : Env) (s : State) (j : Nat)
    (h : s.chain.txDom = false ∨ s.chain.txRec = none) : (signerOut mp n env s j).2 = .none := by
  unfold signerOut
  simp only []
  split
  · unfold signerStep
    split
    · rfl
    · unfold signerTick
      rcases h with h | h
      · simp [h]
      · split
        · rfl
        · simp [h]
  · rfl

/-! ## good states, restarts, completion -/

/-- everything the progress argument needs to know about a state that has not completed yet -/
structure Good (mp : Maps) (n : Nat) (S : Nat → Bool) (s : State) : Prop where
  linv : LInv n s.chain s.leader
  cinv : ChainInv mp n S s.chain
  lset : s.leader.pendReg = false ∧ s.leader.pendSet = false
  sset : ∀ j, (s.signer j).pendReg = false ∧ (s.signer j).pendSet = false
  ntried : s.leader.tried = false
  norole : s.chain.roleAt = none

theorem good_init (mp : Maps) (n : Nat) (S : Nat → Bool) (h : Nat) : Good mp n S (State.init h) :=
  ⟨LInv_init n _, ChainInv_fresh mp n S h, ⟨rfl, rfl⟩, fun _ => ⟨rfl, rfl⟩, rfl, rfl⟩

/-- restart of the members in `R`: their process state is lost -/
def restart (R : Nat → Bool) (s : State) : State :=
  { chain := s.chain, leader := if R 0 then Leader.init else s.leader,
    signer := fun j => if R j then Signer.init else s.signer j }

theorem good_restart (mp : Maps) (n : Nat) (S : Nat → Bool) (R : Nat → Bool) (s : State) (h : Good mp n S s) :
    Good mp n S (restart R s) := by
  refine ⟨?_, h.cinv, ?_, ?_, ?_, h.norole⟩
  · show LInv n s.chain (if R 0 = true then Leader.init else s.leader)
    split
    · exact LInv_init n _
    · exact h.linv
  · show (if R 0 = true then Leader.init else s.leader).pendReg = false ∧ (if R 0 = true then Leader.init else s.leader).pendSet = false
    split
    · exact ⟨rfl, rfl⟩
    · exact h.lset
  · intro j
    show (if R j = true then Signer.init else s.signer j).pendReg = false ∧ (if R j = true then Signer.init else s.signer j).pendSet = false
    split
    · exact ⟨rfl, rfl⟩
    · exact h.sset j
  · show (if R 0 = true then Leader.init else s.leader).tried = false
    split
    · rfl
    · exact h.ntried

/-- under the fair environment the leader of a not yet completed committee of ≥ 2 simply ticks -/
theorem leaderOut_fair (mp : Maps) (n maxInc : Nat) (S : Nat → Bool) (nonce : Nat) (s : State)
    (hn : 2 ≤ n) (h0 : S 0 = true) (hr : s.chain.roleAt = none) :
    leaderOut mp n maxInc (fairEnv S nonce) s = leaderTick mp n maxInc (fairEnv S nonce) s.chain s.leader := by
  unfold leaderOut
  simp only [fairEnv, Bool.false_eq_true, if_false, h0, if_true]
  unfold leaderStep
  rw [roleVisible_of_none _ hr]
  simp only [Bool.false_eq_true, if_false]
  rw [if_neg (by omega)]

/-- a round in which the leader sends no designation keeps the state good -/
theorem good_round (mp : Maps) (n maxInc : Nat) (S : Nat → Bool) (nonce : Nat) (s : State)
    (H : Hyp mp n maxInc S) (hg : Good mp n S s)
    (ht : (leaderOut mp n maxInc (fairEnv S nonce) s).1.tried = false)
    (hd : ∀ d sc, (leaderOut mp n maxInc (fairEnv S nonce) s).2 ≠ .designate d sc)
    (hsolo : (leaderOut mp n maxInc (fairEnv S nonce) s).2 ≠ .designateSolo) :
    Good mp n S (round mp n maxInc (fairEnv S nonce) s) := by
  have hn : 1 ≤ n := by have := H.two; omega
  refine ⟨round_LInv mp n maxInc _ s hn (orderOK_fair mp S nonce) H.range hg.linv,
    round_ChainInv mp n maxInc S _ s (fun j hj => hj) hg.cinv, ⟨rfl, rfl⟩, fun _ => ⟨rfl, rfl⟩, ?_, ?_⟩
  · unfold round; exact ht
  · unfold round; exact applyBlock_roleAt_none _ _ _ _ _ _ hg.norole hd hsolo

/-! ### completion -/

def Completes (mp : Maps) (n maxInc : Nat) (S : Nat → Bool) (nonce : Nat) (k : Nat) (s : State) : Prop :=
  ((rounds mp n maxInc S nonce k s).chain.roleAt).isSome = true

theorem roleAt_keeps (mp : Maps) (n maxInc : Nat) (env : Env) (s : State) (h : s.chain.roleAt.isSome = true) :
    (round mp n maxInc env s).chain.roleAt.isSome = true := by
  unfold round
  simp only [applyBlock]
  cases hr : s.chain.roleAt with
  | none => simp [hr] at h
  | some b => rfl

theorem completes_of_done (mp : Maps) (n maxInc : Nat) (S : Nat → Bool) (nonce : Nat) :
    ∀ (k : Nat) (s : State), s.chain.roleAt.isSome = true → Completes mp n maxInc S nonce k s
  | 0, _, h => h
  | k + 1, s, h => completes_of_done mp n maxInc S nonce k _ (roleAt_keeps mp n maxInc _ s h)

theorem completes_step (mp : Maps) (n maxInc : Nat) (S : Nat → Bool) (nonce k : Nat) (s : State)
    (h : Completes mp n maxInc S nonce k (round mp n maxInc (fairEnv S nonce) s)) :
    Completes mp n maxInc S nonce (k + 1) s := h

/-- the block that includes a valid, unexpired designation completes the bootstrap -/
theorem done_of_designate (mp : Maps) (n maxInc : Nat) (S : Nat → Bool) (nonce : Nat) (s : State) (d : Shared) (sc : List Sig)
    (ha : (leaderOut mp n maxInc (fairEnv S nonce) s).2 = .designate d sc) (hv : validScript n d sc)
    (hlt : s.chain.height < d.vub) :
    (round mp n maxInc (fairEnv S nonce) s).chain.roleAt.isSome = true := by
  unfold round
  simp only [applyBlock, ha]
  cases hr : s.chain.roleAt with
  | some b => rfl
  | none =>
    simp only []
    rw [if_pos ⟨hv, by omega, rfl⟩]
    rfl

/-! ## one fair round in the main phase -/

/-- every signer of `S` has its signature domain -/
def DomOK (mp : Maps) (n : Nat) (S : Nat → Bool) (c : Chain) : Prop :=
  ∀ j, IsSigner n S j → c.sigDom (j + mp.sdOff) = true

/-- every signer of `S` has published its signature of the transaction built from `d` -/
def RecOK (mp : Maps) (n : Nat) (S : Nat → Bool) (d : Shared) (c : Chain) : Prop :=
  ∀ j, IsSigner n S j → c.sigRec (j + mp.sdOff) = some (signRec j d)

theorem round_sigDom_keep (mp : Maps) (n maxInc : Nat) (env : Env) (s : State) (k : Nat)
    (h : s.chain.sigDom k = true) : (round mp n maxInc env s).chain.sigDom k = true := by
  unfold round
  simp only [applyBlock, h, Bool.true_or]

theorem round_sigDom_reg (mp : Maps) (n maxInc : Nat) (env : Env) (s : State) (k j : Nat)
    (hw : writerOf mp n k = some j) (h : (signerOut mp n env s j).2 = .regDom) :
    (round mp n maxInc env s).chain.sigDom k = true := by
  unfold round
  simp only [applyBlock, hw, h, Bool.or_true]

theorem round_sigRec_set (mp : Maps) (n maxInc : Nat) (env : Env) (s : State) (k j : Nat) (r : SigRec)
    (hw : writerOf mp n k = some j) (h : (signerOut mp n env s j).2 = .setRec r) :
    (round mp n maxInc env s).chain.sigRec k = some r := by
  unfold round
  simp only [applyBlock, hw, h]

theorem round_sigRec_none (mp : Maps) (n maxInc : Nat) (env : Env) (s : State) (k j : Nat)
    (hw : writerOf mp n k = some j) (h : (signerOut mp n env s j).2 = .none) :
    (round mp n maxInc env s).chain.sigRec k = s.chain.sigRec k := by
  unfold round
  simp only [applyBlock, hw, h]

theorem round_txRec (mp : Maps) (n maxInc : Nat) (env : Env) (s : State) :
    (round mp n maxInc env s).chain.txRec = txRecAfter s.chain (leaderOut mp n maxInc env s).2 := by
  unfold round; exact applyBlock_txRec ..

theorem round_txDom (mp : Maps) (n maxInc : Nat) (env : Env) (s : State) :
    (round mp n maxInc env s).chain.txDom =
      (s.chain.txDom || (match (leaderOut mp n maxInc env s).2 with | .regTxDom => true | _ => false)) := rfl

theorem round_height (mp : Maps) (n maxInc : Nat) (env : Env) (s : State) :
    (round mp n maxInc env s).chain.height = s.chain.height + 1 := rfl

/-- all collectible signatures for `d` are on chain -/
theorem validB_of_recOK (mp : Maps) (n : Nat) (S : Nat → Bool) (d : Shared) (c : Chain) (h : RecOK mp n S d c) :
    ∀ i ∈ loopIndices mp n, validIdx mp n S i = true → validB mp c d i = true := by
  intro i _ hv
  simp only [validIdx, Bool.and_eq_true, decide_eq_true_eq] at hv
  obtain ⟨hk, h1, h2⟩ := writerOf_some mp n _ _ hv.1
  have := h (i + mp.keyOff) ⟨hv.2, h1, h2⟩
  rw [← hk] at this
  simp [validB, this, signRec]

/-- One fair round while the shared data `d` is on chain with at least one more block of validity:
either the designation gets accepted, or the state stays good, the shared data stays, every signer
has its domain afterwards, and — if all had their domains before — every signer's signature for `d`
is published afterwards. If all signatures were already published, the designation is accepted. -/
theorem main_round (mp : Maps) (n maxInc : Nat) (S : Nat → Bool) (nonce : Nat) (s : State) (d : Shared)
    (H : Hyp mp n maxInc S) (hg : Good mp n S s) (htd : s.chain.txDom = true) (hrec : s.chain.txRec = some d)
    (hlt : s.chain.height < d.vub) :
    ((round mp n maxInc (fairEnv S nonce) s).chain.roleAt.isSome = true ∨
      (Good mp n S (round mp n maxInc (fairEnv S nonce) s) ∧
        (round mp n maxInc (fairEnv S nonce) s).chain.txDom = true ∧
        (round mp n maxInc (fairEnv S nonce) s).chain.txRec = some d ∧
        DomOK mp n S (round mp n maxInc (fairEnv S nonce) s).chain ∧
        (DomOK mp n S s.chain → RecOK mp n S d (round mp n maxInc (fairEnv S nonce) s).chain))) ∧
    (RecOK mp n S d s.chain → (round mp n maxInc (fairEnv S nonce) s).chain.roleAt.isSome = true) := by
  have hlo := leaderOut_fair mp n maxInc S nonce s H.two H.leader hg.norole
  have hexp : ¬ s.chain.height > d.vub := by omega
  have hmain : leaderTick mp n maxInc (fairEnv S nonce) s.chain s.leader =
      leaderMain mp n maxInc (fairEnv S nonce) s.chain d s.leader := by
    unfold leaderTick
    rw [if_neg (by simp [htd])]
    simp only [hrec]
    rw [if_neg hexp]
  have hfair := leaderMain_fair mp n maxInc S (fairEnv S nonce) s.chain d s.leader H (orderOK_fair mp S nonce)
    hg.linv hg.cinv hrec hlt hg.lset.1 hg.ntried
  rw [← hmain, ← hlo] at hfair
  constructor
  · rcases hfair.1 with ⟨hnone, htr⟩ | ⟨sc, hdes, hval⟩
    · right
      have hgood : Good mp n S (round mp n maxInc (fairEnv S nonce) s) :=
        good_round mp n maxInc S nonce s H hg htr (by simp [hnone]) (by simp [hnone])
      refine ⟨hgood, ?_, ?_, ?_, ?_⟩
      · rw [round_txDom, htd]; rfl
      · rw [round_txRec, hnone]; exact hrec
      · intro j hj
        have hw := writerOf_signer mp n j hj.2.1 hj.2.2
        have hp := signerOut_progress mp n S nonce s j d H.replace hj hg.norole htd hrec hexp (hg.sset j)
        cases hsd : s.chain.sigDom (j + mp.sdOff) with
        | true => exact round_sigDom_keep mp n maxInc _ s _ hsd
        | false => exact round_sigDom_reg mp n maxInc _ s _ j hw (hp.1 hsd)
      · intro hdom j hj
        have hw := writerOf_signer mp n j hj.2.1 hj.2.2
        have hp := signerOut_progress mp n S nonce s j d H.replace hj hg.norole htd hrec hexp (hg.sset j)
        rcases hp.2 (hdom j hj) with h | ⟨h1, h2⟩
        · exact round_sigRec_set mp n maxInc _ s _ j _ hw h
        · rw [round_sigRec_none mp n maxInc _ s _ j hw h1]; exact h2
    · left
      exact done_of_designate mp n maxInc S nonce s d sc hdes hval hlt
  · intro hrecok
    obtain ⟨sc, hdes, hval⟩ := hfair.2 (validB_of_recOK mp n S d s.chain hrecok)
    exact done_of_designate mp n maxInc S nonce s d sc hdes hval hlt

/-! ## five rounds -/

theorem vubIncrement_ge (maxInc : Nat) (h : 4 ≤ maxInc) : 4 ≤ vubIncrement maxInc := by
  unfold vubIncrement
  have : (Generated.deploy_initDesignateNotaryRoleAsLeaderTick_defaultValidUntilBlockIncrement).toNat = 120 := by decide
  simp only [this]
  split <;> omega

theorem completes_mono (mp : Maps) (n maxInc : Nat) (S : Nat → Bool) (nonce : Nat) :
    ∀ (k : Nat) (s : State), Completes mp n maxInc S nonce k s → Completes mp n maxInc S nonce (k + 1) s
  | 0, s, h => roleAt_keeps mp n maxInc _ s h
  | k + 1, s, h => completes_mono mp n maxInc S nonce k (round mp n maxInc (fairEnv S nonce) s) h

theorem completes_le (mp : Maps) (n maxInc : Nat) (S : Nat → Bool) (nonce : Nat) (s : State) :
    ∀ (k m : Nat), k ≤ m → Completes mp n maxInc S nonce k s → Completes mp n maxInc S nonce m s := by
  intro k m hkm h
  induction m with
  | zero => have : k = 0 := by omega
            subst this; exact h
  | succ m ih =>
    by_cases hk : k = m + 1
    · subst hk; exact h
    · exact completes_mono mp n maxInc S nonce m s (ih (by omega))

section
variable (mp : Maps) (n maxInc : Nat) (S : Nat → Bool) (nonce : Nat) (H : Hyp mp n maxInc S)
include H

/-- all signatures are published: one more round -/
theorem completes_E (s : State) (d : Shared) (hg : Good mp n S s) (htd : s.chain.txDom = true)
    (hrec : s.chain.txRec = some d) (hlt : s.chain.height < d.vub) (hok : RecOK mp n S d s.chain) :
    Completes mp n maxInc S nonce 1 s :=
  (main_round mp n maxInc S nonce s d H hg htd hrec hlt).2 hok

/-- all signature domains are registered: two more rounds -/
theorem completes_D (s : State) (d : Shared) (hg : Good mp n S s) (htd : s.chain.txDom = true)
    (hrec : s.chain.txRec = some d) (hlt : s.chain.height + 1 < d.vub) (hok : DomOK mp n S s.chain) :
    Completes mp n maxInc S nonce 2 s := by
  rcases (main_round mp n maxInc S nonce s d H hg htd hrec (by omega)).1 with h | ⟨hg', htd', hrec', _, hrk⟩
  · exact completes_of_done mp n maxInc S nonce 1 _ h
  · exact completes_E mp n maxInc S nonce H _ d hg' htd' hrec' (by rw [round_height]; omega) (hrk hok)

/-- the shared data is published: three more rounds -/
theorem completes_C (s : State) (d : Shared) (hg : Good mp n S s) (htd : s.chain.txDom = true)
    (hrec : s.chain.txRec = some d) (hlt : s.chain.height + 2 < d.vub) :
    Completes mp n maxInc S nonce 3 s := by
  rcases (main_round mp n maxInc S nonce s d H hg htd hrec (by omega)).1 with h | ⟨hg', htd', hrec', hdk, _⟩
  · exact completes_of_done mp n maxInc S nonce 2 _ h
  · exact completes_D mp n maxInc S nonce H _ d hg' htd' hrec' (by rw [round_height]; omega) hdk

/-- the tx-data domain is registered: four more rounds -/
theorem completes_B (s : State) (hg : Good mp n S s) (htd : s.chain.txDom = true) (hrec : s.chain.txRec = none) :
    Completes mp n maxInc S nonce 4 s := by
  have hlo := leaderOut_fair mp n maxInc S nonce s H.two H.leader hg.norole
  have htick : leaderTick mp n maxInc (fairEnv S nonce) s.chain s.leader =
      generateAct maxInc (fairEnv S nonce) s.chain s.leader := by
    unfold leaderTick
    rw [if_neg (by simp [htd])]
    simp only [hrec]
    rw [if_neg (by simp [hg.lset.2])]
  rw [htick] at hlo
  have hgood : Good mp n S (round mp n maxInc (fairEnv S nonce) s) :=
    good_round mp n maxInc S nonce s H hg (by rw [hlo]; exact hg.ntried) (by rw [hlo]; simp [generateAct])
      (by rw [hlo]; simp [generateAct])
  apply completes_step
  apply completes_C mp n maxInc S nonce H _ ⟨s.chain.height + vubIncrement maxInc, nonce⟩ hgood
  · rw [round_txDom, htd]; rfl
  · rw [round_txRec, hlo]; rfl
  · rw [round_height]
    have := vubIncrement_ge maxInc H.inc
    show s.chain.height + 1 + 2 < s.chain.height + vubIncrement maxInc
    omega

/-- nothing is there yet: five rounds -/
theorem completes_A (s : State) (hg : Good mp n S s) (htd : s.chain.txDom = false) (hrec : s.chain.txRec = none) :
    Completes mp n maxInc S nonce 5 s := by
  have hlo := leaderOut_fair mp n maxInc S nonce s H.two H.leader hg.norole
  have htick : leaderTick mp n maxInc (fairEnv S nonce) s.chain s.leader =
      ({ s.leader with pendReg := true }, .regTxDom) := by
    unfold leaderTick
    rw [if_pos (by simp [htd])]
    rw [if_neg (by simp [hg.lset.1])]
  rw [htick] at hlo
  have hgood : Good mp n S (round mp n maxInc (fairEnv S nonce) s) :=
    good_round mp n maxInc S nonce s H hg (by rw [hlo]; exact hg.ntried) (by rw [hlo]; simp) (by rw [hlo]; simp)
  apply completes_step
  apply completes_B mp n maxInc S nonce H _ hgood
  · rw [round_txDom, hlo]; simp
  · rw [round_txRec, hlo]; exact hrec

/-- From every good state — in particular after any members have been restarted — whose shared data, if
any, is valid for three more blocks, the fair rounds of `S` complete the bootstrap within five rounds. -/
theorem completes_from_good (s : State) (hg : Good mp n S s)
    (hph : s.chain.txDom = false → s.chain.txRec = none)
    (hm : ∀ d, s.chain.txRec = some d → s.chain.height + 2 < d.vub) :
    Completes mp n maxInc S nonce 5 s := by
  cases htd : s.chain.txDom with
  | false => exact completes_A mp n maxInc S nonce H s hg htd (hph htd)
  | true =>
    cases hrec : s.chain.txRec with
    | none => exact completes_le mp n maxInc S nonce s 4 5 (by omega) (completes_B mp n maxInc S nonce H s hg htd hrec)
    | some d => exact completes_le mp n maxInc S nonce s 3 5 (by omega) (completes_C mp n maxInc S nonce H s d hg htd hrec (hm d hrec))

end

/-! ## the fair run, restarts -/

section
variable (mp : Maps) (n maxInc : Nat) (S : Nat → Bool) (nonce : Nat) (H : Hyp mp n maxInc S)
include H

/-- One fair round from a good state whose shared data (if any) is not expiring: completed, or good
again, with the same shared data or freshly generated one. -/
theorem fair_step (s : State) (hg : Good mp n S s) (hph : s.chain.txDom = false → s.chain.txRec = none)
    (hm : ∀ d, s.chain.txRec = some d → s.chain.height < d.vub) :
    (round mp n maxInc (fairEnv S nonce) s).chain.roleAt.isSome = true ∨
    (Good mp n S (round mp n maxInc (fairEnv S nonce) s) ∧
      ((round mp n maxInc (fairEnv S nonce) s).chain.txDom = false → (round mp n maxInc (fairEnv S nonce) s).chain.txRec = none) ∧
      ∀ d', (round mp n maxInc (fairEnv S nonce) s).chain.txRec = some d' →
        s.chain.txRec = some d' ∨ d'.vub = s.chain.height + vubIncrement maxInc) := by
  have hlo := leaderOut_fair mp n maxInc S nonce s H.two H.leader hg.norole
  cases htd : s.chain.txDom with
  | false =>
    have hrec := hph htd
    have htick : leaderTick mp n maxInc (fairEnv S nonce) s.chain s.leader =
        ({ s.leader with pendReg := true }, .regTxDom) := by
      unfold leaderTick
      rw [if_pos (by simp [htd])]
      rw [if_neg (by simp [hg.lset.1])]
    rw [htick] at hlo
    right
    refine ⟨good_round mp n maxInc S nonce s H hg (by rw [hlo]; exact hg.ntried) (by rw [hlo]; simp) (by rw [hlo]; simp), ?_, ?_⟩
    · intro _; rw [round_txRec, hlo]; exact hrec
    · intro d' hd'; rw [round_txRec, hlo] at hd'; exact Or.inl hd'
  | true =>
    cases hrec : s.chain.txRec with
    | none =>
      have htick : leaderTick mp n maxInc (fairEnv S nonce) s.chain s.leader =
          generateAct maxInc (fairEnv S nonce) s.chain s.leader := by
        unfold leaderTick
        rw [if_neg (by simp [htd])]
        simp only [hrec]
        rw [if_neg (by simp [hg.lset.2])]
      rw [htick] at hlo
      right
      refine ⟨good_round mp n maxInc S nonce s H hg (by rw [hlo]; exact hg.ntried) (by rw [hlo]; simp [generateAct])
        (by rw [hlo]; simp [generateAct]), ?_, ?_⟩
      · intro h; rw [round_txDom, htd] at h; simp at h
      · intro d' hd'
        rw [round_txRec, hlo] at hd'
        simp only [generateAct, generate, txRecAfter, Option.some.injEq] at hd'
        right; rw [← hd']
    | some d =>
      rcases (main_round mp n maxInc S nonce s d H hg htd hrec (hm d hrec)).1 with h | ⟨hg', htd', hrec', _, _⟩
      · exact Or.inl h
      · right
        refine ⟨hg', ?_, ?_⟩
        · intro h; rw [htd'] at h; simp at h
        · intro d' hd'; rw [hrec'] at hd'; exact Or.inl hd'

/-- along the fair run from a fresh chain, for a budget `B` of rounds shorter than the validity of the
shared data: completed, or good with fresh enough shared data -/
theorem fair_run_inv (h B : Nat) (hB : B < vubIncrement maxInc) : ∀ (k : Nat) (s : State),
    (s.chain.roleAt.isSome = true ∨
      (Good mp n S s ∧ (s.chain.txDom = false → s.chain.txRec = none) ∧ s.chain.height + k ≤ h + B ∧ h ≤ s.chain.height ∧
        ∀ d, s.chain.txRec = some d → h + vubIncrement maxInc ≤ d.vub)) →
    ((rounds mp n maxInc S nonce k s).chain.roleAt.isSome = true ∨
      (Good mp n S (rounds mp n maxInc S nonce k s) ∧
        ((rounds mp n maxInc S nonce k s).chain.txDom = false → (rounds mp n maxInc S nonce k s).chain.txRec = none) ∧
        (rounds mp n maxInc S nonce k s).chain.height ≤ h + B ∧
        ∀ d, (rounds mp n maxInc S nonce k s).chain.txRec = some d → h + vubIncrement maxInc ≤ d.vub))
  | 0, s, hs => by
    simp only [rounds]
    rcases hs with hd | ⟨hg, hph, hh, _, hv⟩
    · exact Or.inl hd
    · exact Or.inr ⟨hg, hph, by omega, hv⟩
  | k + 1, s, hs => by
    show ((rounds mp n maxInc S nonce k (round mp n maxInc (fairEnv S nonce) s)).chain.roleAt.isSome = true ∨ _)
    apply fair_run_inv h B hB k
    rcases hs with hd | ⟨hg, hph, hh, hle, hv⟩
    · exact Or.inl (roleAt_keeps mp n maxInc _ s hd)
    · rcases fair_step mp n maxInc S nonce H s hg hph (fun d hd => by have := hv d hd; omega) with hd | ⟨hg', hph', hv'⟩
      · exact Or.inl hd
      · refine Or.inr ⟨hg', hph', by rw [round_height]; omega, by rw [round_height]; omega, ?_⟩
        intro d' hd'
        rcases hv' d' hd' with h1 | h1
        · exact hv d' h1
        · rw [h1]; omega

/-- The fair run from a fresh chain completes within five rounds. -/
theorem completes_from_init (h : Nat) : Completes mp n maxInc S nonce 5 (State.init h) :=
  completes_from_good mp n maxInc S nonce H _ (good_init mp n S h) (fun _ => rfl)
    (fun d hd => by simp [State.init, Chain.fresh] at hd)

/-- Interrupt the fair run after any number `k` of rounds and restart any set `R` of members with an empty
process state: unless the designation has already been accepted, five more fair rounds complete the
bootstrap (the shared data is valid for 120 blocks, far longer than the run). -/
theorem restart_anywhere (hinc : 10 ≤ maxInc) (h k : Nat) (R : Nat → Bool) :
    (rounds mp n maxInc S nonce k (State.init h)).chain.roleAt.isSome = true ∨
    Completes mp n maxInc S nonce 5 (restart R (rounds mp n maxInc S nonce k (State.init h))) := by
  have hv10 : 10 ≤ vubIncrement maxInc := by
    unfold vubIncrement
    have : (Generated.deploy_initDesignateNotaryRoleAsLeaderTick_defaultValidUntilBlockIncrement).toNat = 120 := by decide
    simp only [this]
    split <;> omega
  by_cases hk : k ≤ 5
  · have hinit : (State.init h).chain.roleAt.isSome = true ∨
        (Good mp n S (State.init h) ∧ ((State.init h).chain.txDom = false → (State.init h).chain.txRec = none) ∧
          (State.init h).chain.height + k ≤ h + 5 ∧ h ≤ (State.init h).chain.height ∧
          ∀ d, (State.init h).chain.txRec = some d → h + vubIncrement maxInc ≤ d.vub) :=
      Or.inr ⟨good_init mp n S h, fun _ => rfl, by show h + k ≤ h + 5; omega, Nat.le_refl h,
        fun d hd => by simp [State.init, Chain.fresh] at hd⟩
    rcases fair_run_inv mp n maxInc S nonce H h 5 (by omega) k (State.init h) hinit with hd | ⟨hg, hph, hh, hv⟩
    · exact Or.inl hd
    · right
      apply completes_from_good mp n maxInc S nonce H _ (good_restart mp n S R _ hg) hph
      intro d hd
      have := hv d hd
      show (rounds mp n maxInc S nonce k (State.init h)).chain.height + 2 < d.vub
      omega
  · left
    exact completes_le mp n maxInc S nonce _ 5 k (by omega) (completes_from_init mp n maxInc S nonce H h)

end

/-! ## the index maps of the code under test (regenerated from deploy/notary.go) -/

theorem current_eq : current =
    { lo := fun _ => 1, hi := fun n => n, domOff := 0, keyOff := 0, sdOff := 0, sorted := true, replaceOutdated := true } := rfl

theorem loopIndices_current (n : Nat) : loopIndices current n = List.range' 1 (n - 1) := rfl

theorem keysInRange_current (n : Nat) : KeysInRange current n := by
  intro i hi
  rw [loopIndices_current] at hi
  have := List.mem_range'_1.mp hi
  show 1 ≤ i + 0 ∧ i + 0 < n
  omega

theorem validIdx_current (n : Nat) (S : Nat → Bool) (i : Nat) (hi : i ∈ loopIndices current n) :
    validIdx current n S i = S i := by
  rw [loopIndices_current] at hi
  have := List.mem_range'_1.mp hi
  have hw : writerOf current n (i + current.domOff) = some (i + current.keyOff) := by
    show writerOf current n (i + 0) = some (i + 0)
    unfold writerOf
    rw [if_pos (by show 0 ≤ i + 0 ∧ 1 ≤ i + 0 - 0 ∧ i + 0 - 0 < n; omega)]
    rfl
  unfold validIdx
  rw [hw]
  simp
  rfl

theorem collectible_current (n : Nat) (S : Nat → Bool) :
    collectible current n S = (List.range' 1 (n - 1)).countP S := by
  unfold collectible
  rw [← loopIndices_current]
  exact List.countP_congr (fun i hi => by rw [validIdx_current n S i hi])

theorem live_count (n : Nat) (S : Nat → Bool) (hn : 1 ≤ n) :
    (List.range n).countP S = (if S 0 = true then 1 else 0) + (List.range' 1 (n - 1)).countP S := by
  obtain ⟨m, rfl⟩ : ∃ m, n = m + 1 := ⟨n - 1, by omega⟩
  rw [List.range_eq_range', List.range'_succ, List.countP_cons]
  simp only [Nat.zero_add, Nat.add_sub_cancel]
  omega

/-- a majority of live members that includes the leader is enough for the maps of the code under test -/
theorem hyp_current (n maxInc : Nat) (S : Nat → Bool) (hn : 2 ≤ n) (h0 : S 0 = true)
    (hmaj : majority n ≤ (List.range n).countP S) (hinc : 4 ≤ maxInc) : Hyp current n maxInc S := by
  refine ⟨hn, h0, keysInRange_current n, ?_, ?_, hinc, rfl⟩
  · rw [loopIndices_current, List.length_range']
    exact Nat.le_refl _
  · rw [collectible_current]
    rw [live_count n S (by omega), if_pos h0] at hmaj
    omega



theorem rounds_eq_run (mp : Maps) (n maxInc : Nat) (S : Nat → Bool) (nonce : Nat) :
    ∀ (k : Nat) (s : State), rounds mp n maxInc S nonce k s = run mp n maxInc s (List.replicate k (fairEnv S nonce))
  | 0, _ => rfl
  | k + 1, s => by
    show rounds mp n maxInc S nonce k (round mp n maxInc (fairEnv S nonce) s) = _
    rw [rounds_eq_run mp n maxInc S nonce k]
    rfl

/-- The bootstrap completes for the live set `S` iff enough of its signers are collectible by the leader —
generic in the index maps. -/
theorem completes_iff (mp : Maps) (n maxInc : Nat) (S : Nat → Bool) (nonce h : Nat) (hn : 2 ≤ n) (h0 : S 0 = true)
    (hr : KeysInRange mp n) (hs : (loopIndices mp n).length ≤ n - 1) (hinc : 4 ≤ maxInc) (hrep : mp.replaceOutdated = true) :
    (∃ k, Completes mp n maxInc S nonce k (State.init h)) ↔ majority n - 1 ≤ collectible mp n S := by
  constructor
  · rintro ⟨k, hk⟩
    apply Decidable.byContradiction
    intro hlt
    have hnone := run_insufficient mp n maxInc S hn (by omega) (List.replicate k (fairEnv S nonce)) (State.init h)
      (fun e he j hj => by rw [List.eq_of_mem_replicate he] at hj; exact hj)
      (ChainInv_fresh mp n S h) (KInv_nil mp n S _ rfl) rfl
    unfold Completes at hk
    rw [rounds_eq_run, hnone] at hk
    simp at hk
  · intro he
    exact ⟨5, completes_from_init mp n maxInc S nonce ⟨hn, h0, hr, hs, he, hinc, hrep⟩ h⟩

/-- a committee of one: the single member designates itself in one round -/
theorem solo_completes (mp : Maps) (maxInc : Nat) (S : Nat → Bool) (nonce h : Nat) (h0 : S 0 = true) :
    (rounds mp 1 maxInc S nonce 1 (State.init h)).chain.roleAt = some (h + 1) := by
  simp [rounds, round, leaderOut, fairEnv, h0, leaderStep, Chain.roleVisible, State.init, Chain.fresh, soloTick,
    Leader.init, applyBlock]

/-! ## re-signing after the shared data was regenerated: replace, not append -/

/-- where a signer's action replaces record #0 although a record is there, the code replaces outdated records
or the record is not a genuine signature record for other shared data -/
theorem signerPublish_setRec_on_record (mp : Maps) (j : Nat) (c : Chain) (d : Shared) (s1 : Signer) (r r' : SigRec)
    (hrec : c.sigRec (j + mp.sdOff) = some r) (h : (signerPublish mp j c d s1).2 = .setRec r') :
    mp.replaceOutdated = true ∨ (r.cs = d ∧ ¬ (r.sig.signer = j ∧ r.sig.over = d)) := by
  unfold signerPublish at h
  split at h
  · split at h <;> simp at h
  · simp only [hrec] at h
    by_cases h1 : r.cs ≠ d
    · rw [if_pos h1] at h
      cases hr : mp.replaceOutdated with
      | true => exact Or.inl rfl
      | false => simp [hr] at h
    · rw [if_neg h1] at h
      simp only [Decidable.not_not] at h1
      by_cases h2 : ¬ (r.sig.signer = j ∧ r.sig.over = d)
      · exact Or.inr ⟨h1, h2⟩
      · rw [if_neg h2] at h; simp at h

/-- When outdated records are re-signed with `addRecord` (`replaceOutdated = false`), the FIRST signature a member
publishes stays record #0 of its domain for ever, under every schedule: the leader can never again collect a
valid signature from a member that signed shared data which has since been regenerated. -/
theorem append_keeps_first_record (mp : Maps) (n maxInc : Nat) (S : Nat → Bool) (env : Env) (s : State) (k : Nat) (r : SigRec)
    (hrep : mp.replaceOutdated = false) (hc : ChainInv mp n S s.chain) (hk : s.chain.sigRec k = some r) :
    (round mp n maxInc env s).chain.sigRec k = some r := by
  unfold round
  simp only [applyBlock]
  split
  · rename_i j hw
    obtain ⟨hkj, _, _⟩ := writerOf_some mp n k j hw
    split
    · rename_i r' hsa
      exfalso
      -- the signer replaced record #0 although one was there
      unfold signerOut at hsa
      simp only [] at hsa
      split at hsa
      · unfold signerStep at hsa
        split at hsa
        · simp at hsa
        · unfold signerTick at hsa
          split at hsa
          · simp at hsa
          · split at hsa
            · simp at hsa
            · rename_i d hd
              split at hsa
              · simp at hsa
              · rcases signerPublish_setRec_on_record mp j s.chain d _ r r' (hkj ▸ hk) hsa with h | ⟨h1, h2⟩
                · rw [hrep] at h; simp at h
                · obtain ⟨j', d', hw', _, rfl⟩ := hc k r hk
                  rw [hw] at hw'
                  simp only [Option.some.injEq] at hw'
                  subst hw'
                  simp only [signRec] at h1 h2
                  exact h2 ⟨trivial, h1⟩
      · simp at hsa
    · exact hk
  · exact hk

end NeoFS.NotaryBootstrap
