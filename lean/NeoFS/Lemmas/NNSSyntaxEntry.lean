import NeoFS.Lemmas.NNSSyntaxName
import NeoFS.Lemmas.NNSSyntaxIPv4
import NeoFS.Lemmas.NNSSyntaxIPv6c
/-! How the entry points use the validators: an invocation is accepted iff its name (and record data) is
well-formed *and* an explicit, syntax-free precondition on the state and the witnesses holds. -/
namespace NeoFS.NNSSyntax
open NeoFS NeoFS.NNSSyntax.Spec

/-- the `switch typ` of `checkRecord` lets exactly the well-formed data through -/
theorem dataOK_iff (typ : Nat) (data : Bytes) : dataOK typ data = true ↔ WellFormedData typ data := by
  unfold dataOK WellFormedData
  rw [typA_eq, typCNAME_eq, typTXT_eq, typAAAA_eq, maxTXTLength_eq]
  by_cases h1 : typ = 1
  · subst h1
    rw [if_pos rfl, decide_eq_true_eq, checkIPv4_true_iff]
    constructor
    · intro h; exact Or.inl ⟨rfl, h⟩
    · rintro (⟨_, h⟩ | ⟨h, _⟩ | ⟨h, _⟩ | ⟨h, _⟩)
      · exact h
      all_goals (exact absurd h (by decide))
  · rw [if_neg h1]
    by_cases h5 : typ = 5
    · subst h5
      rw [if_pos rfl, safeSplitAndCheck_isSome_iff]
      constructor
      · intro h; exact Or.inr (Or.inl ⟨rfl, h⟩)
      · rintro (⟨h, _⟩ | ⟨_, h⟩ | ⟨h, _⟩ | ⟨h, _⟩)
        · exact absurd h (by decide)
        · exact h
        all_goals (exact absurd h (by decide))
    · rw [if_neg h5]
      by_cases h16 : typ = 16
      · subst h16
        rw [if_pos rfl, decide_eq_true_eq]
        constructor
        · intro h; exact Or.inr (Or.inr (Or.inl ⟨rfl, h⟩))
        · rintro (⟨h, _⟩ | ⟨h, _⟩ | ⟨_, h⟩ | ⟨h, _⟩)
          · exact absurd h (by decide)
          · exact absurd h (by decide)
          · exact h
          · exact absurd h (by decide)
      · rw [if_neg h16]
        by_cases h28 : typ = 28
        · subst h28
          rw [if_pos rfl, decide_eq_true_eq, checkIPv6_true_iff]
          constructor
          · intro h; exact Or.inr (Or.inr (Or.inr ⟨rfl, h⟩))
          · rintro (⟨h, _⟩ | ⟨h, _⟩ | ⟨h, _⟩ | ⟨_, h⟩)
            · exact absurd h (by decide)
            · exact absurd h (by decide)
            · exact absurd h (by decide)
            · exact h
        · rw [if_neg h28]
          constructor
          · intro h; cases h
          · rintro (⟨h, _⟩ | ⟨h, _⟩ | ⟨h, _⟩ | ⟨h, _⟩)
            · exact absurd h h1
            · exact absurd h h5
            · exact absurd h h16
            · exact absurd h h28

theorem safeSplitAndCheck_none_iff (n : Bytes) : safeSplitAndCheck n = none ↔ ¬ ValidName n := by
  rw [← safeSplitAndCheck_isSome_iff]
  cases safeSplitAndCheck n <;> simp

theorem safeSplitAndCheck_valid {n : Bytes} (h : ValidName n) : safeSplitAndCheck n = some (split 46 n) := by
  cases hs : safeSplitAndCheck n with
  | none => exact absurd h ((safeSplitAndCheck_none_iff n).mp hs)
  | some frs => rw [(safeSplitAndCheck_eq_some n frs hs).1]

/-! ### what stands between a well-formed argument and acceptance (no scanner occurs below) -/

/-- `isAvailable`: the TLD exists or the name is a TLD itself (the last clause is the out-of-range slice
of a registered root whose name state is missing; unreachable while nothing expires) -/
def AvailPre (s : State) (n : Bytes) : Prop :=
  let frs := split 46 n
  if s.roots.contains (frs.getLastD []) = true then (parentMissing s frs 0 = true → frs.length ≠ 1)
  else frs.length = 1

/-- `registerTLD`: committee witness, a single label, not registered yet -/
def TLDPre (s : State) (env : Env) (n : Bytes) : Prop :=
  env.committee = true ∧ (split 46 n).length = 1 ∧
  ¬(s.roots.contains n = true ∧ parentMissing s (split 46 n) 0 = false)

/-- `register`: not a TLD, the TLD exists, all parents are registered, from the third level on the parent's
owner signs, no record of the parent claims the name, the owner-to-be signs -/
def RegisterPre (s : State) (env : Env) (n : Bytes) (o : Nat) : Prop :=
  let frs := split 46 n
  frs.length ≠ 1 ∧ s.roots.contains (frs.getLastD []) = true ∧ parentMissing s frs 1 = false ∧
  (2 < frs.length → checkAdmin s env (n.drop ((frs.headD []).length + 1)) = true) ∧
  conflict s n frs = false ∧ env.signers.contains o = true

/-- `checkRecord` after the syntax: the token is registered below a TLD with all its parents and its owner signs -/
def RecordPre (s : State) (env : Env) (n : Bytes) : Prop :=
  let token := tokenIDFromName s n (split 46 n)
  (split 46 token).length ≠ 1 ∧ nameStateOK s token (split 46 token) = true ∧ checkAdmin s env token = true

def oldRecs (s : State) (n : Bytes) (t : Nat) : List Bytes :=
  s.recsOf ⟨tokenIDFromName s n (split 46 n), n, t⟩

/-- `addRecord`: no duplicate, at most 16 records of a type, at most one CNAME -/
def AddSlot (s : State) (n : Bytes) (t : Nat) (d : Bytes) : Prop :=
  (oldRecs s n t).contains d = false ∧ (oldRecs s n t).length ≤ 15 ∧ ¬(t = 5 ∧ (oldRecs s n t).length ≠ 0)

/-- `setRecord`: the id exists and no other record holds the data -/
def SetSlot (s : State) (n : Bytes) (t id : Nat) (d : Bytes) : Prop :=
  id < (oldRecs s n t).length ∧ dupElsewhere (oldRecs s n t) id d = false

theorem isAvailable_isSome_iff (s : State) (n : Bytes) :
    (isAvailable s n).isSome = true ↔ ValidName n ∧ AvailPre s n := by
  unfold isAvailable
  by_cases hv : ValidName n
  · rw [safeSplitAndCheck_valid hv]
    unfold AvailPre
    dsimp only
    cases hr : s.roots.contains ((split 46 n).getLastD []) with
    | false =>
      simp only [Bool.not_false, if_true, Bool.false_eq_true, if_false, hv, true_and]
      by_cases h1 : (split 46 n).length = 1
      · simp [h1]
      · simp [h1]
    | true =>
      simp only [Bool.not_true, Bool.false_eq_true, if_false, if_true, hv, true_and]
      cases hp : parentMissing s (split 46 n) 0 with
      | false => simp
      | true =>
        simp only [Bool.not_true, Bool.false_eq_true, if_false]
        by_cases h1 : (split 46 n).length = 1
        · simp [h1]
        · simp [h1]
  · rw [(safeSplitAndCheck_none_iff n).mpr hv]
    simp [hv]

theorem registerTLD_isSome_iff (s : State) (env : Env) (n : Bytes) :
    (registerTLD s env n).isSome = true ↔ ValidName n ∧ TLDPre s env n := by
  unfold registerTLD TLDPre
  cases hc : env.committee with
  | false => simp
  | true =>
    simp only [Bool.not_true, Bool.false_eq_true, if_false, true_and]
    by_cases hv : ValidName n
    · rw [safeSplitAndCheck_valid hv]
      dsimp only
      by_cases h1 : (split 46 n).length = 1
      · simp only [h1, ne_eq, not_true_eq_false, if_false, hv, true_and]
        cases hr : s.roots.contains n <;> cases hp : parentMissing s (split 46 n) 0 <;> simp
      · simp [h1]
    · rw [(safeSplitAndCheck_none_iff n).mpr hv]
      simp [hv]

theorem register_isSome_iff (s : State) (env : Env) (n : Bytes) (o : Nat) :
    (register s env n o).isSome = true ↔ ValidName n ∧ RegisterPre s env n o := by
  unfold register RegisterPre
  by_cases hv : ValidName n
  · rw [safeSplitAndCheck_valid hv]
    dsimp only
    simp only [hv, true_and]
    by_cases h1 : (split 46 n).length = 1
    · simp [h1]
    · simp only [h1, if_false, ne_eq, not_false_eq_true, true_and]
      cases hr : s.roots.contains ((split 46 n).getLastD []) with
      | false => simp
      | true =>
        simp only [Bool.not_true, Bool.false_eq_true, if_false, true_and]
        cases hp : parentMissing s (split 46 n) 1 with
        | true => simp
        | false =>
          simp only [Bool.false_eq_true, if_false, true_and]
          by_cases h2 : 2 < (split 46 n).length
          · simp only [h2, decide_true, Bool.true_and, true_imp_iff]
            cases ha : checkAdmin s env (List.drop (((split 46 n).headD []).length + 1) n) with
            | false => simp
            | true =>
              simp only [Bool.not_true, Bool.false_eq_true, if_false, true_and]
              cases hcf : conflict s n (split 46 n) with
              | true => simp
              | false =>
                simp only [Bool.false_eq_true, if_false, true_and]
                cases hs : env.signers.contains o with
                | false => simp
                | true =>
                  simp only [Bool.not_true, Bool.false_eq_true, if_false]
                  cases s.registered n <;> simp
          · simp only [h2, decide_false, Bool.false_and, Bool.false_eq_true, if_false, false_imp_iff, true_and]
            cases hcf : conflict s n (split 46 n) with
            | true => simp
            | false =>
              simp only [Bool.false_eq_true, if_false, true_and]
              cases hs : env.signers.contains o with
              | false => simp
              | true =>
                simp only [Bool.not_true, Bool.false_eq_true, if_false]
                cases s.registered n <;> simp
  · rw [(safeSplitAndCheck_none_iff n).mpr hv]
    simp [hv]

theorem checkRecord_eq_some_iff (s : State) (env : Env) (n : Bytes) (t : Nat) (d : Bytes) (tok : Bytes) :
    checkRecord s env n t d = some tok ↔
      ValidName n ∧ WellFormedData t d ∧ RecordPre s env n ∧ tok = tokenIDFromName s n (split 46 n) := by
  unfold checkRecord RecordPre
  by_cases hv : ValidName n
  · rw [safeSplitAndCheck_valid hv]
    dsimp only
    simp only [hv, true_and]
    cases hd : dataOK t d with
    | false =>
      have : ¬ WellFormedData t d := fun h => by rw [(dataOK_iff t d).mpr h] at hd; cases hd
      simp [this]
    | true =>
      have hw : WellFormedData t d := (dataOK_iff t d).mp hd
      simp only [Bool.not_true, Bool.false_eq_true, if_false, hw, true_and]
      by_cases h1 : (split 46 (tokenIDFromName s n (split 46 n))).length = 1
      · simp [h1]
      · simp only [h1, if_false, ne_eq, not_false_eq_true, true_and]
        cases hns : nameStateOK s (tokenIDFromName s n (split 46 n)) (split 46 (tokenIDFromName s n (split 46 n))) with
        | false => simp
        | true =>
          simp only [Bool.not_true, Bool.false_eq_true, if_false, true_and]
          cases ha : checkAdmin s env (tokenIDFromName s n (split 46 n)) with
          | false => simp
          | true =>
            simp only [Bool.not_true, Bool.false_eq_true, if_false, Option.some.injEq, true_and]
            exact eq_comm
  · rw [(safeSplitAndCheck_none_iff n).mpr hv]
    simp [hv]

theorem addRecord_isSome_iff (s : State) (env : Env) (n : Bytes) (t : Nat) (d : Bytes) :
    (addRecord s env n t d).isSome = true ↔
      ValidName n ∧ WellFormedData t d ∧ RecordPre s env n ∧ AddSlot s n t d := by
  unfold addRecord AddSlot oldRecs
  cases hc : checkRecord s env n t d with
  | none =>
    simp only [Option.isSome_none, Bool.false_eq_true, false_iff]
    rintro ⟨h1, h2, h3, _⟩
    have := (checkRecord_eq_some_iff s env n t d _).mpr ⟨h1, h2, h3, rfl⟩
    rw [hc] at this; cases this
  | some tok =>
    obtain ⟨h1, h2, h3, rfl⟩ := (checkRecord_eq_some_iff s env n t d tok).mp hc
    dsimp only
    have hmax : maxRecordID = 15 := rfl
    simp only [h1, h2, h3, true_and, hmax]
    cases hcn : (s.recsOf ⟨tokenIDFromName s n (split 46 n), n, t⟩).contains d with
    | true => simp
    | false =>
      simp only [Bool.false_eq_true, if_false, true_and]
      by_cases hl : 15 < (s.recsOf ⟨tokenIDFromName s n (split 46 n), n, t⟩).length
      · simp only [hl, if_true, Option.isSome_none, Bool.false_eq_true, false_iff]
        rintro ⟨h, _⟩; omega
      · simp only [hl, if_false]
        by_cases h5 : t = typCNAME ∧ (s.recsOf ⟨tokenIDFromName s n (split 46 n), n, t⟩).length ≠ 0
        · rw [if_pos h5]
          simp only [Option.isSome_none, Bool.false_eq_true, false_iff]
          rintro ⟨_, h⟩; exact h h5
        · rw [if_neg h5]
          simp only [Option.isSome_some, true_iff]
          exact ⟨by omega, h5⟩

theorem setRecord_isSome_iff (s : State) (env : Env) (n : Bytes) (t id : Nat) (d : Bytes) :
    (setRecord s env n t id d).isSome = true ↔
      ValidName n ∧ WellFormedData t d ∧ RecordPre s env n ∧ SetSlot s n t id d := by
  unfold setRecord SetSlot oldRecs
  cases hc : checkRecord s env n t d with
  | none =>
    simp only [Option.isSome_none, Bool.false_eq_true, false_iff]
    rintro ⟨h1, h2, h3, _⟩
    have := (checkRecord_eq_some_iff s env n t d _).mpr ⟨h1, h2, h3, rfl⟩
    rw [hc] at this; cases this
  | some tok =>
    obtain ⟨h1, h2, h3, rfl⟩ := (checkRecord_eq_some_iff s env n t d tok).mp hc
    dsimp only
    simp only [h1, h2, h3, true_and]
    by_cases hl : (s.recsOf ⟨tokenIDFromName s n (split 46 n), n, t⟩).length ≤ id
    · simp only [hl, if_true, Option.isSome_none, Bool.false_eq_true, false_iff]
      rintro ⟨h, _⟩; omega
    · simp only [hl, if_false]
      cases hdup : dupElsewhere (s.recsOf ⟨tokenIDFromName s n (split 46 n), n, t⟩) id d with
      | true => simp
      | false => simp; omega

theorem getRecords_isSome_valid (s : State) (n : Bytes) (t : Nat) (h : (getRecords s n t).isSome = true) :
    ValidName n := by
  unfold getRecords at h
  dsimp only at h
  by_cases hv : ValidName n
  · exact hv
  · rw [(safeSplitAndCheck_none_iff n).mpr hv] at h
    split at h <;> simp at h

/-! ### operations with well-formed arguments -/

def opName : Op → Bytes
  | .avail n => n
  | .tld n => n
  | .reg n _ => n
  | .add n _ _ => n
  | .set n _ _ _ => n
  | .get n _ => n

/-- the arguments of an invocation that C18 speaks about are well-formed: the name, and for
`addRecord`/`setRecord` the data for the given type -/
def WellFormedOp : Op → Prop
  | .add n t d => ValidName n ∧ WellFormedData t d
  | .set n t _ d => ValidName n ∧ WellFormedData t d
  | .avail n => ValidName n
  | .tld n => ValidName n
  | .reg n _ => ValidName n
  | .get n _ => ValidName n

theorem isSome_map {α β : Type} (o : Option α) (f : α → β) : (o.map f).isSome = o.isSome := by
  cases o <;> rfl

theorem step_isSome_wellFormed (s : State) (env : Env) (op : Op) (h : (step s env op).isSome = true) :
    WellFormedOp op := by
  cases op with
  | avail n => simp only [step, isSome_map] at h; exact ((isAvailable_isSome_iff s n).mp h).1
  | tld n => simp only [step, isSome_map] at h; exact ((registerTLD_isSome_iff s env n).mp h).1
  | reg n o => simp only [step, isSome_map] at h; exact ((register_isSome_iff s env n o).mp h).1
  | add n t d =>
    simp only [step, isSome_map] at h
    have := (addRecord_isSome_iff s env n t d).mp h
    exact ⟨this.1, this.2.1⟩
  | set n t i d =>
    simp only [step, isSome_map] at h
    have := (setRecord_isSome_iff s env n t i d).mp h
    exact ⟨this.1, this.2.1⟩
  | get n t => simp only [step, isSome_map] at h; exact getRecords_isSome_valid s n t h

theorem invoke_of_step_none (s : State) (env : Env) (op : Op) (h : step s env op = none) :
    invoke s env op = (s, none) := by
  simp only [invoke, h]

theorem invoke_fault_state (s : State) (env : Env) (op : Op) (h : (invoke s env op).2 = none) :
    (invoke s env op).1 = s := by
  unfold invoke at h ⊢
  cases hs : step s env op with
  | none => rfl
  | some r => rw [hs] at h; cases h

end NeoFS.NNSSyntax
