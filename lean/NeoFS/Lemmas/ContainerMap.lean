import NeoFS.Model.Container
set_option linter.unusedSimpArgs false
set_option linter.unusedVariables false
/-! Lemmas on the association lists / id sets of the Container model and on the byte-level glue. -/
namespace NeoFS.Container
open NeoFS

namespace AL
variable {κ : Type} {ν : Type} [DecidableEq κ]

@[simp] theorem get_nil (k : κ) : get ([] : List (κ × ν)) k = none := rfl

theorem get_cons (k' : κ) (v : ν) (r : List (κ × ν)) (k : κ) :
    get ((k', v) :: r) k = if k' = k then some v else get r k := rfl

theorem get_del_self (m : List (κ × ν)) (k : κ) : get (del m k) k = none := by
  induction m with
  | nil => rfl
  | cons x xs ih =>
    obtain ⟨kx, vx⟩ := x
    by_cases e : kx = k
    · have : del ((kx, vx) :: xs) k = del xs k := by simp [del, List.filter_cons, e]
      rw [this]; exact ih
    · have : del ((kx, vx) :: xs) k = (kx, vx) :: del xs k := by simp [del, List.filter_cons, e]
      rw [this, get_cons, if_neg e]; exact ih

theorem get_del_ne (m : List (κ × ν)) (k k' : κ) (h : k' ≠ k) : get (del m k) k' = get m k' := by
  induction m with
  | nil => rfl
  | cons x xs ih =>
    obtain ⟨kx, vx⟩ := x
    by_cases e : kx = k
    · have : del ((kx, vx) :: xs) k = del xs k := by simp [del, List.filter_cons, e]
      have hne : ¬ kx = k' := by intro e2; exact h (e2 ▸ e)
      rw [this, get_cons, if_neg hne]; exact ih
    · have : del ((kx, vx) :: xs) k = (kx, vx) :: del xs k := by simp [del, List.filter_cons, e]
      rw [this, get_cons, get_cons, ih]

theorem get_put_self (m : List (κ × ν)) (k : κ) (v : ν) : get (put m k v) k = some v := by
  simp [put, get_cons]

theorem get_put_ne (m : List (κ × ν)) (k k' : κ) (v : ν) (h : k' ≠ k) : get (put m k v) k' = get m k' := by
  have : ¬ k = k' := fun e => h e.symm
  simp only [put, get_cons, if_neg this]; exact get_del_ne m k k' h

theorem get_put (m : List (κ × ν)) (k k' : κ) (v : ν) :
    get (put m k v) k' = if k' = k then some v else get m k' := by
  by_cases e : k' = k
  · subst e; simp [get_put_self]
  · simp [e, get_put_ne m k k' v e]

theorem get_del (m : List (κ × ν)) (k k' : κ) :
    get (del m k) k' = if k' = k then none else get m k' := by
  by_cases e : k' = k
  · subst e; simp [get_del_self]
  · simp [e, get_del_ne m k k' e]

theorem mem_keys_iff (m : List (κ × ν)) (k : κ) : k ∈ keys m ↔ ∃ v, get m k = some v := by
  induction m with
  | nil => simp [keys]
  | cons x xs ih =>
    obtain ⟨kx, vx⟩ := x
    simp only [keys, List.map_cons, List.mem_cons, get_cons]
    by_cases e : kx = k
    · subst e; simp
    · have e' : ¬ k = kx := fun h => e h.symm
      simp only [e, e', if_false, false_or]; exact ih

theorem not_mem_keys_iff (m : List (κ × ν)) (k : κ) : k ∉ keys m ↔ get m k = none := by
  rw [mem_keys_iff]
  cases h : get m k with
  | none => simp
  | some v => simp

theorem mem_of_get (m : List (κ × ν)) (k : κ) (v : ν) (h : get m k = some v) : (k, v) ∈ m := by
  induction m with
  | nil => simp at h
  | cons x xs ih =>
    obtain ⟨kx, vx⟩ := x
    rw [get_cons] at h
    by_cases e : kx = k
    · subst e; simp only [if_true, Option.some.injEq] at h; subst h; exact List.mem_cons_self
    · simp only [e, if_false] at h; exact List.mem_cons_of_mem _ (ih h)

theorem get_of_mem (m : List (κ × ν)) (k : κ) (v : ν) (nd : (keys m).Nodup) (h : (k, v) ∈ m) : get m k = some v := by
  induction m with
  | nil => cases h
  | cons x xs ih =>
    obtain ⟨kx, vx⟩ := x
    simp only [keys, List.map_cons, List.nodup_cons] at nd
    rw [get_cons]
    rcases List.mem_cons.mp h with e | e
    · cases e; simp
    · have : kx ≠ k := by
        intro e2; subst e2
        exact nd.1 (List.mem_map_of_mem (f := (·.1)) e)
      simp only [this, if_false]; exact ih nd.2 e

theorem keys_del_sublist (m : List (κ × ν)) (k : κ) : (keys (del m k)).Sublist (keys m) := by
  unfold keys del; exact List.Sublist.map _ List.filter_sublist

theorem nodup_del (m : List (κ × ν)) (k : κ) (h : (keys m).Nodup) : (keys (del m k)).Nodup :=
  List.Nodup.sublist (keys_del_sublist m k) h

theorem not_mem_keys_del (m : List (κ × ν)) (k : κ) : k ∉ keys (del m k) := by
  rw [not_mem_keys_iff]; exact get_del_self m k

theorem nodup_put (m : List (κ × ν)) (k : κ) (v : ν) (h : (keys m).Nodup) : (keys (put m k v)).Nodup := by
  simp only [put, keys, List.map_cons, List.nodup_cons]
  exact ⟨not_mem_keys_del m k, nodup_del m k h⟩

end AL

/-! ### id sets -/

theorem mem_sadd (s : List Bytes) (c x : Bytes) : x ∈ sadd s c ↔ x = c ∨ x ∈ s := by
  unfold sadd; split
  · constructor
    · exact Or.inr
    · rintro (h | h)
      · subst h; assumption
      · exact h
  · simp

theorem mem_sdel (s : List Bytes) (c x : Bytes) : x ∈ sdel s c ↔ x ∈ s ∧ x ≠ c := by
  unfold sdel; simp [List.mem_filter]

theorem nodup_sadd (s : List Bytes) (c : Bytes) (h : s.Nodup) : (sadd s c).Nodup := by
  unfold sadd; split
  · exact h
  · rename_i hn; exact List.nodup_cons.mpr ⟨hn, h⟩

theorem nodup_sdel (s : List Bytes) (c : Bytes) (h : s.Nodup) : (sdel s c).Nodup :=
  List.Nodup.sublist List.filter_sublist h

/-! ### glue -/

theorem ownerOf_length (blob ow : Bytes) (h : ownerOf blob = some ow) : ow.length = 25 := by
  unfold ownerOf at h
  split at h
  · cases h
  · dsimp only at h
    split at h
    · cases h; simp [List.length_take, List.length_drop]; omega
    · cases h

theorem ownerOf_blob_nonempty (blob ow : Bytes) (h : ownerOf blob = some ow) : blob.length ≠ 0 := by
  intro h0
  have : blob = [] := List.eq_nil_of_length_eq_zero h0
  subst this; simp [ownerOf] at h

theorem walletToScriptHash_length (ow : Bytes) (h : ow.length = 25) : (walletToScriptHash ow).length = 20 := by
  simp [walletToScriptHash, List.length_take, List.length_drop, h]

theorem eaclCID_length (t cid : Bytes) (h : eaclCID t = some cid) : cid.length = 32 := by
  unfold eaclCID at h
  split at h
  · cases h
  · dsimp only at h
    split at h
    · rename_i hle
      cases h
      have : Generated.container_containerIDSize.toNat = 32 := by decide
      rw [this] at hle ⊢
      simp [List.length_take, List.length_drop]; omega
    · cases h

/-- two byte strings of equal length, one a prefix of the other followed by something: they are equal -/
theorem prefix_eq_of_length (a b c : Bytes) (hl : a.length = b.length) (h : a.isPrefixOf (b ++ c) = true) : a = b := by
  rw [List.isPrefixOf_iff_prefix] at h
  obtain ⟨t, ht⟩ := h
  exact (List.append_inj ht hl).1

end NeoFS.Container
