import NeoFS.Model.NetmapRing
/-! # C08: the abstract specification, in the property's own vocabulary.

A history of published network maps (newest first), the snapshot count `N`, the current epoch, and
`valid`: how many of the most recent maps the contract still has to answer with. A tick publishes one
map (`valid := min (valid+1) N`); changing the count to `K` "preserves the most recent min(old,new) maps
and never resurrects older ones" (`valid := min valid K`). Written without looking at the ring. -/
namespace NeoFS.NetmapRing

/-- one published network map in its two representations: the legacy `[]Node` list (`snapshot*`,
`netmap`) and the structured per-epoch node list (`listNodes`) -/
structure Pub where
  legacy : NMap
  nodes : NMap
  deriving Repr, DecidableEq

structure Spec where
  n : Nat              -- snapshot count N
  cur : Nat            -- current epoch
  hist : List Pub      -- maps published by the ticks, newest first
  valid : Nat          -- number of most recent maps still retained
  deriving Repr, DecidableEq

namespace Spec

def init : Spec := ⟨10, 0, [], 0⟩

def tick (p : Spec) (m : Pub) : Spec := ⟨p.n, p.cur + 1, m :: p.hist, min (p.valid + 1) p.n⟩

def resize (p : Spec) (k : Nat) : Spec := ⟨k, p.cur, p.hist, min p.valid k⟩

/-- the map published `d` ticks ago -/
def ago (p : Spec) (d : Nat) : Pub := p.hist.getD d ⟨[], []⟩

/-- `snapshot(d)`: the map published `d` ticks ago for the retained ones, empty up to `N`, an error beyond -/
def snapshot (p : Spec) (d : Int) : Option NMap :=
  if d < 0 ∨ (p.n : Int) ≤ d then none
  else if d.toNat < p.valid then some (p.ago d.toNat).legacy
  else some []

/-- `snapshotByEpoch(e)` -/
def snapshotByEpoch (p : Spec) (e : Int) : Option NMap := p.snapshot ((p.cur : Int) - e)

/-- `listNodes(e)`: the node list published at epoch `e` for the retained epochs, nothing otherwise -/
def listNodes (p : Spec) (e : Nat) : NMap :=
  if p.cur < e + p.valid ∧ e ≤ p.cur then (p.ago (p.cur - e)).nodes else []

/-- `netmap()`: the current map -/
def netmap (p : Spec) : NMap := if 0 < p.valid then (p.ago 0).legacy else []

end Spec

/-- what a tick publishes in state `s`: the candidates in storage-key order, in both representations -/
def published (s : State) : Pub := ⟨s.c1, union [] s.c2⟩

/-- the ring slot that holds the map published `d` ticks ago -/
def slotOf (id n d : Nat) : Nat := if d ≤ id then id - d else id + n - d

/-- **The invariant**: the contract state agrees with the specification. -/
structure RingInv (s : State) (p : Spec) : Prop where
  count_eq : s.count = p.n
  cur_eq : s.cur = p.cur
  n_pos : 1 ≤ p.n
  n_le : p.n ≤ 256
  id_lt : s.id < p.n
  valid_le_n : p.valid ≤ p.n
  valid_le_cur : p.valid ≤ p.cur
  hist_len : p.hist.length = p.cur
  cur_lt : p.cur < 2 ^ 32
  /-- retained maps sit in their slots -/
  ring_in : ∀ d, d < p.valid → rget s.ring (slotOf s.id p.n d) = some (p.ago d).legacy
  /-- the other slots of the ring read as empty (absent key or empty list) -/
  ring_out : ∀ d, p.valid ≤ d → d < p.n → (rget s.ring (slotOf s.id p.n d)).getD [] = []
  /-- nothing is stored beyond the ring (nothing a later grow could resurrect) -/
  ring_beyond : ∀ j, p.n ≤ j → rget s.ring j = none
  /-- the node lists of the retained epochs are stored exactly -/
  pl_in : ∀ e : Nat, p.cur < e + p.valid → e ≤ p.cur → pget s.pl (be4 (e : Int)) = (p.ago (p.cur - e)).nodes
  /-- no other node list is stored, under any 4-byte key -/
  pl_out : ∀ k4 : Bytes, (∀ e : Nat, p.cur < e + p.valid → e ≤ p.cur → be4 (e : Int) ≠ k4) → pget s.pl k4 = []

end NeoFS.NetmapRing
