import NeoFS.Model.Threshold
/-
Soundness of the threshold-expression decision procedure (`TExpr.computes`): if it answers `true` then the source
expression evaluates, under Go semantics (truncating division, fault on zero divisor), to the value of the specification
expression for EVERY number of keys ≥ 1 — no bound on the committee size.
-/
namespace NeoFS.TExpr

theorem multi {f : Int → Int} {P : Nat} {D : Int} (h : ∀ n, f (n + P) = f n + D) (k : Nat) (n : Int) :
    f (n + k * P) = f n + k * D := by
  induction k with
  | zero => simp
  | succ k ih =>
    have e1 : n + ((k + 1 : Nat) : Int) * (P : Int) = (n + (k : Int) * P) + P := by
      rw [Int.natCast_succ, Int.add_mul, Int.one_mul, Int.add_assoc]
    have e2 : f n + ((k + 1 : Nat) : Int) * D = (f n + (k : Int) * D) + D := by
      rw [Int.natCast_succ, Int.add_mul, Int.one_mul, Int.add_assoc]
    rw [e1, h, ih, e2]

/-- decomposition of an argument ≥ 1 into its place in the first period and a number of whole periods -/
theorem decompose {f : Int → Int} {P : Nat} {D : Int} (_hP : 0 < P) (h : ∀ n, f (n + P) = f n + D) (n : Nat) (hn : 1 ≤ n) :
    f n = f ((((n - 1) % P : Nat) : Int) + 1) + (((n - 1) / P : Nat) : Int) * D := by
  have hq := Nat.div_add_mod (n - 1) P
  have e : (n : Int) = ((((n - 1) % P : Nat) : Int) + 1) + (((n - 1) / P : Nat) : Int) * (P : Int) := by
    have : n = (n - 1) % P + 1 + ((n - 1) / P) * P := by
      rw [Nat.mul_comm] ; omega
    calc (n : Int) = (((n - 1) % P + 1 + ((n - 1) / P) * P : Nat) : Int) := by rw [← this]
      _ = _ := by simp [Int.natCast_add, Int.natCast_mul]
  calc f n = f (((((n - 1) % P : Nat) : Int) + 1) + (((n - 1) / P : Nat) : Int) * (P : Int)) := by rw [← e]
    _ = _ := multi h _ _

theorem eq_of_periodic {f g : Int → Int} {P : Nat} {D : Int} (hP : 0 < P)
    (hf : ∀ n, f (n + P) = f n + D) (hg : ∀ n, g (n + P) = g n + D)
    (h0 : ∀ i : Nat, i < P → f ((i : Int) + 1) = g ((i : Int) + 1)) (n : Nat) (hn : 1 ≤ n) : f n = g n := by
  rw [decompose hP hf n hn, decompose hP hg n hn, h0 _ (Nat.mod_lt _ hP)]

theorem nonneg_of_periodic {f : Int → Int} {P : Nat} {D : Int} (hP : 0 < P)
    (hf : ∀ n, f (n + P) = f n + D) (hD : 0 ≤ D)
    (h0 : ∀ i : Nat, i < P → 0 ≤ f ((i : Int) + 1)) (n : Nat) (hn : 1 ≤ n) : 0 ≤ f n := by
  rw [decompose hP hf n hn]
  exact Int.add_nonneg (h0 _ (Nat.mod_lt _ hP)) (Int.mul_nonneg (Int.natCast_nonneg _) hD)

theorem asLit_eq {e : TExpr} {k : Nat} (h : asLit e = some k) : e = lit k := by
  cases e <;> simp [asLit] at h
  subst h; rfl

theorem shape_pos (e : TExpr) : ∀ {P : Nat} {D : Int}, shape e = some (P, D) → 0 < P := by
  induction e with
  | var => intro P D h; simp [shape] at h; omega
  | lit k => intro P D h; simp [shape] at h; omega
  | add a b iha ihb =>
    intro P D h
    simp only [shape] at h
    split at h
    · rename_i pa da pb db ha hb
      simp at h; obtain ⟨rfl, _⟩ := h
      exact Nat.mul_pos (iha ha) (ihb hb)
    · simp at h
  | sub a b iha ihb =>
    intro P D h
    simp only [shape] at h
    split at h
    · rename_i pa da pb db ha hb
      simp at h; obtain ⟨rfl, _⟩ := h
      exact Nat.mul_pos (iha ha) (ihb hb)
    · simp at h
  | mul a b iha ihb =>
    intro P D h
    simp only [shape] at h
    split at h
    · cases hb : shape b with
      | none => simp [hb] at h
      | some v => obtain ⟨pb, db⟩ := v; simp [hb] at h; obtain ⟨rfl, _⟩ := h; exact ihb hb
    · cases ha : shape a with
      | none => simp [ha] at h
      | some v => obtain ⟨pa, da⟩ := v; simp [ha] at h; obtain ⟨rfl, _⟩ := h; exact iha ha
    · simp at h
  | div a b iha _ =>
    intro P D h
    simp only [shape] at h
    split at h
    · rename_i d hd
      split at h
      · simp at h
      · rename_i hne
        cases ha : shape a with
        | none => simp [ha] at h
        | some v =>
          obtain ⟨pa, da⟩ := v; simp [ha] at h; obtain ⟨rfl, _⟩ := h
          exact Nat.mul_pos (iha ha) (Nat.pos_of_ne_zero hne)
    · simp at h

theorem periodic (e : TExpr) : ∀ {P : Nat} {D : Int}, shape e = some (P, D) → ∀ n : Int, eval e (n + P) = eval e n + D := by
  induction e with
  | var => intro P D h n; simp [shape] at h; obtain ⟨rfl, rfl⟩ := h; simp [eval]
  | lit k => intro P D h n; simp [shape] at h; obtain ⟨rfl, rfl⟩ := h; simp [eval]
  | add a b iha ihb =>
    intro P D h n
    simp only [shape] at h
    split at h
    · rename_i pa da pb db ha hb
      simp at h; obtain ⟨rfl, rfl⟩ := h
      have h1 := multi (iha ha) pb n
      have h2 := multi (ihb hb) pa n
      have c1 : ((pa * pb : Nat) : Int) = (pb : Int) * (pa : Int) := by rw [Int.natCast_mul, Int.mul_comm]
      have c2 : ((pa * pb : Nat) : Int) = (pa : Int) * (pb : Int) := by rw [Int.natCast_mul]
      simp only [eval]
      rw [show eval a (n + ((pa * pb : Nat) : Int)) = eval a n + pb * da from by rw [c1]; exact h1,
          show eval b (n + ((pa * pb : Nat) : Int)) = eval b n + pa * db from by rw [c2]; exact h2]
      rw [Int.mul_comm (pb : Int) da, Int.mul_comm (pa : Int) db]
      omega
    · simp at h
  | sub a b iha ihb =>
    intro P D h n
    simp only [shape] at h
    split at h
    · rename_i pa da pb db ha hb
      simp at h; obtain ⟨rfl, rfl⟩ := h
      have h1 := multi (iha ha) pb n
      have h2 := multi (ihb hb) pa n
      have c1 : ((pa * pb : Nat) : Int) = (pb : Int) * (pa : Int) := by rw [Int.natCast_mul, Int.mul_comm]
      have c2 : ((pa * pb : Nat) : Int) = (pa : Int) * (pb : Int) := by rw [Int.natCast_mul]
      simp only [eval]
      rw [show eval a (n + ((pa * pb : Nat) : Int)) = eval a n + pb * da from by rw [c1]; exact h1,
          show eval b (n + ((pa * pb : Nat) : Int)) = eval b n + pa * db from by rw [c2]; exact h2]
      rw [Int.mul_comm (pb : Int) da, Int.mul_comm (pa : Int) db]
      omega
    · simp at h
  | mul a b iha ihb =>
    intro P D h n
    simp only [shape] at h
    split at h
    · rename_i k _ hk
      have := asLit_eq hk; subst this
      cases hb : shape b with
      | none => simp [hb] at h
      | some v =>
        obtain ⟨pb, db⟩ := v; simp [hb] at h; obtain ⟨rfl, rfl⟩ := h
        simp only [eval]; rw [ihb hb, Int.mul_add]
    · rename_i k _ hk
      have := asLit_eq hk; subst this
      cases ha : shape a with
      | none => simp [ha] at h
      | some v =>
        obtain ⟨pa, da⟩ := v; simp [ha] at h; obtain ⟨rfl, rfl⟩ := h
        simp only [eval]; rw [iha ha, Int.add_mul]
    · simp at h
  | div a b iha _ =>
    intro P D h n
    simp only [shape] at h
    split at h
    · rename_i d hd
      have := asLit_eq hd; subst this
      split at h
      · simp at h
      · rename_i hne
        cases ha : shape a with
        | none => simp [ha] at h
        | some v =>
          obtain ⟨pa, da⟩ := v; simp [ha] at h; obtain ⟨rfl, rfl⟩ := h
          have h1 := multi (iha ha) d n
          have c1 : ((pa * d : Nat) : Int) = (d : Int) * (pa : Int) := by rw [Int.natCast_mul, Int.mul_comm]
          simp only [eval]
          rw [c1, h1, Int.mul_comm (d : Int) da]
          exact Int.add_mul_ediv_right _ _ (by omega)
    · simp at h

theorem all_range {P : Nat} {p : Nat → Bool} (h : (List.range P).all p = true) : ∀ i, i < P → p i = true := by
  intro i hi
  rw [List.all_eq_true] at h
  exact h i (List.mem_range.mpr hi)

/-- `agree` is sound for every argument ≥ 1 -/
theorem agree_sound {e s : TExpr} (h : agree e s = true) (n : Nat) (hn : 1 ≤ n) : eval e n = eval s n := by
  unfold agree at h
  split at h
  · rename_i pe de ps ds he hs
    simp only [Bool.and_eq_true, decide_eq_true_eq] at h
    obtain ⟨hD, hall⟩ := h
    have hpe := shape_pos e he
    have hps := shape_pos s hs
    have pf : ∀ m : Int, eval e (m + ((pe * ps : Nat) : Int)) = eval e m + de * ps := by
      intro m
      have := multi (periodic e he) ps m
      rw [Int.natCast_mul, Int.mul_comm (pe : Int), this, Int.mul_comm]
    have pg : ∀ m : Int, eval s (m + ((pe * ps : Nat) : Int)) = eval s m + de * ps := by
      intro m
      have := multi (periodic s hs) pe m
      rw [Int.natCast_mul, this, hD, Int.mul_comm]
    refine eq_of_periodic (Nat.mul_pos hpe hps) pf pg ?_ n hn
    intro i hi
    have := all_range hall i hi
    simpa using this
  · simp at h

theorem firstPeriod_all {f : Int → Int} {P : Nat} (h : (firstPeriod f P).all (fun v => decide (0 ≤ v)) = true) :
    ∀ i : Nat, i < P → 0 ≤ f ((i : Int) + 1) := by
  intro i hi
  unfold firstPeriod at h
  rw [List.all_map] at h
  have := all_range h i hi
  simpa using this

/-- on `safe` expressions Go's semantics never faults and equals the floor-division semantics, for every argument ≥ 1 -/
theorem safe_sound (e : TExpr) (h : safe e = true) (n : Nat) (hn : 1 ≤ n) : evalGo e n = some (eval e n) := by
  induction e with
  | var => simp [evalGo, eval]
  | lit k => simp [evalGo, eval]
  | add a b iha ihb =>
    simp only [safe, Bool.and_eq_true] at h
    simp [evalGo, eval, iha h.1, ihb h.2]
  | sub a b iha ihb =>
    simp only [safe, Bool.and_eq_true] at h
    simp [evalGo, eval, iha h.1, ihb h.2]
  | mul a b iha ihb =>
    simp only [safe, Bool.and_eq_true] at h
    simp [evalGo, eval, iha h.1, ihb h.2]
  | div a b iha _ =>
    simp only [safe, Bool.and_eq_true] at h
    obtain ⟨hsa, hrest⟩ := h
    split at hrest
    · rename_i d pa da hd ha
      have := asLit_eq hd; subst this
      simp only [Bool.and_eq_true, decide_eq_true_eq] at hrest
      obtain ⟨⟨hd0, hda⟩, hall⟩ := hrest
      have hnn : 0 ≤ eval a n :=
        nonneg_of_periodic (shape_pos a ha) (periodic a ha) hda (firstPeriod_all hall) n hn
      have hdne : ¬ d = 0 := by omega
      simp [evalGo, eval, iha hsa, hdne, Int.tdiv_eq_ediv_of_nonneg hnn]
    · simp at hrest

/-- **Soundness of the decision procedure.** -/
theorem computes_sound {e s : TExpr} (h : computes e s = true) (n : Nat) (hn : 1 ≤ n) :
    evalGo e n = some (eval s n) := by
  simp only [computes, Bool.and_eq_true] at h
  rw [safe_sound e h.1 n hn, agree_sound h.2 n hn]

theorem eval_specAlphabet (n : Nat) : eval specAlphabet n = ((n * 2 / 3 + 1 : Nat) : Int) := by
  simp only [specAlphabet, eval]; omega

theorem eval_specMajority (n : Nat) : eval specMajority n = ((n / 2 + 1 : Nat) : Int) := by
  simp only [specMajority, eval]; omega

end NeoFS.TExpr
