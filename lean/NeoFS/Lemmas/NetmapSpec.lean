import NeoFS.Model.Netmap
/-! Abstract specifications for C06 and C07, written in the properties' own vocabulary and with the
properties' own literals (33-byte keys cut from bytes 2..35 of the node info, states Online = 1,
Offline = 2, Maintenance = 3, 20-byte contract hashes). Only the *types* of requests and values are shared
with the model (`Op`, `Node`, `Node2`); nothing here looks at how the contract stores anything. -/
namespace NeoFS.Netmap.Spec
open NeoFS NeoFS.Netmap

/-! ### C07: the candidate table -/

/-- what is known about one public key: its legacy candidate record and its structured one -/
structure Entry where
  legacy : Option Node
  structured : Option Node2

abbrev Cand := Key → Entry

def Cand.empty : Cand := fun _ => ⟨none, none⟩
def Cand.set (c : Cand) (k : Key) (e : Entry) : Cand := fun k' => if k' = k then e else c k'

/-- the public key sewn into a node info: bytes 2..35; shorter blobs are malformed -/
def slice (blob : Bytes) : Option Key := if blob.length < 35 then none else some ((blob.drop 2).take 33)

/-- only the state changes, in every representation that holds the candidate -/
def withState (st : Int) (e : Entry) : Entry :=
  ⟨e.legacy.map (fun n => { n with state := st }), e.structured.map (fun n => { n with state := st })⟩

def known (e : Entry) : Bool := e.legacy.isSome || e.structured.isSome

/-- state change of candidate `k`: Offline (2) removes it from both lists (also when unknown), Online (1) /
Maintenance (3) need an existing candidate, any other state value and any malformed key fail -/
def change (c : Cand) (st : Int) (k : Key) : Option Cand :=
  if k.length ≠ 33 then none
  else if st = 2 then some (c.set k ⟨none, none⟩)
  else if st = 1 ∨ st = 3 then (if known (c k) then some (c.set k (withState st (c k))) else none)
  else none

/-- one request; `alphabet`: the Alphabet vouches; `node k`: the node with key `k` vouches.
`none` = the request fails (and has no effect). Ticks and subscriptions never touch the table. -/
def candStep (c : Cand) (alphabet : Bool) (node : Key → Bool) : Op → Option Cand
  | .addPeer blob =>
    match slice blob with
    | none => none
    | some k => if node k && alphabet then some (c.set k ⟨some ⟨blob, 1⟩, (c k).structured⟩) else none
  | .addPeerIR blob =>
    match slice blob with
    | none => none
    | some k => if alphabet then some (c.set k ⟨some ⟨blob, 1⟩, (c k).structured⟩) else none
  | .addNode n =>
    if n.state = 1 ∧ n.key.length = 33 ∧ node n.key = true ∧ alphabet = true
    then some (c.set n.key ⟨(c n.key).legacy, some n⟩) else none
  | .updateState st k => if node k && alphabet then change c st k else none
  | .updateStateIR st k => if alphabet then change c st k else none
  | .deleteNode k => if alphabet then change c 2 k else none
  | .newEpoch _ => some c
  | .subscribe _ => some c
  | .updateSnapshotCount _ => some c

/-- is the operation one of the six candidate requests -/
def isCandOp : Op → Bool
  | .newEpoch _ => false
  | .subscribe _ => false
  | .updateSnapshotCount _ => false
  | _ => true

/-- the table after a history of requests: failed requests have no effect -/
def candRun (c : Cand) : List (Env × Op) → Cand
  | [] => c
  | (env, op) :: rest => candRun ((candStep c env.alphabet (fun k => env.witnesses.contains k) op).getD c) rest

/-- every record sits under the key it carries and is Online or under Maintenance -/
def CandWF (c : Cand) : Prop :=
  (∀ k n, (c k).legacy = some n → slice n.blob = some k ∧ (n.state = 1 ∨ n.state = 3)) ∧
  (∀ k n, (c k).structured = some n → n.key = k ∧ k.length = 33 ∧ (n.state = 1 ∨ n.state = 3))

/-! ### C06: the subscriber list -/

/-- a subscription request is acceptable: Alphabet witness, a 20-byte hash of a contract with `newEpoch/1` -/
def subOk (env : Env) (h : Hash) : Bool := env.alphabet && h.length == 20 && env.hasNewEpoch h

/-- subscription order: a new subscriber goes to the end, subscribing twice has no additional effect;
the contract holds at most 256 subscribers (one index byte) -/
def subStep (l : List Hash) (env : Env) : Op → List Hash
  | .subscribe h => if subOk env h && !l.contains h && decide (l.length < 256) then l ++ [h] else l
  | _ => l

def subRun (l : List Hash) : List (Env × Op) → List Hash
  | [] => l
  | (env, op) :: rest => subRun (subStep l env op) rest

/-- the epoch counter after a history: a tick counts iff the Alphabet signs it, it exceeds the current epoch
and no subscriber rejects it -/
def epochStep (cur : Int) (subs : List Hash) (env : Env) : Op → Int
  | .newEpoch e => if env.alphabet && decide (cur < e) && subs.all (fun h => env.accepts h e) then e else cur
  | _ => cur

/-- epoch counter and subscriber list along a history -/
def tickRun (st : Int × List Hash) : List (Env × Op) → Int × List Hash
  | [] => st
  | (env, op) :: rest => tickRun (epochStep st.1 st.2 env op, subStep st.2 env op) rest

end NeoFS.Netmap.Spec
