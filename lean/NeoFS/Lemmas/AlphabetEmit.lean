import NeoFS.Model.AlphabetEmit
import NeoFS.Lemmas.NeoFSGas
set_option linter.unusedSimpArgs false
set_option linter.unusedVariables false
/-! Helper lemmas for the Alphabet `emit` model (C19): the split arithmetic, the transfers, conservation.
Property theorems live in `NeoFS/Props/C19.lean`. -/
namespace NeoFS.Alphabet
open NeoFS NeoFS.Main

theorem vmDiv_eq {a : Int} (b : Int) (ha : 0 ≤ a) : vmDiv a b = a / b := Int.tdiv_eq_ediv_of_nonneg ha

/-- sum of the balances of a list of accounts -/
def total (L : List Hash) (g : Ledger) : Int := (L.map g).sum

theorem total_add (L : List Hash) (g : Ledger) (a : Hash) (x : Int) (hn : L.Nodup) :
    total L (g.add a x) = total L g + (if a ∈ L then x else 0) := by
  induction L with
  | nil => simp [total]
  | cons b r ih =>
    have hnr := (List.nodup_cons.mp hn).2
    have hb := (List.nodup_cons.mp hn).1
    have ih' := ih hnr
    unfold total at ih' ⊢
    simp only [List.map_cons, List.sum_cons, ih', Ledger.add_apply, List.mem_cons]
    by_cases e : b = a
    · subst e
      simp [hb]
      omega
    · have e' : ¬ a = b := fun c => e c.symm
      simp only [e, e', if_false, false_or]
      split <;> omega

/-- a transfer between two accounts of the list does not change the list's total -/
theorem total_move (L : List Hash) (g : Ledger) (f t : Hash) (a : Int) (hn : L.Nodup) (hf : f ∈ L) (ht : t ∈ L) :
    total L (g.move f t a) = total L g := by
  unfold Ledger.move
  split
  · rfl
  · rw [total_add _ _ _ _ hn, total_add _ _ _ _ hn]
    simp [hf, ht]
    omega

theorem total_foldl_move (L : List Hash) (frm : Hash) (amt : Int) (accts : List Hash) (g : Ledger) (hn : L.Nodup)
    (hf : frm ∈ L) (ha : ∀ a ∈ accts, a ∈ L) :
    total L (accts.foldl (fun g a => g.move frm a amt) g) = total L g := by
  induction accts generalizing g with
  | nil => rfl
  | cons a r ih =>
    rw [List.foldl_cons, ih _ (fun x hx => ha x (List.mem_cons_of_mem _ hx)),
      total_move L g frm a amt hn hf (ha a List.mem_cons_self)]

theorem sendOrLog_ok (g : Ledger) (frm to : Hash) (amt : Int) (h1 : 0 ≤ amt) (h2 : amt ≤ g frm) :
    sendOrLog g frm to amt = (g.move frm to amt, [.gasT frm to amt]) := by
  unfold sendOrLog
  have : ¬ (amt < 0 ∨ g frm < amt) := by omega
  rw [if_neg this]

/-- the Inner Ring loop when the contract can afford all transfers: every node gets `amt`, in order -/
theorem sendEach_char (frm : Hash) (amt : Int) (accts : List Hash) (g : Ledger) (evs : List Event)
    (hne : ∀ a ∈ accts, a ≠ frm) (h1 : 0 ≤ amt) (h2 : amt * (accts.length : Int) ≤ g frm) :
    sendEach frm amt accts g evs =
      (accts.foldl (fun g a => g.move frm a amt) g, evs ++ accts.map (fun a => Event.gasT frm a amt)) := by
  induction accts generalizing g evs with
  | nil => simp [sendEach]
  | cons a r ih =>
    have hlen : amt * ((a :: r).length : Int) = amt * (r.length : Int) + amt := by
      rw [List.length_cons]; exact mul_succ_cast amt r.length
    rw [hlen] at h2
    have hr : 0 ≤ amt * (r.length : Int) := Int.mul_nonneg h1 (Int.natCast_nonneg _)
    simp only [sendEach]
    rw [sendOrLog_ok g frm a amt h1 (by omega)]
    simp only
    have hafrm : a ≠ frm := hne a List.mem_cons_self
    rw [ih (g.move frm a amt) (evs ++ [Event.gasT frm a amt]) (fun x hx => hne x (List.mem_cons_of_mem _ hx))]
    · simp
    · rw [Ledger.move_apply]
      have : ¬ frm = a := fun c => hafrm c.symm
      simp [this]; omega

theorem foldl_move_zero (frm : Hash) (accts : List Hash) (g : Ledger) :
    accts.foldl (fun g a => g.move frm a 0) g = g := by
  induction accts generalizing g with
  | nil => rfl
  | cons a r ih =>
    rw [List.foldl_cons, ih]
    unfold Ledger.move; simp

/-- `⌊(g − ⌊g/2⌋)·7/8/N⌋` -/
def perNode (G : Int) (N : Nat) : Int := (G - G / 2) * 7 / 8 / (N : Int)

theorem perNode_bounds (G : Int) (N : Nat) (hG : 0 ≤ G) (hN : 0 < N) :
    0 ≤ perNode G N ∧ perNode G N * (N : Int) ≤ G - G / 2 := by
  unfold perNode
  have h1 : 0 ≤ (G - G / 2) * 7 / 8 := by omega
  have hN' : (0 : Int) < (N : Int) := by omega
  constructor
  · exact Int.ediv_nonneg h1 (by omega)
  · have := Int.ediv_mul_le ((G - G / 2) * 7 / 8) (b := (N : Int)) (by omega)
    omega

/-- **closed form of `Emit()`** for a contract account that is neither Proxy nor an Inner Ring node -/
theorem emit_char {c : Instance} {cm wit ir : List Hash} {g g' : Ledger} {evs : List Event}
    (hG : 0 ≤ g c.self) (hproxy : c.proxy ≠ c.self) (hir : ∀ a ∈ ir, a ≠ c.self)
    (h : emit c cm wit ir g = some (g', evs)) :
    0 ≤ c.index ∧ c.index.toNat < cm.length ∧ wit.contains (cm.getD c.index.toNat []) = true ∧
    0 < g c.self / 2 ∧ 0 < ir.length ∧
    g' = ir.foldl (fun acc a => acc.move c.self a (perNode (g c.self) ir.length)) (g.move c.self c.proxy (g c.self / 2)) ∧
    evs = .neoT c.self c.self 0 :: .gasT c.self c.proxy (g c.self / 2) ::
      (if perNode (g c.self) ir.length ≠ 0 then ir.map (fun a => Event.gasT c.self a (perNode (g c.self) ir.length)) else []) := by
  unfold emit at h
  by_cases h1 : c.index < 0
  · simp [h1] at h
  · rw [if_neg h1] at h
    by_cases h2 : cm.length ≤ c.index.toNat
    · simp [h2] at h
    · rw [if_neg h2] at h
      cases hw : wit.contains (cm.getD c.index.toNat []) with
      | false => rw [hw] at h; simp at h
      | true =>
        rw [hw] at h
        simp only [Bool.not_true, Bool.false_eq_true, if_false] at h
        rw [vmDiv_eq 2 hG] at h
        by_cases h3 : g c.self / 2 = 0
        · simp [h3] at h
        · rw [if_neg h3] at h
          by_cases h4 : ir.length = 0
          · simp [h4] at h
          · rw [if_neg h4] at h
            have hpg : 0 < g c.self / 2 := by omega
            have hN : 0 < ir.length := by omega
            have hrest : 0 ≤ g c.self - g c.self / 2 := by omega
            have h7 : 0 ≤ (g c.self - g c.self / 2) * 7 := by omega
            rw [vmDiv_eq 8 h7, vmDiv_eq _ (by omega : 0 ≤ (g c.self - g c.self / 2) * 7 / 8)] at h
            have hper : (g c.self - g c.self / 2) * 7 / 8 / (ir.length : Int) = perNode (g c.self) ir.length := rfl
            rw [hper] at h
            obtain ⟨hp0, hpN⟩ := perNode_bounds (g c.self) ir.length hG hN
            rw [sendOrLog_ok g c.self c.proxy (g c.self / 2) (by omega) (by omega)] at h
            simp only at h
            refine ⟨by omega, by omega, rfl, hpg, hN, ?_⟩
            by_cases h5 : perNode (g c.self) ir.length ≠ 0
            · rw [if_pos h5] at h
              rw [sendEach_char c.self _ ir _ _ hir hp0] at h
              · simp only [Option.some.injEq, Prod.mk.injEq] at h
                refine ⟨h.1.symm, ?_⟩
                rw [← h.2, if_pos h5]; simp
              · rw [Ledger.move_apply]
                have : ¬ c.self = c.proxy := fun e => hproxy e.symm
                simp [this]; omega
            · rw [if_neg h5] at h
              simp only [Option.some.injEq, Prod.mk.injEq] at h
              have hz : perNode (g c.self) ir.length = 0 := by
                apply Classical.byContradiction; intro e; exact h5 e
              refine ⟨?_, ?_⟩
              · rw [hz, foldl_move_zero]; exact h.1.symm
              · rw [← h.2, if_neg h5]; simp

end NeoFS.Alphabet
