import NeoFS.Lemmas.EpochStoresRep
set_option linter.unusedSimpArgs false
set_option linter.unusedVariables false
/-! Reputation lemmas (C20), part 2: `GetByID` / `Get` return exactly the values put under the id, when all ids
of the history have one length (the `_partial` hypothesis; without it the statement is false). -/
namespace NeoFS.EpochStores
open NeoFS

/-- the values put under `id`, oldest first -/
def vals (log : List RepPut) (id : Bytes) : List Bytes :=
  (log.filter (fun x => decide (idOf x = id))).map (·.2.2)

theorem vals_append (log : List RepPut) (x : RepPut) (id : Bytes) :
    vals (log ++ [x]) id = vals log id ++ (if idOf x = id then [x.2.2] else []) := by
  unfold vals
  rw [List.filter_append, List.map_append]
  by_cases h : idOf x = id
  · simp [h, List.filter_cons]
  · simp [h, List.filter_cons]

theorem filter_del_irrelevant {α : Type} (s : Store α) (k : Bytes) (p : Bytes × α → Bool)
    (h : ∀ kv ∈ s, kv.1 = k → p kv = false) : (del s k).filter p = s.filter p := by
  unfold del
  rw [List.filter_filter]
  apply List.filter_congr
  intro kv hkv
  by_cases e : kv.1 = k
  · simp [h kv hkv e]
  · simp [e]

/-- invariant behind the exactness of `GetByID` when every id has length `L` -/
structure RepG (s : Store Bytes) (log : List RepPut) (L : Nat) : Prop where
  len : ∀ x ∈ log, (idOf x).length = L
  cnt : ∀ id, repCount s id = ((vals log id).length : Int)
  keys : ∀ kv ∈ s, ∀ t, kv.1 = repValueP :: t →
    ∃ id, ∃ n : Nat, t = id ++ encInt ((n : Int) + 1) ∧ id.length = L ∧ n < (vals log id).length
  perm : ∀ id, id.length = L →
    ((s.filter (fun kv => (repValueP :: id).isPrefixOf kv.1)).map (·.2)).Perm (vals log id)

theorem repG_init (L : Nat) : RepG [] [] L where
  len := fun x h => (by cases h)
  cnt := fun id => (by simp [repCount, get, vals])
  keys := fun kv h => (by cases h)
  perm := fun id _ => (by simp [vals])

theorem vals_length_le (log : List RepPut) (id : Bytes) : (vals log id).length ≤ log.length := by
  unfold vals; rw [List.length_map]; exact List.length_filter_le _ _

theorem epochOK_of_lt (n : Nat) (h : n < 256 ^ 40) : EpochOK (n : Int) := by
  unfold EpochOK
  refine ⟨by omega, ?_⟩
  have : ((n : Nat) : Int) < ((256 ^ 40 : Nat) : Int) := by exact_mod_cast h
  simpa using this

theorem repCount_put_value (s : Store Bytes) (t v id : Bytes) :
    repCount (put s (repValueP :: t) v) id = repCount s id := by
  unfold repCount
  rw [get_put_other]
  intro e; simp only [List.cons.injEq] at e; exact repP_ne e.1

theorem repCount_put_count (s : Store Bytes) (id id' cv : Bytes) :
    repCount (put s (repCountP :: id) cv) id' = if id' = id then decInt cv else repCount s id' := by
  unfold repCount
  by_cases e : id' = id
  · subst e; simp [get_put_self]
  · simp only [e, if_false]
    rw [get_put_other]
    intro e2; simp only [List.cons.injEq, true_and] at e2; exact e e2

theorem repG_put (s s' : Store Bytes) (log : List RepPut) (L : Nat) (e : Int) (p v : Bytes) (hg : RepG s log L)
    (hb : log.length + 1 < 256 ^ 40) (hL : (storageID e p).length = L) (h : repPut s e p v = some s') :
    RepG s' (log ++ [(e, p, v)]) L := by
  rw [repPut_eq] at h
  split at h
  · simp only [Option.some.injEq] at h
    subst h
    have hid : idOf (e, p, v) = storageID e p := rfl
    have hc := hg.cnt (storageID e p)
    rw [hc]
    have hlen := vals_length_le log (storageID e p)
    have hok : EpochOK ((((vals log (storageID e p)).length : Nat) : Int) + 1) := by
      have := epochOK_of_lt ((vals log (storageID e p)).length + 1) (by omega)
      simpa using this
    -- the value key is fresh
    have hfresh : ∀ w, (repValueP :: (storageID e p ++ encInt (((vals log (storageID e p)).length : Int) + 1)), w) ∉ s := by
      intro w hw
      obtain ⟨id2, n, ht, hl2, hn⟩ := hg.keys _ hw _ rfl
      have := List.append_inj ht (by rw [hL, hl2])
      obtain ⟨e1, e2⟩ := this
      subst e1
      have hn' : EpochOK ((n : Int) + 1) := by
        have := epochOK_of_lt (n + 1) (by omega)
        simpa using this
      have := encInt_inj _ _ hok hn' e2
      omega
    have hne : ∀ t, repCountP :: storageID e p ≠ repValueP :: t := by
      intro t e1; simp only [List.cons.injEq] at e1; exact repP_ne e1.1
    constructor
    · intro x hx
      rw [List.mem_append] at hx
      rcases hx with hx | hx
      · exact hg.len x hx
      · simp only [List.mem_singleton] at hx; subst hx; exact hL
    · intro id
      rw [repCount_put_value, repCount_put_count, vals_append]
      by_cases e1 : id = storageID e p
      · subst e1
        simp only [if_true, hid]
        rw [decInt_encInt _ hok]
        simp
      · have : ¬ idOf (e, p, v) = id := by rw [hid]; exact fun e2 => e1 e2.symm
        simp only [e1, this, if_false, List.append_nil]
        exact hg.cnt id
    · intro kv hkv t ht
      rcases (mem_put_iff _ _ _ kv).mp hkv with e1 | ⟨_, hkv2⟩
      · rw [e1] at ht
        simp only [List.cons.injEq, true_and] at ht
        refine ⟨storageID e p, (vals log (storageID e p)).length, ht.symm, hL, ?_⟩
        rw [vals_append]; simp [hid]
      · rcases (mem_put_iff _ _ _ kv).mp hkv2 with e2 | ⟨_, hkv3⟩
        · rw [e2] at ht; exact absurd ht (hne t)
        · obtain ⟨id2, n, h1, h2, h3⟩ := hg.keys kv hkv3 t ht
          refine ⟨id2, n, h1, h2, ?_⟩
          rw [vals_append, List.length_append]; omega
    · intro id hidl
      -- compute the filter of the new store
      have hdel : del (put s (repCountP :: storageID e p) (encInt (((vals log (storageID e p)).length : Int) + 1)))
          (repValueP :: (storageID e p ++ encInt (((vals log (storageID e p)).length : Int) + 1))) =
          put s (repCountP :: storageID e p) (encInt (((vals log (storageID e p)).length : Int) + 1)) := by
        apply del_absent
        intro w hw
        rcases (mem_put_iff _ _ _ _).mp hw with e1 | ⟨_, hw2⟩
        · simp only [Prod.mk.injEq] at e1; exact hne _ e1.1.symm
        · exact hfresh w hw2
      unfold put at hdel ⊢
      rw [hdel]
      have hck : (repValueP :: id).isPrefixOf (repCountP :: storageID e p) = false := by
        cases hh : (repValueP :: id).isPrefixOf (repCountP :: storageID e p) with
        | false => rfl
        | true =>
          rw [List.isPrefixOf_iff_prefix, List.cons_prefix_cons] at hh
          exact absurd hh.1.symm repP_ne
      rw [List.filter_cons, List.filter_cons]
      simp only [hck, Bool.false_eq_true, if_false]
      rw [filter_del_irrelevant]
      · rw [vals_append]
        by_cases e1 : storageID e p = id
        · subst e1
          have hp : (repValueP :: storageID e p).isPrefixOf
              (repValueP :: (storageID e p ++ encInt (((vals log (storageID e p)).length : Int) + 1))) = true := by
            rw [List.isPrefixOf_iff_prefix, List.cons_prefix_cons]
            exact ⟨rfl, List.prefix_append _ _⟩
          simp only [hp, if_true, hid, List.map_cons]
          exact (List.Perm.cons v (hg.perm _ hidl)).trans (List.perm_append_comm (l₁ := [v]))
        · have hp : (repValueP :: id).isPrefixOf
              (repValueP :: (storageID e p ++ encInt (((vals log (storageID e p)).length : Int) + 1))) = false := by
            cases hh : (repValueP :: id).isPrefixOf
              (repValueP :: (storageID e p ++ encInt (((vals log (storageID e p)).length : Int) + 1))) with
            | false => rfl
            | true =>
              rw [List.isPrefixOf_iff_prefix, List.cons_prefix_cons] at hh
              have := (prefix_same_length (by rw [hidl, hL])).mp hh.2
              exact absurd this.symm e1
          have : ¬ idOf (e, p, v) = id := by rw [hid]; exact e1
          simp only [hp, Bool.false_eq_true, if_false, this, List.append_nil]
          exact hg.perm id hidl
      · intro kv _ ek
        cases hh : (repValueP :: id).isPrefixOf kv.1 with
        | false => rfl
        | true =>
          rw [ek, List.isPrefixOf_iff_prefix, List.cons_prefix_cons] at hh
          exact absurd hh.1.symm repP_ne
  · cases h

/-- `GetByID(id)` returns, as a multiset, exactly the values put under `id` -/
theorem repGetByID_perm (s : Store Bytes) (log : List RepPut) (L : Nat) (hg : RepG s log L) (id : Bytes)
    (hid : id.length = L) : (repGetByID s id).Perm (vals log id) := by
  unfold repGetByID
  exact ((find_perm s (repValueP :: id)).map (·.2)).trans (hg.perm id hid)

theorem repLog_length_le (hist : List (Env × Op)) (s : State) : (repLog s hist).length ≤ hist.length := by
  induction hist generalizing s with
  | nil => simp [repLog]
  | cons x rest ih =>
    obtain ⟨env, op⟩ := x
    simp only [repLog, List.length_append, List.length_cons]
    have : (repEntry s env op).length ≤ 1 := by
      unfold repEntry
      split <;> simp
    have := ih (invoke s env op).1
    omega

theorem repG_run (hist : List (Env × Op)) (s : State) (log : List RepPut) (L : Nat) (h : RepG s.rep log L)
    (hb : log.length + hist.length + 1 < 256 ^ 40) (hL : ∀ x ∈ repLog s hist, (idOf x).length = L) :
    RepG (run s hist).rep (log ++ repLog s hist) L := by
  induction hist generalizing s log with
  | nil => simpa [run, repLog] using h
  | cons x rest ih =>
    obtain ⟨env, op⟩ := x
    simp only [run, repLog]
    rw [← List.append_assoc]
    simp only [repLog, List.mem_append] at hL
    simp only [List.length_cons] at hb
    have hel : (repEntry s env op).length ≤ 1 := by
      unfold repEntry
      split <;> simp
    apply ih
    · cases hs : step s env op with
      | none => rw [invoke_fault s env op hs, repEntry_fault s env op hs]; simpa using h
      | some res =>
        obtain ⟨s', r, ev⟩ := res
        rw [invoke_halt s s' env op r ev hs]
        rcases repEntry_halt s s' env op r ev hs with ⟨e1, e2⟩ | ⟨e, p, v, _, _, hp, e2⟩
        · rw [e1, e2]; simpa using h
        · rw [e2]
          refine repG_put _ _ _ _ _ _ _ h (by omega) ?_ hp
          exact hL (e, p, v) (Or.inl (by rw [e2]; simp))
    · rw [List.length_append]; omega
    · intro x hx; exact hL x (Or.inr hx)

end NeoFS.EpochStores
