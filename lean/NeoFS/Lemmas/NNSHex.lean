import NeoFS.Model.NNS
set_option linter.unusedSimpArgs false
set_option linter.unusedVariables false
/-! Hex-LE contract-address records (C12, last clause): the three readers of a `<name>.neofs` TXT record —
`common.ResolveFSContractWithNNS` (contracts), `rpc/nns.AddressFromRecord` and
`deploy.readContractOnChainStateByDomainName` (both through `util.Uint160DecodeStringLE`) — modelled on byte
lists. A hash is given by its big-endian bytes (= `interop.Hash160` inside the VM). -/
namespace NeoFS.NNS.Hex
open NeoFS NeoFS.NNS

/-- Go `hex.EncodeToString`: lower-case digits -/
def hexDigit (d : Nat) : Nat := if d < 10 then 48 + d else 87 + d
def hexByte (b : Nat) : Bytes := [hexDigit (b / 16), hexDigit (b % 16)]

/-- `util.Uint160.StringLE()`: hex of the reversed big-endian bytes -/
def encodeLE (h : Bytes) : Bytes := h.reverse.flatMap hexByte

def hexVal (c : Nat) : Option Nat :=
  if 48 ≤ c ∧ c ≤ 57 then some (c - 48)
  else if 97 ≤ c ∧ c ≤ 102 then some (c - 87)
  else if 65 ≤ c ∧ c ≤ 70 then some (c - 55)
  else none

/-- Go `hex.DecodeString` -/
def hexDecode : Bytes → Option Bytes
  | [] => some []
  | [_] => none
  | a :: b :: r =>
    match hexVal a, hexVal b, hexDecode r with
    | some x, some y, some t => some ((16 * x + y) :: t)
    | _, _, _ => none

/-- `util.Uint160DecodeStringLE`: 40 hex digits, decoded, reversed (`u[Size-i-1] = b[i]`) -/
def decodeStringLE (rec : Bytes) : Option Bytes :=
  if rec.length = 40 then (hexDecode rec).map List.reverse else none

/-- `byte(std.Atoi(pair, 16))`: `std.Atoi(_, 16)` is two's complement ("ff" ↦ −1), storing into the buffer
keeps the low byte -/
def atoiByte (a b : Nat) : Option Nat :=
  match hexVal a, hexVal b with
  | some x, some y =>
    let v : Int := 16 * (x : Int) + (y : Int)
    byteOf (if v ≥ 128 then v - 256 else v)
  | _, _ => none

def pairsDecode : Bytes → Option Bytes
  | [] => some []
  | [_] => none
  | a :: b :: r =>
    match atoiByte a b, pairsDecode r with
    | some x, some t => some (x :: t)
    | _, _ => none

/-- the loop of `common.ResolveFSContractWithNNS` for a 40-character record:
`h[i] = byte(std.Atoi(rec[ii:ii+2], 16))`, `ii = (20 - i - 1) * 2` — the byte pairs read back to front -/
def decodeCommon (rec : Bytes) : Option Bytes :=
  if rec.length = 40 then (pairsDecode rec).map List.reverse else none

theorem hexVal_digit : ∀ d, d < 16 → hexVal (hexDigit d) = some d := by decide

theorem byte_split (b : Nat) : 16 * (b / 16) + b % 16 = b := by omega

theorem hexDecode_encode (l : Bytes) (h : ∀ b ∈ l, b < 256) : hexDecode (l.flatMap hexByte) = some l := by
  induction l with
  | nil => rfl
  | cons b r ih =>
    have hb : b < 256 := h b List.mem_cons_self
    have hr := ih (fun x hx => h x (List.mem_cons_of_mem _ hx))
    simp only [List.flatMap_cons, hexByte, List.cons_append, List.nil_append, hexDecode,
      hexVal_digit (b / 16) (by omega), hexVal_digit (b % 16) (by omega), hr, byte_split]

theorem atoiByte_encode (b : Nat) (hb : b < 256) : atoiByte (hexDigit (b / 16)) (hexDigit (b % 16)) = some b := by
  unfold atoiByte
  simp only [hexVal_digit (b / 16) (by omega), hexVal_digit (b % 16) (by omega)]
  have e : 16 * ((b / 16 : Nat) : Int) + ((b % 16 : Nat) : Int) = (b : Int) := by omega
  rw [e]
  unfold byteOf
  by_cases c : (b : Int) ≥ 128
  · simp only [c, if_true]
    have : -128 ≤ (b : Int) - 256 ∧ (b : Int) - 256 ≤ 255 := by omega
    simp only [this, and_self, if_true]
    have : ((b : Int) - 256) % 256 = b := by omega
    rw [this]; rfl
  · simp only [c, if_false]
    have : -128 ≤ (b : Int) ∧ (b : Int) ≤ 255 := by omega
    simp only [this, and_self, if_true]
    have : (b : Int) % 256 = b := by omega
    rw [this]; rfl

theorem pairsDecode_encode (l : Bytes) (h : ∀ b ∈ l, b < 256) : pairsDecode (l.flatMap hexByte) = some l := by
  induction l with
  | nil => rfl
  | cons b r ih =>
    have hb : b < 256 := h b List.mem_cons_self
    have hr := ih (fun x hx => h x (List.mem_cons_of_mem _ hx))
    simp only [List.flatMap_cons, hexByte, List.cons_append, List.nil_append, pairsDecode,
      atoiByte_encode b hb, hr]

theorem length_encode (l : Bytes) : (l.flatMap hexByte).length = 2 * l.length := by
  induction l with
  | nil => rfl
  | cons b r ih => simp only [List.flatMap_cons, hexByte, List.length_append, List.length_cons, List.length_nil, ih]; omega

end NeoFS.NNS.Hex
