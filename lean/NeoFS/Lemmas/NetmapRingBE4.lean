import NeoFS.Model.NetmapRing
/-! # `fourBytesBE` (C08): exact value on `0 ≤ e < 2³²`, injectivity there, and the aliases of the
negative arguments that the drop loop of `UpdateSnapshotCount` passes to `dropNetmap`. -/
namespace NeoFS.NetmapRing
open NeoFS

theorem natLEk_zero (k : Nat) : natLEk k 0 = List.replicate k 0 := by
  induction k with
  | zero => rfl
  | succ k ih => simp [natLEk, ih, List.replicate_succ]

/-- the first `k` little-endian digits of the minimal encoding, zero padded, are the `k`-digit encoding -/
theorem take_natLE_pad (k : Nat) : ∀ (f n m : Nat), k ≤ f → k ≤ m → n < 256 ^ k →
    (natLE f n ++ List.replicate m 0).take k = natLEk k n := by
  induction k with
  | zero => intro f n m _ _ _; simp [natLEk]
  | succ k ih =>
    intro f n m hf hm hn
    obtain ⟨f', rfl⟩ : ∃ f', f = f' + 1 := ⟨f - 1, by omega⟩
    obtain ⟨m', rfl⟩ : ∃ m', m = m' + 1 := ⟨m - 1, by omega⟩
    by_cases h0 : n = 0
    · subst h0
      simp only [natLE, if_true, List.nil_append, natLEk_zero]
      rw [List.take_replicate]; congr 1; omega
    · have hlt : n / 256 < 256 ^ k := by
        rw [Nat.div_lt_iff_lt_mul (by decide)]; rw [Nat.pow_succ] at hn; exact hn
      simp only [natLE, h0, if_false, List.cons_append, List.take_succ_cons, natLEk]
      rw [ih f' (n / 256) (m' + 1) (by omega) (by omega) hlt]

theorem encNat_pad (n : Nat) (h : n < 2 ^ 32) :
    (encNat n ++ [0, 0, 0, 0]).take 4 = natLEk 4 n := by
  have h256 : n < 256 ^ 4 := by have : (256 : Nat) ^ 4 = 2 ^ 32 := by decide
                                omega
  have hA := take_natLE_pad 4 40 n 4 (by decide) (by decide) h256
  have hB := take_natLE_pad 4 40 n 5 (by decide) (by decide) h256
  have r4 : List.replicate 4 0 = [0, 0, 0, 0] := rfl
  have r5 : [0] ++ [0, 0, 0, 0] = List.replicate 5 0 := rfl
  unfold encNat
  dsimp only
  split
  · rename_i heq
    have e : natLE 40 n = [] := List.getLast?_eq_none_iff.mp heq
    rw [e] at hA
    rw [← r4]; exact hA
  · split
    · rw [List.append_assoc, r5]; exact hB
    · rw [← r4]; exact hA

/-- `fourBytesBE(e)` for `0 ≤ e < 2³²` is the big-endian 4-byte representation -/
theorem be4_nat (n : Nat) (h : n < 2 ^ 32) :
    be4 (n : Int) = [n / 256 / 256 / 256 % 256, n / 256 / 256 % 256, n / 256 % 256, n % 256] := by
  unfold be4 encInt
  have h0 : (0 : Int) ≤ (n : Int) := Int.natCast_nonneg n
  simp only [h0, if_true, Int.toNat_natCast]
  rw [encNat_pad n h]
  simp [natLEk]

/-- `fourBytesBE` is injective on `0 ≤ e < 2³²` -/
theorem be4_inj_nat (a b : Nat) (ha : a < 2 ^ 32) (hb : b < 2 ^ 32) (h : be4 (a : Int) = be4 (b : Int)) :
    a = b := by
  rw [be4_nat a ha, be4_nat b hb] at h
  simp only [List.cons.injEq, and_true] at h
  obtain ⟨h1, h2, h3, h4⟩ := h
  have e : (2 : Nat) ^ 32 = 4294967296 := by decide
  omega

theorem be4_zero : be4 0 = [0, 0, 0, 0] := by decide

/-- the one-byte negatives: `fourBytesBE(-m) = fourBytesBE(256-m)` for `1 ≤ m ≤ 128` -/
theorem be4_neg_small (m : Nat) (h1 : 1 ≤ m) (h2 : m ≤ 128) :
    be4 (-(m : Int)) = be4 ((256 - m : Nat) : Int) := by
  rw [be4_nat (256 - m) (by have : (2:Nat)^32 = 4294967296 := by decide
                            omega)]
  unfold be4 encInt
  have hneg : ¬ (0 : Int) ≤ -(m : Int) := by omega
  simp only [hneg, if_false, Int.neg_neg, Int.toNat_natCast]
  have hw : negWidth 40 1 m = 1 := by
    simp only [negWidth]
    have : m ≤ 2 ^ (8 * 1 - 1) := by have : (2:Nat) ^ (8 * 1 - 1) = 128 := by decide
                                     omega
    simp [this]
  rw [hw]
  have e1 : (256 - m) / 256 = 0 := by omega
  have e2 : (256 - m) % 256 = 256 - m := by omega
  simp [natLEk, e1, e2]

/-- the two-byte negatives: `fourBytesBE(-m) = fourBytesBE(65536-m)` for `129 ≤ m ≤ 32768` -/
theorem be4_neg_two (m : Nat) (h1 : 129 ≤ m) (h2 : m ≤ 32768) :
    be4 (-(m : Int)) = be4 ((65536 - m : Nat) : Int) := by
  rw [be4_nat (65536 - m) (by have : (2:Nat)^32 = 4294967296 := by decide
                              omega)]
  unfold be4 encInt
  have hneg : ¬ (0 : Int) ≤ -(m : Int) := by omega
  simp only [hneg, if_false, Int.neg_neg, Int.toNat_natCast]
  have hw : negWidth 40 1 m = 2 := by
    have a1 : ¬ m ≤ 2 ^ (8 * 1 - 1) := by have : (2:Nat) ^ (8 * 1 - 1) = 128 := by decide
                                          omega
    have a2 : m ≤ 2 ^ (8 * (1 + 1) - 1) := by have : (2:Nat) ^ (8 * (1 + 1) - 1) = 32768 := by decide
                                              omega
    simp only [negWidth, a1, if_false, a2, if_true]
  rw [hw]
  have e0 : (2 : Nat) ^ (8 * 2) = 65536 := by decide
  rw [e0]
  have e1 : (65536 - m) / 256 / 256 = 0 := by omega
  simp [natLEk, e1]

/-- What the drop loop needs: a negative loop variable `k ≥ cur - 255` never names a stored epoch `e ≤ cur`. -/
theorem be4_neg_ne (k : Int) (e cur : Nat) (hk : k < 0) (hlo : (cur : Int) - 255 ≤ k) (he : e ≤ cur)
    (hcur : cur < 2 ^ 32) : be4 k ≠ be4 (e : Int) := by
  have p32 : (2 : Nat) ^ 32 = 4294967296 := by decide
  obtain ⟨m, rfl⟩ : ∃ m : Nat, k = -(m : Int) := ⟨k.natAbs, by omega⟩
  intro h
  by_cases hm : m ≤ 128
  · rw [be4_neg_small m (by omega) hm] at h
    have := be4_inj_nat (256 - m) e (by omega) (by omega) h
    omega
  · rw [be4_neg_two m (by omega) (by omega)] at h
    have := be4_inj_nat (65536 - m) e (by omega) (by omega) h
    omega

end NeoFS.NetmapRing
