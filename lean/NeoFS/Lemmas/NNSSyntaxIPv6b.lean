import NeoFS.Lemmas.NNSSyntaxIPv6
/-! `checkIPv6`: which fragment lists the loop accepts and which numbers it leaves in the array. -/
namespace NeoFS.NNSSyntax
open NeoFS NeoFS.NNSSyntax.Spec

/-- the fragments of an empty side of `::` -/
def pad (xs : List Bytes) : List Bytes := if xs = [] then [[]] else xs

theorem pad_nil : pad [] = [[]] := rfl
theorem pad_ne {xs : List Bytes} (h : xs ≠ []) : pad xs = xs := by unfold pad; rw [if_neg h]

/-- fragment-level reading of RFC 4291 forms 1 and 2 -/
def FragsDenote (frs : List Bytes) (v : List Int) : Prop :=
  (frs.length = 8 ∧ (∀ g ∈ frs, HexGroup g) ∧ v = vals frs) ∨
  (∃ as bs : List Bytes, (∀ g ∈ as, HexGroup g) ∧ (∀ g ∈ bs, HexGroup g) ∧ as.length + bs.length ≤ 7 ∧
     frs = pad as ++ [] :: pad bs ∧ v = vals as ++ zeros (8 - (as.length + bs.length)) ++ vals bs)

/-- the test on nine fragments -/
def nineOK (frs : List Bytes) : Prop :=
  ¬(frs.length = 9 ∧ ¬((frs.getD 0 []).length = 0 ∧ (frs.getD 1 []).length = 0) ∧
      ¬((frs.getD 7 []).length = 0 ∧ (frs.getD 8 []).length = 0))

/-- everything `checkIPv6` does between the split and the range test -/
def LoopAccepts (frs : List Bytes) (v : List Int) : Prop :=
  3 ≤ frs.length ∧ frs.length ≤ 9 ∧ nineOK frs ∧
  ∃ st, v6loop frs frs.length 0 frs ⟨false, zeros 8⟩ = some (some st) ∧
    ¬(frs.length < 8 ∧ st.hasEmpty = false) ∧ st.nums = v

theorem zeroFill_repr (u : List Int) (m L : Nat) (hu : u.length = m) (h : m + 2 ≤ L) (h9 : L ≤ 9) :
    zeroFill (u ++ zeros (8 - m)) m (9 - L + m - m) =
      (u ++ zeros (9 - L)) ++ zeros (8 - (u ++ zeros (9 - L)).length) := by
  have e1 : 9 - L + m - m = 9 - L := by omega
  rw [e1]
  subst hu
  rw [zeroFill_zeros (9 - L) u (8 - u.length) (by omega)]
  rw [List.length_append, length_zeros, List.append_assoc, ← zeros_add]
  have e2 : 9 - L + (8 - (u.length + (9 - L))) = 8 - u.length := by omega
  rw [e2]

theorem mem_ne_nil_of_all {gs : List Bytes} (h : ∀ g ∈ gs, HexGroup g) : ∀ g ∈ gs, g ≠ [] :=
  fun g hg => hexGroup_ne_nil (h g hg)

theorem loopAccepts_denote (frs : List Bytes) (v : List Int) (h : LoopAccepts frs v) : FragsDenote frs v := by
  obtain ⟨h3, h9, hn, st, hloop, hfin, hv⟩ := h
  obtain ⟨gs, rest, hfrs, hgs, hrest⟩ := span_ne frs
  have hL : frs.length = gs.length + rest.length := by rw [hfrs, List.length_append]
  have hloop' : v6loop frs frs.length 0 (gs ++ rest) ⟨false, [] ++ zeros (8 - ([] : List Int).length)⟩ =
      some (some st) := by
    rw [← hfrs]; exact hloop
  obtain ⟨hG, hm8, hcont⟩ :=
    (v6loop_groups frs frs.length gs 0 rest false [] st hgs rfl (fun e => Bool.noConfusion e) (by simp)).mp hloop'
  simp only [List.nil_append, Nat.zero_add, List.length_nil] at hcont hm8
  rcases hrest with rfl | ⟨r, rfl⟩
  · -- no empty fragment: form 1
    rw [v6loop_nil_iff] at hcont
    subst hcont
    simp only [List.length_nil, Nat.add_zero] at hL
    rw [List.append_nil] at hfrs
    subst hfrs
    have h8 : frs.length = 8 := by
      have : ¬ (frs.length < 8) := fun hlt => hfin ⟨hlt, rfl⟩
      omega
    left
    refine ⟨h8, hG, ?_⟩
    rw [← hv]; simp only
    rw [h8]; simp [zeros_zero]
  · simp only [List.length_cons] at hL
    rw [v6loop_cons_iff] at hcont
    obtain ⟨st1, hs, hcont2⟩ := hcont
    by_cases hg0 : gs = []
    · -- a leading colon: the address must start with "::"
      subst hg0
      simp only [List.length_nil, Nat.zero_add, vals, List.map_nil, List.nil_append] at hs hcont2 hL
      obtain ⟨h1, e1⟩ := (v6step_empty_first frs _ _ st1).mp hs
      rw [List.nil_append] at hfrs
      cases r with
      | nil => simp only [List.length_nil] at hL; omega
      | cons f1 r2 =>
        have hf1 : f1 = [] := by rw [hfrs] at h1; simpa using h1
        subst hf1
        simp only [List.length_cons] at hL
        rw [v6loop_cons_iff] at hcont2
        obtain ⟨st2, hs2, hcont3⟩ := hcont2
        obtain ⟨_, e2⟩ := (v6step_empty_mid frs _ 1 st1 st2 (by omega) (by omega)).mp hs2
        have est1 : st1.nums = [0] ++ zeros (8 - 1) := by rw [e1]; rfl
        have e2' : st2 = ⟨true, ([0] ++ zeros (9 - frs.length)) ++
            zeros (8 - ([0] ++ zeros (9 - frs.length)).length)⟩ := by
          rw [e2, est1, zeroFill_repr [0] 1 frs.length rfl (by omega) h9]
        rw [e2'] at hcont3
        have hr2 : r2 ≠ [] := by
          intro e; subst e; simp only [List.length_nil] at hL; omega
        have hT := (v6loop_tail frs [[], []] r2 frs.length 2 ([0] ++ zeros (9 - frs.length)) st
          (by rw [hfrs]; rfl) rfl (by omega) rfl
          (by rw [List.length_append, length_zeros]; simp only [List.length_singleton]; omega) (by omega) hr2).mp hcont3
        right
        rcases hT with ⟨hB, est⟩ | ⟨hr, _, est⟩
        · refine ⟨[], r2, (fun g hg => nomatch hg), hB, by simp only [List.length_nil]; omega, ?_, ?_⟩
          · rw [pad_nil, pad_ne hr2, hfrs]; rfl
          · rw [← hv, est]
            simp only [vals, List.map_nil, List.nil_append, List.length_nil, Nat.zero_add]
            have : 8 - r2.length = (9 - frs.length) + 1 := by omega
            rw [this, zeros_succ (9 - frs.length)]
            rfl
        · subst hr
          simp only [List.length_cons, List.length_nil] at hL
          refine ⟨[], [], (fun g hg => nomatch hg), (fun g hg => nomatch hg), by simp, ?_, ?_⟩
          · rw [pad_nil, hfrs]; rfl
          · rw [← hv, est, hL]; rfl
    · -- groups, then an empty fragment
      have hm1 : 1 ≤ gs.length := by
        cases gs with
        | nil => exact absurd rfl hg0
        | cons _ _ => simp
      by_cases hr0 : r = []
      · -- a trailing single colon
        exfalso
        subst hr0
        simp only [List.length_nil] at hL
        obtain ⟨hprev, _⟩ := (v6step_empty_last frs _ gs.length _ st1 (by omega) (by omega)).mp hs
        rcases List.eq_nil_or_concat gs with e | ⟨gs', g, e⟩
        · exact hg0 e
        · rw [List.concat_eq_append] at e
          subst e
          have hidx : (gs' ++ [g]).length - 1 = gs'.length := by simp
          have hfr : frs = gs' ++ g :: [[]] := by rw [hfrs]; simp
          rw [hidx, hfr, getD_append_length] at hprev
          exact hgs g (by simp) hprev
      · have hr1 : 1 ≤ r.length := by
          cases r with
          | nil => exact absurd rfl hr0
          | cons _ _ => simp
        obtain ⟨_, e1⟩ := (v6step_empty_mid frs _ gs.length _ st1 (by omega) (by omega)).mp hs
        have e1' : st1 = ⟨true, (vals gs ++ zeros (9 - frs.length)) ++
            zeros (8 - (vals gs ++ zeros (9 - frs.length)).length)⟩ := by
          rw [e1]; simp only
          rw [zeroFill_repr (vals gs) gs.length frs.length (length_vals gs) (by omega) h9]
        rw [e1'] at hcont2
        have hT := (v6loop_tail frs (gs ++ [[]]) r frs.length (gs.length + 1) (vals gs ++ zeros (9 - frs.length)) st
          (by rw [hfrs]; simp) (by simp) (by omega) rfl
          (by rw [List.length_append, length_zeros, length_vals]; omega) (by omega) hr0).mp hcont2
        right
        rcases hT with ⟨hB, est⟩ | ⟨hr, _, est⟩
        · -- as :: bs
          have hle : gs.length + r.length ≤ 7 := by
            have hne9 : frs.length ≠ 9 := by
              intro e9
              apply hn
              refine ⟨e9, ?_, ?_⟩
              · rintro ⟨h0, _⟩
                cases gs with
                | nil => exact hg0 rfl
                | cons g0 gs0 =>
                  rw [hfrs] at h0
                  simp only [List.cons_append, List.getD_cons_zero] at h0
                  exact hgs g0 (by simp) (List.eq_nil_of_length_eq_zero h0)
              · rintro ⟨_, h8⟩
                rcases List.eq_nil_or_concat r with e | ⟨r', x, e⟩
                · exact hr0 e
                · rw [List.concat_eq_append] at e
                  subst e
                  have hfr : frs = (gs ++ [] :: r') ++ x :: [] := by rw [hfrs]; simp
                  have hidx : 8 = (gs ++ [] :: r').length := by
                    simp only [List.length_append, List.length_cons, List.length_nil] at hL ⊢; omega
                  rw [hidx, hfr, getD_append_length] at h8
                  exact hexGroup_ne_nil (hB x (by simp)) (List.eq_nil_of_length_eq_zero h8)
            omega
          refine ⟨gs, r, hG, hB, hle, ?_, ?_⟩
          · rw [pad_ne hg0, pad_ne hr0, hfrs]
          · rw [← hv, est]
            have : 9 - frs.length = 8 - (gs.length + r.length) := by omega
            rw [this]
        · -- as ::
          subst hr
          simp only [List.length_cons, List.length_nil] at hL
          refine ⟨gs, [], hG, (fun g hg => nomatch hg), by simp only [List.length_nil]; omega, ?_, ?_⟩
          · rw [pad_ne hg0, pad_nil, hfrs]
          · rw [← hv, est]
            simp only [vals, List.map_nil, List.append_nil, List.length_nil, Nat.add_zero]
            have hwl : (List.map (fun g => ((groupVal g : Nat) : Int)) gs ++ zeros (9 - frs.length)).length = 7 := by
              rw [List.length_append, length_zeros, List.length_map]; omega
            rw [hwl]
            have := setAt_append_zeros (List.map (fun g => ((groupVal g : Nat) : Int)) gs ++ zeros (9 - frs.length)) 1 0 (by omega)
            rw [hwl] at this
            rw [this, zeros_zero, List.append_nil, List.append_assoc, zeros_snoc]
            have : 9 - frs.length + 1 = 8 - gs.length := by omega
            rw [this]

theorem trail_nums (u : List Int) (m L : Nat) (hu : u.length = m) (hL : L = m + 2) (h9 : L ≤ 9) :
    setAt ((u ++ zeros (9 - L)) ++ zeros (8 - (u ++ zeros (9 - L)).length)) 7 0 = u ++ zeros (8 - m) := by
  have hwl : (u ++ zeros (9 - L)).length = 7 := by
    rw [List.length_append, length_zeros]; omega
  have := setAt_append_zeros (u ++ zeros (9 - L)) 1 0 (by omega)
  rw [hwl] at this
  rw [hwl, this, zeros_zero, List.append_nil, List.append_assoc, zeros_snoc]
  have : 9 - L + 1 = 8 - m := by omega
  rw [this]

theorem denote_loopAccepts (frs : List Bytes) (v : List Int) (h : FragsDenote frs v) : LoopAccepts frs v := by
  rcases h with ⟨h8, hG, hv⟩ | ⟨as, bs, hA, hB, hle, hfrs, hv⟩
  · -- form 1
    refine ⟨by omega, by omega, fun hh => by omega, ⟨false, vals frs⟩, ?_, fun hh => by omega, hv.symm⟩
    have := (v6loop_groups frs frs.length frs 0 [] false [] ⟨false, vals frs⟩ (mem_ne_nil_of_all hG) rfl
      (fun e => Bool.noConfusion e) (by simp)).mpr
      ⟨hG, by simp only [List.length_nil]; omega, by
        rw [v6loop_nil_iff]
        simp only [List.nil_append, List.length_nil, Nat.zero_add, h8, Nat.sub_self, zeros_zero, List.append_nil]⟩
    rw [List.append_nil] at this
    exact this
  · by_cases ha : as = []
    · subst ha
      by_cases hb : bs = []
      · -- "::"
        subst hb
        subst hfrs; subst hv
        refine ⟨by decide, by decide, by unfold nineOK; decide, ⟨true, zeros 8⟩, by decide, by decide, by decide⟩
      · -- "::" bs
        rw [pad_nil, pad_ne hb] at hfrs
        have hfrs' : frs = [] :: [] :: bs := hfrs
        have hn1 : 1 ≤ bs.length := by
          cases bs with
          | nil => exact absurd rfl hb
          | cons _ _ => simp
        simp only [List.length_nil, Nat.zero_add] at hle hv
        have hL : frs.length = bs.length + 2 := by rw [hfrs']; simp
        refine ⟨by omega, by omega, ?_, ⟨true, ([0] ++ zeros (9 - frs.length)) ++ vals bs⟩, ?_,
          (fun hh => Bool.noConfusion hh.2), ?_⟩
        · intro hh
          apply hh.2.1
          rw [hfrs']; exact ⟨rfl, rfl⟩
        · have hloop : v6loop frs frs.length 0 ([] :: [] :: bs) ⟨false, zeros 8⟩ =
              some (some ⟨true, ([0] ++ zeros (9 - frs.length)) ++ vals bs⟩) := by
            rw [v6loop_cons_iff]
            refine ⟨_, (v6step_empty_first frs _ _ _).mpr ⟨by rw [hfrs']; rfl, rfl⟩, ?_⟩
            rw [v6loop_cons_iff]
            refine ⟨_, (v6step_empty_mid frs _ 1 _ _ (by omega) (by omega)).mpr ⟨rfl, rfl⟩, ?_⟩
            have e0 : setAt (zeros 8) 0 0 = [0] ++ zeros (8 - 1) := rfl
            simp only
            rw [e0, zeroFill_repr [0] 1 frs.length rfl (by omega) (by omega)]
            exact (v6loop_tail frs [[], []] bs frs.length 2 ([0] ++ zeros (9 - frs.length)) _
              (by rw [hfrs']; rfl) rfl (by omega) rfl
              (by rw [List.length_append, length_zeros]; simp only [List.length_singleton]; omega) (by omega) hb).mpr
              (Or.inl ⟨hB, rfl⟩)
          rw [← hfrs'] at hloop; exact hloop
        · rw [hv]
          simp only [vals, List.map_nil, List.nil_append]
          have : 8 - bs.length = (9 - frs.length) + 1 := by omega
          rw [this, zeros_succ (9 - frs.length)]
          rfl
    · have hm1 : 1 ≤ as.length := by
        cases as with
        | nil => exact absurd rfl ha
        | cons _ _ => simp
      rw [pad_ne ha] at hfrs
      by_cases hb : bs = []
      · -- as "::"
        subst hb
        rw [pad_nil] at hfrs
        simp only [List.length_nil, Nat.add_zero] at hle hv
        have hL : frs.length = as.length + 2 := by rw [hfrs]; simp
        refine ⟨by omega, by omega, ?_, ⟨true, vals as ++ zeros (8 - as.length)⟩, ?_,
          (fun hh => Bool.noConfusion hh.2), ?_⟩
        · intro hh
          apply hh.2.2
          have h7 : as.length = 7 := by omega
          constructor
          · have : frs.getD 7 [] = [] := by
              rw [← h7, hfrs]; exact getD_append_length as [] [[]] []
            rw [this]; rfl
          · have : frs.getD 8 [] = [] := by
              have e : frs = (as ++ [[]]) ++ [] :: [] := by rw [hfrs]; simp
              have e8 : 8 = (as ++ [[]]).length := by simp [h7]
              rw [e8, e]; exact getD_append_length _ [] [] []
            rw [this]; rfl
        · have hloop : v6loop frs frs.length 0 (as ++ [] :: [[]]) ⟨false, [] ++ zeros (8 - ([] : List Int).length)⟩ =
              some (some ⟨true, vals as ++ zeros (8 - as.length)⟩) := by
            rw [v6loop_groups frs frs.length as 0 _ false [] _ (mem_ne_nil_of_all hA) rfl
              (fun e => Bool.noConfusion e) (by simp)]
            refine ⟨hA, by simp only [List.length_nil]; omega, ?_⟩
            simp only [List.nil_append, Nat.zero_add, List.length_nil]
            rw [v6loop_cons_iff]
            refine ⟨_, (v6step_empty_mid frs _ as.length _ _ (by omega) (by omega)).mpr ⟨rfl, rfl⟩, ?_⟩
            simp only
            rw [zeroFill_repr (vals as) as.length frs.length (length_vals as) (by omega) (by omega)]
            refine (v6loop_tail frs (as ++ [[]]) [[]] frs.length (as.length + 1) (vals as ++ zeros (9 - frs.length)) _
              (by rw [hfrs]; simp) (by simp) (by omega) rfl
              (by rw [List.length_append, length_zeros, length_vals]; omega) (by omega) (by simp)).mpr
              (Or.inr ⟨rfl, ?_, ?_⟩)
            · show frs.getD as.length [] = []
              rw [hfrs]; exact getD_append_length as [] [[]] []
            · rw [trail_nums (vals as) as.length frs.length (length_vals as) hL (by omega)]
          rw [← hfrs] at hloop; exact hloop
        · rw [hv]; simp [vals]
      · -- as "::" bs
        rw [pad_ne hb] at hfrs
        have hn1 : 1 ≤ bs.length := by
          cases bs with
          | nil => exact absurd rfl hb
          | cons _ _ => simp
        have hL : frs.length = as.length + 1 + bs.length := by rw [hfrs]; simp; omega
        refine ⟨by omega, by omega, fun hh => by omega,
          ⟨true, (vals as ++ zeros (9 - frs.length)) ++ vals bs⟩, ?_, (fun hh => Bool.noConfusion hh.2), ?_⟩
        · have hloop : v6loop frs frs.length 0 (as ++ [] :: bs) ⟨false, [] ++ zeros (8 - ([] : List Int).length)⟩ =
              some (some ⟨true, (vals as ++ zeros (9 - frs.length)) ++ vals bs⟩) := by
            rw [v6loop_groups frs frs.length as 0 _ false [] _ (mem_ne_nil_of_all hA) rfl
              (fun e => Bool.noConfusion e) (by simp)]
            refine ⟨hA, by simp only [List.length_nil]; omega, ?_⟩
            simp only [List.nil_append, Nat.zero_add, List.length_nil]
            rw [v6loop_cons_iff]
            refine ⟨_, (v6step_empty_mid frs _ as.length _ _ (by omega) (by omega)).mpr ⟨rfl, rfl⟩, ?_⟩
            simp only
            rw [zeroFill_repr (vals as) as.length frs.length (length_vals as) (by omega) (by omega)]
            exact (v6loop_tail frs (as ++ [[]]) bs frs.length (as.length + 1) (vals as ++ zeros (9 - frs.length)) _
              (by rw [hfrs]; simp) (by simp) (by omega) rfl
              (by rw [List.length_append, length_zeros, length_vals]; omega) (by omega) hb).mpr
              (Or.inl ⟨hB, rfl⟩)
          rw [← hfrs] at hloop; exact hloop
        · rw [hv]
          have : 9 - frs.length = 8 - (as.length + bs.length) := by omega
          rw [this]

/-- the loop of `checkIPv6` accepts exactly the fragment lists of RFC 4291 forms 1 and 2 and leaves the
eight group values in the array -/
theorem loopAccepts_iff (frs : List Bytes) (v : List Int) : LoopAccepts frs v ↔ FragsDenote frs v :=
  ⟨loopAccepts_denote frs v, denote_loopAccepts frs v⟩

end NeoFS.NNSSyntax
