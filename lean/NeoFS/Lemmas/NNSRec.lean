import NeoFS.Lemmas.NNSAcc
import NeoFS.Lemmas.NNSStr
set_option linter.unusedSimpArgs false
set_option linter.unusedVariables false
/-! The record invariant of the NNS model (C12): ids are positions, at most 16 distinct values per name
and type, at most one CNAME, one SOA per name; and the list view `recsByType` of the stored records. -/
namespace NeoFS.NNS
open NeoFS

/-! ### list view = id-indexed view -/

theorem mget_recsUnder (s : State) (tok n : Name) (tb i : Nat) :
    mget (recsUnder s tok n) (tb, i) = mget s.recs (tok, n, tb, i) := by
  unfold recsUnder
  induction s.recs with
  | nil => rfl
  | cons x xs ih =>
    obtain ⟨⟨t', n', tb', i'⟩, r⟩ := x
    by_cases c : t' = tok ∧ n' = n
    · obtain ⟨c1, c2⟩ := c
      subst c1; subst c2
      simp only [List.filterMap_cons, and_self, if_true, mget_cons, ih]
      by_cases e : (tb', i') = (tb, i)
      · injection e with e1 e2; subst e1; subst e2; simp
      · have : ¬((t', n', tb', i') = (t', n', tb, i)) := by
          intro c; injection c with _ c2; injection c2 with _ c3; exact e c3
        simp [e, this]
    · have : ¬((t', n', tb', i') = (tok, n, tb, i)) := by
        intro cc; injection cc with c1 c2; injection c2 with c2 _; exact c ⟨c1, c2⟩
      simp only [List.filterMap_cons, c, if_false, mget_cons, this, ih]

theorem recsByType_eq (s : State) (tok n : Name) (tb : Nat) :
    recsByType s tok n tb = (List.range 256).filterMap (fun i => mget s.recs (tok, n, tb, i)) := by
  unfold recsByType
  simp only [mget_recsUnder]

theorem filterMap_range_none {α : Type} (f : Nat → Option α) (k m : Nat) (h : ∀ i, k ≤ i → f i = none) :
    (List.range (k + m)).filterMap f = (List.range k).filterMap f := by
  induction m with
  | zero => rfl
  | succ m ih =>
    rw [← Nat.add_assoc, List.range_succ, List.filterMap_append, ih]
    simp [h (k + m) (by omega)]

theorem filterMap_range_getElem {α : Type} (f : Nat → Option α) (k : Nat) (h : ∀ i, i < k → (f i).isSome) :
    ((List.range k).filterMap f).length = k ∧ ∀ i, i < k → ((List.range k).filterMap f)[i]? = f i := by
  induction k with
  | zero => simp
  | succ k ih =>
    obtain ⟨l1, l2⟩ := ih (fun i hi => h i (by omega))
    rw [List.range_succ, List.filterMap_append]
    cases hk : f k with
    | none => have := h k (by omega); rw [hk] at this; simp at this
    | some v =>
      simp only [List.filterMap_cons, hk, List.filterMap_nil, List.length_append, l1, List.length_singleton, true_and]
      intro i hi
      by_cases c : i < k
      · rw [List.getElem?_append_left (by omega), l2 i c]
      · have : i = k := by omega
        subst this
        rw [List.getElem?_append_right (by omega), l1]; simp [hk]

/-- contiguity of the ids of one (token, name, type): exactly the ids below `k` are present -/
def Contig (m : Map RKey Rec) (tok n : Name) (tb k : Nat) : Prop :=
  ∀ i, (mget m (tok, n, tb, i)).isSome ↔ i < k

/-- ids are positions: the i-th element of the list `storage.Find` yields is the record with id i -/
theorem recsByType_getElem (s : State) (tok n : Name) (tb k : Nat) (hk : k ≤ 256)
    (hc : Contig s.recs tok n tb k) :
    (recsByType s tok n tb).length = k ∧ ∀ i, (recsByType s tok n tb)[i]? = mget s.recs (tok, n, tb, i) := by
  rw [recsByType_eq]
  have e : 256 = k + (256 - k) := by omega
  have hnone : ∀ i, k ≤ i → mget s.recs (tok, n, tb, i) = none := by
    intro i hi
    cases hg : mget s.recs (tok, n, tb, i) with
    | none => rfl
    | some v => have := (hc i).mp (by simp [hg]); omega
  rw [e, filterMap_range_none _ k (256 - k) hnone]
  obtain ⟨l1, l2⟩ := filterMap_range_getElem (fun i => mget s.recs (tok, n, tb, i)) k (fun i hi => (hc i).mpr hi)
  refine ⟨l1, ?_⟩
  intro i
  by_cases c : i < k
  · exact l2 i c
  · rw [List.getElem?_eq_none (by omega), hnone i (by omega)]

theorem mem_recsByType {s : State} {tok n : Name} {tb : Nat} {r : Rec} :
    r ∈ recsByType s tok n tb ↔ ∃ i, i < 256 ∧ mget s.recs (tok, n, tb, i) = some r := by
  rw [recsByType_eq, List.mem_filterMap]
  constructor
  · rintro ⟨i, hi, h⟩; exact ⟨i, List.mem_range.mp hi, h⟩
  · rintro ⟨i, hi, h⟩; exact ⟨i, List.mem_range.mpr hi, h⟩

/-! ### the record invariant -/

structure RecInv (m : Map RKey Rec) : Prop where
  uniq : Uniq m
  /-- key and value agree: record name, type byte, id -/
  kv : ∀ tok n tb i r, mget m (tok, n, tb, i) = some r → r.name = n ∧ r.typ = (tb : Int) ∧ r.id = (i : Int)
  /-- per (token, name, type ≠ SOA): ids 0..k-1, k ≤ 16 -/
  contig : ∀ tok n tb, tb ≠ soaByte → ∃ k, k ≤ 16 ∧ Contig m tok n tb k
  /-- one SOA per name: id 0 only -/
  soa : ∀ tok n i, (mget m (tok, n, soaByte, i)).isSome → i = 0
  /-- the values of one name and type are distinct -/
  distinct : ∀ tok n tb i j r1 r2, tb ≠ soaByte → mget m (tok, n, tb, i) = some r1 → mget m (tok, n, tb, j) = some r2 →
    r1.data = r2.data → i = j
  /-- at most one CNAME -/
  cname : ∀ tok n i, (mget m (tok, n, cnameByte, i)).isSome → i = 0

theorem recInv_nil : RecInv ([] : Map RKey Rec) := by
  refine ⟨by simp [Uniq, mkeys], ?_, ?_, ?_, ?_, ?_⟩
  · intro tok n tb i r h; simp [mget] at h
  · intro tok n tb _; exact ⟨0, by omega, fun i => by simp [mget]⟩
  · intro tok n i h; simp [mget] at h
  · intro tok n tb i j r1 r2 _ h; simp [mget] at h
  · intro tok n i h; simp [mget] at h

/-- writing the SOA record of a name (saveDomain, updateSOA, updateSoaSerial) -/
theorem recInv_soa_put {m : Map RKey Rec} (h : RecInv m) (tok n : Name) (r : Rec)
    (hn : r.name = n) (ht : r.typ = 6) (hi : r.id = 0) : RecInv (mput m (tok, n, soaByte, 0) r) := by
  obtain ⟨a1, a2, a3, a4, a5, a6⟩ := h
  have other : ∀ tok' n' tb' i', tb' ≠ soaByte → mget (mput m (tok, n, soaByte, 0) r) (tok', n', tb', i') = mget m (tok', n', tb', i') := by
    intro tok' n' tb' i' hne
    apply mget_mput_other
    intro c; injection c with _ c2; injection c2 with _ c3; injection c3 with c4 _; exact hne c4.symm
  refine ⟨uniq_mput _ _ a1, ?_, ?_, ?_, ?_, ?_⟩
  · intro tok' n' tb' i' r' hg
    rw [mget_mput] at hg
    by_cases c : (tok, n, soaByte, 0) = (tok', n', tb', i')
    · rw [if_pos c] at hg; injection hg with hg; subst hg
      injection c with _ c2; injection c2 with c2 c3; injection c3 with c3 c4
      subst c2; subst c3; subst c4
      exact ⟨hn, by rw [ht]; rfl, by rw [hi]; rfl⟩
    · rw [if_neg c] at hg; exact a2 _ _ _ _ _ hg
  · intro tok' n' tb' hne
    obtain ⟨k, hk, hc⟩ := a3 tok' n' tb' hne
    exact ⟨k, hk, fun i => by rw [other _ _ _ _ hne]; exact hc i⟩
  · intro tok' n' i' hs
    rw [mget_mput] at hs
    by_cases c : (tok, n, soaByte, 0) = (tok', n', soaByte, i')
    · injection c with _ c2; injection c2 with _ c3; injection c3 with _ c4; exact c4.symm
    · rw [if_neg c] at hs; exact a4 _ _ _ hs
  · intro tok' n' tb' i j r1 r2 hne h1 h2
    rw [other _ _ _ _ hne] at h1 h2
    exact a5 _ _ _ _ _ _ _ hne h1 h2
  · intro tok' n' i' hs
    rw [other _ _ _ _ (by decide)] at hs
    exact a6 _ _ _ hs

theorem byteOf_small {z : Int} {tb : Nat} (h : byteOf z = some tb) (hz : 0 ≤ z) : (tb : Int) = z := by
  unfold byteOf at h
  split at h
  · injection h with h
    rename_i hr
    have : z % 256 = z := Int.emod_eq_of_lt hz (by omega)
    rw [this] at h
    omega
  · simp at h

/-- `addRecord`'s write: the next free id, a value not yet present, the limits respected -/
theorem recInv_add {m : Map RKey Rec} (h : RecInv m) (tok n : Name) (tb k : Nat) (typ : Int) (data : Bytes)
    (htb : (tb : Int) = typ) (hne : tb ≠ soaByte) (hc : Contig m tok n tb k) (hk : k ≤ 15)
    (hcn : tb = cnameByte → k = 0)
    (hdup : ∀ i r, mget m (tok, n, tb, i) = some r → r.data ≠ data) :
    RecInv (mput m (tok, n, tb, k) ⟨n, typ, data, k⟩) ∧ Contig (mput m (tok, n, tb, k) ⟨n, typ, data, k⟩) tok n tb (k + 1) := by
  obtain ⟨a1, a2, a3, a4, a5, a6⟩ := h
  have hnew : ∀ i, mget (mput m (tok, n, tb, k) ⟨n, typ, data, k⟩) (tok, n, tb, i) =
      if i = k then some ⟨n, typ, data, k⟩ else mget m (tok, n, tb, i) := by
    intro i
    rw [mget_mput]
    by_cases c : i = k
    · subst c; simp
    · have : ¬((tok, n, tb, k) = (tok, n, tb, i)) := by
        intro cc; injection cc with _ c2; injection c2 with _ c3; injection c3 with _ c4; exact c c4.symm
      simp [c, this]
  have other : ∀ tok' n' tb' i', ¬(tok' = tok ∧ n' = n ∧ tb' = tb) →
      mget (mput m (tok, n, tb, k) ⟨n, typ, data, k⟩) (tok', n', tb', i') = mget m (tok', n', tb', i') := by
    intro tok' n' tb' i' hx
    apply mget_mput_other
    intro c; injection c with c1 c2; injection c2 with c2 c3; injection c3 with c3 _
    exact hx ⟨c1.symm, c2.symm, c3.symm⟩
  have hcont : Contig (mput m (tok, n, tb, k) ⟨n, typ, data, k⟩) tok n tb (k + 1) := by
    intro i
    rw [hnew]
    by_cases c : i = k
    · subst c; simp
    · simp only [c, if_false]
      rw [hc i]; omega
  refine ⟨⟨uniq_mput _ _ a1, ?_, ?_, ?_, ?_, ?_⟩, hcont⟩
  · intro tok' n' tb' i' r' hg
    by_cases hx : tok' = tok ∧ n' = n ∧ tb' = tb
    · obtain ⟨x1, x2, x3⟩ := hx; subst x1; subst x2; subst x3
      rw [hnew] at hg
      by_cases c : i' = k
      · subst c; simp at hg; subst hg; exact ⟨rfl, htb.symm, rfl⟩
      · simp [c] at hg; exact a2 _ _ _ _ _ hg
    · rw [other _ _ _ _ hx] at hg; exact a2 _ _ _ _ _ hg
  · intro tok' n' tb' hne'
    by_cases hx : tok' = tok ∧ n' = n ∧ tb' = tb
    · obtain ⟨x1, x2, x3⟩ := hx; subst x1; subst x2; subst x3
      exact ⟨k + 1, by omega, hcont⟩
    · obtain ⟨k', hk', hc'⟩ := a3 tok' n' tb' hne'
      exact ⟨k', hk', fun i => by rw [other _ _ _ _ hx]; exact hc' i⟩
  · intro tok' n' i' hs
    have hx : ¬(tok' = tok ∧ n' = n ∧ soaByte = tb) := fun c => hne c.2.2.symm
    rw [other _ _ _ _ hx] at hs; exact a4 _ _ _ hs
  · intro tok' n' tb' i j r1 r2 hne' h1 h2 hd
    by_cases hx : tok' = tok ∧ n' = n ∧ tb' = tb
    · obtain ⟨x1, x2, x3⟩ := hx; subst x1; subst x2; subst x3
      rw [hnew] at h1 h2
      by_cases c1 : i = k <;> by_cases c2 : j = k
      · omega
      · simp [c1, c2] at h1 h2; subst h1
        exact absurd hd.symm (hdup j r2 h2)
      · simp [c1, c2] at h1 h2; subst h2
        exact absurd hd (hdup i r1 h1)
      · simp [c1, c2] at h1 h2
        exact a5 _ _ _ _ _ _ _ hne' h1 h2 hd
    · rw [other _ _ _ _ hx] at h1 h2
      exact a5 _ _ _ _ _ _ _ hne' h1 h2 hd
  · intro tok' n' i' hs
    by_cases hx : tok' = tok ∧ n' = n ∧ cnameByte = tb
    · obtain ⟨x1, x2, x3⟩ := hx; subst x1; subst x2
      have hk0 := hcn x3.symm
      subst x3
      have := (hcont i').mp hs
      omega
    · rw [other _ _ _ _ hx] at hs; exact a6 _ _ _ hs

/-- `setRecord`'s write: an existing id, a value no other record of the list holds -/
theorem recInv_set {m : Map RKey Rec} (h : RecInv m) (tok n : Name) (tb idb : Nat) (typ id : Int) (data : Bytes)
    (old : Rec) (htb : (tb : Int) = typ) (hid : (idb : Int) = id) (hne : tb ≠ soaByte)
    (hold : mget m (tok, n, tb, idb) = some old)
    (hdup : ∀ i r, i ≠ idb → mget m (tok, n, tb, i) = some r → r.data ≠ data) :
    RecInv (mput m (tok, n, tb, idb) ⟨n, typ, data, id⟩) := by
  obtain ⟨a1, a2, a3, a4, a5, a6⟩ := h
  have hnew : ∀ i, mget (mput m (tok, n, tb, idb) ⟨n, typ, data, id⟩) (tok, n, tb, i) =
      if i = idb then some ⟨n, typ, data, id⟩ else mget m (tok, n, tb, i) := by
    intro i
    rw [mget_mput]
    by_cases c : i = idb
    · subst c; simp
    · have : ¬((tok, n, tb, idb) = (tok, n, tb, i)) := by
        intro cc; injection cc with _ c2; injection c2 with _ c3; injection c3 with _ c4; exact c c4.symm
      simp [c, this]
  have other : ∀ tok' n' tb' i', ¬(tok' = tok ∧ n' = n ∧ tb' = tb) →
      mget (mput m (tok, n, tb, idb) ⟨n, typ, data, id⟩) (tok', n', tb', i') = mget m (tok', n', tb', i') := by
    intro tok' n' tb' i' hx
    apply mget_mput_other
    intro c; injection c with c1 c2; injection c2 with c2 c3; injection c3 with c3 _
    exact hx ⟨c1.symm, c2.symm, c3.symm⟩
  have hsome : ∀ i, (mget (mput m (tok, n, tb, idb) ⟨n, typ, data, id⟩) (tok, n, tb, i)).isSome ↔
      (mget m (tok, n, tb, i)).isSome := by
    intro i; rw [hnew]
    by_cases c : i = idb
    · subst c; simp [hold]
    · simp [c]
  refine ⟨uniq_mput _ _ a1, ?_, ?_, ?_, ?_, ?_⟩
  · intro tok' n' tb' i' r' hg
    by_cases hx : tok' = tok ∧ n' = n ∧ tb' = tb
    · obtain ⟨x1, x2, x3⟩ := hx; subst x1; subst x2; subst x3
      rw [hnew] at hg
      by_cases c : i' = idb
      · subst c; simp at hg; subst hg; exact ⟨rfl, htb.symm, hid.symm⟩
      · simp [c] at hg; exact a2 _ _ _ _ _ hg
    · rw [other _ _ _ _ hx] at hg; exact a2 _ _ _ _ _ hg
  · intro tok' n' tb' hne'
    obtain ⟨k', hk', hc'⟩ := a3 tok' n' tb' hne'
    by_cases hx : tok' = tok ∧ n' = n ∧ tb' = tb
    · obtain ⟨x1, x2, x3⟩ := hx; subst x1; subst x2; subst x3
      exact ⟨k', hk', fun i => by rw [hsome]; exact hc' i⟩
    · exact ⟨k', hk', fun i => by rw [other _ _ _ _ hx]; exact hc' i⟩
  · intro tok' n' i' hs
    have hx : ¬(tok' = tok ∧ n' = n ∧ soaByte = tb) := fun c => hne c.2.2.symm
    rw [other _ _ _ _ hx] at hs; exact a4 _ _ _ hs
  · intro tok' n' tb' i j r1 r2 hne' h1 h2 hd
    by_cases hx : tok' = tok ∧ n' = n ∧ tb' = tb
    · obtain ⟨x1, x2, x3⟩ := hx; subst x1; subst x2; subst x3
      rw [hnew] at h1 h2
      by_cases c1 : i = idb <;> by_cases c2 : j = idb
      · omega
      · simp [c1, c2] at h1 h2; subst h1
        exact absurd hd.symm (hdup j r2 c2 h2)
      · simp [c1, c2] at h1 h2; subst h2
        exact absurd hd (hdup i r1 c1 h1)
      · simp [c1, c2] at h1 h2
        exact a5 _ _ _ _ _ _ _ hne' h1 h2 hd
    · rw [other _ _ _ _ hx] at h1 h2
      exact a5 _ _ _ _ _ _ _ hne' h1 h2 hd
  · intro tok' n' i' hs
    by_cases hx : tok' = tok ∧ n' = n ∧ cnameByte = tb
    · obtain ⟨x1, x2, x3⟩ := hx; subst x1; subst x2; subst x3
      rw [hsome] at hs; exact a6 _ _ _ hs
    · rw [other _ _ _ _ hx] at hs; exact a6 _ _ _ hs

theorem mget_filter_key {κ ν : Type} [DecidableEq κ] (m : Map κ ν) (p : κ → Bool) (k : κ) :
    mget (m.filter (fun kv => p kv.1)) k = if p k then mget m k else none := by
  induction m with
  | nil => simp [mget]
  | cons x xs ih =>
    obtain ⟨k', v⟩ := x
    by_cases hp : p k' = true
    · simp only [List.filter_cons, hp, if_true, mget_cons, ih]
      by_cases e : k' = k
      · subst e; simp [hp]
      · simp [e]
    · have hp' : p k' = false := by simpa using hp
      simp only [List.filter_cons, hp', mget_cons, Bool.false_eq_true, if_false]
      by_cases e : k' = k
      · subst e; rw [ih]; simp [hp']
      · rw [ih]; simp [e]

/-- the filter of `deleteRecords`: all records of one (token, name, type) -/
def delPred (tok n : Name) (tb : Nat) (k : RKey) : Bool := !(k.1 == tok && k.2.1 == n && k.2.2.1 == tb)

theorem mget_del (m : Map RKey Rec) (tok n : Name) (tb : Nat) (tok' n' : Name) (tb' i' : Nat) :
    mget (m.filter (fun kv => delPred tok n tb kv.1)) (tok', n', tb', i') =
      if tok' = tok ∧ n' = n ∧ tb' = tb then none else mget m (tok', n', tb', i') := by
  rw [mget_filter_key]
  by_cases hx : tok' = tok ∧ n' = n ∧ tb' = tb
  · obtain ⟨x1, x2, x3⟩ := hx; subst x1; subst x2; subst x3
    simp [delPred]
  · have : delPred tok n tb (tok', n', tb', i') = true := by
      unfold delPred
      simp only [Bool.not_eq_true', Bool.and_eq_false_iff, beq_eq_false_iff_ne]
      by_cases c1 : tok' = tok
      · by_cases c2 : n' = n
        · right; intro c3; exact hx ⟨c1, c2, c3⟩
        · left; right; exact c2
      · left; left; exact c1
    simp [this, hx]

theorem recInv_del {m : Map RKey Rec} (h : RecInv m) (tok n : Name) (tb : Nat) (hne : tb ≠ soaByte) :
    RecInv (m.filter (fun kv => delPred tok n tb kv.1)) := by
  obtain ⟨a1, a2, a3, a4, a5, a6⟩ := h
  refine ⟨?_, ?_, ?_, ?_, ?_, ?_⟩
  · unfold Uniq mkeys at a1 ⊢
    exact List.Nodup.sublist (List.Sublist.map _ List.filter_sublist) a1
  · intro tok' n' tb' i' r' hg
    rw [mget_del] at hg
    split at hg
    · simp at hg
    · exact a2 _ _ _ _ _ hg
  · intro tok' n' tb' hne'
    by_cases hx : tok' = tok ∧ n' = n ∧ tb' = tb
    · exact ⟨0, by omega, fun i => by rw [mget_del, if_pos hx]; simp⟩
    · obtain ⟨k', hk', hc'⟩ := a3 tok' n' tb' hne'
      exact ⟨k', hk', fun i => by rw [mget_del, if_neg hx]; exact hc' i⟩
  · intro tok' n' i' hs
    rw [mget_del] at hs
    split at hs
    · simp at hs
    · exact a4 _ _ _ hs
  · intro tok' n' tb' i j r1 r2 hne' h1 h2 hd
    rw [mget_del] at h1 h2
    split at h1
    · simp at h1
    · rename_i hx
      rw [if_neg hx] at h2
      exact a5 _ _ _ _ _ _ _ hne' h1 h2 hd
  · intro tok' n' i' hs
    rw [mget_del] at hs
    split at hs
    · simp at hs
    · exact a6 _ _ _ hs

/-! ### every method preserves the record invariant -/

theorem recInv_soaSerial {s s' : State} {now : Int} {tok : Name} (h : RecInv s.recs)
    (hs : updateSoaSerial s now tok = some s') : RecInv s'.recs := by
  obtain ⟨_, rec, a, b, c, d, e, f, g, hg, _, hr⟩ := updateSoaSerial_some hs
  rw [hr]
  obtain ⟨k1, k2, k3⟩ := h.kv _ _ _ _ _ hg
  exact recInv_soa_put h tok tok _ k1 k2 k3

theorem recInv_putSoa {s s' : State} {env : Env} {n e : Bytes} {a b c d : Int} (h : RecInv s.recs)
    (hs : putSoaRecord s env n e a b c d = some s') : RecInv s'.recs := by
  obtain ⟨_, _, data, hr⟩ := putSoaRecord_some hs
  rw [hr]
  exact recInv_soa_put h _ n _ rfl rfl rfl

theorem recInv_saveDomain {s s' : State} {env : Env} {n e : Bytes} {a b c d : Int} {o : Hash} (h : RecInv s.recs)
    (hs : saveDomain s env n e a b c d o = some s') : RecInv s'.recs := by
  obtain ⟨_, _, _, _, _, _, _, tok, data, hr⟩ := saveDomain_some hs
  rw [hr]
  exact recInv_soa_put h _ n _ rfl rfl rfl

theorem typ_tb {typ : Int} {tb : Nat} (ht : typ = 1 ∨ typ = 5 ∨ typ = 16 ∨ typ = 28) (hb : byteOf typ = some tb) :
    (tb : Int) = typ ∧ tb ≠ soaByte := by
  have h1 := byteOf_small hb (by omega)
  refine ⟨h1, ?_⟩
  intro c; rw [c] at h1
  have : ((soaByte : Nat) : Int) = 6 := rfl
  omega

/-- what a successful `addRecord` writes, in terms of the record map -/
theorem addRecord_effect {s s' : State} {env : Env} {n : Name} {typ : Int} {data : Bytes} {r : Ret} {ev : List Event}
    (hinv : RecInv s.recs) (h : addRecord s env n typ data = some (s', r, ev)) :
    ∃ (tb k : Nat) (s0 : State), byteOf typ = some tb ∧ (tb : Int) = typ ∧ tb ≠ soaByte ∧ k ≤ 15 ∧
      Contig s.recs (tokenOf s env.now n) n tb k ∧
      s0.recs = mput s.recs (tokenOf s env.now n, n, tb, k) ⟨n, typ, data, k⟩ ∧
      RecInv s0.recs ∧ Contig s0.recs (tokenOf s env.now n) n tb (k + 1) ∧
      updateSoaSerial s0 env.now (tokenOf s env.now n) = some s' ∧ sameLedger s s0 := by
  obtain ⟨tok, tb, s1, hck, htb, hdup, hlen, hcn, hs1, e⟩ := addRecord_inv h
  injection e with e1 _; subst e1
  obtain ⟨_, htok, _, htyp, _, _, _⟩ := checkRecord_some hck
  subst htok
  obtain ⟨t1, t2⟩ := typ_tb htyp htb
  obtain ⟨k, hk, hc⟩ := hinv.contig (tokenOf s env.now n) n tb t2
  obtain ⟨l1, l2⟩ := recsByType_getElem s (tokenOf s env.now n) n tb k (by omega) hc
  rw [l1] at hs1 hlen hcn
  have hk15 : k ≤ 15 := by
    have : Generated.nns_maxRecordID = 15 := rfl
    rw [this] at hlen; omega
  have hcn' : tb = cnameByte → k = 0 := by
    intro c; apply hcn
    rw [← t1, c]; rfl
  have hd : ∀ i rr, mget s.recs (tokenOf s env.now n, n, tb, i) = some rr → rr.data ≠ data := by
    intro i rr hg hdd
    have hi : i < 256 := by have := (hc i).mp (by simp [hg]); omega
    have hm : rr ∈ recsByType s (tokenOf s env.now n) n tb := mem_recsByType.mpr ⟨i, hi, hg⟩
    have := (List.any_eq_false.mp hdup) rr hm
    obtain ⟨k1, k2, _⟩ := hinv.kv _ _ _ _ _ hg
    simp [k1, k2, t1, hdd] at this
  obtain ⟨g1, g2⟩ := recInv_add hinv (tokenOf s env.now n) n tb k typ data t1 t2 hc hk15 hcn' hd
  exact ⟨tb, k, _, htb, t1, t2, hk15, hc, rfl, g1, g2, hs1, storeRecord_ledger ..⟩

/-- what a successful `setRecord` writes -/
theorem setRecord_effect {s s' : State} {env : Env} {n : Name} {typ id : Int} {data : Bytes} {r : Ret} {ev : List Event}
    (hinv : RecInv s.recs) (h : setRecord s env n typ id data = some (s', r, ev)) :
    ∃ (tb idb : Nat) (old : Rec) (s0 : State), byteOf typ = some tb ∧ (tb : Int) = typ ∧ tb ≠ soaByte ∧ (idb : Int) = id ∧
      mget s.recs (tokenOf s env.now n, n, tb, idb) = some old ∧
      s0.recs = mput s.recs (tokenOf s env.now n, n, tb, idb) ⟨n, typ, data, id⟩ ∧
      RecInv s0.recs ∧ updateSoaSerial s0 env.now (tokenOf s env.now n) = some s' ∧ sameLedger s s0 := by
  obtain ⟨tok, tb, idb, old, s1, hck, htb, hidb, hold, hdup, hs1, e⟩ := setRecord_inv h
  injection e with e1 _; subst e1
  obtain ⟨_, htok, _, htyp, _, _, _⟩ := checkRecord_some hck
  subst htok
  obtain ⟨t1, t2⟩ := typ_tb htyp htb
  obtain ⟨k, hk, hc⟩ := hinv.contig (tokenOf s env.now n) n tb t2
  have hidk : idb < k := (hc idb).mp (by simp [hold])
  have hid : (idb : Int) = id := by
    unfold byteOf at hidb
    split at hidb
    · rename_i hr
      injection hidb with hidb
      by_cases hz : 0 ≤ id
      · have : id % 256 = id := Int.emod_eq_of_lt hz (by omega)
        rw [this] at hidb; omega
      · have : id % 256 = id + 256 := by omega
        rw [this] at hidb; omega
    · simp at hidb
  have hd : ∀ i rr, i ≠ idb → mget s.recs (tokenOf s env.now n, n, tb, i) = some rr → rr.data ≠ data := by
    intro i rr hne hg hdd
    have hi : i < 256 := by have := (hc i).mp (by simp [hg]); omega
    have hm : rr ∈ recsByType s (tokenOf s env.now n) n tb := mem_recsByType.mpr ⟨i, hi, hg⟩
    have := (List.any_eq_false.mp hdup) rr hm
    obtain ⟨_, _, k3⟩ := hinv.kv _ _ _ _ _ hg
    have hne' : rr.id ≠ id := by rw [k3, ← hid]; omega
    simp [hne', hdd] at this
  exact ⟨tb, idb, old, _, htb, t1, t2, hid, hold, rfl,
    recInv_set hinv (tokenOf s env.now n) n tb idb typ id data old t1 hid t2 hold hd, hs1, storeRecord_ledger ..⟩

theorem recInv_step (s : State) (env : Env) (op : Op) (h : RecInv s.recs) : RecInv (invoke s env op).1.recs := by
  unfold invoke
  cases hst : step s env op with
  | none => exact h
  | some out =>
    obtain ⟨s', r, ev⟩ := out
    show RecInv s'.recs
    cases op with
    | setPrice p =>
      obtain ⟨_, _, _, e⟩ := setPrice_inv hst
      injection e with e1 _; subst e1; exact h
    | transfer to t =>
      obtain ⟨_, _, ns, _, hcase⟩ := transfer_inv hst
      rcases hcase with ⟨_, e⟩ | ⟨_, _, e⟩
      · injection e with e1 _; subst e1; exact h
      · injection e with e1 _; subst e1
        split
        · exact h
        · exact h
    | renew n y =>
      obtain ⟨_, _, _, ns, _, _, _, _, e⟩ := renew_inv hst
      injection e with e1 _; subst e1; exact h
    | setAdmin n a =>
      obtain ⟨_, _, ns, _, _, e⟩ := setAdmin_inv hst
      injection e with e1 _; subst e1; exact h
    | updateSOA n e a b c d =>
      obtain ⟨_, _, _, s1, hs1, e⟩ := updateSOA_inv hst
      injection e with e1 _; subst e1
      exact recInv_putSoa h hs1
    | registerTLD n e a b c d =>
      obtain ⟨_, _, _, _, s1, hs1, e⟩ := registerTLD_inv hst
      injection e with e1 _; subst e1
      exact recInv_saveDomain (show RecInv ({ s with roots := if s.roots.contains n then s.roots else n :: s.roots } : State).recs from h) hs1
    | register n o e a b c d =>
      obtain ⟨_, _, _, _, _, _, _, _, _, hcase⟩ := register_inv hst
      rcases hcase with ⟨ns, _, _, e⟩ | ⟨ns, s1, _, _, _, hs1, e⟩ | ⟨s1, _, _, hs1, e⟩
      · injection e with e1 _; subst e1; exact h
      · injection e with e1 _; subst e1
        show RecInv s1.recs
        exact recInv_saveDomain (show RecInv (updateBalance s n ns.owner (-1)).recs from h) hs1
      · injection e with e1 _; subst e1
        show RecInv s1.recs
        exact recInv_saveDomain (show RecInv ({ s with supply := s.supply + 1 } : State).recs from h) hs1
    | addRecord n t d =>
      obtain ⟨tb, k, s0, _, _, _, _, _, _, g1, _, hs1, _⟩ := addRecord_effect h hst
      exact recInv_soaSerial g1 hs1
    | setRecord n t i d =>
      obtain ⟨tb, idb, old, s0, _, _, _, _, _, _, g1, hs1, _⟩ := setRecord_effect h hst
      exact recInv_soaSerial g1 hs1
    | deleteRecords n t =>
      obtain ⟨h0, _, _, ns, tb, s1, _, _, htb, hs1, e⟩ := deleteRecords_inv hst
      injection e with e1 _; subst e1
      refine recInv_soaSerial (s := { s with recs := _ }) ?_ hs1
      have hne : tb ≠ soaByte := by
        intro c; subst c
        unfold byteOf at htb
        split at htb
        · injection htb with htb
          have : soaType = 6 := rfl
          rw [this] at h0
          have h6 : ((soaByte : Nat) : Int) = 6 := rfl
          by_cases hz : 0 ≤ t
          · have : t % 256 = t := Int.emod_eq_of_lt hz (by omega)
            rw [this] at htb; omega
          · have : t % 256 = t + 256 := by omega
            rw [this] at htb; omega
        · simp at htb
      exact recInv_del h (tokenOf s env.now n) n tb hne

theorem recInv_run (hist : List (Env × Op)) : ∀ s, RecInv s.recs → RecInv (run s hist).recs := by
  induction hist with
  | nil => intro s h; exact h
  | cons x xs ih =>
    intro s h
    obtain ⟨env, op⟩ := x
    exact ih _ (recInv_step s env op h)

end NeoFS.NNS
