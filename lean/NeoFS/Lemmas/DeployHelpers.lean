import NeoFS.Model.DeployHelpers
import Std.Data.String.ToInt
/-! Lemmas about the pure deployment helpers (C13, layer 1). -/
namespace NeoFS.DeployHelpers
open NeoFS

/-! ## divideFundsEvenly -/

def sumShares (l : List (Nat × Nat)) : Nat := (l.map (·.2)).sum

/-- exact form of the loop: with `r ≤ k` remainder units left, receivers `i, i+1, …` get `q + 1` while the
remainder lasts, then `q`; with `q = 0` the loop stops when the remainder is used up -/
theorem divLoop_eq (q : Nat) : ∀ (k i r : Nat), r ≤ k →
    divLoop q k i r = (List.range' i (if q = 0 then r else k)).map (fun x => (x, q + if x < i + r then 1 else 0))
  | 0, i, r, h => by
    have : r = 0 := by omega
    subst this
    simp [divLoop]
  | k + 1, i, r, h => by
    simp only [divLoop]
    by_cases hr : r > 0
    · rw [if_pos hr, divLoop_eq q k (i + 1) (r - 1) (by omega)]
      by_cases hq : q = 0
      · simp only [hq, if_true]
        obtain ⟨r', rfl⟩ : ∃ r', r = r' + 1 := ⟨r - 1, by omega⟩
        simp only [Nat.add_sub_cancel, List.range'_succ, List.map_cons]
        congr 1
        · simp
        · apply List.map_congr_left
          intro x hx
          have : (x < i + 1 + r') = (x < i + (r' + 1)) := by
            apply propext; omega
          simp only [this]
      · simp only [hq, if_false, List.range'_succ, List.map_cons]
        congr 1
        · have : i < i + r := by omega
          simp [this]
        · apply List.map_congr_left
          intro x hx
          have : (x < i + 1 + (r - 1)) = (x < i + r) := by
            apply propext; omega
          simp only [this]
    · have hr0 : r = 0 := by omega
      subst hr0
      rw [if_neg (by omega)]
      by_cases hq : q = 0
      · simp [hq]
      · rw [if_neg hq, divLoop_eq q k (i + 1) 0 (by omega)]
        simp only [hq, if_false, List.range'_succ, List.map_cons]
        congr 1
        · simp
        · apply List.map_congr_left
          intro x hx
          have hx' := (List.mem_range'_1.mp hx).1
          have h1 : ¬ (x < i + 1 + 0) := by omega
          have h2 : ¬ (x < i + 0) := by omega
          simp only [h1, h2]

theorem divLoop_sum (q : Nat) : ∀ (k i r : Nat), r ≤ k →
    sumShares (divLoop q k i r) = (if q = 0 then 0 else q * k) + r
  | 0, i, r, h => by
    have : r = 0 := by omega
    subst this
    simp [divLoop, sumShares]
  | k + 1, i, r, h => by
    simp only [divLoop]
    by_cases hr : r > 0
    · rw [if_pos hr]
      have ih := divLoop_sum q k (i + 1) (r - 1) (by omega)
      simp only [sumShares, List.map_cons, List.sum_cons] at ih ⊢
      rw [ih]
      by_cases hq : q = 0
      · simp only [hq, if_true]; omega
      · simp only [hq, if_false, Nat.mul_succ]; omega
    · have hr0 : r = 0 := by omega
      subst hr0
      rw [if_neg (by omega)]
      by_cases hq : q = 0
      · simp [hq, sumShares]
      · rw [if_neg hq]
        have ih := divLoop_sum q k (i + 1) 0 (by omega)
        simp only [sumShares, List.map_cons, List.sum_cons] at ih ⊢
        rw [ih]
        simp only [hq, if_false, Nat.mul_succ]; omega

/-- share of receiver `i` -/
def shareOf (a n i : Nat) : Nat := a / n + if i < a % n then 1 else 0

/-- number of receivers that get something -/
def receivers (a n : Nat) : Nat := if a / n = 0 then a % n else n

theorem divide_exact (a n : Nat) (hn : 0 < n) :
    divideFundsEvenly a (n : Int) = some ((List.range (receivers a n)).map (fun i => (i, shareOf a n i))) := by
  have h0 : ¬ ((n : Int) = 0) := by omega
  have h1 : ¬ ((n : Int) < 0) := by omega
  simp only [divideFundsEvenly, h0, h1, if_false, Int.toNat_natCast]
  rw [divLoop_eq _ _ _ _ (Nat.le_of_lt (Nat.mod_lt a hn))]
  simp only [receivers, shareOf, Nat.zero_add, List.range_eq_range']

theorem divide_sum (a n : Nat) (hn : 0 < n) (l : List (Nat × Nat))
    (h : divideFundsEvenly a (n : Int) = some l) : sumShares l = a := by
  have h0 : ¬ ((n : Int) = 0) := by omega
  have h1 : ¬ ((n : Int) < 0) := by omega
  simp only [divideFundsEvenly, h0, h1, if_false, Int.toNat_natCast, Option.some.injEq] at h
  subst h
  rw [divLoop_sum _ _ _ _ (Nat.le_of_lt (Nat.mod_lt a hn))]
  have hd := Nat.div_add_mod a n
  by_cases hq : a / n = 0
  · simp only [hq, if_true]; rw [hq] at hd; omega
  · simp only [hq, if_false]; rw [Nat.mul_comm]; omega

/-! ## nonce / ValidUntilBlock window -/

theorem span_toNat : span.toNat = 100 := by decide
theorem maxU32_toNat : maxU32.toNat = 4294967295 := by decide

theorem nonce_toNat (h : UInt32) : (h / span * span).toNat = 100 * (h.toNat / 100) := by
  have hl := UInt32.toNat_lt h
  simp only [UInt32.toNat_mul, UInt32.toNat_div, span_toNat]
  omega

theorem window_nonce (h : UInt32) : (window h).1.toNat = 100 * (h.toNat / 100) := by
  unfold window
  simp only []
  split <;> exact nonce_toNat h

theorem window_vub (h : UInt32) :
    (window h).2.toNat = if 100 * (h.toNat / 100) + 100 ≤ 4294967295 then 100 * (h.toNat / 100) + 100 else 4294967295 := by
  have hl := UInt32.toNat_lt h
  have hn := nonce_toNat h
  unfold window
  simp only []
  split
  · rename_i hc
    simp only [GT.gt, UInt32.lt_iff_toNat_lt, UInt32.toNat_sub, span_toNat, maxU32_toNat, hn] at hc
    simp only [UInt32.toNat_add, hn, span_toNat]
    split <;> omega
  · rename_i hc
    simp only [GT.gt, UInt32.lt_iff_toNat_lt, UInt32.toNat_sub, span_toNat, maxU32_toNat, hn] at hc
    simp only [maxU32_toNat]
    split <;> omega

/-! ## base64.StdEncoding -/

theorem sextet_fin : ∀ v : Fin 64, decSextet (encSextet v.val) = some v.val ∧ encSextet v.val ≠ 10 ∧ encSextet v.val ≠ 13 ∧ encSextet v.val ≠ 61 := by decide

theorem decSextet_encSextet (v : Nat) (h : v < 64) : decSextet (encSextet v) = some v := (sextet_fin ⟨v, h⟩).1
theorem encSextet_ne (v : Nat) (h : v < 64) : encSextet v ≠ 10 ∧ encSextet v ≠ 13 ∧ encSextet v ≠ 61 := (sextet_fin ⟨v, h⟩).2

theorem decSextet_pad : decSextet padChar = none := by decide

theorem decSextet_lt (c v : Nat) (h : decSextet c = some v) : v < 64 := by
  unfold decSextet at h
  split at h
  · simp only [Option.some.injEq] at h; omega
  · split at h
    · simp only [Option.some.injEq] at h; omega
    · split at h
      · simp only [Option.some.injEq] at h; omega
      · split at h
        · simp only [Option.some.injEq] at h; omega
        · split at h
          · simp only [Option.some.injEq] at h; omega
          · simp at h

/-- the encoder's output contains no `\r`/`\n` -/
theorem enc_clean : ∀ (l : Bytes), (∀ b ∈ l, b < 256) → ∀ x ∈ b64Enc l, x ≠ 10 ∧ x ≠ 13
  | [], _ => by simp [b64Enc]
  | [a], h => by
    have ha : a < 256 := h a (by simp)
    have h1 := encSextet_ne (a / 4) (by omega)
    have h2 := encSextet_ne (a % 4 * 16) (by omega)
    simp [b64Enc, padChar, h1.1, h1.2.1, h2.1, h2.2.1]
  | [a, b], h => by
    have ha : a < 256 := h a (by simp)
    have hb : b < 256 := h b (by simp)
    have h1 := encSextet_ne (a / 4) (by omega)
    have h2 := encSextet_ne (a % 4 * 16 + b / 16) (by omega)
    have h3 := encSextet_ne (b % 16 * 4) (by omega)
    simp [b64Enc, padChar, h1.1, h1.2.1, h2.1, h2.2.1, h3.1, h3.2.1]
  | a :: b :: c :: r, h => by
    have ha : a < 256 := h a (by simp)
    have hb : b < 256 := h b (by simp)
    have hc : c < 256 := h c (by simp)
    have h1 := encSextet_ne (a / 4) (by omega)
    have h2 := encSextet_ne (a % 4 * 16 + b / 16) (by omega)
    have h3 := encSextet_ne (b % 16 * 4 + c / 64) (by omega)
    have h4 := encSextet_ne (c % 64) (by omega)
    have ih := enc_clean r (fun x hx => h x (by simp [hx]))
    simp only [b64Enc, List.mem_cons]
    rintro x (rfl | rfl | rfl | rfl | hx)
    · exact ⟨h1.1, h1.2.1⟩
    · exact ⟨h2.1, h2.2.1⟩
    · exact ⟨h3.1, h3.2.1⟩
    · exact ⟨h4.1, h4.2.1⟩
    · exact ih x hx

theorem b64Strip_enc (l : Bytes) (h : ∀ b ∈ l, b < 256) : b64Strip (b64Enc l) = b64Enc l := by
  unfold b64Strip
  rw [List.filter_eq_self]
  intro x hx
  have := enc_clean l h x hx
  simp [this.1, this.2]

/-- quanta decoding inverts the encoder -/
theorem quanta_enc : ∀ (l : Bytes), (∀ b ∈ l, b < 256) → b64DecQuanta (b64Enc l) = some l
  | [], _ => by simp [b64Enc, b64DecQuanta]
  | [a], h => by
    have ha : a < 256 := h a (by simp)
    have d1 := decSextet_encSextet (a / 4) (by omega)
    have d2 := decSextet_encSextet (a % 4 * 16) (by omega)
    simp only [b64Enc, b64DecQuanta, and_self, if_true, d1, d2]
    congr 2
    omega
  | [a, b], h => by
    have ha : a < 256 := h a (by simp)
    have hb : b < 256 := h b (by simp)
    have d1 := decSextet_encSextet (a / 4) (by omega)
    have d2 := decSextet_encSextet (a % 4 * 16 + b / 16) (by omega)
    have d3 := decSextet_encSextet (b % 16 * 4) (by omega)
    have n3 := (encSextet_ne (b % 16 * 4) (by omega)).2.2
    simp only [b64Enc, b64DecQuanta, and_self, if_true, d1, d2, d3, padChar, n3, if_false]
    congr 2
    · omega
    · congr 1; omega
  | a :: b :: c :: r, h => by
    have ha : a < 256 := h a (by simp)
    have hb : b < 256 := h b (by simp)
    have hc : c < 256 := h c (by simp)
    have d1 := decSextet_encSextet (a / 4) (by omega)
    have d2 := decSextet_encSextet (a % 4 * 16 + b / 16) (by omega)
    have d3 := decSextet_encSextet (b % 16 * 4 + c / 64) (by omega)
    have d4 := decSextet_encSextet (c % 64) (by omega)
    have n4 := (encSextet_ne (c % 64) (by omega)).2.2
    have ih := quanta_enc r (fun x hx => h x (by simp [hx]))
    simp only [b64Enc, b64DecQuanta, padChar, n4, and_false, if_false, d1, d2, d3, d4, ih]
    congr 2
    · omega
    · congr 1
      · omega
      · congr 1; omega

theorem b64Dec_enc (l : Bytes) (h : ∀ b ∈ l, b < 256) : b64Dec (b64Enc l) = some l := by
  unfold b64Dec
  rw [b64Strip_enc l h, quanta_enc l h]

/-! ## sharedTransactionData bytes -/

theorem be4_eq (n : Nat) : be 4 n = [n / 256 / 256 / 256 % 256, n / 256 / 256 % 256, n / 256 % 256, n % 256] := by
  simp [be, natLEk]

theorem beVal_be4 (n : Nat) (h : n < 2 ^ 32) : beVal (be 4 n) = n := by
  rw [be4_eq]
  simp only [beVal, List.length_cons, List.length_nil]
  omega

theorem be4_length (n : Nat) : (be 4 n).length = 4 := by rw [be4_eq]; rfl

theorem be4_lt (n : Nat) : ∀ b ∈ be 4 n, b < 256 := by
  rw [be4_eq]
  intro b hb
  simp only [List.mem_cons, List.not_mem_nil, or_false] at hb
  rcases hb with rfl | rfl | rfl | rfl <;> omega

theorem sharedLen_eq : sharedLen = 28 := by decide
theorem checksumLen_eq : checksumLen = 4 := by decide

theorem bytes_length (x : Shared) (h : x.WF) : x.bytes.length = 28 := by
  simp only [Shared.bytes, List.length_append, be4_length, h.1, uint160Size]

theorem bytes_lt (x : Shared) (h : x.WF) : ∀ b ∈ x.bytes, b < 256 := by
  intro b hb
  simp only [Shared.bytes, List.mem_append] at hb
  rcases hb with (hb | hb) | hb
  · exact h.2.1 b hb
  · exact be4_lt _ b hb
  · exact be4_lt _ b hb

theorem decodeBytes_bytes (x : Shared) (h : x.WF) : decodeBytes x.bytes = some x := by
  have hl := bytes_length x h
  have hs : x.sender.length = 20 := h.1
  unfold decodeBytes
  rw [if_neg (by rw [hl, sharedLen_eq]; decide)]
  simp only [Shared.bytes, uint160Size]
  have e1 : (x.sender ++ be 4 x.vub ++ be 4 x.nonce).take 20 = x.sender := by
    rw [List.append_assoc, List.take_append_of_le_length (by omega), List.take_of_length_le (by omega)]
  have e2 : (x.sender ++ be 4 x.vub ++ be 4 x.nonce).drop 20 = be 4 x.vub ++ be 4 x.nonce := by
    rw [List.append_assoc, List.drop_append_of_le_length (by omega), List.drop_of_length_le (by omega), List.nil_append]
  have e3 : (x.sender ++ be 4 x.vub ++ be 4 x.nonce).drop (20 + 4) = be 4 x.nonce := by
    rw [← List.drop_drop, e2, List.drop_append_of_le_length (by rw [be4_length]; omega), List.drop_of_length_le (by rw [be4_length]; omega), List.nil_append]
  rw [e1, e2, e3]
  have t1 : (be 4 x.vub ++ be 4 x.nonce).take 4 = be 4 x.vub := by
    rw [List.take_append_of_le_length (by rw [be4_length]; omega), List.take_of_length_le (by rw [be4_length]; omega)]
  have t2 : (be 4 x.nonce).take 4 = be 4 x.nonce := List.take_of_length_le (by rw [be4_length]; omega)
  rw [t1, t2, beVal_be4 _ h.2.2.1, beVal_be4 _ h.2.2.2]

/-! ## checksum -/

theorem b64Enc_length : ∀ (l : Bytes), (b64Enc l).length = 4 * ((l.length + 2) / 3)
  | [] => by simp [b64Enc]
  | [a] => by simp [b64Enc]
  | [a, b] => by simp [b64Enc]
  | a :: b :: c :: r => by
    have ih := b64Enc_length r
    simp only [b64Enc, List.length_cons, ih]
    omega

theorem isPrefix_append (p l : Bytes) : isPrefix p (p ++ l) = true := by
  induction p with
  | nil => simp [isPrefix]
  | cons a p ih => simp [isPrefix, ih]

theorem isPrefix_iff (p l : Bytes) : isPrefix p l = true ↔ ∃ t, l = p ++ t := by
  induction p generalizing l with
  | nil => simp [isPrefix]
  | cons a p ih =>
    cases l with
    | nil => simp [isPrefix]
    | cons b l =>
      simp only [isPrefix, Bool.and_eq_true, decide_eq_true_eq, ih, List.cons_append, List.cons.injEq]
      constructor
      · rintro ⟨rfl, t, rfl⟩; exact ⟨t, rfl, rfl⟩
      · rintro ⟨t, rfl, rfl⟩; exact ⟨rfl, t, rfl⟩

/-- `shiftChecksum` undoes `unshiftChecksum` (the digest has at least 4 bytes; SHA-256 has 32) -/
theorem shift_unshift (sha : Bytes → Bytes) (x : Shared) (d : Bytes) (h : 4 ≤ (sha x.bytes).length) :
    shiftChecksum sha x (unshiftChecksum sha x d) = (true, d) := by
  have hl : ((sha x.bytes).take checksumLen).length = 4 := by
    rw [List.length_take, checksumLen_eq]; omega
  unfold shiftChecksum unshiftChecksum
  rw [if_neg (by rw [List.length_append, hl, checksumLen_eq]; omega)]
  rw [isPrefix_append]
  simp only [not_true_eq_false, if_false]
  rw [List.drop_append_of_le_length (by rw [hl, checksumLen_eq]; omega), List.drop_of_length_le (by rw [hl, checksumLen_eq]; omega), List.nil_append]

/-- exact acceptance condition of `shiftChecksum` -/
theorem shift_true_iff (sha : Bytes → Bytes) (x : Shared) (data p : Bytes) (h : 4 ≤ (sha x.bytes).length) :
    shiftChecksum sha x data = (true, p) ↔ data = (sha x.bytes).take 4 ++ p := by
  have hl : ((sha x.bytes).take checksumLen).length = 4 := by
    rw [List.length_take, checksumLen_eq]; omega
  constructor
  · intro hs
    unfold shiftChecksum at hs
    split at hs
    · simp at hs
    · split at hs
      · simp at hs
      · rename_i h1 h2
        simp only [Decidable.not_not] at h2
        obtain ⟨t, ht⟩ := (isPrefix_iff _ _).mp h2
        simp only [Prod.mk.injEq, true_and] at hs
        rw [ht, List.drop_append_of_le_length (by rw [hl, checksumLen_eq]; omega), List.drop_of_length_le (by rw [hl, checksumLen_eq]; omega), List.nil_append] at hs
        rw [ht, hs, checksumLen_eq]
  · intro hd
    have := shift_unshift sha x p h
    unfold unshiftChecksum at this
    rw [checksumLen_eq] at this
    rw [hd]; exact this

/-- a checksum made for other shared data (with a different 4-byte digest prefix) is refused -/
theorem shift_mismatch (sha : Bytes → Bytes) (x y : Shared) (d : Bytes)
    (hx : 4 ≤ (sha x.bytes).length) (hy : 4 ≤ (sha y.bytes).length)
    (hne : (sha x.bytes).take 4 ≠ (sha y.bytes).take 4) :
    shiftChecksum sha y (unshiftChecksum sha x d) = (false, []) := by
  have hlx : ((sha x.bytes).take checksumLen).length = 4 := by
    rw [List.length_take, checksumLen_eq]; omega
  have hly : ((sha y.bytes).take checksumLen).length = 4 := by
    rw [List.length_take, checksumLen_eq]; omega
  unfold shiftChecksum unshiftChecksum
  rw [if_neg (by rw [List.length_append, hlx, checksumLen_eq]; omega)]
  have : ¬ (isPrefix ((sha y.bytes).take checksumLen) ((sha x.bytes).take checksumLen ++ d) = true) := by
    intro hp
    obtain ⟨t, ht⟩ := (isPrefix_iff _ _).mp hp
    have := List.append_inj ht (by rw [hlx, hly])
    rw [checksumLen_eq] at this
    exact hne this.1
  rw [if_pos this]

/-- data shorter than a checksum is refused and handed back -/
theorem shift_short (sha : Bytes → Bytes) (x : Shared) (data : Bytes) (h : data.length < 4) :
    shiftChecksum sha x data = (false, data) := by
  unfold shiftChecksum
  rw [if_pos (by rw [checksumLen_eq]; exact h)]

/-! ## decoding is sound -/

/-- decoded bytes are bytes -/
theorem quanta_lt : ∀ (s b : Bytes), b64DecQuanta s = some b → ∀ y ∈ b, y < 256
  | [], b, h => by
    simp only [b64DecQuanta, Option.some.injEq] at h
    subst h; simp
  | [_], b, h => by simp [b64DecQuanta] at h
  | [_, _], b, h => by simp [b64DecQuanta] at h
  | [_, _, _], b, h => by simp [b64DecQuanta] at h
  | a :: b' :: c :: d :: r, b, h => by
    simp only [b64DecQuanta] at h
    split at h
    · split at h
      · split at h
        · rename_i x y hx hy
          have := decSextet_lt _ _ hx; have := decSextet_lt _ _ hy
          simp only [Option.some.injEq] at h; subst h
          intro z hz; simp only [List.mem_cons, List.not_mem_nil, or_false] at hz; subst hz; omega
        · simp at h
      · split at h
        · rename_i x y z hx hy hz
          have := decSextet_lt _ _ hx; have := decSextet_lt _ _ hy; have := decSextet_lt _ _ hz
          simp only [Option.some.injEq] at h; subst h
          intro w hw; simp only [List.mem_cons, List.not_mem_nil, or_false] at hw
          rcases hw with rfl | rfl <;> omega
        · simp at h
    · split at h
      · rename_i x y z w rest hx hy hz hw hr
        have := decSextet_lt _ _ hx; have := decSextet_lt _ _ hy; have := decSextet_lt _ _ hz
        have := decSextet_lt _ _ hw
        have ih := quanta_lt r rest hr
        simp only [Option.some.injEq] at h; subst h
        intro v hv; simp only [List.mem_cons] at hv
        rcases hv with rfl | rfl | rfl | hv
        · omega
        · omega
        · omega
        · exact ih v hv
      · simp at h

theorem be4_beVal (a b c d : Nat) (ha : a < 256) (hb : b < 256) (hc : c < 256) (hd : d < 256) :
    be 4 (beVal [a, b, c, d]) = [a, b, c, d] ∧ beVal [a, b, c, d] < 2 ^ 32 := by
  rw [be4_eq]
  simp only [beVal, List.length_cons, List.length_nil]
  refine ⟨?_, by omega⟩
  congr 1
  · omega
  · congr 1
    · omega
    · congr 1
      · omega
      · congr 1; omega

theorem len4 (l : Bytes) (h : l.length = 4) : ∃ a b c d, l = [a, b, c, d] := by
  match l, h with
  | [a, b, c, d], _ => exact ⟨a, b, c, d, rfl⟩

/-- what `decodeBytes` accepts is a well-formed value and exactly the serialisation of what it returns -/
theorem decodeBytes_sound (b : Bytes) (x : Shared) (hb : ∀ y ∈ b, y < 256) (h : decodeBytes b = some x) :
    x.WF ∧ x.bytes = b := by
  unfold decodeBytes at h
  split at h
  · simp at h
  · rename_i hl
    have hl : b.length = 28 := by
      have : sharedLen = 28 := by decide
      rw [this] at hl; omega
    simp only [Option.some.injEq, uint160Size] at h
    have l1 : ((b.drop 20).take 4).length = 4 := by simp [List.length_take, List.length_drop]; omega
    have l2 : ((b.drop (20 + 4)).take 4).length = 4 := by simp [List.length_take, List.length_drop]; omega
    obtain ⟨a1, b1, c1, d1, e1⟩ := len4 _ l1
    obtain ⟨a2, b2, c2, d2, e2⟩ := len4 _ l2
    have m1 : ∀ y ∈ (b.drop 20).take 4, y < 256 := fun y hy => hb y (List.mem_of_mem_drop (List.mem_of_mem_take hy))
    have m2 : ∀ y ∈ (b.drop (20 + 4)).take 4, y < 256 := fun y hy => hb y (List.mem_of_mem_drop (List.mem_of_mem_take hy))
    rw [e1] at m1; rw [e2] at m2
    have r1 := be4_beVal a1 b1 c1 d1 (m1 _ (by simp)) (m1 _ (by simp)) (m1 _ (by simp)) (m1 _ (by simp))
    have r2 := be4_beVal a2 b2 c2 d2 (m2 _ (by simp)) (m2 _ (by simp)) (m2 _ (by simp)) (m2 _ (by simp))
    subst h
    refine ⟨⟨?_, ?_, ?_, ?_⟩, ?_⟩
    · simp [uint160Size, List.length_take]; omega
    · intro y hy; exact hb y (List.mem_of_mem_take hy)
    · simp only [e1]; exact r1.2
    · simp only [e2]; exact r2.2
    · simp only [Shared.bytes, e1, e2, r1.1, r2.1]
      rw [← e1, ← e2]
      have d24 : b.drop (20 + 4) = (b.drop 20).drop 4 := by rw [List.drop_drop]
      have t2 : (b.drop (20 + 4)).take 4 = b.drop (20 + 4) := List.take_of_length_le (by simp [List.length_drop]; omega)
      rw [t2, d24, List.append_assoc, List.take_append_drop, List.take_append_drop]

/-! ## NNS names -/

theorem str_append_left_cancel (p a b : String) (h : p ++ a = p ++ b) : a = b := by
  have := congrArg String.toList h
  simp only [String.toList_append] at this
  exact String.toList_inj.mp (List.append_cancel_left this)

theorem str_append_right_cancel (a b s : String) (h : a ++ s = b ++ s) : a = b := by
  have := congrArg String.toList h
  simp only [String.toList_append] at this
  exact String.toList_inj.mp (List.append_cancel_right this)

theorem sigDomain_inj (i j : Int) (h : sigDomain i = sigDomain j) : i = j := by
  unfold sigDomain at h
  have h1 := str_append_right_cancel _ _ _ h
  have h2 := str_append_right_cancel _ _ _ h1
  have h3 := str_append_left_cancel _ _ _ h2
  exact Int.repr_inj.mp h3

theorem repr_ne_tx (i : Int) : toString i ≠ "tx" := by
  intro h
  rw [Int.toString_eq_repr, Int.repr_eq_if] at h
  split at h
  · have := congrArg String.toList h
    rw [Nat.toList_repr] at this
    have hd : ('t' : Char).isDigit = true :=
      Nat.isDigit_of_mem_toDigits (by decide) (by decide) (this ▸ (by decide : 't' ∈ ("tx" : String).toList))
    exact absurd hd (by decide)
  · have := congrArg String.toList h
    rw [String.toList_append] at this
    have : ("-" : String).toList ++ ((-i).toNat.repr).toList = ['t', 'x'] := this
    simp at this

theorem notaryTx_eq : Generated.deploy_domainDesignateNotaryTx =
    Generated.deploy_domainDesignateNotaryPrefix ++ "tx" ++ "." ++ Generated.deploy_domainBootstrap := by decide

theorem sigDomain_ne_tx (i : Int) : sigDomain i ≠ Generated.deploy_domainDesignateNotaryTx := by
  intro h
  rw [notaryTx_eq] at h
  unfold sigDomain at h
  have h1 := str_append_right_cancel _ _ _ h
  have h2 := str_append_right_cancel _ _ _ h1
  have h3 := str_append_left_cancel _ _ _ h2
  exact repr_ne_tx i h3

theorem alphabetDomain_inj (i j : Int) (h : alphabetDomain i = alphabetDomain j) : i = j := by
  unfold alphabetDomain at h
  exact Int.repr_inj.mp (str_append_left_cancel _ _ _ h)

end NeoFS.DeployHelpers
