import NeoFS.Lemmas.UpgradeGate
/-! Alphabet `switchToNotary`: what it does to the storage and to the native GAS / Notary ledger. -/
namespace NeoFS.Upgrade
open NeoFS NeoFS.Generated

/-! ### the ledger -/

theorem sumOf_cons (k : Bytes) (x : Int) (r : List (Bytes × Int)) (a : Bytes) :
    sumOf ((k, x) :: r) a = (if k = a then x else 0) + sumOf r a := rfl

theorem sum_map_cons (k : Bytes) (x : Int) (r : List (Bytes × Int)) :
    (((k, x) :: r).map (·.2)).sum = x + (r.map (·.2)).sum := by simp

/-- number of occurrences of `a` in `l` -/
def cnt (l : List Bytes) (a : Bytes) : Int :=
  match l with
  | [] => 0
  | k :: r => (if k = a then 1 else 0) + cnt r a

theorem cnt_append (l₁ l₂ : List Bytes) (a : Bytes) : cnt (l₁ ++ l₂) a = cnt l₁ a + cnt l₂ a := by
  induction l₁ with
  | nil => simp [cnt]
  | cons k r ih => simp only [List.cons_append, cnt, ih]; omega

/-- **one GAS transfer by the contract**: `amt` moves from the contract to `to`, nothing else moves; a Notary
deposit is credited to the receiver named in `data` -/
theorem gasTransfer_spec {h : Int} {ae : AlphaEnv} {L L' : Ledger} {to : Bytes} {amt : Int}
    {data : Option (Bytes × Int)} (ht : gasTransfer h ae L to amt data = some L') :
    0 ≤ amt ∧ amt ≤ balOf L ae.self ∧
    (∀ a, balOf L' a = balOf L a + (if to = a then amt else 0) - (if ae.self = a then amt else 0)) ∧
    totalGas L' = totalGas L ∧
    (∀ a, depOf L' a = depOf L a +
      (match data with | some (rcv, _) => if to = ae.notary ∧ rcv = a then amt else 0 | none => 0)) := by
  unfold gasTransfer at ht
  by_cases h0 : amt < 0
  · simp [h0] at ht
  · simp only [h0, if_false] at ht
    by_cases h1 : balOf L ae.self < amt
    · simp [h1] at ht
    · simp only [h1, if_false] at ht
      have balStep : ∀ (L1 : Ledger), L1.bal = (to, amt) :: (ae.self, -amt) :: L.bal →
          (∀ a, balOf L1 a = balOf L a + (if to = a then amt else 0) - (if ae.self = a then amt else 0)) ∧
          totalGas L1 = totalGas L := by
        intro L1 hb
        constructor
        · intro a
          unfold balOf
          rw [hb, sumOf_cons, sumOf_cons]
          by_cases e1 : to = a <;> by_cases e2 : ae.self = a <;> simp [e1, e2] <;> omega
        · unfold totalGas
          rw [hb, sum_map_cons, sum_map_cons]; omega
      refine ⟨by omega, by omega, ?_⟩
      have depStep : ∀ (L1 : Ledger) (rcv : Bytes), L1.dep = (rcv, amt) :: L.dep →
          ∀ a, depOf L1 a = depOf L a + (if rcv = a then amt else 0) := by
        intro L1 rcv hd a
        unfold depOf
        rw [hd, sumOf_cons]; omega
      by_cases hn : to = ae.notary
      · simp only [hn, if_true] at ht
        cases data with
        | none => cases ht
        | some d =>
          obtain ⟨rcv, till⟩ := d
          simp only at ht
          by_cases ht2 : till < h + 2
          · simp [ht2] at ht
          · simp only [ht2, if_false] at ht
            cases htl : tillOf L.till rcv with
            | some t =>
              rw [htl] at ht
              simp only at ht
              by_cases h3 : till < t
              · simp [h3] at ht
              · simp only [h3, if_false, Option.some.injEq] at ht
                obtain ⟨b1, b2⟩ := balStep L' (by rw [← ht, hn])
                refine ⟨b1, b2, ?_⟩
                intro a
                rw [depStep L' rcv (by rw [← ht]) a]
                simp only [hn, true_and]
            | none =>
              rw [htl] at ht
              simp only at ht
              by_cases h3 : amt < 2 * ae.notaryFee
              · simp [h3] at ht
              · simp only [h3, if_false, Option.some.injEq] at ht
                obtain ⟨b1, b2⟩ := balStep L' (by rw [← ht, hn])
                refine ⟨b1, b2, ?_⟩
                intro a
                rw [depStep L' rcv (by rw [← ht]) a]
                simp only [hn, true_and]
      · simp only [hn, if_false] at ht
        cases hr : ae.rejecting.contains to with
        | true => rw [hr] at ht; simp at ht
        | false =>
          rw [hr] at ht
          simp only [Bool.false_eq_true, if_false, Option.some.injEq] at ht
          obtain ⟨b1, b2⟩ := balStep L' (by rw [← ht])
          refine ⟨b1, b2, ?_⟩
          intro a
          have : depOf L' a = depOf L a := by unfold depOf; rw [← ht]
          rw [this]
          cases data with
          | none => simp
          | some d => obtain ⟨rcv, till⟩ := d; simp [hn]

/-- **the two node loops**: every key of the list (with multiplicity) gets `simple` on its account and `part` as
Notary deposit; the Notary contract's account gets all the deposits; the contract pays all of it -/
theorem payNodes_spec {h : Int} {ae : AlphaEnv} {simple part : Int} {L L' : Ledger} {ks : List Bytes}
    (hp : payNodes h ae simple part L ks = some L') :
    (∀ a, balOf L' a = balOf L a + simple * cnt ks a + (if ae.notary = a then part * (ks.length : Int) else 0)
        - (if ae.self = a then (simple + part) * (ks.length : Int) else 0)) ∧
    totalGas L' = totalGas L ∧
    (∀ a, depOf L' a = depOf L a + part * cnt ks a) := by
  induction ks generalizing L with
  | nil =>
    simp only [payNodes, Option.some.injEq] at hp
    subst hp
    simp [cnt]
  | cons k r ih =>
    unfold payNodes at hp
    cases h1 : gasTransfer h ae L k simple none with
    | none => rw [h1] at hp; cases hp
    | some L1 =>
      rw [h1] at hp
      simp only at hp
      cases h2 : gasTransfer h ae L1 ae.notary part (some (k, h + lockInterval)) with
      | none => rw [h2] at hp; cases hp
      | some L2 =>
        rw [h2] at hp
        simp only at hp
        obtain ⟨_, _, a1, t1, d1⟩ := gasTransfer_spec h1
        obtain ⟨_, _, a2, t2, d2⟩ := gasTransfer_spec h2
        obtain ⟨a3, t3, d3⟩ := ih hp
        refine ⟨?_, by rw [t3, t2, t1], ?_⟩
        · intro a
          rw [a3 a, a2 a, a1 a]
          simp only [cnt, List.length_cons]
          have e1 : ((r.length + 1 : Nat) : Int) = (r.length : Int) + 1 := by omega
          rw [e1]
          by_cases c1 : k = a <;> by_cases c2 : ae.notary = a <;> by_cases c3 : ae.self = a <;>
            simp only [c1, c2, c3, if_true, if_false] <;>
            simp only [Int.mul_add, Int.add_mul, Int.mul_one, Int.mul_zero] <;> omega
        · intro a
          rw [d3 a, d2 a, d1 a]
          simp only [cnt, true_and]
          by_cases c1 : k = a <;> simp only [c1, if_true, if_false] <;>
            simp only [Int.mul_add, Int.mul_one, Int.mul_zero] <;> omega

/-- the contract keeps at least a quarter: what is distributed never exceeds `b * 3 / 4` -/
theorem alphaShares_le (b n : Int) (hb : 0 ≤ b) (hn : 0 < n) :
    (alphaShares b n).1 + n * ((alphaShares b n).2.1 + (alphaShares b n).2.2) ≤ b * 3 / 4 := by
  unfold alphaShares
  simp only
  have e : ∀ x y : Int, (x - y) + y = x := by intros; omega
  rw [e]
  have := Int.ediv_mul_le (b * 3 / 4 - b * 3 / 4 / 2) (Int.ne_of_gt hn)
  rw [Int.mul_comm] at this
  omega

/-! ### the whole `switchToNotary` of Alphabet -/

/-- **the distribution, account by account** -/
theorem alphaDistribute_spec {h : Int} {ae : AlphaEnv} {proxy : Bytes} {L' : Ledger}
    (hd : alphaDistribute h ae proxy = some L') :
    ∃ snKeys, nodeKeys ae.nodes = some snKeys ∧
      balOf ae.ledger ae.self * 3 / 4 ≠ 0 ∧ ae.nodes.length + ae.irKeys.length ≠ 0 ∧
      (∀ a, balOf L' a = balOf ae.ledger a
          + (if proxy = a then (alphaShares (balOf ae.ledger ae.self) ((ae.nodes.length + ae.irKeys.length : Nat) : Int)).1 else 0)
          + (alphaShares (balOf ae.ledger ae.self) ((ae.nodes.length + ae.irKeys.length : Nat) : Int)).2.1 * cnt (ae.irKeys ++ snKeys) a
          + (if ae.notary = a then (alphaShares (balOf ae.ledger ae.self) ((ae.nodes.length + ae.irKeys.length : Nat) : Int)).2.2
              * ((ae.irKeys ++ snKeys).length : Int) else 0)
          - (if ae.self = a then (alphaShares (balOf ae.ledger ae.self) ((ae.nodes.length + ae.irKeys.length : Nat) : Int)).1
              + ((alphaShares (balOf ae.ledger ae.self) ((ae.nodes.length + ae.irKeys.length : Nat) : Int)).2.1
                + (alphaShares (balOf ae.ledger ae.self) ((ae.nodes.length + ae.irKeys.length : Nat) : Int)).2.2)
                * ((ae.irKeys ++ snKeys).length : Int) else 0)) ∧
      totalGas L' = totalGas ae.ledger ∧
      (∀ a, depOf L' a = depOf ae.ledger a
          + (alphaShares (balOf ae.ledger ae.self) ((ae.nodes.length + ae.irKeys.length : Nat) : Int)).2.2 * cnt (ae.irKeys ++ snKeys) a) := by
  unfold alphaDistribute at hd
  by_cases hg : balOf ae.ledger ae.self * 3 / 4 = 0
  · simp [hg] at hd
  · simp only [hg, if_false] at hd
    by_cases hn : ae.nodes.length + ae.irKeys.length = 0
    · simp [hn] at hd
    · simp only [hn, if_false] at hd
      cases h1 : gasTransfer h ae ae.ledger proxy
          (alphaShares (balOf ae.ledger ae.self) ((ae.nodes.length + ae.irKeys.length : Nat) : Int)).1 none with
      | none => rw [h1] at hd; cases hd
      | some L1 =>
        rw [h1] at hd
        simp only at hd
        cases hk : nodeKeys ae.nodes with
        | none => rw [hk] at hd; cases hd
        | some snKeys =>
          rw [hk] at hd
          simp only at hd
          obtain ⟨_, _, a1, t1, d1⟩ := gasTransfer_spec h1
          obtain ⟨a2, t2, d2⟩ := payNodes_spec hd
          refine ⟨snKeys, rfl, hg, hn, ?_, by rw [t2, t1], ?_⟩
          · intro a
            rw [a2 a, a1 a]
            by_cases c1 : proxy = a <;> by_cases c2 : ae.notary = a <;> by_cases c3 : ae.self = a <;>
              simp only [c1, c2, c3, if_true, if_false] <;> omega
          · intro a
            rw [d2 a, d1 a]; simp

/-- the outcome of a non-faulting Alphabet `switchToNotary` -/
inductive AlphaOutcome (h : Int) (ae : AlphaEnv) (s : Store) (s' : Store) (L' : Ledger) : Prop where
  /-- already notarized: nothing happens -/
  | notarized (hflag : get s notaryKey = none) (hs : s' = s) (hl : L' = ae.ledger)
  /-- the flag reads false: it is removed, no GAS moves -/
  | flagFalse (nv : Bytes) (hflag : get s notaryKey = some nv) (hb : bytesToBool nv = some false)
      (hs : s' = del s notaryKey) (hl : L' = ae.ledger)
  /-- non-notary mode: votes purged, GAS distributed, Proxy address stored, flag removed -/
  | distributed (nv : Bytes) (hflag : get s notaryKey = some nv) (hb : bytesToBool nv = some true)
      (proxy : Bytes) (hlen : proxy.length = 20 ∨ ae.nnsProxy = some proxy)
      (hpurge : tryPurgeVotes s h = some (true, del s voteKey))
      (hd : alphaDistribute h ae proxy = some L')
      (hs : s' = del (put (del s voteKey) alphaProxyKey proxy) notaryKey)

theorem alphaProxy_some {args : List Item} {ae : AlphaEnv} {proxy : Bytes} (hp : alphaProxy args ae = some proxy) :
    proxy.length = 20 ∨ ae.nnsProxy = some proxy := by
  unfold alphaProxy at hp
  split at hp
  · rename_i p _
    by_cases h0 : p.length > 0
    · simp only [h0, if_true] at hp
      by_cases h20 : p.length = 20
      · simp only [h20, ne_eq, not_true_eq_false, if_false, Option.some.injEq] at hp
        left; rw [← hp]; exact h20
      · simp [h20] at hp
    · simp only [h0, if_false] at hp
      right; exact hp
  · cases hp

theorem alphaNonNotary_outcome {args : List Item} {h : Int} {ae : AlphaEnv} {s s' : Store} {L' : Ledger}
    (hm : alphaNonNotary args h ae s = some (s', L')) :
    ∃ proxy, (proxy.length = 20 ∨ ae.nnsProxy = some proxy) ∧ tryPurgeVotes s h = some (true, del s voteKey) ∧
      alphaDistribute h ae proxy = some L' ∧ s' = del (put (del s voteKey) alphaProxyKey proxy) notaryKey := by
  unfold alphaNonNotary at hm
  cases hp : alphaProxy args ae with
  | none => rw [hp] at hm; cases hm
  | some proxy =>
    rw [hp] at hm
    simp only at hm
    cases ht : tryPurgeVotes s h with
    | none => rw [ht] at hm; cases hm
    | some r =>
      obtain ⟨ok, s1⟩ := r
      rw [ht] at hm
      simp only at hm
      cases ok with
      | false => simp at hm
      | true =>
        simp only [Bool.not_true, Bool.false_eq_true, if_false] at hm
        have hs1 : s1 = del s voteKey := by
          rcases tryPurgeVotes_store ht with ⟨e, _⟩ | ⟨_, e⟩
          · cases e
          · exact e
        cases hnm : alphaNetmap args s1 with
        | none => rw [hnm] at hm; cases hm
        | some nm =>
          rw [hnm] at hm
          simp only at hm
          by_cases hne : nm ≠ ae.netmapHash
          · simp [hne] at hm
          · simp only [hne, if_false] at hm
            cases hd : alphaDistribute h ae proxy with
            | none => rw [hd] at hm; cases hm
            | some L2 =>
              rw [hd] at hm
              simp only [Option.some.injEq, Prod.mk.injEq] at hm
              refine ⟨proxy, alphaProxy_some hp, by rw [← hs1], ?_, ?_⟩
              · rw [← hm.2]; exact hd
              · rw [← hm.1, hs1]

theorem alphabetSwitchFull_outcome {args : List Item} {h : Int} {ae : AlphaEnv} {s s' : Store} {L' : Ledger}
    (hm : alphabetSwitchFull args h ae s = some (s', L')) : AlphaOutcome h ae s s' L' := by
  unfold alphabetSwitchFull at hm
  cases h3 : args[3]? with
  | none => rw [h3] at hm; cases hm
  | some nameI =>
    rw [h3] at hm
    simp only at hm
    cases hn : get s notaryKey with
    | none =>
      rw [hn] at hm
      simp only at hm
      by_cases hl : loggableName nameI = true
      · rw [if_pos hl] at hm
        simp only [Option.some.injEq, Prod.mk.injEq] at hm
        exact .notarized hn hm.1.symm hm.2.symm
      · rw [if_neg hl] at hm; cases hm
    | some nv =>
      rw [hn] at hm
      simp only at hm
      cases hb : bytesToBool nv with
      | none => rw [hb] at hm; cases hm
      | some flag =>
        rw [hb] at hm
        cases flag with
        | false =>
          simp only [Option.some.injEq, Prod.mk.injEq] at hm
          exact .flagFalse nv hn hb hm.1.symm hm.2.symm
        | true =>
          simp only at hm
          by_cases hl : loggableName nameI = true
          · rw [if_pos hl] at hm
            obtain ⟨proxy, h1, h2, h3', h4⟩ := alphaNonNotary_outcome hm
            exact .distributed nv hn hb proxy h1 h2 h3' h4
          · rw [if_neg hl] at hm; cases hm

/-- **pending votes block the Alphabet upgrade too** -/
theorem alphabetSwitchFull_pending {args : List Item} {h : Int} {ae : AlphaEnv} {s : Store} {nv : Bytes}
    {l : List Item} (hn : get s notaryKey = some nv) (hb : bytesToBool nv = some true)
    (hg : getBallots s = some l)
    (hp : ∃ c ∈ l, ∃ bh, ballotHeight c = some bh ∧ h - bh ≤ common_blockDiff) :
    alphabetSwitchFull args h ae s = none := by
  cases hm : alphabetSwitchFull args h ae s with
  | none => rfl
  | some r =>
    obtain ⟨s', L'⟩ := r
    exfalso
    cases alphabetSwitchFull_outcome hm with
    | notarized hflag _ _ => rw [hn] at hflag; cases hflag
    | flagFalse nv' hflag hb' _ _ =>
      rw [hn] at hflag; simp only [Option.some.injEq] at hflag; subst hflag; rw [hb] at hb'; cases hb'
    | distributed nv' _ _ proxy _ hpurge _ _ =>
      unfold tryPurgeVotes at hpurge
      rw [hg] at hpurge
      simp only at hpurge
      have := pendingLoop_pending hp
      cases hx : pendingLoop h l with
      | none => rw [hx] at hpurge; cases hpurge
      | some p =>
        rw [hx] at hpurge
        cases p with
        | true => simp at hpurge
        | false => exact this hx

/-- how a HALTed Alphabet update, the storage after it and `ledgerAfterUpdate` hang together -/
theorem alphabet_update_cases {st st' : CState} {env : Env} {data : Item} {nefOk : Bool}
    (hu : update .alphabet st env data nefOk = some st') :
    (st.ver < 17000 ∧ ∃ args, appendVersion data st.ver = some args ∧
      alphabetSwitchFull args env.height env.alpha st.store =
        some (st'.store, ledgerAfterUpdate .alphabet st env data nefOk)) ∨
    (¬ st.ver < 17000 ∧ st'.store = st.store ∧ ledgerAfterUpdate .alphabet st env data nefOk = env.alpha.ledger) := by
  obtain ⟨_, _, _, _, args, ha, hm⟩ := update_some hu
  simp only [migrate, alphabetMigrate] at hm
  by_cases hv : st.ver < 17000
  · left
    refine ⟨hv, args, ha, ?_⟩
    simp only [hv, if_true, alphabetSwitch] at hm
    cases hf : alphabetSwitchFull args env.height env.alpha st.store with
    | none => rw [hf] at hm; cases hm
    | some r =>
      obtain ⟨s', L'⟩ := r
      rw [hf] at hm
      simp only [Option.map_some, Option.some.injEq] at hm
      unfold ledgerAfterUpdate
      rw [hu, ha]
      simp only [hv, if_true, hf]
      rw [hm]
  · right
    simp only [hv, if_false, Option.some.injEq] at hm
    refine ⟨hv, hm.symm, ?_⟩
    unfold ledgerAfterUpdate
    rw [hu, ha]
    simp only [hv, if_false]

theorem ledgerAfterUpdate_fault {k : Kind} {st : CState} {env : Env} {data : Item} {nefOk : Bool}
    (hu : update k st env data nefOk = none) : ledgerAfterUpdate k st env data nefOk = env.alpha.ledger := by
  unfold ledgerAfterUpdate
  rw [hu]

end NeoFS.Upgrade
