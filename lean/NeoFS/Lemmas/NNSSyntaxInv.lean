import NeoFS.Lemmas.NNSSyntaxEntry
/-! Over all histories: everything the NNS state holds is well-formed. -/
namespace NeoFS.NNSSyntax
open NeoFS NeoFS.NNSSyntax.Spec

/-- every registered root and name is a well-formed name; every stored record belongs to a well-formed name and
holds well-formed data for its type -/
def StoredWellFormed (s : State) : Prop :=
  (∀ r ∈ s.roots, ValidName r) ∧ (∀ d ∈ s.doms, ValidName d.1) ∧
  (∀ r ∈ s.recs, ValidName r.1.name ∧ ∀ x ∈ r.2, WellFormedData r.1.typ x)

def run (s : State) : List (Env × Op) → State
  | [] => s
  | (env, op) :: r => run (invoke s env op).1 r

theorem recsOf_mem (s : State) (k : RecKey) (x : Bytes) (h : x ∈ s.recsOf k) :
    ∃ r ∈ s.recs, r.1 = k ∧ x ∈ r.2 := by
  unfold State.recsOf at h
  cases hf : s.recs.find? (fun r => r.1 == k) with
  | none => rw [hf] at h; simp at h
  | some r =>
    rw [hf] at h
    have hm := List.mem_of_find?_eq_some hf
    have hp := List.find?_some hf
    simp only [beq_iff_eq] at hp
    exact ⟨r, hm, hp, by simpa using h⟩

theorem setNth_mem (l : List Bytes) (i : Nat) (v x : Bytes) (h : x ∈ setNth l i v) : x ∈ l ∨ x = v := by
  induction l generalizing i with
  | nil => simp [setNth] at h
  | cons y r ih =>
    cases i with
    | zero =>
      simp only [setNth, List.mem_cons] at h
      rcases h with h | h
      · exact Or.inr h
      · exact Or.inl (by simp [h])
    | succ i =>
      simp only [setNth, List.mem_cons] at h
      rcases h with h | h
      · exact Or.inl (by simp [h])
      · rcases ih i h with h | h
        · exact Or.inl (by simp [h])
        · exact Or.inr h

theorem setRecs_wf (s : State) (k : RecKey) (v : List Bytes) (hs : StoredWellFormed s)
    (hk : ValidName k.name) (hv : ∀ x ∈ v, WellFormedData k.typ x) : StoredWellFormed (s.setRecs k v) := by
  obtain ⟨h1, h2, h3⟩ := hs
  refine ⟨h1, h2, ?_⟩
  intro r hr
  simp only [State.setRecs, List.mem_cons, List.mem_filter] at hr
  rcases hr with rfl | ⟨hr, _⟩
  · exact ⟨hk, hv⟩
  · exact h3 r hr

theorem registerTLD_wf (s s' : State) (env : Env) (n : Bytes) (hs : StoredWellFormed s)
    (h : registerTLD s env n = some s') : StoredWellFormed s' := by
  have hv : ValidName n := ((registerTLD_isSome_iff s env n).mp (by rw [h]; rfl)).1
  obtain ⟨h1, h2, h3⟩ := hs
  unfold registerTLD at h
  rw [safeSplitAndCheck_valid hv] at h
  dsimp only at h
  split at h
  · cases h
  · split at h
    · cases h
    · split at h
      · cases h
      · have e := Option.some.inj h
        subst e
        refine ⟨?_, ?_, h3⟩
        · intro r hr
          simp only [List.mem_cons, List.mem_filter] at hr
          rcases hr with rfl | ⟨hr, _⟩
          · exact hv
          · exact h1 r hr
        · intro d hd
          simp only [List.mem_cons, List.mem_filter] at hd
          rcases hd with rfl | ⟨hd, _⟩
          · exact hv
          · exact h2 d hd

theorem register_wf (s s' : State) (env : Env) (n : Bytes) (o : Nat) (b : Bool) (hs : StoredWellFormed s)
    (h : register s env n o = some (s', b)) : StoredWellFormed s' := by
  have hv : ValidName n := ((register_isSome_iff s env n o).mp (by rw [h]; rfl)).1
  obtain ⟨h1, h2, h3⟩ := hs
  unfold register at h
  rw [safeSplitAndCheck_valid hv] at h
  dsimp only at h
  split at h
  · cases h
  · split at h
    · cases h
    · split at h
      · cases h
      · split at h
        · cases h
        · split at h
          · cases h
          · split at h
            · cases h
            · split at h
              · have e := (Prod.mk.inj (Option.some.inj h)).1
                subst e; exact ⟨h1, h2, h3⟩
              · have e := (Prod.mk.inj (Option.some.inj h)).1
                subst e
                refine ⟨h1, ?_, h3⟩
                intro d hd
                simp only [List.mem_cons] at hd
                rcases hd with rfl | hd
                · exact hv
                · exact h2 d hd

theorem oldRecs_wf (s : State) (k : RecKey) (hs : StoredWellFormed s) :
    ∀ x ∈ s.recsOf k, WellFormedData k.typ x := by
  intro x hx
  obtain ⟨r, hr, hk, hx'⟩ := recsOf_mem s k x hx
  rw [← hk]; exact (hs.2.2 r hr).2 x hx'

theorem addRecord_wf (s s' : State) (env : Env) (n : Bytes) (t : Nat) (d : Bytes) (hs : StoredWellFormed s)
    (h : addRecord s env n t d = some s') : StoredWellFormed s' := by
  have hw := (addRecord_isSome_iff s env n t d).mp (by rw [h]; rfl)
  unfold addRecord at h
  cases hc : checkRecord s env n t d with
  | none => rw [hc] at h; cases h
  | some tok =>
    rw [hc] at h
    dsimp only at h
    split at h
    · cases h
    · split at h
      · cases h
      · split at h
        · cases h
        · have e := Option.some.inj h
          subst e
          apply setRecs_wf s _ _ hs hw.1
          intro x hx
          simp only [List.mem_append, List.mem_singleton] at hx
          rcases hx with hx | rfl
          · exact oldRecs_wf s ⟨tok, n, t⟩ hs x hx
          · exact hw.2.1

theorem setRecord_wf (s s' : State) (env : Env) (n : Bytes) (t id : Nat) (d : Bytes) (hs : StoredWellFormed s)
    (h : setRecord s env n t id d = some s') : StoredWellFormed s' := by
  have hw := (setRecord_isSome_iff s env n t id d).mp (by rw [h]; rfl)
  unfold setRecord at h
  cases hc : checkRecord s env n t d with
  | none => rw [hc] at h; cases h
  | some tok =>
    rw [hc] at h
    dsimp only at h
    split at h
    · cases h
    · split at h
      · cases h
      · have e := Option.some.inj h
        subst e
        apply setRecs_wf s _ _ hs hw.1
        intro x hx
        rcases setNth_mem _ _ _ _ hx with hx | rfl
        · exact oldRecs_wf s ⟨tok, n, t⟩ hs x hx
        · exact hw.2.1

theorem invoke_wf (s : State) (env : Env) (op : Op) (hs : StoredWellFormed s) :
    StoredWellFormed (invoke s env op).1 := by
  unfold invoke
  cases h : step s env op with
  | none => exact hs
  | some r =>
    obtain ⟨s', ret⟩ := r
    show StoredWellFormed s'
    cases op with
    | avail n =>
      simp only [step] at h
      cases hi : isAvailable s n with
      | none => rw [hi] at h; cases h
      | some b => rw [hi] at h; simp only [Option.map_some, Option.some.injEq, Prod.mk.injEq] at h; rw [← h.1]; exact hs
    | get n t =>
      simp only [step] at h
      cases hi : getRecords s n t with
      | none => rw [hi] at h; cases h
      | some b => rw [hi] at h; simp only [Option.map_some, Option.some.injEq, Prod.mk.injEq] at h; rw [← h.1]; exact hs
    | tld n =>
      simp only [step] at h
      cases hi : registerTLD s env n with
      | none => rw [hi] at h; cases h
      | some s1 =>
        rw [hi] at h; simp only [Option.map_some, Option.some.injEq, Prod.mk.injEq] at h
        rw [← h.1]; exact registerTLD_wf s s1 env n hs hi
    | reg n o =>
      simp only [step] at h
      cases hi : register s env n o with
      | none => rw [hi] at h; cases h
      | some r1 =>
        obtain ⟨s1, b⟩ := r1
        rw [hi] at h; simp only [Option.map_some, Option.some.injEq, Prod.mk.injEq] at h
        rw [← h.1]; exact register_wf s s1 env n o b hs hi
    | add n t d =>
      simp only [step] at h
      cases hi : addRecord s env n t d with
      | none => rw [hi] at h; cases h
      | some s1 =>
        rw [hi] at h; simp only [Option.map_some, Option.some.injEq, Prod.mk.injEq] at h
        rw [← h.1]; exact addRecord_wf s s1 env n t d hs hi
    | set n t i d =>
      simp only [step] at h
      cases hi : setRecord s env n t i d with
      | none => rw [hi] at h; cases h
      | some s1 =>
        rw [hi] at h; simp only [Option.map_some, Option.some.injEq, Prod.mk.injEq] at h
        rw [← h.1]; exact setRecord_wf s s1 env n t i d hs hi

theorem run_wf (hist : List (Env × Op)) : ∀ s, StoredWellFormed s → StoredWellFormed (run s hist) := by
  induction hist with
  | nil => intro s hs; exact hs
  | cons eo r ih =>
    intro s hs
    obtain ⟨env, op⟩ := eo
    exact ih _ (invoke_wf s env op hs)

theorem init_wf : StoredWellFormed init := by
  have hv : ValidName Generated.common_ContractTLD_bytes := (safeSplitAndCheck_isSome_iff _).mp (by decide)
  refine ⟨?_, ?_, ?_⟩
  · intro r hr; simp only [init, List.mem_singleton] at hr; rw [hr]; exact hv
  · intro d hd; simp only [init, List.mem_singleton] at hd; rw [hd]; exact hv
  · intro r hr; simp [init] at hr

end NeoFS.NNSSyntax
